/-
C19 — the partitioner rejects exactly the graphs with same-tick cycles.

Model: `HvPart.partitionWith ts` (Model/Partition.lean), a transcription of `partition_graph`; the
dependency graph is `Flat.depPairs` = the `all_preds` map that `find_subgraph_unionfind` hands to
`SubgraphMerge::new`:  non-delayed pipe edges + reference edges (+ borrower-before-consumer) +
access-order edges + loop-ingress (block-contiguity) edges (DESIGN §7 F9: part of the reading).

`topo_sort` is a parameter `ts` with its specification `TopoSpec`; the model as run (`partition`) uses
`tsC17`, the C17 transcription of `topo_sort` (project HvGraphAlg, copied into `HvPart/C17/` together with its
correctness proof on every run), for which `TopoSpec` is proved here (`tsC17_meets_TopoSpec`), so the
`partition_*` theorems at the end carry no hypothesis about the sort.  The correspondence check compares the
model's answer (Ok/Err, the exact cycle) with the real `partition_graph` on every case.

What the Rust code does besides returning `Err`:
* `find_access_group_ordering` *panics* (`assert_ne!`) when one operator sits in two consecutive access
  groups of the same handoff — a self-dependency; modelled as `Outcome.panic "conflicted-refs"` and
  counted as a rejection (`conflictedRefs_is_self_cycle`).
* `SubgraphMerge::new` used to *panic* (`assert_ne!(a, b)`) on a delayed self-edge `d = defer_tick(); d -> d`
  although the dependency graph is acyclic (finding F19, fixed in /repo: self-pairs are no longer enemy pairs);
  the witness is now accepted (`delayed_self_edge_accepted`) and the assert cannot fire (`new_accepts_enemy_pairs`).
-/
import HvPart.Model.Partition
import HvPart.C17.TopoThms

namespace HvPart

/-! ### cycles -/

/-- consecutive elements of the list are related -/
def Path (E : Nat → Nat → Prop) : List Nat → Prop
  | [] => True
  | [_] => True
  | a :: b :: t => E a b ∧ Path E (b :: t)

/-- `c` is a non-empty closed walk of `E`: consecutive elements related and the last related to the first -/
def IsCycle (E : Nat → Nat → Prop) (c : List Nat) : Prop :=
  ∃ h t, c = h :: t ∧ Path E (h :: t) ∧ E ((h :: t).getLast (List.cons_ne_nil h t)) h

def HasCycle (E : Nat → Nat → Prop) : Prop := ∃ c, IsCycle E c

/-- the dependency relation of the flat graph: `Dep g a b` = `a` must run before `b` in the same tick -/
def Dep (g : Flat) (a b : Nat) : Prop := (b, a) ∈ g.depPairs

instance (g : Flat) (a b : Nat) : Decidable (Dep g a b) := by unfold Dep; infer_instance

/-- specification of `topo_sort(node_ids, preds_fn)`: an answer `Ok(order)` lists every node after all its
    predecessors, an answer `Err(cycle)` is a closed walk of the predecessor graph.  Proved below for the
    sort the model runs (`tsC17_meets_TopoSpec`). -/
structure TopoSpec (ts : TopoSortFn) : Prop where
  ok_sound : ∀ nodes preds order, ts nodes preds = .ok order →
    (∀ n ∈ nodes, n ∈ order) ∧ (∀ n ∈ nodes, ∀ p ∈ preds n, order.idxOf p < order.idxOf n)
  err_sound : ∀ nodes preds c, ts nodes preds = .error c → IsCycle (fun a b => a ∈ preds b) c

/-- well-formedness of the dump: edge heads and referencing nodes are nodes of the graph -/
structure Flat.WF (g : Flat) : Prop where
  edge_dst : ∀ e ∈ g.edges, e.dst ∈ g.nodeIds
  ref_node : ∀ r ∈ g.refs, r.node ∈ g.nodeIds

/-! ### helper lemmas -/

theorem aux_path_mono {E F : Nat → Nat → Prop} (h : ∀ a b, E a b → F a b) :
    ∀ l, Path E l → Path F l
  | [], _ => trivial
  | [_], _ => trivial
  | a :: b :: t, hp => ⟨h a b hp.1, aux_path_mono h (b :: t) hp.2⟩

theorem aux_path_le (f : Nat → Nat) :
    ∀ (t : List Nat) (h : Nat), Path (fun a b => f a < f b) (h :: t) →
      f h ≤ f ((h :: t).getLast (List.cons_ne_nil h t))
  | [], h, _ => by simp
  | b :: t, h, hp => by
    have ih := aux_path_le f t b hp.2
    have h1 : f h < f b := hp.1
    rw [List.getLast_cons (List.cons_ne_nil b t)]
    omega

/-- a relation that strictly increases a rank has no cycle -/
theorem aux_no_cycle_of_rank (E : Nat → Nat → Prop) (f : Nat → Nat)
    (hr : ∀ a b, E a b → f a < f b) : ¬ HasCycle E := by
  rintro ⟨c, h, t, _, hp, hclose⟩
  have h1 := aux_path_le f t h (aux_path_mono hr _ hp)
  have h2 := hr _ _ hclose
  omega

/-- every edge of a cycle -/
theorem aux_cycle_mono {E F : Nat → Nat → Prop} (h : ∀ a b, E a b → F a b) {c : List Nat}
    (hc : IsCycle E c) : IsCycle F c := by
  obtain ⟨x, t, rfl, hp, hcl⟩ := hc
  exact ⟨x, t, rfl, aux_path_mono h _ hp, h _ _ hcl⟩

theorem aux_aget_map (keys : List Nat) (f : Nat → List Nat) (k : Nat) :
    aget (keys.map (fun k => (k, f k))) k = if k ∈ keys then some (f k) else none := by
  induction keys with
  | nil => simp [aget]
  | cons a t ih =>
    simp only [List.map_cons, aget, List.mem_cons]
    by_cases h : a = k
    · subst h; simp
    · simp only [h, if_false, ih]
      have : ¬ k = a := fun e => h e.symm
      simp [this]

theorem aux_mem_predsOf {pairs : List (Nat × Nat)} {a b : Nat} :
    a ∈ Flat.predsOf pairs b ↔ (b, a) ∈ pairs := by
  unfold Flat.predsOf
  simp only [List.mem_map, List.mem_filter, beq_iff_eq]
  constructor
  · rintro ⟨⟨x, y⟩, ⟨hm, hx⟩, hy⟩
    simp only at hx hy
    subst hx; subst hy; exact hm
  · intro h; exact ⟨(b, a), ⟨h, rfl⟩, rfl⟩

/-- the predecessor function `SubgraphMerge::new` builds from `all_preds` -/
def newPreds (g : Flat) : Nat → List Nat :=
  fun k => (aget (g.nodeIds.map (fun k => (k, Flat.predsOf g.depPairs k))) k).getD []

theorem aux_mem_newPreds {g : Flat} {a b : Nat} :
    a ∈ newPreds g b ↔ (b ∈ g.nodeIds ∧ Dep g a b) := by
  unfold newPreds Dep
  rw [aux_aget_map]
  by_cases h : b ∈ g.nodeIds
  · simp [h, aux_mem_predsOf]
  · simp [h]

/-- what `SM.new` answers is decided by the topological sort (and, if that succeeds, by the enemy assert) -/
theorem aux_new_cycle (ts : TopoSortFn) (keys : List Nat) (pf : Nat → List Nat) (en : List (Nat × Nat)) (c : List Nat) :
    (match SM.new ts keys pf en with | .cycle c' => c' = c | _ => False) ↔
      ts keys (fun k => (aget (keys.map (fun k => (k, pf k))) k).getD []) = .error c := by
  simp only [SM.new]
  cases h : ts keys (fun k => (aget (keys.map (fun k => (k, pf k))) k).getD []) with
  | error c' => simp
  | ok topo =>
    simp only
    by_cases he : (en.any fun p => p.1 == p.2) = true
    · simp [he]
    · simp [he]

theorem aux_finish_not_err (g : Flat) (st : MergeSt) (c : List Nat) : finishPartition g st ≠ .err c := by
  unfold finishPartition
  split
  · intro h; cases h
  · simp only
    split
    · intro h; cases h
    · split <;> intro h <;> cases h

/-- the outcome is `err c` exactly when the topological sort of the dependency graph fails with `c` -/
theorem aux_partition_err (ts : TopoSortFn) (g : Flat) (c : List Nat) :
    partitionWith ts g = .err c ↔
      (g.refsConflict = false ∧ ts g.nodeIds (newPreds g) = .error c) := by
  unfold partitionWith
  by_cases hc : g.refsConflict = true
  · simp [hc]
  · have hc' : g.refsConflict = false := by simpa using hc
    simp only [hc', Bool.false_eq_true, if_false, true_and]
    have key := aux_new_cycle ts g.nodeIds (Flat.predsOf g.depPairs) g.enemyPairs c
    cases hn : SM.new ts g.nodeIds (Flat.predsOf g.depPairs) g.enemyPairs with
    | cycle c' =>
      rw [hn] at key
      simp only at key
      constructor
      · intro h; injection h with h; exact key.mp h
      · intro h; rw [key.mpr h]
    | panic msg =>
      rw [hn] at key
      simp only at key
      constructor
      · intro h; cases h
      · intro h; exact (key.mpr h).elim
    | ok sm =>
      rw [hn] at key
      simp only at key
      constructor
      · intro h; exact (aux_finish_not_err g _ c h).elim
      · intro h; exact (key.mpr h).elim

/-! ### `TopoSpec` holds for the sort the model runs (C17's transcription and proof, `HvPart/C17/*`) -/

theorem aux_le_foldl_max (l : List Nat) : ∀ (a x : Nat), (x ≤ a ∨ x ∈ l) → x ≤ l.foldl max a := by
  induction l with
  | nil => intro a x h; rcases h with h | h; exact h; cases h
  | cons y t ih =>
    intro a x h
    simp only [List.foldl_cons]
    apply ih
    rcases h with h | h
    · exact Or.inl (by omega)
    · rcases List.mem_cons.mp h with rfl | h
      · exact Or.inl (by omega)
      · exact Or.inr h

theorem aux_mem_tsPreds {nodes : List Nat} {preds : Nat → List Nat} {p k : Nat} :
    p ∈ tsPreds nodes preds k ↔ k ∈ nodes ∧ p ∈ preds k := by
  unfold tsPreds
  by_cases h : k ∈ nodes <;> simp [h]

theorem aux_ts_bounded (nodes : List Nat) (preds : Nat → List Nat) :
    HvGraphAlg.Bounded (tsBound nodes preds) nodes (tsPreds nodes preds) := by
  refine ⟨fun i hi => ?_, fun k _ p hp => ?_⟩
  · have := aux_le_foldl_max (nodes ++ nodes.flatMap preds) 0 i (Or.inr (List.mem_append_left _ hi))
    unfold tsBound; omega
  · obtain ⟨hk, hp⟩ := aux_mem_tsPreds.mp hp
    have := aux_le_foldl_max (nodes ++ nodes.flatMap preds) 0 p
      (Or.inr (List.mem_append_right _ (List.mem_flatMap.mpr ⟨k, hk, hp⟩)))
    unfold tsBound; omega

/-- the recursion fuel of the C17 model is never exhausted, so the `.fuel` arm of `tsC17` is dead -/
theorem tsC17_never_out_of_fuel (nodes : List Nat) (preds : Nat → List Nat) :
    HvGraphAlg.topoSort (tsBound nodes preds) nodes (tsPreds nodes preds) ≠ .fuel :=
  HvGraphAlg.topoSort_total (aux_ts_bounded nodes preds)

theorem aux_isPath_path {P : Nat → List Nat} {E : Nat → Nat → Prop} (h : ∀ a b, a ∈ P b → E a b) :
    ∀ l, HvGraphAlg.IsPath P l → Path E l
  | [], _ => trivial
  | [_], _ => trivial
  | a :: b :: t, hp => ⟨h a b hp.1, aux_isPath_path h (b :: t) hp.2⟩

/-- **`TopoSpec` is met by the topological sort the model runs** (`tsC17`: the C17 transcription of
    `topo_sort`, whose correctness proof is re-checked in this project). -/
theorem tsC17_meets_TopoSpec : TopoSpec tsC17 := by
  refine ⟨fun nodes preds order h => ?_, fun nodes preds c h => ?_⟩
  · unfold tsC17 at h
    split at h
    · rename_i o ho
      injection h with h
      subst h
      obtain ⟨_, hreach, hresp⟩ := HvGraphAlg.topoSort_ok_respects_edges (aux_ts_bounded nodes preds) ho
      refine ⟨fun n hn => (hreach n).mpr (.start hn), fun n hn p hp => ?_⟩
      exact (hresp n ((hreach n).mpr (.start hn)) p (aux_mem_tsPreds.mpr ⟨hn, hp⟩)).2
    · cases h
    · cases h
  · unfold tsC17 at h
    split at h
    · cases h
    · rename_i c' hc
      injection h with h
      subst h
      obtain ⟨hreal, _⟩ := HvGraphAlg.topoSort_err_is_cycle (aux_ts_bounded nodes preds) hc
      have hE : ∀ a b, a ∈ tsPreds nodes preds b → a ∈ preds b := fun a b hab => (aux_mem_tsPreds.mp hab).2
      cases hcc : c' with
      | nil => exact (hreal.ne hcc).elim
      | cons x t =>
        rw [hcc] at hreal
        refine ⟨x, t, rfl, aux_isPath_path hE _ hreal.path, hE _ _ ?_⟩
        exact hreal.closes x _ rfl (List.getLast?_eq_some_getLast (List.cons_ne_nil x t))
    · rename_i hf
      exact (tsC17_never_out_of_fuel nodes preds hf).elim

/-! ### property theorems -/

/-- **The reported cycle is a real cycle of the dependency graph.** -/
theorem reported_cycle_is_real (ts : TopoSortFn) (hts : TopoSpec ts) (g : Flat) (c : List Nat)
    (h : partitionWith ts g = .err c) : IsCycle (Dep g) c := by
  have h' := ((aux_partition_err ts g c).mp h).2
  exact aux_cycle_mono (fun a b hab => (aux_mem_newPreds.mp hab).2) (hts.err_sound _ _ _ h')

/-- all heads of dependency pairs are nodes of the graph -/
theorem aux_dep_closed (g : Flat) (wf : g.WF) : ∀ p ∈ g.depPairs, p.1 ∈ g.nodeIds := by
  intro p hp
  unfold Flat.depPairs at hp
  simp only [List.mem_append] at hp
  rcases hp with ((hp | hp) | hp) | hp
  · -- pipe
    unfold Flat.pipePairs at hp
    simp only [List.mem_filterMap] at hp
    obtain ⟨e, he, h⟩ := hp
    split at h
    · cases h
    · injection h with h; subst h; exact wf.edge_dst e he
  · -- references
    unfold Flat.refPairs at hp
    simp only [List.mem_flatMap] at hp
    obtain ⟨r, hr, h⟩ := hp
    split at h
    · simp at h
    · rename_i s _
      simp only [List.mem_cons] at h
      rcases h with h | h
      · subst h; exact wf.ref_node r hr
      · split at h
        · simp only [Flat.consumers, List.mem_map, List.mem_filter] at h
          obtain ⟨c, ⟨e, ⟨he, _⟩, rfl⟩, rfl⟩ := h
          exact wf.edge_dst e he
        · simp at h
  · -- access order: members of access groups are referencing nodes
    unfold Flat.accessDepPairs Flat.accessPairs at hp
    simp only [List.mem_map, List.mem_flatMap] at hp
    obtain ⟨q, ⟨t, _, gab, hgab, a, _, b, hb, rfl⟩, rfl⟩ := hp
    simp only
    -- `b` is a member of some access group of `t`
    have hw : ∀ (l : List (List Nat)) (x : List Nat × List Nat), x ∈ Flat.windows l → x.2 ∈ l := by
      intro l
      induction l with
      | nil => intro x hx; simp [Flat.windows] at hx
      | cons a1 t1 ih =>
        cases t1 with
        | nil => intro x hx; simp [Flat.windows] at hx
        | cons b1 t2 =>
          intro x hx
          simp only [Flat.windows, List.mem_cons] at hx
          rcases hx with hx | hx
          · subst hx; simp
          · have := ih x hx
            simp only [List.mem_cons] at this ⊢
            exact Or.inr this
    have hgb := hw _ _ hgab
    unfold Flat.accessGroups at hgb
    simp only [List.mem_map] at hgb
    obtain ⟨k, _, hk⟩ := hgb
    rw [← hk] at hb
    simp only [List.mem_map, List.mem_filter] at hb
    obtain ⟨r, ⟨⟨hr, _⟩, _⟩, rfl⟩ := hb
    exact wf.ref_node r hr
  · -- loop ingress: `loopNodes` only lists existing nodes
    unfold Flat.ingressPairs at hp
    simp only [List.mem_flatMap] at hp
    obtain ⟨q, _, h⟩ := hp
    split at h
    · rename_i l _
      simp only [List.mem_map] at h
      obtain ⟨i, hi, rfl⟩ := h
      simp only
      unfold Flat.loopNodes at hi
      split at hi
      · simp only [List.mem_filter] at hi
        have hs := hi.2
        unfold Flat.node? at hs
        rw [List.find?_isSome] at hs
        obtain ⟨x, hx, hxe⟩ := hs
        simp only [beq_iff_eq] at hxe
        unfold Flat.nodeIds
        exact List.mem_map.mpr ⟨x, hx, hxe⟩
      · simp at hi
    · simp at h

/-- **Partitioning returns the cycle error exactly when the dependency graph has a cycle**
    (for graphs that do not trip the conflicted-reference assert, which is itself a self-cycle:
    `conflictedRefs_is_self_cycle`). -/
theorem partition_err_iff_cycle (ts : TopoSortFn) (hts : TopoSpec ts) (g : Flat) (wf : g.WF)
    (hrefs : g.refsConflict = false) :
    (∃ c, partitionWith ts g = .err c) ↔ HasCycle (Dep g) := by
  constructor
  · rintro ⟨c, h⟩
    exact ⟨c, reported_cycle_is_real ts hts g c h⟩
  · intro hcyc
    cases hres : ts g.nodeIds (newPreds g) with
    | error c => exact ⟨c, (aux_partition_err ts g c).mpr ⟨hrefs, hres⟩⟩
    | ok order =>
      exfalso
      obtain ⟨hall, hresp⟩ := hts.ok_sound _ _ _ hres
      refine aux_no_cycle_of_rank (Dep g) (fun n => order.idxOf n) ?_ hcyc
      intro a b hab
      have hb : b ∈ g.nodeIds := aux_dep_closed g wf (b, a) hab
      exact hresp b hb a (aux_mem_newPreds.mpr ⟨hb, hab⟩)

/-- the `assert_ne!` of `find_access_group_ordering` fires only on a self-dependency, i.e. a cycle of
    length one of the dependency graph: the panic is a rejection of a cyclic graph -/
theorem conflictedRefs_is_self_cycle (g : Flat) (h : g.refsConflict = true) :
    ∃ a, IsCycle (Dep g) [a] := by
  unfold Flat.refsConflict at h
  simp only [List.any_eq_true, beq_iff_eq] at h
  obtain ⟨⟨a, b⟩, hm, hab⟩ := h
  simp only at hab
  subst hab
  refine ⟨a, a, [], rfl, trivial, ?_⟩
  simp only [List.getLast_singleton]
  unfold Dep Flat.depPairs Flat.accessDepPairs
  simp only [List.mem_append, List.mem_map]
  exact Or.inl (Or.inr ⟨(a, a), hm, rfl⟩)

/-- **Every accepted graph is acyclic.** -/
theorem accepted_is_acyclic (ts : TopoSortFn) (hts : TopoSpec ts) (g : Flat) (wf : g.WF) (r : PResult)
    (h : partitionWith ts g = .ok r) : ¬ HasCycle (Dep g) := by
  intro hc
  have hrefs : g.refsConflict = false := by
    cases hq : g.refsConflict with
    | false => rfl
    | true => unfold partitionWith at h; simp [hq] at h
  obtain ⟨c, hc'⟩ := (partition_err_iff_cycle ts hts g wf hrefs).mpr hc
  rw [h] at hc'
  cases hc'

/-- full statement of "every acyclic graph is accepted" -/
def AcyclicAcceptedStatement (ts : TopoSortFn) : Prop :=
  ∀ g : Flat, g.WF → ¬ HasCycle (Dep g) → ∃ r, partitionWith ts g = .ok r

/-- `SubgraphMerge::new` never trips its `assert_ne!(a, b)` on the enemy pairs `partition_graph` hands it
    (self-pairs — a delayed self-edge — are skipped since the fix of finding F19) -/
theorem new_accepts_enemy_pairs (ts : TopoSortFn) (g : Flat) (msg : String) :
    SM.new ts g.nodeIds (Flat.predsOf g.depPairs) g.enemyPairs ≠ .panic msg := by
  simp only [SM.new]
  split
  · intro h; cases h
  · have hno : (g.enemyPairs.any fun p => p.1 == p.2) = false := by
      rw [List.any_eq_false]
      intro p hp
      unfold Flat.enemyPairs at hp
      simp only [List.mem_filter, bne_iff_ne, ne_eq] at hp
      simpa using hp.2
    simp only [hno, Bool.false_eq_true, if_false]
    intro h; cases h

/-- **An acyclic graph is never rejected with a cycle, nor by the conflicted-reference assert, nor by the
    enemy-pair assert of `SubgraphMerge::new`** (partial form of `AcyclicAcceptedStatement`: what is missing is
    that none of the later defensive `assert!`/`expect` of `try_merge` / `make_subgraphs` fires, which needs the
    full `SubgraphMerge` order invariant of C17 for this transcription and is covered here by the
    correspondence check only). -/
theorem acyclic_not_rejected_partial (ts : TopoSortFn) (hts : TopoSpec ts) (g : Flat) (wf : g.WF)
    (hac : ¬ HasCycle (Dep g)) :
    (∀ c, partitionWith ts g ≠ .err c) ∧ g.refsConflict = false ∧
      (∃ sm, SM.new ts g.nodeIds (Flat.predsOf g.depPairs) g.enemyPairs = .ok sm) := by
  have hrefs : g.refsConflict = false := by
    cases hq : g.refsConflict with
    | false => rfl
    | true =>
      obtain ⟨a, ha⟩ := conflictedRefs_is_self_cycle g hq
      exact (hac ⟨[a], ha⟩).elim
  have hne : ∀ c, partitionWith ts g ≠ .err c :=
    fun c hc => hac ((partition_err_iff_cycle ts hts g wf hrefs).mp ⟨c, hc⟩)
  refine ⟨hne, hrefs, ?_⟩
  cases hn : SM.new ts g.nodeIds (Flat.predsOf g.depPairs) g.enemyPairs with
  | ok sm => exact ⟨sm, rfl⟩
  | panic msg => exact (new_accepts_enemy_pairs ts g msg hn).elim
  | cycle c =>
    exfalso
    apply hne c
    unfold partitionWith
    simp [hrefs, hn]

/-! ### the model as run (`partition` = `partitionWith tsC17`): no hypothesis left -/

/-- **Partitioning returns the cycle error exactly when the dependency graph has a cycle.** -/
theorem partition_rejects_iff_cycle (g : Flat) (wf : g.WF) (hrefs : g.refsConflict = false) :
    (∃ c, partition g = .err c) ↔ HasCycle (Dep g) :=
  partition_err_iff_cycle tsC17 tsC17_meets_TopoSpec g wf hrefs

/-- **The reported cycle is a real cycle of the dependency graph.** -/
theorem partition_reported_cycle_is_real (g : Flat) (c : List Nat) (h : partition g = .err c) :
    IsCycle (Dep g) c :=
  reported_cycle_is_real tsC17 tsC17_meets_TopoSpec g c h

/-- **Every accepted graph is acyclic.** -/
theorem partition_accepted_is_acyclic (g : Flat) (wf : g.WF) (r : PResult) (h : partition g = .ok r) :
    ¬ HasCycle (Dep g) :=
  accepted_is_acyclic tsC17 tsC17_meets_TopoSpec g wf r h

/-! ### the formerly refuted clause: a delayed self-edge (finding F19, fixed) -/

/-- `d = defer_tick(); d -> d;` -/
def witnessDelayedSelfEdge : Flat :=
  { nodes := [⟨1, false, "defer_tick", none⟩], edges := [⟨1, 1, 1, "_", "_"⟩], refs := [], loops := [] }

theorem aux_witness_dep : witnessDelayedSelfEdge.depPairs = [] := by decide

/-- **The delayed self-edge is accepted** (before the fix of F19 `SubgraphMerge::new` panicked on the enemy pair
    `(d, d)`): the dependency graph of the witness has no edge at all, and the partitioner answers one subgraph
    whose self-loop crosses a handoff marked `Tick`. -/
theorem delayed_self_edge_accepted :
    witnessDelayedSelfEdge.WF ∧ ¬ HasCycle (Dep witnessDelayedSelfEdge) ∧
      ∃ r, partition witnessDelayedSelfEdge = .ok r ∧ r.subgraphs = [[1]] ∧ r.hoffEdges = [1] ∧
        r.delays = [(true, 1, Delay.tick)] := by
  refine ⟨⟨by decide, by decide⟩, ?_, _, rfl, by decide, by decide, by decide⟩
  rintro ⟨c, h, t, _, _, hcl⟩
  unfold Dep at hcl
  rw [aux_witness_dep] at hcl
  cases hcl

/-! ### non-vacuity -/

/-- a topological sort meeting `TopoSpec` exists on a concrete cyclic instance: `union ⇄ map` -/
def exampleCyclic : Flat :=
  { nodes := [⟨1, false, "source_iter", none⟩, ⟨2, false, "union", none⟩, ⟨3, false, "map", none⟩],
    edges := [⟨1, 1, 2, "_", "_"⟩, ⟨2, 3, 2, "_", "_"⟩, ⟨3, 2, 3, "_", "_"⟩], refs := [], loops := [] }

example : exampleCyclic.WF := ⟨by decide, by decide⟩
example : partition exampleCyclic = .err [3, 2] := by decide
example : IsCycle (Dep exampleCyclic) [3, 2] :=
  ⟨3, [2], rfl, ⟨by decide, trivial⟩, by decide⟩

end HvPart
