/-
C19 (supplement) — one of the defensive asserts of `find_subgraph_unionfind` can never fire:
`assert!(handoff_edges.remove(&edge_id))` after a successful `try_merge`.
An edge leaves `handoff_edges` only when it touches a handoff node (then it is skipped before the assert) or when
it was merged (then its ends are in one group, and the `same_set` test skips it) — the `MergeInv` invariant of
Props/C18.lean.
-/
import HvPart.Props.C18
import HvPart.Props.C19

namespace HvPart

/-- the only panic `try_merge` can raise is its `expect` after the re-sort -/
theorem aux_tryMerge_panic_msg (sm : SM) (a b : Nat) (msg : String) (h : sm.tryMerge a b = .panic msg) :
    msg = "cycle-check-passed-but-re-toposort-found-cycle" := by
  have key : ∀ u v, SM.tryMergeTail id sm u v = .panic msg →
      msg = "cycle-check-passed-but-re-toposort-found-cycle" := by
    intro u v h
    unfold SM.tryMergeTail at h
    simp only at h
    split at h
    · cases h
    · unfold SM.mergeCore at h
      split at h
      · injection h with h; exact h.symm
      · cases h
  unfold SM.tryMerge SM.tryMergeP at h
  simp only at h
  split at h
  · cases h
  · split at h
    · cases h
    · split at h
      · exact key _ _ h
      · exact key _ _ h

def NoRemoveAssert (st : MergeSt) : Prop := st.bad ≠ some "assert-handoff-edges-remove"

theorem aux_mergeEdge_noassert (g : Flat) (st : MergeSt) (e0 : FEdge) (he0 : e0 ∈ g.edges)
    (inv : MergeInv g st) (hb : NoRemoveAssert st) : NoRemoveAssert (mergeEdge g st e0) := by
  unfold mergeEdge
  split
  · exact hb
  · split
    · exact hb
    · rename_i hadj
      split
      · exact hb
      · rename_i hfind
        split
        · exact hb
        · simp only
          split
          · split
            · rename_i msg hm
              have := aux_tryMerge_panic_msg _ _ _ _ hm
              subst this
              unfold NoRemoveAssert
              intro hc
              injection hc with hc
              revert hc
              decide
            · rename_i sm' ok hm
              split
              · split
                · exact hb
                · rename_i hnot
                  exfalso
                  have hnm : e0.id ∉ st.hoffEdges := by
                    intro hm'
                    apply hnot
                    simpa using hm'
                  rcases inv.hoff e0 he0 hnm with h1 | h1
                  · apply hadj
                    simpa [Flat.hoffAdj] using h1
                  · apply hfind
                    simp [h1.1]
              · exact hb
          · exact hb

theorem aux_foldl_noassert (g : Flat) (hu : g.UniqueEdgeIds) :
    ∀ (es : List FEdge), (∀ e ∈ es, e ∈ g.edges) → ∀ st, MergeInv g st → NoRemoveAssert st →
      NoRemoveAssert (es.foldl (mergeEdge g) st)
  | [], _, _, _, hb => hb
  | e :: t, hsub, st, inv, hb => by
    simp only [List.foldl_cons]
    exact aux_foldl_noassert g hu t (fun x hx => hsub x (List.mem_cons_of_mem _ hx)) _
      (aux_mergeEdge_inv g hu st e (hsub e List.mem_cons_self) inv)
      (aux_mergeEdge_noassert g st e (hsub e List.mem_cons_self) inv hb)

theorem aux_mergeLoop_noassert (g : Flat) (hu : g.UniqueEdgeIds) :
    ∀ fuel st, MergeInv g st → NoRemoveAssert st → NoRemoveAssert (mergeLoop g fuel st)
  | 0, _, _, hb => hb
  | fuel + 1, st, inv, hb => by
    unfold mergeLoop
    have h0 : MergeInv g { st with progress := false } := ⟨inv.hoff, inv.loop⟩
    have h1 : MergeInv g (mergePass g st) := by
      unfold mergePass
      exact aux_foldl_inv g hu g.edges (fun _ h => h) _ h0
    have h2 : NoRemoveAssert (mergePass g st) := by
      unfold mergePass
      exact aux_foldl_noassert g hu g.edges (fun _ h => h) _ h0 hb
    simp only
    split
    · exact aux_mergeLoop_noassert g hu fuel _ h1 h2
    · exact h2

/-- **`assert!(handoff_edges.remove(&edge_id))` never fires**: whatever the graph, the partitioner does not end
    with that panic. -/
theorem handoff_edges_assert_never_fires (ts : TopoSortFn) (g : Flat) (hu : g.UniqueEdgeIds) :
    partitionWith ts g ≠ .panic "assert-handoff-edges-remove" := by
  unfold partitionWith
  split
  · intro h; injection h with h; revert h; decide
  · split
    · intro h; cases h
    · rename_i msg hn
      intro h
      injection h with h
      -- `SM.new` panics only with "no-merge-pair-same-node"
      simp only [SM.new] at hn
      split at hn
      · cases hn
      · split at hn
        · injection hn with hn; subst hn; revert h; decide
        · cases hn
    · rename_i sm hn
      have hfin := aux_mergeLoop_noassert g hu (g.nodes.length + 2) (mergeInit g sm)
        (aux_init_inv g sm (aux_new_rep _ _ _ _ _ hn)) (by unfold NoRemoveAssert mergeInit; simp)
      unfold finishPartition
      split
      · rename_i msg hbad
        intro h
        injection h with h
        apply hfin
        rw [hbad, h]
      · simp only
        split
        · intro h; injection h with h; revert h; decide
        · split
          · intro h; injection h with h; revert h; decide
          · intro h; cases h

/-- **The executable well-formedness check implies the hypotheses of the theorems**: a graph on which the driver
    answers `wf = true` (every dumped graph, by the correspondence check) satisfies `Flat.WF` and
    `Flat.UniqueEdgeIds`. -/
theorem wfB_sound (g : Flat) (h : g.wfB = true) : g.WF ∧ g.UniqueEdgeIds := by
  unfold Flat.wfB at h
  simp only [Bool.and_eq_true, List.all_eq_true, List.contains_iff_mem, Bool.or_eq_true, bne_iff_ne, ne_eq,
    decide_eq_true_eq] at h
  obtain ⟨⟨h1, h2⟩, h3⟩ := h
  refine ⟨⟨h1, h2⟩, fun e he e' he' hid => ?_⟩
  rcases h3 e he e' he' with h | h
  · exact (h hid).elim
  · exact h

end HvPart
