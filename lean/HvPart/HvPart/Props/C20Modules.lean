/-
C20 (modules) — `DfirGraph::merge_modules` / `remove_module_boundary` stitch the two sides of a module boundary
(/repo/dfir_lang/src/graph/meta_graph.rs).

Model: `RG.removeModuleBoundary`, `RG.mergeModules` (Model/DiMul.lean, unchanged).  Observation: `Core.wires`.
The loop body of `removeModuleBoundary` is restated as the top-level `mmStep` (`aux_mm_unfold`, by `rfl`).

Proved (all graphs):
  * `mmStep_wires`                 one iteration: in-edge `pe` and out-edge `se` of the same port key (necessarily
                                   different edges) are replaced by one edge source(pe) → destination(se) carrying
                                   pe's source port and se's destination port; other wires and the nodes untouched
                                   (`StitchStep`; freshness of the allocated key is a hypothesis inside, as in
                                   `removeNode_wires`);
  * `removeModuleBoundary_wires`   success = port keys agree, one `StitchStep` per pred-port entry (`StitchSeq`),
                                   `m` left without edges and removed from the node list;
    `removeModuleBoundary_error_iff`  the diagnostic is reported iff the port key lists differ;
    `mmPredPorts_spec` / `mmSuccPorts_spec`  the recorded ports are the ports of `r` (outer port, port at `m`);
  * `removeModuleBoundary_wires_perm`  `List.Perm` form under `mmFresh` (every allocated key is not a live edge key
                                   nor a key still recorded in the port maps): wires of the result ~ stitched wires
                                   ++ wires of all edges other than the removed ones, ports unchanged;
    `removeModuleBoundary_keeps_other_wires`  every edge not in `preds[m]`/`succs[m]` keeps its wire;
  * `mergeModules_is_boundary_sequence` (iff), `mergeModules_propagates` (first error / panic is the result),
    `mergeModules_preserves_wiring` (`BoundaryWiringSeq`), `mergeModules_preserves_wiring_perm` (under
    `mmFreshAll`), `mergeModules_nodes`.

Not proved: that `preds[m]`/`succs[m]` are exactly the edges with destination/source `m` (`assert_valid`, see
`DiMulValidPreservedStatement` in C20.lean), hence "incident to m" is stated through the adjacency lists; that the
LIFO slot allocator model satisfies `mmFresh` in general (checked on `exampleModule1` only).
Non-vacuity: `exampleModule1` (one elided port, `decide`), `exampleModule2` (two ports `0`,`1`, `cbv`), and a
port-mismatch variant returning the diagnostic.
-/
import HvPart.Model.DiMul
import HvPart.Props.C20

namespace HvPart

/-! ### the loop body of `remove_module_boundary` as a top-level definition -/

/-- `mod_pred_ports` : `(port at m, in-edge, source port of the in-edge)` sorted by port -/
def mmPredPorts (r : RG) (m : Nat) : List (String × Nat × String) :=
  (DMG.adj r.g.preds m).foldl (fun acc e => RG.insertPort ((r.portsOf e).2, e, (r.portsOf e).1) acc) []

/-- `mod_succ_ports` : `(port at m, out-edge, destination port of the out-edge)` sorted by port -/
def mmSuccPorts (r : RG) (m : Nat) : List (String × Nat × String) :=
  (DMG.adj r.g.succs m).foldl (fun acc e => RG.insertPort ((r.portsOf e).1, e, (r.portsOf e).2) acc) []

/-- one iteration of `for (port, (pred_edge, pred_port)) in mod_pred_ports { .. }` -/
def mmStep (succPorts : List (String × Nat × String)) (acc : Option RG) (pp : String × Nat × String) : Option RG :=
  match acc with
  | none => none
  | some r =>
    match succPorts.find? (fun sp => RG.portKey sp.1 == RG.portKey pp.1) with
    | none => none
    | some sp =>
      let pe := pp.2.1
      let se := sp.2.1
      match r.g.edge? pe, r.g.edge? se with
      | some (src, _), some (_, dst) =>
        match r.g.removeEdge pe with
        | none => none
        | some g1 =>
          match g1.removeEdge se with
          | none => none
          | some g2 =>
            let a := (r.alloc.release pe).release se
            let (k, a) := a.alloc
            some { core := { r.core with g := g2.insertEdge k src dst,
                                         ports := aset (aerase (aerase r.ports pe) se) k (pp.2.2, sp.2.2) }, alloc := a }
      | _, _ => none

/-- the final `remove_vertex` / `nodes.remove` of `remove_module_boundary` -/
def mmFinish (r' : RG) (m : Nat) : Option (Except Unit RG) :=
  if r'.g.degIn m != 0 || r'.g.degOut m != 0 then none else
  some (.ok { core := { nodes := r'.core.nodes.filter (fun x => x.id != m),
                        g := { edges := r'.core.g.edges, succs := aerase r'.core.g.succs m,
                               preds := aerase r'.core.g.preds m },
                        ports := r'.core.ports },
              alloc := r'.alloc })

/-- `removeModuleBoundary` is the fold of `mmStep` over the pred-port map, then `mmFinish` -/
theorem aux_mm_unfold (r : RG) (m : Nat) :
    r.removeModuleBoundary m =
      if (mmPredPorts r m).map (fun p => RG.portKey p.1) != (mmSuccPorts r m).map (fun p => RG.portKey p.1)
      then some (.error ()) else
      match (mmPredPorts r m).foldl (mmStep (mmSuccPorts r m)) (some r) with
      | none => none
      | some r' => mmFinish r' m := rfl

/-! ### one iteration -/

theorem aux_mm_edge?_erased (g : DMG) (es : List DEdge) (k : Nat) (h : g.edges = DMG.eraseEdge es k) :
    g.edge? k = none := by
  have hf : g.edges.find? (fun e => e.1 == k) = none := by
    rw [h, List.find?_eq_none]
    intro e he
    unfold DMG.eraseEdge at he
    simp only [List.mem_filter, bne_iff_ne, ne_eq] at he
    simp [he.2]
  unfold DMG.edge?
  rw [hf]

theorem aux_mm_removeEdge_edges (g g1 : DMG) (e : Nat) (h : g.removeEdge e = some g1) :
    g1.edges = DMG.eraseEdge g.edges e ∧ g1.edge? e = none := by
  unfold DMG.removeEdge at h
  split at h
  · cases h
  · injection h with h
    subst h
    exact ⟨rfl, aux_mm_edge?_erased _ g.edges e rfl⟩

theorem aux_mm_erase_erase (es : List DEdge) (pe se : Nat) :
    DMG.eraseEdge (DMG.eraseEdge es pe) se = es.filter (fun e => e.1 != pe && e.1 != se) := by
  unfold DMG.eraseEdge
  rw [List.filter_filter]
  apply List.filter_congr
  intro e _
  simp [Bool.and_comm]

/-- the key the slot map hands out in the iteration that removes `pe` and `se` from `r` -/
def mmKey (r : RG) (pe se : Nat) : Nat := (((r.alloc.release pe).release se).alloc).1

/-- shape of the state after one successful iteration: the in-edge `pe` and the out-edge `se` paired by port are
    erased (they are different edges, or the second `remove_edge` would panic), one edge `src → dst` with the
    allocated key `k` is inserted, and `ports[k] = (recorded source port of pe, recorded destination port of se)` -/
theorem aux_mm_step_shape (succPorts : List (String × Nat × String)) (r r' : RG) (pp : String × Nat × String)
    (h : mmStep succPorts (some r) pp = some r') :
    ∃ sp src x y dst,
      succPorts.find? (fun sp => RG.portKey sp.1 == RG.portKey pp.1) = some sp ∧
      pp.2.1 ≠ sp.2.1 ∧
      (pp.2.1, src, x) ∈ r.g.edges ∧ (sp.2.1, y, dst) ∈ r.g.edges ∧
      r'.g.edges = DMG.insertSortedEdge (mmKey r pp.2.1 sp.2.1, src, dst)
        (r.g.edges.filter (fun e => e.1 != pp.2.1 && e.1 != sp.2.1)) ∧
      r'.ports = aset (aerase (aerase r.ports pp.2.1) sp.2.1) (mmKey r pp.2.1 sp.2.1) (pp.2.2, sp.2.2) ∧
      r'.nodes = r.nodes := by
  simp only [mmStep] at h
  split at h
  · cases h
  · rename_i sp hfind
    split at h
    · rename_i src x y dst hpe hse
      split at h
      · cases h
      · rename_i g1 hg1
        split at h
        · cases h
        · rename_i g2 hg2
          injection h with h
          subst h
          obtain ⟨he1, hnone⟩ := aux_mm_removeEdge_edges _ _ _ hg1
          obtain ⟨he2, _⟩ := aux_mm_removeEdge_edges _ _ _ hg2
          have hne : pp.2.1 ≠ sp.2.1 := by
            intro heq
            unfold DMG.removeEdge at hg2
            rw [← heq, hnone] at hg2
            cases hg2
          refine ⟨sp, src, x, y, dst, hfind, hne, aux_edge?_mem _ _ _ _ hpe, aux_edge?_mem _ _ _ _ hse, ?_, rfl, rfl⟩
          simp only [RG.g, DMG.insertEdge]
          rw [he2, he1, aux_mm_erase_erase]
          rfl
    · cases h

/-- the wiring effect of one iteration, as a relation between two cores: the in-edge `pe = (src → x)` and the
    out-edge `se = (y → dst)` (different edges) are replaced by one edge `src → dst` carrying `sp`ort of the producer
    and `dp`ort of the consumer; all other edges keep their endpoints and ports (given that the allocated key `k`
    is not the key of another live edge); nodes are untouched -/
def StitchStep (c c' : Core) (pe se : Nat) (sp dp : String) : Prop :=
  ∃ src x y dst k, pe ≠ se ∧ (pe, src, x) ∈ c.g.edges ∧ (se, y, dst) ∈ c.g.edges ∧
    ((∀ e ∈ c.g.edges, e.1 ≠ pe → e.1 ≠ se → e.1 ≠ k) →
      c'.wires.Perm ((src, sp, dst, dp) ::
        (c.g.edges.filter (fun e => e.1 != pe && e.1 != se)).map (Core.wireOf c.ports))) ∧
    c'.nodes = c.nodes

/-- **one iteration of the stitching loop of `remove_module_boundary`**: the pred-port entry `pp = (port, pe, sp)`
    is paired with the succ-port entry `(port', se, dp)` of the same port key; `pe` and `se` are replaced by one
    edge from `pe`'s source to `se`'s destination with ports `(sp, dp)`; every other wire is untouched. -/
theorem mmStep_wires (succPorts : List (String × Nat × String)) (r r' : RG) (pp : String × Nat × String)
    (h : mmStep succPorts (some r) pp = some r') :
    ∃ sp, succPorts.find? (fun sp => RG.portKey sp.1 == RG.portKey pp.1) = some sp ∧
      StitchStep r.core r'.core pp.2.1 sp.2.1 pp.2.2 sp.2.2 := by
  obtain ⟨sp, src, x, y, dst, hfind, hne, hpe, hse, hedges, hports, hnodes⟩ := aux_mm_step_shape _ _ _ _ h
  generalize mmKey r pp.2.1 sp.2.1 = k at hedges hports
  refine ⟨sp, hfind, src, x, y, dst, k, hne, hpe, hse, ?_, hnodes⟩
  intro hfresh
  show (r'.g.edges.map (Core.wireOf r'.ports)).Perm _
  rw [hedges, hports]
  refine ((aux_perm_insertSortedEdge _ _).map _).trans ?_
  simp only [List.map_cons]
  have hw : Core.wireOf (aset (aerase (aerase r.ports pp.2.1) sp.2.1) k (pp.2.2, sp.2.2)) (k, src, dst)
      = (src, pp.2.2, dst, sp.2.2) := by
    unfold Core.wireOf
    simp [aux_aget_aset_self]
  rw [hw]
  apply List.Perm.cons
  show (List.map _ _).Perm (List.map (Core.wireOf r.ports) _)
  rw [aux_map_wireOf_congr r.ports]
  · exact List.Perm.refl _
  · intro e he
    simp only [List.mem_filter, Bool.and_eq_true, bne_iff_ne, ne_eq] at he
    obtain ⟨hm, h1, h2⟩ := he
    have h3 := hfresh e hm h1 h2
    rw [aux_aget_aset_ne _ _ _ _ h3, aux_aget_aerase_ne _ _ _ h2, aux_aget_aerase_ne _ _ _ h1]

/-! ### one module boundary -/

/-- the stitching loop as a sequence of `StitchStep`s, one per pred-port entry, each paired with the succ-port
    entry of the same port key -/
inductive StitchSeq (succPorts : List (String × Nat × String)) : Core → List (String × Nat × String) → Core → Prop
  | nil (c : Core) : StitchSeq succPorts c [] c
  | cons (c c1 c' : Core) (pp sp : String × Nat × String) (t : List (String × Nat × String))
      (hfind : succPorts.find? (fun sp => RG.portKey sp.1 == RG.portKey pp.1) = some sp)
      (hstep : StitchStep c c1 pp.2.1 sp.2.1 pp.2.2 sp.2.2)
      (ht : StitchSeq succPorts c1 t c') : StitchSeq succPorts c (pp :: t) c'

theorem aux_mm_foldl_none (sps : List (String × Nat × String)) :
    ∀ pps : List (String × Nat × String), pps.foldl (mmStep sps) none = none
  | [] => rfl
  | _ :: t => by
    simp only [List.foldl_cons, mmStep]
    exact aux_mm_foldl_none sps t

theorem aux_mm_foldl_seq (sps : List (String × Nat × String)) :
    ∀ (pps : List (String × Nat × String)) (r r' : RG),
      pps.foldl (mmStep sps) (some r) = some r' → StitchSeq sps r.core pps r'.core
  | [], r, r', h => by
    simp only [List.foldl_nil] at h
    injection h with h
    subst h
    exact StitchSeq.nil _
  | pp :: t, r, r', h => by
    simp only [List.foldl_cons] at h
    cases hs : mmStep sps (some r) pp with
    | none =>
      rw [hs, aux_mm_foldl_none] at h
      cases h
    | some r1 =>
      rw [hs] at h
      obtain ⟨sp, hfind, hstep⟩ := mmStep_wires sps r r1 pp hs
      exact StitchSeq.cons _ _ _ pp sp t hfind hstep (aux_mm_foldl_seq sps t r1 r' h)

theorem aux_mm_seq_nodes (sps : List (String × Nat × String)) (c c' : Core) (pps : List (String × Nat × String))
    (h : StitchSeq sps c pps c') : c'.nodes = c.nodes := by
  induction h with
  | nil c => rfl
  | cons c c1 c' pp sp t _ hstep _ ih =>
    obtain ⟨_, _, _, _, _, _, _, _, _, hn⟩ := hstep
    rw [ih, hn]

theorem aux_mm_insertPort_mem (x y : String × Nat × String) :
    ∀ l : List (String × Nat × String), y ∈ RG.insertPort x l → y = x ∨ y ∈ l
  | [] => by
    intro h
    simp only [RG.insertPort, List.mem_singleton] at h
    exact Or.inl h
  | z :: t => by
    intro h
    unfold RG.insertPort at h
    split at h
    · rcases List.mem_cons.mp h with h | h
      · exact Or.inl h
      · exact Or.inr (List.mem_cons_of_mem _ h)
    · split at h
      · rcases List.mem_cons.mp h with h | h
        · exact Or.inl h
        · exact Or.inr h
      · rcases List.mem_cons.mp h with h | h
        · exact Or.inr (h ▸ List.mem_cons_self)
        · rcases aux_mm_insertPort_mem x y t h with h | h
          · exact Or.inl h
          · exact Or.inr (List.mem_cons_of_mem _ h)

theorem aux_mm_foldl_insertPort_mem (f : Nat → String × Nat × String) (y : String × Nat × String) :
    ∀ (es : List Nat) (acc : List (String × Nat × String)),
      y ∈ es.foldl (fun acc e => RG.insertPort (f e) acc) acc → y ∈ acc ∨ ∃ e ∈ es, y = f e
  | [], acc, h => Or.inl h
  | e :: t, acc, h => by
    simp only [List.foldl_cons] at h
    rcases aux_mm_foldl_insertPort_mem f y t _ h with h | ⟨e', he', hy⟩
    · rcases aux_mm_insertPort_mem _ _ _ h with h | h
      · exact Or.inr ⟨e, List.mem_cons_self, h⟩
      · exact Or.inl h
    · exact Or.inr ⟨e', List.mem_cons_of_mem _ he', hy⟩

/-- every pred-port entry `(port, pe, sp)` is an in-edge of `m` (by the `preds` adjacency) with
    `ports[pe] = (sp, port)` -/
theorem mmPredPorts_spec (r : RG) (m : Nat) (pp : String × Nat × String) (h : pp ∈ mmPredPorts r m) :
    pp.2.1 ∈ DMG.adj r.g.preds m ∧ r.portsOf pp.2.1 = (pp.2.2, pp.1) := by
  rcases aux_mm_foldl_insertPort_mem (fun e => ((r.portsOf e).2, e, (r.portsOf e).1)) pp _ _ h with h | ⟨e, he, hy⟩
  · cases h
  · subst hy
    exact ⟨he, rfl⟩

/-- every succ-port entry `(port, se, dp)` is an out-edge of `m` (by the `succs` adjacency) with
    `ports[se] = (port, dp)` -/
theorem mmSuccPorts_spec (r : RG) (m : Nat) (sp : String × Nat × String) (h : sp ∈ mmSuccPorts r m) :
    sp.2.1 ∈ DMG.adj r.g.succs m ∧ r.portsOf sp.2.1 = (sp.1, sp.2.2) := by
  rcases aux_mm_foldl_insertPort_mem (fun e => ((r.portsOf e).1, e, (r.portsOf e).2)) sp _ _ h with h | ⟨e, he, hy⟩
  · cases h
  · subst hy
    exact ⟨he, rfl⟩

/-- what a successful `remove_module_boundary(m)` does to the wiring -/
def BoundaryStitched (r : RG) (m : Nat) (r' : RG) : Prop :=
  (mmPredPorts r m).map (fun p => RG.portKey p.1) = (mmSuccPorts r m).map (fun p => RG.portKey p.1) ∧
  ∃ r1 : RG, StitchSeq (mmSuccPorts r m) r.core (mmPredPorts r m) r1.core ∧
    r1.g.degIn m = 0 ∧ r1.g.degOut m = 0 ∧
    r'.wires = r1.wires ∧ r'.nodes = r.nodes.filter (fun x => x.id != m)

/-- **`remove_module_boundary(m)`** succeeds only if the in-ports and out-ports of `m` have the same keys; it then
    performs one `StitchStep` per in-port (in port order), pairing the in-edge with the out-edge of the same port
    key; afterwards `m` has no edge left, and is removed from the node list; nothing else changes. -/
theorem removeModuleBoundary_wires (r r' : RG) (m : Nat) (h : r.removeModuleBoundary m = some (.ok r')) :
    BoundaryStitched r m r' := by
  rw [aux_mm_unfold] at h
  split at h
  · cases h
  · rename_i hkeys
    split at h
    · cases h
    · rename_i r1 hfold
      unfold mmFinish at h
      split at h
      · cases h
      · rename_i hdeg
        injection h with h
        injection h with h
        subst h
        have hseq := aux_mm_foldl_seq _ _ _ _ hfold
        refine ⟨by simpa using hkeys, r1, hseq, ?_, ?_, rfl, ?_⟩
        · simp only [Bool.or_eq_true, bne_iff_ne, ne_eq, not_or, Decidable.not_not] at hdeg
          exact hdeg.1
        · simp only [Bool.or_eq_true, bne_iff_ne, ne_eq, not_or, Decidable.not_not] at hdeg
          exact hdeg.2
        · show List.filter _ r1.core.nodes = _
          rw [aux_mm_seq_nodes _ _ _ _ hseq]
          rfl

/-- the port-mismatch diagnostic is reported exactly when the key sets differ, before anything is changed -/
theorem removeModuleBoundary_error_iff (r : RG) (m : Nat) :
    r.removeModuleBoundary m = some (.error ()) ↔
      (mmPredPorts r m).map (fun p => RG.portKey p.1) ≠ (mmSuccPorts r m).map (fun p => RG.portKey p.1) := by
  rw [aux_mm_unfold]
  constructor
  · intro h
    split at h
    · rename_i hk
      simpa using hk
    · split at h
      · cases h
      · unfold mmFinish at h
        split at h
        · cases h
        · cases h
  · intro h
    have : ((mmPredPorts r m).map (fun p => RG.portKey p.1) != (mmSuccPorts r m).map (fun p => RG.portKey p.1)) = true := by
      simpa using h
    rw [if_pos this]

/-! ### merge_modules -/

/-- the module-boundary nodes of the graph, in node order (computed before any removal) -/
def mmModNodes (r : RG) : List Nat := (r.nodes.filter (fun x => x.kind == "mod")).map (·.id)

/-- the loop body of `merge_modules` (`?` propagates the first error / panic) -/
def mmMergeStep (acc : Option (Except Unit RG)) (m : Nat) : Option (Except Unit RG) :=
  match acc with
  | some (.ok r) => r.removeModuleBoundary m
  | other => other

theorem aux_mm_merge_unfold (r : RG) : r.mergeModules = (mmModNodes r).foldl mmMergeStep (some (.ok r)) := rfl

/-- `r'` is obtained from `r` by successful `remove_module_boundary` calls on `ms`, in order -/
inductive BoundarySeq : RG → List Nat → RG → Prop
  | nil (r : RG) : BoundarySeq r [] r
  | cons (r r1 r' : RG) (m : Nat) (t : List Nat) (h : r.removeModuleBoundary m = some (.ok r1))
      (ht : BoundarySeq r1 t r') : BoundarySeq r (m :: t) r'

theorem aux_mm_merge_stuck (res : Option (Except Unit RG)) (hres : ∀ r2, res ≠ some (.ok r2)) :
    ∀ ms : List Nat, ms.foldl mmMergeStep res = res
  | [] => rfl
  | m :: t => by
    have : mmMergeStep res m = res := by
      unfold mmMergeStep
      split
      · rename_i r2
        exact absurd rfl (hres r2)
      · rfl
    rw [List.foldl_cons, this]
    exact aux_mm_merge_stuck res hres t

theorem aux_mm_merge_seq : ∀ (ms : List Nat) (r r' : RG),
    ms.foldl mmMergeStep (some (.ok r)) = some (.ok r') → BoundarySeq r ms r'
  | [], r, r', h => by
    simp only [List.foldl_nil] at h
    injection h with h
    injection h with h
    subst h
    exact BoundarySeq.nil r
  | m :: t, r, r', h => by
    simp only [List.foldl_cons] at h
    have hstep : mmMergeStep (some (.ok r)) m = r.removeModuleBoundary m := rfl
    rw [hstep] at h
    cases hr : r.removeModuleBoundary m with
    | none =>
      rw [hr, aux_mm_merge_stuck none (fun _ hh => by cases hh)] at h
      cases h
    | some x =>
      cases x with
      | error u =>
        rw [hr, aux_mm_merge_stuck (some (.error u)) (fun _ hh => by cases hh)] at h
        cases h
      | ok r1 =>
        rw [hr] at h
        exact BoundarySeq.cons r r1 r' m t hr (aux_mm_merge_seq t r1 r' h)

theorem aux_mm_seq_merge : ∀ (ms : List Nat) (r r' : RG) (post : List Nat), BoundarySeq r ms r' →
    (ms ++ post).foldl mmMergeStep (some (.ok r)) = post.foldl mmMergeStep (some (.ok r')) := by
  intro ms r r' post h
  induction h with
  | nil r => rfl
  | cons r r1 r' m t h1 _ ih =>
    rw [List.cons_append, List.foldl_cons]
    have hstep : mmMergeStep (some (.ok r)) m = r.removeModuleBoundary m := rfl
    rw [hstep, h1]
    exact ih

/-- **`merge_modules` succeeds exactly when it is a sequence of successful `remove_module_boundary` calls on the
    module-boundary nodes of the graph it was given, in node order** -/
theorem mergeModules_is_boundary_sequence (r r' : RG) :
    r.mergeModules = some (.ok r') ↔ BoundarySeq r (mmModNodes r) r' := by
  rw [aux_mm_merge_unfold]
  constructor
  · exact aux_mm_merge_seq _ r r'
  · intro h
    have := aux_mm_seq_merge _ r r' [] h
    simpa using this

/-- **error / panic propagation**: if the boundaries before `m` are removed successfully and
    `remove_module_boundary(m)` reports the port-mismatch diagnostic (`some (.error ())`) or panics (`none`), that
    is the result of `merge_modules`; later boundaries are not touched -/
theorem mergeModules_propagates (r r1 : RG) (pre post : List Nat) (m : Nat) (res : Option (Except Unit RG))
    (hms : mmModNodes r = pre ++ m :: post) (hpre : BoundarySeq r pre r1)
    (hm : r1.removeModuleBoundary m = res) (hres : ∀ r2, res ≠ some (.ok r2)) :
    r.mergeModules = res := by
  rw [aux_mm_merge_unfold, hms, aux_mm_seq_merge pre r r1 _ hpre, List.foldl_cons]
  have hstep : mmMergeStep (some (.ok r1)) m = r1.removeModuleBoundary m := rfl
  rw [hstep, hm]
  exact aux_mm_merge_stuck res hres post

/-- the wiring effect of a sequence of boundary removals: every removal is a `BoundaryStitched` -/
inductive BoundaryWiringSeq : RG → List Nat → RG → Prop
  | nil (r : RG) : BoundaryWiringSeq r [] r
  | cons (r r1 r' : RG) (m : Nat) (t : List Nat) (h : BoundaryStitched r m r1)
      (ht : BoundaryWiringSeq r1 t r') : BoundaryWiringSeq r (m :: t) r'

/-- **`merge_modules` preserves the wiring up to stitching**: it removes the module-boundary nodes of the initial
    graph one after the other, each removal joining, port by port, the in-edge and the out-edge of the boundary into
    one edge that keeps the outer ports, and touching no other node, edge or port. -/
theorem mergeModules_preserves_wiring (r r' : RG) (h : r.mergeModules = some (.ok r')) :
    BoundaryWiringSeq r (mmModNodes r) r' := by
  have hs := (mergeModules_is_boundary_sequence r r').mp h
  clear h
  generalize mmModNodes r = ms at hs
  induction hs with
  | nil r => exact BoundaryWiringSeq.nil r
  | cons r r1 r' m t h1 _ ih => exact BoundaryWiringSeq.cons r r1 r' m t (removeModuleBoundary_wires r r1 m h1) ih

theorem aux_mm_wiring_seq_nodes (r r' : RG) (ms : List Nat) (h : BoundaryWiringSeq r ms r') :
    r'.nodes = r.nodes.filter (fun x => !ms.contains x.id) := by
  induction h with
  | nil r =>
    symm
    apply List.filter_eq_self.mpr
    intro x _
    simp
  | cons r r1 r' m t h1 _ ih =>
    obtain ⟨_, _, _, _, _, _, hn⟩ := h1
    rw [ih, hn, List.filter_filter]
    apply List.filter_congr
    intro x _
    by_cases hx : x.id = m
    · simp [hx]
    · have : ¬ m = x.id := fun e => hx e.symm
      simp [hx]

/-- after `merge_modules` no module-boundary node is left, every other node is kept (in order) -/
theorem mergeModules_nodes (r r' : RG) (h : r.mergeModules = some (.ok r')) :
    r'.nodes = r.nodes.filter (fun x => !(mmModNodes r).contains x.id) :=
  aux_mm_wiring_seq_nodes r r' _ (mergeModules_preserves_wiring r r' h)

/-! ### one module boundary, `List.Perm` form -/

/-- wires tagged with their edge key -/
def mmKWires (c : Core) : List (Nat × Wire) := c.g.edges.map (fun e => (e.1, Core.wireOf c.ports e))

theorem aux_mm_kwires_wires (c : Core) : (mmKWires c).map (·.2) = c.wires := by
  unfold mmKWires Core.wires
  rw [List.map_map]
  rfl

theorem aux_mm_kwires_filter (c : Core) (q : Nat → Bool) :
    ((mmKWires c).filter (fun w => q w.1)).map (·.2) = (c.g.edges.filter (fun e => q e.1)).map (Core.wireOf c.ports) := by
  unfold mmKWires
  rw [List.filter_map, List.map_map]
  rfl

theorem aux_mm_step_kwires (sps : List (String × Nat × String)) (r r' : RG) (pp : String × Nat × String)
    (h : mmStep sps (some r) pp = some r') :
    ∃ sp src x y dst, sps.find? (fun sp => RG.portKey sp.1 == RG.portKey pp.1) = some sp ∧
      pp.2.1 ≠ sp.2.1 ∧ (pp.2.1, src, x) ∈ r.g.edges ∧ (sp.2.1, y, dst) ∈ r.g.edges ∧
      (∀ e ∈ r'.g.edges, e.1 ≠ mmKey r pp.2.1 sp.2.1 → e ∈ r.g.edges) ∧
      ((∀ e ∈ r.g.edges, e.1 ≠ pp.2.1 → e.1 ≠ sp.2.1 → e.1 ≠ mmKey r pp.2.1 sp.2.1) →
        (mmKWires r'.core).Perm ((mmKey r pp.2.1 sp.2.1, (src, pp.2.2, dst, sp.2.2)) ::
          (mmKWires r.core).filter (fun w => w.1 != pp.2.1 && w.1 != sp.2.1))) := by
  obtain ⟨sp, src, x, y, dst, hfind, hne, hpe, hse, hedges, hports, _⟩ := aux_mm_step_shape _ _ _ _ h
  refine ⟨sp, src, x, y, dst, hfind, hne, hpe, hse, ?_, ?_⟩
  · generalize mmKey r pp.2.1 sp.2.1 = k at hedges hports ⊢
    intro e he hk
    rw [hedges] at he
    have hm := (aux_perm_insertSortedEdge _ _).mem_iff.mp he
    rcases List.mem_cons.mp hm with h1 | h1
    · subst h1
      exact absurd rfl hk
    · exact (List.mem_filter.mp h1).1
  · generalize mmKey r pp.2.1 sp.2.1 = k at hedges hports ⊢
    intro hfresh
    show ((r'.g.edges).map (fun e => (e.1, Core.wireOf r'.ports e))).Perm _
    rw [hedges, hports]
    refine ((aux_perm_insertSortedEdge _ _).map _).trans ?_
    simp only [List.map_cons]
    have hw : Core.wireOf (aset (aerase (aerase r.ports pp.2.1) sp.2.1) k (pp.2.2, sp.2.2)) (k, src, dst)
        = (src, pp.2.2, dst, sp.2.2) := by
      unfold Core.wireOf
      simp [aux_aget_aset_self]
    rw [hw]
    apply List.Perm.cons
    show (List.map _ _).Perm (List.filter _ (List.map (fun e => (e.1, Core.wireOf r.ports e)) r.g.edges))
    rw [List.filter_map]
    refine List.Perm.of_eq ?_
    apply List.map_congr_left
    intro e he
    simp only [List.mem_filter, Bool.and_eq_true, bne_iff_ne, ne_eq] at he
    obtain ⟨hm, h1, h2⟩ := he
    have h3 := hfresh e hm h1 h2
    show (e.1, Core.wireOf _ e) = (e.1, Core.wireOf _ e)
    unfold Core.wireOf
    rw [aux_aget_aset_ne _ _ _ _ h3, aux_aget_aerase_ne _ _ _ h2, aux_aget_aerase_ne _ _ _ h1]

/-- the edge keys removed by the loop: every in-edge of the pred-port map and the out-edge it is paired with -/
def mmRemoved (sps pps : List (String × Nat × String)) : List Nat :=
  pps.flatMap (fun pp => match sps.find? (fun sp => RG.portKey sp.1 == RG.portKey pp.1) with
    | some sp => [pp.2.1, sp.2.1]
    | none => [pp.2.1])

theorem aux_mm_removed_cons (sps t : List (String × Nat × String)) (pp sp : String × Nat × String)
    (hfind : sps.find? (fun sp => RG.portKey sp.1 == RG.portKey pp.1) = some sp) :
    mmRemoved sps (pp :: t) = pp.2.1 :: sp.2.1 :: mmRemoved sps t := by
  simp only [mmRemoved, List.flatMap_cons, hfind]
  rfl

theorem aux_mm_removed_mem (sps pps : List (String × Nat × String)) (k : Nat) (h : k ∈ mmRemoved sps pps) :
    (∃ q ∈ pps, q.2.1 = k) ∨ (∃ s ∈ sps, s.2.1 = k) := by
  unfold mmRemoved at h
  obtain ⟨pp, hpp, hk⟩ := List.mem_flatMap.mp h
  split at hk
  · rename_i sp hfind
    simp only [List.mem_cons, List.not_mem_nil, or_false] at hk
    rcases hk with hk | hk
    · exact Or.inl ⟨pp, hpp, hk.symm⟩
    · exact Or.inr ⟨sp, List.mem_of_find?_eq_some hfind, hk.symm⟩
  · simp only [List.mem_cons, List.not_mem_nil, or_false] at hk
    exact Or.inl ⟨pp, hpp, hk.symm⟩

/-- the stitched wires: one per pred-port entry `pp = (port, pe, sp)`, paired with the succ-port entry
    `(port', se, dp)` of the same port key: `(source of pe, sp, destination of se, dp)`, tagged with some key -/
inductive mmStitched (sps : List (String × Nat × String)) (c : Core) :
    List (String × Nat × String) → List (Nat × Wire) → Prop
  | nil : mmStitched sps c [] []
  | cons (pp sp : String × Nat × String) (src x y dst k : Nat) (t : List (String × Nat × String))
      (ws : List (Nat × Wire))
      (hfind : sps.find? (fun sp => RG.portKey sp.1 == RG.portKey pp.1) = some sp)
      (hpe : (pp.2.1, src, x) ∈ c.g.edges) (hse : (sp.2.1, y, dst) ∈ c.g.edges)
      (ht : mmStitched sps c t ws) : mmStitched sps c (pp :: t) ((k, (src, pp.2.2, dst, sp.2.2)) :: ws)

theorem aux_mm_stitched_transfer (sps : List (String × Nat × String)) (c1 c : Core)
    (pps : List (String × Nat × String)) (ws : List (Nat × Wire)) (h : mmStitched sps c1 pps ws)
    (hp : ∀ q ∈ pps, ∀ a b, (q.2.1, a, b) ∈ c1.g.edges → (q.2.1, a, b) ∈ c.g.edges)
    (hs : ∀ s ∈ sps, ∀ a b, (s.2.1, a, b) ∈ c1.g.edges → (s.2.1, a, b) ∈ c.g.edges) :
    mmStitched sps c pps ws := by
  induction h with
  | nil => exact mmStitched.nil
  | cons pp sp src x y dst k t ws hfind hpe hse _ ih =>
    exact mmStitched.cons pp sp src x y dst k t ws hfind (hp pp List.mem_cons_self _ _ hpe)
      (hs sp (List.mem_of_find?_eq_some hfind) _ _ hse) (ih (fun q hq => hp q (List.mem_cons_of_mem _ hq)))

/-- freshness of the slot-map keys along the loop (slotmap crate, trusted): the key handed out in an iteration is
    not the key of a live edge, nor of an edge recorded in the port maps that is still to be processed -/
def mmFresh (sps : List (String × Nat × String)) : RG → List (String × Nat × String) → Prop
  | _, [] => True
  | r, pp :: t => ∀ sp r1, sps.find? (fun sp => RG.portKey sp.1 == RG.portKey pp.1) = some sp →
      mmStep sps (some r) pp = some r1 →
      (∀ e ∈ r.g.edges, e.1 ≠ mmKey r pp.2.1 sp.2.1) ∧ (∀ q ∈ t, q.2.1 ≠ mmKey r pp.2.1 sp.2.1) ∧
      (∀ s ∈ sps, s.2.1 ≠ mmKey r pp.2.1 sp.2.1) ∧ mmFresh sps r1 t

theorem aux_mm_bool3 : ∀ a b c : Bool, (!c && (!a && !b)) = !(a || (b || c)) := by decide

theorem aux_mm_foldl_perm (sps : List (String × Nat × String)) :
    ∀ (pps : List (String × Nat × String)) (r r' : RG),
      pps.foldl (mmStep sps) (some r) = some r' → mmFresh sps r pps →
      ∃ ws, mmStitched sps r.core pps ws ∧
        (mmKWires r'.core).Perm (ws ++ (mmKWires r.core).filter (fun w => !(mmRemoved sps pps).contains w.1))
  | [], r, r', h, _ => by
    simp only [List.foldl_nil] at h
    injection h with h
    subst h
    refine ⟨[], mmStitched.nil, ?_⟩
    refine List.Perm.of_eq ?_
    symm
    apply List.filter_eq_self.mpr
    intro w _
    rfl
  | pp :: t, r, r', h, hf => by
    simp only [List.foldl_cons] at h
    cases hs : mmStep sps (some r) pp with
    | none =>
      rw [hs, aux_mm_foldl_none] at h
      cases h
    | some r1 =>
      rw [hs] at h
      obtain ⟨sp, src, x, y, dst, hfind, hne, hpe, hse, htrans, hperm⟩ := aux_mm_step_kwires sps r r1 pp hs
      obtain ⟨hf1, hf2, hf3, hf4⟩ := hf sp r1 hfind hs
      obtain ⟨ws, hst, hp⟩ := aux_mm_foldl_perm sps t r1 r' h hf4
      have hperm1 := hperm (fun e he _ _ => hf1 e he)
      have hst' : mmStitched sps r.core t ws :=
        aux_mm_stitched_transfer sps r1.core r.core t ws hst
          (fun q hq a b hm => htrans _ hm (hf2 q hq)) (fun s hs' a b hm => htrans _ hm (hf3 s hs'))
      refine ⟨(mmKey r pp.2.1 sp.2.1, (src, pp.2.2, dst, sp.2.2)) :: ws,
        mmStitched.cons pp sp src x y dst _ t ws hfind hpe hse hst', ?_⟩
      refine hp.trans ?_
      refine (List.Perm.append_left ws (hperm1.filter (fun w => !(mmRemoved sps t).contains w.1))).trans ?_
      have hknot : (!(mmRemoved sps t).contains (mmKey r pp.2.1 sp.2.1)) = true := by
        simp only [Bool.not_eq_true', List.contains_eq_mem, decide_eq_false_iff_not]
        intro hk
        rcases aux_mm_removed_mem _ _ _ hk with ⟨q, hq, hqk⟩ | ⟨s, hs', hsk⟩
        · exact hf2 q hq hqk
        · exact hf3 s hs' hsk
      simp only [List.filter_cons, hknot, ↓reduceIte]
      refine List.perm_middle.trans ?_
      apply List.Perm.cons
      apply List.Perm.append_left
      refine List.Perm.of_eq ?_
      rw [List.filter_filter, aux_mm_removed_cons sps t pp sp hfind]
      apply List.filter_congr
      intro w _
      simp only [List.contains_cons]
      exact aux_mm_bool3 _ _ _

/-- **`remove_module_boundary(m)`, `List.Perm` form**: if it succeeds (and the slot map hands out fresh keys), the
    wires of the result are, up to order, the stitched wires — one `(source of pe, source port of pe, destination of
    se, destination port of se)` per in-edge `pe` of the pred-port map, `se` being the out-edge with the same port
    key at `m` — followed by the wires of all edges of `r` other than those in- and out-edges of `m`, with unchanged
    ports; `m` is removed from the node list. -/
theorem removeModuleBoundary_wires_perm (r r' : RG) (m : Nat) (h : r.removeModuleBoundary m = some (.ok r'))
    (hfresh : mmFresh (mmSuccPorts r m) r (mmPredPorts r m)) :
    ∃ ws, mmStitched (mmSuccPorts r m) r.core (mmPredPorts r m) ws ∧
      r'.wires.Perm (ws.map (·.2) ++
        (r.g.edges.filter (fun e => !(mmRemoved (mmSuccPorts r m) (mmPredPorts r m)).contains e.1)).map
          (Core.wireOf r.ports)) ∧
      r'.nodes = r.nodes.filter (fun x => x.id != m) := by
  have hnodes := (removeModuleBoundary_wires r r' m h).2
  obtain ⟨_, _, _, _, _, hnodes⟩ := hnodes
  rw [aux_mm_unfold] at h
  split at h
  · cases h
  · split at h
    · cases h
    · rename_i r1 hfold
      unfold mmFinish at h
      split at h
      · cases h
      · injection h with h
        injection h with h
        subst h
        obtain ⟨ws, hst, hp⟩ := aux_mm_foldl_perm _ _ _ _ hfold hfresh
        refine ⟨ws, hst, ?_, hnodes⟩
        show r1.core.wires.Perm _
        rw [← aux_mm_kwires_wires]
        refine (hp.map (·.2)).trans ?_
        rw [List.map_append]
        apply List.Perm.append_left
        refine List.Perm.of_eq ?_
        exact aux_mm_kwires_filter r.core (fun k => !(mmRemoved (mmSuccPorts r m) (mmPredPorts r m)).contains k)

/-- the removed edges are in-edges / out-edges of `m` (by the adjacency lists) -/
theorem mmRemoved_incident (r : RG) (m k : Nat) (h : k ∈ mmRemoved (mmSuccPorts r m) (mmPredPorts r m)) :
    k ∈ DMG.adj r.g.preds m ∨ k ∈ DMG.adj r.g.succs m := by
  rcases aux_mm_removed_mem _ _ _ h with ⟨q, hq, hqk⟩ | ⟨s, hs, hsk⟩
  · exact Or.inl (hqk ▸ (mmPredPorts_spec r m q hq).1)
  · exact Or.inr (hsk ▸ (mmSuccPorts_spec r m s hs).1)

/-- **every wire not incident to the boundary survives `remove_module_boundary(m)` with its ports** -/
theorem removeModuleBoundary_keeps_other_wires (r r' : RG) (m : Nat)
    (h : r.removeModuleBoundary m = some (.ok r'))
    (hfresh : mmFresh (mmSuccPorts r m) r (mmPredPorts r m))
    (e : DEdge) (he : e ∈ r.g.edges) (hp : e.1 ∉ DMG.adj r.g.preds m) (hs : e.1 ∉ DMG.adj r.g.succs m) :
    Core.wireOf r.ports e ∈ r'.wires := by
  obtain ⟨ws, _, hperm, _⟩ := removeModuleBoundary_wires_perm r r' m h hfresh
  apply hperm.mem_iff.mpr
  apply List.mem_append_right
  apply List.mem_map_of_mem
  apply List.mem_filter.mpr
  refine ⟨he, ?_⟩
  simp only [Bool.not_eq_true', List.contains_eq_mem, decide_eq_false_iff_not]
  intro hk
  rcases mmRemoved_incident r m _ hk with h1 | h1
  · exact hp h1
  · exact hs h1

/-! ### merge_modules, `List.Perm` form -/

/-- freshness of the slot-map keys along `merge_modules` -/
def mmFreshAll : RG → List Nat → Prop
  | _, [] => True
  | r, m :: t => mmFresh (mmSuccPorts r m) r (mmPredPorts r m) ∧
      ∀ r1, r.removeModuleBoundary m = some (.ok r1) → mmFreshAll r1 t

/-- what `removeModuleBoundary_wires_perm` says about one boundary removal -/
def BoundaryStitchedPerm (r : RG) (m : Nat) (r' : RG) : Prop :=
  ∃ ws, mmStitched (mmSuccPorts r m) r.core (mmPredPorts r m) ws ∧
    r'.wires.Perm (ws.map (·.2) ++
      (r.g.edges.filter (fun e => !(mmRemoved (mmSuccPorts r m) (mmPredPorts r m)).contains e.1)).map
        (Core.wireOf r.ports)) ∧
    r'.nodes = r.nodes.filter (fun x => x.id != m)

inductive BoundaryPermSeq : RG → List Nat → RG → Prop
  | nil (r : RG) : BoundaryPermSeq r [] r
  | cons (r r1 r' : RG) (m : Nat) (t : List Nat) (h : BoundaryStitchedPerm r m r1)
      (ht : BoundaryPermSeq r1 t r') : BoundaryPermSeq r (m :: t) r'

/-- **`merge_modules`, `List.Perm` form**: a sequence of boundary removals over the module-boundary nodes of the
    initial graph, each of which rewires as `removeModuleBoundary_wires_perm` says -/
theorem mergeModules_preserves_wiring_perm (r r' : RG) (h : r.mergeModules = some (.ok r'))
    (hfresh : mmFreshAll r (mmModNodes r)) : BoundaryPermSeq r (mmModNodes r) r' := by
  have hs := (mergeModules_is_boundary_sequence r r').mp h
  clear h
  generalize mmModNodes r = ms at hs hfresh
  induction hs with
  | nil r => exact BoundaryPermSeq.nil r
  | cons r r1 r' m t h1 _ ih =>
    exact BoundaryPermSeq.cons r r1 r' m t (removeModuleBoundary_wires_perm r r1 m h1 hfresh.1)
      (ih (hfresh.2 r1 h1))

/-! ### non-vacuity -/

/-- `1 -[a]-> [_]mod[_] -[c]-> 3`: a module boundary (node 9) with one (elided) port -/
def exampleModule1 : RG :=
  { core := { nodes := [⟨1, "op", "source_iter"⟩, ⟨9, "mod", "module_boundary"⟩, ⟨3, "op", "for_each"⟩],
              g := ((({} : DMG).insertEdge 4294967297 1 9).insertEdge 4294967298 9 3),
              ports := [(4294967297, "a", "_"), (4294967298, "_", "c")] },
    alloc := SlotAlloc.ofFresh 2 }

example : mmModNodes exampleModule1 = [9] := by decide
example : (exampleModule1.mergeModules).map (fun x => x.toOption.map (fun r => r.wires))
    = some (some [(1, "a", 3, "c")]) := by decide
example : (exampleModule1.mergeModules).map (fun x => x.toOption.map (fun r => r.nodes.map (·.id)))
    = some (some [1, 3]) := by decide

/-- the freshness hypothesis of the `List.Perm` theorems holds on the example (LIFO slot allocator model) -/
example : mmFreshAll exampleModule1 (mmModNodes exampleModule1) := by
  have hm : mmModNodes exampleModule1 = [9] := by decide
  have hp : mmPredPorts exampleModule1 9 = [("_", 4294967297, "a")] := by decide
  have hs : mmSuccPorts exampleModule1 9 = [("_", 4294967298, "c")] := by decide
  rw [hm]
  refine ⟨?_, fun _ _ => trivial⟩
  rw [hp, hs]
  intro sp r1 hfind _
  have hsp : sp = ("_", 4294967298, "c") := by
    have : List.find? (fun sp => RG.portKey sp.1 == RG.portKey ("_", 4294967297, "a").1) [("_", 4294967298, "c")]
        = some ("_", 4294967298, "c") := by decide
    rw [this] at hfind
    injection hfind with hfind
    exact hfind.symm
  subst hsp
  have hk : mmKey exampleModule1 4294967297 4294967298 = 12884901890 := by decide
  refine ⟨?_, ?_, ?_, trivial⟩
  · show ∀ e ∈ exampleModule1.g.edges, e.1 ≠ mmKey exampleModule1 4294967297 4294967298
    rw [hk]
    decide
  · intro q hq
    cases hq
  · show ∀ s ∈ [(("_" : String), (4294967298 : Nat), ("c" : String))], s.2.1 ≠ mmKey exampleModule1 4294967297 4294967298
    rw [hk]
    decide

/-- `1 -[a]-> [0]mod[0] -[c]-> 3`, `2 -[b]-> [1]mod[1] -[d]-> 4`: a module boundary (node 9) with two ports.
    (`portKey "0"` calls `String.toNat?`, on which `decide`/`rfl` get stuck (well-founded recursion), so these
    are proved with `cbv`, which rewrites with the unfolding equations; the proof term is kernel-checked and
    uses no extra axiom.) -/
def exampleModule2 : RG :=
  { core := { nodes := [⟨1, "op", "source_iter"⟩, ⟨2, "op", "source_iter"⟩, ⟨9, "mod", "module_boundary"⟩,
                        ⟨3, "op", "for_each"⟩, ⟨4, "op", "for_each"⟩],
              g := ((((({} : DMG).insertEdge 4294967297 1 9).insertEdge 4294967298 2 9).insertEdge 4294967299 9 3).insertEdge
                      4294967300 9 4),
              ports := [(4294967297, "a", "0"), (4294967298, "b", "1"), (4294967299, "0", "c"), (4294967300, "1", "d")] },
    alloc := SlotAlloc.ofFresh 4 }

example : (exampleModule2.mergeModules).map (fun x => x.toOption.map (fun r => r.wires))
    = some (some [(1, "a", 3, "c"), (2, "b", 4, "d")]) := by cbv
example : (exampleModule2.mergeModules).map (fun x => x.toOption.map (fun r => r.nodes.map (·.id)))
    = some (some [1, 2, 3, 4]) := by cbv
/-- mismatching port keys give the diagnostic -/
example : ({ exampleModule2 with core := { exampleModule2.core with
      ports := [(4294967297, "a", "0"), (4294967298, "b", "1"), (4294967299, "0", "c"), (4294967300, "2", "d")] } }
    : RG).mergeModules.map (fun x => x.toOption.isSome) = some false := by cbv

end HvPart
