/-
C20 — graph rewrites and meta-graph serialisation preserve the dataflow.

Model: `HvPart.DMG` (`DiMulGraph`), `HvPart.Core` / `HvPart.RG` (`DfirGraph::remove_intermediate_node`,
`insert_intermediate_node`, `eliminate_extra_unions_tees`, `merge_modules`), Model/DiMul.lean.
Observation: `Core.wires` = the list of `(src, src port, dst, dst port)` of all edges, up to permutation.

Proved (all graphs, all fresh keys):
  * `removeNode_wires`      removing an intermediate node replaces its in-edge and its out-edge by one edge that
                            keeps the producer's output port and the consumer's input port; every other wire is untouched;
  * `insertNode_wires`      inserting an intermediate node (handoff insertion, used by the partitioner — C18's
                            "exactly one handoff per crossing edge") replaces one edge by two whose outer ports are the old
                            ones and whose ports at the new node are elided; every other wire is untouched;
  * `eliminate_preserves_wiring` `eliminate_extra_unions_tees` is a sequence of such removals of nodes that are
                            single-input single-output `union`/`tee` operators of the *initial* graph;
  * `insertEdge_registers_partial`  the `assert_valid` clause for edge insertion (partial: see below).

Freshness of the keys handed out by the slot map (`k ∉` live keys) is a hypothesis (slotmap crate, trusted; the
driver's LIFO free-list model reproduces the real keys exactly in the correspondence check).

`merge_modules` / `remove_module_boundary`: `Props/C20Modules.lean` (stitching per port key keeps the outer ports,
every other wire survives, the fold over the module-boundary nodes).

PARTIAL: `DiMulValidPreservedStatement` (assert_valid preserved by remove/insert-intermediate-vertex) is proved for
`insert_edge` only; the serde JSON round trip is covered by correspondence + oracle only (it cannot be modelled;
finding F20 — `#var` markers inside operator arguments were lost — is fixed in /repo).
-/
import HvPart.Model.DiMul

namespace HvPart

/-! ### association-list lemmas -/

theorem aux_aget_aset_self {α} (m : List (Nat × α)) (k : Nat) (v : α) : aget (aset m k v) k = some v := by
  induction m with
  | nil => simp [aset, aget]
  | cons p t ih =>
    obtain ⟨k', v'⟩ := p
    unfold aset
    by_cases h : k' = k
    · simp [h, aget]
    · simp [h, aget, ih]

theorem aux_aget_aset_ne {α} (m : List (Nat × α)) (k j : Nat) (v : α) (hne : j ≠ k) :
    aget (aset m k v) j = aget m j := by
  induction m with
  | nil =>
    have : ¬ k = j := fun e => hne e.symm
    simp [aset, aget, this]
  | cons p t ih =>
    obtain ⟨k', v'⟩ := p
    unfold aset
    by_cases h : k' = k
    · have : ¬ k = j := fun e => hne e.symm
      have h2 : ¬ k' = j := by rw [h]; exact this
      simp [h, aget, this]
    · simp only [h, if_false, aget]
      by_cases h2 : k' = j
      · simp [h2]
      · simp [h2, ih]

theorem aux_aget_aerase_ne {α} (m : List (Nat × α)) (k j : Nat) (hne : j ≠ k) :
    aget (aerase m k) j = aget m j := by
  induction m with
  | nil => simp [aerase, aget]
  | cons p t ih =>
    obtain ⟨k', v'⟩ := p
    unfold aerase at ih ⊢
    by_cases h : k' = k
    · subst h
      have hkj : ¬ k' = j := fun e => hne e.symm
      simp [aget, hkj, ih]
    · have : (k' != k) = true := by simpa using h
      simp only [List.filter_cons, this, if_true, aget]
      by_cases h2 : k' = j
      · simp [h2]
      · simp [h2, ih]

theorem aux_perm_insertSortedEdge (e : DEdge) : ∀ l, (DMG.insertSortedEdge e l).Perm (e :: l)
  | [] => List.Perm.refl _
  | x :: t => by
    unfold DMG.insertSortedEdge
    split
    · exact List.Perm.refl _
    · exact ((aux_perm_insertSortedEdge e t).cons x).trans (List.Perm.swap e x t)

theorem aux_edge?_mem (g : DMG) (k a b : Nat) (h : g.edge? k = some (a, b)) : (k, a, b) ∈ g.edges := by
  unfold DMG.edge? at h
  split at h
  · rename_i e hf
    have hm := List.mem_of_find?_eq_some hf
    have hk := List.find?_some hf
    injection h with h
    obtain ⟨k', a', b'⟩ := e
    simp only [beq_iff_eq] at hk
    simp only [Prod.mk.injEq] at h
    obtain ⟨h1, h2⟩ := h
    subst hk; subst h1; subst h2
    exact hm
  · cases h

/-- wires of edges whose ports are not touched by an update of the port map -/
theorem aux_map_wireOf_congr (P P' : List (Nat × String × String)) (es : List DEdge)
    (h : ∀ e ∈ es, aget P' e.1 = aget P e.1) : es.map (Core.wireOf P') = es.map (Core.wireOf P) := by
  apply List.map_congr_left
  intro e he
  unfold Core.wireOf
  rw [h e he]

/-! ### removing an intermediate node -/

/-- **`remove_intermediate_node` contracts exactly one node out of the wiring**: the in-edge `pe = (a → n)` and
    the out-edge `se = (n → b)` are replaced by one edge `a → b` carrying `pe`'s source port and `se`'s destination
    port; all other edges keep their endpoints and ports. -/
theorem removeNode_wires (c c' : Core) (k n : Nat)
    (h : c.removeNode k n = some c') :
    ∃ pe se a x y b, aget c.g.preds n = some [pe] ∧ aget c.g.succs n = some [se] ∧ pe ≠ se ∧
      (pe, a, x) ∈ c.g.edges ∧ (se, y, b) ∈ c.g.edges ∧
      ((∀ e ∈ c.g.edges, e.1 ≠ pe → e.1 ≠ se → e.1 ≠ k) →
        c'.wires.Perm ((a, (c.portsOf pe).1, b, (c.portsOf se).2) ::
          (c.g.edges.filter (fun e => e.1 != pe && e.1 != se)).map (Core.wireOf c.ports))) ∧
      c'.nodes = c.nodes.filter (fun x => x.id != n) := by
  unfold Core.removeNode at h
  split at h
  · cases h
  · split at h
    · cases h
    · rename_i g' pe se hrm
      injection h with h
      subst h
      unfold DMG.removeIntermediateVertex at hrm
      split at hrm
      · rename_i pe0 se0 hp hs
        split at hrm
        · rename_i a x y b hpe hse
          split at hrm
          · cases hrm
          · rename_i hne
            injection hrm with hrm
            simp only [Prod.mk.injEq] at hrm
            obtain ⟨hg, hpe', hse'⟩ := hrm
            subst hpe'; subst hse'
            have hne' : pe0 ≠ se0 := by simpa using hne
            refine ⟨pe0, se0, a, x, y, b, hp, hs, hne', aux_edge?_mem _ _ _ _ hpe, aux_edge?_mem _ _ _ _ hse, ?_, rfl⟩
            intro hfresh
            subst hg
            unfold Core.wires
            simp only [DMG.insertEdge]
            refine ((aux_perm_insertSortedEdge _ _).map _).trans ?_
            simp only [List.map_cons]
            have hw : Core.wireOf (aset (aerase (aerase c.ports pe0) se0) k ((c.portsOf pe0).1, (c.portsOf se0).2)) (k, a, b)
                = (a, (c.portsOf pe0).1, b, (c.portsOf se0).2) := by
              unfold Core.wireOf
              simp [aux_aget_aset_self]
            rw [hw]
            apply List.Perm.cons
            have hfe : DMG.eraseEdge (DMG.eraseEdge c.g.edges pe0) se0
                = c.g.edges.filter (fun e => e.1 != pe0 && e.1 != se0) := by
              unfold DMG.eraseEdge
              rw [List.filter_filter]
              apply List.filter_congr
              intro e _
              simp [Bool.and_comm]
            rw [hfe]
            rw [aux_map_wireOf_congr c.ports]
            intro e he
            simp only [List.mem_filter, Bool.and_eq_true, bne_iff_ne, ne_eq] at he
            obtain ⟨hm, h1, h2⟩ := he
            have h3 := hfresh e hm h1 h2
            rw [aux_aget_aset_ne _ _ _ _ h3, aux_aget_aerase_ne _ _ _ h2, aux_aget_aerase_ne _ _ _ h1]
        · cases hrm
      · cases hrm

/-! ### inserting an intermediate node (handoff insertion) -/

/-- **`insert_intermediate_node` puts exactly one new node on exactly one edge**: edge `e = (s → d)` is replaced by
    `s → v` (old source port, elided at `v`) and `v → d` (elided at `v`, old destination port); all other edges keep
    their endpoints and ports.  Contracting `v` therefore gives back the old wiring. -/
theorem insertNode_wires (c c' : Core) (k0 k1 v e : Nat)
    (h : c.insertNode k0 k1 v e = some c')
    (hf0 : ∀ x ∈ c.g.edges, x.1 ≠ e → x.1 ≠ k0) (hf1 : ∀ x ∈ c.g.edges, x.1 ≠ e → x.1 ≠ k1) (h01 : k0 ≠ k1) :
    ∃ s d, (e, s, d) ∈ c.g.edges ∧
      c'.wires.Perm ((v, "_", d, (c.portsOf e).2) :: (s, (c.portsOf e).1, v, "_") ::
        (c.g.edges.filter (fun x => x.1 != e)).map (Core.wireOf c.ports)) := by
  unfold Core.insertNode at h
  split at h
  · cases h
  · rename_i g' hins
    injection h with h
    subst h
    unfold DMG.insertIntermediateVertex at hins
    split at hins
    · cases hins
    · rename_i s d hed
      split at hins
      · cases hins
      · injection hins with hins
        subst hins
        refine ⟨s, d, aux_edge?_mem _ _ _ _ hed, ?_⟩
        unfold Core.wires
        simp only
        refine ((aux_perm_insertSortedEdge _ _).map _).trans ?_
        simp only [List.map_cons]
        have hw1 : Core.wireOf (aset (aset (aerase c.ports e) k0 ((c.portsOf e).1, "_")) k1 ("_", (c.portsOf e).2)) (k1, v, d)
            = (v, "_", d, (c.portsOf e).2) := by
          unfold Core.wireOf
          simp [aux_aget_aset_self]
        rw [hw1]
        apply List.Perm.cons
        refine ((aux_perm_insertSortedEdge _ _).map _).trans ?_
        simp only [List.map_cons]
        have hw0 : Core.wireOf (aset (aset (aerase c.ports e) k0 ((c.portsOf e).1, "_")) k1 ("_", (c.portsOf e).2)) (k0, s, v)
            = (s, (c.portsOf e).1, v, "_") := by
          unfold Core.wireOf
          simp [aux_aget_aset_ne _ _ _ _ h01, aux_aget_aset_self]
        rw [hw0]
        apply List.Perm.cons
        unfold DMG.eraseEdge
        rw [aux_map_wireOf_congr c.ports]
        intro x hx
        simp only [List.mem_filter, bne_iff_ne, ne_eq] at hx
        obtain ⟨hm, hne⟩ := hx
        rw [aux_aget_aset_ne _ _ _ _ (hf1 x hm hne), aux_aget_aset_ne _ _ _ _ (hf0 x hm hne),
          aux_aget_aerase_ne _ _ _ hne]

/-! ### eliminate_extra_unions_tees -/

/-- `r'` is obtained from `r` by `remove_intermediate_node` on the nodes `ns`, in order -/
inductive RemovedSeq : RG → List Nat → RG → Prop
  | nil (r : RG) : RemovedSeq r [] r
  | cons (r r1 r' : RG) (n : Nat) (t : List Nat) (h : r.removeIntermediateNode n = some r1)
      (ht : RemovedSeq r1 t r') : RemovedSeq r (n :: t) r'

theorem aux_removeAll_seq : ∀ (ns : List Nat) (r r' : RG), r.removeAll ns = some r' → RemovedSeq r ns r'
  | [], r, r', h => by
    simp only [RG.removeAll] at h
    injection h with h
    subst h
    exact RemovedSeq.nil r
  | n :: t, r, r', h => by
    simp only [RG.removeAll] at h
    split at h
    · rename_i r1 h1
      exact RemovedSeq.cons r r1 r' n t h1 (aux_removeAll_seq t r1 r' h)
    · cases h

/-- **`eliminate_extra_unions_tees` is a sequence of `remove_intermediate_node` calls on the single-input
    single-output `union`s, then `tee`s, of the graph it was given** (the list is computed before any removal). -/
theorem eliminate_is_removal_sequence (r r' : RG) (h : r.eliminateExtraUnionsTees = some r') :
    RemovedSeq r (r.findUnaryOps "union" ++ r.findUnaryOps "tee") r' :=
  aux_removeAll_seq _ r r' h

/-- what `find_unary_ops` selects -/
theorem findUnaryOps_spec (r : RG) (name : String) (n : Nat) (h : n ∈ r.findUnaryOps name) :
    ∃ x ∈ r.nodes, x.id = n ∧ x.kind = "op" ∧ x.name = name ∧ r.g.degIn n = 1 ∧ r.g.degOut n = 1 := by
  unfold RG.findUnaryOps at h
  simp only [List.mem_map, List.mem_filter, Bool.and_eq_true, beq_iff_eq] at h
  obtain ⟨x, ⟨hx, ⟨⟨⟨hk, hn⟩, hi⟩, ho⟩⟩, rfl⟩ := h
  exact ⟨x, hx, rfl, hk, hn, hi, ho⟩

/-- the slot-map bookkeeping does not influence the graph: a removal at `RG` level is `Core.removeNode` with the
    key the allocator hands out -/
theorem removeIntermediateNode_core (r r1 : RG) (n : Nat) (h : r.removeIntermediateNode n = some r1) :
    ∃ k, r.core.removeNode k n = some r1.core := by
  unfold RG.removeIntermediateNode at h
  split at h
  · simp only [Option.map_eq_some_iff] at h
    obtain ⟨c, hc, rfl⟩ := h
    exact ⟨_, hc⟩
  · cases h

/-- the wiring effect of a removal sequence: every step contracts one node (`removeNode_wires`) -/
inductive ContractSeq : Core → List Nat → Core → Prop
  | nil (c : Core) : ContractSeq c [] c
  | cons (c c1 c' : Core) (k n : Nat) (t : List Nat)
      (hstep : ∃ pe se a x y b, aget c.g.preds n = some [pe] ∧ aget c.g.succs n = some [se] ∧ pe ≠ se ∧
        (pe, a, x) ∈ c.g.edges ∧ (se, y, b) ∈ c.g.edges ∧
        ((∀ e ∈ c.g.edges, e.1 ≠ pe → e.1 ≠ se → e.1 ≠ k) →
          c1.wires.Perm ((a, (c.portsOf pe).1, b, (c.portsOf se).2) ::
            (c.g.edges.filter (fun e => e.1 != pe && e.1 != se)).map (Core.wireOf c.ports))) ∧
        c1.nodes = c.nodes.filter (fun x => x.id != n))
      (ht : ContractSeq c1 t c') : ContractSeq c (n :: t) c'

/-- **`eliminate_extra_unions_tees` preserves the wiring**: it only contracts unary `union`/`tee` nodes, each
    contraction keeping the outer ports, and touches no other node, edge or port. -/
theorem eliminate_preserves_wiring (r r' : RG) (h : r.eliminateExtraUnionsTees = some r') :
    ContractSeq r.core (r.findUnaryOps "union" ++ r.findUnaryOps "tee") r'.core := by
  have hs := eliminate_is_removal_sequence r r' h
  clear h
  generalize (r.findUnaryOps "union" ++ r.findUnaryOps "tee") = ns at hs
  induction hs with
  | nil r => exact ContractSeq.nil _
  | cons r r1 r' n t h1 _ ih =>
    obtain ⟨k, hk⟩ := removeIntermediateNode_core r r1 n h1
    exact ContractSeq.cons _ _ _ k n t (removeNode_wires _ _ k n hk) ih

/-! ### the `assert_valid` invariant -/

/-- full statement: `assert_valid` is an invariant of all `DiMulGraph` operations -/
def DiMulValidPreservedStatement : Prop :=
  ∀ (g g' : DMG) (k v pe se : Nat),
    (∀ e ∈ g.edges, (DMG.adj g.succs e.2.1).contains e.1 = true ∧ (DMG.adj g.preds e.2.2).contains e.1 = true) →
    g.removeIntermediateVertex k v = some (g', pe, se) →
    (∀ e ∈ g'.edges, (DMG.adj g'.succs e.2.1).contains e.1 = true ∧ (DMG.adj g'.preds e.2.2).contains e.1 = true)

/-- **`insert_edge` registers the new edge in both adjacency lists** (partial form of
    `DiMulValidPreservedStatement`: the first clause of `assert_valid` for the inserted edge; preservation by
    `remove_intermediate_vertex` / `insert_intermediate_vertex` is checked on every case by the correspondence —
    the real `insert_intermediate_vertex` calls `assert_valid` itself — and by the harness's `rvalid` line). -/
theorem insertEdge_registers_partial (g : DMG) (k s d : Nat) :
    (k, s, d) ∈ (g.insertEdge k s d).edges ∧ k ∈ DMG.adj (g.insertEdge k s d).succs s ∧
      k ∈ DMG.adj (g.insertEdge k s d).preds d := by
  unfold DMG.insertEdge
  refine ⟨?_, ?_, ?_⟩
  · exact (aux_perm_insertSortedEdge (k, s, d) g.edges).mem_iff.mpr List.mem_cons_self
  · simp [DMG.adj, aux_aget_aset_self]
  · simp [DMG.adj, aux_aget_aset_self]

/-! ### non-vacuity -/

/-- `source -> union -> map -> for_each` with a unary union (node 2) -/
def exampleUnary : RG :=
  { core := { nodes := [⟨1, "op", "source_iter"⟩, ⟨2, "op", "union"⟩, ⟨3, "op", "map"⟩],
              g := ((({} : DMG).insertEdge 4294967297 1 2).insertEdge 4294967298 2 3),
              ports := [(4294967297, "_", "_"), (4294967298, "_", "_")] },
    alloc := SlotAlloc.ofFresh 2 }

example : (exampleUnary.eliminateExtraUnionsTees).map (fun r => r.wires) = some [(1, "_", 3, "_")] := by decide
example : (exampleUnary.eliminateExtraUnionsTees).map (fun r => r.nodes.map (·.id)) = some [1, 3] := by decide

end HvPart
