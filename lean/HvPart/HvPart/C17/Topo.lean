-- COPIED on every run from lean/HvGraphAlg/HvGraphAlg/Model/Topo.lean by lean/HvPart/tools/translate.py — do not edit
/-
Model of `dfir_lang/src/graph/graph_algorithms.rs`: `topo_sort` and `validate_topo_sort`,
transcribed line by line.  Node ids are `Nat`.

`topo_sort`'s `preds_fn` is an `FnMut`; `SubgraphMerge::try_merge` passes a closure that mutates
the union-find (path compression).  The model therefore threads an external state `σ` through
every call of the predecessor function (`predsFn : σ → Nat → σ × List Nat`); the pure case is
`σ = Unit`.

Recursion of `pred_dfs_postorder` is modelled with fuel (= recursion depth).  `topoSortS n …`
uses fuel `n + 1`, where `n` bounds the node ids; `Props/C17.lean` proves that this fuel
is never exhausted (`topoSort_total`).
-/
namespace HvGraphAlg

/-- `HashMap<Id, bool>`: `false` = temporary mark, `true` = permanent mark -/
abbrev Marks := Nat → Option Bool

def setMark (m : Marks) (k : Nat) (b : Bool) : Marks := fun x => if x = k then some b else m x

inductive Res
  | ok | cyc | fuel
  deriving DecidableEq, Repr

/-- the mutable state of the DFS: `marked`, `order`, and the state captured by `preds_fn` -/
structure TS (σ : Type) where
  marked : Marks
  order : List Nat
  ext : σ

/-- the `map_err` closure:
`if order.len() == 1 || order.first().unwrap() != order.last().unwrap() { order.push(node_id) }` -/
def errPush (order : List Nat) (node : Nat) : List Nat :=
  if order.length == 1 || order.head? != order.getLast? then order ++ [node] else order

/-- `for next_pred in (preds_fn)(node_id) { pred_dfs_postorder(next_pred, …).map_err(…)?; }` -/
def dfsLoop {σ : Type} (rec : Nat → TS σ → Res × TS σ) (node : Nat) :
    List Nat → TS σ → Res × TS σ
  | [], st => (.ok, st)
  | p :: ps, st =>
    match rec p st with
    | (.ok, st') => dfsLoop rec node ps st'
    | (.cyc, st') => (.cyc, { st' with order := errPush st'.order node })
    | (.fuel, st') => (.fuel, st')

/-- `pred_dfs_postorder` -/
def dfs {σ : Type} (predsFn : σ → Nat → σ × List Nat) : Nat → Nat → TS σ → Res × TS σ
  | 0, _, st => (.fuel, st)
  | fuel + 1, node, st =>
    match st.marked node with
    | some true => (.ok, st)
    | some false => (.cyc, { st with order := [node] })   -- order.clear(); order.push(node_id)
    | none =>
      let pr := predsFn st.ext node
      match dfsLoop (dfs predsFn fuel) node pr.2
          { marked := setMark st.marked node false, order := st.order, ext := pr.1 } with
      | (.ok, st') =>
        (.ok, { marked := setMark st'.marked node true, order := st'.order ++ [node], ext := st'.ext })
      | r => r

/-- the outer `for node_id in node_ids` loop -/
def topoLoop {σ : Type} (predsFn : σ → Nat → σ × List Nat) (fuel : Nat) :
    List Nat → TS σ → Res × TS σ
  | [], st => (.ok, st)
  | i :: is, st =>
    match dfs predsFn fuel i st with
    | (.ok, st') => topoLoop predsFn fuel is st'
    | r => r

/-- `let end = order.last().unwrap(); let beg = order.iter().position(|n| n == end).unwrap();
order.drain(0..=beg);` -/
def cycleOf (order : List Nat) : List Nat :=
  match order.getLast? with
  | none => []
  | some e => order.drop (order.idxOf e + 1)

inductive TopoResult
  | ok (order : List Nat)
  | cyc (cycle : List Nat)
  | fuel
  deriving DecidableEq, Repr

/-- `topo_sort` with a stateful predecessor function; returns the final captured state too -/
def topoSortS {σ : Type} (n : Nat) (ids : List Nat) (predsFn : σ → Nat → σ × List Nat) (s : σ) :
    TopoResult × σ :=
  match topoLoop predsFn (n + 1) ids { marked := fun _ => none, order := [], ext := s } with
  | (.ok, st) => (.ok st.order, st.ext)
  | (.cyc, st) => (.cyc (cycleOf st.order), st.ext)
  | (.fuel, st) => (.fuel, st.ext)

/-- `topo_sort` with a pure predecessor function -/
def topoSort (n : Nat) (ids : List Nat) (preds : Nat → List Nat) : TopoResult :=
  (topoSortS n ids (fun (s : Unit) k => (s, preds k)) ()).1

/-! ### `validate_topo_sort` -/

inductive ValRes
  | ok
  | err (pred succ : Nat)
  | panic
  deriving DecidableEq, Repr

/-- `indexed.get(&k)` for `indexed = topo_sort.enumerate().map(|(i, n)| (n, i)).collect::<BTreeMap>()`:
a later duplicate overwrites an earlier one -/
def lastIdx (order : List Nat) (k : Nat) : Option Nat :=
  (order.zipIdx.foldl (fun (m : Option Nat) (p : Nat × Nat) => if p.1 = k then some p.2 else m) none)

def valPreds (order : List Nat) (succ succIdx : Nat) : List Nat → ValRes
  | [] => .ok
  | p :: ps =>
    match lastIdx order p with
    | none => .panic
    | some pi => if succIdx ≤ pi then .err p succ else valPreds order succ succIdx ps

def valLoop (order : List Nat) (preds : Nat → List Nat) : List Nat → ValRes
  | [] => .ok
  | s :: ss =>
    match valPreds order s ((lastIdx order s).getD 0) (preds s) with
    | .ok => valLoop order preds ss
    | r => r

/-- insertion of `x` into an ascending duplicate-free list (`BTreeSet::insert`) -/
def insertSorted (x : Nat) : List Nat → List Nat
  | [] => [x]
  | y :: ys => if x < y then x :: y :: ys else if x = y then y :: ys else y :: insertSorted x ys

/-- `collect::<BTreeSet<_>>()` / the key order of a `BTreeMap` -/
def toSortedSet (l : List Nat) : List Nat := l.foldl (fun acc x => insertSorted x acc) []

/-- `validate_topo_sort` (iterates the `BTreeMap` in ascending key order) -/
def validateTopoSort (order : List Nat) (preds : Nat → List Nat) : ValRes :=
  valLoop order preds (toSortedSet order)

end HvGraphAlg
