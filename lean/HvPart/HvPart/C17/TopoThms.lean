-- COPIED on every run from lean/HvGraphAlg/HvGraphAlg/Props/C17.lean (topo_sort section) by lean/HvPart/tools/translate.py — do not edit
import HvPart.C17.TopoProofs
namespace HvGraphAlg

/-! ## `topo_sort` -/

/-- `x` is reachable from one of `ids` by following predecessor edges backwards
(these are exactly the nodes `topo_sort` visits) -/
inductive ReachFrom (P : Nat → List Nat) (ids : List Nat) : Nat → Prop
  | start {i : Nat} : i ∈ ids → ReachFrom P ids i
  | pred {x p : Nat} : ReachFrom P ids x → p ∈ P x → ReachFrom P ids p

/-- the graph is finite: ids and predecessors are `< n` -/
structure Bounded (n : Nat) (ids : List Nat) (P : Nat → List Nat) : Prop where
  ids : ∀ i ∈ ids, i < n
  preds : ∀ k, k < n → ∀ p ∈ P k, p < n

theorem aux_topoSort_spec {n : Nat} {ids : List Nat} {P : Nat → List Nat} (hb : Bounded n ids P) :
    match topoSort n ids P with
    | .ok o => o.Nodup ∧ Resp P o ∧ (∀ i ∈ ids, i ∈ o) ∧ (∀ x ∈ o, x < n ∧ ReachFrom P ids x)
    | .cyc c => RealCycle P c ∧ (∀ x ∈ c, x < n ∧ ReachFrom P ids x)
    | .fuel => False := by
  have h := topoSortS_spec (σ := Unit) (fun s k => (s, P k)) (P := P)
    (R := fun x => x < n ∧ ReachFrom P ids x) (I := fun _ => True) (n := n)
    (fun _ _ _ => rfl) (fun _ _ _ => trivial)
    (fun x hx p hp => ⟨hb.preds x hx.1 p hp, .pred hx.2 hp⟩) (fun x hx => hx.1)
    ids () (fun i hi => ⟨hb.ids i hi, .start hi⟩) trivial
  unfold topoSort
  generalize topoSortS n ids (fun (s : Unit) k => (s, P k)) () = out at h
  obtain ⟨r, s⟩ := out
  cases r with
  | ok o => exact ⟨h.1, h.2.1, h.2.2.1, h.2.2.2.1⟩
  | cyc c => exact ⟨h.1, h.2.1⟩
  | fuel => exact h

/-- The recursion of `topo_sort` terminates: the model's fuel (`n + 1`) is never exhausted. -/
theorem topoSort_total {n : Nat} {ids : List Nat} {P : Nat → List Nat} (hb : Bounded n ids P) :
    topoSort n ids P ≠ .fuel := by
  intro h
  have := aux_topoSort_spec hb
  rw [h] at this
  exact this

theorem aux_resp_idx_lt {P : Nat → List Nat} {o : List Nat} (ho : Resp P o) (hn : o.Nodup) {x p : Nat}
    (hx : x ∈ o) (hp : p ∈ P x) : o.idxOf p < o.idxOf x := by
  obtain ⟨l1, l2, rfl⟩ := List.append_of_mem hx
  have hp1 : p ∈ l1 := ho.split l1 x l2 rfl p hp
  have hxnot : x ∉ l1 := by
    intro hx1
    exact (List.nodup_append.1 hn).2.2 x hx1 x (by simp) rfl
  rw [List.idxOf_append, if_pos hp1, List.idxOf_append, if_neg hxnot]
  have := List.idxOf_lt_length_of_mem hp1
  simp
  omega

/-- On `Ok(order)`: every node is listed once, the nodes are exactly those reachable from `ids`
through predecessor edges, and every edge `p → x` has `p` strictly before `x`. -/
theorem topoSort_ok_respects_edges {n : Nat} {ids : List Nat} {P : Nat → List Nat}
    (hb : Bounded n ids P) {o : List Nat} (h : topoSort n ids P = .ok o) :
    o.Nodup ∧ (∀ x, x ∈ o ↔ ReachFrom P ids x) ∧
      (∀ x ∈ o, ∀ p ∈ P x, p ∈ o ∧ o.idxOf p < o.idxOf x) := by
  have hs := aux_topoSort_spec hb
  rw [h] at hs
  obtain ⟨hnd, hresp, hids, hR⟩ := hs
  refine ⟨hnd, fun x => ⟨fun hx => (hR x hx).2, fun hx => ?_⟩, fun x hx p hp =>
    ⟨hresp.closed x hx p hp, aux_resp_idx_lt hresp hnd hx hp⟩⟩
  induction hx with
  | start hi => exact hids _ hi
  | pred _ hp ih => exact hresp.closed _ ih _ hp

/-- When `ids` lists all nodes `0 .. n-1`, `Ok(order)` is a permutation of the nodes. -/
theorem topoSort_ok_perm {n : Nat} {ids : List Nat} {P : Nat → List Nat}
    (hb : Bounded n ids P) (hall : ∀ x, x < n → x ∈ ids) {o : List Nat}
    (h : topoSort n ids P = .ok o) : o.Perm (List.range n) := by
  have hs := aux_topoSort_spec hb
  rw [h] at hs
  obtain ⟨hnd, _, hids, hR⟩ := hs
  rw [List.perm_iff_count]
  intro a
  rw [hnd.count, List.nodup_range.count]
  have : a ∈ o ↔ a ∈ List.range n := by
    rw [List.mem_range]
    exact ⟨fun ha => (hR a ha).1, fun ha => hids a (hall a ha)⟩
  simp [this]

/-- On `Err(cycle)`: the reported cycle is genuine — non-empty, every node once, consecutive
nodes joined by edges, the last node has an edge to the first — and lies in the visited part. -/
theorem topoSort_err_is_cycle {n : Nat} {ids : List Nat} {P : Nat → List Nat}
    (hb : Bounded n ids P) {c : List Nat} (h : topoSort n ids P = .cyc c) :
    RealCycle P c ∧ ∀ x ∈ c, ReachFrom P ids x := by
  have hs := aux_topoSort_spec hb
  rw [h] at hs
  exact ⟨hs.1, fun x hx => (hs.2 x hx).2⟩


end HvGraphAlg
