-- COPIED on every run from lean/HvGraphAlg/HvGraphAlg/Proofs/Topo.lean by lean/HvPart/tools/translate.py — do not edit
/-
Correctness of the `topo_sort` model (`Model/Topo.lean`).

`P : Nat → List Nat` is the (pure) predecessor function that the possibly stateful `predsFn`
computes (`hP`); an edge `p → x` exists iff `p ∈ P x`.
-/
import HvPart.C17.Topo
namespace HvGraphAlg

/-! ### counting measure (shared with the union-find termination proof) -/

def cntP (n : Nat) (f : Nat → Bool) : Nat := (List.range n).countP f

theorem cntP_le {n : Nat} {f g : Nat → Bool} (h : ∀ x, g x = true → f x = true) :
    cntP n g ≤ cntP n f :=
  List.countP_mono_left (fun x _ hx => h x hx)

theorem cntP_lt {n : Nat} {f g : Nat → Bool} (h : ∀ x, g x = true → f x = true)
    {k : Nat} (hk : k < n) (hf : f k = true) (hg : g k = false) : cntP n g < cntP n f := by
  induction n with
  | zero => omega
  | succ m ih =>
    unfold cntP at *
    rw [List.range_succ, List.countP_append, List.countP_append]
    have hle : (List.range m).countP g ≤ (List.range m).countP f :=
      List.countP_mono_left (fun x _ hx => h x hx)
    by_cases hkm : k = m
    · subst hkm
      simp [hf, hg]
      omega
    · have := ih (by omega)
      have hl : List.countP g [m] ≤ List.countP f [m] :=
        List.countP_mono_left (fun x _ hx => h x hx)
      omega

theorem cntP_le_n (n : Nat) (f : Nat → Bool) : cntP n f ≤ n := by
  unfold cntP
  have := List.countP_le_length (p := f) (l := List.range n)
  simpa using this

/-! ### graph notions -/

/-- `l` lists every node after all its predecessors, and is closed under predecessors -/
inductive Resp (P : Nat → List Nat) : List Nat → Prop
  | nil : Resp P []
  | snoc {l : List Nat} {a : Nat} : Resp P l → (∀ p ∈ P a, p ∈ l) → Resp P (l ++ [a])

/-- consecutive elements are joined by edges: in `a :: b :: _`, `a → b` (`a ∈ P b`) -/
def IsPath (P : Nat → List Nat) : List Nat → Prop
  | [] => True
  | [_] => True
  | a :: b :: r => a ∈ P b ∧ IsPath P (b :: r)

/-- the last element has an edge to the first -/
def Closes (P : Nat → List Nat) (l : List Nat) : Prop :=
  ∀ a b, l.head? = some a → l.getLast? = some b → b ∈ P a

/-- a genuine cycle: non-empty, every node once, consecutive edges, closes -/
structure RealCycle (P : Nat → List Nat) (c : List Nat) : Prop where
  ne : c ≠ []
  nodup : c.Nodup
  path : IsPath P c
  closes : Closes P c

theorem Resp.split {P : Nat → List Nat} {l : List Nat} (h : Resp P l) :
    ∀ l1 x l2, l = l1 ++ x :: l2 → ∀ p ∈ P x, p ∈ l1 := by
  induction h with
  | nil => intro l1 x l2 h; simp at h
  | @snoc l a _ ha ih =>
    intro l1 x l2 hl p hp
    rcases List.eq_nil_or_concat l2 with h2 | ⟨l2', b, h2⟩
    · subst h2
      have : l ++ [a] = l1 ++ [x] := hl
      have h3 := List.append_inj' this rfl
      obtain ⟨h4, h5⟩ := h3
      simp at h5
      subst h4; subst h5
      exact ha p hp
    · subst h2
      rw [List.concat_eq_append] at hl
      have : l ++ [a] = (l1 ++ x :: l2') ++ [b] := by simpa using hl
      have h3 := List.append_inj' this rfl
      exact ih l1 x l2' h3.1 p hp

theorem Resp.closed {P : Nat → List Nat} {l : List Nat} (h : Resp P l) :
    ∀ x ∈ l, ∀ p ∈ P x, p ∈ l := by
  intro x hx p hp
  obtain ⟨l1, l2, rfl⟩ := List.append_of_mem hx
  have := h.split l1 x l2 rfl p hp
  simp [this]

theorem IsPath.prefix {P : Nat → List Nat} : ∀ (l1 l2 : List Nat), IsPath P (l1 ++ l2) → IsPath P l1
  | [], _, _ => trivial
  | [_], _, _ => trivial
  | a :: b :: r, l2, h => by
    simp only [List.cons_append, IsPath] at h ⊢
    exact ⟨h.1, IsPath.prefix (b :: r) l2 h.2⟩

theorem IsPath.cons {P : Nat → List Nat} {a : Nat} {l : List Nat}
    (h : IsPath P l) (hh : ∀ b, l.head? = some b → a ∈ P b) : IsPath P (a :: l) := by
  cases l with
  | nil => trivial
  | cons b r => exact ⟨hh b rfl, h⟩

/-- along a path inside a `Resp` duplicate-free list, positions do not decrease -/
theorem aux_path_idx {P : Nat → List Nat} {o : List Nat} (ho : Resp P o) (hn : o.Nodup) :
    ∀ (l : List Nat), IsPath P l → (∀ x ∈ l, x ∈ o) →
      ∀ a b, l.head? = some a → l.getLast? = some b → o.idxOf a ≤ o.idxOf b
  | [], _, _, a, b, h, _ => by simp at h
  | [x], _, _, a, b, h1, h2 => by
    simp at h1 h2; subst h1; subst h2; exact Nat.le_refl _
  | x :: y :: r, hp, hm, a, b, h1, h2 => by
    simp only [List.head?_cons, Option.some.injEq] at h1
    subst h1
    rw [List.getLast?_cons_cons] at h2
    have ih := aux_path_idx ho hn (y :: r) hp.2 (fun z hz => hm z (List.mem_cons_of_mem _ hz)) y b rfl h2
    have hy : y ∈ o := hm y (by simp)
    obtain ⟨l1, l2, rfl⟩ := List.append_of_mem hy
    have hx1 : x ∈ l1 := ho.split l1 y l2 rfl x hp.1
    have hynot : y ∉ l1 := by
      intro hy1
      have := (List.nodup_append.1 hn).2.2 y hy1 y (by simp)
      exact this rfl
    have e1 : (l1 ++ y :: l2).idxOf x < l1.length := by
      rw [List.idxOf_append, if_pos hx1]; exact List.idxOf_lt_length_of_mem hx1
    have e2 : (l1 ++ y :: l2).idxOf y = l1.length := by
      rw [List.idxOf_append, if_neg hynot]; simp
    omega

/-- a `Resp` duplicate-free list contains no cycle -/
theorem resp_no_cycle {P : Nat → List Nat} {o : List Nat} (ho : Resp P o) (hn : o.Nodup)
    {c : List Nat} (hc : RealCycle P c) (hm : ∀ x ∈ c, x ∈ o) : False := by
  cases hca : c.head? with
  | none => exact hc.ne (List.head?_eq_none_iff.1 hca)
  | some a =>
    cases hcb : c.getLast? with
    | none => exact hc.ne (List.getLast?_eq_none_iff.1 hcb)
    | some b =>
      have h1 := aux_path_idx ho hn c hc.path hm a b hca hcb
      have h2 : b ∈ P a := hc.closes a b hca hcb
      have ha : a ∈ o := hm a (List.mem_of_mem_head? hca)
      obtain ⟨l1, l2, hs⟩ := List.append_of_mem ha
      have hb1 : b ∈ l1 := ho.split l1 a l2 hs b h2
      have hanot : a ∉ l1 := by
        intro ha1
        rw [hs] at hn
        exact (List.nodup_append.1 hn).2.2 a ha1 a (by simp) rfl
      rw [hs] at h1
      rw [List.idxOf_append, if_neg hanot, List.idxOf_append, if_pos hb1] at h1
      have := List.idxOf_lt_length_of_mem hb1
      simp at h1
      omega

/-! ### the DFS invariant -/

section dfs
variable {σ : Type} (predsFn : σ → Nat → σ × List Nat) (P : Nat → List Nat)
  (R : Nat → Prop) (I : σ → Prop) (n : Nat)

/-- number of unmarked nodes below `n` -/
def unm (n : Nat) (m : Marks) : Nat := cntP n (fun x => (m x).isNone)

structure TInv (st : TS σ) (S : List Nat) : Prop where
  perm : ∀ x, st.marked x = some true ↔ x ∈ st.order
  temp : ∀ x, st.marked x = some false ↔ x ∈ S
  nodup : st.order.Nodup
  resp : Resp P st.order
  inR : ∀ x ∈ st.order, R x
  ext : I st.ext

/-- an unfinished cycle report: `order = c :: T`, where `T` are the frames already unwound
(top first) and `S` is the remaining stack (top first), `c ∈ S` -/
def OpenC (S order : List Nat) : Prop :=
  ∃ c T, order = c :: T ∧ c ∈ S ∧ (T ++ S).Nodup ∧ IsPath P (T ++ S) ∧ (∀ x ∈ T ++ S, R x) ∧
    (∀ a, (T ++ S).head? = some a → c ∈ P a)

/-- a finished cycle report: `order = c :: T ++ [c]` and `T ++ [c]` is a genuine cycle -/
def ClosedC (order : List Nat) : Prop :=
  ∃ c T, order = c :: (T ++ [c]) ∧ RealCycle P (T ++ [c]) ∧ ∀ x ∈ T ++ [c], R x

def DfsPost (S : List Nat) (node : Nat) (st : TS σ) (out : Res × TS σ) : Prop :=
  match out with
  | (.ok, st') => TInv P R I st' S ∧ node ∈ st'.order ∧ ∃ new, st'.order = st.order ++ new
  | (.cyc, st') => (OpenC P R S st'.order ∨ ClosedC P R st'.order) ∧ I st'.ext
  | (.fuel, _) => False

def LoopPost (S : List Nat) (ps : List Nat) (st : TS σ) (out : Res × TS σ) : Prop :=
  match out with
  | (.ok, st') => TInv P R I st' S ∧ (∀ p ∈ ps, p ∈ st'.order) ∧ ∃ new, st'.order = st.order ++ new
  | (.cyc, st') => (OpenC P R S.tail st'.order ∨ ClosedC P R st'.order) ∧ I st'.ext
  | (.fuel, _) => False

variable {P R I n}

theorem TInv.mono {st st' : TS σ} {S : List Nat} (h : TInv P R I st S) (h' : TInv P R I st' S)
    (hnew : ∃ new, st'.order = st.order ++ new) : ∀ x, (st'.marked x).isNone = true → (st.marked x).isNone = true := by
  intro x hx
  cases hm : st.marked x with
  | none => rfl
  | some b =>
    exfalso
    obtain ⟨new, hnew⟩ := hnew
    cases b with
    | true =>
      have := (h'.perm x).2 (by rw [hnew]; exact List.mem_append_left _ ((h.perm x).1 hm))
      rw [this] at hx; simp at hx
    | false =>
      have := (h'.temp x).2 ((h.temp x).1 hm)
      rw [this] at hx; simp at hx

theorem errPush_closed {order : List Nat} (x : Nat) (h : ClosedC P R order) : errPush order x = order := by
  obtain ⟨c, T, rfl, _, _⟩ := h
  unfold errPush
  have h1 : (c :: (T ++ [c])).length ≠ 1 := by simp
  have h2 : (c :: (T ++ [c])).head? = (c :: (T ++ [c])).getLast? := by
    rw [← List.cons_append, List.getLast?_concat]; rfl
  simp [h2]

theorem errPush_open {S order : List Nat} (x : Nat) (h : OpenC P R (x :: S) order) :
    OpenC P R S (errPush order x) ∨ ClosedC P R (errPush order x) := by
  obtain ⟨c, T, rfl, hc, hnd, hpath, hR, hcl⟩ := h
  have hcT : c ∉ T := by
    intro hcT
    exact (List.nodup_append.1 hnd).2.2 c hcT c hc rfl
  have hpush : errPush (c :: T) x = c :: (T ++ [x]) := by
    unfold errPush
    rcases List.eq_nil_or_concat T with hT | ⟨T', t, hT⟩
    · subst hT; simp
    · subst hT
      rw [List.concat_eq_append] at hcT ⊢
      have : t ≠ c := by
        intro h; apply hcT; simp [h]
      have h2 : (c :: (T' ++ [t])).getLast? = some t := by
        rw [← List.cons_append, List.getLast?_concat]
      rw [h2]
      simp [Ne.symm this]
  rw [hpush]
  have hassoc : (T ++ [x]) ++ S = T ++ x :: S := by simp
  by_cases hcx : c = x
  · right
    subst hcx
    refine ⟨c, T, rfl, ⟨by simp, ?_, ?_, ?_⟩, ?_⟩
    · rw [← hassoc] at hnd; exact (List.nodup_append.1 hnd).1
    · rw [← hassoc] at hpath; exact IsPath.prefix _ _ hpath
    · intro a b ha hb
      rw [List.getLast?_concat] at hb
      cases hb
      apply hcl a
      rw [← hassoc, List.head?_append, ha]; rfl
    · intro y hy
      apply hR y
      rw [← hassoc]; exact List.mem_append_left _ hy
  · left
    refine ⟨c, T ++ [x], rfl, ?_, ?_, ?_, ?_, ?_⟩
    · rcases List.mem_cons.1 hc with h | h
      · exact absurd h hcx
      · exact h
    · rw [hassoc]; exact hnd
    · rw [hassoc]; exact hpath
    · rw [hassoc]; exact hR
    · rw [hassoc]; exact hcl

/-- the predecessor loop of the frame of `x` (stack `x :: S`) -/
theorem dfsLoop_spec (rec : Nat → TS σ → Res × TS σ) (x : Nat) (S : List Nat) (k : Nat)
    (hrec : ∀ p st, p ∈ P x → TInv P R I st (x :: S) → unm n st.marked ≤ k →
      DfsPost P R I (x :: S) p st (rec p st)) :
    ∀ ps st, (∀ p ∈ ps, p ∈ P x) → TInv P R I st (x :: S) → unm n st.marked ≤ k →
      LoopPost P R I (x :: S) ps st (dfsLoop rec x ps st) := by
  intro ps
  induction ps with
  | nil =>
    intro st _ hinv _
    exact ⟨hinv, by simp, [], by simp⟩
  | cons p ps ih =>
    intro st hps hinv hk
    have h1 := hrec p st (hps p (by simp)) hinv hk
    unfold dfsLoop
    generalize hr : rec p st = out at h1
    obtain ⟨r, st'⟩ := out
    cases r with
    | ok =>
      obtain ⟨hinv', hp, new, hnew⟩ := h1
      have hmono := hinv.mono hinv' ⟨new, hnew⟩
      have hk' : unm n st'.marked ≤ k := Nat.le_trans (cntP_le hmono) hk
      have h2 := ih st' (fun q hq => hps q (List.mem_cons_of_mem _ hq)) hinv' hk'
      simp only
      generalize dfsLoop rec x ps st' = out2 at h2
      obtain ⟨r2, st2⟩ := out2
      cases r2 with
      | ok =>
        obtain ⟨hinv2, hall, new2, hnew2⟩ := h2
        refine ⟨hinv2, ?_, new ++ new2, by rw [hnew2, hnew, List.append_assoc]⟩
        intro q hq
        rcases List.mem_cons.1 hq with h | h
        · subst h; rw [hnew2]; exact List.mem_append_left _ hp
        · exact hall q h
      | cyc => exact h2
      | fuel => exact h2
    | cyc =>
      obtain ⟨hc, hI⟩ := h1
      refine ⟨?_, hI⟩
      rcases hc with ho | hcl
      · exact errPush_open x ho
      · right
        show ClosedC P R (errPush st'.order x)
        rw [errPush_closed x hcl]; exact hcl
    | fuel => exact h1

theorem cycleOf_closed {order : List Nat} (h : ClosedC P R order) :
    RealCycle P (cycleOf order) ∧ ∀ x ∈ cycleOf order, R x := by
  obtain ⟨c, T, rfl, hc, hr⟩ := h
  have : cycleOf (c :: (T ++ [c])) = T ++ [c] := by
    unfold cycleOf
    have h2 : (c :: (T ++ [c])).getLast? = some c := by
      rw [← List.cons_append, List.getLast?_concat]
    rw [h2]
    simp
  rw [this]
  exact ⟨hc, hr⟩

variable (hP : ∀ s k, I s → (predsFn s k).2 = P k) (hI : ∀ s k, I s → I (predsFn s k).1)
  (hR : ∀ x, R x → ∀ p ∈ P x, R p) (hRn : ∀ x, R x → x < n)
include hP hI hR hRn

theorem dfs_spec : ∀ fuel node (st : TS σ) S, TInv P R I st S → R node → S.Nodup → IsPath P S →
    (∀ y ∈ S, R y) → (∀ a, S.head? = some a → node ∈ P a) → unm n st.marked < fuel →
    DfsPost P R I S node st (dfs predsFn fuel node st) := by
  intro fuel
  induction fuel with
  | zero => intro _ _ _ _ _ _ _ _ _ h; omega
  | succ fuel ih =>
    intro node st S hinv hRnode hSnd hSpath hSR hhead hfuel
    unfold dfs
    cases hm : st.marked node with
    | some b =>
      cases b with
      | true =>
        exact ⟨hinv, (hinv.perm node).1 hm, [], by simp⟩
      | false =>
        refine ⟨Or.inl ⟨node, [], rfl, (hinv.temp node).1 hm, by simpa using hSnd, by simpa using hSpath,
          by simpa using hSR, by simpa using hhead⟩, hinv.ext⟩
    | none =>
      simp only
      have hnotS : node ∉ S := by
        intro h; have := (hinv.temp node).2 h; rw [hm] at this; cases this
      have hnotO : node ∉ st.order := by
        intro h; have := (hinv.perm node).2 h; rw [hm] at this; cases this
      -- the state after `marked.insert(node_id, false)` and the call of `preds_fn`
      let st1 : TS σ := { marked := setMark st.marked node false, order := st.order,
                          ext := (predsFn st.ext node).1 }
      have hinv1 : TInv P R I st1 (node :: S) := by
        refine ⟨?_, ?_, hinv.nodup, hinv.resp, hinv.inR, hI _ _ hinv.ext⟩
        · intro x
          show setMark st.marked node false x = some true ↔ x ∈ st.order
          unfold setMark
          by_cases hx : x = node
          · subst hx; simp [hnotO]
          · simp [hx, hinv.perm x]
        · intro x
          show setMark st.marked node false x = some false ↔ x ∈ node :: S
          unfold setMark
          by_cases hx : x = node
          · subst hx; simp
          · simp [hx, hinv.temp x]
      have hdec : unm n st1.marked < unm n st.marked := by
        apply cntP_lt (k := node)
        · intro x hx
          show (st.marked x).isNone = true
          have : (setMark st.marked node false x).isNone = true := hx
          unfold setMark at this
          by_cases hxn : x = node
          · simp [hxn] at this
          · simpa [hxn] using this
        · exact hRn node hRnode
        · simp [hm]
        · show (setMark st.marked node false node).isNone = false
          simp [setMark]
      have hstack_nd : (node :: S).Nodup := List.nodup_cons.2 ⟨hnotS, hSnd⟩
      have hstack_path : IsPath P (node :: S) := IsPath.cons hSpath hhead
      have hstack_R : ∀ y ∈ node :: S, R y := by
        intro y hy
        rcases List.mem_cons.1 hy with h | h
        · subst h; exact hRnode
        · exact hSR y h
      have hloop := dfsLoop_spec (P := P) (R := R) (I := I) (n := n) (dfs predsFn fuel) node S
        (unm n st1.marked)
        (fun p st2 hp hinv2 hk2 =>
          ih p st2 (node :: S) hinv2 (hR node hRnode p hp) hstack_nd hstack_path hstack_R
            (fun a ha => by cases ha; exact hp) (by omega))
        (predsFn st.ext node).2 st1 (by rw [hP _ _ hinv.ext]; exact fun p hp => hp) hinv1 (Nat.le_refl _)
      generalize hout : dfsLoop (dfs predsFn fuel) node (predsFn st.ext node).2
        { marked := setMark st.marked node false, order := st.order, ext := (predsFn st.ext node).1 } = out
        at hloop
      obtain ⟨r, st'⟩ := out
      cases r with
      | ok =>
        obtain ⟨hinv', hall, new, hnew⟩ := hloop
        have hnew' : st'.order = st.order ++ new := hnew
        have hnode_temp : st'.marked node = some false := (hinv'.temp node).2 (by simp)
        have hnode_notO : node ∉ st'.order := by
          intro h; have := (hinv'.perm node).2 h; rw [hnode_temp] at this; cases this
        refine ⟨⟨?_, ?_, ?_, ?_, ?_, hinv'.ext⟩, by simp, new ++ [node], by simp [hnew']⟩
        · intro x
          show setMark st'.marked node true x = some true ↔ x ∈ st'.order ++ [node]
          unfold setMark
          by_cases hx : x = node
          · subst hx; simp
          · simp [hx, hinv'.perm x]
        · intro x
          show setMark st'.marked node true x = some false ↔ x ∈ S
          unfold setMark
          by_cases hx : x = node
          · subst hx; simp [hnotS]
          · have := hinv'.temp x
            simp [hx] at this ⊢
            exact this
        · show (st'.order ++ [node]).Nodup
          rw [List.nodup_append]
          refine ⟨hinv'.nodup, by simp, ?_⟩
          intro a ha b hb
          simp at hb; subst hb
          intro hab; subst hab; exact hnode_notO ha
        · show Resp P (st'.order ++ [node])
          apply Resp.snoc hinv'.resp
          intro p hp
          apply hall p
          rw [hP _ _ hinv.ext]; exact hp
        · intro y hy
          rcases List.mem_append.1 hy with h | h
          · exact hinv'.inR y h
          · simp at h; subst h; exact hRnode
      | cyc => exact hloop
      | fuel => exact hloop

theorem topoLoop_spec (fuel : Nat) : ∀ ids (st : TS σ), (∀ i ∈ ids, R i) → TInv P R I st [] →
    unm n st.marked < fuel →
    match topoLoop predsFn fuel ids st with
    | (.ok, st') => TInv P R I st' [] ∧ (∀ i ∈ ids, i ∈ st'.order) ∧ ∃ new, st'.order = st.order ++ new
    | (.cyc, st') => ClosedC P R st'.order ∧ I st'.ext
    | (.fuel, _) => False := by
  intro ids
  induction ids with
  | nil => intro st _ hinv _; exact ⟨hinv, by simp, [], by simp⟩
  | cons i is ih =>
    intro st hids hinv hfuel
    have h1 := dfs_spec predsFn hP hI hR hRn fuel i st [] hinv (hids i (by simp)) List.nodup_nil trivial
      (by simp) (by simp) hfuel
    unfold topoLoop
    generalize dfs predsFn fuel i st = out at h1
    obtain ⟨r, st'⟩ := out
    cases r with
    | ok =>
      obtain ⟨hinv', hi, new, hnew⟩ := h1
      have hmono := hinv.mono hinv' ⟨new, hnew⟩
      have h2 := ih st' (fun j hj => hids j (List.mem_cons_of_mem _ hj)) hinv'
        (Nat.lt_of_le_of_lt (cntP_le hmono) hfuel)
      simp only
      generalize topoLoop predsFn fuel is st' = out2 at h2
      obtain ⟨r2, st2⟩ := out2
      cases r2 with
      | ok =>
        obtain ⟨hinv2, hall, new2, hnew2⟩ := h2
        refine ⟨hinv2, ?_, new ++ new2, by rw [hnew2, hnew, List.append_assoc]⟩
        intro q hq
        rcases List.mem_cons.1 hq with h | h
        · subst h; rw [hnew2]; exact List.mem_append_left _ hi
        · exact hall q h
      | cyc => exact h2
      | fuel => exact h2
    | cyc =>
      obtain ⟨hc, hI'⟩ := h1
      refine ⟨?_, hI'⟩
      rcases hc with ⟨c, T, _, hcS, _⟩ | hcl
      · simp at hcS
      · exact hcl
    | fuel => exact h1

/-- Specification of `topoSortS` (stateful predecessor function computing `P`). -/
theorem topoSortS_spec (ids : List Nat) (s : σ) (hids : ∀ i ∈ ids, R i) (hs : I s) :
    match topoSortS n ids predsFn s with
    | (.ok o, s') => o.Nodup ∧ Resp P o ∧ (∀ i ∈ ids, i ∈ o) ∧ (∀ x ∈ o, R x) ∧ I s'
    | (.cyc c, s') => RealCycle P c ∧ (∀ x ∈ c, R x) ∧ I s'
    | (.fuel, _) => False := by
  have hinv0 : TInv P R I ({ marked := fun _ => none, order := [], ext := s } : TS σ) [] :=
    ⟨(by intro x; simp), (by intro x; simp), List.nodup_nil, Resp.nil, (by intro x hx; cases hx), hs⟩
  have h := topoLoop_spec predsFn hP hI hR hRn (n + 1) ids _ hids hinv0
    (Nat.lt_succ_of_le (cntP_le_n _ _))
  unfold topoSortS
  generalize topoLoop predsFn (n + 1) ids { marked := fun _ => none, order := [], ext := s } = out at h
  obtain ⟨r, st'⟩ := out
  cases r with
  | ok =>
    obtain ⟨hinv, hall, _⟩ := h
    exact ⟨hinv.nodup, hinv.resp, hall, hinv.inR, hinv.ext⟩
  | cyc =>
    obtain ⟨hc, hI'⟩ := h
    have := cycleOf_closed hc
    exact ⟨this.1, this.2, hI'⟩
  | fuel => exact h

end dfs

end HvGraphAlg
