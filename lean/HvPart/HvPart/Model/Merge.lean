/-
Re-transcription of `dfir_lang::graph::graph_algorithms::SubgraphMerge` (new / find / try_merge /
subgraphs) and of `dfir_lang::union_find::UnionFind` (abstracted to its representative function:
`union(i, j)` relabels class `j` to `i`, exactly what `links[find(b)] = find(a)` does to `find`).
Executed by the driver.  Proved for this transcription: enemies never share a group (`Props/EnemiesSep.lean`) and
independence of the one hash iteration order (`Props/C42.lean`, `Props/C42Lift.lean`); the range/order invariant is
the subject of C17 (project HvGraphAlg, own transcription).

The one place where the Rust code iterates a hash container (`for w in self.enemies.remove(v)…`,
a `HashSet<K>`) takes the iteration order as an explicit permutation argument (`perm`), see C42.
-/
import HvPart.Model.Basic
import HvPart.Model.TopoSort

namespace HvPart

structure SM where
  /-- `subgraph_preds` (per representative) -/
  preds : List (Nat × List Nat)
  /-- `toposort_node` -/
  topo : List Nat
  /-- `sg_idx` -/
  idx : List (Nat × Nat)
  /-- `sg_len` -/
  len : List (Nat × Nat)
  /-- union-find, as the list of `union(i, j)` calls performed so far (newest first), see `findIn` -/
  rep : List (Nat × Nat)
  /-- `enemies` (per representative; each a duplicate-free list standing for a `HashSet`) -/
  enemies : List (Nat × List Nat)
  deriving Repr, Inhabited

inductive NewResult
  | ok (sm : SM)
  | cycle (c : List Nat)
  | panic (what : String)

inductive MergeResult
  | done (sm : SM) (merged : Bool)
  | panic (what : String)

namespace SM

/-- the union-find as the list of performed unions, newest first: `(j, i)` = "class `j` was linked under `i`" -/
def findIn : List (Nat × Nat) → Nat → Nat
  | [], k => k
  | (j, i) :: rest, k => let r := findIn rest k; if r = j then i else r

def find (sm : SM) (k : Nat) : Nat := findIn sm.rep k

def setInsert (s : List Nat) (x : Nat) : List Nat := if s.contains x then s else s ++ [x]

def addEnemy (en : List (Nat × List Nat)) (a b : Nat) : List (Nat × List Nat) :=
  aset en a (setInsert ((aget en a).getD []) b)

/-- `SubgraphMerge::new` -/
def new (ts : TopoSortFn) (keys : List Nat) (predsFn : Nat → List Nat) (enemyPairs : List (Nat × Nat)) : NewResult :=
  let preds := keys.map (fun k => (k, predsFn k))
  match ts keys (fun k => (aget preds k).getD []) with
  | .error c => .cycle c
  | .ok topo =>
    if enemyPairs.any (fun p => p.1 == p.2) then .panic "no-merge-pair-same-node" else
    let enemies := enemyPairs.foldl (fun en p => addEnemy (addEnemy en p.1 p.2) p.2 p.1) []
    .ok { preds := preds, topo := topo,
          idx := topo.zipIdx.map (fun p => (p.1, p.2)),
          len := topo.map (fun k => (k, 1)),
          rep := [], enemies := enemies }

/-- `subgraphs()`: the contiguous slices `toposort_node[i .. i+sg_len]` -/
def subgraphsAux (sm : SM) : Nat → List Nat → List (List Nat)
  | 0, _ => []
  | _, [] => []
  | fuel + 1, k :: rest =>
    let l := (aget sm.len k).getD 1
    (k :: rest).take l :: subgraphsAux sm fuel ((k :: rest).drop (max l 1))

def subgraphs (sm : SM) : List (List Nat) := subgraphsAux sm (sm.topo.length + 1) sm.topo

def slice (l : List Nat) (start len : Nat) : List Nat := (l.drop start).take len

/-- step 1 of `try_merge`: can `v` reach `u` through predecessor groups inside the window
    (other than by a direct `u → v` edge)?  `true` = cycle found.  Reads `subgraph_preds`, `sg_idx` and the
    union-find only. -/
def cycleCheckF (preds : List (Nat × List Nat)) (idx rep : List (Nat × Nat)) (u v wlo whi : Nat) :
    Nat → List Nat → List Nat → Bool
  | 0, _, _ => false
  | fuel + 1, stack, visited =>
    match stack.getLast? with
    | none => false
    | some x =>
      let stack := stack.dropLast
      -- the `for &p in subgraph_preds[x]` loop: (found, stack, visited)
      let r := ((aget preds x).getD []).foldl (fun (acc : Bool × List Nat × List Nat) p =>
        if acc.1 then acc else
        let rp := findIn rep p
        if rp == u then (if x == v then acc else (true, acc.2.1, acc.2.2))
        else
          let ip := (aget idx rp).getD 0
          if wlo ≤ ip && ip < whi && !acc.2.2.contains rp then (false, acc.2.1 ++ [rp], acc.2.2 ++ [rp])
          else acc) (false, stack, visited)
      if r.1 then true else cycleCheckF preds idx rep u v wlo whi fuel r.2.1 r.2.2

def cycleCheck (sm : SM) (u v wlo whi fuel : Nat) (stack visited : List Nat) : Bool :=
  cycleCheckF sm.preds sm.idx sm.rep u v wlo whi fuel stack visited

/-- the enemy remapping loop of step 2; `ws` is `enemies.remove(v)` in the order the `HashSet`
    happens to iterate -/
def remapEnemies (en : List (Nat × List Nat)) (u v : Nat) (ws : List Nat) : List (Nat × List Nat) :=
  ws.foldl (fun en w =>
    let en := addEnemy en u w
    let we := ((aget en w).getD []).filter (· != v)
    aset en w (setInsert we u)) en

/-- everything `try_merge` computes in steps 2 and 3 that does not involve the enemy sets -/
structure MergeRest where
  preds : List (Nat × List Nat)
  topo : List Nat
  idx : List (Nat × Nat)
  len : List (Nat × Nat)
  rep : List (Nat × Nat)

/-- steps 2 and 3 of `try_merge` for representatives `u` (earlier in the order) and `v`, without the enemy
    remapping; `none` = the `expect("bug: cycle check passed but re-toposort found cycle")` fires -/
def mergeRest (preds0 : List (Nat × List Nat)) (topo0 : List Nat) (idx0 len0 : List (Nat × Nat))
    (rep0 : List (Nat × Nat)) (u v : Nat) : Option MergeRest :=
  let uIdx := (aget idx0 u).getD 0
  let uLen := (aget len0 u).getD 0
  let vIdx := (aget idx0 v).getD 0
  let vLen := (aget len0 v).getD 0
  let uNodes := slice topo0 uIdx uLen
  let vNodes := slice topo0 vIdx vLen
  let wlo := uIdx
  let whi := vIdx + vLen
  -- 2. union + predecessor lists
  let rep := (v, u) :: rep0
  let find' := findIn rep
  let vPreds := (aget preds0 v).getD []
  let uPreds := (aget preds0 u).getD [] ++ vPreds
  let uPreds := sortDedup ((uPreds.map find').filter (· != u))
  let preds := aset (aerase preds0 v) u uPreds
  let idx := aerase idx0 v
  let len := aset (aerase len0 v) u (uLen + vLen)
  -- 3. re-sort the groups in the window
  let window := slice topo0 wlo (whi - wlo)
  let reps := sortDedup (window.map find')
  let inWin := fun p => let ip := (aget idx p).getD 0; wlo ≤ ip && ip < whi
  match topoSort reps (fun k => (((aget preds k).getD []).map find').filter inWin) with
  | .error _ => none
  | .ok sorted =>
    let buf := sorted.flatMap fun grp =>
      if grp == u then uNodes ++ vNodes
      else slice topo0 ((aget idx grp).getD 0) ((aget len grp).getD 0)
    let topo := topo0.take wlo ++ buf ++ topo0.drop whi
    let idx := (sorted.foldl (fun (acc : List (Nat × Nat) × Nat) grp =>
      (aset acc.1 grp acc.2, acc.2 + (aget len grp).getD 0)) (idx, wlo)).1
    some { preds := preds, topo := topo, idx := idx, len := len, rep := rep }

/-- steps 2 and 3 of `try_merge`; the enemy set of `v` is iterated in the order `perm` gives it -/
def mergeCore (perm : List Nat → List Nat) (sm : SM) (u v : Nat) : MergeResult :=
  match mergeRest sm.preds sm.topo sm.idx sm.len sm.rep u v with
  | none => .panic "cycle-check-passed-but-re-toposort-found-cycle"
  | some x =>
    .done { preds := x.preds, topo := x.topo, idx := x.idx, len := x.len, rep := x.rep,
            enemies := remapEnemies (aerase sm.enemies v) u v (perm ((aget sm.enemies v).getD [])) } true

/-- `try_merge` once `u` (earlier in the order) and `v` are fixed: the window cycle check, then the merge -/
def tryMergeTail (perm : List Nat → List Nat) (sm : SM) (u v : Nat) : MergeResult :=
  let wlo := (aget sm.idx u).getD 0
  let whi := (aget sm.idx v).getD 0 + (aget sm.len v).getD 0
  if cycleCheck sm u v wlo whi (sm.topo.length + 2) [v] [v] then .done sm false else
  mergeCore perm sm u v

/-- `try_merge(u, v)`; `perm` reorders the iterated enemy set (identity in the driver) -/
def tryMergeP (perm : List Nat → List Nat) (sm : SM) (u0 v0 : Nat) : MergeResult :=
  let a := sm.find u0
  let b := sm.find v0
  if a == b then .done sm true else
  if ((aget sm.enemies a).getD []).contains b then .done sm false else
  -- ensure `u` is before `v` in the order
  if (aget sm.idx a).getD 0 < (aget sm.idx b).getD 0 then tryMergeTail perm sm a b
  else tryMergeTail perm sm b a

def tryMerge (sm : SM) (u v : Nat) : MergeResult := tryMergeP id sm u v

end SM
end HvPart
