/-
Executable model of `dfir_lang::graph::flat_to_partitioned::partition_graph`
(find_edge_barriers, find_access_group_ordering, find_subgraph_unionfind, make_subgraphs,
make_loops_contiguous, mark_tick_boundary_handoffs) over an abstract flat graph.

`SubgraphMerge` (graph_algorithms.rs) is *re-transcribed* here (`Merge.lean`) so the driver can run; the
`topo_sort` it calls in `new` is a parameter `ts` of `partitionWith` — the driver runs `tsC17`, C17's transcription
(`TopoC17.lean`), whose specification is proved in this project (`Props/C19.lean`); the window re-sort inside
`try_merge` uses the own transcription `TopoSort.lean`.  Of the `SubgraphMerge` invariants, "no enemies in one
group" is proved for this transcription (`Props/EnemiesSep.lean`); the range/order invariant is C17's, for its own
transcription, and is covered here by the correspondence check.

Decision tables (`node_color` degrees, `can_connect_colorize`, delay remap, `input_delaytype_fn`)
come from `Gen/*.lean`, regenerated from the Rust source on every run.
-/
import HvPart.Model.Basic
import HvPart.Model.TopoSort
import HvPart.Model.TopoC17
import HvPart.Model.Merge
import HvPart.Gen.Color
import HvPart.Gen.Catalogue

namespace HvPart

structure FNode where
  id : Nat
  isHoff : Bool
  name : String
  loop : Option Nat
  deriving Repr, Inhabited

structure FEdge where
  id : Nat
  src : Nat
  dst : Nat
  sport : String
  dport : String
  deriving Repr, Inhabited, DecidableEq

/-- one resolved handoff reference of operator `node` (`ResolvedHandoffRef`), in node order then
    reference order -/
structure FRef where
  node : Nat
  target : Option Nat
  isMut : Bool
  group : Option Nat
  deriving Repr, Inhabited

structure FLoop where
  id : Nat
  parent : Option Nat
  nodes : List Nat
  deriving Repr, Inhabited

/-- the flat `DfirGraph` as the partitioner sees it: `nodes` in `node_ids()` order, `edges` in
    `edges()` order -/
structure Flat where
  nodes : List FNode := []
  edges : List FEdge := []
  refs : List FRef := []
  loops : List FLoop := []
  deriving Repr, Inhabited

namespace Flat

def nodeIds (g : Flat) : List Nat := g.nodes.map (·.id)

def node? (g : Flat) (n : Nat) : Option FNode := g.nodes.find? (fun x => x.id == n)

def isHoff (g : Flat) (n : Nat) : Bool :=
  match g.node? n with | some x => x.isHoff | none => false

def nodeName (g : Flat) (n : Nat) : String :=
  match g.node? n with | some x => x.name | none => ""

def nodeLoop (g : Flat) (n : Nat) : Option Nat :=
  match g.node? n with | some x => x.loop | none => none

def loopParent (g : Flat) (l : Nat) : Option Nat :=
  match g.loops.find? (fun x => x.id == l) with | some x => x.parent | none => none

/-- `loop_nodes(l)`, restricted to nodes that still exist (entries of removed nodes are never read) -/
def loopNodes (g : Flat) (l : Nat) : List Nat :=
  match g.loops.find? (fun x => x.id == l) with
  | some x => x.nodes.filter (fun n => (g.node? n).isSome)
  | none => []

def degIn (g : Flat) (n : Nat) : Nat := (g.edges.filter (fun e => e.dst == n)).length
def degOut (g : Flat) (n : Nat) : Nat := (g.edges.filter (fun e => e.src == n)).length

/-- pipe consumers of `n` -/
def consumers (g : Flat) (n : Nat) : List Nat := (g.edges.filter (fun e => e.src == n)).map (·.dst)
def producers (g : Flat) (n : Nat) : List Nat := (g.edges.filter (fun e => e.dst == n)).map (·.src)

/-- `DfirGraph::node_color` -/
def nodeColor (g : Flat) (n : Nat) : Option Color :=
  if g.isHoff n then some Color.hoff
  else match aget' Gen.colorOverrides (g.nodeName n) with
    | some c => some c
    | none => Gen.degColorTbl (min (g.degIn n) 2) (min (g.degOut n) 2)
where
  aget' (m : List (String × Color)) (k : String) : Option Color :=
    match m with
    | [] => none
    | (k', v) :: t => if k' == k then some v else aget' t k

/-! ### find_edge_barriers -/

/-- delay type declared by the destination operator of `e` -/
def edgeDelay (g : Flat) (e : FEdge) : Option Delay :=
  if g.isHoff e.dst then none else Gen.inputDelay (g.nodeName e.dst)

/-- `tick_edges` -/
def tickEdges (g : Flat) : List (Nat × Delay) :=
  g.edges.filterMap (fun e => (g.edgeDelay e).map (fun d => (e.id, d)))

def isTick (g : Flat) (e : FEdge) : Bool := (g.edgeDelay e).isSome

/-- `edge_barrier_pairs` -/
def barrierPairs (g : Flat) : List (Nat × Nat) :=
  g.edges.filterMap (fun e => if g.isTick e then some (e.src, e.dst) else none)

/-! ### find_access_group_ordering -/

def groupKey : Option Nat → Nat
  | none => 0
  | some n => n + 1

def refTargets (g : Flat) : List Nat := sortDedup (g.refs.filterMap (·.target))

/-- the access groups of handoff `t` in ascending group order, each the referencing nodes in order -/
def accessGroups (g : Flat) (t : Nat) : List (List Nat) :=
  let rs := g.refs.filter (fun r => r.target == some t)
  let keys := sortDedup (rs.map (fun r => groupKey r.group))
  keys.map (fun k => (rs.filter (fun r => groupKey r.group == k)).map (·.node))

def windows {α} : List α → List (α × α)
  | a :: b :: t => (a, b) :: windows (b :: t)
  | _ => []

/-- `access_group_pairs` (earlier group member, later group member) -/
def accessPairs (g : Flat) : List (Nat × Nat) :=
  (g.refTargets).flatMap fun t =>
    (windows (g.accessGroups t)).flatMap fun gab =>
      gab.1.flatMap fun a => gab.2.map fun b => (a, b)

/-- the `assert_ne!` in `find_access_group_ordering` fires -/
def refsConflict (g : Flat) : Bool := (g.accessPairs).any (fun p => p.1 == p.2)

/-! ### the dependency graph (`all_preds`), as `(dst, src)` pairs in push order -/

def pipePairs (g : Flat) : List (Nat × Nat) :=
  g.edges.filterMap (fun e => if g.isTick e then none else some (e.dst, e.src))

def refPairs (g : Flat) : List (Nat × Nat) :=
  g.refs.flatMap fun r =>
    match r.target with
    | none => []
    | some s => (r.node, s) :: (if g.isHoff s then (g.consumers s).map (fun c => (c, r.node)) else [])

def accessDepPairs (g : Flat) : List (Nat × Nat) := (g.accessPairs).map (fun p => (p.2, p.1))

/-- the dependencies collected before the loop-ingress pass: pipes, references (+ borrower before
    consumer), access order -/
def baseDepPairs (g : Flat) : List (Nat × Nat) :=
  g.pipePairs ++ g.refPairs ++ g.accessDepPairs

/-- the `loop_contains` closure: walking up from loop `cur`, do we meet `l`? -/
def loopContainsAux (g : Flat) (l : Nat) : Nat → Option Nat → Bool
  | 0, _ => false
  | _, none => false
  | fuel + 1, some a => if a == l then true else loopContainsAux g l fuel (g.loopParent a)

/-- is node `n` inside loop `l` (directly or nested)? -/
def loopContains (g : Flat) (l n : Nat) : Bool :=
  loopContainsAux g l (g.loops.length + 1) (g.nodeLoop n)

/-- the `while let Some(loop_id) = current` walk: the outermost loop met before one that contains `src` -/
def ingressLoopAux (g : Flat) (src : Nat) : Nat → Option Nat → Option Nat → Option Nat
  | 0, _, acc => acc
  | _, none, acc => acc
  | fuel + 1, some l, acc =>
    if g.loopContains l src then acc else ingressLoopAux g src fuel (g.loopParent l) (some l)

/-- the outermost loop which contains `dst` but not `src`, if any -/
def ingressLoop (g : Flat) (src dst : Nat) : Option Nat :=
  ingressLoopAux g src (g.loops.length + 1) (g.nodeLoop dst) none

/-- loop-ingress ordering: for every dependency `src → dst` collected so far whose `dst` lies in a loop
    not containing `src`, `src` precedes every node directly inside the outermost such loop -/
def ingressPairs (g : Flat) : List (Nat × Nat) :=
  g.baseDepPairs.flatMap fun p =>
    match g.ingressLoop p.2 p.1 with
    | some l => (g.loopNodes l).map (fun i => (i, p.2))
    | none => []

/-- all `(dst, src)` dependency pairs: `src` must run before `dst` -/
def depPairs (g : Flat) : List (Nat × Nat) :=
  g.pipePairs ++ g.refPairs ++ g.accessDepPairs ++ g.ingressPairs

def predsOf (pairs : List (Nat × Nat)) (n : Nat) : List Nat :=
  (pairs.filter (fun p => p.1 == n)).map (·.2)

/-- `(borrower, consumer)`: a borrower of a handoff and every pipe consumer of that handoff (the consumer's
    subgraph drains the handoff before any of its operators runs, so the two must not share a subgraph) -/
def borrowerConsumerPairs (g : Flat) : List (Nat × Nat) :=
  g.refs.flatMap fun r =>
    match r.target with
    | none => []
    | some s => if g.isHoff s then (g.consumers s).map (fun c => (r.node, c)) else []

/-- enemy pairs handed to `SubgraphMerge::new` (self-pairs — a delayed self-edge — are skipped) -/
def enemyPairs (g : Flat) : List (Nat × Nat) :=
  (g.barrierPairs ++ g.accessPairs ++ g.refs.filterMap (fun r => r.target.map (fun s => (s, r.node)))
    ++ g.borrowerConsumerPairs).filter (fun p => p.1 != p.2)

end Flat

/-! ### can_connect_colorize -/

def canConnectColorize (colors : List (Nat × Color)) (src dst : Nat) : List (Nat × Color) × Bool :=
  let r := Gen.canConnectTbl (aget colors src) (aget colors dst)
  let c1 := match r.2.1 with | some c => aset colors src c | none => colors
  let c2 := match r.2.2 with | some c => aset c1 dst c | none => c1
  (c2, r.1)

/-! ### find_subgraph_unionfind: the merge fixpoint -/

structure MergeSt where
  sm : SM
  colors : List (Nat × Color)
  hoffEdges : List Nat          -- `handoff_edges` (ascending edge ids)
  progress : Bool
  bad : Option String           -- an `assert!`/`expect` of the Rust code fired

def mergeEdge (g : Flat) (st : MergeSt) (e : FEdge) : MergeSt :=
  if st.bad.isSome then st else
  if g.isHoff e.src || g.isHoff e.dst then { st with hoffEdges := st.hoffEdges.filter (· != e.id) }
  else if st.sm.find e.src == st.sm.find e.dst then st
  else if g.nodeLoop e.src != g.nodeLoop e.dst then st
  else
    let (colors, can) := canConnectColorize st.colors e.src e.dst
    let st := { st with colors := colors }
    if can then
      match st.sm.tryMerge e.src e.dst with
      | .panic msg => { st with bad := some msg }
      | .done sm ok =>
        if ok then
          if st.hoffEdges.contains e.id then
            { st with sm := sm, hoffEdges := st.hoffEdges.filter (· != e.id), progress := true }
          else { st with sm := sm, bad := some "assert-handoff-edges-remove" }
        else { st with sm := sm }
    else st

def mergePass (g : Flat) (st : MergeSt) : MergeSt :=
  g.edges.foldl (mergeEdge g) { st with progress := false }

/-- `while progress { … }`; every productive pass merges two groups, so `|nodes|+1` passes suffice -/
def mergeLoop (g : Flat) : Nat → MergeSt → MergeSt
  | 0, st => st
  | fuel + 1, st =>
    let st' := mergePass g st
    if st'.progress && st'.bad.isNone then mergeLoop g fuel st' else st'

/-! ### make_loops_contiguous -/

/-- loop chain of a subgraph: its loop, that loop's parent, … (innermost first) -/
def loopChain (g : Flat) : Nat → Option Nat → List Nat
  | 0, _ => []
  | _, none => []
  | fuel + 1, some l => l :: loopChain g fuel (g.loopParent l)

/-- `loop_descendants`: for each loop all descendant subgraphs (as indices into the flat order) in order -/
def loopDescendants (g : Flat) (sgLoop : List (Nat × Option Nat)) : List (Nat × List Nat) :=
  sgLoop.foldl (fun acc (p : Nat × Option Nat) =>
    (loopChain g (g.loops.length + 1) p.2).foldl (fun acc l =>
      aset acc l ((aget acc l).getD [] ++ [p.1])) acc) []

/-- the recursive `helper`; `desc` is the mutable `loop_descendants` map, threaded through -/
def contigHelper (g : Flat) (sgLoopOf : Nat → Option Nat) :
    Nat → List Nat → Option Nat → List (Nat × List Nat) → List Nat → Option (List (Nat × List Nat) × List Nat)
  | 0, _, _, _, _ => none
  | fuel + 1, order, cur, desc, out =>
    order.foldl (fun acc sg =>
      match acc with
      | none => none
      | some (desc, out) =>
        let sl := sgLoopOf sg
        if cur == sl then some (desc, out ++ [sg])
        else match sl with
          | none => none  -- `expect("root-level subgraph cannot be within a loop")`
          | some l =>
            if cur == g.loopParent l then
              match aget desc l with
              | some inner => contigHelper g sgLoopOf fuel inner (some l) (aerase desc l) out
              | none => some (desc, out)
            else some (desc, out)) (some (desc, out))

/-- `make_loops_contiguous` on subgraph indices `0..n` whose loops are given by `sgLoop` -/
def makeLoopsContiguous (g : Flat) (sgLoop : List (Nat × Option Nat)) : Option (List Nat) :=
  let loopOf := fun sg => (aget sgLoop sg).getD none
  match contigHelper g loopOf (g.loops.length + 2) (sgLoop.map (·.1)) none (loopDescendants g sgLoop) [] with
  | some (_, out) => some out
  | none => none

/-! ### the whole pipeline -/

structure PResult where
  /-- subgraphs in final `subgraph_toposort` order, each with its nodes in order -/
  subgraphs : List (List Nat)
  /-- flat edges that received a handoff (ascending edge id) -/
  hoffEdges : List Nat
  /-- delay marks: `(true, e)` handoff inserted on flat edge `e`; `(false, n)` pre-existing handoff node `n` -/
  delays : List (Bool × Nat × Delay)
  /-- final colour map of `find_subgraph_unionfind` (not observable on the Rust side; used by theorems) -/
  colors : List (Nat × Color)
  /-- final union-find of `SubgraphMerge` (list of unions, see `SM.findIn`; used by theorems) -/
  rep : List (Nat × Nat)
  deriving Repr, DecidableEq

inductive Outcome
  | ok (r : PResult)
  | err (cycle : List Nat)
  | panic (what : String)
  deriving Repr, DecidableEq

/-- effective delay type of a handoff whose successor edge is the (tick) flat edge `e` -/
def effectiveDelay (g : Flat) (consumer : Nat) (d : Delay) : Delay :=
  match g.nodeLoop consumer with
  | some l => if (g.loopParent l).isSome then Gen.delayRemapNested d else d
  | none => d

/-- the predecessor `validate_topo_sort` looks at for edge `e`: its source, or — jumping over a pre-existing
    handoff node — that handoff's first producer -/
def orderPred (g : Flat) (e : FEdge) : Option Nat :=
  if g.isHoff e.src then (match g.producers e.src with | p :: _ => some p | [] => none) else some e.src

/-- `validate_topo_sort` as called at the end of `make_subgraphs` -/
def validateOrder (g : Flat) (order : List Nat) : Bool :=
  order.all fun succ =>
    (g.edges.filter (fun e => e.dst == succ && !g.isTick e)).all fun e =>
      match orderPred g e with
      | none => false
      | some p =>
        match order.idxOf? p, order.idxOf? succ with
        | some pi, some si => pi < si
        | _, _ => false

/-- neither end of the edge is a (pre-existing) handoff node -/
def Flat.hoffAdj (g : Flat) (e : FEdge) : Bool := g.isHoff e.src || g.isHoff e.dst

/-- `handoff_edges` after the `continue` for edges that already touch a handoff -/
def finalHoffEdges (g : Flat) (hoffEdges : List Nat) : List Nat :=
  hoffEdges.filter fun eid =>
    match g.edges.find? (fun e => e.id == eid) with
    | some e => !(g.hoffAdj e)
    | none => false

/-- delay marks of the handoffs inserted on the flat edges `hoffEdges` -/
def insertedDelays (g : Flat) (hoffEdges : List Nat) : List (Bool × Nat × Delay) :=
  hoffEdges.filterMap fun eid =>
    match g.edges.find? (fun e => e.id == eid) with
    | some e => (g.edgeDelay e).map (fun d => (true, eid, effectiveDelay g e.dst d))
    | none => none

/-- delay marks of pre-existing handoff nodes (`handoff() -> defer_tick()`) -/
def existingDelays (g : Flat) : List (Bool × Nat × Delay) :=
  g.nodes.filterMap fun n =>
    if n.isHoff then
      match g.edges.find? (fun e => e.src == n.id) with
      | some e => (g.edgeDelay e).map (fun d => (false, n.id, effectiveDelay g e.dst d))
      | none => none
    else none

/-- `make_subgraphs` after the merge fixpoint + `mark_tick_boundary_handoffs` -/
def finishPartition (g : Flat) (st : MergeSt) : Outcome :=
  match st.bad with
  | some msg => .panic msg
  | none =>
    let hoffEdges := finalHoffEdges g st.hoffEdges
    let sgs := (st.sm.subgraphs).filter (fun ns => !ns.isEmpty && !(ns.any g.isHoff))
    let idxd := sgs.zipIdx.map (fun p => (p.2, p.1))
    let sgLoop := idxd.map (fun p => (p.1, match p.2 with | n :: _ => g.nodeLoop n | [] => none))
    match makeLoopsContiguous g sgLoop with
    | none => .panic "make-loops-contiguous-expect"
    | some order =>
      let finalSgs := order.filterMap (fun i => aget idxd i)
      if !validateOrder g finalSgs.flatten then .panic "toposort-invalid-after-make-loops-contiguous" else
      .ok { subgraphs := finalSgs, hoffEdges := hoffEdges,
            delays := insertedDelays g hoffEdges ++ existingDelays g, colors := st.colors, rep := st.sm.rep }

/-- initial state of the merge fixpoint -/
def mergeInit (g : Flat) (sm : SM) : MergeSt :=
  { sm := sm, colors := g.nodeIds.filterMap (fun n => (g.nodeColor n).map (fun c => (n, c))),
    hoffEdges := sortDedup (g.edges.map (·.id)), progress := true, bad := none }

/-- `partition_graph`, parametrised by the topological sort used in `SubgraphMerge::new` -/
def partitionWith (ts : TopoSortFn) (g : Flat) : Outcome :=
  if g.refsConflict then .panic "conflicted-refs" else
  match SM.new ts g.nodeIds (Flat.predsOf g.depPairs) g.enemyPairs with
  | .cycle c => .err c
  | .panic msg => .panic msg
  | .ok sm => finishPartition g (mergeLoop g (g.nodes.length + 2) (mergeInit g sm))

/-- executable form of the well-formedness hypotheses of the theorems (`Flat.WF`, `Flat.UniqueEdgeIds`; see
    `wfB_sound`): edge heads and referencing nodes are nodes of the graph, edge ids are unique.  The driver
    evaluates it on every dumped graph (`wf`), the harness expects `true`. -/
def Flat.wfB (g : Flat) : Bool :=
  g.edges.all (fun e => g.nodeIds.contains e.dst) && g.refs.all (fun r => g.nodeIds.contains r.node) &&
  g.edges.all (fun e => g.edges.all (fun e' => e.id != e'.id || decide (e = e')))

/-- the partitioner as the driver runs it: `SubgraphMerge::new` sorts with the C17 transcription of
    `topo_sort` (`tsC17`, which meets `TopoSpec` — `Props/C19.lean`); the window re-sort inside `try_merge`
    uses this project's own transcription `topoSort` -/
def partition (g : Flat) : Outcome := partitionWith tsC17 g

end HvPart
