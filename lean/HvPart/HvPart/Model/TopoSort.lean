/-
Re-transcription of `dfir_lang::graph::graph_algorithms::topo_sort` (DFS over predecessors with
temporary/permanent marks and the cycle reconstruction), used by the driver.
It is only executed (window re-sort inside `try_merge`, driver op `depcycle`); `SubgraphMerge::new` sorts with
C17's transcription (`TopoC17.lean`), for which the specification is proved (`Props/C19.lean`).
-/
import HvPart.Model.Basic

namespace HvPart

/-- the shape of `topo_sort`: node list, predecessor function ↦ `ok order` / `error cycle` -/
abbrev TopoSortFn := List Nat → (Nat → List Nat) → Except (List Nat) (List Nat)

structure DfsSt where
  marked : List (Nat × Bool) := []   -- false = temporary, true = permanent
  order : List Nat := []

/-- the `for next_pred in preds_fn(node_id)` loop with `?` -/
def dfsPreds (rec : Nat → DfsSt → Bool × DfsSt) : List Nat → DfsSt → Bool × DfsSt
  | [], st => (true, st)
  | p :: ps, st =>
    match rec p st with
    | (false, st') => (false, st')
    | (true, st') => dfsPreds rec ps st'

/-- `pred_dfs_postorder`; `false` = `Err(())`. Fuel bounds the recursion depth. -/
def dfsNode (preds : Nat → List Nat) : Nat → Nat → DfsSt → Bool × DfsSt
  | 0, _, st => (false, st)
  | fuel + 1, n, st =>
    match aget st.marked n with
    | some true => (true, st)
    | some false => (false, { st with order := [n] })
    | none =>
      let st1 := { st with marked := aset st.marked n false }
      match dfsPreds (dfsNode preds fuel) (preds n) st1 with
      | (false, st2) =>
        let push := st2.order.length == 1 || st2.order.head? != st2.order.getLast?
        (false, if push then { st2 with order := st2.order ++ [n] } else st2)
      | (true, st2) =>
        (true, { marked := aset st2.marked n true, order := st2.order ++ [n] })

def dropThroughFirst (x : Nat) : List Nat → List Nat
  | [] => []
  | y :: t => if y == x then t else dropThroughFirst x t

def topoLoop (preds : Nat → List Nat) (fuel : Nat) : List Nat → DfsSt → Except (List Nat) (List Nat)
  | [], st => .ok st.order
  | n :: ns, st =>
    match dfsNode preds fuel n st with
    | (true, st') => topoLoop preds fuel ns st'
    | (false, st') =>
      match st'.order.getLast? with
      | some e => .error (dropThroughFirst e st'.order)
      | none => .error []

/-- `topo_sort(node_ids, preds_fn)` -/
def topoSort : TopoSortFn := fun nodes preds =>
  topoLoop preds (nodes.length + 2) nodes {}

end HvPart
