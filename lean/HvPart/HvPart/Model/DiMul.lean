/-
Executable model of `dfir_lang::graph::di_mul_graph::DiMulGraph` and of the flat-graph rewrites built on it
(`DfirGraph::remove_intermediate_node`, `insert_intermediate_node`, `eliminate_extra_unions_tees`,
`merge_modules`).  Import-free.

Edge keys are the `as_ffi()` numbers of the slot-map keys (`version << 32 | idx`).  The graph operations take
the keys of newly inserted edges as arguments (`k`, `k0`, `k1`): the theorems only assume they are fresh, the
driver computes them with a model of slotmap's LIFO free list (`SlotAlloc`) so that the whole `DiMulGraph`
state (edge ids, iteration order, adjacency-list order) can be compared with the real one.
-/
import HvPart.Model.Basic

namespace HvPart

/-- `(key, src, dst)` -/
abbrev DEdge := Nat × Nat × Nat

structure DMG where
  /-- `edges: SlotMap<E, (V, V)>` in iteration order (ascending slot index) -/
  edges : List DEdge := []
  /-- `succs: SecondaryMap<V, Vec<E>>` -/
  succs : List (Nat × List Nat) := []
  /-- `preds: SecondaryMap<V, Vec<E>>` -/
  preds : List (Nat × List Nat) := []
  deriving Repr, Inhabited, DecidableEq

def slotIdx (k : Nat) : Nat := k % 4294967296

namespace DMG

def edge? (g : DMG) (k : Nat) : Option (Nat × Nat) :=
  match g.edges.find? (fun e => e.1 == k) with
  | some e => some e.2
  | none => none

/-- keep `edges` sorted by slot index (the iteration order of a `SlotMap`) -/
def insertSortedEdge (e : DEdge) : List DEdge → List DEdge
  | [] => [e]
  | x :: t => if slotIdx e.1 < slotIdx x.1 then e :: x :: t else x :: insertSortedEdge e t

def eraseEdge (es : List DEdge) (k : Nat) : List DEdge := es.filter (fun e => e.1 != k)

def adj (m : List (Nat × List Nat)) (v : Nat) : List Nat := (aget m v).getD []

/-- `insert_edge(src, dst)` where the slot map hands out key `k` -/
def insertEdge (g : DMG) (k src dst : Nat) : DMG :=
  { edges := insertSortedEdge (k, src, dst) g.edges,
    succs := aset g.succs src (adj g.succs src ++ [k]),
    preds := aset g.preds dst (adj g.preds dst ++ [k]) }

/-- `remove_intermediate_vertex(v)`: `(new graph, (pred_edge, succ_edge))`, `none` where the Rust code
    returns `None` or panics on an `unwrap` -/
def removeIntermediateVertex (g : DMG) (k v : Nat) : Option (DMG × Nat × Nat) :=
  match aget g.preds v, aget g.succs v with
  | some [pe], some [se] =>
    match g.edge? pe, g.edge? se with
    | some (src, _), some (_, dst) =>
      if pe == se then none else   -- second `edges.remove(..).unwrap()` would panic (self-loop)
      let g1 : DMG :=
        { edges := eraseEdge (eraseEdge g.edges pe) se,
          succs := aerase g.succs v, preds := aerase g.preds v }
      let g2 : DMG :=
        { g1 with succs := aset g1.succs src ((adj g1.succs src).filter (· != pe)),
                  preds := aset g1.preds dst ((adj g1.preds dst).filter (· != se)) }
      some (g2.insertEdge k src dst, pe, se)
    | _, _ => none
  | _, _ => none

def replaceFirst (l : List Nat) (old new : Nat) : List Nat :=
  match l with
  | [] => []
  | x :: t => if x == old then new :: t else x :: replaceFirst t old new

/-- `insert_intermediate_vertex(new_vertex, edge)` with the two new keys `k0` (into the vertex), `k1` (out of it) -/
def insertIntermediateVertex (g : DMG) (k0 k1 v e : Nat) : Option DMG :=
  match g.edge? e with
  | none => none
  | some (src, dst) =>
    if (aget g.preds v).isSome || (aget g.succs v).isSome then none else
    some { edges := insertSortedEdge (k1, v, dst) (insertSortedEdge (k0, src, v) (eraseEdge g.edges e)),
           succs := aset (aset g.succs src (replaceFirst (adj g.succs src) e k0)) v [k1],
           preds := aset (aset g.preds dst (replaceFirst (adj g.preds dst) e k1)) v [k0] }

/-- `remove_edge(e)` -/
def removeEdge (g : DMG) (e : Nat) : Option DMG :=
  match g.edge? e with
  | none => none
  | some (src, dst) =>
    some { edges := eraseEdge g.edges e,
           succs := aset g.succs src ((adj g.succs src).filter (· != e)),
           preds := aset g.preds dst ((adj g.preds dst).filter (· != e)) }

def degIn (g : DMG) (v : Nat) : Nat := (adj g.preds v).length
def degOut (g : DMG) (v : Nat) : Nat := (adj g.succs v).length

end DMG

/-! ### slotmap key allocation (driver only) -/

structure SlotAlloc where
  /-- version of every slot (index 0 is the sentinel) -/
  versions : List Nat := [0]
  /-- free list, head first (LIFO) -/
  free : List Nat := []
  deriving Repr, Inhabited

namespace SlotAlloc

def keyOf (idx ver : Nat) : Nat := ver * 4294967296 + idx

/-- `SlotMap::insert`: reuse the head of the free list (version becomes odd again) or push a new slot -/
def alloc (a : SlotAlloc) : Nat × SlotAlloc :=
  match a.free with
  | i :: rest =>
    let v := (a.versions.getD i 0) + 1
    (keyOf i v, { versions := a.versions.set i v, free := rest })
  | [] =>
    let i := a.versions.length
    (keyOf i 1, { versions := a.versions ++ [1], free := [] })

/-- `SlotMap::remove(key)` -/
def release (a : SlotAlloc) (k : Nat) : SlotAlloc :=
  let i := slotIdx k
  { versions := a.versions.set i ((a.versions.getD i 0) + 1), free := i :: a.free }

/-- allocator state of a slot map whose live keys are `keys` and that never removed anything -/
def ofFresh (n : Nat) : SlotAlloc := { versions := 0 :: List.replicate n 1, free := [] }

end SlotAlloc

/-! ### the flat graph as the rewrites see it -/

structure RNode where
  id : Nat
  kind : String      -- `op`, `hoff`, `mod`
  name : String
  deriving Repr, Inhabited, DecidableEq

/-- the flat graph without the slot allocators -/
structure Core where
  nodes : List RNode := []
  g : DMG := {}
  /-- `ports: SecondaryMap<GraphEdgeId, (PortIndexValue, PortIndexValue)>` -/
  ports : List (Nat × String × String) := []
  deriving Repr, Inhabited

/-- the observation of C20: `(src, src port, dst, dst port)` of every edge -/
abbrev Wire := Nat × String × Nat × String

namespace Core

def portsOf (c : Core) (k : Nat) : String × String := (aget c.ports k).getD ("_", "_")

def wireOf (ports : List (Nat × String × String)) (e : DEdge) : Wire :=
  (e.2.1, ((aget ports e.1).getD ("_", "_")).1, e.2.2, ((aget ports e.1).getD ("_", "_")).2)

def wires (c : Core) : List Wire := c.g.edges.map (wireOf c.ports)

/-- `DfirGraph::remove_intermediate_node(n)` where the slot map hands out `k` for the new edge;
    `none` = an assert/unwrap fires -/
def removeNode (c : Core) (k n : Nat) : Option Core :=
  if c.g.degIn n != 1 || c.g.degOut n != 1 then none else
  match c.g.removeIntermediateVertex k n with
  | none => none
  | some (g', pe, se) =>
    some { nodes := c.nodes.filter (fun x => x.id != n), g := g',
           ports := aset (aerase (aerase c.ports pe) se) k ((c.portsOf pe).1, (c.portsOf se).2) }

/-- `DfirGraph::insert_intermediate_node(e, Handoff)` with new node id `v` and new edge keys `k0`, `k1` -/
def insertNode (c : Core) (k0 k1 v e : Nat) : Option Core :=
  match c.g.insertIntermediateVertex k0 k1 v e with
  | none => none
  | some g' =>
    some { nodes := c.nodes ++ [⟨v, "hoff", "handoff"⟩], g := g',
           ports := aset (aset (aerase c.ports e) k0 ((c.portsOf e).1, "_")) k1 ("_", (c.portsOf e).2) }

end Core

structure RG where
  core : Core := {}
  alloc : SlotAlloc := {}
  deriving Repr, Inhabited

namespace RG

def nodes (r : RG) : List RNode := r.core.nodes
def g (r : RG) : DMG := r.core.g
def ports (r : RG) : List (Nat × String × String) := r.core.ports
def portsOf (r : RG) (k : Nat) : String × String := r.core.portsOf k
def wires (r : RG) : List Wire := r.core.wires

/-- `remove_intermediate_node` with slot-map bookkeeping: both old edges are released (pred first), the new
    edge reuses the slot freed last -/
def removeIntermediateNode (r : RG) (n : Nat) : Option RG :=
  match aget r.g.preds n, aget r.g.succs n with
  | some [pe], some [se] =>
    let a := (r.alloc.release pe).release se
    let (k, a) := a.alloc
    (r.core.removeNode k n).map fun c => { core := c, alloc := a }
  | _, _ => none

/-- `find_unary_ops(graph, name)` -/
def findUnaryOps (r : RG) (name : String) : List Nat :=
  (r.nodes.filter fun x => x.kind == "op" && x.name == name && r.g.degIn x.id == 1 && r.g.degOut x.id == 1).map (·.id)

/-- remove the given nodes one after the other -/
def removeAll (r : RG) : List Nat → Option RG
  | [] => some r
  | n :: t =>
    match r.removeIntermediateNode n with
    | some r1 => removeAll r1 t
    | none => none

/-- `eliminate_extra_unions_tees`: the list of unary unions then tees is computed first, then each is removed -/
def eliminateExtraUnionsTees (r : RG) : Option RG :=
  r.removeAll (r.findUnaryOps "union" ++ r.findUnaryOps "tee")

/-! `PortIndexValue` ordering: Int < Path < Elided; ints by value, paths by token text -/

inductive PortKey
  | int (n : Nat)
  | path (s : String)
  | elided
  deriving DecidableEq, Repr

def portKey (s : String) : PortKey :=
  if s == "_" then .elided else match s.toNat? with | some n => .int n | none => .path s

def portLt : PortKey → PortKey → Bool
  | .int a, .int b => a < b
  | .path a, .path b => a < b
  | .int _, .path _ => true
  | .int _, .elided => true
  | .path _, .elided => true
  | _, _ => false

def insertPort (x : String × Nat × String) : List (String × Nat × String) → List (String × Nat × String)
  | [] => [x]
  | y :: t =>
    if portKey x.1 == portKey y.1 then x :: t            -- BTreeMap::insert overwrites
    else if portLt (portKey x.1) (portKey y.1) then x :: y :: t
    else y :: insertPort x t

/-- `remove_module_boundary(m)`: `.ok r'`, `.error ()` for the port-mismatch diagnostic, `none` for a panic -/
def removeModuleBoundary (r : RG) (m : Nat) : Option (Except Unit RG) :=
  let predPorts := (DMG.adj r.g.preds m).foldl (fun acc e => insertPort ((r.portsOf e).2, e, (r.portsOf e).1) acc) []
  let succPorts := (DMG.adj r.g.succs m).foldl (fun acc e => insertPort ((r.portsOf e).1, e, (r.portsOf e).2) acc) []
  if predPorts.map (fun p => portKey p.1) != succPorts.map (fun p => portKey p.1) then some (.error ()) else
  let step := fun (acc : Option RG) (pp : String × Nat × String) =>
    match acc with
    | none => none
    | some r =>
      match succPorts.find? (fun sp => portKey sp.1 == portKey pp.1) with
      | none => none
      | some sp =>
        let pe := pp.2.1
        let se := sp.2.1
        match r.g.edge? pe, r.g.edge? se with
        | some (src, _), some (_, dst) =>
          match r.g.removeEdge pe with
          | none => none
          | some g1 =>
            match g1.removeEdge se with
            | none => none
            | some g2 =>
              let a := (r.alloc.release pe).release se
              let (k, a) := a.alloc
              some { core := { r.core with g := g2.insertEdge k src dst,
                                           ports := aset (aerase (aerase r.ports pe) se) k (pp.2.2, sp.2.2) }, alloc := a }
        | _, _ => none
  match predPorts.foldl step (some r) with
  | none => none
  | some r' =>
    if r'.g.degIn m != 0 || r'.g.degOut m != 0 then none else
    let c' := r'.core
    let g' := c'.g
    some (.ok { core := { nodes := c'.nodes.filter (fun x => x.id != m),
                          g := { edges := g'.edges, succs := aerase g'.succs m, preds := aerase g'.preds m },
                          ports := c'.ports },
                alloc := r'.alloc })

/-- `merge_modules` -/
def mergeModules (r : RG) : Option (Except Unit RG) :=
  ((r.nodes.filter (fun x => x.kind == "mod")).map (·.id)).foldl
    (fun acc m => match acc with
      | some (.ok r) => r.removeModuleBoundary m
      | other => other) (some (.ok r))

end RG
end HvPart
