/-
Basic types shared by the partitioner model (C18/C19/C42) and the rewrite model (C20).
Import-free (links into `hvdrv_part`).
-/
namespace HvPart

/-- `dfir_lang::graph::ops::DelayType` -/
inductive Delay
  | tick | tickLazy | loop | loopLazy
  deriving DecidableEq, Repr, Inhabited

/-- `dfir_lang::graph::Color` -/
inductive Color
  | pull | push | comp | hoff
  deriving DecidableEq, Repr, Inhabited

/-- `dfir_lang::graph::ops::FloType` -/
inductive Flo
  | source | windowing | windowingLazy | unwindowing
  deriving DecidableEq, Repr, Inhabited

/-- one row of the operator catalogue (the fields the partitioner / flat-graph checks read) -/
structure OpInfo where
  name : String
  innLo : Nat
  innHi : Option Nat
  outLo : Nat
  outHi : Option Nat
  delay : Option Delay
  flo : Option Flo
  ext : Bool
  deriving Repr

/-! association lists standing in for `SecondaryMap`/`SparseSecondaryMap`/`BTreeMap` keyed by ids -/

def aget {α} (m : List (Nat × α)) (k : Nat) : Option α :=
  match m with
  | [] => none
  | (k', v) :: t => if k' = k then some v else aget t k

def aerase {α} (m : List (Nat × α)) (k : Nat) : List (Nat × α) :=
  m.filter (fun p => p.1 != k)

/-- insert or overwrite, keeping the position of an existing key (iteration order is never observed
    for the maps modelled with this, except where stated) -/
def aset {α} (m : List (Nat × α)) (k : Nat) (v : α) : List (Nat × α) :=
  match m with
  | [] => [(k, v)]
  | (k', v') :: t => if k' = k then (k, v) :: t else (k', v') :: aset t k v

def ahas {α} (m : List (Nat × α)) (k : Nat) : Bool := (aget m k).isSome

/-- sorted insertion into a strictly ascending list (BTreeSet / sort+dedup) -/
def insertSorted (x : Nat) : List Nat → List Nat
  | [] => [x]
  | y :: t => if x < y then x :: y :: t else if x = y then y :: t else y :: insertSorted x t

def sortDedup (l : List Nat) : List Nat := l.foldl (fun acc x => insertSorted x acc) []

def showDelay : Delay → String
  | .tick => "T" | .tickLazy => "TL" | .loop => "L" | .loopLazy => "LL"

def parseDelay : String → Option Delay
  | "T" => some .tick | "TL" => some .tickLazy | "L" => some .loop | "LL" => some .loopLazy | _ => none

end HvPart
