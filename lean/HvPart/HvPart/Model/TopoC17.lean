/-
`topo_sort` as transcribed — and proved correct — under C17 (project HvGraphAlg), adapted to the
`TopoSortFn` shape of this project.  `HvPart/C17/Topo.lean` is a verbatim copy of
`lean/HvGraphAlg/HvGraphAlg/Model/Topo.lean`, refreshed by `tools/translate.py` on every run; it is
import-free, so it links into `hvdrv_part`.

This is the sort the driver runs for `SubgraphMerge::new` (`partition`), so `TopoSpec tsC17`
(`Props/C19.lean`) is a statement about the executed model.  The C17 model takes a bound `n` on the node ids
(fuel `n + 1`) and a total predecessor function; `tsBound` / `tsPreds` supply them: predecessor lists are
only consulted for the listed nodes (`SubgraphMerge::new` passes `all_preds.get(k)`, empty for any other key).
-/
import HvPart.Model.TopoSort
import HvPart.C17.Topo

namespace HvPart

/-- one more than every listed node id and every predecessor of a listed node -/
def tsBound (nodes : List Nat) (preds : Nat → List Nat) : Nat :=
  (nodes ++ nodes.flatMap preds).foldl max 0 + 1

/-- predecessors of the listed nodes only -/
def tsPreds (nodes : List Nat) (preds : Nat → List Nat) (k : Nat) : List Nat :=
  if nodes.contains k then preds k else []

/-- `topo_sort(node_ids, preds_fn)` through the C17 transcription -/
def tsC17 : TopoSortFn := fun nodes preds =>
  match HvGraphAlg.topoSort (tsBound nodes preds) nodes (tsPreds nodes preds) with
  | .ok o => .ok o
  | .cyc c => .error c
  | .fuel => .error []   -- unreachable (`tsC17_never_out_of_fuel`, Props/C19.lean)

end HvPart
