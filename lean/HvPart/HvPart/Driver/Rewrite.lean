/-
C20 / C42 sub-driver.

  rnode <id> <op|hoff|mod> <name>          a node of the pre-rewrite flat graph (slot order)            -> ok
  redge <key> <src> <dst> <sport> <dport>  an edge (ffi key), in `edges()` order = insertion order      -> ok
  merge                                    `merge_modules`                -> ok | err | panic
  eliminate                                `eliminate_extra_unions_tees`  -> ok | panic
  hinsert <edge key> <new node id>         `insert_intermediate_node(edge, Handoff)` -> `<k0> <k1>` | panic
  rnodes                                   live node ids                  -> `1,2,5`
  redges                                   edge list in iteration order   -> `key:src>dst key:src>dst …`
  radj                                     adjacency lists per live node  -> `n:s=k,k;p=k n:…`
  rwires                                   sorted wiring                  -> `src:sp>dst:dp …`
  rvalid                                   `assert_valid` holds           -> true|false
  enemyperm <u> <v> <w,w,..> | <w,w,..>    C42: remap the enemy set of `v` into `u` in two iteration orders;
                                           answers whether the resulting enemy maps are equal as maps of sets -> true|false
-/
import HvPart.Model.DiMul
import HvPart.Model.Merge
namespace HvPart

structure RwSt where
  r : RG := {}
  bad : Bool := false

def rwNats (s : String) : Option (List Nat) :=
  if s == "-" then some [] else (s.splitOn ",").mapM (·.toNat?)

def rwDash (s : String) : String := if s.isEmpty then "-" else s

def showNatsC (l : List Nat) : String := ",".intercalate (l.map toString)

def wireLe (a b : Wire) : Bool :=
  if a.1 != b.1 then a.1 < b.1
  else if a.2.1 != b.2.1 then a.2.1 < b.2.1
  else if a.2.2.1 != b.2.2.1 then a.2.2.1 < b.2.2.1
  else a.2.2.2 ≤ b.2.2.2

/-- `DiMulGraph::assert_valid` (as written, including that it checks `succs` twice) -/
def dmgValid (g : DMG) : Bool :=
  g.edges.all (fun e => (DMG.adj g.succs e.2.1).contains e.1 && (DMG.adj g.preds e.2.2).contains e.1)
  && g.succs.all (fun p => (sortDedup p.2).length == p.2.length)
  && g.edges.length == (g.succs.map (fun p => p.2.length)).sum
  && g.edges.length == (g.preds.map (fun p => p.2.length)).sum

/-- two enemy maps denote the same map of sets -/
def enemiesEquiv (a b : List (Nat × List Nat)) : Bool :=
  let keys := sortDedup (a.map (·.1) ++ b.map (·.1))
  keys.all fun k => sortDedup ((aget a k).getD []) == sortDedup ((aget b k).getD [])

/-- `nodes` is a slot map: iteration is by slot index, a new node may reuse a freed slot -/
def insertNodeSorted (n : RNode) : List RNode → List RNode
  | [] => [n]
  | x :: t => if n.id < x.id then n :: x :: t else x :: insertNodeSorted n t

def rwStep (st : RwSt) (ws : List String) : Option (RwSt × String) :=
  match ws with
  | ["rnode", id, kind, name] =>
    match id.toNat? with
    | some id => some ({ st with r := { st.r with core := { st.r.core with nodes := st.r.nodes ++ [⟨id, kind, name⟩] } } }, "ok")
    | none => some (st, "bad-op")
  | ["redge", k, s, d, sp, dp] =>
    match k.toNat?, s.toNat?, d.toNat? with
    | some k, some s, some d =>
      let r := st.r
      let n := r.g.edges.length + 1
      some ({ st with r := { core := { r.core with g := r.g.insertEdge k s d, ports := r.ports ++ [(k, sp, dp)] },
                             alloc := SlotAlloc.ofFresh n } }, "ok")
    | _, _, _ => some (st, "bad-op")
  | ["merge"] =>
    match st.r.mergeModules with
    | some (.ok r) => some ({ st with r := r }, "ok")
    | some (.error _) => some (st, "err")
    | none => some ({ st with bad := true }, "panic")
  | ["eliminate"] =>
    match st.r.eliminateExtraUnionsTees with
    | some r => some ({ st with r := r }, "ok")
    | none => some ({ st with bad := true }, "panic")
  | ["hinsert", e, v] =>
    match e.toNat?, v.toNat? with
    | some e, some v =>
      let r := st.r
      let a := r.alloc.release e
      let (k0, a) := a.alloc
      let (k1, a) := a.alloc
      match r.core.insertNode k0 k1 v e with
      | some c =>
        -- `nodes` is a slot map: a new node may reuse a freed slot, iteration is by slot index
        let c := { c with nodes := insertNodeSorted ⟨v, "hoff", "handoff"⟩ r.nodes }
        some ({ st with r := { core := c, alloc := a } }, s!"{k0} {k1}")
      | none => some (st, "panic")
    | _, _ => some (st, "bad-op")
  | ["rnodes"] => some (st, rwDash (showNatsC (st.r.nodes.map (·.id))))
  | ["redges"] =>
    some (st, rwDash (" ".intercalate (st.r.g.edges.map fun e => s!"{e.1}:{e.2.1}>{e.2.2}")))
  | ["radj"] =>
    some (st, rwDash (" ".intercalate (st.r.nodes.map fun n =>
      s!"{n.id}:s={showNatsC (DMG.adj st.r.g.succs n.id)};p={showNatsC (DMG.adj st.r.g.preds n.id)}")))
  | ["rwires"] =>
    some (st, rwDash (" ".intercalate ((st.r.wires.mergeSort wireLe).map fun w => s!"{w.1}:{w.2.1}>{w.2.2.1}:{w.2.2.2}")))
  | ["rvalid"] => some (st, if dmgValid st.r.g then "true" else "false")
  | ["enemyperm", u, v, ws1, "|", ws2] =>
    match u.toNat?, v.toNat?, rwNats ws1, rwNats ws2 with
    | some u, some v, some ws1, some ws2 =>
      -- a symmetric enemy map in which `v` has the enemies `ws1`
      let en := ws1.foldl (fun en w => SM.addEnemy (SM.addEnemy en v w) w v) []
      let a := SM.remapEnemies (aerase en v) u v ws1
      let b := SM.remapEnemies (aerase en v) u v ws2
      some (st, if enemiesEquiv a b then "true" else "false")
    | _, _, _, _ => some (st, "bad-op")
  | _ => none

end HvPart
