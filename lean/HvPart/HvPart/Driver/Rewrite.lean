/-
C20 / C42 sub-driver (filled in by the C20 / C42 work).
-/
import HvPart.Model.Basic
namespace HvPart

structure RwSt where
  dummy : Nat := 0

def rwStep (_st : RwSt) (_ws : List String) : Option (RwSt × String) := none

end HvPart
