/-
`hvdrv_part`: line-protocol driver for the HvPart models.  One output line per input line.

  #case <n> <tags>                       reset; echoes the line
  s <stmt> | lb | le                     program text lines (statement / `loop {` / `};`)       -> ok
  loop <id> <parent|-> <n,n,..|->        declare a loop context with its `loop_nodes`           -> ok
  node <id> <op|hoff> <name> <loop|->    a node, in `node_ids()` order                          -> ok
  edge <id> <src> <dst> <sport> <dport>  an edge, in `edges()` order (ports: `_` = elided)      -> ok
  ref <node> <target|-> <0|1> <group|->  a resolved handoff reference                           -> ok
  partition                              run the partitioner model -> ok | err <cycle> | panic <what>
  wf                                     the well-formedness hypotheses of the theorems hold on the graph -> true | false
  sgs                                    subgraphs in final order:  `1,2|3|4`  (`-` if none / not ok)
  hoffs                                  flat edge ids that received a handoff: `3,7`
  delays                                 delay marks: `e3:T n5:L` (e = inserted on flat edge, n = existing handoff)
  depcycle                               does the dependency graph (non-delay pipes + reference + access-order
                                         + loop-ingress edges) have a cycle?  -> true|false   (decided by the model's topo sort)
  (C20 / C42 commands are documented in `Driver/Rewrite.lean`)
Anything else -> bad-op.
-/
import HvPart.Model.Partition
import HvPart.Driver.Rewrite
open HvPart

structure St where
  g : Flat := {}
  out : Option Outcome := none
  rw : RwSt := {}

def optNat (s : String) : Option (Option Nat) :=
  if s == "-" then some none else (s.toNat?).map some

def natList (s : String) : Option (List Nat) :=
  if s == "-" then some [] else (s.splitOn ",").mapM (·.toNat?)

def showNats (l : List Nat) : String := ",".intercalate (l.map toString)
def dash (s : String) : String := if s.isEmpty then "-" else s

def showOutcome : Outcome → String
  | .ok _ => "ok"
  | .err c => "err " ++ dash (showNats c)
  | .panic w => "panic " ++ w

def step (st : St) (line : String) : St × String :=
  let l := line.trimAscii.toString
  match l.splitOn " " with
  | "#case" :: _ => ({}, l)
  | "s" :: _ => (st, "ok")      -- a statement of the program text (the graph lines below are derived from it)
  | ["lb"] => (st, "ok")        -- `loop {`
  | ["le"] => (st, "ok")        -- `};`
  | ["loop", id, par, ns] =>
    match id.toNat?, optNat par, natList ns with
    | some id, some par, some ns => ({ st with g := { st.g with loops := st.g.loops ++ [⟨id, par, ns⟩] } }, "ok")
    | _, _, _ => (st, "bad-op")
  | ["node", id, kind, name, lp] =>
    match id.toNat?, optNat lp with
    | some id, some lp =>
      if kind == "op" || kind == "hoff" then
        ({ st with g := { st.g with nodes := st.g.nodes ++ [⟨id, kind == "hoff", name, lp⟩] } }, "ok")
      else (st, "bad-op")
    | _, _ => (st, "bad-op")
  | ["edge", id, s, d, sp, dp] =>
    match id.toNat?, s.toNat?, d.toNat? with
    | some id, some s, some d => ({ st with g := { st.g with edges := st.g.edges ++ [⟨id, s, d, sp, dp⟩] } }, "ok")
    | _, _, _ => (st, "bad-op")
  | ["ref", n, t, m, grp] =>
    match n.toNat?, optNat t, optNat grp with
    | some n, some t, some grp =>
      if m == "0" || m == "1" then
        ({ st with g := { st.g with refs := st.g.refs ++ [⟨n, t, m == "1", grp⟩] } }, "ok")
      else (st, "bad-op")
    | _, _, _ => (st, "bad-op")
  | ["partition"] =>
    let o := partition st.g
    ({ st with out := some o }, showOutcome o)
  | ["sgs"] =>
    match st.out with
    | some (.ok r) => (st, dash ("|".intercalate (r.subgraphs.map showNats)))
    | _ => (st, "-")
  | ["hoffs"] =>
    match st.out with
    | some (.ok r) => (st, dash (showNats r.hoffEdges))
    | _ => (st, "-")
  | ["delays"] =>
    match st.out with
    | some (.ok r) =>
      (st, dash (" ".intercalate (r.delays.map fun d => (if d.1 then "e" else "n") ++ toString d.2.1 ++ ":" ++ showDelay d.2.2)))
    | _ => (st, "-")
  | ["wf"] => (st, toString st.g.wfB)
  | ["depcycle"] =>
    let pairs := st.g.depPairs
    match topoSort st.g.nodeIds (Flat.predsOf pairs) with
    | .ok _ => (st, "false")
    | .error _ => (st, "true")
  | ws =>
    match rwStep st.rw ws with
    | some (rw, out) => ({ st with rw := rw }, out)
    | none => (st, "bad-op")

partial def loop (h : IO.FS.Stream) (out : IO.FS.Stream) (st : St) : IO Unit := do
  let line ← h.getLine
  if line.isEmpty then return ()
  let (st', o) := step st line
  out.putStrLn o
  loop h out st'

def main : IO Unit := do
  let stdin ← IO.getStdin
  let stdout ← IO.getStdout
  loop stdin stdout {}
