#!/usr/bin/env python3
"""
(T) translator for the HvPart family (C18, C19, C20, C42).

Re-extracts from /repo's *current* source, on every run:
  * Gen/Color.lean      - `node_color` degree table + name overrides (meta_graph.rs),
                          `can_connect_colorize` 5x5 table (flat_to_partitioned.rs),
                          the Tick->Loop delay remap of `mark_tick_boundary_handoffs`;
  * Gen/Catalogue.lean  - per operator: name, hard in/out arity ranges, flo_type,
                          input_delaytype_fn (must be a port-independent closure), is_external_input
                          (dfir_lang/src/graph/ops/*.rs + the declare_ops! list);
  * Gen/HashSites.lean  - every occurrence of a hash container in the C42-anchored files, classified
                          (C42 site scanner).
A fragment the translator cannot parse raises -> broken tie.
Files are only rewritten when their content changes.
"""
import os
import re

REPO = "/repo"
HERE = os.path.dirname(os.path.dirname(os.path.abspath(__file__)))
GEN = os.path.join(HERE, "HvPart", "Gen")

COLORS = ["Pull", "Push", "Comp", "Hoff"]


class TErr(Exception):
    pass


def read(rel):
    return open(os.path.join(REPO, rel)).read()


def write_if_changed(path, text):
    os.makedirs(os.path.dirname(path), exist_ok=True)
    if os.path.exists(path) and open(path).read() == text:
        return False
    with open(path, "w") as f:
        f.write(text)
    return True


def strip_line_comments(s):
    return re.sub(r"//[^\n]*", "", s)


def fn_body(src, header_re):
    """text of the brace-balanced body following the first match of header_re"""
    m = re.search(header_re, src)
    if not m:
        raise TErr(f"cannot find {header_re}")
    i = src.index("{", m.end() - 1) if src[m.end() - 1] != "{" else m.end() - 1
    depth = 0
    j = i
    while j < len(src):
        if src[j] == "{":
            depth += 1
        elif src[j] == "}":
            depth -= 1
            if depth == 0:
                return src[i + 1:j]
        j += 1
    raise TErr("unbalanced braces")


def match_body(src, match_head_re):
    m = re.search(match_head_re, src)
    if not m:
        raise TErr(f"cannot find match {match_head_re}")
    i = src.index("{", m.end() - 1)
    depth = 0
    j = i
    while j < len(src):
        if src[j] == "{":
            depth += 1
        elif src[j] == "}":
            depth -= 1
            if depth == 0:
                return src[i + 1:j]
        j += 1
    raise TErr("unbalanced braces")


def split_arms(body):
    """split a match body into (pattern, expr) pairs; exprs may be blocks"""
    arms = []
    i, n = 0, len(body)
    while i < n:
        while i < n and body[i] in " \t\r\n,":
            i += 1
        if i >= n:
            break
        j = body.index("=>", i)
        pat = body[i:j].strip()
        k = j + 2
        while body[k] in " \t\r\n":
            k += 1
        if body[k] == "{":
            depth = 0
            e = k
            while True:
                if body[e] == "{":
                    depth += 1
                elif body[e] == "}":
                    depth -= 1
                    if depth == 0:
                        break
                e += 1
            expr = body[k:e + 1]
            i = e + 1
        else:
            depth = 0
            e = k
            while e < n and not (body[e] == "," and depth == 0):
                if body[e] in "([{":
                    depth += 1
                elif body[e] in ")]}":
                    depth -= 1
                e += 1
            expr = body[k:e].strip()
            i = e + 1
        arms.append((pat, expr))
    return arms


# ----------------------------------------------------------------------------- colour tables

def parse_deg_pat(p):
    p = p.strip()
    if re.fullmatch(r"_\w*", p):
        return None  # wildcard
    alts = [a.strip() for a in p.split("|")]
    vals = set()
    for a in alts:
        if not re.fullmatch(r"[01]", a):
            raise TErr(f"node_color: unsupported degree pattern `{p}`")
        vals.add(int(a))
    return vals


def translate_node_color(meta):
    body = fn_body(meta, r"pub\(crate\) fn node_color\(&self, node_id: GraphNodeId\) -> Option<Color> \{")
    body_nc = strip_line_comments(body)
    if "GraphNode::Handoff { .. }" not in body_nc or "return Some(Color::Hoff)" not in body_nc:
        raise TErr("node_color: handoff short-circuit not found")
    # name overrides: `op.name_string() == "x"` ... return Some(Color::Y)
    ov = re.search(r"if let GraphNode::Operator\(op\) = self\.node\(node_id\)\s*&&\s*\((.*?)\)\s*\{\s*return Some\(Color::(\w+)\);\s*\}", body_nc, re.S)
    overrides = []
    if ov:
        names = re.findall(r'op\.name_string\(\)\s*==\s*"(\w+)"', ov.group(1))
        rest = re.sub(r'op\.name_string\(\)\s*==\s*"\w+"', "", ov.group(1))
        if rest.replace("||", "").strip():
            raise TErr("node_color: override condition not a disjunction of name tests")
        overrides = [(n, ov.group(2)) for n in names]
    if len(re.findall(r"return Some\(Color::", body_nc)) != 1 + (1 if ov else 0):
        raise TErr("node_color: unexpected extra early returns")
    if "self.node_predecessor_nodes(node_id).len()" not in body_nc or "self.node_successor_nodes(node_id).len()" not in body_nc:
        raise TErr("node_color: degree expressions changed")
    mb = match_body(body_nc, r"match \(inn_degree, out_degree\) \{")
    arms = []
    for pat, expr in split_arms(mb):
        m = re.fullmatch(r"\((.*),(.*)\)", pat.strip(), re.S)
        if not m:
            raise TErr(f"node_color: bad arm `{pat}`")
        a, b = parse_deg_pat(m.group(1)), parse_deg_pat(m.group(2))
        em = re.fullmatch(r"None|Some\(Color::(\w+)\)", expr.strip())
        if not em:
            raise TErr(f"node_color: bad arm value `{expr}`")
        arms.append((a, b, em.group(1)))
    table = {}
    for i in range(3):
        for o in range(3):
            for a, b, v in arms:
                # classes 0,1,2(=many). a literal set matches only 0/1.
                if (a is None or i in a) and (b is None or o in b):
                    table[(i, o)] = v
                    break
            else:
                raise TErr("node_color: match not exhaustive")
    return table, overrides


def parse_color_pat(p):
    """-> set of members of {None,'Pull','Push','Comp','Hoff'}"""
    p = p.strip()
    if p == "None":
        return {None}
    m = re.fullmatch(r"Some\((.*)\)", p, re.S)
    if not m:
        raise TErr(f"can_connect: bad pattern `{p}`")
    inner = m.group(1).strip()
    if inner == "_":
        return set(COLORS)
    res = set()
    for a in inner.split("|"):
        mm = re.fullmatch(r"Color::(\w+)", a.strip())
        if not mm or mm.group(1) not in COLORS:
            raise TErr(f"can_connect: bad colour `{a}`")
        res.add(mm.group(1))
    return res


def split_top(s, ch=","):
    out, depth, cur = [], 0, ""
    for c in s:
        if c in "([{":
            depth += 1
        elif c in ")]}":
            depth -= 1
        if c == ch and depth == 0:
            out.append(cur)
            cur = ""
        else:
            cur += c
    out.append(cur)
    return out


def translate_can_connect(ftp):
    body = strip_line_comments(fn_body(ftp, r"fn can_connect_colorize\("))
    mb = match_body(body, r"let can_connect = match \(node_color\.get\(src\), node_color\.get\(dst\)\) \{")
    arms = []
    for pat, expr in split_arms(mb):
        m = re.fullmatch(r"\((.*)\)", pat.strip(), re.S)
        parts = split_top(m.group(1)) if m else []
        if len(parts) != 2:
            raise TErr(f"can_connect: bad arm `{pat}`")
        ps, pd = parse_color_pat(parts[0]), parse_color_pat(parts[1])
        e = expr.strip()
        if e in ("true", "false"):
            arms.append((ps, pd, e == "true", None))
        else:
            mm = re.fullmatch(r"\{\s*node_color\.insert\((src|dst), Color::(\w+)\);\s*(true|false)\s*\}", e, re.S)
            if not mm:
                raise TErr(f"can_connect: bad arm body `{e}`")
            arms.append((ps, pd, mm.group(3) == "true", (mm.group(1), mm.group(2))))
    table = {}
    for s in [None] + COLORS:
        for d in [None] + COLORS:
            for ps, pd, ok, ins in arms:
                if s in ps and d in pd:
                    table[(s, d)] = (ok, ins)
                    break
            else:
                raise TErr(f"can_connect: match not exhaustive at {(s, d)}")
    if not re.search(r"\};\s*can_connect\s*$", body.strip()):
        raise TErr("can_connect: function no longer returns the match value")
    return table


def translate_remap(ftp):
    body = strip_line_comments(fn_body(ftp, r"fn mark_tick_boundary_handoffs\("))
    mb = match_body(body, r"match delay_type \{")
    res = {}
    other = None
    for pat, expr in split_arms(mb):
        mp = re.fullmatch(r"DelayType::(\w+)", pat.strip())
        me = re.fullmatch(r"DelayType::(\w+)", expr.strip())
        if mp and me:
            res[mp.group(1)] = me.group(1)
        elif re.fullmatch(r"\w+", pat.strip()) and expr.strip() == pat.strip():
            other = True
        else:
            raise TErr(f"remap: bad arm `{pat} => {expr}`")
    if not other:
        raise TErr("remap: no identity fallback arm")
    if "partitioned_graph.loop_parent(loop_id).is_some()" not in body:
        raise TErr("remap: nested-loop condition changed")
    return res


DELAYS = ["Tick", "TickLazy", "Loop", "LoopLazy"]
LDELAY = {"Tick": "Delay.tick", "TickLazy": "Delay.tickLazy", "Loop": "Delay.loop", "LoopLazy": "Delay.loopLazy"}
LCOLOR = {"Pull": "Color.pull", "Push": "Color.push", "Comp": "Color.comp", "Hoff": "Color.hoff"}


def lopt(v, tbl):
    return "none" if v is None else f"some {tbl[v]}"


def gen_color():
    meta = read("dfir_lang/src/graph/meta_graph.rs")
    ftp = read("dfir_lang/src/graph/flat_to_partitioned.rs")
    deg, overrides = translate_node_color(meta)
    cc = translate_can_connect(ftp)
    remap = translate_remap(ftp)
    L = []
    L.append("/- GENERATED by lean/HvPart/tools/translate.py from /repo/dfir_lang/src/graph/{meta_graph,flat_to_partitioned}.rs - do not edit -/")
    L.append("import HvPart.Model.Basic")
    L.append("namespace HvPart.Gen")
    L.append("open HvPart")
    L.append("")
    L.append("/-- `DfirGraph::node_color` degree table; arguments are degree classes 0, 1, 2 (= two or more). -/")
    L.append("def degColorTbl : Nat → Nat → Option Color")
    for i in range(3):
        for o in range(3):
            if (i, o) == (2, 2):
                continue
            L.append(f"  | {i}, {o} => {lopt(deg[(i, o)], LCOLOR)}")
    L.append(f"  | _, _ => {lopt(deg[(2, 2)], LCOLOR)}")
    L.append("")
    L.append("/-- operator names that `node_color` colours unconditionally. -/")
    L.append("def colorOverrides : List (String × Color) := [" + ", ".join(f'("{n}", {LCOLOR[c]})' for n, c in overrides) + "]")
    L.append("")
    L.append("/-- `can_connect_colorize`: (can connect, colour inserted for src, colour inserted for dst). -/")
    L.append("def canConnectTbl : Option Color → Option Color → Bool × Option Color × Option Color")
    for s in [None] + COLORS:
        for d in [None] + COLORS:
            ok, ins = cc[(s, d)]
            si = ins[1] if ins and ins[0] == "src" else None
            di = ins[1] if ins and ins[0] == "dst" else None
            L.append(f"  | {lopt(s, LCOLOR)}, {lopt(d, LCOLOR)} => ({'true' if ok else 'false'}, {lopt(si, LCOLOR)}, {lopt(di, LCOLOR)})")
    L.append("")
    L.append("/-- `mark_tick_boundary_handoffs`: delay type of a handoff whose consumer is in a nested loop. -/")
    L.append("def delayRemapNested : Delay → Delay")
    for d in DELAYS:
        L.append(f"  | {LDELAY[d]} => {LDELAY[remap.get(d, d)]}")
    L.append("")
    L.append("end HvPart.Gen")
    return "\n".join(L) + "\n", f"node_color 3x3 + {len(overrides)} overrides, can_connect 5x5, remap {remap}"


# ----------------------------------------------------------------------------- catalogue

def parse_range(txt):
    t = txt.strip().rstrip(",").strip()
    if t == "RANGE_0":
        return (0, 0)
    if t == "RANGE_1":
        return (1, 1)
    if t == "RANGE_ANY":
        return (0, None)
    m = re.fullmatch(r"&\((\d*)\.\.(=?)(\d*)\)", t)
    if not m:
        raise TErr(f"catalogue: unsupported range `{t}`")
    lo = int(m.group(1)) if m.group(1) else 0
    if m.group(3) == "":
        hi = None
    else:
        hi = int(m.group(3)) if m.group(2) == "=" else int(m.group(3)) - 1
    return (lo, hi)


def gen_catalogue():
    ops_dir = os.path.join(REPO, "dfir_lang/src/graph/ops")
    modsrc = open(os.path.join(ops_dir, "mod.rs")).read()
    m = re.search(r"declare_ops!\[(.*?)\];", modsrc, re.S)
    if not m:
        raise TErr("catalogue: declare_ops! list not found")
    declared = re.findall(r"(\w+)::(\w+),", m.group(1))
    ops = {}
    for fn in sorted(os.listdir(ops_dir)):
        if not fn.endswith(".rs") or fn == "mod.rs":
            continue
        src = open(os.path.join(ops_dir, fn)).read()
        for mm in re.finditer(r"pub const (\w+): OperatorConstraints = OperatorConstraints \{", src):
            const = mm.group(1)
            blk = src[mm.end():]

            def field(name):
                fm = re.search(r"^\s*" + name + r":\s*(.*?),?\s*$", blk, re.M)
                if not fm:
                    raise TErr(f"catalogue: {fn}:{const}: field {name} not found")
                return fm.group(1).strip().rstrip(",")
            name = re.fullmatch(r'"(\w+)"', field("name"))
            if not name:
                raise TErr(f"catalogue: {fn}: bad name")
            d = field("input_delaytype_fn")
            dm = re.fullmatch(r"\|_\|\s*(None|Some\(DelayType::(\w+)\))", d)
            if not dm:
                raise TErr(f"catalogue: {fn}: input_delaytype_fn is not a port-independent closure: `{d}`")
            fl = field("flo_type")
            flm = re.fullmatch(r"None|Some\(FloType::(\w+)\)", fl)
            if not flm:
                raise TErr(f"catalogue: {fn}: bad flo_type `{fl}`")
            ext = field("is_external_input")
            if ext not in ("true", "false"):
                raise TErr(f"catalogue: {fn}: bad is_external_input")
            ops[(fn[:-3], const)] = dict(name=name.group(1), inn=parse_range(field("hard_range_inn")),
                                          out=parse_range(field("hard_range_out")), delay=dm.group(2),
                                          flo=flm.group(1), ext=ext == "true")
    missing = [d for d in declared if d not in ops]
    extra = [k for k in ops if k not in declared]
    if missing or extra:
        raise TErr(f"catalogue: declare_ops! and ops/*.rs disagree: missing={missing} extra={extra}")
    LFLO = {"Source": "Flo.source", "Windowing": "Flo.windowing", "WindowingLazy": "Flo.windowingLazy", "Unwindowing": "Flo.unwindowing"}
    L = []
    L.append("/- GENERATED by lean/HvPart/tools/translate.py from /repo/dfir_lang/src/graph/ops/*.rs - do not edit -/")
    L.append("import HvPart.Model.Basic")
    L.append("namespace HvPart.Gen")
    L.append("open HvPart")
    L.append("")
    L.append("/-- the operator catalogue (`OPERATORS`), in `declare_ops!` order. `hi = none` is an unbounded range. -/")
    L.append("def catalogue : List OpInfo := [")
    rows = []
    for d in declared:
        o = ops[d]

        def oh(x):
            return "none" if x is None else f"some {x}"
        rows.append(f'  {{ name := "{o["name"]}", innLo := {o["inn"][0]}, innHi := {oh(o["inn"][1])}, outLo := {o["out"][0]}, outHi := {oh(o["out"][1])}, '
                    f'delay := {lopt(o["delay"], LDELAY)}, flo := {lopt(o["flo"], LFLO)}, ext := {"true" if o["ext"] else "false"} }}')
    L.append(",\n".join(rows))
    L.append("]")
    L.append("")
    L.append("/-- `input_delaytype_fn` of the operator with this name (every closure in the catalogue ignores the port). -/")
    L.append("def inputDelay (name : String) : Option Delay :=")
    L.append("  match catalogue.find? (fun o => o.name == name) with")
    L.append("  | some o => o.delay")
    L.append("  | none => none")
    L.append("")
    L.append("end HvPart.Gen")
    return "\n".join(L) + "\n", f"{len(declared)} operators"


# ----------------------------------------------------------------------------- C42 hash-site scanner

C42_FILES = [
    "dfir_lang/src/graph/meta_graph.rs",
    "dfir_lang/src/graph/flat_to_partitioned.rs",
    "dfir_lang/src/graph/flat_graph_builder.rs",
    "dfir_lang/src/graph/graph_algorithms.rs",
    "dfir_lang/src/graph/eliminate_extra_unions_tees.rs",
    "dfir_lang/src/graph/di_mul_graph.rs",
    "dfir_lang/src/graph/mod.rs",
    "dfir_lang/src/graph/ops/mod.rs",
    "dfir_lang/src/union_find.rs",
    "hydro_lang/src/compile/ir/mod.rs",
]
HASH_TY = re.compile(r"\b(HashMap|HashSet|FxHashMap|FxHashSet|SparseSecondaryMap)\b")
ITER_METH = re.compile(r"\.(iter|iter_mut|into_iter|keys|values|values_mut|into_keys|into_values|drain|retain|extract_if)\s*\(")


def strip_tests(src):
    """drop `#[cfg(test)] mod ... { ... }` blocks"""
    out = src
    while True:
        m = re.search(r"#\[cfg\(test\)\]\s*mod\s+\w+\s*\{", out)
        if not m:
            return out
        i = out.index("{", m.start())
        depth, j = 0, i
        while j < len(out):
            if out[j] == "{":
                depth += 1
            elif out[j] == "}":
                depth -= 1
                if depth == 0:
                    break
            j += 1
        out = out[:m.start()] + "\n" * out[m.start():j + 1].count("\n") + out[j + 1:]


def scan_hash_sites():
    """-> list of (file, binding-or-field, kind, iterated?) — purely syntactic.
    A *binding* is `let [mut] x` / `x:` field / fn param whose declaration line mentions a hash type.
    It is *iterated* if `x.<iter-method>(`, `for .. in [&[mut]] x`, or `x.remove(..).into_iter()` occurs."""
    sites = []
    for rel in C42_FILES:
        p = os.path.join(REPO, rel)
        if not os.path.exists(p):
            raise TErr(f"C42 scanner: anchored file missing: {rel}")
        src = strip_tests(strip_line_comments(open(p).read()))
        lines = src.splitlines()
        names = {}
        for no, line in enumerate(lines, 1):
            if not HASH_TY.search(line) or line.strip().startswith("use "):
                continue
            ty = HASH_TY.search(line).group(1)
            found = False
            for m in re.finditer(r"(?:let\s+(?:mut\s+)?(\w+)\s*[:=])|(?:\b(\w+)\s*:\s*&?(?:mut\s+)?[\w:<>, ]*?(?:HashMap|HashSet|FxHashMap|FxHashSet|SparseSecondaryMap))", line):
                nm = m.group(1) or m.group(2)
                if nm and nm not in ("pub", "mut", "static"):
                    names.setdefault(nm, ty)
                    found = True
            if not found:
                # an expression / return type mentioning a hash type without binding: record as anonymous
                key = f"<anon:{line.strip()[:60]}>"
                names.setdefault(key, ty)
        for nm, ty in sorted(names.items()):
            iterated = False
            if not nm.startswith("<anon"):
                pat_iter = re.compile(r"\b(?:self\.)?" + re.escape(nm) + r"\s*(?:\.\s*(?:get|get_mut|remove|entry)\s*\([^;]*?\)\s*(?:\.\s*\w+\s*\([^;]*?\))*?)?\s*" + ITER_METH.pattern)
                pat_for = re.compile(r"for\s+[^;{]*?\bin\s+&?\s*(?:mut\s+)?(?:self\.)?" + re.escape(nm) + r"\b")
                if pat_iter.search(src) or pat_for.search(src):
                    iterated = True
            sites.append((rel, nm, ty, iterated))
    return sites


def gen_hash_sites():
    sites = scan_hash_sites()
    L = []
    L.append("/- GENERATED by lean/HvPart/tools/translate.py (C42 site scanner) - do not edit -/")
    L.append("namespace HvPart.Gen")
    L.append("")
    L.append("/-- every binding/field/anonymous expression of a hash-container type in the C42-anchored files:")
    L.append("    (file, name, type, does the file iterate it?). -/")
    L.append("def hashSites : List (String × String × String × Bool) := [")
    L.append(",\n".join(f'  ("{f}", "{n.replace(chr(34), chr(39))}", "{t}", {"true" if it else "false"})' for f, n, t, it in sites))
    L.append("]")
    L.append("")
    L.append("end HvPart.Gen")
    return "\n".join(L) + "\n", f"{len(sites)} hash-typed bindings, {sum(1 for s in sites if s[3])} iterated"


# ---------------------------------------------------------------------------------------------------
# C17 port: the `topo_sort` transcription of project HvGraphAlg (C17) and its correctness proof are copied
# verbatim into this project on every run (so `TopoSpec` is a theorem here, about the very transcription
# that C17's own correspondence check ties to graph_algorithms.rs).

C17 = os.path.join(os.path.dirname(HERE), "HvGraphAlg", "HvGraphAlg")
C17_HEAD = "-- COPIED on every run from lean/HvGraphAlg/HvGraphAlg/%s by lean/HvPart/tools/translate.py — do not edit\n"


def c17_read(rel):
    try:
        return open(os.path.join(C17, rel)).read()
    except OSError as ex:
        raise TErr(f"cannot read C17 file {rel}: {ex}")


def gen_c17_model():
    src = c17_read("Model/Topo.lean")
    if re.search(r"^import ", src, re.M):
        raise TErr("C17 Model/Topo.lean is no longer import-free")
    if "def topoSort (n : Nat) (ids : List Nat) (preds : Nat → List Nat) : TopoResult" not in src:
        raise TErr("C17 Model/Topo.lean: signature of topoSort changed")
    return C17_HEAD % "Model/Topo.lean" + src, "C17 topo_sort transcription"


def gen_c17_proofs():
    src = c17_read("Proofs/Topo.lean")
    if src.count("import HvGraphAlg.Model.Topo\n") != 1 or len(re.findall(r"^import ", src, re.M)) != 1:
        raise TErr("C17 Proofs/Topo.lean: unexpected imports")
    return C17_HEAD % "Proofs/Topo.lean" + src.replace("import HvGraphAlg.Model.Topo\n", "import HvPart.C17.Topo\n"), "C17 topo_sort proofs"


def gen_c17_thms():
    src = c17_read("Props/C17.lean")
    a = src.find("/-! ## `topo_sort` -/")
    b = src.find("/-- `topo_sort` succeeds exactly when the part of the graph it visits is acyclic. -/")
    if a < 0 or b < a:
        raise TErr("C17 Props/C17.lean: topo_sort section markers not found")
    body = src[a:b]
    for need in ("structure Bounded", "theorem topoSort_total", "theorem topoSort_ok_respects_edges", "theorem topoSort_err_is_cycle"):
        if need not in body:
            raise TErr(f"C17 Props/C17.lean: `{need}` not in the topo_sort section")
    # helper/auxiliary status: everything copied is re-proved here; the property theorems of this project use them
    return (C17_HEAD % "Props/C17.lean (topo_sort section)" + "import HvPart.C17.TopoProofs\nnamespace HvGraphAlg\n\n" + body
            + "\nend HvGraphAlg\n"), "C17 topo_sort theorems"


def run(which=("color", "catalogue", "hash")):
    """-> [(name, ok, detail)]"""
    res = []
    jobs = {"color": ("Gen/Color.lean", gen_color), "catalogue": ("Gen/Catalogue.lean", gen_catalogue),
            "hash": ("Gen/HashSites.lean", gen_hash_sites),
            "c17model": ("C17/Topo.lean", gen_c17_model), "c17proofs": ("C17/TopoProofs.lean", gen_c17_proofs),
            "c17thms": ("C17/TopoThms.lean", gen_c17_thms)}
    for w in which:
        rel, fn = jobs[w]
        try:
            text, detail = fn()
            changed = write_if_changed(os.path.join(HERE, "HvPart", rel), text)
            res.append((rel, True, detail + (" (rewritten)" if changed else "")))
        except TErr as ex:
            res.append((rel, False, str(ex)))
    return res


if __name__ == "__main__":
    for r in run():
        print(r)
