import HvPart.Model.Basic
import HvPart.Model.TopoSort
import HvPart.Model.Merge
import HvPart.Model.Partition
