/-
C29 — ordered and keyed streams keep their promised order.

On the model of `Model/Hydro.lean` (the DFIR that `emit_core` produces, run tick by tick):
 * a stream typed `TotalOrder` (kinds `sT`, keyed `sK`) is emitted, over all ticks, in exactly the order
   its stream-level meaning defines — for every partition of the inputs into ticks
   (`totalOrder_preserved_op`, `totalOrder_preserved_program`);
 * keyed `scan` (= `generator` lowered to `scan` over a `HashMap` + `flat_map`) emits, for each key, exactly
   the scan of that key's own subsequence, in order (`keyed_per_key_order`);
 * the per-key results of keyed `fold` (`fold_keyed`) and keyed `scan` depend only on that key's
   subsequence: any other interleaving of *different* keys, under any tick partition, gives the same
   per-key results (`keyed_result_depends_only_on_key_subsequence_*`, `keyed_fold_all_partitions_interleavings`).
-/
import HvHydro.Props.C28

namespace HvHydro
open List Kind

/-! ### total order -/

/-- every element-wise `'static` operator emits, across any batching, exactly the sequence it emits on
    the unbatched input: arrival order in = emission order out -/
theorem totalOrder_preserved_op {σ : Type} (step : σ → Val → σ × List Val) (s : σ) (batches : List Batch) :
    (mealyStatic step s batches).flatten = (mealyList step s batches.flatten).2 :=
  aux_mealyStatic_flatten step s batches

/-- a program typed `TotalOrder` (or keyed with per-key total order) emits the sequence its meaning
    defines, whatever the tick partition -/
theorem totalOrder_preserved_program (t : Term) (hk : t.kind = some sT ∨ t.kind = some sK) (hwf : t.WF)
    (ins : List TickIn) (hne : ins ≠ []) :
    (run t ins).flatten = spec t (wholeInput ins) := by
  rcases hk with hk | hk
  · simpa [Agrees] using program_eventually_deterministic t sT hk hwf ins hne
  · simpa [Agrees] using program_eventually_deterministic t sK hk hwf ins hne

example : (run (.enumerate (.chain (.const [.int 7]) (.input 0))) [[[.int 1], []], [[], []], [[.int 2, .int 3], []]]).flatten
    = [.pair (.int 0) (.int 7), .pair (.int 1) (.int 1), .pair (.int 2) (.int 2), .pair (.int 3) (.int 3)] := by decide

/-! ### keyed scan -/

/-- the scan state of key `k` inside the `HashMap` state of the keyed scan -/
def kst (init : Val) (m : List (Val × Option Val)) (k : Val) : Option Val :=
  match alookup m k with
  | none => some init
  | some s => s

theorem aux_kscanStep_same (init : Val) (f : Val → Val → Option (Val × Val)) (m : List (Val × Option Val)) (x : Val) :
    kst init (kscanStep init f m x).1 x.key = (scanStep f (kst init m x.key) x.value).1 ∧
    (kscanStep init f m x).2 = (scanStep f (kst init m x.key) x.value).2.map (Val.pair x.key) := by
  unfold kscanStep scanStep kst
  cases h1 : alookup m x.key with
  | none =>
    cases h2 : f init x.value with
    | none => simp [h1, h2, aux_alookup_ainsert]
    | some r => obtain ⟨a', u⟩ := r; simp [h1, h2, aux_alookup_ainsert]
  | some s =>
    cases s with
    | none => simp [h1, aux_alookup_ainsert]
    | some a =>
      cases h2 : f a x.value with
      | none => simp [h1, h2, aux_alookup_ainsert]
      | some r => obtain ⟨a', u⟩ := r; simp [h1, h2, aux_alookup_ainsert]

theorem aux_kscanStep_other (init : Val) (f : Val → Val → Option (Val × Val)) (m : List (Val × Option Val)) (x k : Val)
    (h : x.key ≠ k) :
    kst init (kscanStep init f m x).1 k = kst init m k ∧
    (kscanStep init f m x).2.filter (fun y => decide (y.key = k)) = [] := by
  have hk : ¬ k = x.key := fun e => h e.symm
  unfold kscanStep kst
  cases h1 : alookup m x.key with
  | none =>
    cases h2 : f init x.value with
    | none => simp [h1, h2, aux_alookup_ainsert, hk]
    | some r => obtain ⟨a', u⟩ := r; simp [h1, h2, aux_alookup_ainsert, hk, aux_key_pair, h]
  | some s =>
    cases s with
    | none => simp [h1, aux_alookup_ainsert, hk]
    | some a =>
      cases h2 : f a x.value with
      | none => simp [h1, h2, aux_alookup_ainsert, hk]
      | some r => obtain ⟨a', u⟩ := r; simp [h1, h2, aux_alookup_ainsert, hk, aux_key_pair, h]

theorem aux_kscan (init : Val) (f : Val → Val → Option (Val × Val)) (k : Val) (l : List Val)
    (m : List (Val × Option Val)) :
    kst init (mealyList (kscanStep init f) m l).1 k = (mealyList (scanStep f) (kst init m k) (keyVals k l)).1 ∧
    (mealyList (kscanStep init f) m l).2.filter (fun y => decide (y.key = k))
      = (mealyList (scanStep f) (kst init m k) (keyVals k l)).2.map (Val.pair k) := by
  induction l generalizing m with
  | nil => simp [mealyList, keyVals]
  | cons x xs ih =>
    by_cases hx : x.key = k
    · have hs := aux_kscanStep_same init f m x
      have ih' := ih (kscanStep init f m x).1
      have hkv : keyVals k (x :: xs) = x.value :: keyVals k xs := by simp [keyVals, hx]
      subst hx
      rw [hkv]
      simp only [mealyList, List.filter_append, List.map_append]
      rw [hs.1] at ih'
      refine ⟨ih'.1, ?_⟩
      rw [ih'.2, hs.2]
      congr 1
      rw [List.filter_map]
      congr 1
      apply List.filter_eq_self.mpr
      intro y _
      simp [aux_key_pair]
    · have ho := aux_kscanStep_other init f m x k hx
      have ih' := ih (kscanStep init f m x).1
      have hkv : keyVals k (x :: xs) = keyVals k xs := by simp [keyVals, hx]
      rw [hkv]
      simp only [mealyList, List.filter_append]
      rw [ho.1] at ih'
      exact ⟨ih'.1, by rw [ho.2, ih'.2]; simp⟩

/-- **keyed scan keeps every key's order**: the elements emitted for key `k`, in emission order, are the
    plain `scan` of `k`'s own values in arrival order -/
theorem keyed_per_key_order (init : Val) (f : Val → Val → Option (Val × Val)) (k : Val) (l : List Val) :
    (mealyList (kscanStep init f) [] l).2.filter (fun y => decide (y.key = k))
      = (mealyList (scanStep f) (some init) (keyVals k l)).2.map (Val.pair k) := by
  simpa [kst, alookup] using (aux_kscan init f k l []).2

/-- keyed scan: another interleaving of different keys (same per-key subsequences) gives the same per-key output -/
theorem keyed_result_depends_only_on_key_subsequence_scan (init : Val) (f : Val → Val → Option (Val × Val))
    (l l' : List Val) (h : ∀ k, keyVals k l = keyVals k l') (k : Val) :
    (mealyList (kscanStep init f) [] l).2.filter (fun y => decide (y.key = k))
      = (mealyList (kscanStep init f) [] l').2.filter (fun y => decide (y.key = k)) := by
  rw [keyed_per_key_order, keyed_per_key_order, h k]

/-! ### keyed generators: `limit`, `enumerate`, `first` (and `scan`) -/

theorem aux_kgenStep_same (init : Val) (g : Val → Val → Gen) (m : List (Val × Option Val)) (x : Val) :
    kst init (kgenStep init g m x).1 x.key = (genStep g (kst init m x.key) x.value).1 ∧
    (kgenStep init g m x).2 = (genStep g (kst init m x.key) x.value).2.map (Val.pair x.key) := by
  unfold kgenStep genStep kst
  cases h1 : alookup m x.key with
  | none =>
    cases h2 : g init x.value <;> simp [h1, h2, aux_alookup_ainsert]
  | some s =>
    cases s with
    | none => simp [h1, aux_alookup_ainsert]
    | some a =>
      cases h2 : g a x.value <;> simp [h1, h2, aux_alookup_ainsert]

theorem aux_kgenStep_other (init : Val) (g : Val → Val → Gen) (m : List (Val × Option Val)) (x k : Val)
    (h : x.key ≠ k) :
    kst init (kgenStep init g m x).1 k = kst init m k ∧
    (kgenStep init g m x).2.filter (fun y => decide (y.key = k)) = [] := by
  have hk : ¬ k = x.key := fun e => h e.symm
  unfold kgenStep kst
  cases h1 : alookup m x.key with
  | none =>
    cases h2 : g init x.value <;> simp [h1, h2, aux_alookup_ainsert, hk, aux_key_pair, h]
  | some s =>
    cases s with
    | none => simp [h1, aux_alookup_ainsert, hk]
    | some a =>
      cases h2 : g a x.value <;> simp [h1, h2, aux_alookup_ainsert, hk, aux_key_pair, h]

theorem aux_kgen (init : Val) (g : Val → Val → Gen) (k : Val) (l : List Val)
    (m : List (Val × Option Val)) :
    kst init (mealyList (kgenStep init g) m l).1 k = (mealyList (genStep g) (kst init m k) (keyVals k l)).1 ∧
    (mealyList (kgenStep init g) m l).2.filter (fun y => decide (y.key = k))
      = (mealyList (genStep g) (kst init m k) (keyVals k l)).2.map (Val.pair k) := by
  induction l generalizing m with
  | nil => simp [mealyList, keyVals]
  | cons x xs ih =>
    by_cases hx : x.key = k
    · have hs := aux_kgenStep_same init g m x
      have ih' := ih (kgenStep init g m x).1
      have hkv : keyVals k (x :: xs) = x.value :: keyVals k xs := by simp [keyVals, hx]
      subst hx
      rw [hkv]
      simp only [mealyList, List.filter_append, List.map_append]
      rw [hs.1] at ih'
      refine ⟨ih'.1, ?_⟩
      rw [ih'.2, hs.2]
      congr 1
      rw [List.filter_map]
      congr 1
      apply List.filter_eq_self.mpr
      intro y _
      simp [aux_key_pair]
    · have ho := aux_kgenStep_other init g m x k hx
      have ih' := ih (kgenStep init g m x).1
      have hkv : keyVals k (x :: xs) = keyVals k xs := by simp [keyVals, hx]
      rw [hkv]
      simp only [mealyList, List.filter_append]
      rw [ho.1] at ih'
      exact ⟨ih'.1, by rw [ho.2, ih'.2]; simp⟩

/-- **a keyed generator keeps every key's order and runs one independent generator per key**: what is
    emitted for key `k`, in emission order, is the plain generator run over `k`'s own values in arrival
    order (`KeyedStream::generator`, hence `limit`, `enumerate`, `first`, `scan`, `fold_early_stop`) -/
theorem keyed_generator_per_key_order (init : Val) (g : Val → Val → Gen) (k : Val) (l : List Val) :
    (mealyList (kgenStep init g) [] l).2.filter (fun y => decide (y.key = k))
      = (mealyList (genStep g) (some init) (keyVals k l)).2.map (Val.pair k) := by
  simpa [kst, alookup] using (aux_kgen init g k l []).2

theorem keyed_result_depends_only_on_key_subsequence_generator (init : Val) (g : Val → Val → Gen)
    (l l' : List Val) (h : ∀ k, keyVals k l = keyVals k l') (k : Val) :
    (mealyList (kgenStep init g) [] l).2.filter (fun y => decide (y.key = k))
      = (mealyList (kgenStep init g) [] l').2.filter (fun y => decide (y.key = k)) := by
  rw [keyed_generator_per_key_order, keyed_generator_per_key_order, h k]

theorem aux_gen_none (g : Val → Val → Gen) (l : List Val) : mealyList (genStep g) none l = (none, []) := by
  induction l with
  | nil => rfl
  | cons x xs ih => simp [mealyList, genStep, ih]

theorem aux_limitGen (n : Nat) (c : Nat) (hc : c < n) (l : List Val) :
    (mealyList (genStep (limitGen n)) (some (.int c)) l).2 = l.take (n - c) := by
  induction l generalizing c with
  | nil => simp [mealyList]
  | cons x xs ih =>
    have h1 : ¬ ((c : Int) = (n : Int)) := by omega
    by_cases h2 : c + 1 = n
    · have h2' : (c : Int) + 1 = (n : Int) := by omega
      have h3 : n - c = 1 := by omega
      simp [mealyList, genStep, limitGen, h1, h2', aux_gen_none, h3]
    · have h2' : ¬ ((c : Int) + 1 = (n : Int)) := by omega
      have h3 : n - c = (n - (c + 1)) + 1 := by omega
      have ih' := ih (c + 1) (by omega)
      have hcast : (((c + 1 : Nat)) : Int) = (c : Int) + 1 := by omega
      rw [hcast] at ih'
      simp [mealyList, genStep, limitGen, h1, h2', ih', h3]

/-- keyed `limit(n)`: per key the first `n` values (`List.take`) -/
theorem keyed_limit_is_take_per_key (n : Nat) (k : Val) (l : List Val) :
    (mealyList (kgenStep (.int 0) (limitGen n)) [] l).2.filter (fun y => decide (y.key = k))
      = ((keyVals k l).take n).map (Val.pair k) := by
  rw [keyed_generator_per_key_order]
  cases n with
  | zero =>
    congr 1
    cases keyVals k l with
    | nil => simp [mealyList]
    | cons x xs => simp [mealyList, genStep, limitGen, aux_gen_none]
  | succ n =>
    have := aux_limitGen (n + 1) 0 (by omega) (keyVals k l)
    have h0 : ((0 : Nat) : Int) = 0 := rfl
    rw [h0, Nat.sub_zero] at this
    rw [this]

theorem aux_enumGen (c : Nat) (l : List Val) :
    (mealyList (genStep enumGen) (some (.int c)) l).2 = (l.zipIdx c).map (fun p => Val.pair (.int p.2) p.1) := by
  induction l generalizing c with
  | nil => simp [mealyList]
  | cons x xs ih =>
    have ih' := ih (c + 1)
    have hcast : (((c + 1 : Nat)) : Int) = (c : Int) + 1 := by omega
    rw [hcast] at ih'
    simp [mealyList, genStep, enumGen, ih', List.zipIdx_cons]

/-- keyed `enumerate()`: per key, the key's own values numbered 0, 1, 2, … -/
theorem keyed_enumerate_is_zipIdx_per_key (k : Val) (l : List Val) :
    (mealyList (kgenStep (.int 0) enumGen) [] l).2.filter (fun y => decide (y.key = k))
      = (((keyVals k l).zipIdx 0).map (fun p => Val.pair (.int p.2) p.1)).map (Val.pair k) := by
  rw [keyed_generator_per_key_order]
  have := aux_enumGen 0 (keyVals k l)
  have h0 : ((0 : Nat) : Int) = 0 := rfl
  rw [h0] at this
  rw [this]

/-- keyed `first()`: per key the first value, nothing more -/
theorem keyed_first_is_head_per_key (init : Val) (k : Val) (l : List Val) :
    (mealyList (kgenStep init firstGen) [] l).2.filter (fun y => decide (y.key = k))
      = (keyVals k l).head?.toList.map (Val.pair k) := by
  rw [keyed_generator_per_key_order]
  cases keyVals k l with
  | nil => simp [mealyList]
  | cons x xs => simp [mealyList, genStep, firstGen, aux_gen_none]

example : (mealyList (kgenStep (.int 0) (limitGen 1)) []
      [.pair (.int 1) (.int 5), .pair (.int 2) (.int 9), .pair (.int 1) (.int 7), .pair (.int 2) (.int 3)]).2
    = [.pair (.int 1) (.int 5), .pair (.int 2) (.int 9)] := by decide

/-- keyed generators under all tick partitions and cross-key interleavings: per key, the sequence emitted
    over all ticks is the same -/
theorem keyed_generator_all_partitions_interleavings (init : Val) (g : Val → Val → Gen) (t : Term)
    (hk : t.kind = some sT ∨ t.kind = some sK) (hwf : t.WF)
    (ins ins' : List TickIn) (hne : ins ≠ []) (hne' : ins' ≠ [])
    (hkeys : ∀ k, keyVals k (spec t (wholeInput ins)) = keyVals k (spec t (wholeInput ins'))) (k : Val) :
    (run (.kgen init g t) ins).flatten.filter (fun y => decide (y.key = k))
      = (run (.kgen init g t) ins').flatten.filter (fun y => decide (y.key = k)) := by
  simp only [run]
  rw [aux_mealyStatic_flatten, aux_mealyStatic_flatten, totalOrder_preserved_program t hk hwf ins hne,
    totalOrder_preserved_program t hk hwf ins' hne']
  exact keyed_result_depends_only_on_key_subsequence_generator init g _ _ hkeys k

/-! ### keyed reduce -/

/-- **keyed reduce**: the value of key `k` is the reduce of `k`'s own values in arrival order -/
theorem keyed_result_depends_only_on_key_subsequence_reduce (f : Val → Val → Val) (k : Val) (l : List Val) :
    alookup (l.foldl (kreduceStep f) []) k
      = match keyVals k l with
        | [] => none
        | v :: vs => some (vs.foldl f v) := by
  rw [aux_kreduce]
  simp only [alookup]
  rw [aux_reduce]
  cases keyVals k l <;> rfl

theorem keyed_reduce_all_partitions_interleavings (f : Val → Val → Val) (t : Term)
    (hk : t.kind = some sT ∨ t.kind = some sK) (hwf : t.WF)
    (ins ins' : List TickIn) (hne : ins ≠ []) (hne' : ins' ≠ [])
    (hkeys : ∀ k, keyVals k (spec t (wholeInput ins)) = keyVals k (spec t (wholeInput ins'))) :
    ∃ m m', (run (.kreduce f t) ins).getLast? = some (entries m) ∧
            (run (.kreduce f t) ins').getLast? = some (entries m') ∧
            ∀ k, alookup m k = alookup m' k := by
  refine ⟨(spec t (wholeInput ins)).foldl (kreduceStep f) [],
          (spec t (wholeInput ins')).foldl (kreduceStep f) [], ?_, ?_, ?_⟩
  · have hne2 : run t ins ≠ [] := by
      intro h; have := aux_run_length t ins; rw [h] at this; exact hne (List.eq_nil_of_length_eq_zero this.symm)
    simp only [run]
    rw [aux_accStatic_getLast _ _ _ _ hne2, totalOrder_preserved_program t hk hwf ins hne]
  · have hne2 : run t ins' ≠ [] := by
      intro h; have := aux_run_length t ins'; rw [h] at this; exact hne' (List.eq_nil_of_length_eq_zero this.symm)
    simp only [run]
    rw [aux_accStatic_getLast _ _ _ _ hne2, totalOrder_preserved_program t hk hwf ins' hne']
  · intro k
    rw [aux_kreduce, aux_kreduce, hkeys k]

/-! ### keyed streams whose values are `NoOrder` -/

/-- a keyed fold with a commutativity proof over a keyed stream with unordered values (e.g. after
    `merge_unordered`): whatever the tick partitions, and however the two runs order the elements
    (same multiset), the final maps have the same entries -/
theorem keyed_noOrder_fold_all_partitions_orders (init : Val) (f : Val → Val → Val) (t : Term)
    (hk : t.kind = some sN) (hwf : t.WF) (hc : ∀ a x y, f (f a x) y = f (f a y) x)
    (ins ins' : List TickIn) (hne : ins ≠ []) (hne' : ins' ≠ [])
    (hsame : (spec t (wholeInput ins)).Perm (spec t (wholeInput ins'))) :
    ∃ l l', (run (.kfoldN init f t) ins).getLast? = some l ∧
            (run (.kfoldN init f t) ins').getLast? = some l' ∧ l.Perm l' := by
  have h1 := program_eventually_deterministic (.kfoldN init f t) ksing (by simp [Term.kind, hk]) ⟨hwf, hc⟩ ins hne
  have h2 := program_eventually_deterministic (.kfoldN init f t) ksing (by simp [Term.kind, hk]) ⟨hwf, hc⟩ ins' hne'
  simp only [Agrees, spec] at h1 h2
  obtain ⟨l, hl, pl⟩ := h1
  obtain ⟨l', hl', pl'⟩ := h2
  exact ⟨l, l', hl, hl', pl.trans ((aux_kfold_perm init f hc _ _ hsame).trans pl'.symm)⟩

/-! ### keyed fold -/

/-- **keyed fold**: the value of key `k` is the fold of `k`'s own values in arrival order (absent if `k`
    never occurred) -/
theorem keyed_result_depends_only_on_key_subsequence_fold (init : Val) (f : Val → Val → Val) (k : Val) (l : List Val) :
    alookup (l.foldl (kfoldStep init f) []) k
      = match keyVals k l with
        | [] => none
        | v :: vs => some (vs.foldl f (f init v)) := by
  rw [aux_kfold]
  cases keyVals k l with
  | nil => simp [alookup]
  | cons v vs =>
    simp only [alookup, List.foldl_cons, Option.getD_none]
    generalize f init v = a
    induction vs generalizing a with
    | nil => rfl
    | cons w ws ih => simp [List.foldl_cons, ih]

example : alookup ([Val.pair (.int 1) (.int 5), .pair (.int 2) (.int 9), .pair (.int 1) (.int 7)].foldl
      (kfoldStep (.int 0) (fun a x => match a, x with | .int a, .int x => .int (a * 3 + x) | a, _ => a)) []) (.int 1)
    = some (.int 22) := by decide

/-- **all tick partitions and all cross-key interleavings**: two runs of a keyed fold over a totally
    ordered (or keyed) stream, with arbitrary tick partitions, whose inputs differ only by how different
    keys are interleaved, end with the same value for every key -/
theorem keyed_fold_all_partitions_interleavings (init : Val) (f : Val → Val → Val) (t : Term)
    (hk : t.kind = some sT ∨ t.kind = some sK) (hwf : t.WF)
    (ins ins' : List TickIn) (hne : ins ≠ []) (hne' : ins' ≠ [])
    (hkeys : ∀ k, keyVals k (spec t (wholeInput ins)) = keyVals k (spec t (wholeInput ins'))) :
    ∃ m m', (run (.kfold init f t) ins).getLast? = some (entries m) ∧
            (run (.kfold init f t) ins').getLast? = some (entries m') ∧
            ∀ k, alookup m k = alookup m' k := by
  refine ⟨(spec t (wholeInput ins)).foldl (kfoldStep init f) [],
          (spec t (wholeInput ins')).foldl (kfoldStep init f) [], ?_, ?_, ?_⟩
  · have hne2 : run t ins ≠ [] := by
      intro h; have := aux_run_length t ins; rw [h] at this; exact hne (List.eq_nil_of_length_eq_zero this.symm)
    simp only [run]
    rw [aux_accStatic_getLast _ _ _ _ hne2, totalOrder_preserved_program t hk hwf ins hne]
  · have hne2 : run t ins' ≠ [] := by
      intro h; have := aux_run_length t ins'; rw [h] at this; exact hne' (List.eq_nil_of_length_eq_zero this.symm)
    simp only [run]
    rw [aux_accStatic_getLast _ _ _ _ hne2, totalOrder_preserved_program t hk hwf ins' hne']
  · intro k
    rw [aux_kfold, aux_kfold, hkeys k]

/-- the same for keyed scan: per key, the emitted sequence (over all ticks) is the same -/
theorem keyed_scan_all_partitions_interleavings (init : Val) (f : Val → Val → Option (Val × Val)) (t : Term)
    (hk : t.kind = some sT ∨ t.kind = some sK) (hwf : t.WF)
    (ins ins' : List TickIn) (hne : ins ≠ []) (hne' : ins' ≠ [])
    (hkeys : ∀ k, keyVals k (spec t (wholeInput ins)) = keyVals k (spec t (wholeInput ins'))) (k : Val) :
    (run (.kscan init f t) ins).flatten.filter (fun y => decide (y.key = k))
      = (run (.kscan init f t) ins').flatten.filter (fun y => decide (y.key = k)) := by
  simp only [run]
  rw [aux_mealyStatic_flatten, aux_mealyStatic_flatten, totalOrder_preserved_program t hk hwf ins hne,
    totalOrder_preserved_program t hk hwf ins' hne']
  exact keyed_result_depends_only_on_key_subsequence_scan init f _ _ hkeys k

end HvHydro
