/-
C29 — ordered and keyed streams keep their promised order.

On the model of `Model/Hydro.lean` (the DFIR that `emit_core` produces, run tick by tick):
 * a stream typed `TotalOrder` (kinds `sT`, keyed `sK`) is emitted, over all ticks, in exactly the order
   its stream-level meaning defines — for every partition of the inputs into ticks
   (`totalOrder_preserved_op`, `totalOrder_preserved_program`);
 * keyed `scan` (= `generator` lowered to `scan` over a `HashMap` + `flat_map`) emits, for each key, exactly
   the scan of that key's own subsequence, in order (`keyed_per_key_order`);
 * the per-key results of keyed `fold` (`fold_keyed`) and keyed `scan` depend only on that key's
   subsequence: any other interleaving of *different* keys, under any tick partition, gives the same
   per-key results (`keyed_result_depends_only_on_key_subsequence_*`, `keyed_fold_all_partitions_interleavings`).
-/
import HvHydro.Props.C28

namespace HvHydro
open List Kind

/-- the values of key `k`, in stream order -/
def keyVals (k : Val) (l : List Val) : List Val := (l.filter (fun x => decide (x.key = k))).map Val.value

/-! ### total order -/

/-- every element-wise `'static` operator emits, across any batching, exactly the sequence it emits on
    the unbatched input: arrival order in = emission order out -/
theorem totalOrder_preserved_op {σ : Type} (step : σ → Val → σ × List Val) (s : σ) (batches : List Batch) :
    (mealyStatic step s batches).flatten = (mealyList step s batches.flatten).2 :=
  aux_mealyStatic_flatten step s batches

/-- a program typed `TotalOrder` (or keyed with per-key total order) emits the sequence its meaning
    defines, whatever the tick partition -/
theorem totalOrder_preserved_program (t : Term) (hk : t.kind = some sT ∨ t.kind = some sK) (hwf : t.WF)
    (ins : List TickIn) (hne : ins ≠ []) :
    (run t ins).flatten = spec t (wholeInput ins) := by
  rcases hk with hk | hk
  · simpa [Agrees] using program_eventually_deterministic t sT hk hwf ins hne
  · simpa [Agrees] using program_eventually_deterministic t sK hk hwf ins hne

example : (run (.enumerate (.chain (.const [.int 7]) (.input 0))) [[[.int 1], []], [[], []], [[.int 2, .int 3], []]]).flatten
    = [.pair (.int 0) (.int 7), .pair (.int 1) (.int 1), .pair (.int 2) (.int 2), .pair (.int 3) (.int 3)] := by decide

theorem aux_key_pair (a b : Val) : (Val.pair a b).key = a := rfl

/-! ### association-list facts -/

theorem aux_alookup_ainsert {α : Type} (m : List (Val × α)) (k k' : Val) (v : α) :
    alookup (ainsert m k v) k' = if k' = k then some v else alookup m k' := by
  induction m with
  | nil => simp [ainsert, alookup]
  | cons e r ih =>
    obtain ⟨k0, v0⟩ := e
    by_cases h : k = k0
    · subst h
      by_cases h2 : k' = k <;> simp [ainsert, alookup, h2]
    · by_cases h2 : k' = k0
      · subst h2
        have : ¬ k' = k := fun e => h e.symm
        simp [ainsert, alookup, h, this]
      · simp [ainsert, alookup, h, h2, ih]

/-! ### keyed scan -/

/-- the scan state of key `k` inside the `HashMap` state of the keyed scan -/
def kst (init : Val) (m : List (Val × Option Val)) (k : Val) : Option Val :=
  match alookup m k with
  | none => some init
  | some s => s

theorem aux_kscanStep_same (init : Val) (f : Val → Val → Option (Val × Val)) (m : List (Val × Option Val)) (x : Val) :
    kst init (kscanStep init f m x).1 x.key = (scanStep f (kst init m x.key) x.value).1 ∧
    (kscanStep init f m x).2 = (scanStep f (kst init m x.key) x.value).2.map (Val.pair x.key) := by
  unfold kscanStep scanStep kst
  cases h1 : alookup m x.key with
  | none =>
    cases h2 : f init x.value with
    | none => simp [h1, h2, aux_alookup_ainsert]
    | some r => obtain ⟨a', u⟩ := r; simp [h1, h2, aux_alookup_ainsert]
  | some s =>
    cases s with
    | none => simp [h1, aux_alookup_ainsert]
    | some a =>
      cases h2 : f a x.value with
      | none => simp [h1, h2, aux_alookup_ainsert]
      | some r => obtain ⟨a', u⟩ := r; simp [h1, h2, aux_alookup_ainsert]

theorem aux_kscanStep_other (init : Val) (f : Val → Val → Option (Val × Val)) (m : List (Val × Option Val)) (x k : Val)
    (h : x.key ≠ k) :
    kst init (kscanStep init f m x).1 k = kst init m k ∧
    (kscanStep init f m x).2.filter (fun y => decide (y.key = k)) = [] := by
  have hk : ¬ k = x.key := fun e => h e.symm
  unfold kscanStep kst
  cases h1 : alookup m x.key with
  | none =>
    cases h2 : f init x.value with
    | none => simp [h1, h2, aux_alookup_ainsert, hk]
    | some r => obtain ⟨a', u⟩ := r; simp [h1, h2, aux_alookup_ainsert, hk, aux_key_pair, h]
  | some s =>
    cases s with
    | none => simp [h1, aux_alookup_ainsert, hk]
    | some a =>
      cases h2 : f a x.value with
      | none => simp [h1, h2, aux_alookup_ainsert, hk]
      | some r => obtain ⟨a', u⟩ := r; simp [h1, h2, aux_alookup_ainsert, hk, aux_key_pair, h]

theorem aux_kscan (init : Val) (f : Val → Val → Option (Val × Val)) (k : Val) (l : List Val)
    (m : List (Val × Option Val)) :
    kst init (mealyList (kscanStep init f) m l).1 k = (mealyList (scanStep f) (kst init m k) (keyVals k l)).1 ∧
    (mealyList (kscanStep init f) m l).2.filter (fun y => decide (y.key = k))
      = (mealyList (scanStep f) (kst init m k) (keyVals k l)).2.map (Val.pair k) := by
  induction l generalizing m with
  | nil => simp [mealyList, keyVals]
  | cons x xs ih =>
    by_cases hx : x.key = k
    · have hs := aux_kscanStep_same init f m x
      have ih' := ih (kscanStep init f m x).1
      have hkv : keyVals k (x :: xs) = x.value :: keyVals k xs := by simp [keyVals, hx]
      subst hx
      rw [hkv]
      simp only [mealyList, List.filter_append, List.map_append]
      rw [hs.1] at ih'
      refine ⟨ih'.1, ?_⟩
      rw [ih'.2, hs.2]
      congr 1
      rw [List.filter_map]
      congr 1
      apply List.filter_eq_self.mpr
      intro y _
      simp [aux_key_pair]
    · have ho := aux_kscanStep_other init f m x k hx
      have ih' := ih (kscanStep init f m x).1
      have hkv : keyVals k (x :: xs) = keyVals k xs := by simp [keyVals, hx]
      rw [hkv]
      simp only [mealyList, List.filter_append]
      rw [ho.1] at ih'
      exact ⟨ih'.1, by rw [ho.2, ih'.2]; simp⟩

/-- **keyed scan keeps every key's order**: the elements emitted for key `k`, in emission order, are the
    plain `scan` of `k`'s own values in arrival order -/
theorem keyed_per_key_order (init : Val) (f : Val → Val → Option (Val × Val)) (k : Val) (l : List Val) :
    (mealyList (kscanStep init f) [] l).2.filter (fun y => decide (y.key = k))
      = (mealyList (scanStep f) (some init) (keyVals k l)).2.map (Val.pair k) := by
  simpa [kst, alookup] using (aux_kscan init f k l []).2

/-- keyed scan: another interleaving of different keys (same per-key subsequences) gives the same per-key output -/
theorem keyed_result_depends_only_on_key_subsequence_scan (init : Val) (f : Val → Val → Option (Val × Val))
    (l l' : List Val) (h : ∀ k, keyVals k l = keyVals k l') (k : Val) :
    (mealyList (kscanStep init f) [] l).2.filter (fun y => decide (y.key = k))
      = (mealyList (kscanStep init f) [] l').2.filter (fun y => decide (y.key = k)) := by
  rw [keyed_per_key_order, keyed_per_key_order, h k]

/-! ### keyed fold -/

theorem aux_kfold (init : Val) (f : Val → Val → Val) (k : Val) (l : List Val) (m : List (Val × Val)) :
    alookup (l.foldl (kfoldStep init f) m) k
      = (keyVals k l).foldl (fun o v => some (f (o.getD init) v)) (alookup m k) := by
  induction l generalizing m with
  | nil => simp [keyVals]
  | cons x xs ih =>
    rw [List.foldl_cons, ih]
    by_cases hx : x.key = k
    · have hkv : keyVals k (x :: xs) = x.value :: keyVals k xs := by simp [keyVals, hx]
      rw [hkv, List.foldl_cons]
      congr 1
      subst hx
      unfold kfoldStep
      cases h1 : alookup m x.key <;> simp [h1, aux_alookup_ainsert]
    · have hkv : keyVals k (x :: xs) = keyVals k xs := by simp [keyVals, hx]
      have hk : ¬ k = x.key := fun e => hx e.symm
      rw [hkv]
      congr 1
      unfold kfoldStep
      simp [aux_alookup_ainsert, hk]

/-- **keyed fold**: the value of key `k` is the fold of `k`'s own values in arrival order (absent if `k`
    never occurred) -/
theorem keyed_result_depends_only_on_key_subsequence_fold (init : Val) (f : Val → Val → Val) (k : Val) (l : List Val) :
    alookup (l.foldl (kfoldStep init f) []) k
      = match keyVals k l with
        | [] => none
        | v :: vs => some (vs.foldl f (f init v)) := by
  rw [aux_kfold]
  cases keyVals k l with
  | nil => simp [alookup]
  | cons v vs =>
    simp only [alookup, List.foldl_cons, Option.getD_none]
    generalize f init v = a
    induction vs generalizing a with
    | nil => rfl
    | cons w ws ih => simp [List.foldl_cons, ih]

example : alookup ([Val.pair (.int 1) (.int 5), .pair (.int 2) (.int 9), .pair (.int 1) (.int 7)].foldl
      (kfoldStep (.int 0) (fun a x => match a, x with | .int a, .int x => .int (a * 3 + x) | a, _ => a)) []) (.int 1)
    = some (.int 22) := by decide

/-- **all tick partitions and all cross-key interleavings**: two runs of a keyed fold over a totally
    ordered (or keyed) stream, with arbitrary tick partitions, whose inputs differ only by how different
    keys are interleaved, end with the same value for every key -/
theorem keyed_fold_all_partitions_interleavings (init : Val) (f : Val → Val → Val) (t : Term)
    (hk : t.kind = some sT ∨ t.kind = some sK) (hwf : t.WF)
    (ins ins' : List TickIn) (hne : ins ≠ []) (hne' : ins' ≠ [])
    (hkeys : ∀ k, keyVals k (spec t (wholeInput ins)) = keyVals k (spec t (wholeInput ins'))) :
    ∃ m m', (run (.kfold init f t) ins).getLast? = some (entries m) ∧
            (run (.kfold init f t) ins').getLast? = some (entries m') ∧
            ∀ k, alookup m k = alookup m' k := by
  refine ⟨(spec t (wholeInput ins)).foldl (kfoldStep init f) [],
          (spec t (wholeInput ins')).foldl (kfoldStep init f) [], ?_, ?_, ?_⟩
  · have hne2 : run t ins ≠ [] := by
      intro h; have := aux_run_length t ins; rw [h] at this; exact hne (List.eq_nil_of_length_eq_zero this.symm)
    simp only [run]
    rw [aux_accStatic_getLast _ _ _ _ hne2, totalOrder_preserved_program t hk hwf ins hne]
  · have hne2 : run t ins' ≠ [] := by
      intro h; have := aux_run_length t ins'; rw [h] at this; exact hne' (List.eq_nil_of_length_eq_zero this.symm)
    simp only [run]
    rw [aux_accStatic_getLast _ _ _ _ hne2, totalOrder_preserved_program t hk hwf ins' hne']
  · intro k
    rw [aux_kfold, aux_kfold, hkeys k]

/-- the same for keyed scan: per key, the emitted sequence (over all ticks) is the same -/
theorem keyed_scan_all_partitions_interleavings (init : Val) (f : Val → Val → Option (Val × Val)) (t : Term)
    (hk : t.kind = some sT ∨ t.kind = some sK) (hwf : t.WF)
    (ins ins' : List TickIn) (hne : ins ≠ []) (hne' : ins' ≠ [])
    (hkeys : ∀ k, keyVals k (spec t (wholeInput ins)) = keyVals k (spec t (wholeInput ins'))) (k : Val) :
    (run (.kscan init f t) ins).flatten.filter (fun y => decide (y.key = k))
      = (run (.kscan init f t) ins').flatten.filter (fun y => decide (y.key = k)) := by
  simp only [run]
  rw [aux_mealyStatic_flatten, aux_mealyStatic_flatten, totalOrder_preserved_program t hk hwf ins hne,
    totalOrder_preserved_program t hk hwf ins' hne']
  exact keyed_result_depends_only_on_key_subsequence_scan init f _ _ hkeys k

end HvHydro
