/-
C28 — safe top-level Hydro code is eventually deterministic.

For every program term of the modelled safe fragment (`Term`, kinded by `Term.kind`), and every way
the runtime splits the inputs into ticks (`ins : List TickIn`: any number ≥ 1 of ticks, any batch
sizes, empty batches allowed), what the DFIR graph chosen by `emit_core` has emitted after the last
tick agrees with the stream-level meaning `spec` on the whole inputs — as a sequence for totally
ordered and keyed streams, as a multiset for unordered ones, as the final value for singletons,
optionals and keyed singletons.  Hence any two partitions of the same inputs agree.

Helper lemmas live in `HvHydro/Lemmas/*.lean`.
-/
import HvHydro.Lemmas.Ops
import HvHydro.Lemmas.Join
import HvHydro.Lemmas.Keyed
import HvHydro.Gen.Lowering
import HvHydro.Model.ExpectedLowering

namespace HvHydro
open List Kind

/-! ### batch homomorphism of the operator families -/

/-- element-wise operators whose state has the `'static` lifetime (`enumerate`, `scan`, `unique`,
    keyed `scan`): for every partition into batches the concatenated outputs are the outputs on the
    concatenated input -/
theorem batch_homomorphism_op_elementwise {σ : Type} (step : σ → Val → σ × List Val) (s : σ)
    (batches : List Batch) :
    (mealyStatic step s batches).flatten = (mealyList step s batches.flatten).2 :=
  aux_mealyStatic_flatten step s batches

example : (mealyStatic enumStep 0 [[.int 7], [], [.int 8, .int 9]]).flatten
    = (mealyList enumStep 0 [.int 7, .int 8, .int 9]).2 := by decide

/-- accumulating operators with `'static` state (`fold`, `reduce`, `fold_keyed`): after the last tick
    the value shown is the fold over the concatenated input -/
theorem batch_homomorphism_op_accumulate {σ : Type} (f : σ → Val → σ) (emit : σ → Batch) (s : σ)
    (batches : List Batch) (h : batches ≠ []) :
    (accStatic f emit s batches).getLast? = some (emit (batches.flatten.foldl f s)) :=
  aux_accStatic_getLast f emit s batches h

/-- `join_multiset::<'static,'static>() -> multiset_delta()`: over all ticks exactly the multiset join
    of the whole inputs is emitted, however the two inputs are split (the replayed part is removed) -/
theorem batch_homomorphism_op_join (as bs : List Batch) (h : as.length = bs.length) :
    (joinDeltaRun [] [] as bs).flatten.Perm (joinL as.flatten bs.flatten) := by
  simpa [joinL] using aux_joinDelta_flatten [] [] as bs h

example : (joinDeltaRun [] [] [[.pair (.int 1) (.int 5)], []] [[], [.pair (.int 1) (.int 6)]]).flatten
    = [.pair (.int 1) (.pair (.int 5) (.int 6))] := by decide

/-- without the `multiset_delta` the replay would be visible: the same input emits the pair twice when
    the second tick has to replay the join (non-vacuity of the mechanism) -/
example : joinL [.pair (.int 1) (.int 5)] [.pair (.int 1) (.int 6)] ++
    joinL [.pair (.int 1) (.int 5)] [.pair (.int 1) (.int 6)] ≠ joinL [.pair (.int 1) (.int 5)] [.pair (.int 1) (.int 6)] := by decide

/-- `fold_no_replay::<'static>` on a bounded top-level input: one emission, in the first tick -/
theorem batch_homomorphism_op_fold_no_replay (f : Val → Val → Val) (init : Val) (s : List Val)
    (os : List Batch) (hos : os.flatten = []) :
    foldNoReplayRun f true init (s :: os) = [s.foldl f init] :: foldNoReplayRun f false (s.foldl f init) os
      ∧ (foldNoReplayRun f false (s.foldl f init) os).flatten = [] :=
  ⟨by simp [foldNoReplayRun], aux_foldNoReplay_rest f _ os hos⟩

/-! ### the induction over programs -/

/-- **Main theorem.** Every well-kinded program whose user-supplied algebraic claims hold agrees with
    its stream-level meaning after any partition of the inputs into ticks. -/
theorem program_eventually_deterministic (t : Term) (k : Kind) (hk : t.kind = some k) (hwf : t.WF)
    (ins : List TickIn) (hne : ins ≠ []) :
    Agrees k (run t ins) (spec t (wholeInput ins)) := by
  induction t generalizing k with
  | input i =>
    simp only [Term.kind, Option.some.injEq] at hk; subst hk
    simp [Agrees, run, spec, wholeInput]
  | const l =>
    simp only [Term.kind, Option.some.injEq] at hk; subst hk
    cases ins with
    | nil => exact absurd rfl hne
    | cons x r => exact ⟨r.map (fun _ => []), by simp [run, spec, firstTickOnly], by simp⟩
  | map f t ih =>
    simp only [Term.kind] at hk
    cases hkt : t.kind with
    | none => simp [hkt] at hk
    | some kt =>
      have iht := ih kt hkt hwf
      simp only [hkt] at hk
      cases kt <;> simp at hk <;> subst hk <;>
        exact aux_agrees_elementwise (List.map f) rfl (by simp) (fun _ _ h => h.map f) _ (by simp) _ _ iht
  | filter p t ih =>
    simp only [Term.kind] at hk
    cases hkt : t.kind with
    | none => simp [hkt] at hk
    | some kt =>
      have iht := ih kt hkt hwf
      simp only [hkt] at hk
      cases kt <;> simp at hk <;> subst hk <;>
        exact aux_agrees_elementwise (List.filter p) rfl (by simp) (fun _ _ h => h.filter p) _ (by simp) _ _ iht
  | flatMap g t ih =>
    simp only [Term.kind] at hk
    cases hkt : t.kind with
    | none => simp [hkt] at hk
    | some kt =>
      have iht := ih kt hkt hwf
      simp only [hkt] at hk
      cases kt <;> simp at hk <;> subst hk <;>
        exact aux_agrees_elementwise (fun b => b.flatMap g) rfl (by simp [List.flatMap_append])
          (fun _ _ h => List.Perm.flatMap_right g h) _ (by simp) _ _ iht
  | filterMap h t ih =>
    simp only [Term.kind] at hk
    cases hkt : t.kind with
    | none => simp [hkt] at hk
    | some kt =>
      have iht := ih kt hkt hwf
      simp only [hkt] at hk
      cases kt <;> simp at hk <;> subst hk <;>
        exact aux_agrees_elementwise (List.filterMap h) rfl (by simp) (fun _ _ hp => hp.filterMap h) _ (by simp) _ _ iht
  | enumerate t ih =>
    simp only [Term.kind] at hk
    cases hkt : t.kind with
    | none => simp [hkt] at hk
    | some kt =>
      have iht := ih kt hkt hwf
      simp only [hkt] at hk
      cases kt <;> simp at hk
      subst hk
      exact aux_agrees_mealy _ _ _ _ iht
  | scan init f t ih =>
    simp only [Term.kind] at hk
    cases hkt : t.kind with
    | none => simp [hkt] at hk
    | some kt =>
      have iht := ih kt hkt hwf
      simp only [hkt] at hk
      cases kt <;> simp at hk
      subst hk
      exact aux_agrees_mealy _ _ _ _ iht
  | unique t ih =>
    simp only [Term.kind] at hk
    cases hkt : t.kind with
    | none => simp [hkt] at hk
    | some kt =>
      have iht := ih kt hkt hwf
      simp only [hkt] at hk
      cases kt <;> simp at hk <;> subst hk
      · exact aux_agrees_mealy _ _ _ _ iht
      · simp only [Agrees, run, spec] at iht ⊢
        rw [aux_mealyStatic_flatten]
        exact aux_uniq_perm _ _ iht
  | kscan init f t ih =>
    simp only [Term.kind] at hk
    cases hkt : t.kind with
    | none => simp [hkt] at hk
    | some kt =>
      have iht := ih kt hkt hwf
      simp only [hkt] at hk
      cases kt <;> simp at hk <;> subst hk <;> exact aux_agrees_mealy _ _ _ _ iht
  | union a b iha ihb =>
    simp only [Term.kind] at hk
    cases hka : a.kind with
    | none => simp [hka] at hk
    | some ka =>
      cases hkb : b.kind with
      | none => simp [hka, hkb] at hk
      | some kb =>
        have ia := iha ka hka hwf.1
        have ib := ihb kb hkb hwf.2
        simp only [hka, hkb] at hk
        split at hk
        · rename_i hc
          simp only [Option.some.injEq] at hk; subst hk
          have hlen : (run a ins).length = (run b ins).length := by simp [aux_run_length]
          have pa : (run a ins).flatten.Perm (spec a (wholeInput ins)) := by
            rcases hc.1 with rfl | rfl | rfl <;> simp only [Agrees] at ia
            · exact ia ▸ List.Perm.refl _
            · exact ia ▸ List.Perm.refl _
            · exact ia
          have pb : (run b ins).flatten.Perm (spec b (wholeInput ins)) := by
            rcases hc.2 with rfl | rfl | rfl <;> simp only [Agrees] at ib
            · exact ib ▸ List.Perm.refl _
            · exact ib ▸ List.Perm.refl _
            · exact ib
          exact aux_agrees_union _ _ _ _ hlen pa pb
        · simp at hk
  | chain a b iha ihb =>
    simp only [Term.kind] at hk
    cases hka : a.kind with
    | none => simp [hka] at hk
    | some ka =>
      cases hkb : b.kind with
      | none => cases ka <;> simp [hka, hkb] at hk
      | some kb =>
        have ia := iha ka hka hwf.1
        have ib := ihb kb hkb hwf.2
        simp only [hka, hkb] at hk
        have hlen : (run a ins).length = (run b ins).length := by simp [aux_run_length]
        cases ka <;> cases kb <;> simp at hk <;> subst hk <;> simp only [Agrees] at ia ib ⊢ <;>
          obtain ⟨os, hos, hfl⟩ := ia <;> simp only [run, spec] <;> rw [hos] at hlen ⊢
        · rw [aux_chain_flatten _ _ _ hlen hfl, ib]
        · rw [aux_chain_flatten _ _ _ hlen hfl]; exact ib.append_left _
        · obtain ⟨os', hos', hfl'⟩ := ib
          rw [hos'] at hlen ⊢
          refine ⟨List.zipWith (· ++ ·) os os', by simp, ?_⟩
          rw [aux_zipWith_nil_left os os' (by simpa using hlen) hfl, hfl']
  | join a b iha ihb =>
    simp only [Term.kind] at hk
    cases hka : a.kind with
    | none => simp [hka] at hk
    | some ka =>
      cases hkb : b.kind with
      | none => simp [hka, hkb] at hk
      | some kb =>
        have ia := iha ka hka hwf.1
        have ib := ihb kb hkb hwf.2
        simp only [hka, hkb] at hk
        split at hk
        · rename_i hc
          simp only [Option.some.injEq] at hk; subst hk
          have hlen : (run a ins).length = (run b ins).length := by simp [aux_run_length]
          have pa : (run a ins).flatten.Perm (spec a (wholeInput ins)) := by
            rcases hc.1 with rfl | rfl | rfl <;> simp only [Agrees] at ia
            · exact ia ▸ List.Perm.refl _
            · exact ia ▸ List.Perm.refl _
            · exact ia
          have pb : (run b ins).flatten.Perm (spec b (wholeInput ins)) := by
            rcases hc.2 with rfl | rfl | rfl <;> simp only [Agrees] at ib
            · exact ib ▸ List.Perm.refl _
            · exact ib ▸ List.Perm.refl _
            · exact ib
          simp only [Agrees, run, spec]
          exact (batch_homomorphism_op_join _ _ hlen).trans (aux_joinL_perm _ _ _ _ pa pb)
        · simp at hk
  | fold comm init f t ih =>
    simp only [Term.kind] at hk
    have hne' : run t ins ≠ [] := by
      intro h; have := aux_run_length t ins; rw [h] at this; exact hne (List.eq_nil_of_length_eq_zero this.symm)
    cases hkt : t.kind with
    | none => simp [hkt] at hk
    | some kt =>
      have iht := ih kt hkt hwf.1
      simp only [hkt] at hk
      cases kt <;> simp at hk
      · subst hk
        simp only [Agrees, run, spec] at iht ⊢
        rw [aux_accStatic_getLast _ _ _ _ hne', iht]
      · obtain ⟨hc, rfl⟩ := hk
        simp only [Agrees, run, spec] at iht ⊢
        rw [aux_accStatic_getLast _ _ _ _ hne']
        have hcomm := hwf.2 hc
        have : List.foldl f init (run t ins).flatten = List.foldl f init (spec t (wholeInput ins)) :=
          List.Perm.foldl_eq' iht (fun x _ y _ z => hcomm z x y) init
        rw [this]
  | reduce f t ih =>
    simp only [Term.kind] at hk
    have hne' : run t ins ≠ [] := by
      intro h; have := aux_run_length t ins; rw [h] at this; exact hne (List.eq_nil_of_length_eq_zero this.symm)
    cases hkt : t.kind with
    | none => simp [hkt] at hk
    | some kt =>
      have iht := ih kt hkt hwf
      simp only [hkt] at hk
      cases kt <;> simp at hk
      subst hk
      simp only [Agrees, run, spec] at iht ⊢
      rw [aux_accStatic_getLast _ _ _ _ hne', iht]
  | kfold init f t ih =>
    simp only [Term.kind] at hk
    have hne' : run t ins ≠ [] := by
      intro h; have := aux_run_length t ins; rw [h] at this; exact hne (List.eq_nil_of_length_eq_zero this.symm)
    cases hkt : t.kind with
    | none => simp [hkt] at hk
    | some kt =>
      have iht := ih kt hkt hwf
      simp only [hkt] at hk
      cases kt <;> simp at hk <;> subst hk <;> simp only [Agrees, run, spec] at iht ⊢ <;>
        exact ⟨_, by rw [aux_accStatic_getLast _ _ _ _ hne', iht], List.Perm.refl _⟩
  | foldB init f t ih =>
    simp only [Term.kind] at hk
    cases hkt : t.kind with
    | none => simp [hkt] at hk
    | some kt =>
      have iht := ih kt hkt hwf
      simp only [hkt] at hk
      cases kt <;> simp at hk
      subst hk
      simp only [Agrees, run, spec] at iht ⊢
      obtain ⟨os, hos, hfl⟩ := iht
      rw [hos]
      exact ⟨_, (batch_homomorphism_op_fold_no_replay f init _ os hfl).1,
        (batch_homomorphism_op_fold_no_replay f init _ os hfl).2⟩
  | crossSingleton t s iht ihs =>
    simp only [Term.kind] at hk
    cases hkt : t.kind with
    | none => simp [hkt] at hk
    | some kt =>
      cases hks : s.kind with
      | none => cases kt <;> simp [hkt, hks] at hk
      | some ks =>
        have it := iht kt hkt hwf.1
        have is := ihs ks hks hwf.2
        simp only [hkt, hks] at hk
        have hlen : (run t ins).length = (run s ins).length := by simp [aux_run_length]
        cases kt <;> cases ks <;> simp at hk <;> subst hk <;> simp only [Agrees] at it is ⊢ <;>
          obtain ⟨os, hos, hfl⟩ := is <;> simp only [run, spec] <;> rw [hos] at hlen ⊢ <;>
          rw [aux_crossSingleton_flatten _ _ _ hlen hfl]
        · rw [it]; cases (spec s (wholeInput ins)).head? <;> rfl
        · cases (spec s (wholeInput ins)).head? with
          | none => exact List.Perm.refl _
          | some v => exact it.map _
  | reduceB f t ih =>
    simp only [Term.kind] at hk
    cases hkt : t.kind with
    | none => simp [hkt] at hk
    | some kt =>
      have iht := ih kt hkt hwf
      simp only [hkt] at hk
      cases kt <;> simp at hk
      subst hk
      simp only [Agrees, run, spec] at iht ⊢
      obtain ⟨os, hos, hfl⟩ := iht
      rw [hos]
      exact ⟨reduceNoReplayRun f false (List.foldl (reduceStep f) none (spec t (wholeInput ins))) os,
        by simp [reduceNoReplayRun], aux_reduceNoReplay_rest f _ os hfl⟩
  | joinHalfS t b iht ihb =>
    simp only [Term.kind] at hk
    cases hkt : t.kind with
    | none => simp [hkt] at hk
    | some kt =>
      cases hkb : b.kind with
      | none => cases kt <;> simp [hkt, hkb] at hk
      | some kb =>
        have it := iht kt hkt hwf.1
        have ib := ihb kb hkb hwf.2
        simp only [hkt, hkb] at hk
        have hlen : (run t ins).length = (run b ins).length := by simp [aux_run_length]
        cases kt <;> cases kb <;> simp at hk <;> subst hk <;> simp only [Agrees] at it ib ⊢ <;>
          obtain ⟨os, hos, hfl⟩ := ib <;> simp only [run, spec] <;> rw [hos] at hlen ⊢ <;>
          rw [aux_staticSide_flatten gJoinHalf (by simp [gJoinHalf, joinL]) aux_gJoinHalf_app _ _ _ hlen hfl]
        · rw [it]
        · exact aux_gJoinHalf_perm _ _ _ it
  | antiJoinS t b iht ihb =>
    simp only [Term.kind] at hk
    cases hkt : t.kind with
    | none => simp [hkt] at hk
    | some kt =>
      cases hkb : b.kind with
      | none => cases kt <;> simp [hkt, hkb] at hk
      | some kb =>
        have it := iht kt hkt hwf.1
        have ib := ihb kb hkb hwf.2
        simp only [hkt, hkb] at hk
        have hlen : (run t ins).length = (run b ins).length := by simp [aux_run_length]
        cases kt <;> cases kb <;> simp at hk <;> subst hk <;> simp only [Agrees] at it ib ⊢ <;>
          obtain ⟨os, hos, hfl⟩ := ib <;> simp only [run, spec] <;> rw [hos] at hlen ⊢ <;>
          rw [aux_staticSide_flatten gAntiJoin (by simp [gAntiJoin]) (by simp [gAntiJoin]) _ _ _ hlen hfl]
        · rw [it]
        · exact it.filter _
  | differenceS t b iht ihb =>
    simp only [Term.kind] at hk
    cases hkt : t.kind with
    | none => simp [hkt] at hk
    | some kt =>
      cases hkb : b.kind with
      | none => cases kt <;> simp [hkt, hkb] at hk
      | some kb =>
        have it := iht kt hkt hwf.1
        have ib := ihb kb hkb hwf.2
        simp only [hkt, hkb] at hk
        have hlen : (run t ins).length = (run b ins).length := by simp [aux_run_length]
        cases kt <;> cases kb <;> simp at hk <;> subst hk <;> simp only [Agrees] at it ib ⊢ <;>
          obtain ⟨os, hos, hfl⟩ := ib <;> simp only [run, spec] <;> rw [hos] at hlen ⊢ <;>
          rw [aux_staticSide_flatten gDifference (by simp [gDifference]) (by simp [gDifference]) _ _ _ hlen hfl]
        · rw [it]
        · exact it.filter _
  | joinLB a b iha ihb =>
    simp only [Term.kind] at hk
    cases hka : a.kind with
    | none => simp [hka] at hk
    | some ka =>
      cases hkb : b.kind with
      | none => cases ka <;> simp [hka, hkb] at hk
      | some kb =>
        have ia := iha ka hka hwf.1
        have ib := ihb kb hkb hwf.2
        simp only [hka, hkb] at hk
        cases ka <;> simp at hk
        obtain ⟨hc, rfl⟩ := hk
        have hlen : (run a ins).length = (run b ins).length := by simp [aux_run_length]
        have pa : (run a ins).flatten.Perm (spec a (wholeInput ins)) := by
          simp only [Agrees] at ia
          obtain ⟨os, hos, hfl⟩ := ia
          rw [hos]; simp [hfl]
        have pb : (run b ins).flatten.Perm (spec b (wholeInput ins)) := by
          rcases hc with rfl | rfl | rfl <;> simp only [Agrees] at ib
          · exact ib ▸ List.Perm.refl _
          · exact ib ▸ List.Perm.refl _
          · exact ib
        simp only [Agrees, run, spec]
        exact (batch_homomorphism_op_join _ _ hlen).trans (aux_joinL_perm _ _ _ _ pa pb)
  | kgen init g t ih =>
    simp only [Term.kind] at hk
    cases hkt : t.kind with
    | none => simp [hkt] at hk
    | some kt =>
      have iht := ih kt hkt hwf
      simp only [hkt] at hk
      cases kt <;> simp at hk <;> subst hk <;> exact aux_agrees_mealy _ _ _ _ iht
  | entries t ih =>
    simp only [Term.kind] at hk
    cases hkt : t.kind with
    | none => simp [hkt] at hk
    | some kt =>
      have iht := ih kt hkt hwf
      simp only [hkt] at hk
      cases kt <;> simp at hk
      subst hk
      simp only [Agrees, run, spec] at iht ⊢
      rw [iht]
  | kreduce f t ih =>
    simp only [Term.kind] at hk
    have hne' : run t ins ≠ [] := by
      intro h; have := aux_run_length t ins; rw [h] at this; exact hne (List.eq_nil_of_length_eq_zero this.symm)
    cases hkt : t.kind with
    | none => simp [hkt] at hk
    | some kt =>
      have iht := ih kt hkt hwf
      simp only [hkt] at hk
      cases kt <;> simp at hk <;> subst hk <;> simp only [Agrees, run, spec] at iht ⊢ <;>
        exact ⟨_, by rw [aux_accStatic_getLast _ _ _ _ hne', iht], List.Perm.refl _⟩
  | kfoldN init f t ih =>
    simp only [Term.kind] at hk
    have hne' : run t ins ≠ [] := by
      intro h; have := aux_run_length t ins; rw [h] at this; exact hne (List.eq_nil_of_length_eq_zero this.symm)
    cases hkt : t.kind with
    | none => simp [hkt] at hk
    | some kt =>
      have iht := ih kt hkt hwf.1
      simp only [hkt] at hk
      cases kt <;> simp at hk
      subst hk
      simp only [Agrees, run, spec] at iht ⊢
      exact ⟨_, aux_accStatic_getLast _ _ _ _ hne', aux_kfold_perm init f hwf.2 _ _ iht⟩
  | kreduceN f t ih =>
    simp only [Term.kind] at hk
    have hne' : run t ins ≠ [] := by
      intro h; have := aux_run_length t ins; rw [h] at this; exact hne (List.eq_nil_of_length_eq_zero this.symm)
    cases hkt : t.kind with
    | none => simp [hkt] at hk
    | some kt =>
      have iht := ih kt hkt hwf.1
      simp only [hkt] at hk
      cases kt <;> simp at hk
      subst hk
      simp only [Agrees, run, spec] at iht ⊢
      exact ⟨_, aux_accStatic_getLast _ _ _ _ hne', aux_kreduce_perm f hwf.2.1 hwf.2.2 _ _ iht⟩
  | smap f t ih =>
    simp only [Term.kind] at hk
    cases hkt : t.kind with
    | none => simp [hkt] at hk
    | some kt =>
      have iht := ih kt hkt hwf
      simp only [hkt] at hk
      cases kt <;> simp at hk <;> subst hk
      · exact aux_agrees_last_map (List.map f) _ _ iht
      · exact aux_agrees_last_map (List.map f) _ _ iht
      · exact aux_agrees_elementwise (List.map f) rfl (by simp) (fun _ _ h => h.map f) _ (by simp) _ _ iht
  | sfilter p t ih =>
    simp only [Term.kind] at hk
    cases hkt : t.kind with
    | none => simp [hkt] at hk
    | some kt =>
      have iht := ih kt hkt hwf
      simp only [hkt] at hk
      cases kt <;> simp at hk <;> subst hk
      · exact aux_agrees_last_map (List.filter p) _ _ iht
      · exact aux_agrees_last_map (List.filter p) _ _ iht

/-! ### the stream-level meaning is the expected list function -/

/-- `enumerate` numbers the whole stream 0, 1, 2, … -/
theorem spec_enumerate_eq_zipIdx (t : Term) (I : Nat → List Val) :
    spec (.enumerate t) I = ((spec t I).zipIdx 0).map (fun p => Val.pair (.int p.2) p.1) := by
  simp [spec, aux_enum]

/-- `unique` keeps the first occurrence of every element, in order -/
theorem spec_unique_dedup (t : Term) (I : Nat → List Val) :
    (spec (.unique t) I).Nodup ∧ (∀ y, y ∈ spec (.unique t) I ↔ y ∈ spec t I) ∧
    (spec (.unique t) I).Sublist (spec t I) := by
  simp only [spec]
  exact ⟨aux_uniq_nodup _ _, fun y => by simp [aux_uniq_mem], aux_uniq_sublist _ _⟩

/-- `reduce` is the left fold seeded with the first element -/
theorem spec_reduce (f : Val → Val → Val) (t : Term) (I : Nat → List Val) :
    spec (.reduce f t) I = match spec t I with | [] => [] | x :: xs => [xs.foldl f x] := by
  simp only [spec, aux_reduce]
  cases spec t I <;> rfl

/-! ### consequences -/

/-- what an observer reads off the emitted batches once all inputs are processed -/
def finalView (k : Kind) (outs : List Batch) : List Val :=
  match k with
  | .sing | .opt | .ksing => outs.getLast?.getD []
  | _ => outs.flatten

/-- equality of final views up to what the kind promises (sequence / multiset / value) -/
def SameFinal (k : Kind) (a b : List Val) : Prop :=
  match k with
  | .sN | .ksing => a.Perm b
  | _ => a = b

theorem aux_finalView_of_agrees (k : Kind) (outs : List Batch) (s : List Val) (h : Agrees k outs s) :
    SameFinal k (finalView k outs) s := by
  cases k <;> simp only [Agrees] at h <;> simp only [finalView, SameFinal]
  · exact h
  · exact h
  · exact h
  · obtain ⟨os, rfl, hos⟩ := h; simp [hos]
  · simp [h]
  · simp [h]
  · obtain ⟨l, hl, hp⟩ := h; simpa [hl] using hp
  · obtain ⟨os, rfl, hos⟩ := h; simp [hos]

/-- **C28.** Two runs of the same safe program on the same inputs, split into ticks in two arbitrary
    ways (different numbers of ticks, different batch boundaries per input port, empty ticks), end with
    the same final contents. -/
theorem partition_independent (t : Term) (k : Kind) (hk : t.kind = some k) (hwf : t.WF)
    (ins ins' : List TickIn) (hne : ins ≠ []) (hne' : ins' ≠ [])
    (hsame : ∀ i, wholeInput ins i = wholeInput ins' i) :
    SameFinal k (finalView k (run t ins)) (finalView k (run t ins')) := by
  have h1 := aux_finalView_of_agrees k _ _ (program_eventually_deterministic t k hk hwf ins hne)
  have h2 := aux_finalView_of_agrees k _ _ (program_eventually_deterministic t k hk hwf ins' hne')
  have hI : wholeInput ins = wholeInput ins' := funext hsame
  rw [hI] at h1
  cases k <;> simp only [SameFinal] at h1 h2 ⊢
  all_goals exact h1.trans h2.symm

example : finalView .sing (run (.fold true (.int 0) (fun a x => match a, x with | .int a, .int x => .int (a + x) | a, _ => a)
      (.union (.input 0) (.input 1))) [[[.int 1, .int 2], [.int 5]], [[], []], [[.int 3], []]])
    = finalView .sing (run (.fold true (.int 0) (fun a x => match a, x with | .int a, .int x => .int (a + x) | a, _ => a)
      (.union (.input 0) (.input 1))) [[[.int 1], []], [[.int 2, .int 3], [.int 5]]]) := by decide

/-- **closure under composition**: an element-wise stage after a deterministic part is deterministic
    (the sequential-composition step of the induction, for any stateless element-wise function) -/
theorem compose_deterministic_seq (g : List Val → List Val) (hnil : g [] = [])
    (happ : ∀ a b, g (a ++ b) = g a ++ g b) (hperm : ∀ a b, a.Perm b → (g a).Perm (g b))
    (k : Kind) (hk : k = .sT ∨ k = .sK ∨ k = .sN ∨ k = .bT ∨ k = .bsing) (outs : List Batch) (s : List Val)
    (h : Agrees k outs s) : Agrees k (outs.map g) (g s) :=
  aux_agrees_elementwise g hnil happ hperm k hk outs s h

/-- **closure under union** of two deterministic parts (any stream kinds) -/
theorem compose_deterministic_union (a b : Term) (ka kb : Kind) (hka : a.kind = some ka) (hkb : b.kind = some kb)
    (hsa : ka = .sT ∨ ka = .sK ∨ ka = .sN) (hsb : kb = .sT ∨ kb = .sK ∨ kb = .sN) (hwa : a.WF) (hwb : b.WF)
    (ins : List TickIn) (hne : ins ≠ []) :
    Agrees .sN (run (.union a b) ins) (spec (.union a b) (wholeInput ins)) :=
  program_eventually_deterministic (.union a b) .sN (by simp [Term.kind, hka, hkb, hsa, hsb]) ⟨hwa, hwb⟩ ins hne

/-- non-vacuity of the hypotheses of `program_eventually_deterministic` on the operators added in review:
    keyed limit -> keyed reduce, and keyed first observed through `entries` are well-kinded and well-formed -/
example :
    let kv3 : Val → Val := fun v => match v with | .int i => .pair (.int (i % 3)) (.int i) | v => v
    (Term.kreduce (fun a _ => a) (.kgen (.int 0) (limitGen 2) (.map kv3 (.input 0)))).kind = some .ksing ∧
    (Term.kreduce (fun a _ => a) (.kgen (.int 0) (limitGen 2) (.map kv3 (.input 0)))).WF ∧
    (Term.entries (.kgen (.int 0) firstGen (.map kv3 (.input 0)))).kind = some .sN ∧
    (Term.joinLB (.map kv3 (.const [.int 1])) (.map kv3 (.input 0))).kind = some .sN ∧
    (Term.foldB (.int 0) (fun a _ => a) (.joinLB (.map kv3 (.const [.int 1])) (.map kv3 (.input 0)))).kind = none := by
  refine ⟨rfl, ?_, rfl, rfl, rfl⟩
  simp [Term.WF]

/-- a keyed fold over a keyed stream with NoOrder values is well-kinded, and its well-formedness is exactly
    the commutativity obligation of the safe API (here: addition) -/
example :
    let add : Val → Val → Val := fun a x => match a, x with | .int a, .int x => .int (a + x) | a, _ => a
    (Term.kfoldN (.int 0) add (.union (.input 0) (.input 1))).kind = some .ksing := rfl

/-! ### finding F282: `Stream::join` types a bounded ⋈ unbounded join as Bounded -/

/-- the witness program: `source_iter([0,1,2]).map(kv3).join(in0.map(kv3))` counted with `fold` — typed
    `Singleton<_, Bounded>` by the API, hence lowered to `fold_no_replay` and read with `into_stream()` -/
def f282Witness : Term :=
  let kv3 : Val → Val := fun v => match v with | .int i => .pair (.int (i % 3)) (.int i) | v => v
  .foldB (.int 0) (fun a _ => match a with | .int a => .int (a + 1) | a => a)
    (.joinLB (.map kv3 (.const [.int 0, .int 1, .int 2])) (.map kv3 (.input 0)))

/-- what the API's `Bounded` claim for `bounded.join(unbounded)` would need: the stream read off the
    "bounded" singleton (`into_stream()`) does not depend on the tick partition -/
def JoinBoundedLeftTypedBoundedStatement : Prop :=
  ∀ ins ins' : List TickIn, ins ≠ [] → ins' ≠ [] → (∀ i, wholeInput ins i = wholeInput ins' i) →
    finalView .bsing (run f282Witness ins) = finalView .bsing (run f282Witness ins')

/-- **F282 (known finding).** The claim is false on the code that exists: with `in0 = [2, 0]` in one tick
    the count `2` is emitted once, split into two ticks `1` and then `2` are emitted.  (As the unbounded
    unordered stream it really is — kind `sN` — the join itself is deterministic: case `joinLB` of
    `program_eventually_deterministic`.) -/
theorem joinBoundedLeft_typedBounded_refuted : ¬ JoinBoundedLeftTypedBoundedStatement := by
  intro h
  have := h [[[.int 2, .int 0]]] [[[.int 2]], [[.int 0]]] (by simp) (by simp)
    (by intro i; cases i <;> simp [wholeInput, inBatch])
  revert this
  decide

/-- (T) the lowering table extracted from the current `compile/ir/mod.rs` is the one the model was
    transcribed from -/
theorem lowering_table_matches :
    Gen.lowering = Expected.lowering ∧ Gen.prodBuilder = Expected.prodBuilder ∧
    Gen.tickStateLifetime = Expected.tickStateLifetime ∧
    Gen.crossTickStateLifetime = Expected.crossTickStateLifetime :=
  ⟨rfl, rfl, rfl, rfl⟩

end HvHydro
