/-
C30 — tick-scoped collections behave like finite batches.

`evalAt next fuel tt hist` (Model/Tick.lean) is the content of the tick-scoped collection `tt` in the
last tick of the history `hist`, computed the way the lowered DFIR does (`'tick` state, re-initialised
at the end of each tick; `defer_tick_lazy` for `defer_tick` and tick cycles).  The theorems say:
 * every bounded operator is the corresponding `List` function of the tick's batch
   (`tick_op_eq_list_op_*`), for all batches and all closures;
 * a collection that does not use `defer_tick` / a cycle depends on the current tick only
   (`tick_state_no_leak`), whatever happened in earlier ticks;
 * `defer_tick` and a tick cycle deliver exactly the previous tick's content, and nothing in the
   first tick (`deferTick_one_tick_later`, `tickCycle_one_tick_later`).
-/
import HvHydro.Model.Tick
import HvHydro.Lemmas.Ops
import HvHydro.Lemmas.Order
import HvHydro.Gen.Lowering
import HvHydro.Model.ExpectedLowering

namespace HvHydro
open List

/-! ### operators = list functions of the batch -/

theorem aux_limit (n c : Nat) (l : List Val) :
    (mealyList (limitStep n) c l).2 = l.take (n - c) := by
  induction l generalizing c with
  | nil => simp [mealyList]
  | cons x xs ih =>
    by_cases h : c < n
    · have : n - c = (n - (c + 1)) + 1 := by omega
      simp [mealyList, limitStep, h, ih, this]
    · have : n - c = 0 := by omega
      simp [mealyList, limitStep, h, ih, this]

/-- the closure of `count()`: `|count, _| *count += 1` -/
def cntF : Val → Val → Val := fun a _ => match a with | .int a => .int (a + 1) | a => a

theorem aux_cnt (l : List Val) (n : Int) : l.foldl cntF (.int n) = .int (n + l.length) := by
  induction l generalizing n with
  | nil => simp
  | cons x xs ih =>
    rw [List.foldl_cons]
    have h1 : cntF (.int n) x = .int (n + 1) := rfl
    rw [h1, ih (n + 1)]
    simp only [List.length_cons]
    congr 1
    push_cast
    omega

theorem aux_last (xs : List Val) (a : Val) : some (xs.foldl (fun _ x => x) a) = (a :: xs).getLast? := by
  induction xs generalizing a with
  | nil => simp
  | cons y ys ih => rw [List.foldl_cons, List.getLast?_cons_cons]; exact ih y

theorem aux_filterMap_ite (p : Val → Bool) (f : Val → Val) (l : List Val) :
    l.filterMap (fun y => if p y then some (f y) else none) = (l.filter p).map f := by
  induction l with
  | nil => rfl
  | cons y ys ih => by_cases h : p y <;> simp [h, ih]

section ops
variable (next : TTerm) (fuel : Nat) (t s : TTerm) (hist : List TickIn)

/-- `fold` inside a tick is `List.foldl` over the tick's batch (and restarts from `init` every tick) -/
theorem tick_op_eq_list_op_fold (init : Val) (f : Val → Val → Val) :
    evalAt next fuel (.fold init f t) hist = [(evalAt next fuel t hist).foldl f init] := by
  simp [evalAt]

/-- `count()` = `fold(0, +1)` is the length of the batch -/
theorem tick_op_eq_list_op_count :
    evalAt next fuel (.fold (.int 0) cntF t) hist = [.int (evalAt next fuel t hist).length] := by
  simp only [evalAt]
  have := aux_cnt (evalAt next fuel t hist) 0
  simp only [Int.zero_add] at this
  rw [this]

/-- `reduce` is the left fold seeded with the first element; empty on an empty batch -/
theorem tick_op_eq_list_op_reduce (f : Val → Val → Val) :
    evalAt next fuel (.reduce f t) hist =
      match evalAt next fuel t hist with
      | [] => []
      | x :: xs => [xs.foldl f x] := by
  simp only [evalAt, aux_reduce]
  cases evalAt next fuel t hist <;> rfl

/-- `first()` (generator that returns on the first item, then `reduce(|_, _| {})`) is `head?` -/
theorem tick_op_eq_list_op_first :
    evalAt next fuel (.reduce (fun a _ => a) (.limit 1 t)) hist = (evalAt next fuel t hist).head?.toList := by
  simp only [evalAt, aux_limit, aux_reduce]
  cases evalAt next fuel t hist <;> simp

/-- `last()` = `reduce(|curr, new| *curr = new)` is `getLast?` -/
theorem tick_op_eq_list_op_last :
    evalAt next fuel (.reduce (fun _ x => x) t) hist = (evalAt next fuel t hist).getLast?.toList := by
  simp only [evalAt, aux_reduce]
  cases h : evalAt next fuel t hist with
  | nil => rfl
  | cons x xs =>
    simp only [← aux_last xs x, Option.toList]

/-- `limit(n)` is `List.take n` -/
theorem tick_op_eq_list_op_limit (n : Nat) :
    evalAt next fuel (.limit n t) hist = (evalAt next fuel t hist).take n := by
  simp [evalAt, aux_limit]

/-- `enumerate()` numbers the tick's batch from 0 (the counter restarts every tick) -/
theorem tick_op_eq_list_op_enumerate :
    evalAt next fuel (.enumerate t) hist
      = ((evalAt next fuel t hist).zipIdx 0).map (fun p => Val.pair (.int p.2) p.1) := by
  simp [evalAt, aux_enum]

/-- `sort()` returns the batch sorted: a permutation of it that is pairwise ordered by the element order
    (`Ord` of `i64` / tuples, a total order) -/
theorem tick_op_eq_list_op_sort :
    (evalAt next fuel (.sort t) hist).Perm (evalAt next fuel t hist) ∧
    (evalAt next fuel (.sort t) hist).Pairwise (fun a b => Val.le a b = true) := by
  simp only [evalAt]
  exact ⟨List.mergeSort_perm _ _, aux_sort_sorted _⟩

/-- `unique()`: duplicate-free, same elements, first occurrences kept in order -/
theorem tick_op_eq_list_op_unique :
    (evalAt next fuel (.unique t) hist).Nodup ∧
    (∀ y, y ∈ evalAt next fuel (.unique t) hist ↔ y ∈ evalAt next fuel t hist) ∧
    (evalAt next fuel (.unique t) hist).Sublist (evalAt next fuel t hist) := by
  simp only [evalAt]
  exact ⟨aux_uniq_nodup _ _, fun y => by simp [aux_uniq_mem], aux_uniq_sublist _ _⟩

/-- `cross_singleton`: every item paired with the singleton's value; nothing if the optional is empty -/
theorem tick_op_eq_list_op_cross_singleton :
    (∀ v, (evalAt next fuel s hist).head? = some v →
      evalAt next fuel (.crossSingleton t s) hist = (evalAt next fuel t hist).map (fun x => Val.pair x v)) ∧
    ((evalAt next fuel s hist).head? = none → evalAt next fuel (.crossSingleton t s) hist = []) := by
  constructor
  · intro v hv; simp only [evalAt, hv]
  · intro hv; simp only [evalAt, hv]

/-- `join` with a bounded (build) side keeps the other (probe) side's order: the output is the probe
    batch, each item replaced by its matches in build order -/
theorem tick_op_eq_list_op_join (b : TTerm) :
    evalAt next fuel (.joinHalf t b) hist =
      (evalAt next fuel t hist).flatMap (fun x =>
        ((evalAt next fuel b hist).filter (fun y => decide (x.key = y.key))).map
          (fun y => Val.pair x.key (Val.pair x.value y.value))) := by
  simp only [evalAt, joinL]
  congr 1
  funext x
  have := aux_filterMap_ite (fun y => decide (x.key = y.key))
    (fun y => Val.pair x.key (Val.pair x.value y.value)) (evalAt next fuel b hist)
  simpa using this

/-- `anti_join` with a bounded side: the other side's batch, in order, minus the items whose key occurs -/
theorem tick_op_eq_list_op_anti_join (n : TTerm) :
    evalAt next fuel (.antiJoin t n) hist =
      (evalAt next fuel t hist).filter (fun x => !mem (evalAt next fuel n hist) x.key) ∧
    (evalAt next fuel (.antiJoin t n) hist).Sublist (evalAt next fuel t hist) := by
  refine ⟨by simp only [evalAt], ?_⟩
  simp only [evalAt]
  exact List.filter_sublist

/-- `chain`: the first batch followed by the second -/
theorem tick_op_eq_list_op_chain :
    evalAt next fuel (.chain t s) hist = evalAt next fuel t hist ++ evalAt next fuel s hist := by
  simp [evalAt]

end ops

example : evalAt (.batch 0) 3 (.reduce (fun a _ => a) (.limit 1 (.batch 0))) [[[.int 4, .int 5]], [[.int 7, .int 8]]]
    = [.int 7] := by
  simp [evalAt, mealyList, limitStep, reduceStep, inBatch]

/-! ### tick state does not leak -/

/-- a collection that uses neither `defer_tick` nor the cycle depends on the current tick only:
    all operator state (`fold` accumulators, `enumerate` counters, `unique`/join tables, `limit`
    counters, singleton cells) is gone at the end of the tick -/
theorem tick_state_no_leak (next : TTerm) (fuel fuel' : Nat) (tt : TTerm) (h : tt.stateless = true)
    (earlier : List TickIn) (now : TickIn) :
    evalAt next fuel tt (earlier ++ [now]) = evalAt next fuel' tt [now] := by
  induction tt with
  | batch i => simp [evalAt]
  | constS v => simp [evalAt]
  | firstTick v => simp [TTerm.stateless] at h
  | cyc => simp [TTerm.stateless] at h
  | deferTick t ih => simp [TTerm.stateless] at h
  | acrossFold i f t ih => simp [TTerm.stateless] at h
  | map f t ih | filter p t ih | flatMap g t ih | filterMap g t ih | enumerate t ih | unique t ih
  | sort t ih | scan i f t ih | limit n t ih | fold i f t ih | reduce f t ih | kfold i f t ih =>
    simp only [TTerm.stateless] at h
    simp only [evalAt, ih h]
  | chain a b iha ihb | crossSingleton a b iha ihb | joinHalf a b iha ihb | antiJoin a b iha ihb
  | difference a b iha ihb | chainFirst a b iha ihb =>
    simp only [TTerm.stateless, Bool.and_eq_true] at h
    simp only [evalAt, iha h.1, ihb h.2]

example : evalAt (.batch 0) 5 (.enumerate (.batch 0)) [[[.int 1, .int 2]], [[.int 9]]]
    = [.pair (.int 0) (.int 9)] := by
  simp [evalAt, mealyList, enumStep, inBatch]

/-! ### `'tick` persistence at the level of the operator state machine -/

/-- an operator instance the way the DFIR code generator emits it for `'tick` persistence: a state cell,
    the per-tick iterator code (`step` over the tick's batch), and `write_tick_end`, which re-initialises
    the cell to `s0` after EVERY tick (`fold`/`reduce`/`fold_keyed`/`scan`/`enumerate`/`unique`/join
    tables/`cross_singleton` all have this shape) -/
def runTickPersistence {σ : Type} (step : σ → Val → σ × List Val) (s0 : σ) : σ → List Batch → List Batch
  | _, [] => []
  | s, b :: bs => (mealyList step s b).2 :: runTickPersistence step s0 s0 bs

/-- whatever state the cell holds when the run starts, from the second tick on (and from the first one if
    it starts initialised) every tick's output is the function of that tick's batch alone: the reset in
    `write_tick_end` makes the state machine equal to the per-batch `mealyTick` the tick model uses -/
theorem tick_persistence_machine_no_leak {σ : Type} (step : σ → Val → σ × List Val) (s0 s : σ)
    (b : Batch) (bs : List Batch) :
    runTickPersistence step s0 s (b :: bs) = (mealyList step s b).2 :: mealyTick step s0 bs ∧
    runTickPersistence step s0 s0 (b :: bs) = mealyTick step s0 (b :: bs) := by
  have h : ∀ (l : List Batch), runTickPersistence step s0 s0 l = mealyTick step s0 l := by
    intro l
    induction l with
    | nil => simp [runTickPersistence, mealyTick]
    | cons x xs ih => simp only [runTickPersistence, ih]; simp [mealyTick]
  exact ⟨by simp only [runTickPersistence, h], h _⟩

/-- contrast: with `'static` persistence (`mealyStatic`) the second tick does see the first one -/
example : mealyStatic enumStep 0 [[.int 7], [.int 8]] ≠ mealyTick enumStep 0 [[.int 7], [.int 8]] := by decide

/-! ### one tick later -/

/-- the value does not depend on the fuel once it covers the history -/
theorem aux_fuel (next : TTerm) : ∀ (fuel : Nat) (tt : TTerm) (fuel' : Nat) (hist : List TickIn),
    hist.length ≤ fuel → hist.length ≤ fuel' → evalAt next fuel tt hist = evalAt next fuel' tt hist := by
  intro fuel
  induction fuel with
  | zero =>
    intro tt
    induction tt with
    | batch i => intros; simp [evalAt]
    | constS v => intros; simp [evalAt]
    | firstTick v => intros; simp [evalAt]
    | cyc =>
      intro fuel' hist h0 _
      have : hist = [] := List.eq_nil_of_length_eq_zero (Nat.le_zero.mp h0)
      subst this
      cases fuel' <;> simp [evalAt]
    | deferTick t ih =>
      intro fuel' hist h0 h1
      have : hist = [] := List.eq_nil_of_length_eq_zero (Nat.le_zero.mp h0)
      subst this
      simp [evalAt]
    | acrossFold i g t ih =>
      intro fuel' hist h0 h1
      have hm : (List.range hist.length).map (fun j => evalAt next 0 t (hist.take (j + 1)))
          = (List.range hist.length).map (fun j => evalAt next fuel' t (hist.take (j + 1))) :=
        List.map_congr_left (fun j _ => ih fuel' (hist.take (j + 1))
          (by simp only [List.length_take]; omega) (by simp only [List.length_take]; omega))
      simp only [evalAt, hm]
    | map f t ih | filter p t ih | flatMap g t ih | filterMap g t ih | enumerate t ih | unique t ih
    | sort t ih | scan i f t ih | limit n t ih | fold i f t ih | reduce f t ih | kfold i f t ih =>
      intro fuel' hist h0 h1
      simp only [evalAt, ih fuel' hist h0 h1]
    | chain a b iha ihb | crossSingleton a b iha ihb | joinHalf a b iha ihb | antiJoin a b iha ihb
    | difference a b iha ihb | chainFirst a b iha ihb =>
      intro fuel' hist h0 h1
      simp only [evalAt, iha fuel' hist h0 h1, ihb fuel' hist h0 h1]
  | succ f ihf =>
    intro tt
    induction tt with
    | batch i => intros; simp [evalAt]
    | constS v => intros; simp [evalAt]
    | firstTick v => intros; simp [evalAt]
    | cyc =>
      intro fuel' hist h0 h1
      cases fuel' with
      | zero =>
        have : hist = [] := List.eq_nil_of_length_eq_zero (Nat.le_zero.mp h1)
        subst this
        simp [evalAt]
      | succ f' =>
        simp only [evalAt]
        split
        · rfl
        · exact ihf next f' hist.dropLast (by simp; omega) (by simp; omega)
    | deferTick t ih =>
      intro fuel' hist h0 h1
      simp only [evalAt]
      split
      · rfl
      · exact ih fuel' hist.dropLast (by simp; omega) (by simp; omega)
    | acrossFold i g t ih =>
      intro fuel' hist h0 h1
      have hm : (List.range hist.length).map (fun j => evalAt next (f + 1) t (hist.take (j + 1)))
          = (List.range hist.length).map (fun j => evalAt next fuel' t (hist.take (j + 1))) :=
        List.map_congr_left (fun j _ => ih fuel' (hist.take (j + 1))
          (by simp only [List.length_take]; omega) (by simp only [List.length_take]; omega))
      simp only [evalAt, hm]
    | map g t ih | filter p t ih | flatMap g t ih | filterMap g t ih | enumerate t ih | unique t ih
    | sort t ih | scan i g t ih | limit n t ih | fold i g t ih | reduce g t ih | kfold i g t ih =>
      intro fuel' hist h0 h1
      simp only [evalAt, ih fuel' hist h0 h1]
    | chain a b iha ihb | crossSingleton a b iha ihb | joinHalf a b iha ihb | antiJoin a b iha ihb
    | difference a b iha ihb | chainFirst a b iha ihb =>
      intro fuel' hist h0 h1
      simp only [evalAt, iha fuel' hist h0 h1, ihb fuel' hist h0 h1]

/-- `defer_tick()`: in tick `n+1` exactly the content the collection had in tick `n`; empty in the
    first tick -/
theorem deferTick_one_tick_later (next : TTerm) (fuel : Nat) (t : TTerm) (hist : List TickIn) (now : TickIn) :
    evalAt next fuel (.deferTick t) (hist ++ [now]) = if hist = [] then [] else evalAt next fuel t hist := by
  cases hist with
  | nil => simp [evalAt]
  | cons x xs =>
    have h1 : ¬ ((x :: xs) ++ [now]).length ≤ 1 := by simp
    have h2 : ((x :: xs) ++ [now]).dropLast = x :: xs := List.dropLast_concat
    simp only [evalAt, h1, if_false, h2]
    simp

/-- a tick cycle (`tick.cycle()` … `complete_next_tick(next)`): the cycle's content in tick `n+1` is
    what `next` held in tick `n`; empty in the first tick -/
theorem tickCycle_one_tick_later (next : TTerm) (fuel : Nat) (hist : List TickIn) (now : TickIn)
    (hf : (hist ++ [now]).length ≤ fuel) :
    evalAt next fuel .cyc (hist ++ [now]) = if hist = [] then [] else evalAt next fuel next hist := by
  cases fuel with
  | zero => simp at hf
  | succ f =>
    cases hist with
    | nil => simp [evalAt]
    | cons x xs =>
      simp only [evalAt]
      have : ¬ (x :: xs ++ [now]).length ≤ 1 := by simp
      simp only [this, if_false, List.dropLast_concat]
      simp only [reduceCtorEq, if_false]
      exact aux_fuel next f next (f + 1) (x :: xs) (by simp at hf ⊢; omega) (by simp at hf ⊢; omega)

/-- `across_ticks(|s| s.fold(init, f))`: the accumulator carried from tick `n` is what the fold continues
    from in tick `n+1` (it starts from `init` in the first tick), and the tick's own batch is already included -/
theorem acrossTicks_accumulates (next : TTerm) (fuel : Nat) (init : Val) (f : Val → Val → Val) (t : TTerm)
    (hist : List TickIn) (now : TickIn) :
    evalAt next fuel (.acrossFold init f t) (hist ++ [now]) =
      [(evalAt next fuel t (hist ++ [now])).foldl f
        (if hist = [] then init else (evalAt next fuel (.acrossFold init f t) hist).headD init)] := by
  have hmap : (List.range hist.length).map (fun i => evalAt next fuel t ((hist ++ [now]).take (i + 1)))
      = (List.range hist.length).map (fun i => evalAt next fuel t (hist.take (i + 1))) := by
    apply List.map_congr_left
    intro i hi
    have : i + 1 ≤ hist.length := by have := List.mem_range.mp hi; omega
    rw [List.take_append_of_le_length this]
  simp only [evalAt, List.length_append, List.length_singleton, List.range_succ, List.map_append,
    List.flatten_append, List.foldl_append, hmap]
  cases hist with
  | nil => simp
  | cons x xs =>
    have h1 : List.take (xs.length + 1) (xs ++ [now]) = xs ++ [now] := List.take_of_length_le (by simp)
    simp [h1]

/-! ### tick cycles with an initial value

`Tick::cycle_with_initial(initial)` (also behind `sliced! { let mut x = use::state(|l| …) }`).  The terms
`TTerm.optCycleWithInitial` / `TTerm.singCycleWithInitial` transcribe the library code of
`create_source_with_initial` (optional.rs / singleton.rs; pinned by `cycle_sources_match`), the nodes they are made
of are lowered as in the table (`ChainFirst -> chain_first_n(1)`, `DeferTick -> defer_tick_lazy()`,
`SingletonSource` with / without `first_tick_only`, `CrossSingleton`; `lowering_table_matches`). -/

/-- (T) the hydro_lang library functions that build tick cycles (`Tick::cycle`, `cycle_with_initial`,
    `create_source_with_initial` of Optional and Singleton, `filter_if`, `is_some`, `into_singleton`, `or`, `unwrap_or`, `zip` inside a
    tick, `optional_first_tick`), re-extracted from the current source on every run, are the ones
    `TTerm.optCycleWithInitial` / `TTerm.singCycleWithInitial` / `TTerm.cyc` were transcribed from -/
theorem cycle_sources_match : Gen.library = Expected.library := rfl

/-- `Optional::or` / `unwrap_or` (`chain_first_n(1)`): the first operand if it is non-null, else the second -/
theorem tick_op_eq_list_op_or (next : TTerm) (fuel : Nat) (a b : TTerm) (hist : List TickIn) :
    evalAt next fuel (.chainFirst a b) hist =
      match evalAt next fuel a hist with
      | [] => (evalAt next fuel b hist).take 1
      | x :: _ => [x] := by
  simp only [evalAt]
  cases evalAt next fuel a hist <;> simp

/-- `tick.singleton(v)` holds `v` in every tick; `tick.optional_first_tick(v)` holds `v` in the first tick and is null afterwards -/
theorem singletonSource_every_tick_firstTick_only_first (next : TTerm) (fuel : Nat) (v : Val) (hist : List TickIn) (now : TickIn) :
    evalAt next fuel (.constS v) (hist ++ [now]) = [v] ∧
    evalAt next fuel (.firstTick v) (hist ++ [now]) = if hist = [] then [v] else [] := by
  cases hist <;> simp [evalAt]

/-- the guard of the initial value, `initial.filter_if(optional_first_tick(()).is_some())`: the initial value in the
    first tick, null in every later tick — whatever the initial collection holds then -/
theorem aux_initial_guard (next init : TTerm) (fuel : Nat) (hist : List TickIn) (now : TickIn) :
    evalAt next fuel (TTerm.filterIf init (TTerm.isSome (.firstTick vUnit))) (hist ++ [now]) =
      if hist = [] then evalAt next fuel init [now] else [] := by
  cases hist with
  | nil =>
    simp [TTerm.filterIf, TTerm.isSome, TTerm.intoSingleton, evalAt, vSome, vNone, vUnit, vBool]
    have h : (Val.key ∘ fun x : Val => x.pair (Val.int 1)) = id := by funext x; rfl
    rw [h, List.map_id]
  | cons x xs =>
    simp [TTerm.filterIf, TTerm.isSome, TTerm.intoSingleton, evalAt, vNone, vUnit, vBool]

/-- an `Optional` tick cycle with an initial value: the first tick reads the initial value; every later tick reads
    EXACTLY what the previous tick sent (`take 1`: an optional holds at most one value) — in particular NULL when the
    previous tick sent null, however non-null the initial collection still is.  The initial value is seen in the
    first tick only. -/
theorem optionalCycle_initial_only_first_tick (next init : TTerm) (fuel : Nat) (hist : List TickIn) (now : TickIn)
    (hf : (hist ++ [now]).length ≤ fuel) :
    evalAt next fuel (TTerm.optCycleWithInitial init) (hist ++ [now]) =
      if hist = [] then (evalAt next fuel init [now]).take 1 else (evalAt next fuel next hist).take 1 := by
  have hc := tickCycle_one_tick_later next fuel hist now hf
  have hg := aux_initial_guard next init fuel hist now
  unfold TTerm.optCycleWithInitial
  rw [evalAt, hc, hg]
  cases hist <;> simp

/-- the clause a leaking initial value breaks: after a tick that sent NULL the cycle reads null -/
theorem optionalCycle_null_stays_null (next init : TTerm) (fuel : Nat) (hist : List TickIn) (now : TickIn)
    (hf : (hist ++ [now]).length ≤ fuel) (hne : hist ≠ []) (hnull : evalAt next fuel next hist = []) :
    evalAt next fuel (TTerm.optCycleWithInitial init) (hist ++ [now]) = [] := by
  rw [optionalCycle_initial_only_first_tick next init fuel hist now hf]
  simp [hne, hnull]

/-- a `Singleton` tick cycle with an initial value (`from_previous_tick.unwrap_or(initial)`): the initial value in
    the first tick, afterwards what the previous tick sent — a singleton is never null, which is why no first-tick
    guard is needed here -/
theorem singletonCycle_initial_only_first_tick (next init : TTerm) (fuel : Nat) (hist : List TickIn) (now : TickIn)
    (hf : (hist ++ [now]).length ≤ fuel) (hsing : hist ≠ [] → evalAt next fuel next hist ≠ []) :
    evalAt next fuel (TTerm.singCycleWithInitial init) (hist ++ [now]) =
      if hist = [] then (evalAt next fuel init [now]).take 1 else (evalAt next fuel next hist).take 1 := by
  have hc := tickCycle_one_tick_later next fuel hist now hf
  unfold TTerm.singCycleWithInitial
  rw [evalAt, hc]
  cases hist with
  | nil => simp
  | cons x xs =>
    have := hsing (by simp)
    simp only [reduceCtorEq, if_false] at *
    cases h : evalAt next fuel next (x :: xs) with
    | nil => exact absurd h this
    | cons y ys => simp

/-- the tick cycle of any kind (`Tick::cycle`, Optional or Stream): `create_source(..).defer_tick()` is `TTerm.cyc`,
    so `tickCycle_one_tick_later` applies verbatim — null / empty in the first tick -/
example : evalAt (.reduce (fun _ x => x) (.batch 0)) 3 (.chainFirst .cyc (.constS (.int (-1))))
    [[[.int 4]], [[]], [[.int 6]]] = [.int (-1)] := by
  simp [evalAt, inBatch]

/-- non-vacuity (the demo of the seeded defect): initial `100` in every tick, each tick sends the first positive item
    of its batch; ticks `[5] [-7] [9]`: tick 2 reads NULL (tick 1 sent null), not 100 -/
example : (List.range 3).map (fun i => evalAt
      (.reduce (fun a _ => a) (.limit 1 (.filter (fun v => match v with | .int i => decide (i > 0) | _ => false) (.batch 0))))
      3 (TTerm.optCycleWithInitial (.filter (fun _ => true) (.constS (.int 100))))
      ([[[.int 5]], [[.int (-7)]], [[.int 9]]].take (i + 1)))
    = [[.int 100], [.int 5], []] := by
  simp [TTerm.optCycleWithInitial, TTerm.filterIf, TTerm.isSome, TTerm.intoSingleton, evalAt, inBatch, mealyList,
    limitStep, reduceStep, vSome, vNone, vUnit, vBool, Val.key, List.range, List.range.loop]

/-- contrast: the Singleton shape `from_previous_tick.or(initial)` used for an Optional leaks the initial value into
    tick 2 -/
example : evalAt
      (.reduce (fun a _ => a) (.limit 1 (.filter (fun v => match v with | .int i => decide (i > 0) | _ => false) (.batch 0))))
      3 (TTerm.singCycleWithInitial (.filter (fun _ => true) (.constS (.int 100))))
      [[[.int 5]], [[.int (-7)]], [[.int 9]]]
    = [.int 100] := by
  simp [TTerm.singCycleWithInitial, evalAt, inBatch, mealyList]

/-! ### lazily deferred data does not schedule a tick

`Dfir::run_available_sync` (dfir_rs/src/scheduled/context.rs): clear `can_start_tick`, run a tick, repeat
while the flag was set again.  The generated tick closure sets it at the end of a tick
(`if false || !buf.is_empty() … { df.schedule_subgraph(true) }`, dfir_lang meta_graph.rs) for the tick-boundary
handoffs that are NOT lazy; `hydro_lang` lowers `DeferTick` (hence `defer_tick` and tick cycles) to
`defer_tick_lazy()` only (`lowering_table_matches`), so none of its handoffs takes part. -/

/-- a tick-boundary handoff after a tick: is it lazy (`DelayType::TickLazy`), and how many items wait in it -/
structure Hoff where
  isLazy : Bool
  pending : Nat

/-- the end-of-tick test of the generated tick closure: `false || !buf₁.is_empty() || …` over the non-lazy handoffs -/
def schedulesNextTick (hs : List Hoff) : Bool := hs.any (fun h => !h.isLazy && decide (0 < h.pending))

/-- `run_available_sync` with input streams that never wake the runtime: `ticks k` is the state of the
    tick-boundary handoffs after the `k`-th tick of this call; the number of ticks run (bounded by `fuel`) -/
def runAvailableTicks (ticks : Nat → List Hoff) : Nat → Nat → Nat
  | 0, _ => 0
  | fuel + 1, k => 1 + (if schedulesNextTick (ticks k) then runAvailableTicks ticks fuel (k + 1) else 0)

/-- however much data is parked in lazily deferred handoffs, `run_available_sync` runs exactly one tick: the
    deferred values wait for the next tick that something else (new input) starts, and are delivered there
    (`deferTick_one_tick_later`, `tickCycle_one_tick_later` count ticks that run) -/
theorem lazyDefer_does_not_schedule_tick (ticks : Nat → List Hoff) (hlazy : ∀ k, ∀ h ∈ ticks k, h.isLazy = true)
    (fuel : Nat) : runAvailableTicks ticks (fuel + 1) 0 = 1 := by
  have : schedulesNextTick (ticks 0) = false := by
    simp only [schedulesNextTick, List.any_eq_false]
    intro h hm
    simp [hlazy 0 h hm]
  simp [runAvailableTicks, this]

/-- non-vacuity / contrast: the same pending data in a NON-lazy handoff (`defer_tick()`) starts a second tick -/
example : runAvailableTicks (fun k => if k = 0 then [⟨false, 2⟩] else [⟨false, 0⟩]) 5 0 = 2 := by decide
example : runAvailableTicks (fun _ => [⟨true, 2⟩]) 5 0 = 1 := by decide

/-- at the level of whole runs: the observed per-tick outputs of a program whose output collection is
    stateless are a `map` over the ticks — nothing is carried from one tick to the next -/
theorem tick_state_no_leak_run (p : TProg) (h : p.out.stateless = true) (ins : List TickIn) :
    p.run ins = ins.map (fun ti => evalAt p.next 0 p.out [ti]) := by
  unfold TProg.run
  apply List.ext_getElem
  · simp
  · intro i h1 h2
    simp only [List.getElem_map, List.getElem_range]
    have hi : i < ins.length := by simpa using h1
    have : ins.take (i + 1) = ins.take i ++ [ins[i]] := by
      rw [List.take_add_one]; simp [List.getElem?_eq_getElem hi]
    rw [this]
    exact tick_state_no_leak p.next _ 0 p.out h _ _

example : evalAt (.map (fun v => match v with | .int i => .int (i + 1) | v => v) (.chain .cyc (.batch 0))) 3 .cyc
    [[[.int 1]], [[]], [[.int 5]]] = [.int 3] := by
  simp [evalAt, inBatch]

end HvHydro
