/-
Helper lemmas for C30: `Val.le` (the `Ord` of `i64` and tuples) is a total order, so `sort()` = `mergeSort`
returns a pairwise ordered list.
-/
import HvHydro.Model.Tick
import Mathlib.Data.List.Perm.Basic

namespace HvHydro

theorem aux_le_antisymm : ∀ a b : Val, Val.le a b = true → Val.le b a = true → a = b := by
  intro a
  induction a with
  | int i =>
    intro b h1 h2
    cases b with
    | int j => simp [Val.le] at h1 h2; congr 1; omega
    | pair c d => simp [Val.le] at h2
  | pair a1 a2 ih1 ih2 =>
    intro b h1 h2
    cases b with
    | int j => simp [Val.le] at h1
    | pair b1 b2 =>
      by_cases h : a1 = b1
      · subst h
        simp [Val.le] at h1 h2
        rw [ih2 b2 h1 h2]
      · have h' : ¬ b1 = a1 := fun e => h e.symm
        simp [Val.le, h, h'] at h1 h2
        exact absurd (ih1 b1 h1 h2) h

theorem aux_le_trans : ∀ a b c : Val, Val.le a b = true → Val.le b c = true → Val.le a c = true := by
  intro a
  induction a with
  | int i =>
    intro b c h1 h2
    cases b with
    | int j =>
      cases c with
      | int k => simp [Val.le] at h1 h2 ⊢; omega
      | pair c1 c2 => simp [Val.le]
    | pair b1 b2 =>
      cases c with
      | int k => simp [Val.le] at h2
      | pair c1 c2 => simp [Val.le]
  | pair a1 a2 ih1 ih2 =>
    intro b c h1 h2
    cases b with
    | int j => simp [Val.le] at h1
    | pair b1 b2 =>
      cases c with
      | int k => simp [Val.le] at h2
      | pair c1 c2 =>
        by_cases hab : a1 = b1
        · subst hab
          by_cases hbc : a1 = c1
          · subst hbc
            simp [Val.le] at h1 h2 ⊢
            exact ih2 b2 c2 h1 h2
          · simp [Val.le, hbc] at h1 h2 ⊢
            exact h2
        · by_cases hbc : b1 = c1
          · subst hbc
            simp [Val.le, hab] at h1 h2 ⊢
            exact h1
          · simp [Val.le, hab, hbc] at h1 h2
            by_cases hac : a1 = c1
            · subst hac
              exact absurd (aux_le_antisymm a1 b1 h1 h2) hab
            · simp [Val.le, hac]
              exact ih1 b1 c1 h1 h2

theorem aux_le_total : ∀ a b : Val, (Val.le a b || Val.le b a) = true := by
  intro a
  induction a with
  | int i =>
    intro b
    cases b with
    | int j => simp [Val.le]; omega
    | pair c d => simp [Val.le]
  | pair a1 a2 ih1 ih2 =>
    intro b
    cases b with
    | int j => simp [Val.le]
    | pair b1 b2 =>
      by_cases h : a1 = b1
      · subst h; simpa [Val.le] using ih2 b2
      · have h' : ¬ b1 = a1 := fun e => h e.symm
        simpa [Val.le, h, h'] using ih1 b1

theorem aux_sort_sorted (l : List Val) : (l.mergeSort Val.le).Pairwise (fun a b => Val.le a b = true) :=
  List.pairwise_mergeSort (le := Val.le) (fun a b c => aux_le_trans a b c) aux_le_total l

end HvHydro
