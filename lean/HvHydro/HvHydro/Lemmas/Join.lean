/-
Helper lemmas for C28: `join_multiset::<'static,'static>() -> multiset_delta()` emits, over all ticks,
exactly the multiset join of the whole inputs (each tick replays the whole join of the persistent
states; `multiset_delta` subtracts what the previous tick emitted).
-/
import HvHydro.Lemmas.Machines

namespace HvHydro
open List

/-- `multiset_delta`: if the previous tick's multiset is contained in the current one, what passes is
    exactly the difference -/
theorem aux_msDelta_perm (prev cur : List Val) (h : prev.Subperm cur) :
    (prev ++ msDelta prev cur).Perm cur := by
  induction cur generalizing prev with
  | nil =>
    have : prev = [] := List.subperm_nil.mp h
    simp [this, msDelta]
  | cons x xs ih =>
    by_cases hx : x ∈ prev
    · simp only [msDelta, hx, if_true]
      have h1 : (prev.erase x).Subperm xs := by
        have := h.erase x
        simpa using this
      have h2 := ih (prev.erase x) h1
      have h3 : prev.Perm (x :: prev.erase x) := List.perm_cons_erase hx
      calc prev ++ msDelta (prev.erase x) xs
          _ ~ (x :: prev.erase x) ++ msDelta (prev.erase x) xs := h3.append_right _
          _ = x :: (prev.erase x ++ msDelta (prev.erase x) xs) := rfl
          _ ~ x :: xs := h2.cons x
    · simp only [msDelta, hx, if_false]
      have h1 : prev.Subperm xs := by
        rcases h with ⟨l, hl, hsub⟩
        have hxl : x ∉ l := fun hm => hx (hl.mem_iff.mp hm)
        cases hsub with
        | cons _ hs => exact ⟨l, hl, hs⟩
        | cons_cons _ hs => exact absurd (List.mem_cons_self ..) hxl
      have h2 := ih prev h1
      calc prev ++ x :: msDelta prev xs
          _ ~ x :: (prev ++ msDelta prev xs) := List.perm_middle
          _ ~ x :: xs := h2.cons x

theorem aux_joinL_append_left (l a r : List Val) : joinL (l ++ a) r = joinL l r ++ joinL a r := by
  simp [joinL, List.flatMap_append]

theorem aux_joinL_append_right (l r b : List Val) :
    (joinL l (r ++ b)).Perm (joinL l r ++ joinL l b) := by
  induction l with
  | nil => simp [joinL]
  | cons x xs ih =>
    simp only [joinL, List.flatMap_cons, List.filterMap_append] at ih ⊢
    set f := fun y : Val => if x.key = y.key then some (Val.pair x.key (Val.pair x.value y.value)) else none
    calc (List.filterMap f r ++ List.filterMap f b) ++ _
        _ ~ (List.filterMap f r ++ List.filterMap f b) ++ (joinL xs r ++ joinL xs b) :=
            List.Perm.append_left _ (by simpa [joinL, List.filterMap_append] using ih)
        _ ~ (List.filterMap f r ++ joinL xs r) ++ (List.filterMap f b ++ joinL xs b) := by
            simp only [List.append_assoc]
            refine List.Perm.append_left _ ?_
            rw [← List.append_assoc, ← List.append_assoc]
            exact List.Perm.append_right _ List.perm_append_comm

theorem aux_joinL_perm (l l' r r' : List Val) (hl : l.Perm l') (hr : r.Perm r') :
    (joinL l r).Perm (joinL l' r') := by
  unfold joinL
  refine (List.Perm.flatMap_right _ hl).trans ?_
  exact List.Perm.flatMap_left _ (fun x _ => hr.filterMap _)

/-- growth of the replayed join: the old join is a sub-multiset of the new one -/
theorem aux_joinL_grow (l r a b : List Val) :
    (joinL (l ++ a) (r ++ b)).Perm (joinL l r ++ (joinL l b ++ joinL a (r ++ b))) := by
  rw [aux_joinL_append_left]
  calc joinL l (r ++ b) ++ joinL a (r ++ b)
      _ ~ (joinL l r ++ joinL l b) ++ joinL a (r ++ b) := (aux_joinL_append_right l r b).append_right _
      _ = joinL l r ++ (joinL l b ++ joinL a (r ++ b)) := by simp

theorem aux_joinDelta_flatten (l r : List Val) (as bs : List Batch) (hlen : as.length = bs.length) :
    ((joinDeltaRun l r as bs).flatten ++ joinL l r).Perm (joinL (l ++ as.flatten) (r ++ bs.flatten)) := by
  induction as generalizing l r bs with
  | nil =>
    cases bs with
    | nil => simp [joinDeltaRun]
    | cons b bs => simp at hlen
  | cons a as ih =>
    cases bs with
    | nil => simp at hlen
    | cons b bs =>
      have ih' := ih (l ++ a) (r ++ b) bs (by simpa using hlen)
      have hsub : (joinL l r).Subperm (joinL (l ++ a) (r ++ b)) :=
        (List.sublist_append_left _ _).subperm.trans (aux_joinL_grow l r a b).symm.subperm
      have hD := aux_msDelta_perm _ _ hsub
      simp only [joinDeltaRun, List.flatten_cons, List.append_assoc] at ih' ⊢
      refine List.Perm.trans ?_ ih'
      calc msDelta (joinL l r) (joinL (l ++ a) (r ++ b)) ++ ((joinDeltaRun (l ++ a) (r ++ b) as bs).flatten ++ joinL l r)
          _ ~ ((joinDeltaRun (l ++ a) (r ++ b) as bs).flatten ++ joinL l r) ++ msDelta (joinL l r) (joinL (l ++ a) (r ++ b)) :=
              List.perm_append_comm
          _ = (joinDeltaRun (l ++ a) (r ++ b) as bs).flatten ++ (joinL l r ++ msDelta (joinL l r) (joinL (l ++ a) (r ++ b))) := by
              simp
          _ ~ (joinDeltaRun (l ++ a) (r ++ b) as bs).flatten ++ joinL (l ++ a) (r ++ b) := hD.append_left _

end HvHydro
