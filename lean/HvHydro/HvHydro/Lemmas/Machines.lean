/-
Helper lemmas for C28–C30: generic facts about the batch machines of `Model/Hydro.lean`.
-/
import HvHydro.Model.Hydro
import Mathlib.Data.List.Perm.Subperm

namespace HvHydro
open List

/-! ### generic machines -/

theorem aux_mealyList_append {σ : Type} (step : σ → Val → σ × List Val) (s : σ) (l1 l2 : List Val) :
    mealyList step s (l1 ++ l2) =
      ((mealyList step (mealyList step s l1).1 l2).1,
       (mealyList step s l1).2 ++ (mealyList step (mealyList step s l1).1 l2).2) := by
  induction l1 generalizing s with
  | nil => simp [mealyList]
  | cons x xs ih => simp [mealyList, ih, List.append_assoc]

/-- batch homomorphism of every element-wise `'static` operator: tick boundaries are invisible -/
theorem aux_mealyStatic_flatten {σ : Type} (step : σ → Val → σ × List Val) (s : σ) (bs : List Batch) :
    (mealyStatic step s bs).flatten = (mealyList step s bs.flatten).2 := by
  induction bs generalizing s with
  | nil => simp [mealyStatic, mealyList]
  | cons b bs ih => simp [mealyStatic, aux_mealyList_append, ih]

theorem aux_mealyStatic_length {σ : Type} (step : σ → Val → σ × List Val) (s : σ) (bs : List Batch) :
    (mealyStatic step s bs).length = bs.length := by
  induction bs generalizing s with
  | nil => simp [mealyStatic]
  | cons b bs ih => simp [mealyStatic, ih]

theorem aux_accStatic_length {σ : Type} (f : σ → Val → σ) (emit : σ → Batch) (s : σ) (bs : List Batch) :
    (accStatic f emit s bs).length = bs.length := by
  induction bs generalizing s with
  | nil => simp [accStatic]
  | cons b bs ih => simp [accStatic, ih]

/-- an accumulating `'static` operator shows, after the last tick, the fold of everything -/
theorem aux_accStatic_getLast {σ : Type} (f : σ → Val → σ) (emit : σ → Batch) (s : σ) (bs : List Batch)
    (h : bs ≠ []) :
    (accStatic f emit s bs).getLast? = some (emit (bs.flatten.foldl f s)) := by
  induction bs generalizing s with
  | nil => exact absurd rfl h
  | cons b bs ih =>
    cases bs with
    | nil => simp [accStatic]
    | cons b' bs' =>
      have := ih (b.foldl f s) (by simp)
      simp only [accStatic] at this ⊢
      rw [List.getLast?_cons_cons]
      simpa [List.foldl_append] using this

theorem aux_flatten_map_hom (g : List Val → List Val) (hnil : g [] = [])
    (happ : ∀ a b, g (a ++ b) = g a ++ g b) (outs : List Batch) :
    (outs.map g).flatten = g outs.flatten := by
  induction outs with
  | nil => simp [hnil]
  | cons b bs ih => simp [happ, ih]

theorem aux_flatten_zipWith_append_perm (as bs : List Batch) (h : as.length = bs.length) :
    (List.zipWith (· ++ ·) as bs).flatten.Perm (as.flatten ++ bs.flatten) := by
  induction as generalizing bs with
  | nil => cases bs <;> simp_all
  | cons a as ih =>
    cases bs with
    | nil => simp at h
    | cons b bs =>
      simp only [List.zipWith_cons_cons, List.flatten_cons]
      have := ih bs (by simpa using h)
      calc (a ++ b) ++ (List.zipWith (· ++ ·) as bs).flatten
          _ ~ (a ++ b) ++ (as.flatten ++ bs.flatten) := List.Perm.append_left _ this
          _ ~ (a ++ as.flatten) ++ (b ++ bs.flatten) := by
              simp only [List.append_assoc]
              refine List.Perm.append_left a ?_
              rw [← List.append_assoc, ← List.append_assoc]
              exact List.Perm.append_right _ List.perm_append_comm

theorem aux_joinDeltaRun_length (l r : List Val) (as bs : List Batch) (h : as.length = bs.length) :
    (joinDeltaRun l r as bs).length = as.length := by
  induction as generalizing l r bs with
  | nil => cases bs <;> simp [joinDeltaRun]
  | cons a as ih =>
    cases bs with
    | nil => simp at h
    | cons b bs => simp [joinDeltaRun, ih _ _ bs (by simpa using h)]

theorem aux_foldNoReplayRun_length (f : Val → Val → Val) (fst : Bool) (s : Val) (bs : List Batch) :
    (foldNoReplayRun f fst s bs).length = bs.length := by
  induction bs generalizing fst s with
  | nil => simp [foldNoReplayRun]
  | cons b bs ih => simp [foldNoReplayRun, ih]

theorem aux_crossSingletonStaticRun_length (st : Option Val) (as ss : List Batch) (h : as.length = ss.length) :
    (crossSingletonStaticRun st as ss).length = as.length := by
  induction as generalizing st ss with
  | nil => cases ss <;> simp [crossSingletonStaticRun]
  | cons a as ih =>
    cases ss with
    | nil => simp at h
    | cons s ss => simp [crossSingletonStaticRun, ih _ ss (by simpa using h)]

theorem aux_reduceNoReplayRun_length (f : Val → Val → Val) (fst : Bool) (s : Option Val) (bs : List Batch) :
    (reduceNoReplayRun f fst s bs).length = bs.length := by
  induction bs generalizing fst s with
  | nil => simp [reduceNoReplayRun]
  | cons b bs ih => simp [reduceNoReplayRun, ih]

theorem aux_staticSideRun_length (g : List Val → List Val → List Val) (st : List Val) (as bs : List Batch)
    (h : as.length = bs.length) : (staticSideRun g st as bs).length = as.length := by
  induction as generalizing st bs with
  | nil => cases bs <;> simp [staticSideRun]
  | cons a as ih =>
    cases bs with
    | nil => simp at h
    | cons b bs => simp [staticSideRun, ih _ bs (by simpa using h)]

/-- every operator emits exactly one (possibly empty) batch per tick -/
theorem aux_run_length (t : Term) (ins : List TickIn) : (run t ins).length = ins.length := by
  induction t with
  | input i => simp [run]
  | const l => cases ins <;> simp [run, firstTickOnly]
  | map f t ih | filter p t ih | flatMap g t ih | filterMap h t ih | smap f t ih | sfilter p t ih =>
    simp [run, ih]
  | enumerate t ih | scan i f t ih | unique t ih | kscan i f t ih | kgen i g t ih =>
    simp [run, aux_mealyStatic_length, ih]
  | entries t ih => simp [run, ih]
  | union a b iha ihb | chain a b iha ihb => simp [run, iha, ihb]
  | join a b iha ihb | joinLB a b iha ihb => simp [run, aux_joinDeltaRun_length _ _ _ _ (iha.trans ihb.symm), iha]
  | fold c i f t ih | reduce f t ih | kfold i f t ih | kreduce f t ih | kfoldN i f t ih | kreduceN f t ih =>
    simp [run, aux_accStatic_length, ih]
  | foldB i f t ih => simp [run, aux_foldNoReplayRun_length, ih]
  | crossSingleton t s iht ihs =>
    simp [run, aux_crossSingletonStaticRun_length _ _ _ (iht.trans ihs.symm), iht]
  | reduceB f t ih => simp [run, aux_reduceNoReplayRun_length, ih]
  | joinHalfS t b iht ihb | antiJoinS t b iht ihb | differenceS t b iht ihb =>
    simp [run, aux_staticSideRun_length _ _ _ _ (iht.trans ihb.symm), iht]

/-- how the emitted batches `outs` (one per tick) relate to the stream-level value `s`, per kind -/
def Agrees (k : Kind) (outs : List Batch) (s : List Val) : Prop :=
  match k with
  | .sT | .sK => outs.flatten = s
  | .sN => outs.flatten.Perm s
  | .bT | .bsing => ∃ os, outs = s :: os ∧ os.flatten = []
  | .sing | .opt => outs.getLast? = some s
  | .ksing => ∃ l, outs.getLast? = some l ∧ l.Perm s

end HvHydro
