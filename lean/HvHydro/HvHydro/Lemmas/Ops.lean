/-
Helper lemmas for C28: the batch homomorphism of each operator family, stated with `Agrees`.
-/
import HvHydro.Lemmas.Machines

namespace HvHydro
open List Kind

/-- stateless element-wise operators (`map`, `filter`, `flat_map`, `filter_map`) -/
theorem aux_agrees_elementwise (g : List Val → List Val) (hnil : g [] = [])
    (happ : ∀ a b, g (a ++ b) = g a ++ g b) (hperm : ∀ a b, a.Perm b → (g a).Perm (g b))
    (k : Kind) (hk : k = sT ∨ k = sK ∨ k = sN ∨ k = bT ∨ k = bsing) (outs : List Batch) (s : List Val)
    (h : Agrees k outs s) : Agrees k (outs.map g) (g s) := by
  rcases hk with rfl | rfl | rfl | rfl | rfl
  · simp only [Agrees] at h ⊢; rw [aux_flatten_map_hom g hnil happ, h]
  · simp only [Agrees] at h ⊢; rw [aux_flatten_map_hom g hnil happ, h]
  · simp only [Agrees] at h ⊢; rw [aux_flatten_map_hom g hnil happ]; exact hperm _ _ h
  · simp only [Agrees] at h ⊢
    obtain ⟨os, rfl, hos⟩ := h
    exact ⟨os.map g, by simp, by rw [aux_flatten_map_hom g hnil happ, hos, hnil]⟩
  · simp only [Agrees] at h ⊢
    obtain ⟨os, rfl, hos⟩ := h
    exact ⟨os.map g, by simp, by rw [aux_flatten_map_hom g hnil happ, hos, hnil]⟩

/-- singleton / optional `map` and `filter`: applied to the value shown in the last tick -/
theorem aux_agrees_last_map (g : List Val → List Val) (outs : List Batch) (s : List Val)
    (h : outs.getLast? = some s) : (outs.map g).getLast? = some (g s) := by
  rw [List.getLast?_map, h]; rfl

/-- element-wise `'static` machines on a totally ordered input -/
theorem aux_agrees_mealy {σ : Type} (step : σ → Val → σ × List Val) (s0 : σ) (outs : List Batch)
    (s : List Val) (h : outs.flatten = s) :
    (mealyStatic step s0 outs).flatten = (mealyList step s0 s).2 := by
  rw [aux_mealyStatic_flatten, h]

/-! ### `unique` is a function of the multiset -/

theorem aux_uniq_mem (seen l : List Val) (y : Val) :
    y ∈ (mealyList uniqStep seen l).2 ↔ y ∈ l ∧ y ∉ seen := by
  induction l generalizing seen with
  | nil => simp [mealyList]
  | cons x xs ih =>
    by_cases hx : x ∈ seen
    · simp only [mealyList, uniqStep, hx, if_true, List.nil_append, ih, List.mem_cons]
      constructor
      · rintro ⟨h1, h2⟩; exact ⟨Or.inr h1, h2⟩
      · rintro ⟨h1 | h1, h2⟩
        · subst h1; exact absurd hx h2
        · exact ⟨h1, h2⟩
    · simp only [mealyList, uniqStep, hx, if_false, List.singleton_append, List.mem_cons, ih]
      constructor
      · rintro (h | ⟨h1, h2⟩)
        · subst h; exact ⟨Or.inl rfl, hx⟩
        · exact ⟨Or.inr h1, fun h => h2 (Or.inr h)⟩
      · rintro ⟨h1 | h1, h2⟩
        · exact Or.inl h1
        · by_cases hyx : y = x
          · exact Or.inl hyx
          · exact Or.inr ⟨h1, fun h => h.elim hyx h2⟩

theorem aux_uniq_nodup (seen l : List Val) : (mealyList uniqStep seen l).2.Nodup := by
  induction l generalizing seen with
  | nil => simp [mealyList]
  | cons x xs ih =>
    by_cases hx : x ∈ seen
    · simpa [mealyList, uniqStep, hx] using ih seen
    · simp only [mealyList, uniqStep, hx, if_false, List.singleton_append, List.nodup_cons]
      refine ⟨?_, ih _⟩
      intro h
      have := (aux_uniq_mem (x :: seen) xs x).1 h
      exact this.2 (List.mem_cons_self ..)

theorem aux_uniq_perm (l l' : List Val) (h : l.Perm l') :
    (mealyList uniqStep [] l).2.Perm (mealyList uniqStep [] l').2 := by
  rw [List.perm_ext_iff_of_nodup (aux_uniq_nodup _ _) (aux_uniq_nodup _ _)]
  intro y
  simp [aux_uniq_mem, h.mem_iff]

/-! ### union / chain -/

theorem aux_agrees_union (as bs : List Batch) (sa sb : List Val) (hlen : as.length = bs.length)
    (ha : as.flatten.Perm sa) (hb : bs.flatten.Perm sb) :
    (List.zipWith (· ++ ·) as bs).flatten.Perm (sa ++ sb) :=
  (aux_flatten_zipWith_append_perm as bs hlen).trans (ha.append hb)

theorem aux_zipWith_nil_left (os bs : List Batch) (hlen : os.length = bs.length)
    (hos : os.flatten = []) : List.zipWith (· ++ ·) os bs = bs := by
  induction os generalizing bs with
  | nil => cases bs <;> simp_all
  | cons o os ih =>
    cases bs with
    | nil => simp at hlen
    | cons b bs =>
      simp only [List.flatten_cons, List.append_eq_nil_iff] at hos
      simp [hos.1, ih bs (by simpa using hlen) hos.2]

/-- `chain()` with a bounded first input: the first tick carries `sa` in front, later ticks only `b` -/
theorem aux_chain_flatten (sa : List Val) (os bs : List Batch) (hlen : (sa :: os).length = bs.length)
    (hos : os.flatten = []) :
    (List.zipWith (· ++ ·) (sa :: os) bs).flatten = sa ++ bs.flatten := by
  cases bs with
  | nil => simp at hlen
  | cons b bs =>
    simp only [List.zipWith_cons_cons, List.flatten_cons]
    rw [aux_zipWith_nil_left os bs (by simpa using hlen) hos, List.append_assoc]

/-! ### fold_no_replay on a top-level bounded input -/

theorem aux_foldNoReplay_rest (f : Val → Val → Val) (s : Val) (os : List Batch) (hos : os.flatten = []) :
    (foldNoReplayRun f false s os).flatten = [] := by
  induction os generalizing s with
  | nil => simp [foldNoReplayRun]
  | cons o os ih =>
    simp only [List.flatten_cons, List.append_eq_nil_iff] at hos
    obtain ⟨rfl, h2⟩ := hos
    simp [foldNoReplayRun, ih _ h2]

/-! ### cross_singleton::<'static> with a top-level bounded singleton -/

theorem aux_crossSingleton_some (v : Val) (as ss : List Batch) (hlen : as.length = ss.length) :
    (crossSingletonStaticRun (some v) as ss).flatten = as.flatten.map (fun x => Val.pair x v) := by
  induction as generalizing ss with
  | nil => cases ss <;> simp [crossSingletonStaticRun]
  | cons a as ih =>
    cases ss with
    | nil => simp at hlen
    | cons s ss => simp [crossSingletonStaticRun, ih ss (by simpa using hlen)]

theorem aux_crossSingleton_none (as ss : List Batch) (hlen : as.length = ss.length) (hss : ss.flatten = []) :
    (crossSingletonStaticRun none as ss).flatten = [] := by
  induction as generalizing ss with
  | nil => cases ss <;> simp [crossSingletonStaticRun]
  | cons a as ih =>
    cases ss with
    | nil => simp at hlen
    | cons s ss =>
      simp only [List.flatten_cons, List.append_eq_nil_iff] at hss
      obtain ⟨rfl, h2⟩ := hss
      simp [crossSingletonStaticRun, ih ss (by simpa using hlen) h2]

theorem aux_crossSingleton_flatten (sv : List Val) (as os : List Batch) (hlen : as.length = (sv :: os).length)
    (hos : os.flatten = []) :
    (crossSingletonStaticRun none as (sv :: os)).flatten =
      match sv.head? with
      | some v => as.flatten.map (fun x => Val.pair x v)
      | none => [] := by
  cases as with
  | nil => simp at hlen
  | cons a as =>
    cases hv : sv.head? with
    | some v =>
      simp [crossSingletonStaticRun, hv, aux_crossSingleton_some v as os (by simpa using hlen)]
    | none =>
      simp [crossSingletonStaticRun, hv, aux_crossSingleton_none as os (by simpa using hlen) hos]

/-! ### reduce_no_replay and the static-side operators -/

theorem aux_reduceNoReplay_rest (f : Val → Val → Val) (s : Option Val) (os : List Batch) (hos : os.flatten = []) :
    (reduceNoReplayRun f false s os).flatten = [] := by
  induction os generalizing s with
  | nil => simp [reduceNoReplayRun]
  | cons o os ih =>
    simp only [List.flatten_cons, List.append_eq_nil_iff] at hos
    obtain ⟨rfl, h2⟩ := hos
    simp [reduceNoReplayRun, ih _ h2]

/-- once the bounded side is complete the operator is element-wise in the streaming side -/
theorem aux_staticSide_rest (g : List Val → List Val → List Val) (hnil : ∀ st, g st [] = [])
    (happ : ∀ st a b, g st (a ++ b) = g st a ++ g st b) (st : List Val) (as os : List Batch)
    (hlen : as.length = os.length) (hos : os.flatten = []) :
    (staticSideRun g st as os).flatten = g st as.flatten := by
  induction as generalizing os with
  | nil => cases os <;> simp [staticSideRun, hnil]
  | cons a as ih =>
    cases os with
    | nil => simp at hlen
    | cons o os =>
      simp only [List.flatten_cons, List.append_eq_nil_iff] at hos
      obtain ⟨rfl, h2⟩ := hos
      simp [staticSideRun, happ, ih os (by simpa using hlen) h2]

theorem aux_staticSide_flatten (g : List Val → List Val → List Val) (hnil : ∀ st, g st [] = [])
    (happ : ∀ st a b, g st (a ++ b) = g st a ++ g st b) (sb : List Val) (as os : List Batch)
    (hlen : as.length = (sb :: os).length) (hos : os.flatten = []) :
    (staticSideRun g [] as (sb :: os)).flatten = g sb as.flatten := by
  cases as with
  | nil => simp at hlen
  | cons a as =>
    simp [staticSideRun, happ, aux_staticSide_rest g hnil happ sb as os (by simpa using hlen) hos]

theorem aux_gJoinHalf_app (st a b : List Val) : gJoinHalf st (a ++ b) = gJoinHalf st a ++ gJoinHalf st b := by
  simp [gJoinHalf, joinL, List.flatMap_append]

theorem aux_gJoinHalf_perm (st a b : List Val) (h : a.Perm b) : (gJoinHalf st a).Perm (gJoinHalf st b) := by
  unfold gJoinHalf joinL
  exact List.Perm.flatMap_right _ h

/-! ### the machines are the usual list functions -/

theorem aux_enum (n : Nat) (l : List Val) :
    (mealyList enumStep n l).2 = (l.zipIdx n).map (fun p => Val.pair (.int p.2) p.1) := by
  induction l generalizing n with
  | nil => simp [mealyList]
  | cons x xs ih => simp [mealyList, enumStep, ih, List.zipIdx_cons]

theorem aux_reduce (f : Val → Val → Val) (l : List Val) :
    l.foldl (reduceStep f) none = match l with | [] => none | x :: xs => some (xs.foldl f x) := by
  cases l with
  | nil => rfl
  | cons x xs =>
    simp only [List.foldl_cons, reduceStep]
    generalize x = a
    induction xs generalizing a with
    | nil => rfl
    | cons y ys ih => simp [List.foldl_cons, reduceStep, ih]

theorem aux_uniq_sublist (seen l : List Val) : (mealyList uniqStep seen l).2.Sublist l := by
  induction l generalizing seen with
  | nil => simp [mealyList]
  | cons x xs ih =>
    by_cases hx : x ∈ seen
    · simpa [mealyList, uniqStep, hx] using (ih seen).cons x
    · simpa [mealyList, uniqStep, hx] using (ih (x :: seen)).cons_cons x


end HvHydro
