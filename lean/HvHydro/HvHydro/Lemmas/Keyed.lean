/-
Helper lemmas for C28/C29: the association-list (`HashMap`) states of the keyed operators
(`fold_keyed`, `reduce_keyed`, keyed `scan` / `generator`): lookups, per-key projections, and the fact
that the final map is — up to the order of its entries — a function of the per-key value multisets when
the combining closure is commutative (keyed streams whose values are `NoOrder`).
-/
import HvHydro.Lemmas.Ops

namespace HvHydro
open List

/-- the values of key `k`, in stream order -/
def keyVals (k : Val) (l : List Val) : List Val := (l.filter (fun x => decide (x.key = k))).map Val.value

theorem aux_key_pair (a b : Val) : (Val.pair a b).key = a := rfl

theorem aux_alookup_ainsert {α : Type} (m : List (Val × α)) (k k' : Val) (v : α) :
    alookup (ainsert m k v) k' = if k' = k then some v else alookup m k' := by
  induction m with
  | nil => simp [ainsert, alookup]
  | cons e r ih =>
    obtain ⟨k0, v0⟩ := e
    by_cases h : k = k0
    · subst h
      by_cases h2 : k' = k <;> simp [ainsert, alookup, h2]
    · by_cases h2 : k' = k0
      · subst h2
        have : ¬ k' = k := fun e => h e.symm
        simp [ainsert, alookup, h, this]
      · simp [ainsert, alookup, h, h2, ih]

theorem aux_keyVals_perm (k : Val) (l l' : List Val) (h : l.Perm l') : (keyVals k l).Perm (keyVals k l') :=
  (h.filter _).map _

/-! ### keyed fold / keyed reduce: the value of a key is the fold of that key's values -/

theorem aux_kfold (init : Val) (f : Val → Val → Val) (k : Val) (l : List Val) (m : List (Val × Val)) :
    alookup (l.foldl (kfoldStep init f) m) k
      = (keyVals k l).foldl (fun o v => some (f (o.getD init) v)) (alookup m k) := by
  induction l generalizing m with
  | nil => simp [keyVals]
  | cons x xs ih =>
    rw [List.foldl_cons, ih]
    by_cases hx : x.key = k
    · have hkv : keyVals k (x :: xs) = x.value :: keyVals k xs := by simp [keyVals, hx]
      rw [hkv, List.foldl_cons]
      congr 1
      subst hx
      unfold kfoldStep
      cases h1 : alookup m x.key <;> simp [h1, aux_alookup_ainsert]
    · have hkv : keyVals k (x :: xs) = keyVals k xs := by simp [keyVals, hx]
      have hk : ¬ k = x.key := fun e => hx e.symm
      rw [hkv]
      congr 1
      unfold kfoldStep
      simp [aux_alookup_ainsert, hk]

theorem aux_kreduce (f : Val → Val → Val) (k : Val) (l : List Val) (m : List (Val × Val)) :
    alookup (l.foldl (kreduceStep f) m) k = (keyVals k l).foldl (reduceStep f) (alookup m k) := by
  induction l generalizing m with
  | nil => simp [keyVals]
  | cons x xs ih =>
    rw [List.foldl_cons, ih]
    by_cases hx : x.key = k
    · have hkv : keyVals k (x :: xs) = x.value :: keyVals k xs := by simp [keyVals, hx]
      rw [hkv, List.foldl_cons]
      congr 1
      subst hx
      unfold kreduceStep
      cases h1 : alookup m x.key <;> simp [h1, aux_alookup_ainsert, reduceStep]
    · have hkv : keyVals k (x :: xs) = keyVals k xs := by simp [keyVals, hx]
      have hk : ¬ k = x.key := fun e => hx e.symm
      rw [hkv]
      congr 1
      unfold kreduceStep
      cases h1 : alookup m x.key <;> simp [h1, aux_alookup_ainsert, hk]

/-! ### maps with distinct keys are determined, up to order, by their lookups -/

def akeys {α : Type} (m : List (Val × α)) : List Val := m.map Prod.fst

theorem aux_alookup_none {α : Type} (m : List (Val × α)) (k : Val) : alookup m k = none ↔ k ∉ akeys m := by
  induction m with
  | nil => simp [alookup, akeys]
  | cons e r ih =>
    obtain ⟨k0, v0⟩ := e
    by_cases h : k = k0
    · simp [alookup, akeys, h]
    · simp only [alookup, h, if_false, akeys, List.map_cons, List.mem_cons, false_or]
      exact ih

theorem aux_akeys_ainsert {α : Type} (m : List (Val × α)) (k : Val) (v : α) :
    akeys (ainsert m k v) = if k ∈ akeys m then akeys m else akeys m ++ [k] := by
  induction m with
  | nil => simp [ainsert, akeys]
  | cons e r ih =>
    obtain ⟨k0, v0⟩ := e
    by_cases h : k = k0
    · simp [ainsert, akeys, h]
    · have ih' : List.map Prod.fst (ainsert r k v) =
          if k ∈ List.map Prod.fst r then List.map Prod.fst r else List.map Prod.fst r ++ [k] := ih
      simp only [ainsert, h, if_false, akeys, List.map_cons, List.mem_cons, false_or, ih']
      split <;> simp

theorem aux_akeys_nodup_ainsert {α : Type} (m : List (Val × α)) (k : Val) (v : α) (h : (akeys m).Nodup) :
    (akeys (ainsert m k v)).Nodup := by
  rw [aux_akeys_ainsert]
  split
  · exact h
  · rename_i hk
    exact List.nodup_append.mpr ⟨h, by simp, by
      intro a ha b hb
      simp only [List.mem_singleton] at hb
      subst hb
      intro e; subst e; exact hk ha⟩

theorem aux_akeys_nodup_kfold (init : Val) (f : Val → Val → Val) (l : List Val) (m : List (Val × Val))
    (h : (akeys m).Nodup) : (akeys (l.foldl (kfoldStep init f) m)).Nodup := by
  induction l generalizing m with
  | nil => exact h
  | cons x xs ih => exact ih _ (aux_akeys_nodup_ainsert m _ _ h)

theorem aux_akeys_nodup_kreduce (f : Val → Val → Val) (l : List Val) (m : List (Val × Val))
    (h : (akeys m).Nodup) : (akeys (l.foldl (kreduceStep f) m)).Nodup := by
  induction l generalizing m with
  | nil => exact h
  | cons x xs ih =>
    apply ih
    simp only [kreduceStep]
    split <;> exact aux_akeys_nodup_ainsert m _ _ h

theorem aux_mem_iff_alookup {α : Type} (m : List (Val × α)) (h : (akeys m).Nodup) (k : Val) (v : α) :
    (k, v) ∈ m ↔ alookup m k = some v := by
  induction m with
  | nil => simp [alookup]
  | cons e r ih =>
    obtain ⟨k0, v0⟩ := e
    simp only [akeys, List.map_cons, List.nodup_cons] at h
    by_cases hk : k = k0
    · subst hk
      simp only [List.mem_cons, Prod.mk.injEq, true_and, alookup, if_true, Option.some.injEq]
      constructor
      · rintro (e | hm)
        · exact e.symm
        · exact absurd (List.mem_map.mpr ⟨(k, v), hm, rfl⟩) h.1
      · intro e; exact Or.inl e.symm
    · simp only [List.mem_cons, Prod.mk.injEq, hk, false_and, false_or, alookup, if_false]
      exact ih h.2

theorem aux_perm_of_alookup_eq {α : Type} (m m' : List (Val × α)) (h : (akeys m).Nodup) (h' : (akeys m').Nodup)
    (heq : ∀ k, alookup m k = alookup m' k) : m.Perm m' := by
  have hn : ∀ (l : List (Val × α)), (akeys l).Nodup → l.Nodup := by
    intro l hl
    induction l with
    | nil => exact List.nodup_nil
    | cons e r ih =>
      simp only [akeys, List.map_cons, List.nodup_cons] at hl
      exact List.nodup_cons.mpr ⟨fun hm => hl.1 (List.mem_map.mpr ⟨e, hm, rfl⟩), ih hl.2⟩
  rw [List.perm_ext_iff_of_nodup (hn m h) (hn m' h')]
  rintro ⟨k, v⟩
  rw [aux_mem_iff_alookup m h, aux_mem_iff_alookup m' h', heq]

/-! ### commutative closures: the final map does not depend on the order of the values -/

/-- keyed fold with a commutative closure: permuting the input permutes the entries of the final map -/
theorem aux_kfold_perm (init : Val) (f : Val → Val → Val) (hc : ∀ a x y, f (f a x) y = f (f a y) x)
    (l l' : List Val) (h : l.Perm l') :
    (entries (l.foldl (kfoldStep init f) [])).Perm (entries (l'.foldl (kfoldStep init f) [])) := by
  unfold entries
  apply List.Perm.map
  apply aux_perm_of_alookup_eq _ _ (aux_akeys_nodup_kfold init f l [] (by simp [akeys]))
    (aux_akeys_nodup_kfold init f l' [] (by simp [akeys]))
  intro k
  rw [aux_kfold, aux_kfold]
  exact List.Perm.foldl_eq' (aux_keyVals_perm k l l' h) (fun x _ y _ o => by simp [hc]) _

theorem aux_reduceStep_comm (f : Val → Val → Val) (hc : ∀ a x y, f (f a x) y = f (f a y) x)
    (hs : ∀ x y, f x y = f y x) (o : Option Val) (x y : Val) :
    reduceStep f (reduceStep f o x) y = reduceStep f (reduceStep f o y) x := by
  cases o with
  | none => simp [reduceStep, hs x y]
  | some a => simp [reduceStep, hc a x y]

/-- keyed reduce with a commutative closure -/
theorem aux_kreduce_perm (f : Val → Val → Val) (hc : ∀ a x y, f (f a x) y = f (f a y) x)
    (hs : ∀ x y, f x y = f y x) (l l' : List Val) (h : l.Perm l') :
    (entries (l.foldl (kreduceStep f) [])).Perm (entries (l'.foldl (kreduceStep f) [])) := by
  unfold entries
  apply List.Perm.map
  apply aux_perm_of_alookup_eq _ _ (aux_akeys_nodup_kreduce f l [] (by simp [akeys]))
    (aux_akeys_nodup_kreduce f l' [] (by simp [akeys]))
  intro k
  rw [aux_kreduce, aux_kreduce]
  exact List.Perm.foldl_eq' (aux_keyVals_perm k l l' h)
    (fun x _ y _ o => aux_reduceStep_comm f hc hs o x y) _

end HvHydro
