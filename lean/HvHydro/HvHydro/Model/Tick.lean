/-
Model of tick-scoped (bounded) collections as `emit_core` lowers them: every stateful DFIR operator
inside a tick gets `tick_state_lifetime` = `'tick`, i.e. its state is re-initialised at the end of
every tick (`write_tick_end`); `defer_tick` and tick cycles (`TickCycle` = `DeferTick { CycleSource }`)
become `defer_tick_lazy()`, which hands the tick's items over to the next tick.

`evalAt next fuel tt hist` is what the sub-term `tt` holds during the LAST tick of the history `hist`
(all ticks so far, oldest first).  `next` is the collection the program passes to
`complete_next_tick` of its (single) tick cycle; `TTerm.cyc` is the cycle's value.

No imports: linked into the native driver.
-/
import HvHydro.Model.Hydro
namespace HvHydro

/-- `Ord` of the element types used by the corpus (`i64`, tuples: lexicographic) -/
def Val.le : Val → Val → Bool
  | .int a, .int b => decide (a ≤ b)
  | .int _, .pair _ _ => true
  | .pair _ _, .int _ => false
  | .pair a b, .pair c d => if a = c then Val.le b d else Val.le a c

/-- tick-scoped collections -/
inductive TTerm where
  | batch (i : Nat)                                   -- `input_i.batch(&tick, nondet!)`: what arrived this tick
  | cyc                                               -- the tick cycle's value (sent one tick earlier)
  | map (f : Val → Val) (t : TTerm)
  | filter (p : Val → Bool) (t : TTerm)
  | flatMap (g : Val → List Val) (t : TTerm)
  | filterMap (h : Val → Option Val) (t : TTerm)
  | enumerate (t : TTerm)                             -- `enumerate::<'tick>()`
  | unique (t : TTerm)                                -- `unique::<'tick>()`
  | sort (t : TTerm)                                  -- `sort()`
  | scan (init : Val) (f : Val → Val → Option (Val × Val)) (t : TTerm)   -- `scan::<'tick>`
  | limit (n : Nat) (t : TTerm)                       -- `limit(n)`: generator = `scan::<'tick>` + `flat_map`
  | fold (init : Val) (f : Val → Val → Val) (t : TTerm)                  -- `fold::<'tick>`: a singleton
  | reduce (f : Val → Val → Val) (t : TTerm)          -- `reduce::<'tick>`: an optional
  | kfold (init : Val) (f : Val → Val → Val) (t : TTerm)                 -- `fold_keyed::<'tick>`
  | chain (a b : TTerm)                               -- `chain()`: all of `a`, then all of `b`
  | crossSingleton (t s : TTerm)                      -- `cross_singleton()` (state cleared every tick)
  | joinHalf (probe build : TTerm)                    -- `join` with a bounded right side: `join_multiset_half::<'tick,'tick>`
  | antiJoin (pos neg : TTerm)                        -- `anti_join::<'tick,'tick>`: `neg` is a stream of keys
  | difference (pos neg : TTerm)                      -- `filter_not_in`: `difference::<'tick,'tick>`
  | deferTick (t : TTerm)                             -- `defer_tick()`: `defer_tick_lazy()`
  | constS (v : Val)                                  -- `tick.singleton(q!(v))`: `SingletonSource { first_tick_only: false }`
                                                      --   inside a tick = `source_iter([v]) -> persist::<'static>()`: `[v]` in EVERY tick
  | firstTick (v : Val)                               -- `tick.optional_first_tick(q!(v))`: `SingletonSource { first_tick_only: true }`
                                                      --   = `source_iter([v])` (no persist): `[v]` in the FIRST tick only
  | chainFirst (a b : TTerm)                          -- `Optional::or` / `unwrap_or`: `ChainFirst` = `chain_first_n(1)`
                                                      --   (`union` of pulls = `[0]` then `[1]`, then `take(1)`)
  | acrossFold (init : Val) (f : Val → Val → Val) (t : TTerm)
      -- `t.across_ticks(|s| s.fold(init, f))`: `all_ticks_atomic` (identity), `fold::<'static>` at the
      -- atomic (top-level) location, snapshot back into the tick (identity)

/-- `limit(n)`: the generator closure counts the items it has let through -/
def limitStep (n : Nat) (c : Nat) (x : Val) : Nat × List Val :=
  if c < n then (c + 1, [x]) else (c, [])

def mem (l : List Val) (x : Val) : Bool := l.any (fun y => decide (y = x))

/-- value of `tt` during the last tick of `hist` -/
def evalAt (next : TTerm) : Nat → TTerm → List TickIn → Batch
  | _, .batch i, hist => inBatch (hist.getLast?.getD []) i
  | 0, .cyc, _ => []
  | fuel + 1, .cyc, hist => if hist.length ≤ 1 then [] else evalAt next fuel next hist.dropLast
  | fuel, .map f t, hist => (evalAt next fuel t hist).map f
  | fuel, .filter p t, hist => (evalAt next fuel t hist).filter p
  | fuel, .flatMap g t, hist => (evalAt next fuel t hist).flatMap g
  | fuel, .filterMap h t, hist => (evalAt next fuel t hist).filterMap h
  | fuel, .enumerate t, hist => (mealyList enumStep 0 (evalAt next fuel t hist)).2
  | fuel, .unique t, hist => (mealyList uniqStep [] (evalAt next fuel t hist)).2
  | fuel, .sort t, hist => (evalAt next fuel t hist).mergeSort Val.le
  | fuel, .scan init f t, hist => (mealyList (scanStep f) (some init) (evalAt next fuel t hist)).2
  | fuel, .limit n t, hist => (mealyList (limitStep n) 0 (evalAt next fuel t hist)).2
  | fuel, .fold init f t, hist => [(evalAt next fuel t hist).foldl f init]
  | fuel, .reduce f t, hist => ((evalAt next fuel t hist).foldl (reduceStep f) none).toList
  | fuel, .kfold init f t, hist => entries ((evalAt next fuel t hist).foldl (kfoldStep init f) [])
  | fuel, .chain a b, hist => evalAt next fuel a hist ++ evalAt next fuel b hist
  | fuel, .crossSingleton t s, hist =>
    match (evalAt next fuel s hist).head? with
    | some v => (evalAt next fuel t hist).map (fun x => Val.pair x v)
    | none => []
  | fuel, .joinHalf p b, hist => joinL (evalAt next fuel p hist) (evalAt next fuel b hist)
  | fuel, .antiJoin p n, hist =>
    let neg := evalAt next fuel n hist
    (evalAt next fuel p hist).filter (fun x => !mem neg x.key)
  | fuel, .difference p n, hist =>
    let neg := evalAt next fuel n hist
    (evalAt next fuel p hist).filter (fun x => !mem neg x)
  | fuel, .deferTick t, hist => if hist.length ≤ 1 then [] else evalAt next fuel t hist.dropLast
  | _, .constS v, _ => [v]
  | _, .firstTick v, hist => if hist.length ≤ 1 then [v] else []
  | fuel, .chainFirst a b, hist => (evalAt next fuel a hist ++ evalAt next fuel b hist).take 1
  | fuel, .acrossFold init f t, hist =>
    -- the `'static` accumulator has folded every batch the collection held so far, this tick's included
    [(((List.range hist.length).map (fun i => evalAt next fuel t (hist.take (i + 1)))).flatten).foldl f init]
termination_by fuel t => (fuel, t)

/-- a tick program: what is sent to `complete_next_tick` (if a cycle is used) and the collection whose
    `all_ticks()` is observed -/
structure TProg where
  next : TTerm
  out : TTerm

/-- per-tick outputs (`all_ticks()` = `YieldConcat` is the identity in `ProdDfirBuilder`) -/
def TProg.run (p : TProg) (ins : List TickIn) : List Batch :=
  (List.range ins.length).map (fun i => evalAt p.next ins.length p.out (ins.take (i + 1)))

/-- does the term look back in time? -/
def TTerm.stateless : TTerm → Bool
  | .batch _ => true
  | .cyc => false
  | .deferTick _ => false
  | .acrossFold _ _ _ => false
  | .constS _ => true
  | .firstTick _ => false
  | .map _ t | .filter _ t | .flatMap _ t | .filterMap _ t | .enumerate t | .unique t | .sort t
  | .scan _ _ t | .limit _ t | .fold _ _ t | .reduce _ t | .kfold _ _ t => t.stateless
  | .chain a b | .crossSingleton a b | .joinHalf a b | .antiJoin a b | .difference a b | .chainFirst a b =>
    a.stateless && b.stateless

/-! ### tick cycles with an initial value (`Tick::cycle_with_initial`, `sliced! { use::state(..) }`)

hydro_lang builds them out of the nodes above (live_collections/optional.rs, singleton.rs); the definitions below
transcribe that library code expression by expression.  Rust values of the helper closures are encoded in `Val`:
`()` = `int 0`, `bool` = `int 0/1`, `None` = `int 0`, `Some x` = `pair (int 1) x`. -/

def vUnit : Val := .int 0
def vNone : Val := .int 0
def vSome (x : Val) : Val := .pair (.int 1) x
def vBool (b : Bool) : Val := .int (if b then 1 else 0)

/-- `Optional::into_singleton`: `self.map(q!(|v| Some(v))).unwrap_or(none_singleton)` where `none_singleton` is
    `SingletonSource { value: None, first_tick_only: false }` -/
def TTerm.intoSingleton (o : TTerm) : TTerm := .chainFirst (.map vSome o) (.constS vNone)

/-- `Optional::is_some`: `self.map(q!(|_| ())).into_singleton().map(q!(|o| o.is_some()))` -/
def TTerm.isSome (o : TTerm) : TTerm :=
  .map (fun o => vBool (decide (o ≠ vNone))) (TTerm.intoSingleton (.map (fun _ => vUnit) o))

/-- `Optional::filter_if(signal)`: `self.zip(signal.filter(q!(|b| *b))).map(q!(|(d, _)| d))`;
    `zip` inside a tick is `HydroNode::CrossSingleton` (`zip_inside_tick`) -/
def TTerm.filterIf (d signal : TTerm) : TTerm :=
  .map Val.key (.crossSingleton d (.filter (fun b => decide (b = vBool true)) signal))

/-- `impl CycleCollectionWithInitial<TickCycle> for Optional`: `create_source_with_initial` =
    `from_previous_tick.or(initial.filter_if(location.optional_first_tick(q!(())).is_some()))`
    with `from_previous_tick = DeferTick { CycleSource }` (= `TTerm.cyc`) -/
def TTerm.optCycleWithInitial (initial : TTerm) : TTerm :=
  .chainFirst .cyc (TTerm.filterIf initial (TTerm.isSome (.firstTick vUnit)))

/-- `impl CycleCollectionWithInitial<TickCycle> for Singleton`: `from_previous_tick.unwrap_or(initial)` -/
def TTerm.singCycleWithInitial (initial : TTerm) : TTerm := .chainFirst .cyc initial

end HvHydro
