/-
Model of how `hydro_lang` lowers the safe top-level (and tick-level) API to DFIR
(`hydro_lang/src/compile/ir/mod.rs`, `emit_core`) and of what the DFIR operators chosen there
do in one tick (`dfir_lang/src/graph/ops/*.rs`, inline code generator: `Dfir::run_tick` runs
every subgraph once per tick in topological order).

A program is a `Term`.  `run t ins` is the list of output batches, one per tick, when the
runtime delivers the inputs split into the ticks `ins` (`ins : List TickIn`, one entry per tick,
holding one batch per input port).  `spec t I` is the stream-level meaning on the whole inputs
`I : Nat → List Val`.

Lifetimes follow `emit_core`:
 * top-level stateful operators get `cross_tick_state_lifetime` = `'static`
   (enumerate, scan, unique, fold, reduce, fold_keyed, join_multiset -> multiset_delta,
    cross_singleton with a top-level bounded singleton, fold_no_replay for top-level bounded input);
 * tick-level ones get `tick_state_lifetime` = `'tick` (state is reset at the end of the tick).

No imports: this file is linked into the native driver.
-/
namespace HvHydro

/-- stream elements: machine integers (kept small by the harness) and pairs -/
inductive Val where
  | int (i : Int)
  | pair (a b : Val)
  deriving DecidableEq, Repr, Inhabited

abbrev Batch := List Val
/-- what arrives in one tick: one batch per input port -/
abbrev TickIn := List Batch

def inBatch (ti : TickIn) (i : Nat) : Batch := ti.getD i []

/-- the whole input of port `i`: concatenation of its batches -/
def wholeInput (ins : List TickIn) (i : Nat) : List Val := (ins.map (inBatch · i)).flatten

def Val.key : Val → Val
  | .pair k _ => k
  | v => v
def Val.value : Val → Val
  | .pair _ v => v
  | v => v

/-! ## Generic machines -/

/-- an element-wise operator with state (DFIR `map`/`filter` closures over a captured state cell):
    feeds the elements of one batch through `step`, concatenating what is emitted -/
def mealyList {σ : Type} (step : σ → Val → σ × List Val) : σ → List Val → σ × List Val
  | s, [] => (s, [])
  | s, x :: xs =>
    let r := step s x
    let r' := mealyList step r.1 xs
    (r'.1, r.2 ++ r'.2)

/-- `'static` persistence: the state survives the end of the tick -/
def mealyStatic {σ : Type} (step : σ → Val → σ × List Val) : σ → List Batch → List Batch
  | _, [] => []
  | s, b :: bs =>
    let r := mealyList step s b
    r.2 :: mealyStatic step r.1 bs

/-- `'tick` persistence: `write_tick_end` resets the state to its initial value -/
def mealyTick {σ : Type} (step : σ → Val → σ × List Val) (s0 : σ) (bs : List Batch) : List Batch :=
  bs.map (fun b => (mealyList step s0 b).2)

/-- accumulating operator with `'static` persistence (`fold`, `reduce`, `fold_keyed`): the tick's batch
    is folded into the state first ("eagerly consume input"), then the state is emitted -/
def accStatic {σ : Type} (f : σ → Val → σ) (emit : σ → Batch) : σ → List Batch → List Batch
  | _, [] => []
  | s, b :: bs =>
    let s' := b.foldl f s
    emit s' :: accStatic f emit s' bs

/-- same with `'tick` persistence: the accumulator is re-initialised at the end of every tick -/
def accTick {σ : Type} (f : σ → Val → σ) (emit : σ → Batch) (s0 : σ) (bs : List Batch) : List Batch :=
  bs.map (fun b => emit (b.foldl f s0))

/-! ## The steps of the individual operators -/

/-- `enumerate::<lt>()`: counter `0..` -/
def enumStep (n : Nat) (x : Val) : Nat × List Val := (n + 1, [Val.pair (.int n) x])

/-- `scan::<lt>(init, f)`: state `Option acc`; once `f` answers `None` the state is `None` and
    nothing is emitted any more (`if state.is_none() { return None }`) -/
def scanStep (f : Val → Val → Option (Val × Val)) (s : Option Val) (x : Val) : Option Val × List Val :=
  match s with
  | none => (none, [])
  | some a =>
    match f a x with
    | none => (none, [])
    | some (a', u) => (some a', [u])

/-- `unique::<lt>()`: hash set of the items seen -/
def uniqStep (seen : List Val) (x : Val) : List Val × List Val :=
  if x ∈ seen then (seen, []) else (x :: seen, [x])

/-- association list used for `HashMap` states (insertion ordered; order is never observed
    except through hash iteration, which the harness canonicalises) -/
def alookup (m : List (Val × α)) (k : Val) : Option α :=
  match m with
  | [] => none
  | (k', v) :: r => if k = k' then some v else alookup r k

def ainsert (m : List (Val × α)) (k : Val) (v : α) : List (Val × α) :=
  match m with
  | [] => [(k, v)]
  | (k', v') :: r => if k = k' then (k, v) :: r else (k', v') :: ainsert r k v

/-- `KeyedStream::scan` = `generator` lowered to a `Scan` over `HashMap<K, Option<A>>`
    followed by `flat_map(|d| d)`: per key state, `None` once the key's scan has stopped -/
def kscanStep (init : Val) (f : Val → Val → Option (Val × Val))
    (m : List (Val × Option Val)) (x : Val) : List (Val × Option Val) × List Val :=
  let k := x.key
  let st := match alookup m k with
    | none => some init
    | some s => s
  match st with
  | none => (ainsert m k none, [])
  | some a =>
    match f a x.value with
    | none => (ainsert m k none, [])
    | some (a', u) => (ainsert m k (some a'), [Val.pair k u])

/-- what the closure of `KeyedStream::generator` answers (`hydro_lang::live_collections::keyed_stream::Generate`):
    `Yield(out)` (state kept), `Return(out)` (emit and stop this key), `Break` (stop this key), `Continue` -/
inductive Gen where
  | yield (a u : Val)
  | ret (u : Val)
  | brk
  | cont (a : Val)

/-- one (un-keyed) generator: `None` once it has returned / broken -/
def genStep (g : Val → Val → Gen) (s : Option Val) (x : Val) : Option Val × List Val :=
  match s with
  | none => (none, [])
  | some a =>
    match g a x with
    | .yield a' u => (some a', [u])
    | .ret u => (none, [u])
    | .brk => (none, [])
    | .cont a' => (some a', [])

/-- `KeyedStream::generator(init, g)`: `Scan` over `HashMap<K, Option<A>>`
    (`entry(k).or_insert_with(|| Some(init()))`, `existing_state.take()` on `Return` / `Break`) followed by
    `flat_map(|d| d)`.  `KeyedStream::limit`, `enumerate` (via `scan`), `first` (via `fold_early_stop`) are
    instances -/
def kgenStep (init : Val) (g : Val → Val → Gen)
    (m : List (Val × Option Val)) (x : Val) : List (Val × Option Val) × List Val :=
  let k := x.key
  let st := match alookup m k with
    | none => some init
    | some s => s
  match st with
  | none => (ainsert m k none, [])
  | some a =>
    match g a x.value with
    | .yield a' u => (ainsert m k (some a'), [Val.pair k u])
    | .ret u => (ainsert m k none, [Val.pair k u])
    | .brk => (ainsert m k none, [])
    | .cont a' => (ainsert m k (some a'), [])

/-- the closure of `KeyedStream::limit(n)` (state: how many values of the key were let through) -/
def limitGen (n : Nat) : Val → Val → Gen := fun c x =>
  match c with
  | .int c => if c = n then .brk else if c + 1 = n then .ret x else .yield (.int (c + 1)) x
  | _ => .brk

/-- the closure of `KeyedStream::enumerate()` (a `scan` that always answers `Some((curr, next))`) -/
def enumGen : Val → Val → Gen := fun c x =>
  match c with
  | .int c => .yield (.int (c + 1)) (.pair (.int c) x)
  | c => .yield c (.pair c x)

/-- the closure of `KeyedStream::first()` (`fold_early_stop` whose closure stores the value and answers
    `true`, i.e. `Return`, followed by `map(|v| v.unwrap())`) -/
def firstGen : Val → Val → Gen := fun _ x => .ret x

/-- `reduce`: `None` until the first item -/
def reduceStep (f : Val → Val → Val) (s : Option Val) (x : Val) : Option Val :=
  match s with
  | none => some x
  | some a => some (f a x)

/-- `fold_keyed(init, f)`: `entry(k).or_insert_with(init)` then `f` -/
def kfoldStep (init : Val) (f : Val → Val → Val) (m : List (Val × Val)) (x : Val) : List (Val × Val) :=
  let k := x.key
  let a := match alookup m k with
    | none => init
    | some a => a
  ainsert m k (f a x.value)

/-- `reduce_keyed(f)`: a vacant entry takes the value, an occupied one is combined with `f` -/
def kreduceStep (f : Val → Val → Val) (m : List (Val × Val)) (x : Val) : List (Val × Val) :=
  let k := x.key
  match alookup m k with
  | none => ainsert m k x.value
  | some a => ainsert m k (f a x.value)

def entries (m : List (Val × Val)) : List Val := m.map (fun kv => Val.pair kv.1 kv.2)

/-- the multiset join of two lists of pairs (`join_multiset`): all `(k, (v1, v2))` with equal keys -/
def joinL (l r : List Val) : List Val :=
  l.flatMap (fun x => r.filterMap (fun y =>
    if x.key = y.key then some (Val.pair x.key (Val.pair x.value y.value)) else none))

/-- `multiset_delta()`: an item passes unless the previous tick's multiset still has a copy of it -/
def msDelta : List Val → List Val → List Val
  | _, [] => []
  | prev, x :: xs => if x ∈ prev then msDelta (prev.erase x) xs else x :: msDelta prev xs

/-- `join_multiset::<'static,'static>() -> multiset_delta()` (both inputs top level):
    each tick both inputs are drained into the persistent half-join states, the *whole* join of the
    states is replayed, and `multiset_delta` removes what the previous tick already emitted -/
def joinDeltaRun : List Val → List Val → List Batch → List Batch → List Batch
  | l, r, a :: as, b :: bs =>
    let l' := l ++ a
    let r' := r ++ b
    msDelta (joinL l r) (joinL l' r') :: joinDeltaRun l' r' as bs
  | _, _, _, _ => []

/-- a top-level bounded source (`source_iter`): everything in the first tick, nothing afterwards -/
def firstTickOnly (l : List Val) : List TickIn → List Batch
  | [] => []
  | _ :: r => l :: r.map (fun _ => [])

/-- `fold_no_replay::<'static>` (top-level bounded input): the accumulator is emitted in tick 0 and in
    every later tick in which an item arrived -/
def foldNoReplayRun (f : Val → Val → Val) : Bool → Val → List Batch → List Batch
  | _, _, [] => []
  | first, s, b :: bs =>
    let s' := b.foldl f s
    (if first || !b.isEmpty then [s'] else []) :: foldNoReplayRun f false s' bs

/-- `cross_singleton::<'static>()` with a top-level bounded singleton: the first value that ever
    arrives on `single` is kept forever; while there is none the tick's items are dropped -/
def crossSingletonStaticRun : Option Val → List Batch → List Batch → List Batch
  | st, a :: as, s :: ss =>
    let st' := match st with
      | some v => some v
      | none => s.head?
    (match st' with
     | some v => a.map (fun x => Val.pair x v)
     | none => []) :: crossSingletonStaticRun st' as ss
  | _, _, _ => []

/-- `reduce_no_replay::<'static>` (top-level bounded input): like `fold_no_replay`, for an `Option` accumulator -/
def reduceNoReplayRun (f : Val → Val → Val) : Bool → Option Val → List Batch → List Batch
  | _, _, [] => []
  | first, s, b :: bs =>
    let s' := b.foldl (reduceStep f) s
    (if first || !b.isEmpty then s'.toList else []) :: reduceNoReplayRun f false s' bs

/-- operators with one streaming side (`'tick`) and one top-level *bounded* side whose state is `'static`
    (`join_multiset_half::<'static,'tick>`, `anti_join::<'tick,'static>`, `difference::<'tick,'static>`):
    each tick the bounded side's new items are added to the persistent state first, then the streaming
    side's batch is processed against the state -/
def staticSideRun (g : List Val → List Val → List Val) : List Val → List Batch → List Batch → List Batch
  | st, a :: as, b :: bs =>
    let st' := st ++ b
    g st' a :: staticSideRun g st' as bs
  | _, _, _ => []

def memB (l : List Val) (x : Val) : Bool := l.any (fun y => decide (y = x))

/-- `join_multiset_half`: every probe item, in order, with its matches in build order -/
def gJoinHalf (build probe : List Val) : List Val := joinL probe build
/-- `anti_join`: probe items whose key is not among the (key) items of the static side -/
def gAntiJoin (neg pos : List Val) : List Val := pos.filter (fun x => !memB neg x.key)
/-- `difference`: items not among the static side's items -/
def gDifference (neg pos : List Val) : List Val := pos.filter (fun x => !memB neg x)

/-! ## Programs -/

/-- Top-level programs over the safe API.  Function arguments are the (pure) closures the user
    passes inside `q!(…)`; `comm` records that the user supplied a commutativity proof token. -/
inductive Term where
  | input (i : Nat)                                   -- `embedded_input`: Unbounded, TotalOrder
  | const (l : List Val)                              -- `source_iter(q!(vec![..]))`: Bounded, TotalOrder
  | map (f : Val → Val) (t : Term)                    -- HydroNode::Map -> `map`
  | filter (p : Val → Bool) (t : Term)                -- HydroNode::Filter -> `filter`
  | flatMap (g : Val → List Val) (t : Term)           -- HydroNode::FlatMap -> `flat_map`
  | filterMap (h : Val → Option Val) (t : Term)       -- HydroNode::FilterMap -> `filter_map`
  | enumerate (t : Term)                              -- HydroNode::Enumerate -> `enumerate::<'static>`
  | scan (init : Val) (f : Val → Val → Option (Val × Val)) (t : Term)   -- Scan -> `scan::<'static>`
  | unique (t : Term)                                 -- Unique -> `unique::<'static>`
  | kscan (init : Val) (f : Val → Val → Option (Val × Val)) (t : Term)  -- KeyedStream::scan
  | union (a b : Term)                                -- merge_unordered: Chain -> `chain()` of two unbounded
  | chain (a b : Term)                                -- Stream::chain, `a` bounded: Chain -> `chain()`
  | join (a b : Term)                                 -- Join (both unbounded) -> join_multiset<'static,'static> -> multiset_delta
  | fold (comm : Bool) (init : Val) (f : Val → Val → Val) (t : Term)    -- Fold -> `fold::<'static>`
  | reduce (f : Val → Val → Val) (t : Term)           -- Reduce -> `reduce::<'static>`
  | kfold (init : Val) (f : Val → Val → Val) (t : Term)                 -- FoldKeyed -> `fold_keyed::<'static>`
  | foldB (init : Val) (f : Val → Val → Val) (t : Term)                 -- Fold of a top-level bounded stream -> `fold_no_replay::<'static>`
  | crossSingleton (t s : Term)                       -- CrossSingleton, `s` top-level bounded -> `cross_singleton::<'static>`
  | reduceB (f : Val → Val → Val) (t : Term)          -- Reduce of a top-level bounded stream -> `reduce_no_replay::<'static>`
  | joinHalfS (t b : Term)                            -- JoinHalf, `b` top-level bounded -> `join_multiset_half::<'static,'tick>`
  | antiJoinS (t b : Term)                            -- AntiJoin, `b` top-level bounded -> `anti_join::<'tick,'static>`
  | differenceS (t b : Term)                          -- Difference (`filter_not_in`) -> `difference::<'tick,'static>`
  | kgen (init : Val) (g : Val → Val → Gen) (t : Term) -- KeyedStream::generator (limit / enumerate / first): Scan + FlatMap
  | entries (t : Term)                                -- KeyedStream::entries: the same DFIR stream, typed NoOrder
  | kreduce (f : Val → Val → Val) (t : Term)          -- ReduceKeyed -> `reduce_keyed::<'static>`
  | kfoldN (init : Val) (f : Val → Val → Val) (t : Term)   -- FoldKeyed of a keyed stream with NoOrder values (commutativity proof)
  | kreduceN (f : Val → Val → Val) (t : Term)         -- ReduceKeyed of a keyed stream with NoOrder values (commutativity proof)
  | joinLB (a b : Term)                               -- Stream::join, `a` top-level bounded, `b` unbounded: the same Join lowering
                                                      -- (the API types the result Bounded — finding F282; here it is kinded as what it is, `sN`)
  | smap (f : Val → Val) (t : Term)                   -- Singleton/Optional::map -> `map`
  | sfilter (p : Val → Bool) (t : Term)               -- Singleton/Optional::filter -> `filter`

/-- what kind of live collection a term denotes -/
inductive Kind where
  | sT      -- unbounded stream, TotalOrder
  | sK      -- unbounded keyed stream, TotalOrder per key (observed through `entries()`)
  | sN      -- unbounded stream, NoOrder
  | bT      -- top-level *bounded* stream, TotalOrder (all of it arrives in the first tick)
  | sing    -- unbounded singleton (the DFIR stream replays the current value every tick)
  | opt     -- unbounded optional
  | ksing   -- unbounded keyed singleton (the whole map is replayed every tick)
  | bsing   -- top-level bounded singleton (emitted once, in the first tick)
  deriving DecidableEq, Repr

open Kind in
/-- the typing rules of the safe API, as far as they matter for determinism
    (`O: IsOrdered`, `C: ValidCommutativityFor<O>`, `B: IsBounded`, …).  `none` = not expressible
    without `nondet!`. -/
def Term.kind : Term → Option Kind
  | .input _ => some sT
  | .const _ => some bT
  | .map _ t | .filter _ t | .flatMap _ t | .filterMap _ t =>
    match t.kind with
    | some sT => some sT
    | some sK => some sK
    | some sN => some sN
    | some bT => some bT
    | _ => none
  | .enumerate t | .scan _ _ t =>
    match t.kind with
    | some sT => some sT
    | _ => none
  | .unique t =>
    match t.kind with
    | some sT => some sT
    | some sN => some sN
    | _ => none
  | .kscan _ _ t =>
    match t.kind with
    | some sT => some sK
    | some sK => some sK
    | _ => none
  | .union a b =>
    match a.kind, b.kind with
    | some ka, some kb =>
      if (ka = sT ∨ ka = sK ∨ ka = sN) ∧ (kb = sT ∨ kb = sK ∨ kb = sN) then some sN else none
    | _, _ => none
  | .chain a b =>
    match a.kind, b.kind with
    | some bT, some sT => some sT
    | some bT, some sN => some sN
    | some bT, some bT => some bT
    | _, _ => none
  | .join a b =>
    match a.kind, b.kind with
    | some ka, some kb =>
      if (ka = sT ∨ ka = sK ∨ ka = sN) ∧ (kb = sT ∨ kb = sK ∨ kb = sN) then some sN else none
    | _, _ => none
  | .fold comm _ _ t =>
    match t.kind with
    | some sT => some sing
    | some sN => if comm then some sing else none
    | _ => none
  | .reduce _ t =>
    match t.kind with
    | some sT => some opt
    | _ => none
  | .kfold _ _ t =>
    match t.kind with
    | some sT => some ksing
    | some sK => some ksing
    | _ => none
  | .foldB _ _ t =>
    match t.kind with
    | some bT => some bsing
    | _ => none
  | .crossSingleton t s =>
    match t.kind, s.kind with
    | some sT, some bsing => some sT
    | some sN, some bsing => some sN
    | _, _ => none
  | .reduceB _ t =>
    match t.kind with
    | some bT => some bsing
    | _ => none
  | .joinHalfS t b | .antiJoinS t b | .differenceS t b =>
    match t.kind, b.kind with
    | some sT, some bT => some sT
    | some sN, some bT => some sN
    | _, _ => none
  | .joinLB a b =>
    match a.kind, b.kind with
    | some bT, some kb => if kb = sT ∨ kb = sK ∨ kb = sN then some sN else none
    | _, _ => none
  | .kgen _ _ t =>
    match t.kind with
    | some sT => some sK
    | some sK => some sK
    | _ => none
  | .entries t =>
    match t.kind with
    | some sK => some sN
    | _ => none
  | .kreduce _ t =>
    match t.kind with
    | some sT => some ksing
    | some sK => some ksing
    | _ => none
  | .kfoldN _ _ t | .kreduceN _ t =>
    match t.kind with
    | some sN => some ksing
    | _ => none
  | .smap _ t =>
    match t.kind with
    | some sing => some sing
    | some opt => some opt
    | some bsing => some bsing
    | _ => none
  | .sfilter _ t =>
    match t.kind with
    | some sing => some opt
    | some opt => some opt
    | _ => none

/-- per-tick behaviour of the DFIR graph `emit_core` produces -/
def run : Term → List TickIn → List Batch
  | .input i, ins => ins.map (inBatch · i)
  | .const l, ins => firstTickOnly l ins
  | .map f t, ins => (run t ins).map (List.map f)
  | .filter p t, ins => (run t ins).map (List.filter p)
  | .flatMap g t, ins => (run t ins).map (fun b => b.flatMap g)
  | .filterMap h t, ins => (run t ins).map (List.filterMap h)
  | .enumerate t, ins => mealyStatic enumStep 0 (run t ins)
  | .scan init f t, ins => mealyStatic (scanStep f) (some init) (run t ins)
  | .unique t, ins => mealyStatic uniqStep [] (run t ins)
  | .kscan init f t, ins => mealyStatic (kscanStep init f) [] (run t ins)
  | .union a b, ins => List.zipWith (· ++ ·) (run a ins) (run b ins)
  | .chain a b, ins => List.zipWith (· ++ ·) (run a ins) (run b ins)
  | .join a b, ins => joinDeltaRun [] [] (run a ins) (run b ins)
  | .fold _ init f t, ins => accStatic f (fun s => [s]) init (run t ins)
  | .reduce f t, ins => accStatic (reduceStep f) Option.toList none (run t ins)
  | .kfold init f t, ins => accStatic (kfoldStep init f) entries [] (run t ins)
  | .foldB init f t, ins => foldNoReplayRun f true init (run t ins)
  | .crossSingleton t s, ins => crossSingletonStaticRun none (run t ins) (run s ins)
  | .reduceB f t, ins => reduceNoReplayRun f true none (run t ins)
  | .joinHalfS t b, ins => staticSideRun gJoinHalf [] (run t ins) (run b ins)
  | .antiJoinS t b, ins => staticSideRun gAntiJoin [] (run t ins) (run b ins)
  | .differenceS t b, ins => staticSideRun gDifference [] (run t ins) (run b ins)
  | .joinLB a b, ins => joinDeltaRun [] [] (run a ins) (run b ins)
  | .kgen init g t, ins => mealyStatic (kgenStep init g) [] (run t ins)
  | .entries t, ins => run t ins
  | .kreduce f t, ins => accStatic (kreduceStep f) entries [] (run t ins)
  | .kfoldN init f t, ins => accStatic (kfoldStep init f) entries [] (run t ins)
  | .kreduceN f t, ins => accStatic (kreduceStep f) entries [] (run t ins)
  | .smap f t, ins => (run t ins).map (List.map f)
  | .sfilter p t, ins => (run t ins).map (List.filter p)

/-- stream-level meaning on the whole (unpartitioned) inputs -/
def spec : Term → (Nat → List Val) → List Val
  | .input i, I => I i
  | .const l, _ => l
  | .map f t, I => (spec t I).map f
  | .filter p t, I => (spec t I).filter p
  | .flatMap g t, I => (spec t I).flatMap g
  | .filterMap h t, I => (spec t I).filterMap h
  | .enumerate t, I => (mealyList enumStep 0 (spec t I)).2
  | .scan init f t, I => (mealyList (scanStep f) (some init) (spec t I)).2
  | .unique t, I => (mealyList uniqStep [] (spec t I)).2
  | .kscan init f t, I => (mealyList (kscanStep init f) [] (spec t I)).2
  | .union a b, I => spec a I ++ spec b I
  | .chain a b, I => spec a I ++ spec b I
  | .join a b, I => joinL (spec a I) (spec b I)
  | .fold _ init f t, I => [(spec t I).foldl f init]
  | .reduce f t, I => ((spec t I).foldl (reduceStep f) none).toList
  | .kfold init f t, I => entries ((spec t I).foldl (kfoldStep init f) [])
  | .foldB init f t, I => [(spec t I).foldl f init]
  | .crossSingleton t s, I =>
    match (spec s I).head? with
    | some v => (spec t I).map (fun x => Val.pair x v)
    | none => []
  | .reduceB f t, I => ((spec t I).foldl (reduceStep f) none).toList
  | .joinHalfS t b, I => gJoinHalf (spec b I) (spec t I)
  | .antiJoinS t b, I => gAntiJoin (spec b I) (spec t I)
  | .differenceS t b, I => gDifference (spec b I) (spec t I)
  | .joinLB a b, I => joinL (spec a I) (spec b I)
  | .kgen init g t, I => (mealyList (kgenStep init g) [] (spec t I)).2
  | .entries t, I => spec t I
  | .kreduce f t, I => entries ((spec t I).foldl (kreduceStep f) [])
  | .kfoldN init f t, I => entries ((spec t I).foldl (kfoldStep init f) [])
  | .kreduceN f t, I => entries ((spec t I).foldl (kreduceStep f) [])
  | .smap f t, I => (spec t I).map f
  | .sfilter p t, I => (spec t I).filter p

/-- the user-supplied algebraic facts the safe API asks for (`commutative = manual_proof!(…)`) hold -/
def Term.WF : Term → Prop
  | .input _ | .const _ => True
  | .map _ t | .filter _ t | .flatMap _ t | .filterMap _ t | .enumerate t | .scan _ _ t
  | .unique t | .kscan _ _ t | .reduce _ t | .kfold _ _ t | .foldB _ _ t | .reduceB _ t | .smap _ t | .sfilter _ t
  | .kgen _ _ t | .entries t | .kreduce _ t => t.WF
  | .union a b | .chain a b | .join a b | .crossSingleton a b | .joinHalfS a b | .antiJoinS a b
  | .differenceS a b | .joinLB a b => a.WF ∧ b.WF
  | .fold comm _ f t => t.WF ∧ (comm = true → ∀ a x y, f (f a x) y = f (f a y) x)
  | .kfoldN _ f t => t.WF ∧ (∀ a x y, f (f a x) y = f (f a y) x)
  | .kreduceN f t => t.WF ∧ (∀ a x y, f (f a x) y = f (f a y) x) ∧ (∀ x y, f x y = f y x)

end HvHydro
