/-
The closure catalogue of the corpus programs and the parser of program terms (prefix notation).
Every code names one fixed `q!(…)` closure of `harness/hv_hydro/gen_programs.py`; the Lean function
here is its transcription.  Used only by the driver (the theorems quantify over all functions).
-/
import HvHydro.Model.Hydro
import HvHydro.Model.Tick
namespace HvHydro

def onInt (f : Int → Val) : Val → Val
  | .int i => f i
  | v => v

def mapFn : String → Option (Val → Val)
  | "inc" => some (onInt fun i => .int (i + 1))
  | "dbl" => some (onInt fun i => .int (2 * i))
  | "neg" => some (onInt fun i => .int (-i))
  | "kv3" => some (onInt fun i => .pair (.int (i % 3)) (.int i))
  | "swap" => some fun v => match v with | .pair a b => .pair b a | v => v
  | "fst" => some fun v => match v with | .pair a _ => a | v => v
  | "snd" => some fun v => match v with | .pair _ b => b | v => v
  | "add2" => some fun v => match v with | .pair (.int a) (.int b) => .int (a + b) | v => v
  | "vinc" => some fun v => match v with | .pair k (.int b) => .pair k (.int (b + 1)) | v => v
  | "flat" => some fun v => match v with
      | .pair k (.pair (.int a) (.int b)) => .pair k (.int (a * 100 + b)) | v => v
  | "idx" => some fun v => match v with      -- (usize, x) -> (x, idx)
      | .pair i x => .pair x i | v => v
  | "kidx" => some fun v => match v with     -- keyed (k, (idx, v)) -> (k, v * 100 + idx)
      | .pair k (.pair (.int i) (.int x)) => .pair k (.int (x * 100 + i)) | v => v
  | _ => none

def predFn : String → Option (Val → Bool)
  | "even" => some fun v => match v with | .int i => i % 2 == 0 | _ => false
  | "pos" => some fun v => match v with | .int i => decide (i > 0) | _ => false
  | "small" => some fun v => match v with | .int i => decide (i < 5) | _ => false
  | "any" => some fun _ => true
  | "keven" => some fun v => match v with | .pair (.int k) _ => k % 2 == 0 | _ => false
  | "vodd" => some fun v => match v with | .pair _ (.int b) => b % 2 != 0 | _ => false
  | _ => none

def flatFn : String → Option (Val → List Val)
  | "dup" => some fun v => match v with | .int i => [.int i, .int (i + 10)] | v => [v]
  | "rep" => some fun v => match v with | .int i => List.replicate (i % 3).toNat (.int i) | v => [v]
  | _ => none

def optFn : String → Option (Val → Option Val)
  | "half" => some fun v => match v with
      | .int i => if i % 2 == 0 then some (.int (i / 2)) else none | _ => none
  | _ => none

/-- scan closures: `(init, f)`; `f acc x = none` terminates the scan -/
def scanFn : String → Option (Val × (Val → Val → Option (Val × Val)))
  | "runsum" => some (.int 0, fun a x => match a, x with
      | .int a, .int x => some (.int (a + x), .int (a + x)) | _, _ => none)
  | "stop" => some (.int 0, fun a x => match a, x with
      | .int a, .int x => if a + x > 12 then none else some (.int (a + x), .int (a + x)) | _, _ => none)
  | _ => none

/-- fold closures: `(commutative-proof-supplied, init, f)` -/
def foldFn : String → Option (Bool × Val × (Val → Val → Val))
  | "sum" => some (true, .int 0, fun a x => match a, x with | .int a, .int x => .int (a + x) | a, _ => a)
  | "cnt" => some (true, .int 0, fun a _ => match a with | .int a => .int (a + 1) | a => a)
  | "poly" => some (false, .int 0, fun a x => match a, x with | .int a, .int x => .int (a * 3 + x) | a, _ => a)
  | "maxf" => some (true, .int (-100), fun a x => match a, x with
      | .int a, .int x => .int (if x > a then x else a) | a, _ => a)
  | _ => none

def reduceFn : String → Option (Val → Val → Val)
  | "rsum" => some fun a x => match a, x with | .int a, .int x => .int (a + x) | a, _ => a
  | "rmax" => some fun a x => match a, x with | .int a, .int x => .int (if x > a then x else a) | a, _ => a
  | "rmin" => some fun a x => match a, x with | .int a, .int x => .int (if x < a then x else a) | a, _ => a
  | "rlast" => some fun _ x => x
  | "rpoly" => some fun a x => match a, x with | .int a, .int x => .int (a * 3 + x) | a, _ => a
  | "rsumc" => some fun a x => match a, x with | .int a, .int x => .int (a + x) | a, _ => a
  | "rmaxc" => some fun a x => match a, x with | .int a, .int x => .int (if x > a then x else a) | a, _ => a
  | _ => none

/-- reduce closures that come with a commutativity proof -/
def reduceComm (code : String) : Bool := code == "rsumc" || code == "rmaxc"

def parseInts (s : String) : Option (List Val) :=
  if s == "-" then some [] else (s.splitOn ",").mapM (fun p => p.toInt?.map Val.int)

/-- `op:arg` -> `(op, arg)` -/
def splitTok (w : String) : String × String :=
  match w.splitOn ":" with
  | [a] => (a, "")
  | a :: b :: _ => (a, b)
  | [] => ("", "")

/-- prefix-notation parser with fuel (the number of tokens suffices) -/
def parseTerm : Nat → List String → Option (Term × List String)
  | 0, _ => none
  | _, [] => none
  | fuel + 1, w :: rest =>
    let (op, arg) := splitTok w
    let un (mk : Term → Option Term) : Option (Term × List String) :=
      match parseTerm fuel rest with
      | some (t, r) => (mk t).map (fun t' => (t', r))
      | none => none
    let bin (mk : Term → Term → Term) : Option (Term × List String) :=
      match parseTerm fuel rest with
      | some (a, r) =>
        match parseTerm fuel r with
        | some (b, r') => some (mk a b, r')
        | none => none
      | none => none
    match op with
    | "in0" => some (.input 0, rest)
    | "in1" => some (.input 1, rest)
    | "const" => (parseInts arg).map (fun l => (.const l, rest))
    | "map" => un fun t => (mapFn arg).map (fun f => .map f t)
    | "filter" => un fun t => (predFn arg).map (fun p => .filter p t)
    | "flatmap" => un fun t => (flatFn arg).map (fun g => .flatMap g t)
    | "filtermap" => un fun t => (optFn arg).map (fun h => .filterMap h t)
    | "enumerate" => un fun t => some (.enumerate t)
    | "scan" => un fun t => (scanFn arg).map (fun s => .scan s.1 s.2 t)
    | "unique" => un fun t => some (.unique t)
    | "kscan" => un fun t => (scanFn arg).map (fun s => .kscan s.1 s.2 t)
    | "union" => bin .union
    | "chain" => bin .chain
    | "join" => bin .join
    | "fold" => un fun t => (foldFn arg).map (fun a => .fold a.1 a.2.1 a.2.2 t)
    | "reduce" => un fun t => (reduceFn arg).map (fun f => .reduce f t)
    | "kfold" => un fun t =>
        match foldFn arg with
        | some a =>
          -- a keyed stream with NoOrder values needs the commutativity proof
          if t.kind = some .sN then (if a.1 then some (.kfoldN a.2.1 a.2.2 t) else none)
          else some (.kfold a.2.1 a.2.2 t)
        | none => none
    | "kreduce" => un fun t =>
        match reduceFn arg with
        | some f =>
          if t.kind = some .sN then (if reduceComm arg then some (.kreduceN f t) else none)
          else some (.kreduce f t)
        | none => none
    | "klimit" => un fun t => arg.toNat?.map (fun n => .kgen (.int 0) (limitGen n) t)
    | "kenum" => un fun t => some (.kgen (.int 0) enumGen t)
    | "kfirst" => un fun t => some (.entries (.kgen (.int 0) firstGen t))
    | "kunion" => bin .union
    | "joinlb" => bin .joinLB
    | "foldb" => un fun t => (foldFn arg).map (fun a => .foldB a.2.1 a.2.2 t)
    | "xsing" => bin .crossSingleton
    | "reduceb" => un fun t => (reduceFn arg).map (fun f => .reduceB f t)
    | "joinb" => bin .joinHalfS
    | "antijoinb" => bin .antiJoinS
    | "notinb" => bin .differenceS
    | "smap" => un fun t => (mapFn arg).map (fun f => .smap f t)
    | "sfilter" => un fun t => (predFn arg).map (fun p => .sfilter p t)
    | _ => none

/-- `count()`'s closure -/
def cntFn : Val → Val → Val := fun a _ => match a with | .int a => .int (a + 1) | a => a

/-- tick-level terms (prefix notation); returns the term and whether its order is unspecified.
    `cycT` is the term the token `cyc` stands for. -/
def parseTTerm (cycT : TTerm) : Nat → List String → Option (TTerm × Bool × List String)
  | 0, _ => none
  | _, [] => none
  | fuel + 1, w :: rest =>
    let (op, arg) := splitTok w
    let un (mk : TTerm → Option TTerm) : Option (TTerm × Bool × List String) :=
      match parseTTerm cycT fuel rest with
      | some (t, u, r) => (mk t).map (fun t' => (t', u, r))
      | none => none
    let bin (mk : TTerm → TTerm → TTerm) : Option (TTerm × Bool × List String) :=
      match parseTTerm cycT fuel rest with
      | some (a, ua, r) =>
        match parseTTerm cycT fuel r with
        | some (b, ub, r') => some (mk a b, ua || ub, r')
        | none => none
      | none => none
    match op with
    | "b0" => some (.batch 0, false, rest)
    | "b1" => some (.batch 1, false, rest)
    | "cyc" => some (cycT, false, rest)        -- what the program's cycle handle denotes (see `parseProg`)
    | "sing" => arg.toInt?.map (fun n => (.constS (.int n), false, rest))
    | "ofirst" => arg.toInt?.map (fun n => (.firstTick (.int n), false, rest))
    | "toopt" => un fun t => some t            -- Singleton -> Optional: `HydroNode::Cast`
    | "or" => bin .chainFirst
    | "unwrapor" => bin .chainFirst
    | "map" => un fun t => (mapFn arg).map (fun f => .map f t)
    | "filter" => un fun t => (predFn arg).map (fun p => .filter p t)
    | "flatmap" => un fun t => (flatFn arg).map (fun g => .flatMap g t)
    | "filtermap" => un fun t => (optFn arg).map (fun h => .filterMap h t)
    | "enumerate" => un fun t => some (.enumerate t)
    | "unique" => un fun t => some (.unique t)
    | "sort" => un fun t => some (.sort t)
    | "scan" => un fun t => (scanFn arg).map (fun s => .scan s.1 s.2 t)
    | "limit" => un fun t => arg.toNat?.map (fun n => .limit n t)
    | "fold" => un fun t => (foldFn arg).map (fun a => .fold a.2.1 a.2.2 t)
    | "reduce" => un fun t => (reduceFn arg).map (fun f => .reduce f t)
    | "count" => un fun t => some (.fold (.int 0) cntFn t)
    | "max" => un fun t => (reduceFn "rmax").map (fun f => .reduce f t)
    | "min" => un fun t => (reduceFn "rmin").map (fun f => .reduce f t)
    | "first" => un fun t => some (.reduce (fun a _ => a) (.limit 1 t))
    | "last" => un fun t => some (.reduce (fun _ x => x) t)
    | "tostream" => un fun t => some t
    | "kfold" =>
      match parseTTerm cycT fuel rest with
      | some (t, _, r) => (foldFn arg).map (fun a => (.kfold a.2.1 a.2.2 t, true, r))
      | none => none
    | "chain" => bin .chain
    | "xsing" => bin .crossSingleton
    | "join" => bin .joinHalf
    | "antijoin" => bin .antiJoin
    | "notin" => bin .difference
    | "defer" => un fun t => some (.deferTick t)
    | "across" => un fun t => (foldFn arg).map (fun a => .acrossFold a.2.1 a.2.2 t)
    | _ => none

/-- is the Rust value of the term a `KeyedStream` with `NoOrder` values (`merge_unordered` of keyed streams,
    possibly under keyed `map` / `filter`)?  Only used to print the corpus' kind tag `sKN`; the model treats
    such a stream as the unordered stream of its entries (kind `sN`). -/
def keyedNoOrder : List String → Bool
  | [] => false
  | w :: rest =>
    let op := (splitTok w).1
    if op == "kunion" then true
    else if op == "map" || op == "filter" then keyedNoOrder rest
    else false

/-- finding F282: what the hydro_lang API *claims* for `bounded.join(unbounded)` and what is built on it —
    a top-level Bounded NoOrder stream (`bN`), and `fold` of it a bounded singleton.  Only used by the driver to
    name / canonicalise the outputs of the witness programs the way the harness does; `Term.kind` does not
    accept the claim. -/
def claimedBounded : List String → Option (String × Kind)
  | [] => none
  | w :: rest =>
    let op := (splitTok w).1
    if op == "joinlb" then some ("bN", .sN)
    else if op == "map" || op == "filter" then
      match claimedBounded rest with
      | some ("bN", k) => some ("bN", k)
      | _ => none
    else if op == "foldb" then
      match claimedBounded rest with
      | some ("bN", _) => some ("bsing", .bsing)
      | _ => none
    else none

def reprKind : Kind → String
  | .sT => "sT" | .sK => "sK" | .sN => "sN" | .bT => "bT"
  | .sing => "sing" | .opt => "opt" | .ksing => "ksing" | .bsing => "bsing"

/-- a program the driver can run: a top-level term (C28/C29) or a tick program (C30) -/
inductive Prog where
  | top (t : Term) (keyedN : Bool := false) (claimed : Option (String × Kind) := none)
  | tick (p : TProg) (unordered : Bool)

/-- kind used for canonicalising the printed output -/
def Prog.kind : Prog → Option Kind
  | .top t _ (some c) => some c.2
  | .top t _ none => t.kind
  | .tick _ u => some (if u then .sN else .sT)

def Prog.kindName : Prog → Option String
  | .top _ _ (some c) => some c.1
  | .top t kn none => t.kind.map (fun k => if kn && k == .sN then "sKN" else reprKind k)
  | .tick _ u => some (if u then "tN" else "tT")

def Prog.run : Prog → List TickIn → List Batch
  | .top t _ _, ins => HvHydro.run t ins
  | .tick p _, ins => p.run ins

def parseProg (ws : List String) : Option Prog :=
  match ws with
  | "tick" :: rest =>
    match parseTTerm .cyc (rest.length + 1) rest with
    | some (o, u, []) => some (.tick ⟨.cyc, o⟩ u)
    | _ => none
  | "tcyc" :: rest | "tcycp" :: rest =>
    -- `tick.cycle::<Stream…>()` / `tick.cycle::<Optional…>()`: `create_source(..).defer_tick()`
    match parseTTerm .cyc (rest.length + 1) rest with
    | some (n, _, r) =>
      match parseTTerm .cyc (r.length + 1) r with
      | some (o, u, []) => some (.tick ⟨n, o⟩ u)
      | _ => none
    | none => none
  | hd :: rest =>
    if hd == "tcyco" || hd == "tcycs" then
      -- `tick.cycle_with_initial(INIT)` over an Optional / a Singleton: INIT NEXT OUT
      match parseTTerm .cyc (rest.length + 1) rest with
      | some (ini, _, r0) =>
        let cycT := if hd == "tcyco" then TTerm.optCycleWithInitial ini else TTerm.singCycleWithInitial ini
        match parseTTerm cycT (r0.length + 1) r0 with
        | some (n, _, r) =>
          match parseTTerm cycT (r.length + 1) r with
          | some (o, u, []) => some (.tick ⟨n, o⟩ u)
          | _ => none
        | none => none
      | none => none
    else
      match parseTerm (ws.length + 1) ws with
      | some (t, []) => some (.top t (keyedNoOrder ws) (claimedBounded ws))
      | _ => none
  | _ =>
    match parseTerm (ws.length + 1) ws with
    | some (t, []) => some (.top t (keyedNoOrder ws) (claimedBounded ws))
    | _ => none

end HvHydro
