/-
The lowering table the model of `Model/Hydro.lean` was transcribed from: a frozen copy of what
`harness/hv_hydro/translate_lowering.py` extracted from `hydro_lang/src/compile/ir/mod.rs` when the model
was written.  `Props/C28.lean` proves that the table re-extracted on every run (`Gen/Lowering.lean`) is
identical, so a changed lowering (another DFIR operator, another lifetime, a dropped `multiset_delta`,
`persist`, …) breaks the tie until the model is revisited.

How the model uses the entries:
  Map/Filter/FlatMap/FilterMap     -> `Term.map/filter/flatMap/filterMap`: stateless `map`/`filter`/`flat_map`/`filter_map`
  Enumerate, Unique                -> `mealyStatic` at top level (`cross_tick_state_lifetime` = 'static),
                                      `mealyTick` inside a tick (`tick_state_lifetime` = 'tick)
  Fold (arm Fold|FoldKeyed|Scan|…) -> `fold`/`fold_keyed`/`scan` with the same lifetime rule; `fold_no_replay` for a
                                      top-level bounded input (`Term.foldB`)
  Reduce (arm Reduce|ReduceKeyed)  -> `reduce` / `reduce_keyed` (`Term.kreduce`, `Term.kreduceN`), `reduce_no_replay` for a
                                      top-level bounded input
  Scan + FlatMap                   -> `KeyedStream::generator` (`Term.kgen`: limit / enumerate / first) is built from these two
                                      nodes by hydro_lang itself (keyed_stream/mod.rs), so it has no arm of its own
  CrossProduct (arm CrossProduct|Join) -> `join_multiset::<l,r>()`, followed by `-> multiset_delta()` iff both inputs are
                                      top level (`joinDeltaRun`)
  Chain                            -> `chain()` ([0] first, then [1]) for `merge_unordered` (streams and keyed streams) and `Stream::chain`
  ChainFirst                       -> `chain_first_n(1)`
  CrossSingleton                   -> `cross_singleton::<'static>` iff the singleton is top level and bounded
  Difference (arm Difference|AntiJoin), JoinHalf -> pos/probe side 'tick, neg/build side by its location
  DeferTick                        -> `defer_tick_lazy()`
  Batch / YieldConcat / ObserveNonDet -> identity in `ProdDfirBuilder` (`persist::<'static>` for a bounded top-level
                                      singleton/optional/keyed singleton entering a tick)
  Source, SingletonSource          -> `source_stream`, `source_iter`, `source_iter -> persist::<'static>` inside a tick;
                                      `SingletonSource { first_tick_only: true }` (only inside a tick) -> `source_iter([v])` WITHOUT persist:
                                      the value exists in the first tick only (`TTerm.firstTick`), otherwise in every tick (`TTerm.constS`)
  library (not emit_core)          -> the hydro_lang functions that BUILD tick cycles out of these nodes: `Tick::cycle` =
                                      `create_source(..).defer_tick()` (`TTerm.cyc`), `cycle_with_initial` = `create_source_with_initial`:
                                      Optional: `from_previous_tick.or(initial.filter_if(optional_first_tick(()).is_some()))`
                                      (`TTerm.optCycleWithInitial`), Singleton: `from_previous_tick.unwrap_or(initial)`
                                      (`TTerm.singCycleWithInitial`); `filter_if`/`is_some`/`into_singleton`/`zip`/`or` as transcribed in Model/Tick.lean
-/
namespace HvHydro.Expected

def tickStateLifetime : String := "quote!('tick)"
def crossTickStateLifetime : String := "quote!('static)"

def prodBuilder : List (String × String) := [
  ("singleton_intermediates", "{ false }"),
  ("batch", "sel[if in_kind.is_bounded()] ; sel[assert!(in_location.is_top_level());] ; dfir{#v0 = #v1 -> persist::<'static>();} ; dfir{#v0 = #v1;}"),
  ("yield_from_tick", "dfir{#v0 = #v1;}"),
  ("observe_nondet", "dfir{#v0 = #v1;}"),
  ("merge_ordered", "dfir{#v0 = union(); #v1 -> [0]#v0; #v2 -> [1]#v0;}")
]

def lowering : List (String × String) := [
  ("Cast", ""),
  ("UnboundSingleton", "call[singleton_intermediates] ; dfir{#v0 = #v1;} ; dfir{#v0 = #v1 -> persist::<'static>();}"),
  ("ObserveNonDet", "call[observe_nondet]"),
  ("Batch", "call[batch]"),
  ("YieldConcat", "call[yield_from_tick]"),
  ("Source", "sel[debug_assert!(metadata.location_id.is_top_level());] ; dfir{#v0 = source_stream(#v1);} ; sel[if metadata.location_id.is_top_level() {] ; dfir{#v0 = source_iter(#v1);} ; dfir{#v0 = source_iter(#v1) -> persist::<'static>();} ; sel[debug_assert!(metadata.location_id.is_top_level());] ; dfir{#v0 = spin();} ; sel[debug_assert!(metadata.location_id.is_top_level());] ; dfir{#v0 = source_stream(#v1) -> tee(); #v2 = #v0;} ; dfir{#v0 = source_stream(DUMMY);} ; dfir{#v0 = #v1;} ; dfir{#v0 = source_stream(#v1);} ; dfir{#v0 = source_iter([#v1]);}"),
  ("SingletonSource", "sel[if *first_tick_only {] ; sel[!metadata.location_id.is_top_level(),] ; sel[\"first_tick_only SingletonSource must be inside a tick\"] ; sel[if *first_tick_only] ; sel[|| (metadata.location_id.is_top_level()] ; sel[&& metadata.collection_kind.is_bounded())] ; dfir{#v0 = source_iter([#v1]);} ; dfir{#v0 = source_iter([#v1]) -> persist::<'static>();}"),
  ("CycleSource", ""),
  ("Tee", "dfir{#v0 = #v1 -> tee();}"),
  ("Chain", "dfir{#v0 = chain(); #v1 -> [0]#v0; #v2 -> [1]#v0;}"),
  ("ChainFirst", "dfir{#v0 = chain_first_n(1); #v1 -> [0]#v0; #v2 -> [1]#v0;}"),
  ("CrossSingleton", "sel[if right.metadata().location_id.is_top_level()] ; sel[&& right.metadata().collection_kind.is_bounded()] ; sel[graph_builders.cross_tick_state_lifetime(&out_location);] ; dfir{#v0 = cross_singleton::<#lifetime>(); #v1 -> [input]#v0; #v2 -> [single]#v0;} ; dfir{#v0 = cross_singleton(); #v1 -> [input]#v0; #v2 -> [single]#v0;}"),
  ("CrossProduct", "op(cross_join_multiset) ; op(join_multiset) ; sel[let is_top_level = left.metadata().location_id.is_top_level()] ; sel[&& right.metadata().location_id.is_top_level();] ; sel[let left_top_level = left.metadata().location_id.is_top_level();] ; sel[let right_top_level = right.metadata().location_id.is_top_level();] ; sel[graph_builders.cross_tick_state_lifetime(&out_location)] ; sel[graph_builders.tick_state_lifetime(&out_location)] ; sel[graph_builders.cross_tick_state_lifetime(&out_location)] ; sel[graph_builders.tick_state_lifetime(&out_location)] ; dfir{#v0 = #operator::<#left_lifetime, #right_lifetime>() -> multiset_delta(); #v1 -> [0]#v0; #v2 -> [1]#v0;} ; dfir{#v0 = #operator::<#left_lifetime, #right_lifetime>(); #v1 -> [0]#v0; #v2 -> [1]#v0;}"),
  ("Difference", "op(difference) ; op(anti_join) ; sel[let neg_top_level = neg.metadata().location_id.is_top_level();] ; sel[graph_builders.cross_tick_state_lifetime(&out_location)] ; sel[graph_builders.tick_state_lifetime(&out_location)] ; sel[graph_builders.tick_state_lifetime(&out_location);] ; dfir{#v0 = #operator::<#pos_lifetime, #neg_lifetime>(); #v1 -> [pos]#v0; #v2 -> [neg]#v0;}"),
  ("JoinHalf", "sel[right.metadata().collection_kind.is_bounded(),] ; sel[let build_top_level = right.metadata().location_id.is_top_level();] ; sel[graph_builders.cross_tick_state_lifetime(&out_location)] ; sel[graph_builders.tick_state_lifetime(&out_location)] ; sel[graph_builders.tick_state_lifetime(&out_location);] ; dfir{#v0 = join_multiset_half::<#build_lifetime, #probe_lifetime>(); #v1 -> [probe]#v0; #v2 -> [build]#v0;}"),
  ("Map", "dfir{#v0 = #v1 -> map(#v2);}"),
  ("FlatMap", "dfir{#v0 = #v1 -> flat_map(#v2);}"),
  ("Filter", "dfir{#v0 = #v1 -> filter(#v2);}"),
  ("FilterMap", "dfir{#v0 = #v1 -> filter_map(#v2);}"),
  ("Sort", "dfir{#v0 = #v1 -> sort();}"),
  ("DeferTick", "dfir{#v0 = #v1 -> defer_tick_lazy();}"),
  ("Enumerate", "sel[let lifetime = if input.metadata().location_id.is_top_level() {] ; sel[graph_builders.cross_tick_state_lifetime(&out_location)] ; sel[graph_builders.tick_state_lifetime(&out_location)] ; dfir{#v0 = #v1 -> enumerate::<#lifetime>();}"),
  ("Unique", "sel[let lifetime = if input.metadata().location_id.is_top_level() {] ; sel[graph_builders.cross_tick_state_lifetime(&out_location)] ; sel[graph_builders.tick_state_lifetime(&out_location)] ; dfir{#v0 = #v1 -> unique::<#lifetime>();}"),
  ("Fold", "sel[if input.metadata().location_id.is_top_level()] ; sel[&& input.metadata().collection_kind.is_bounded()] ; op(fold_no_replay) ; op(fold) ; op(scan) ; op(scan_async_blocking) ; sel[if input.metadata().location_id.is_top_level()] ; sel[&& input.metadata().collection_kind.is_bounded()] ; op(fold_keyed) ; sel[let input_top_level = input.metadata().location_id.is_top_level();] ; sel[graph_builders.cross_tick_state_lifetime(&out_location)] ; sel[graph_builders.tick_state_lifetime(&out_location)] ; sel[&& node.metadata().location_id.is_top_level()] ; call[singleton_intermediates] ; sel[&& !node.metadata().collection_kind.is_bounded()] ; call[emit_fold_hook] ; op({ let mut __inner = #acc_tokens; move |__state, __batch: Vec<_>| { if __batch.is_empty() { return None; } for __value in __batch { __inner(__state, __value); } Some(__state.clone()) } }) ; op({ let mut __inner = #acc_tokens; move |__state, __value| { __inner(__state, __value); Some(__state.clone()) } }) ; dfir{source_iter([(#v0)()]) -> [0]#v1; #v2 -> scan::<#lifetime>(#v0, #v3) -> [1]#v1; #v1 = chain();} ; sel[&& node.metadata().location_id.is_top_level()] ; call[singleton_intermediates] ; sel[&& !node.metadata().collection_kind.is_bounded()] ; call[emit_fold_hook] ; op({ let mut __init = #init_tokens; let mut __inner = #acc_tokens; move |__state, __kv: (_, _)| { let __state = __state .entry(::std::clone::Clone::clone(&__kv.0)) .or_insert_with(|| (__init)()); __inner(__state, __kv.1); Some((__kv.0, ::std::clone::Clone::clone(&*__state))) } }) ; dfir{#v0 = #v1 -> flatten() -> scan::<#lifetime>(|| ::std::collections::HashMap::new(), #v2);} ; dfir{#v0 = #v1 -> scan::<#lifetime>(|| ::std::collections::HashMap::new(), #v2);} ; sel[&& !node.metadata().location_id.is_top_level()] ; call[singleton_intermediates] ; call[emit_fold_hook] ; dfir{#v0 = #v1 -> #operator::<#lifetime>(#v2, #v3);} ; dfir{#v0 = #v1 -> #operator::<#lifetime>(#v2, #v3);}"),
  ("Reduce", "sel[if input.metadata().location_id.is_top_level()] ; sel[&& input.metadata().collection_kind.is_bounded()] ; op(reduce_no_replay) ; op(reduce) ; sel[if input.metadata().location_id.is_top_level()] ; sel[&& input.metadata().collection_kind.is_bounded()] ; op(reduce_keyed) ; sel[let input_top_level = input.metadata().location_id.is_top_level();] ; sel[graph_builders.cross_tick_state_lifetime(&out_location)] ; sel[graph_builders.tick_state_lifetime(&out_location)] ; sel[&& node.metadata().location_id.is_top_level()] ; call[singleton_intermediates] ; sel[&& !node.metadata().collection_kind.is_bounded()] ; sel[&& node.metadata().location_id.is_top_level()] ; call[singleton_intermediates] ; sel[&& !node.metadata().collection_kind.is_bounded()] ; dfir{#v0 = #v1 -> #operator::<#lifetime>(#v2);}")
]

/-- library code of hydro_lang (not emit_core) the tick-cycle model is transcribed from -/
def library : List (String × String) := [
  ("Optional::create_source_with_initial<TickCycle>", "let from_previous_tick: Optional<T, Tick<L>, Bounded> = Optional::new( location.clone(), HydroNode::DeferTick { input: Box::new(HydroNode::CycleSource { cycle_id, metadata: location.new_node_metadata(Self::collection_kind()), }), metadata: location .new_node_metadata(Optional::<T, Tick<L>, Bounded>::collection_kind()), }, ); from_previous_tick.or(initial.filter_if(location.optional_first_tick(q!(())).is_some()))"),
  ("Singleton::create_source_with_initial<TickCycle>", "let from_previous_tick: Optional<T, Tick<L>, Bounded> = Optional::new( location.clone(), HydroNode::DeferTick { input: Box::new(HydroNode::CycleSource { cycle_id, metadata: location.new_node_metadata(Self::collection_kind()), }), metadata: location .new_node_metadata(Optional::<T, Tick<L>, Bounded>::collection_kind()), }, ); from_previous_tick.unwrap_or(initial)"),
  ("Optional::filter_if", "self.zip(signal.filter(q!(|b| *b))).map(q!(|(d, _)| d))"),
  ("Optional::is_some", "self.map(q!(|_| ())) .into_singleton() .map(q!(|o| o.is_some()))"),
  ("Optional::into_singleton", "let none: syn::Expr = parse_quote!(::std::option::Option::None); let none_singleton = Singleton::new( self.location.clone(), HydroNode::SingletonSource { value: none.into(), first_tick_only: false, metadata: self .location .new_node_metadata(Singleton::<Option<T>, L, B>::collection_kind()), }, ); self.map(q!(|v| Some(v))).unwrap_or(none_singleton)"),
  ("Optional::or", "check_matching_location(&self.location, &other.location); if L::is_top_level() && !B::BOUNDED && let Some(tick) = self.location.try_tick() { let self_location = self.location().clone(); let out = or_inside_tick( self.snapshot(&tick, nondet!(/** eventually stabilizes */)), other.snapshot(&tick, nondet!(/** eventually stabilizes */)), ) .latest(); Optional::new(self_location, out.ir_node.replace(HydroNode::Placeholder)) } else { Optional::new( self.location.clone(), HydroNode::ChainFirst { first: Box::new(self.ir_node.replace(HydroNode::Placeholder)), second: Box::new(other.ir_node.replace(HydroNode::Placeholder)), metadata: self.location.new_node_metadata(Self::collection_kind()), }, ) }"),
  ("Optional::unwrap_or", "let res_option = self.or(other.into()); Singleton::new( res_option.location.clone(), HydroNode::Cast { inner: Box::new(res_option.ir_node.replace(HydroNode::Placeholder)), metadata: res_option .location .new_node_metadata(Singleton::<T, L, B>::collection_kind()), }, )"),
  ("Optional::zip", "let other: Optional<O, L, B> = other.into(); check_matching_location(&self.location, &other.location); if L::is_top_level() && let Some(tick) = self.location.try_tick() { let self_location = self.location().clone(); let out = zip_inside_tick( self.snapshot(&tick, nondet!(/** eventually stabilizes */)), other.snapshot(&tick, nondet!(/** eventually stabilizes */)), ) .latest(); Optional::new(self_location, out.ir_node.replace(HydroNode::Placeholder)) } else { zip_inside_tick(self, other) }"),
  ("Optional::zip_inside_tick", "check_matching_location(&me.location, &other.location); Optional::new( me.location.clone(), HydroNode::CrossSingleton { left: Box::new(me.ir_node.replace(HydroNode::Placeholder)), right: Box::new(other.ir_node.replace(HydroNode::Placeholder)), metadata: me .location .new_node_metadata(Optional::<(T, O), L, B>::collection_kind()), }, )"),
  ("Optional::or_inside_tick", "check_matching_location(&me.location, &other.location); Optional::new( me.location.clone(), HydroNode::ChainFirst { first: Box::new(me.ir_node.replace(HydroNode::Placeholder)), second: Box::new(other.ir_node.replace(HydroNode::Placeholder)), metadata: me .location .new_node_metadata(Optional::<T, L, B>::collection_kind()), }, )"),
  ("Tick::cycle", "let cycle_id = self.flow_state().borrow_mut().next_cycle_id(); ( TickCycleHandle::new(cycle_id, Location::id(self)), S::create_source(cycle_id, self.clone().with_consistency_of()).defer_tick(), )"),
  ("Tick::cycle_with_initial", "let cycle_id = self.flow_state().borrow_mut().next_cycle_id(); ( TickCycleHandle::new(cycle_id, Location::id(self)), S::create_source_with_initial(cycle_id, initial, self.clone().with_consistency_of()), )"),
  ("Tick::optional_first_tick", "let e = e.splice_untyped_ctx(self); Optional::new( self.clone(), HydroNode::SingletonSource { value: e.into(), first_tick_only: true, metadata: self.new_node_metadata(Optional::<T, Self, Bounded>::collection_kind()), }, )")
]

end HvHydro.Expected
