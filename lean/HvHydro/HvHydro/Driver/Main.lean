/-
`hvdrv_hydro`: line-protocol driver for the Hydro lowering model (C28–C30).
One output line per input line.

  #case <n> ...            reset; echoes the line
  prog <term>              program term in prefix notation (see `parseTerm`) -> `ok <kind>` | bad-op
                           (`tick <out>` / `tcyc <next> <out>` = tick-level programs of C30)
  tick <b0>|<b1>           one tick: batch for input 0 and input 1 (`-` = empty, items `,`-separated ints)
                           -> the canonicalised output batch of this tick
  final                    -> the canonicalised accumulated / final output
Canonicalisation by kind: sT/bT/sing/opt/bsing as emitted; sK stable-sorted by key; sN/ksing sorted.
-/
import HvHydro.Model.Hydro
import HvHydro.Model.Catalogue
open HvHydro

def showVal : Val → String
  | .int i => toString i
  | .pair a b => "(" ++ showVal a ++ ", " ++ showVal b ++ ")"

def showBatchRaw (l : List String) : String := if l.isEmpty then "-" else ";".intercalate l

def keyOfShown (s : String) : String :=
  -- "(k, rest)" -> "k"   (keys are integers in the corpus)
  ((s.drop 1).toString.splitOn ",").headD ""

def canon (k : Kind) (l : List Val) : List String :=
  let ss := l.map showVal
  match k with
  | .sN | .ksing => ss.mergeSort (fun a b => decide (a ≤ b))
  | .sK => ss.mergeSort (fun a b => decide (keyOfShown a ≤ keyOfShown b))
  | _ => ss

def finalOf (k : Kind) (outs : List Batch) : List Val :=
  match k with
  | .sing | .opt | .ksing => outs.getLast?.getD []
  | _ => outs.flatten

def parseBatch (s : String) : Option Batch :=
  if s == "-" then some [] else (s.splitOn ",").mapM (fun p => p.toInt?.map Val.int)

structure St where
  prog : Option (Prog × Kind) := none
  hist : List TickIn := []

def step (st : St) (line : String) : St × String :=
  let ws := (line.trimAscii.toString.splitOn " ").filter (· ≠ "")
  match ws with
  | "#case" :: _ => ({}, line)
  | "prog" :: rest =>
    match parseProg rest with
    | some p =>
      match p.kind, p.kindName with
      | some k, some nm => ({ prog := some (p, k), hist := [] }, "ok " ++ nm)
      | _, _ => ({}, "bad-op")
    | none => ({}, "bad-op")
  | ["tick", bs] =>
    match st.prog, (bs.splitOn "|").mapM parseBatch with
    | some (p, k), some ti =>
      let hist := st.hist ++ [ti]
      let outs := p.run hist
      ({ st with hist := hist }, showBatchRaw (canon k (outs.getLast?.getD [])))
    | _, _ => (st, "bad-op")
  | ["final"] =>
    match st.prog with
    | some (p, k) => (st, showBatchRaw (canon k (finalOf k (p.run st.hist))))
    | none => (st, "bad-op")
  | _ => (st, "bad-op")

partial def loop (h : IO.FS.Stream) (out : IO.FS.Stream) (st : St) : IO Unit := do
  let line ← h.getLine
  if line.isEmpty then return ()
  let l := line.trimAscii.toString
  let (st', o) := step st l
  out.putStrLn o
  loop h out st'

def main : IO Unit := do
  let stdin ← IO.getStdin
  let stdout ← IO.getStdout
  loop stdin stdout {}
