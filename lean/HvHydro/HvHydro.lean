import HvHydro.Model.Hydro
