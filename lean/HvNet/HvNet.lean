import HvNet.Model.Bincode
