/-
C41 — every well-typed Hydro flow compiles to a valid dataflow (partial: see below).

Model: `Model/Emit.lean` (abstract IR -> emitted operator graph).

Property theorems:
  emitted_graph_no_same_tick_cycle   if every dependency cycle of the IR passes through a
                                     DeferTick (tick cycle) or a network channel, the emitted
                                     graph has no cycle of non-delaying edges, so the partitioner
                                     (C19) accepts it
  accepted_ir_emits_acyclic_graph    the executable verdict `accepts` is sound for that hypothesis
  rank_certifies_acyclic             a rank function on the cut IR graph excludes cycles
  predictedEdges_sound               the projection the driver prints (compared with the real
                                     emitted graph by the harness) lies inside `emitEdge`
  completed_program_accepted_refuted the clause as stated (`CompletedProgramAcceptedStatement`:
                                     every program that completes its forward references is
                                     accepted) is false: a top-level forward reference closed
                                     through local operators is rejected (finding F41)
Not modelled (decided by rustc on the sampled programs only): that the generated Rust type-checks;
handoff references / access groups / loop blocks as same-tick dependencies.
-/
import HvNet.Model.Emit
import Mathlib.Logic.Relation
namespace HvNet.Emit
open Relation

theorem aux_mem_cutEdges_input (ir : IR) (u v : Nat) (h : u ∈ inputsOf ir v)
    (hd : isDefer ir v = false) : (u, v) ∈ cutEdges ir := by
  have hv : v < ir.length := by
    unfold inputsOf at h
    by_cases hv : v < ir.length
    · exact hv
    · simp [List.getElem?_eq_none (Nat.le_of_not_lt hv)] at h
  simp only [cutEdges, List.mem_flatMap, List.mem_range]
  refine ⟨v, hv, ?_⟩
  simp only [hd, List.mem_append]
  left
  simpa using h

theorem aux_mem_cutEdges_cycle (ir : IR) (s v c : Nat) (hk : kindOf ir v = some (Kind.cycSource c))
    (hs : sinkOf ir c = some s) : (s, v) ∈ cutEdges ir := by
  have hv : v < ir.length := by
    unfold kindOf at hk
    by_cases hv : v < ir.length
    · exact hv
    · simp [List.getElem?_eq_none (Nat.le_of_not_lt hv)] at hk
  simp only [cutEdges, List.mem_flatMap, List.mem_range]
  refine ⟨v, hv, ?_⟩
  simp [hk, hs]

/-- every non-delaying emitted edge stays inside one node's forward pipeline or follows
same-tick IR dependency edges -/
theorem aux_project_step (ir : IR) (a b : Nat × Nat) (h : emitEdge ir a b) :
    (a.1 = b.1 ∧ a.2 < b.2) ∨ TransGen (depCut ir) a.1 b.1 := by
  rcases h with h | ⟨x, hx, hr, hd⟩
  · exact Or.inl h
  · right
    have hin : depCut ir x b.1 := aux_mem_cutEdges_input ir x b.1 hx hd
    unfold resolve at hr
    cases hk : kindOf ir x with
    | none => simp [hk] at hr
    | some k =>
      cases k with
      | cycSource c =>
        simp only [hk] at hr
        exact TransGen.tail (TransGen.single (aux_mem_cutEdges_cycle ir a.1 x c hk hr)) hin
      | _ =>
        simp only [hk, Option.some.injEq] at hr
        subst hr
        exact TransGen.single hin

theorem aux_project (ir : IR) (a b : Nat × Nat) (h : TransGen (emitEdge ir) a b) :
    (a.1 = b.1 ∧ a.2 < b.2) ∨ TransGen (depCut ir) a.1 b.1 := by
  induction h with
  | single h => exact aux_project_step ir _ _ h
  | tail _ h ih =>
    rename_i m c
    rcases ih with ⟨e1, l1⟩ | t1
    · rcases aux_project_step ir _ _ h with ⟨e2, l2⟩ | t2
      · exact Or.inl ⟨e1.trans e2, Nat.lt_trans l1 l2⟩
      · right; rw [e1]; exact t2
    · rcases aux_project_step ir _ _ h with ⟨e2, _⟩ | t2
      · right; rw [← e2]; exact t1
      · exact Or.inr (TransGen.trans t1 t2)

/-- If every dependency cycle of the IR passes through a `DeferTick` or a network channel (i.e. the
IR graph without the edges into `DeferTick`s, the network halves being disconnected, has no
cycle), then the emitted operator graph has no cycle of non-delaying edges — for every IR, any
pipeline lengths, any wiring positions. -/
theorem emitted_graph_no_same_tick_cycle (ir : IR)
    (h : ∀ n, ¬ TransGen (depCut ir) n n) : ∀ a, ¬ TransGen (emitEdge ir) a a := by
  intro a hc
  rcases aux_project ir a a hc with ⟨_, l⟩ | t
  · exact Nat.lt_irrefl _ l
  · exact h _ t

/-- a rank function that increases along every same-tick dependency edge excludes cycles -/
theorem rank_certifies_acyclic (ir : IR) (r : List Nat) (h : checkRank ir r = true) :
    ∀ n, ¬ TransGen (depCut ir) n n := by
  have step : ∀ u v, depCut ir u v → r.getD u 0 < r.getD v 0 := by
    intro u v huv
    simp only [checkRank, List.all_eq_true, decide_eq_true_eq] at h
    exact h (u, v) huv
  have mono : ∀ u v, TransGen (depCut ir) u v → r.getD u 0 < r.getD v 0 := by
    intro u v t
    induction t with
    | single h => exact step _ _ h
    | tail _ h ih => exact Nat.lt_trans ih (step _ _ h)
  intro n t
  exact Nat.lt_irrefl _ (mono n n t)

/-- the executable verdict of the model is sound: an accepted IR emits a graph the partitioner
has no same-tick cycle to complain about -/
theorem accepted_ir_emits_acyclic_graph (ir : IR) (h : accepts ir = true) :
    ∀ a, ¬ TransGen (emitEdge ir) a a :=
  emitted_graph_no_same_tick_cycle ir (rank_certifies_acyclic ir _ h)

/-! ## Non-vacuity -/

/-- a tick cycle: `x = defer(cycSource 0); y = op(x, src); cycSink 0 <- tee(y); sink <- tee(y)` -/
def exTick : IR :=
  [⟨.src, 0, []⟩, ⟨.cycSource 0, 0, []⟩, ⟨.defer, 0, [1]⟩, ⟨.op, 0, [2, 0]⟩, ⟨.tee, 0, [3]⟩,
   ⟨.cycSink 0, 0, [4]⟩, ⟨.sink, 0, [4]⟩]
example : accepts exTick = true := by decide
/-- the same without the `DeferTick`: an undelayed forward-reference cycle is not accepted -/
def exBad : IR :=
  [⟨.src, 0, []⟩, ⟨.cycSource 0, 0, []⟩, ⟨.op, 0, [1, 0]⟩, ⟨.cycSink 0, 0, [2]⟩]
example : accepts exBad = false := by decide
example : TransGen (depCut exBad) 1 1 :=
  TransGen.tail (TransGen.tail (TransGen.single (show (1, 2) ∈ cutEdges exBad by decide))
    (show (2, 3) ∈ cutEdges exBad by decide)) (show (3, 1) ∈ cutEdges exBad by decide)
/-- a cycle through the network: p1 -> p2 -> p1, closed by a forward reference -/
def exNet : IR :=
  [⟨.cycSource 0, 0, []⟩, ⟨.op, 0, [0]⟩, ⟨.netSend, 0, [1]⟩, ⟨.netRecv, 1, []⟩, ⟨.op, 1, [3]⟩,
   ⟨.netSend, 1, [4]⟩, ⟨.netRecv, 0, []⟩, ⟨.cycSink 0, 0, [6]⟩]
example : accepts exNet = true := by decide

/-! ## The projection compared by the harness is inside the relation of the theorem -/

/-- Every non-delaying edge `(a, y)` of `predictedEdges` — the list the driver prints and the
harness compares, edge for edge, with the projection of the *real* emitted DFIR graph onto the IR
nodes owning its operators — is an `emitEdge` between any two pipeline positions of `a` and `y`.
So the graph observed on the real emitter is covered by the relation for which
`emitted_graph_no_same_tick_cycle` is proved. -/
theorem predictedEdges_sound (ir : IR) (a y : Nat) (h : (a, y, false) ∈ predictedEdges ir) :
    ∀ i j, emitEdge ir (a, i) (y, j) := by
  intro i j
  simp only [predictedEdges, List.mem_flatMap, List.mem_range] at h
  obtain ⟨y', _, h⟩ := h
  have key : (a, y, false) ∈ (inputsOf ir y').filterMap (fun x =>
      match resolve ir x with
      | some a => if a == y' then none else some (a, y', isDefer ir y')
      | none => none) := by
    split at h <;> first | (simp at h; done) | exact h
  simp only [List.mem_filterMap] at key
  obtain ⟨x, hx, hr⟩ := key
  cases hres : resolve ir x with
  | none => simp [hres] at hr
  | some a' =>
    simp only [hres] at hr
    split at hr
    · simp at hr
    · simp only [Option.some.injEq, Prod.mk.injEq] at hr
      obtain ⟨rfl, rfl, hd⟩ := hr
      exact Or.inr ⟨x, hx, hres, hd⟩

/-! ## The clause as stated, and the program that refutes it (finding F41) -/

/-- every forward reference / tick cycle that is read has been completed -/
def Completed (ir : IR) : Prop :=
  ∀ v c, kindOf ir v = some (Kind.cycSource c) → (sinkOf ir c).isSome = true

/-- C41 as stated, on the model: every program whose forward references and tick cycles are all
completed is accepted (partitions without a same-tick cycle). -/
def CompletedProgramAcceptedStatement : Prop := ∀ ir, Completed ir → accepts ir = true

/-- `let (h, s) = p.forward_ref(); let m = input.merge_ordered(s).map(..); h.complete(m.clone());
m.embedded_output(..)` on a top-level (non-tick) location: an asynchronous cycle outside a tick,
which the documentation of `ForwardHandle::complete` allows.  This is, node for node, the abstract
IR the harness extracts for corpus/C41/f41_top_level_forward_ref_cycle.case #1. -/
def exTopLevelCycle : IR :=
  [⟨.src, 0, []⟩, ⟨.cycSource 0, 0, []⟩, ⟨.op, 0, [0, 1]⟩, ⟨.op, 0, [2]⟩, ⟨.tee, 0, [3]⟩,
   ⟨.cycSink 0, 0, [4]⟩, ⟨.src, 0, []⟩, ⟨.sink, 0, [6]⟩, ⟨.sink, 0, [4]⟩]

/-- REFUTED (F41): the emission adds no delay for a forward reference, so a completed top-level
forward reference that is closed through local operators only gives a same-tick cycle and the
builder rejects the program (the harness observes exactly this rejection on the real builder). -/
theorem completed_program_accepted_refuted : ¬ CompletedProgramAcceptedStatement := by
  intro h
  have hc : Completed exTopLevelCycle := by
    intro v c hk
    have hv : v < 9 := by
      by_cases hv : v < 9
      · exact hv
      · have : exTopLevelCycle[v]? = none := List.getElem?_eq_none (by simp [exTopLevelCycle]; omega)
        simp [kindOf, this] at hk
    have : v = 0 ∨ v = 1 ∨ v = 2 ∨ v = 3 ∨ v = 4 ∨ v = 5 ∨ v = 6 ∨ v = 7 ∨ v = 8 := by omega
    rcases this with rfl | rfl | rfl | rfl | rfl | rfl | rfl | rfl | rfl <;>
      simp [kindOf, exTopLevelCycle] at hk
    subst hk
    decide
  have := h exTopLevelCycle hc
  revert this
  decide

/-- the rejection is for a real same-tick cycle of the IR: source -> merge -> map -> tee -> sink -> source -/
example : TransGen (depCut exTopLevelCycle) 1 1 :=
  TransGen.tail (TransGen.tail (TransGen.tail (TransGen.tail
    (TransGen.single (show (1, 2) ∈ cutEdges exTopLevelCycle by decide))
    (show (2, 3) ∈ cutEdges exTopLevelCycle by decide))
    (show (3, 4) ∈ cutEdges exTopLevelCycle by decide))
    (show (4, 5) ∈ cutEdges exTopLevelCycle by decide))
    (show (5, 1) ∈ cutEdges exTopLevelCycle by decide)
/-- the same program with the forward reference closed through a network round trip is accepted -/
example : Completed exNet ∧ accepts exNet = true := by
  refine ⟨?_, by decide⟩
  intro v c hk
  have hv : v < 8 := by
    by_cases hv : v < 8
    · exact hv
    · have : exNet[v]? = none := List.getElem?_eq_none (by simp [exNet]; omega)
      simp [kindOf, this] at hk
  have : v = 0 ∨ v = 1 ∨ v = 2 ∨ v = 3 ∨ v = 4 ∨ v = 5 ∨ v = 6 ∨ v = 7 := by omega
  rcases this with rfl | rfl | rfl | rfl | rfl | rfl | rfl | rfl <;>
    simp [kindOf, exNet] at hk
  subst hk
  decide

end HvNet.Emit
