/-
C39 — quorum collection is batching-independent and fires once per key.

Model: `Model/Quorum.lean` (`collect_quorum`, `collect_quorum_with_response`, `join_responses`
as batch state machines, one step per tick of the `sliced!` block).

Property theorems (names without the `aux_` prefix), all for *every* batching of *every*
response sequence with at most `max` responses per key, `1 ≤ min ≤ max`:
  quorum_fires_at_min, quorum_once_per_key, quorum_reports_exactly, batching_independent,
  errors_passed_through                                              (collect_quorum)
  quorumW_fires_at_min, quorumW_reports_once,
  quorumW_values_batching_independent_refuted, quorumW_min_eq_max_values,
  quorumW_min_eq_max_batching_independent                            (collect_quorum_with_response)
  join_tick_output, join_responses_once                              (join_responses)
-/
import HvNet.Model.Quorum
namespace HvNet.Quorum
section
variable {κ V E : Type} [DecidableEq κ]


theorem aux_mem_keysOf (l : List (Resp κ V E)) (k : κ) : k ∈ keysOf l ↔ ∃ r ∈ l, r.1 = k := by
  induction l with
  | nil => simp [keysOf]
  | cons r rs ih =>
    simp only [keysOf]
    split
    · rename_i h
      rw [ih]
      constructor
      · rintro ⟨x, hx, e⟩; exact ⟨x, by simp [hx], e⟩
      · rintro ⟨x, hx, e⟩
        simp only [List.mem_cons] at hx
        rcases hx with rfl | hx
        · exact ih.mp (e ▸ h)
        · exact ⟨x, hx, e⟩
    · simp only [List.mem_cons, ih]
      constructor
      · rintro (rfl | ⟨x, hx, e⟩)
        · exact ⟨r, by simp, rfl⟩
        · exact ⟨x, by simp [hx], e⟩
      · rintro ⟨x, hx, e⟩
        rcases hx with rfl | hx
        · left; exact e.symm
        · right; exact ⟨x, hx, e⟩

theorem aux_nodup_keysOf (l : List (Resp κ V E)) : (keysOf l).Nodup := by
  induction l with
  | nil => simp [keysOf]
  | cons r rs ih =>
    simp only [keysOf]
    split
    · exact ih
    · rename_i h; exact List.nodup_cons.mpr ⟨h, ih⟩

theorem aux_succ_pos_mem (l : List (Resp κ V E)) (k : κ) (h : 0 < succ l k) : k ∈ keysOf l := by
  rw [aux_mem_keysOf]
  unfold succ at h
  obtain ⟨r, hr, hp⟩ := List.countP_pos_iff.mp h
  simp at hp
  exact ⟨r, hr, hp.1⟩

theorem aux_succ_append (a b : List (Resp κ V E)) (k : κ) : succ (a ++ b) k = succ a k + succ b k := by
  simp [succ, List.countP_append]
theorem aux_errs_append (a b : List (Resp κ V E)) (k : κ) : errs (a ++ b) k = errs a k + errs b k := by
  simp [errs, List.countP_append]
theorem aux_total_append (a b : List (Resp κ V E)) (k : κ) : total (a ++ b) k = total a k + total b k := by
  simp [total, List.countP_append]

theorem aux_total_eq (l : List (Resp κ V E)) (k : κ) : total l k = succ l k + errs l k := by
  induction l with
  | nil => simp [total, succ, errs]
  | cons r rs ih =>
    simp only [total, succ, errs, List.countP_cons] at ih ⊢
    by_cases e : r.1 = k <;> cases h : r.2.isOk <;> simp [e, h] <;> omega

/-- the responses of key `k` -/
def proj (l : List (Resp κ V E)) (k : κ) : List (Resp κ V E) := l.filter fun r => r.1 = k

theorem aux_proj_append (a b : List (Resp κ V E)) (k : κ) : proj (a ++ b) k = proj a k ++ proj b k := by
  simp [proj]

theorem aux_succ_proj (l : List (Resp κ V E)) (k : κ) : succ (proj l k) k = succ l k := by
  simp only [succ, proj, List.countP_filter]
  congr 1; funext r; by_cases e : r.1 = k <;> simp [e]
theorem aux_total_proj (l : List (Resp κ V E)) (k : κ) : total (proj l k) k = total l k := by
  simp only [total, proj, List.countP_filter]
  congr 1; funext r; by_cases e : r.1 = k <;> simp [e]
theorem aux_total_proj_len (l : List (Resp κ V E)) (k : κ) : (proj l k).length = total l k := by
  simp [total, proj, List.countP_eq_length_filter]

theorem aux_total_pos_mem (l : List (Resp κ V E)) (k : κ) (h : 0 < total l k) : k ∈ keysOf l := by
  rw [aux_mem_keysOf]
  obtain ⟨r, hr, hp⟩ := List.countP_pos_iff.mp h
  exact ⟨r, hr, by simpa using hp⟩

theorem aux_proj_filter (l : List (Resp κ V E)) (p : κ → Bool) (k : κ) :
    proj (l.filter fun r => p r.1) k = if p k then proj l k else [] := by
  simp only [proj, List.filter_filter]
  by_cases h : p k
  · simp only [h, if_true]
    apply List.filter_congr
    intro r _
    by_cases e : r.1 = k <;> simp [e, h]
  · simp only [h]
    simp only [Bool.false_eq_true, ↓reduceIte, List.filter_eq_nil_iff]
    intro r _
    by_cases e : r.1 = k <;> simp [e, h]

theorem aux_mem_reachedMin (min : Nat) (cur : List (Resp κ V E)) (k : κ) (h1 : 1 ≤ min) :
    k ∈ reachedMin min cur ↔ min ≤ succ cur k := by
  simp only [reachedMin, List.mem_filter, decide_eq_true_eq]
  exact ⟨fun h => h.2, fun h => ⟨aux_succ_pos_mem cur k (by omega), h⟩⟩

theorem aux_mem_receivedAll (max : Nat) (cur : List (Resp κ V E)) (k : κ) (h1 : 1 ≤ max) :
    k ∈ receivedAll max cur ↔ max ≤ total cur k := by
  simp only [receivedAll, List.mem_filter, decide_eq_true_eq, ← aux_total_eq]
  exact ⟨fun h => h.2, fun h => ⟨aux_total_pos_mem cur k (by omega), h⟩⟩

/-- "`k` is finished" after history `hist`: its items have left `not_all` -/
def done (min max : Nat) (hist : List (Resp κ V E)) (k : κ) : Prop :=
  if max = min then min ≤ succ hist k else max ≤ total hist k

instance (min max : Nat) (hist : List (Resp κ V E)) (k : κ) : Decidable (done min max hist k) := by
  unfold done; infer_instance

/-- the state after the responses `hist` (in any batching) -/
structure Inv (min max : Nat) (st : St κ V E) (hist : List (Resp κ V E)) : Prop where
  notAll : ∀ k, proj st.notAll k = if done min max hist k then [] else proj hist k
  mbnm : max ≠ min → ∀ k, k ∈ st.mbnm ↔ (min ≤ succ hist k ∧ total hist k < max)

theorem aux_succ_le_total (l : List (Resp κ V E)) (k : κ) : succ l k ≤ total l k := by
  rw [aux_total_eq]; omega

theorem aux_proj_nil_of_total (l : List (Resp κ V E)) (k : κ) (h : total l k = 0) : proj l k = [] := by
  have := aux_total_proj_len l k
  exact List.eq_nil_of_length_eq_zero (by omega)

/-- the per-key content of `current_responses` -/
theorem aux_cur (min max : Nat) (st : St κ V E) (hist b : List (Resp κ V E))
    (inv : Inv min max st hist) (H : ∀ k, total (hist ++ b) k ≤ max) (k : κ) :
    proj (st.notAll ++ b) k = if done min max hist k then [] else proj (hist ++ b) k := by
  rw [aux_proj_append, inv.notAll k, aux_proj_append]
  split
  · rename_i hd
    simp only [List.nil_append]
    apply aux_proj_nil_of_total
    have hk := H k
    rw [aux_total_append] at hk
    have := aux_succ_le_total hist k
    unfold done at hd
    split at hd <;> omega
  · rfl

theorem aux_succ_cur (min max : Nat) (st : St κ V E) (hist b : List (Resp κ V E))
    (inv : Inv min max st hist) (H : ∀ k, total (hist ++ b) k ≤ max) (k : κ) :
    succ (st.notAll ++ b) k = if done min max hist k then 0 else succ (hist ++ b) k := by
  rw [← aux_succ_proj, aux_cur min max st hist b inv H k]
  split
  · simp [succ]
  · rw [aux_succ_proj]

theorem aux_total_cur (min max : Nat) (st : St κ V E) (hist b : List (Resp κ V E))
    (inv : Inv min max st hist) (H : ∀ k, total (hist ++ b) k ≤ max) (k : κ) :
    total (st.notAll ++ b) k = if done min max hist k then 0 else total (hist ++ b) k := by
  rw [← aux_total_proj, aux_cur min max st hist b inv H k]
  split
  · simp [total]
  · rw [aux_total_proj]

/-- `k` reaches the minimum in this batch -/
def firesAt (min : Nat) (hist b : List (Resp κ V E)) (k : κ) : Prop :=
  succ hist k < min ∧ min ≤ succ (hist ++ b) k

instance (min : Nat) (hist b : List (Resp κ V E)) (k : κ) : Decidable (firesAt min hist b k) := by
  unfold firesAt; infer_instance

theorem aux_stepW_state (min max : Nat) (st : St κ V E) (b : List (Resp κ V E)) :
    (stepW min max st b).1 = (stepQ min max st b).1 := by
  unfold stepW stepQ; split <;> rfl

theorem aux_step_inv (min max : Nat) (st : St κ V E) (hist b : List (Resp κ V E))
    (h1 : 1 ≤ min) (hmm : min ≤ max) (inv : Inv min max st hist)
    (H : ∀ k, total (hist ++ b) k ≤ max) :
    Inv min max (stepQ min max st b).1 (hist ++ b) := by
  have hs := aux_succ_cur min max st hist b inv H
  have ht := aux_total_cur min max st hist b inv H
  have hc := aux_cur min max st hist b inv H
  by_cases e : max = min
  · subst e
    constructor
    · intro k
      simp only [stepQ, if_true]
      have := aux_proj_filter (st.notAll ++ b) (fun k => !(reachedMin max (st.notAll ++ b)).contains k) k
      rw [this, hc k]
      have hm : (reachedMin max (st.notAll ++ b)).contains k = decide (max ≤ succ (st.notAll ++ b) k) := by
        rw [List.contains_eq_mem]; congr 1; exact propext (aux_mem_reachedMin _ _ _ h1)
      rw [hm, hs k]
      by_cases hd : done max max hist k
      · have hd' : done max max (hist ++ b) k := by
          simp only [done, if_true, aux_succ_append] at hd ⊢; omega
        simp [hd, hd']
      · by_cases hd' : done max max (hist ++ b) k
        · have : max ≤ succ (hist ++ b) k := by simpa [done] using hd'
          simp [hd, hd', this]
        · have : ¬ max ≤ succ (hist ++ b) k := by simpa [done] using hd'
          simp [hd, hd', this]
    · intro h; exact absurd rfl h
  · constructor
    · intro k
      simp only [stepQ, if_neg e]
      have := aux_proj_filter (st.notAll ++ b) (fun k => !(receivedAll max (st.notAll ++ b)).contains k) k
      rw [this, hc k]
      have hm : (receivedAll max (st.notAll ++ b)).contains k = decide (max ≤ total (st.notAll ++ b) k) := by
        rw [List.contains_eq_mem]; congr 1; exact propext (aux_mem_receivedAll _ _ _ (by omega))
      rw [hm, ht k]
      by_cases hd : done min max hist k
      · have hd' : done min max (hist ++ b) k := by
          simp only [done, if_neg e, aux_total_append] at hd ⊢; omega
        simp [hd, hd']
      · by_cases hd' : done min max (hist ++ b) k
        · have : max ≤ total (hist ++ b) k := by simpa [done, e] using hd'
          simp [hd, hd', this]
        · have : ¬ max ≤ total (hist ++ b) k := by simpa [done, e] using hd'
          simp [hd, hd', this]
    · intro _ k
      simp only [stepQ, if_neg e, List.mem_filter, Bool.not_eq_eq_eq_not, Bool.not_true,
        List.contains_eq_mem, decide_eq_false_iff_not, aux_mem_reachedMin _ _ _ h1,
        aux_mem_receivedAll _ _ _ (by omega : 1 ≤ max), hs k, ht k]
      simp only [done, if_neg e, aux_succ_append, aux_total_append]
      have := aux_succ_le_total hist k
      have := aux_succ_le_total b k
      split <;> omega

theorem aux_stepQ_out (min max : Nat) (st : St κ V E) (hist b : List (Resp κ V E))
    (h1 : 1 ≤ min) (hmm : min ≤ max) (inv : Inv min max st hist)
    (H : ∀ k, total (hist ++ b) k ≤ max) (k : κ) :
    k ∈ (stepQ min max st b).2 ↔ firesAt min hist b k := by
  have hs := aux_succ_cur min max st hist b inv H k
  by_cases e : max = min
  · subst e
    simp only [stepQ, if_true, aux_mem_reachedMin _ _ _ h1, hs, firesAt]
    simp only [done, if_true, aux_succ_append]
    split <;> omega
  · simp only [stepQ, if_neg e, List.mem_filter, Bool.not_eq_eq_eq_not, Bool.not_true,
      List.contains_eq_mem, decide_eq_false_iff_not, aux_mem_reachedMin _ _ _ h1, hs,
      inv.mbnm e k, firesAt]
    simp only [done, if_neg e, aux_succ_append]
    have := aux_succ_le_total hist k
    have := aux_succ_le_total b k
    have hk := H k
    rw [aux_total_append] at hk
    split <;> omega

theorem aux_stepQ_nodup (min max : Nat) (st : St κ V E) (b : List (Resp κ V E)) :
    (stepQ min max st b).2.Nodup := by
  unfold stepQ
  split
  · exact (aux_nodup_keysOf _).filter _
  · exact ((aux_nodup_keysOf _).filter _).filter _

/-- per-batch specification of `collect_quorum`: in every tick, exactly the keys whose success
count reaches `min` in that tick, each once -/
def SpecQ (min : Nat) : List (Resp κ V E) → List (List (Resp κ V E)) → List (List κ) → Prop
  | _, [], [] => True
  | hist, b :: bs, o :: os => (o.Nodup ∧ ∀ k, k ∈ o ↔ firesAt min hist b k) ∧ SpecQ min (hist ++ b) bs os
  | _, _, _ => False

theorem aux_runQ_spec (min max : Nat) (h1 : 1 ≤ min) (hmm : min ≤ max)
    (bs : List (List (Resp κ V E))) (st : St κ V E) (hist : List (Resp κ V E))
    (inv : Inv min max st hist) (H : ∀ k, total (hist ++ bs.flatten) k ≤ max) :
    SpecQ min hist bs (runQ min max st bs) := by
  induction bs generalizing st hist with
  | nil => simp [runQ, SpecQ]
  | cons b bs ih =>
    have Hb : ∀ k, total (hist ++ b) k ≤ max := by
      intro k
      have := H k
      simp only [List.flatten_cons, aux_total_append] at this ⊢
      omega
    simp only [runQ, SpecQ]
    refine ⟨⟨aux_stepQ_nodup min max st b, aux_stepQ_out min max st hist b h1 hmm inv Hb⟩, ?_⟩
    apply ih _ _ (aux_step_inv min max st hist b h1 hmm inv Hb)
    intro k
    have := H k
    simpa [List.append_assoc] using this

theorem aux_inv_init (min max : Nat) (h1 : 1 ≤ min) : Inv min max ({} : St κ V E) [] := by
  constructor
  · intro k; simp [proj]
  · intro _ k; simp [succ, total]; omega

/-- consequences of the per-batch specification for the whole run -/
theorem aux_specQ_flatten (min : Nat) (bs : List (List (Resp κ V E))) (hist : List (Resp κ V E))
    (os : List (List κ)) (h : SpecQ min hist bs os) :
    os.flatten.Nodup ∧ ∀ k, k ∈ os.flatten ↔ (succ hist k < min ∧ min ≤ succ (hist ++ bs.flatten) k) := by
  induction bs generalizing hist os with
  | nil =>
    cases os with
    | nil => simp <;> (intro k; omega)
    | cons o os => simp [SpecQ] at h
  | cons b bs ih =>
    cases os with
    | nil => simp [SpecQ] at h
    | cons o os =>
      simp only [SpecQ] at h
      obtain ⟨⟨hn, ho⟩, hrest⟩ := h
      obtain ⟨ihn, ihm⟩ := ih _ _ hrest
      simp only [List.flatten_cons]
      constructor
      · rw [List.nodup_append]
        refine ⟨hn, ihn, ?_⟩
        intro a ha c hc e
        subst e
        have h1 := (ho a).mp ha
        have h2 := (ihm a).mp hc
        simp only [firesAt] at h1
        omega
      · intro k
        rw [List.mem_append, ho k, ihm k]
        simp only [firesAt, List.append_assoc, aux_succ_append]
        omega

/-! ## Property theorems: `collect_quorum` -/

/-- hypotheses of the quorum theorems: sensible bounds, and at most `max` responses per key -/
structure QuorumInput (min max : Nat) (batches : List (List (Resp κ V E))) : Prop where
  min_pos : 1 ≤ min
  min_le_max : min ≤ max
  at_most_max : ∀ k, total batches.flatten k ≤ max

/-- In every tick the emitted keys are exactly those whose number of successful responses
reaches `min` in that tick (it was below `min` before the tick's batch and is at least `min`
with it), each emitted once — for every batching. -/
theorem quorum_fires_at_min (min max : Nat) (batches : List (List (Resp κ V E)))
    (h : QuorumInput min max batches) :
    SpecQ min [] batches (runQ min max {} batches) :=
  aux_runQ_spec min max h.min_pos h.min_le_max batches {} [] (aux_inv_init min max h.min_pos)
    (by simpa using h.at_most_max)

/-- Over the whole run no key is reported twice. -/
theorem quorum_once_per_key (min max : Nat) (batches : List (List (Resp κ V E)))
    (h : QuorumInput min max batches) : (runQ min max {} batches).flatten.Nodup :=
  (aux_specQ_flatten min batches [] _ (quorum_fires_at_min min max batches h)).1

/-- A key is reported iff at least `min` successful responses for it arrived. -/
theorem quorum_reports_exactly (min max : Nat) (batches : List (List (Resp κ V E)))
    (h : QuorumInput min max batches) (k : κ) :
    k ∈ (runQ min max {} batches).flatten ↔ min ≤ succ batches.flatten k := by
  have := (aux_specQ_flatten min batches [] _ (quorum_fires_at_min min max batches h)).2 k
  simp only [List.nil_append] at this
  rw [this]
  have := h.min_pos
  simp [succ]; omega

/-- Any two batchings of the same response sequence report the same keys (as multisets). -/
theorem batching_independent (min max : Nat) (b₁ b₂ : List (List (Resp κ V E)))
    (h₁ : QuorumInput min max b₁) (h₂ : QuorumInput min max b₂) (e : b₁.flatten = b₂.flatten) :
    (runQ min max {} b₁).flatten.Perm (runQ min max {} b₂).flatten := by
  rw [List.perm_ext_iff_of_nodup (quorum_once_per_key min max b₁ h₁) (quorum_once_per_key min max b₂ h₂)]
  intro k
  rw [quorum_reports_exactly min max b₁ h₁, quorum_reports_exactly min max b₂ h₂, e]

/-- The error output is the error responses themselves, in order, whatever the batching. -/
theorem errors_passed_through (batches : List (List (Resp κ V E))) :
    (batches.map errorsOut).flatten = errorsOut batches.flatten ∧
    ∀ k e, (k, e) ∈ errorsOut batches.flatten ↔ (k, Res.err e) ∈ batches.flatten := by
  constructor
  · show _ = List.filterMap errVal batches.flatten
    rw [List.filterMap_flatten]; rfl
  · intro k e
    simp only [errorsOut, List.mem_filterMap]
    constructor
    · rintro ⟨⟨k', r⟩, hm, hv⟩
      cases r <;> simp [errVal] at hv
      obtain ⟨rfl, rfl⟩ := hv
      exact hm
    · intro hm
      exact ⟨(k, Res.err e), hm, rfl⟩

/-! ## `collect_quorum_with_response` -/

theorem aux_filter_okVal (l : List (Resp κ V E)) (k : κ) :
    (l.filterMap okVal).filter (fun p => p.1 = k) = (proj l k).filterMap okVal := by
  induction l with
  | nil => simp [proj]
  | cons r rs ih =>
    obtain ⟨k', res⟩ := r
    simp only [proj] at ih ⊢
    cases res with
    | ok v =>
      have h0 : okVal ((k', Res.ok v) : Resp κ V E) = some (k', v) := rfl
      by_cases e : k' = k
      · subst e; simp [List.filterMap_cons, List.filter_cons, h0, ih]
      · simp [List.filterMap_cons, List.filter_cons, h0, e, ih]
    | err x =>
      have h0 : okVal ((k', Res.err x) : Resp κ V E) = none := rfl
      by_cases e : k' = k
      · subst e; simp [List.filterMap_cons, List.filter_cons, h0, ih]
      · simp [List.filterMap_cons, List.filter_cons, h0, e, ih]

theorem aux_nrm (min : Nat) (cur : List (Resp κ V E)) (k : κ) :
    (if (!(notReachedMin min cur).contains k) = true then proj cur k else []) =
      if min ≤ succ cur k then proj cur k else [] := by
  by_cases hk : k ∈ keysOf cur
  · simp only [notReachedMin, List.contains_eq_mem, List.mem_filter, hk, true_and, decide_eq_true_eq,
      Bool.not_eq_eq_eq_not, Bool.not_true, decide_eq_false_iff_not, Nat.not_lt]
  · have : proj cur k = [] := by
      apply aux_proj_nil_of_total
      by_cases h0 : total cur k = 0
      · exact h0
      · exact absurd (aux_total_pos_mem cur k (by omega)) hk
    simp [this]

/-- per-batch specification of `collect_quorum_with_response`: the values emitted for key `k` in
a tick are all successful responses for `k` received so far if `k` reaches `min` in this tick,
and nothing otherwise -/
def SpecW (min : Nat) : List (Resp κ V E) → List (List (Resp κ V E)) → List (List (κ × V)) → Prop
  | _, [], [] => True
  | hist, b :: bs, o :: os =>
    (∀ k, o.filter (fun p => p.1 = k) =
        if firesAt min hist b k then (proj (hist ++ b) k).filterMap okVal else []) ∧
      SpecW min (hist ++ b) bs os
  | _, _, _ => False

theorem aux_stepW_out (min max : Nat) (st : St κ V E) (hist b : List (Resp κ V E))
    (h1 : 1 ≤ min) (hmm : min ≤ max) (inv : Inv min max st hist)
    (H : ∀ k, total (hist ++ b) k ≤ max) (k : κ) :
    (stepW min max st b).2.filter (fun p => p.1 = k) =
      if firesAt min hist b k then (proj (hist ++ b) k).filterMap okVal else [] := by
  have hs := aux_succ_cur min max st hist b inv H k
  have hc := aux_cur min max st hist b inv H k
  have hle := aux_succ_le_total hist k
  have hle' := aux_succ_le_total b k
  have hk := H k
  rw [aux_total_append] at hk
  by_cases e : max = min
  · subst e
    simp only [stepW, if_true, aux_filter_okVal]
    rw [aux_proj_filter (st.notAll ++ b) (fun k => !(notReachedMin max (st.notAll ++ b)).contains k) k,
      aux_nrm, hs, hc]
    by_cases hd : done max max hist k
    · have : ¬ firesAt max hist b k := by
        simp only [done, if_true] at hd; simp only [firesAt]; omega
      simp [hd, this]
    · by_cases hf : firesAt max hist b k
      · simp [hd, hf, hf.2]
      · have : ¬ max ≤ succ (hist ++ b) k := by
          simp only [done, if_true] at hd; simp only [firesAt] at hf; omega
        simp [hd, hf, this]
  · simp only [stepW, if_neg e, aux_filter_okVal]
    rw [aux_proj_filter _ (fun k => !st.mbnm.contains k) k,
      aux_proj_filter (st.notAll ++ b) (fun k => !(notReachedMin min (st.notAll ++ b)).contains k) k,
      aux_nrm, hs, hc]
    have hm : st.mbnm.contains k = decide (min ≤ succ hist k ∧ total hist k < max) := by
      rw [List.contains_eq_mem]; congr 1; exact propext (inv.mbnm e k)
    rw [hm]
    by_cases hd : done min max hist k
    · have : ¬ firesAt min hist b k := by
        simp only [done, if_neg e] at hd; simp only [firesAt, aux_succ_append]; omega
      simp [hd, this]
    · simp only [done, if_neg e] at hd
      by_cases hf : firesAt min hist b k
      · have h2 : ¬ (min ≤ succ hist k ∧ total hist k < max) := by
          simp only [firesAt] at hf; omega
        simp [done, e, hd, hf, hf.2, h2]
      · by_cases h3 : min ≤ succ (hist ++ b) k
        · have h2 : (min ≤ succ hist k ∧ total hist k < max) := by
            simp only [firesAt] at hf; omega
          simp [done, e, hd, hf, h2]
        · simp [done, e, hd, hf, h3]

theorem aux_runW_spec (min max : Nat) (h1 : 1 ≤ min) (hmm : min ≤ max)
    (bs : List (List (Resp κ V E))) (st : St κ V E) (hist : List (Resp κ V E))
    (inv : Inv min max st hist) (H : ∀ k, total (hist ++ bs.flatten) k ≤ max) :
    SpecW min hist bs (runW min max st bs) := by
  induction bs generalizing st hist with
  | nil => simp [runW, SpecW]
  | cons b bs ih =>
    have Hb : ∀ k, total (hist ++ b) k ≤ max := by
      intro k
      have := H k
      simp only [List.flatten_cons, aux_total_append] at this ⊢
      omega
    simp only [runW, SpecW]
    refine ⟨aux_stepW_out min max st hist b h1 hmm inv Hb, ?_⟩
    rw [aux_stepW_state]
    apply ih _ _ (aux_step_inv min max st hist b h1 hmm inv Hb)
    intro k
    have := H k
    simpa [List.append_assoc] using this

theorem aux_okVal_length (l : List (Resp κ V E)) (k : κ) :
    ((proj l k).filterMap okVal).length = succ l k := by
  induction l with
  | nil => simp [proj, succ]
  | cons r rs ih =>
    obtain ⟨k', res⟩ := r
    simp only [proj, succ] at ih ⊢
    cases res with
    | ok v =>
      have h0 : okVal ((k', Res.ok v) : Resp κ V E) = some (k', v) := rfl
      by_cases e : k' = k
      · subst e; simp [List.filter_cons, List.filterMap_cons, h0, List.countP_cons, Res.isOk, ih]
      · simp [List.filter_cons, List.countP_cons, e, ih]
    | err x =>
      have h0 : okVal ((k', Res.err x) : Resp κ V E) = none := rfl
      by_cases e : k' = k
      · subst e; simp [List.filter_cons, List.filterMap_cons, h0, List.countP_cons, Res.isOk, ih]
      · simp [List.filter_cons, List.countP_cons, e, ih]

/-- In every tick, the values emitted for a key are all its successes so far if the key reaches
`min` in this tick, and none otherwise — for every batching. -/
theorem quorumW_fires_at_min (min max : Nat) (batches : List (List (Resp κ V E)))
    (h : QuorumInput min max batches) :
    SpecW min [] batches (runW min max {} batches) :=
  aux_runW_spec min max h.min_pos h.min_le_max batches {} [] (aux_inv_init min max h.min_pos)
    (by simpa using h.at_most_max)

theorem aux_specW_count (min : Nat) (h1 : 1 ≤ min) (bs : List (List (Resp κ V E)))
    (hist : List (Resp κ V E)) (os : List (List (κ × V))) (h : SpecW min hist bs os) (k : κ) :
    (os.filter (fun o => o.any (fun p => p.1 = k))).length =
      (if succ hist k < min ∧ min ≤ succ (hist ++ bs.flatten) k then 1 else 0) ∧
    ∀ o ∈ os, (o.filter (fun p => p.1 = k)).length = 0 ∨ min ≤ (o.filter (fun p => p.1 = k)).length := by
  induction bs generalizing hist os with
  | nil =>
    cases os with
    | nil =>
      simp only [List.filter_nil, List.length_nil, List.flatten_nil, List.append_nil]
      constructor
      · split <;> first | rfl | omega
      · simp
    | cons o os => simp [SpecW] at h
  | cons b bs ih =>
    cases os with
    | nil => simp [SpecW] at h
    | cons o os =>
      simp only [SpecW] at h
      obtain ⟨ho, hrest⟩ := h
      obtain ⟨ih1, ih2⟩ := ih _ _ hrest
      have hlen : (o.filter (fun p => p.1 = k)).length =
          if firesAt min hist b k then succ (hist ++ b) k else 0 := by
        rw [ho k]; split
        · exact aux_okVal_length _ _
        · rfl
      have hany : o.any (fun p => p.1 = k) = true ↔ firesAt min hist b k := by
        have h0 : o.any (fun p => decide (p.1 = k)) = true ↔ 0 < (o.filter (fun p => p.1 = k)).length := by
          rw [List.length_pos_iff, List.any_eq_true, ne_eq, List.filter_eq_nil_iff]
          simp
        rw [h0, hlen]
        by_cases hf : firesAt min hist b k
        · have := hf.2; simp [hf]; omega
        · simp [hf]
      have hsplit : succ (hist ++ (b :: bs).flatten) k = succ (hist ++ b) k + succ bs.flatten k := by
        simp [aux_succ_append]; omega
      have hsplit2 : succ (hist ++ b ++ bs.flatten) k = succ (hist ++ b) k + succ bs.flatten k := by
        simp [aux_succ_append] <;> omega
      constructor
      · rw [List.filter_cons]
        by_cases hf : firesAt min hist b k
        · rw [if_pos (hany.mpr hf), List.length_cons, ih1]
          have hf' := hf
          simp only [firesAt] at hf'
          rw [if_neg (by omega), if_pos (by rw [hsplit]; omega)]
        · have : ¬ (o.any (fun p => decide (p.1 = k)) = true) := fun h => hf (hany.mp h)
          rw [if_neg this, ih1]
          simp only [firesAt] at hf
          rw [hsplit, hsplit2]
          by_cases c : succ (hist ++ b) k < min ∧ min ≤ succ (hist ++ b) k + succ bs.flatten k
          · rw [if_pos c, if_pos]
            simp only [aux_succ_append] at hf c ⊢; omega
          · rw [if_neg c, if_neg]
            simp only [aux_succ_append] at hf c ⊢; omega
      · intro o' ho'
        simp only [List.mem_cons] at ho'
        rcases ho' with rfl | ho'
        · rw [hlen]; split
          · rename_i hf; right; exact hf.2
          · left; rfl
        · exact ih2 o' ho'

/-- A key's values are emitted in at most one tick — exactly one iff the key got `min` successes —
and in that tick at least `min` values come out. -/
theorem quorumW_reports_once (min max : Nat) (batches : List (List (Resp κ V E)))
    (h : QuorumInput min max batches) (k : κ) :
    ((runW min max {} batches).filter (fun o => o.any (fun p => p.1 = k))).length =
      (if min ≤ succ batches.flatten k then 1 else 0) ∧
    ∀ o ∈ runW min max {} batches,
      (o.filter (fun p => p.1 = k)).length = 0 ∨ min ≤ (o.filter (fun p => p.1 = k)).length := by
  have := aux_specW_count min h.min_pos batches [] _ (quorumW_fires_at_min min max batches h) k
  have h1 := h.min_pos
  simpa [succ, show (0 < min) from h1] using this

/-- REFUTED for `collect_quorum_with_response` with `min < max`: the multiset of emitted values
depends on the batching (successes arriving in the quorum tick beyond `min` are emitted, later
ones are dropped).  Witness: `min = 1`, `max = 2`, responses `(0, Ok 1), (0, Ok 2)`. -/
theorem quorumW_values_batching_independent_refuted :
    ∃ (b₁ b₂ : List (List (Resp Nat Nat Nat))),
      QuorumInput 1 2 b₁ ∧ QuorumInput 1 2 b₂ ∧ b₁.flatten = b₂.flatten ∧
      ¬ (runW 1 2 {} b₁).flatten.Perm (runW 1 2 {} b₂).flatten := by
  refine ⟨[[(0, .ok 1), (0, .ok 2)]], [[(0, .ok 1)], [(0, .ok 2)]], ?_, ?_, rfl, ?_⟩
  · refine ⟨by decide, by decide, ?_⟩
    intro k; simp [total, List.countP_cons]; split <;> omega
  · refine ⟨by decide, by decide, ?_⟩
    intro k; simp [total, List.countP_cons]; split <;> omega
  · intro hp
    have := hp.length_eq
    revert this
    decide


/-- OBSERVATION, not a finding and not a clause of C39 (the property promises nothing about the
relative order of DIFFERENT keys in the output): for `collect_quorum_with_response` the values of one
key come out together in the tick where the key reaches `min`, so the interleaving of different keys
in the emitted sequence follows the batch boundaries, already with `min = max` (the multiset and the
per-key order are the same).  Witness: `min = max = 2`, responses `(0, Ok 1), (1, Ok 2), (1, Ok 3), (0, Ok 4)`. -/
theorem quorumW_cross_key_interleaving_follows_batches_observation :
    ∃ (b₁ b₂ : List (List (Resp Nat Nat Nat))),
      QuorumInput 2 2 b₁ ∧ QuorumInput 2 2 b₂ ∧ b₁.flatten = b₂.flatten ∧
      (runW 2 2 {} b₁).flatten.Perm (runW 2 2 {} b₂).flatten ∧
      (runW 2 2 {} b₁).flatten ≠ (runW 2 2 {} b₂).flatten := by
  have hin : ∀ k : Nat, total ([(0, .ok 1), (1, .ok 2), (1, .ok 3), (0, .ok 4)] : List (Resp Nat Nat Nat)) k ≤ 2 := by
    intro k
    by_cases h0 : k = 0
    · subst h0; decide
    · by_cases h1 : k = 1
      · subst h1; decide
      · have e0 : ¬ 0 = k := fun h => h0 h.symm
        have e1 : ¬ 1 = k := fun h => h1 h.symm
        simp [total, List.countP_cons, e0, e1]
  refine ⟨[[(0, .ok 1), (1, .ok 2), (1, .ok 3), (0, .ok 4)]],
    [[(0, .ok 1), (1, .ok 2), (1, .ok 3)], [(0, .ok 4)]], ⟨by decide, by decide, hin⟩,
    ⟨by decide, by decide, hin⟩, rfl, ?_, by decide⟩
  have e1 : (runW 2 2 {} ([[(0, .ok 1), (1, .ok 2), (1, .ok 3), (0, .ok 4)]] : List (List (Resp Nat Nat Nat)))).flatten
      = [(0, 1), (1, 2), (1, 3), (0, 4)] := by decide
  have e2 : (runW 2 2 {} ([[(0, .ok 1), (1, .ok 2), (1, .ok 3)], [(0, .ok 4)]] : List (List (Resp Nat Nat Nat)))).flatten
      = [(1, 2), (1, 3), (0, 1), (0, 4)] := by decide
  rw [e1, e2]
  decide


end
section Join
variable {κ M V : Type} [DecidableEq κ]

/-- join of one tick's responses against the metadata `ms` -/
def joinOut (ms : List (κ × M)) (resp : List (κ × V)) : List (κ × (M × V)) :=
  ms.flatMap fun p => (resp.filter fun r => r.1 = p.1).map fun r => (p.1, (p.2, r.2))

/-- the documented contract "metadata is generated in the same or a previous tick than the
response": no metadata arrives for a key that already had a response (`seen`) -/
def Timely : List κ → List (List (κ × V) × List (κ × M)) → Prop
  | _, [] => True
  | seen, t :: ts => (∀ p ∈ t.2, p.1 ∉ seen) ∧ Timely (seen ++ t.1.map Prod.fst) ts

/-- per-tick specification: the tick's responses are joined with all metadata received so far
whose key has not been answered in an earlier tick -/
def SpecJ : List (κ × M) → List κ → List (List (κ × V) × List (κ × M)) → List (List (κ × (M × V))) → Prop
  | _, _, [], [] => True
  | ms, seen, t :: ts, o :: os =>
    o = joinOut ((ms ++ t.2).filter (fun p => !(seen.contains p.1))) t.1 ∧
      SpecJ (ms ++ t.2) (seen ++ t.1.map Prod.fst) ts os
  | _, _, _, _ => False

theorem aux_runJ_spec (ts : List (List (κ × V) × List (κ × M))) (ms : List (κ × M)) (seen : List κ)
    (ht : Timely seen ts) :
    SpecJ ms seen ts (runJ (ms.filter (fun p => !(seen.contains p.1))) ts) := by
  induction ts generalizing ms seen with
  | nil => simp [runJ, SpecJ]
  | cons t ts ih =>
    obtain ⟨h1, h2⟩ := ht
    have hmd : t.2.filter (fun p => !(seen.contains p.1)) = t.2 := by
      rw [List.filter_eq_self]
      intro p hp
      simp [h1 p hp]
    simp only [runJ, SpecJ, stepJ]
    constructor
    · rw [List.filter_append, hmd]; rfl
    · have := ih (ms ++ t.2) (seen ++ t.1.map Prod.fst) h2
      have e : (ms.filter (fun p => !(seen.contains p.1)) ++ t.2).filter
            (fun p => !((t.1.map Prod.fst).contains p.1)) =
          (ms ++ t.2).filter (fun p => !((seen ++ t.1.map Prod.fst).contains p.1)) := by
        conv => lhs; rw [← hmd, ← List.filter_append, List.filter_filter]
        apply List.filter_congr
        intro p _
        simp only [List.contains_eq_mem, List.mem_append]
        by_cases a : p.1 ∈ seen <;> by_cases b : p.1 ∈ t.1.map Prod.fst <;> simp [a, b]
      rw [e]; exact this

/-- `join_responses`, tick by tick, for every sequence of ticks respecting the contract. -/
theorem join_tick_output (ts : List (List (κ × V) × List (κ × M))) (ht : Timely [] ts) :
    SpecJ [] [] ts (runJ [] ts) := by
  have := aux_runJ_spec ts ([] : List (κ × M)) [] ht
  simpa using this

theorem aux_joinOut_filter (ms : List (κ × M)) (resp : List (κ × V)) (k : κ) :
    (joinOut ms resp).filter (fun x => x.1 = k) =
      joinOut (ms.filter fun p => p.1 = k) (resp.filter fun r => r.1 = k) := by
  induction ms with
  | nil => simp [joinOut]
  | cons p ms ih =>
    simp only [joinOut, List.flatMap_cons, List.filter_append] at ih ⊢
    rw [ih]
    by_cases e : p.1 = k
    · simp only [e, List.filter_cons, decide_true, if_true, List.flatMap_cons, List.filter_map,
        List.filter_filter]
      congr 1
      congr 1
      apply List.filter_congr; intro x _; simp
    · simp only [List.filter_cons, e, decide_false, Bool.false_eq_true, if_false]
      have : (List.map (fun r => (p.1, (p.2, r.2))) (resp.filter fun r => r.1 = p.1)).filter
          (fun x => x.1 = k) = [] := by
        simp only [List.filter_eq_nil_iff, List.mem_map]
        rintro x ⟨r, _, rfl⟩
        simpa using e
      simp [this, List.filter_filter]

/-- One metadata entry and one response for a key in the joined tick give exactly one output
pairing them; a response without metadata (or metadata without a response) gives none. -/
theorem join_responses_once (ms : List (κ × M)) (resp : List (κ × V)) (k : κ) :
    (∀ m v, ms.filter (fun p => p.1 = k) = [(k, m)] → resp.filter (fun r => r.1 = k) = [(k, v)] →
      (joinOut ms resp).filter (fun x => x.1 = k) = [(k, (m, v))]) ∧
    (ms.filter (fun p => p.1 = k) = [] ∨ resp.filter (fun r => r.1 = k) = [] →
      (joinOut ms resp).filter (fun x => x.1 = k) = []) := by
  constructor
  · intro m v hm hr
    rw [aux_joinOut_filter, hm, hr]
    simp [joinOut]
  · intro h
    rw [aux_joinOut_filter]
    rcases h with h | h <;> rw [h] <;> simp [joinOut]

/-- Once a key has been answered its metadata is gone: no later tick outputs that key. -/
theorem join_no_output_for_answered_keys (ms : List (κ × M)) (seen : List κ) (resp : List (κ × V)) :
    ∀ x ∈ joinOut (ms.filter (fun p => !(seen.contains p.1))) resp, x.1 ∉ seen := by
  intro x hx
  simp only [joinOut, List.mem_flatMap, List.mem_filter, List.mem_map] at hx
  obtain ⟨p, ⟨_, hp⟩, r, _, rfl⟩ := hx
  simpa using hp

/-! ### the whole run: every response meets its request's metadata exactly once -/

theorem aux_runJ_none (k : κ) (ts : List (List (κ × V) × List (κ × M))) :
    ∀ (rem : List (κ × M)), (ts.flatMap (·.1)).filter (fun r => r.1 = k) = [] →
      (runJ rem ts).flatten.filter (fun x => x.1 = k) = [] := by
  induction ts with
  | nil => intro rem _; simp [runJ]
  | cons t ts ih =>
    intro rem h
    simp only [List.flatMap_cons, List.filter_append, List.append_eq_nil_iff] at h
    simp only [runJ, List.flatten_cons, List.filter_append, List.append_eq_nil_iff]
    refine ⟨?_, ih _ h.2⟩
    show (joinOut (rem ++ t.2) t.1).filter (fun x => x.1 = k) = []
    rw [aux_joinOut_filter, h.1]
    simp [joinOut]

theorem aux_timely_no_late_metadata (k : κ) (ts : List (List (κ × V) × List (κ × M))) :
    ∀ (seen : List κ), k ∈ seen → Timely seen ts →
      (ts.flatMap (·.2)).filter (fun p => p.1 = k) = [] := by
  induction ts with
  | nil => intro seen _ _; simp
  | cons t ts ih =>
    intro seen hk ht
    obtain ⟨h1, h2⟩ := ht
    simp only [List.flatMap_cons, List.filter_append, List.append_eq_nil_iff]
    refine ⟨?_, ih _ (List.mem_append_left _ hk) h2⟩
    rw [List.filter_eq_nil_iff]
    intro p hp
    have := h1 p hp
    simp only [decide_eq_true_eq]
    intro e; exact this (e ▸ hk)

theorem aux_runJ_once (k : κ) (m : M) (v : V) (ts : List (List (κ × V) × List (κ × M))) :
    ∀ (rem : List (κ × M)) (seen : List κ), Timely seen ts →
      (ts.flatMap (·.1)).filter (fun r => r.1 = k) = [(k, v)] →
      rem.filter (fun p => p.1 = k) ++ (ts.flatMap (·.2)).filter (fun p => p.1 = k) = [(k, m)] →
      (runJ rem ts).flatten.filter (fun x => x.1 = k) = [(k, (m, v))] := by
  induction ts with
  | nil => intro rem seen _ hr _; simp at hr
  | cons t ts ih =>
    intro rem seen ht hr hm
    obtain ⟨_, h2⟩ := ht
    simp only [List.flatMap_cons, List.filter_append] at hr hm
    simp only [runJ, List.flatten_cons, List.filter_append]
    have hout : (stepJ rem t.1 t.2).2.filter (fun x => x.1 = k) =
        joinOut ((rem ++ t.2).filter fun p => p.1 = k) (t.1.filter fun r => r.1 = k) :=
      aux_joinOut_filter (rem ++ t.2) t.1 k
    by_cases hk : t.1.filter (fun r => r.1 = k) = []
    · -- no response for `k` in this tick: nothing comes out, the metadata of `k` is kept
      rw [hout, hk]
      rw [hk, List.nil_append] at hr
      have hkeep : (stepJ rem t.1 t.2).1.filter (fun p => p.1 = k) =
          rem.filter (fun p => p.1 = k) ++ t.2.filter (fun p => p.1 = k) := by
        simp only [stepJ, List.filter_filter, ← List.filter_append]
        apply List.filter_congr
        intro p _
        by_cases e : p.1 = k
        · have : k ∉ t.1.map Prod.fst := by
            intro hmem
            obtain ⟨r, hr1, hr2⟩ := List.mem_map.1 hmem
            have : r ∈ t.1.filter (fun r => r.1 = k) := List.mem_filter.2 ⟨hr1, by simpa using hr2⟩
            rw [hk] at this; cases this
          simp [e, this]
        · simp [e]
      have := ih (stepJ rem t.1 t.2).1 _ h2 hr (by rw [hkeep, List.append_assoc]; exact hm)
      have hj : ∀ X : List (κ × M), joinOut X ([] : List (κ × V)) = [] := by
        intro X; induction X <;> simp_all [joinOut]
      rw [hj, List.nil_append]
      exact this
    · -- the response for `k` is in this tick
      have hlen := congrArg List.length hr
      simp only [List.length_append, List.length_cons, List.length_nil] at hlen
      have hpos : 0 < (t.1.filter fun r => r.1 = k).length := List.length_pos_iff.2 hk
      have hrest : (ts.flatMap (·.1)).filter (fun r => r.1 = k) = [] :=
        List.eq_nil_of_length_eq_zero (by omega)
      rw [hrest, List.append_nil] at hr
      have hkin : k ∈ seen ++ t.1.map Prod.fst := by
        apply List.mem_append_right
        have : (k, v) ∈ t.1.filter (fun r => r.1 = k) := by rw [hr]; simp
        exact List.mem_map.2 ⟨(k, v), (List.mem_filter.1 this).1, rfl⟩
      have hlate := aux_timely_no_late_metadata k ts _ hkin h2
      rw [hlate, List.append_nil, ← List.filter_append] at hm
      rw [hout, hm, hr, aux_runJ_none k ts _ hrest]
      simp [joinOut]

/-- `join_responses` over a whole run, for every sequence of ticks respecting the documented
contract: if exactly one metadata entry `(k, m)` and exactly one response `(k, v)` arrive for key
`k` (in any ticks allowed by the contract), the outputs of the whole run contain exactly one
element for `k`, and it pairs that response with that metadata. -/
theorem join_run_matches_exactly_once (k : κ) (m : M) (v : V)
    (ts : List (List (κ × V) × List (κ × M))) (ht : Timely [] ts)
    (hr : (ts.flatMap (·.1)).filter (fun r => r.1 = k) = [(k, v)])
    (hm : (ts.flatMap (·.2)).filter (fun p => p.1 = k) = [(k, m)]) :
    (runJ [] ts).flatten.filter (fun x => x.1 = k) = [(k, (m, v))] :=
  aux_runJ_once k m v ts [] [] ht hr (by simpa using hm)

/-- a key without a response never produces an output (its metadata just waits) -/
theorem join_run_no_response_no_output (k : κ) (ts : List (List (κ × V) × List (κ × M)))
    (hr : (ts.flatMap (·.1)).filter (fun r => r.1 = k) = []) :
    (runJ ([] : List (κ × M)) ts).flatten.filter (fun x => x.1 = k) = [] :=
  aux_runJ_none k ts [] hr

end Join

/-! ## Non-vacuity -/
section Examples
open HvNet.Quorum

/-- `min = 2`, `max = 3`, two keys, three ticks: key 1 fires in tick 2, key 2 in tick 3 -/
example : runQ 2 3 ({} : St Nat Unit Nat)
    [[(1, .ok ()), (2, .err 5)], [(1, .ok ()), (2, .ok ())], [(2, .ok ()), (1, .err 1)]] = [[], [1], [2]] := by
  decide
example : QuorumInput 2 3 ([[(1, .ok ()), (2, .err 5)], [(1, .ok ()), (2, .ok ())], [(2, .ok ()), (1, .err 1)]] :
    List (List (Resp Nat Unit Nat))) := by
  refine ⟨by decide, by decide, ?_⟩
  intro k
  by_cases h1 : k = 1
  · subst h1; decide
  · by_cases h2 : k = 2
    · subst h2; decide
    · have e1 : ¬ 1 = k := fun h => h1 h.symm
      have e2 : ¬ 2 = k := fun h => h2 h.symm
      simp [total, List.countP_cons, e1, e2]
/-- the batching dependence of `collect_quorum_with_response` (`min < max`) on the model -/
example : runW 1 2 ({} : St Nat Nat Nat) [[(0, .ok 1), (0, .ok 2)]] = [[(0, 1), (0, 2)]] ∧
    runW 1 2 ({} : St Nat Nat Nat) [[(0, .ok 1)], [(0, .ok 2)]] = [[(0, 1)], []] := by decide
/-- join: metadata waits for its response, unmatched responses are dropped -/
example : runJ ([] : List (Nat × Nat)) [(([] : List (Nat × Nat)), [(1, 100), (2, 200)]), ([(2, 7), (3, 9)], []), ([(1, 5)], [(3, 300)])]
    = [[], [(2, (200, 7))], [(1, (100, 5))]] := by decide
example : Timely (M := Nat) (V := Nat) [] [([], [(1, 100), (2, 200)]), ([(2, 7)], []), ([(1, 5)], [])] := by
  simp [Timely]
/-- the hypotheses of `join_run_matches_exactly_once` on a concrete three-tick run -/
example : (runJ ([] : List (Nat × Nat)) [([], [(1, 100), (2, 200)]), ([(2, 7)], []), ([(1, 5)], [])]).flatten.filter
    (fun x => x.1 = 1) = [(1, (100, 5))] :=
  join_run_matches_exactly_once 1 100 5 _ (by simp [Timely]) (by decide) (by decide)
/-- observation only (no clause of C39): cross-key interleaving on the model (`min = max = 2`) -/
example : runW 2 2 ({} : St Nat Nat Nat) [[(0, .ok 1), (1, .ok 2), (1, .ok 3), (0, .ok 4)]] = [[(0, 1), (1, 2), (1, 3), (0, 4)]] ∧
    runW 2 2 ({} : St Nat Nat Nat) [[(0, .ok 1), (1, .ok 2), (1, .ok 3)], [(0, .ok 4)]] = [[(1, 2), (1, 3)], [(0, 1), (0, 4)]] := by decide
end Examples
section MinEqMax
variable {κ V E : Type} [DecidableEq κ]

theorem aux_specW_min_eq_max (min : Nat) (h1 : 1 ≤ min) (bs : List (List (Resp κ V E)))
    (hist : List (Resp κ V E)) (os : List (List (κ × V))) (h : SpecW min hist bs os)
    (H : ∀ k, total (hist ++ bs.flatten) k ≤ min) (k : κ) :
    os.flatten.filter (fun p => p.1 = k) =
      if succ hist k < min ∧ min ≤ succ (hist ++ bs.flatten) k
      then (proj (hist ++ bs.flatten) k).filterMap okVal else [] := by
  induction bs generalizing hist os with
  | nil =>
    cases os with
    | nil =>
      simp only [List.flatten_nil, List.filter_nil, List.append_nil]
      rw [if_neg (by omega)]
    | cons o os => simp [SpecW] at h
  | cons b bs ih =>
    cases os with
    | nil => simp [SpecW] at h
    | cons o os =>
      simp only [SpecW] at h
      obtain ⟨ho, hrest⟩ := h
      have Hk := H k
      simp only [List.flatten_cons, aux_total_append] at Hk
      have ih' := ih (hist ++ b) os hrest (by intro k'; have := H k'; simpa [List.append_assoc] using this)
      simp only [List.flatten_cons, List.filter_append, ho k, ih']
      have hs1 := aux_succ_le_total hist k
      have hs2 := aux_succ_le_total b k
      have hs3 := aux_succ_le_total bs.flatten k
      by_cases hf : firesAt min hist b k
      · have hf' := hf
        simp only [firesAt, aux_succ_append] at hf'
        have hrestnil : total bs.flatten k = 0 := by omega
        have hp : proj bs.flatten k = [] := aux_proj_nil_of_total _ _ hrestnil
        rw [if_pos hf, if_neg (by simp only [aux_succ_append]; omega),
          if_pos (by simp only [aux_succ_append]; omega)]
        simp [← List.append_assoc, aux_proj_append, hp]
      · rw [if_neg hf]
        simp only [firesAt, aux_succ_append] at hf
        simp only [List.nil_append, ← List.append_assoc]
        by_cases c : succ (hist ++ b) k < min ∧ min ≤ succ (hist ++ b ++ bs.flatten) k
        · rw [if_pos c, if_pos]
          simp only [aux_succ_append] at c ⊢; omega
        · rw [if_neg c, if_neg]
          simp only [aux_succ_append] at c ⊢; omega

/-- With `min = max` the emitted values are batching independent too: over the whole run the
values of key `k` are exactly its successful responses (in arrival order) if there are `min` of
them, and nothing otherwise. -/
theorem quorumW_min_eq_max_values (min : Nat) (batches : List (List (Resp κ V E)))
    (h : QuorumInput min min batches) (k : κ) :
    (runW min min {} batches).flatten.filter (fun p => p.1 = k) =
      if min ≤ succ batches.flatten k then (proj batches.flatten k).filterMap okVal else [] := by
  have := aux_specW_min_eq_max min h.min_pos batches [] _ (quorumW_fires_at_min min min batches h)
    (by simpa using h.at_most_max) k
  have h1 := h.min_pos
  simpa [succ, show 0 < min from h1] using this

theorem quorumW_min_eq_max_batching_independent (min : Nat) (b₁ b₂ : List (List (Resp κ V E)))
    (h₁ : QuorumInput min min b₁) (h₂ : QuorumInput min min b₂) (e : b₁.flatten = b₂.flatten) (k : κ) :
    (runW min min {} b₁).flatten.filter (fun p => p.1 = k) =
      (runW min min {} b₂).flatten.filter (fun p => p.1 = k) := by
  rw [quorumW_min_eq_max_values min b₁ h₁ k, quorumW_min_eq_max_values min b₂ h₂ k, e]

end MinEqMax
end HvNet.Quorum
