/-
C35 — messages survive serialisation and reach the addressed member.

Model: `Model/Bincode.lean` (the bincode 1.3 wire format used by the generated closures),
`Model/Net.lean` (the closures themselves, `MemberId`/`TaglessMemberId`, `sinktools::demux_map`).

Property theorems (names without the `aux_` prefix):
  decode_consumes_exactly, decode_encode, deserialize_ignores_trailing, encode_injective,
  recv_send_plain, recv_send_tagged, memberId_roundtrip, memberId_payload_roundtrip,
  route_only_addressee, route_missing_key_panics, cluster_delivery, o2m_delivery, m2o_delivery
-/
import HvNet.Model.Net
namespace HvNet


theorem aux_decLE_encLE (n v : Nat) (rest : List Nat) (h : v < 256 ^ n) :
    decLE n (encLE n v ++ rest) = some (v, rest) := by
  induction n generalizing v with
  | zero => simp [encLE, decLE]; simp at h; omega
  | succ n ih =>
    have h' : v / 256 < 256 ^ n := by
      rw [Nat.pow_succ] at h
      exact Nat.div_lt_of_lt_mul (by rw [Nat.mul_comm]; exact h)
    simp [encLE, decLE, ih (v / 256) h']
    omega

theorem aux_encLE_length (n v : Nat) : (encLE n v).length = n := by
  induction n generalizing v with
  | zero => rfl
  | succ n ih => simp [encLE, ih]

theorem aux_toTwos_lt (w : Nat) (z : Int) : toTwos w z < 256 ^ w := by
  unfold toTwos
  have hpos : (0 : Int) < ((256 ^ w : Nat) : Int) := by
    have : 0 < 256 ^ w := Nat.pow_pos (by decide)
    omega
  have h1 := Int.emod_lt_of_pos z hpos
  have h2 := Int.emod_nonneg z (Int.ne_of_gt hpos)
  omega

theorem aux_ofTwos_toTwos (w : Nat) (z : Int)
    (h1 : -((256 ^ w : Nat) : Int) ≤ 2 * z) (h2 : 2 * z < ((256 ^ w : Nat) : Int)) :
    ofTwos w (toTwos w z) = z := by
  unfold ofTwos toTwos
  generalize hM : (256 ^ w : Nat) = M at *
  by_cases hz : 0 ≤ z
  · have e : z % (M : Int) = z := Int.emod_eq_of_lt hz (by omega)
    rw [e]
    have : ((z.toNat : Nat) : Int) = z := Int.toNat_of_nonneg hz
    split <;> omega
  · have e : z % (M : Int) = z + M := by
      have : (z + M) % (M : Int) = z + M := Int.emod_eq_of_lt (by omega) (by omega)
      rw [← this, Int.add_emod_right]
    rw [e]
    have : (((z + M).toNat : Nat) : Int) = z + M := Int.toNat_of_nonneg (by omega)
    split <;> omega


theorem aux_decodeChar_encodeChar (c : Nat) (rest : List Nat) (h : isScalar c = true) :
    decodeChar (encodeChar c ++ rest) = some (c, rest) := by
  simp [isScalar] at h
  unfold encodeChar
  split
  · simp [decodeChar, *]
  · split
    · simp [decodeChar, isCont]
      rw [if_neg (by omega), if_neg (by omega), if_pos (by omega), if_pos (by omega)]
      simp
      omega
    · split
      · simp [decodeChar, isCont]
        rw [if_neg (by omega), if_neg (by omega), if_neg (by omega), if_pos (by omega)]
        rw [if_pos]
        · simp; omega
        · refine ⟨⟨?_, ?_⟩, ?_⟩ <;> (try split) <;> omega
      · simp [decodeChar, isCont]
        rw [if_neg (by omega), if_neg (by omega), if_neg (by omega), if_neg (by omega), if_pos (by omega)]
        rw [if_pos]
        · simp; omega
        · refine ⟨⟨⟨?_, ?_⟩, ?_⟩, ?_⟩ <;> (try split) <;> omega
theorem aux_takeN_append (xs rest : List Nat) : takeN xs.length (xs ++ rest) = some (xs, rest) := by
  induction xs with
  | nil => simp [takeN]
  | cons x xs ih => simp [takeN, ih]

theorem aux_decodeNth : ∀ (ts : Tys) (k : Nat) (bs : List Nat),
    ts.decodeNth k bs = (match ts.nth k with | some t => t.decode bs | none => none)
  | .nil, k, bs => by simp [Tys.decodeNth, Tys.nth]
  | .cons t ts, 0, bs => by simp [Tys.decodeNth, Tys.nth]
  | .cons t ts, k + 1, bs => by simp [Tys.decodeNth, Tys.nth, aux_decodeNth ts k bs]

mutual
theorem aux_dec_enc (v : Val) (t : Ty) (rest : List Nat) (h : v.wt t = true) :
    t.decode (v.encode ++ rest) = some (v, rest) := by
  match v with
  | .u w n =>
    cases t <;> simp [Val.wt] at h
    obtain ⟨rfl, h⟩ := h
    simp [Val.encode, Ty.decode, aux_decLE_encLE _ _ _ h]
  | .i w z =>
    cases t <;> simp [Val.wt] at h
    obtain ⟨⟨rfl, h1⟩, h2⟩ := h
    simp [Val.encode, Ty.decode, aux_decLE_encLE _ _ _ (aux_toTwos_lt w z), aux_ofTwos_toTwos w z h1 h2]
  | .bool b =>
    cases t <;> simp [Val.wt] at h
    cases b <;> simp [Val.encode, Ty.decode]
  | .char c =>
    cases t <;> simp [Val.wt] at h
    simp [Val.encode, Ty.decode, aux_decodeChar_encodeChar c rest h]
  | .str bs =>
    cases t <;> simp [Val.wt] at h
    obtain ⟨⟨_, h2⟩, h3⟩ := h
    simp [Val.encode, Ty.decode, List.append_assoc, aux_decLE_encLE 8 _ _ (by omega : bs.length < 256 ^ 8), aux_takeN_append, h2]
  | .none =>
    cases t <;> simp [Val.wt] at h
    simp [Val.encode, Ty.decode]
  | .some v =>
    cases t <;> simp [Val.wt] at h
    simp [Val.encode, Ty.decode, aux_dec_enc v _ rest h]
  | .vec vs =>
    cases t <;> simp [Val.wt] at h
    obtain ⟨h1, h2⟩ := h
    simp [Val.encode, Ty.decode, List.append_assoc, aux_decLE_encLE 8 _ _ (by omega : vs.length < 256 ^ 8), aux_dec_enc_all vs _ rest h1]
  | .tup vs =>
    cases t <;> simp [Val.wt] at h
    simp [Val.encode, Ty.decode, aux_dec_enc_tup vs _ rest h]
  | .variant idx v =>
    cases t with
    | enm ts =>
      simp [Val.wt] at h
      obtain ⟨h1, h2⟩ := h
      simp [Val.encode, Ty.decode, List.append_assoc, aux_decLE_encLE 4 _ _ (by omega : idx < 256 ^ 4),
        aux_decodeNth]
      cases hn : ts.nth idx with
      | none => simp [hn] at h2
      | some t' =>
        simp [hn] at h2
        simp [aux_dec_enc v t' rest h2]
    | _ => simp [Val.wt] at h
theorem aux_dec_enc_all (vs : Vals) (t : Ty) (rest : List Nat) (h : vs.wtAll t = true) :
    decodeMany t.decode vs.length (vs.encodeAll ++ rest) = some (vs, rest) := by
  match vs with
  | .nil => simp [Vals.length, Vals.encodeAll, decodeMany]
  | .cons v vs =>
    simp [Vals.wtAll] at h
    simp [Vals.length, Vals.encodeAll, decodeMany, List.append_assoc, aux_dec_enc v t _ h.1,
      aux_dec_enc_all vs t rest h.2]
theorem aux_dec_enc_tup (vs : Vals) (ts : Tys) (rest : List Nat) (h : vs.wtTup ts = true) :
    ts.decodeTup (vs.encodeAll ++ rest) = some (vs, rest) := by
  match vs, ts with
  | .nil, .nil => simp [Vals.encodeAll, Tys.decodeTup]
  | .cons v vs, .cons t ts =>
    simp [Vals.wtTup] at h
    simp [Vals.encodeAll, Tys.decodeTup, List.append_assoc, aux_dec_enc v t _ h.1,
      aux_dec_enc_tup vs ts rest h.2]
  | .nil, .cons _ _ => simp [Vals.wtTup] at h
  | .cons _ _, .nil => simp [Vals.wtTup] at h
end


theorem aux_mapM'_some {α β} (f : α → Option β) (g : α → β) (l : List α)
    (h : ∀ a ∈ l, f a = some (g a)) : mapM' f l = some (l.map g) := by
  induction l with
  | nil => rfl
  | cons a l ih =>
    simp [mapM', h a (by simp), ih (fun b hb => h b (by simp [hb]))]

theorem aux_mapM'_map_some {α β γ} (f : γ → Option β) (h : α → γ) (g : α → β) (l : List α)
    (hh : ∀ a ∈ l, f (h a) = some (g a)) : mapM' f (l.map h) = some (l.map g) := by
  induction l with
  | nil => rfl
  | cons a l ih =>
    simp [mapM', hh a (by simp), ih (fun b hb => hh b (by simp [hb]))]

theorem aux_nodup_mk (l : List Nat) (h : l.Nodup) : (l.map Tagless.mk).Nodup := by
  induction l with
  | nil => simp
  | cons a l ih =>
    simp only [List.nodup_cons, List.map_cons] at h ⊢
    refine ⟨?_, ih h.2⟩
    intro hm
    obtain ⟨b, hb, e⟩ := List.mem_map.mp hm
    cases e
    exact h.1 hb

section
variable {κ ι : Type} [DecidableEq κ]

theorem aux_startSend_eq_map (s : Sinks κ ι) (k : κ) (x : ι)
    (hk : k ∈ s.map Prod.fst) (hn : (s.map Prod.fst).Nodup) :
    s.startSend k x = some (s.map fun p => (p.1, if p.1 = k then p.2 ++ [x] else p.2)) := by
  induction s with
  | nil => simp at hk
  | cons p rest ih =>
    obtain ⟨k', xs⟩ := p
    simp only [List.map_cons, List.nodup_cons] at hn
    by_cases e : k' = k
    · subst e
      simp only [Sinks.startSend, if_true, List.map_cons]
      have : rest.map (fun p => (p.1, if p.1 = k' then p.2 ++ [x] else p.2)) = rest := by
        conv => rhs; rw [← List.map_id rest]
        apply List.map_congr_left
        intro p hp
        have : p.1 ≠ k' := fun e => hn.1 (by rw [← e]; exact List.mem_map_of_mem hp)
        simp [this]
      rw [this]
    · have hk' : k ∈ rest.map Prod.fst := by
        simp only [List.map_cons, List.mem_cons] at hk
        rcases hk with hk | hk
        · exact absurd hk.symm e
        · exact hk
      simp [Sinks.startSend, e, ih hk' hn.2]

theorem aux_sendAll_eq_map (items : List (κ × ι)) (s : Sinks κ ι)
    (hk : ∀ it ∈ items, it.1 ∈ s.map Prod.fst) (hn : (s.map Prod.fst).Nodup) :
    s.sendAll items = some (s.map fun p => (p.1, p.2 ++ (items.filter (fun it => it.1 = p.1)).map Prod.snd)) := by
  induction items generalizing s with
  | nil => simp [Sinks.sendAll]
  | cons it items ih =>
    obtain ⟨k, x⟩ := it
    have h1 := aux_startSend_eq_map s k x (hk (k, x) (by simp)) hn
    simp only [Sinks.sendAll, h1]
    have keys : (s.map fun p => (p.1, if p.1 = k then p.2 ++ [x] else p.2)).map Prod.fst = s.map Prod.fst := by
      simp [List.map_map, Function.comp_def]
    rw [ih _ (by rw [keys]; exact fun it h => hk it (by simp [h])) (by rw [keys]; exact hn)]
    simp only [List.map_map, Option.some.injEq]
    apply List.map_congr_left
    intro p _
    by_cases e : p.1 = k
    · simp [e]
    · have e' : ¬ k = p.1 := fun h => e h.symm
      simp [e, e']
end

/-! ## Property theorems -/

/-- The decoder, run on the encoding of any well-typed value followed by arbitrary further
bytes, returns exactly that value and leaves exactly those bytes. -/
theorem decode_consumes_exactly (v : Val) (t : Ty) (rest : List Nat) (h : v.wt t = true) :
    t.decode (v.encode ++ rest) = some (v, rest) :=
  aux_dec_enc v t rest h

/-- `bincode::deserialize::<T>(&bincode::serialize(&v)) = Ok(v)` for every value of every
payload type of the descriptor universe. -/
theorem decode_encode (v : Val) (t : Ty) (h : v.wt t = true) : t.deserialize v.encode = some v := by
  have := aux_dec_enc v t [] h
  simp at this
  simp [Ty.deserialize, this]

/-- trailing bytes (allowed by the configuration the closures use) never change the value -/
theorem deserialize_ignores_trailing (v : Val) (t : Ty) (junk : List Nat) (h : v.wt t = true) :
    t.deserialize (v.encode ++ junk) = some v := by
  simp [Ty.deserialize, aux_dec_enc v t junk h]

/-- two values of one type with the same bytes are the same value -/
theorem encode_injective (v₁ v₂ : Val) (t : Ty) (h₁ : v₁.wt t = true) (h₂ : v₂.wt t = true)
    (e : v₁.encode = v₂.encode) : v₁ = v₂ := by
  have a := decode_encode v₁ t h₁
  have b := decode_encode v₂ t h₂
  rw [e, b] at a
  exact (Option.some.inj a).symm

/-- plain send closure followed by plain receive closure reconstructs the value -/
theorem recv_send_plain (v : Val) (t : Ty) (h : v.wt t = true) :
    recvPlain t (sendPlain v) = some v := decode_encode v t h

/-- demux send closure, transport tagging the message with the sender, tagged receive closure:
the receiver sees the sender's id and the exact value; the address travels untouched -/
theorem recv_send_tagged {S D : Type} (sender : MemberId S) (dest : MemberId D) (v : Val) (t : Ty)
    (h : v.wt t = true) :
    (sendDemux (dest, v)).1 = dest.intoTagless ∧
    recvTagged (Tag := S) t (sender.intoTagless, (sendDemux (dest, v)).2) = some (sender, v) := by
  simp [sendDemux, recvTagged, decode_encode v t h, MemberId.fromTagless, MemberId.intoTagless]

/-- member ids round-trip through their untyped form unchanged (both directions) -/
theorem memberId_roundtrip {Tag : Type} (m : MemberId Tag) (u : Tagless) :
    MemberId.fromTagless (Tag := Tag) m.intoTagless = m ∧
    (MemberId.fromTagless (Tag := Tag) u).intoTagless = u := by
  cases m; simp [MemberId.fromTagless, MemberId.intoTagless]

/-- a member id sent *as payload* (u32 variant index 0, then the u32 raw id) decodes back -/
theorem memberId_payload_roundtrip {Tag : Type} (m : MemberId Tag) (rest : List Nat)
    (h : m.inner.raw < 2 ^ 32) :
    memberIdTy.decode (m.toVal.encode ++ rest) = some (m.toVal, rest) ∧
    MemberId.ofVal (Tag := Tag) m.toVal = some m := by
  constructor
  · apply aux_dec_enc
    simp [MemberId.toVal, memberIdTy, Val.wt, Tys.nth, Vals.wtTup]
    omega
  · cases m; simp [MemberId.toVal, MemberId.ofVal, MemberId.fromTagless]

section
variable {κ ι : Type} [DecidableEq κ]

/-- `demux_map`: after any sequence of `start_send`s whose keys all have a sink, the sink of key
`k` holds what it held before followed by exactly the items addressed to `k`, in order — so an
item reaches its addressee and nobody else. -/
theorem route_only_addressee (items : List (κ × ι)) (s : Sinks κ ι)
    (hk : ∀ it ∈ items, it.1 ∈ s.map Prod.fst) (hn : (s.map Prod.fst).Nodup) :
    s.sendAll items =
      some (s.map fun p => (p.1, p.2 ++ (items.filter (fun it => it.1 = p.1)).map Prod.snd)) :=
  aux_sendAll_eq_map items s hk hn

/-- an item whose key has no sink makes `start_send` panic (modelled as `none`) -/
theorem route_missing_key_panics (s : Sinks κ ι) (k : κ) (x : ι) (h : k ∉ s.map Prod.fst) :
    s.startSend k x = none := by
  induction s with
  | nil => rfl
  | cons p rest ih =>
    obtain ⟨k', xs⟩ := p
    simp only [List.map_cons, List.mem_cons, not_or] at h
    have e : ¬ k' = k := fun e => h.1 e.symm
    simp [Sinks.startSend, e, ih h.2]
end

/-- End to end (generated closures + `demux_map` transport): a cluster member `sender` demuxes
any list of addressed, well-typed values to a cluster with distinct `members`; every member
receives exactly the values addressed to it, in order, each carrying `sender`'s id. -/
theorem cluster_delivery {S D : Type} (t : Ty) (members : List Nat) (sender : Nat)
    (items : List (MemberId D × Val))
    (hm : members.Nodup)
    (hd : ∀ it ∈ items, it.1.inner.raw ∈ members)
    (hw : ∀ it ∈ items, it.2.wt t = true) :
    clusterDeliver (S := S) t members sender items =
      some (members.map fun m =>
        (m, (items.filter (fun it => it.1.inner.raw = m)).map fun it =>
              ((⟨⟨sender⟩⟩ : MemberId S), it.2))) := by
  unfold clusterDeliver
  have keys : (members.map fun m => ((⟨m⟩ : Tagless), ([] : List (List Nat)))).map Prod.fst
      = members.map Tagless.mk := by simp [List.map_map, Function.comp_def]
  have hn : ((members.map fun m => ((⟨m⟩ : Tagless), ([] : List (List Nat)))).map Prod.fst).Nodup := by
    rw [keys]
    exact aux_nodup_mk members hm
  have hk : ∀ it ∈ items.map sendDemux,
      it.1 ∈ (members.map fun m => ((⟨m⟩ : Tagless), ([] : List (List Nat)))).map Prod.fst := by
    intro it hit
    rw [keys]
    obtain ⟨a, ha, rfl⟩ := List.mem_map.mp hit
    exact List.mem_map.mpr ⟨a.1.inner.raw, hd a ha, by simp [sendDemux, MemberId.intoTagless]⟩
  simp only [aux_sendAll_eq_map _ _ hk hn, List.map_map]
  rw [aux_mapM'_some _ (fun (p : Tagless × List (List Nat)) =>
        (p.1.raw, (items.filter (fun it => it.1.inner.raw = p.1.raw)).map fun it =>
              ((⟨⟨sender⟩⟩ : MemberId S), it.2)))]
  · simp [List.map_map, Function.comp_def]
  · intro p hp
    obtain ⟨m, _, rfl⟩ := List.mem_map.mp hp
    simp only [Function.comp_def, List.nil_append, List.filter_map, List.map_map]
    rw [aux_mapM'_map_some _ _ (fun (it : MemberId D × Val) => ((⟨⟨sender⟩⟩ : MemberId S), it.2))]
    · simp only [Option.some.injEq, Prod.mk.injEq, true_and]
      congr 1
      apply List.filter_congr
      intro it _
      obtain ⟨⟨⟨r⟩⟩, v⟩ := it
      simp [sendDemux, MemberId.intoTagless]
    · intro it hit
      have := hw it (List.mem_filter.mp hit).1
      simp [recvTagged, sendDemux, decode_encode _ _ this, MemberId.fromTagless]

/-! ## Non-vacuity: concrete instances of the hypotheses -/

/-- `Some(vec![(7u32, "é")])` of type `Option<Vec<(u32, String)>>` -/
example : (Val.some (.vec (.cons (.tup (.cons (.u 4 7) (.cons (.str [0xC3, 0xA9]) .nil))) .nil))).wt
    (.opt (.vec (.tup (.cons (.u 4) (.cons .str .nil))))) = true := by decide
/-- `Err::<i16, char>('€')`-like enum value, negative ints, bool -/
example : (Val.variant 1 (.tup (.cons (.i 2 (-300)) (.cons (.char 0x20AC) (.cons (.bool true) .nil))))).wt
    (.enm (.cons (.tup .nil) (.cons (.tup (.cons (.i 2) (.cons .char (.cons .bool .nil)))) .nil))) = true := by
  decide
example : (Val.i 2 (-300)).encode = [0xD4, 0xFE] := by decide
example : (Val.char 0x20AC).encode = [0xE2, 0x82, 0xAC] := by decide
/-- routing: three sinks, items for 2,0,2 -/
example : Sinks.sendAll [(0, ([] : List Nat)), (1, []), (2, [])] [(2, 10), (0, 11), (2, 12)]
    = some [(0, [11]), (1, []), (2, [10, 12])] := by decide
/-- process -> cluster: every member receives exactly the values addressed to it, in order -/
theorem o2m_delivery {D : Type} (t : Ty) (members : List Nat) (items : List (MemberId D × Val))
    (hm : members.Nodup)
    (hd : ∀ it ∈ items, it.1.inner.raw ∈ members)
    (hw : ∀ it ∈ items, it.2.wt t = true) :
    o2mDeliver t members items =
      some (members.map fun m => (m, (items.filter (fun it => it.1.inner.raw = m)).map Prod.snd)) := by
  unfold o2mDeliver
  have keys : (members.map fun m => ((⟨m⟩ : Tagless), ([] : List (List Nat)))).map Prod.fst
      = members.map Tagless.mk := by simp [List.map_map, Function.comp_def]
  have hn : ((members.map fun m => ((⟨m⟩ : Tagless), ([] : List (List Nat)))).map Prod.fst).Nodup := by
    rw [keys]
    exact aux_nodup_mk members hm
  have hk : ∀ it ∈ items.map sendDemux,
      it.1 ∈ (members.map fun m => ((⟨m⟩ : Tagless), ([] : List (List Nat)))).map Prod.fst := by
    intro it hit
    rw [keys]
    obtain ⟨a, ha, rfl⟩ := List.mem_map.mp hit
    exact List.mem_map.mpr ⟨a.1.inner.raw, hd a ha, by simp [sendDemux, MemberId.intoTagless]⟩
  simp only [aux_sendAll_eq_map _ _ hk hn, List.map_map]
  rw [aux_mapM'_some _ (fun (p : Tagless × List (List Nat)) =>
        (p.1.raw, (items.filter (fun it => it.1.inner.raw = p.1.raw)).map Prod.snd))]
  · simp [List.map_map, Function.comp_def]
  · intro p hp
    obtain ⟨m, _, rfl⟩ := List.mem_map.mp hp
    simp only [Function.comp_def, List.nil_append, List.filter_map, List.map_map]
    rw [aux_mapM'_map_some _ _ (fun (it : MemberId D × Val) => it.2)]
    · simp only [Option.some.injEq, Prod.mk.injEq, true_and]
      congr 1
      apply List.filter_congr
      intro it _
      obtain ⟨⟨⟨r⟩⟩, v⟩ := it
      simp [sendDemux, MemberId.intoTagless]
    · intro it hit
      have := hw it (List.mem_filter.mp hit).1
      simp [recvPlain, sendDemux, decode_encode _ _ this]

/-- cluster member -> process: the process receives every value, in order, tagged with the sender -/
theorem m2o_delivery {S : Type} (t : Ty) (sender : Nat) (vals : List Val)
    (hw : ∀ v ∈ vals, v.wt t = true) :
    m2oDeliver (S := S) t sender vals = some (vals.map fun v => ((⟨⟨sender⟩⟩ : MemberId S), v)) := by
  unfold m2oDeliver
  apply aux_mapM'_some
  intro v hv
  simp [recvTagged, sendPlain, decode_encode _ _ (hw v hv), MemberId.fromTagless]
end HvNet
