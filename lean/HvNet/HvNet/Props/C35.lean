/-
C35 — messages survive serialisation and reach the addressed member.

Model: `Model/Bincode.lean` (the bincode 1.3 wire format used by the generated closures),
`Model/Net.lean` (the closures themselves, `MemberId`/`TaglessMemberId`, `sinktools::demux_map`).

Property theorems (names without the `aux_` prefix):
  decode_consumes_exactly, decode_encode, deserialize_ignores_trailing, encode_injective,
  recv_send_plain, recv_send_tagged, memberId_roundtrip, memberId_payload_roundtrip,
  route_only_addressee, route_missing_key_panics, cluster_delivery, o2m_delivery, m2o_delivery,
  generated_closures_use_model_config (tie to networking.rs through Gen/Networking.lean),
  big_payload_roundtrip, rope_bytes, rope_len_ck (large payloads through compact descriptions),
  demux_poll_polls_every_member, demux_poll_ready_iff_all_ready, demux_flush_healthy_member_delivered,
  demux_close_healthy_member_delivered, demux_poll_order_independent, demux_deliver_despite_stall
-/
import HvNet.Model.Net
import HvNet.Gen.Networking
namespace HvNet


theorem aux_decLE_encLE (n v : Nat) (rest : List Nat) (h : v < 256 ^ n) :
    decLE n (encLE n v ++ rest) = some (v, rest) := by
  induction n generalizing v with
  | zero => simp [encLE, decLE]; simp at h; omega
  | succ n ih =>
    have h' : v / 256 < 256 ^ n := by
      rw [Nat.pow_succ] at h
      exact Nat.div_lt_of_lt_mul (by rw [Nat.mul_comm]; exact h)
    simp [encLE, decLE, ih (v / 256) h']
    omega

theorem aux_encLE_length (n v : Nat) : (encLE n v).length = n := by
  induction n generalizing v with
  | zero => rfl
  | succ n ih => simp [encLE, ih]

theorem aux_toTwos_lt (w : Nat) (z : Int) : toTwos w z < 256 ^ w := by
  unfold toTwos
  have hpos : (0 : Int) < ((256 ^ w : Nat) : Int) := by
    have : 0 < 256 ^ w := Nat.pow_pos (by decide)
    omega
  have h1 := Int.emod_lt_of_pos z hpos
  have h2 := Int.emod_nonneg z (Int.ne_of_gt hpos)
  omega

theorem aux_ofTwos_toTwos (w : Nat) (z : Int)
    (h1 : -((256 ^ w : Nat) : Int) ≤ 2 * z) (h2 : 2 * z < ((256 ^ w : Nat) : Int)) :
    ofTwos w (toTwos w z) = z := by
  unfold ofTwos toTwos
  generalize hM : (256 ^ w : Nat) = M at *
  by_cases hz : 0 ≤ z
  · have e : z % (M : Int) = z := Int.emod_eq_of_lt hz (by omega)
    rw [e]
    have : ((z.toNat : Nat) : Int) = z := Int.toNat_of_nonneg hz
    split <;> omega
  · have e : z % (M : Int) = z + M := by
      have : (z + M) % (M : Int) = z + M := Int.emod_eq_of_lt (by omega) (by omega)
      rw [← this, Int.add_emod_right]
    rw [e]
    have : (((z + M).toNat : Nat) : Int) = z + M := Int.toNat_of_nonneg (by omega)
    split <;> omega


theorem aux_decodeChar_encodeChar (c : Nat) (rest : List Nat) (h : isScalar c = true) :
    decodeChar (encodeChar c ++ rest) = some (c, rest) := by
  simp [isScalar] at h
  unfold encodeChar
  split
  · simp [decodeChar, *]
  · split
    · simp [decodeChar, isCont]
      rw [if_neg (by omega), if_neg (by omega), if_pos (by omega), if_pos (by omega)]
      simp
      omega
    · split
      · simp [decodeChar, isCont]
        rw [if_neg (by omega), if_neg (by omega), if_neg (by omega), if_pos (by omega)]
        rw [if_pos]
        · simp; omega
        · refine ⟨⟨?_, ?_⟩, ?_⟩ <;> (try split) <;> omega
      · simp [decodeChar, isCont]
        rw [if_neg (by omega), if_neg (by omega), if_neg (by omega), if_neg (by omega), if_pos (by omega)]
        rw [if_pos]
        · simp; omega
        · refine ⟨⟨⟨?_, ?_⟩, ?_⟩, ?_⟩ <;> (try split) <;> omega
theorem aux_takeN_append (xs rest : List Nat) : takeN xs.length (xs ++ rest) = some (xs, rest) := by
  induction xs with
  | nil => simp [takeN]
  | cons x xs ih => simp [takeN, ih]

theorem aux_decodeNth : ∀ (ts : Tys) (k : Nat) (bs : List Nat),
    ts.decodeNth k bs = (match ts.nth k with | some t => t.decode bs | none => none)
  | .nil, k, bs => by simp [Tys.decodeNth, Tys.nth]
  | .cons t ts, 0, bs => by simp [Tys.decodeNth, Tys.nth]
  | .cons t ts, k + 1, bs => by simp [Tys.decodeNth, Tys.nth, aux_decodeNth ts k bs]

mutual
theorem aux_dec_enc (v : Val) (t : Ty) (rest : List Nat) (h : v.wt t = true) :
    t.decode (v.encode ++ rest) = some (v, rest) := by
  match v with
  | .u w n =>
    cases t <;> simp [Val.wt] at h
    obtain ⟨rfl, h⟩ := h
    simp [Val.encode, Ty.decode, aux_decLE_encLE _ _ _ h]
  | .i w z =>
    cases t <;> simp [Val.wt] at h
    obtain ⟨⟨rfl, h1⟩, h2⟩ := h
    simp [Val.encode, Ty.decode, aux_decLE_encLE _ _ _ (aux_toTwos_lt w z), aux_ofTwos_toTwos w z h1 h2]
  | .bool b =>
    cases t <;> simp [Val.wt] at h
    cases b <;> simp [Val.encode, Ty.decode]
  | .char c =>
    cases t <;> simp [Val.wt] at h
    simp [Val.encode, Ty.decode, aux_decodeChar_encodeChar c rest h]
  | .str bs =>
    cases t <;> simp [Val.wt] at h
    obtain ⟨⟨_, h2⟩, h3⟩ := h
    simp [Val.encode, Ty.decode, List.append_assoc, aux_decLE_encLE 8 _ _ (by omega : bs.length < 256 ^ 8), aux_takeN_append, h2]
  | .none =>
    cases t <;> simp [Val.wt] at h
    simp [Val.encode, Ty.decode]
  | .some v =>
    cases t <;> simp [Val.wt] at h
    simp [Val.encode, Ty.decode, aux_dec_enc v _ rest h]
  | .vec vs =>
    cases t <;> simp [Val.wt] at h
    obtain ⟨h1, h2⟩ := h
    simp [Val.encode, Ty.decode, List.append_assoc, aux_decLE_encLE 8 _ _ (by omega : vs.length < 256 ^ 8), aux_dec_enc_all vs _ rest h1]
  | .tup vs =>
    cases t <;> simp [Val.wt] at h
    simp [Val.encode, Ty.decode, aux_dec_enc_tup vs _ rest h]
  | .variant idx v =>
    cases t with
    | enm ts =>
      simp [Val.wt] at h
      obtain ⟨h1, h2⟩ := h
      simp [Val.encode, Ty.decode, List.append_assoc, aux_decLE_encLE 4 _ _ (by omega : idx < 256 ^ 4),
        aux_decodeNth]
      cases hn : ts.nth idx with
      | none => simp [hn] at h2
      | some t' =>
        simp [hn] at h2
        simp [aux_dec_enc v t' rest h2]
    | _ => simp [Val.wt] at h
theorem aux_dec_enc_all (vs : Vals) (t : Ty) (rest : List Nat) (h : vs.wtAll t = true) :
    decodeMany t.decode vs.length (vs.encodeAll ++ rest) = some (vs, rest) := by
  match vs with
  | .nil => simp [Vals.length, Vals.encodeAll, decodeMany]
  | .cons v vs =>
    simp [Vals.wtAll] at h
    simp [Vals.length, Vals.encodeAll, decodeMany, List.append_assoc, aux_dec_enc v t _ h.1,
      aux_dec_enc_all vs t rest h.2]
theorem aux_dec_enc_tup (vs : Vals) (ts : Tys) (rest : List Nat) (h : vs.wtTup ts = true) :
    ts.decodeTup (vs.encodeAll ++ rest) = some (vs, rest) := by
  match vs, ts with
  | .nil, .nil => simp [Vals.encodeAll, Tys.decodeTup]
  | .cons v vs, .cons t ts =>
    simp [Vals.wtTup] at h
    simp [Vals.encodeAll, Tys.decodeTup, List.append_assoc, aux_dec_enc v t _ h.1,
      aux_dec_enc_tup vs ts rest h.2]
  | .nil, .cons _ _ => simp [Vals.wtTup] at h
  | .cons _ _, .nil => simp [Vals.wtTup] at h
end


theorem aux_mapM'_some {α β} (f : α → Option β) (g : α → β) (l : List α)
    (h : ∀ a ∈ l, f a = some (g a)) : mapM' f l = some (l.map g) := by
  induction l with
  | nil => rfl
  | cons a l ih =>
    simp [mapM', h a (by simp), ih (fun b hb => h b (by simp [hb]))]

theorem aux_mapM'_map_some {α β γ} (f : γ → Option β) (h : α → γ) (g : α → β) (l : List α)
    (hh : ∀ a ∈ l, f (h a) = some (g a)) : mapM' f (l.map h) = some (l.map g) := by
  induction l with
  | nil => rfl
  | cons a l ih =>
    simp [mapM', hh a (by simp), ih (fun b hb => hh b (by simp [hb]))]

theorem aux_nodup_mk (l : List Nat) (h : l.Nodup) : (l.map Tagless.mk).Nodup := by
  induction l with
  | nil => simp
  | cons a l ih =>
    simp only [List.nodup_cons, List.map_cons] at h ⊢
    refine ⟨?_, ih h.2⟩
    intro hm
    obtain ⟨b, hb, e⟩ := List.mem_map.mp hm
    cases e
    exact h.1 hb

section
variable {κ ι : Type} [DecidableEq κ]

theorem aux_startSend_eq_map (s : Sinks κ ι) (k : κ) (x : ι)
    (hk : k ∈ s.map Prod.fst) (hn : (s.map Prod.fst).Nodup) :
    s.startSend k x = some (s.map fun p => (p.1, if p.1 = k then p.2 ++ [x] else p.2)) := by
  induction s with
  | nil => simp at hk
  | cons p rest ih =>
    obtain ⟨k', xs⟩ := p
    simp only [List.map_cons, List.nodup_cons] at hn
    by_cases e : k' = k
    · subst e
      simp only [Sinks.startSend, if_true, List.map_cons]
      have : rest.map (fun p => (p.1, if p.1 = k' then p.2 ++ [x] else p.2)) = rest := by
        conv => rhs; rw [← List.map_id rest]
        apply List.map_congr_left
        intro p hp
        have : p.1 ≠ k' := fun e => hn.1 (by rw [← e]; exact List.mem_map_of_mem hp)
        simp [this]
      rw [this]
    · have hk' : k ∈ rest.map Prod.fst := by
        simp only [List.map_cons, List.mem_cons] at hk
        rcases hk with hk | hk
        · exact absurd hk.symm e
        · exact hk
      simp [Sinks.startSend, e, ih hk' hn.2]

theorem aux_sendAll_eq_map (items : List (κ × ι)) (s : Sinks κ ι)
    (hk : ∀ it ∈ items, it.1 ∈ s.map Prod.fst) (hn : (s.map Prod.fst).Nodup) :
    s.sendAll items = some (s.map fun p => (p.1, p.2 ++ (items.filter (fun it => it.1 = p.1)).map Prod.snd)) := by
  induction items generalizing s with
  | nil => simp [Sinks.sendAll]
  | cons it items ih =>
    obtain ⟨k, x⟩ := it
    have h1 := aux_startSend_eq_map s k x (hk (k, x) (by simp)) hn
    simp only [Sinks.sendAll, h1]
    have keys : (s.map fun p => (p.1, if p.1 = k then p.2 ++ [x] else p.2)).map Prod.fst = s.map Prod.fst := by
      simp [List.map_map, Function.comp_def]
    rw [ih _ (by rw [keys]; exact fun it h => hk it (by simp [h])) (by rw [keys]; exact hn)]
    simp only [List.map_map, Option.some.injEq]
    apply List.map_congr_left
    intro p _
    by_cases e : p.1 = k
    · simp [e]
    · have e' : ¬ k = p.1 := fun h => e h.symm
      simp [e, e']
end

/-! ## Property theorems -/

/-- The decoder, run on the encoding of any well-typed value followed by arbitrary further
bytes, returns exactly that value and leaves exactly those bytes. -/
theorem decode_consumes_exactly (v : Val) (t : Ty) (rest : List Nat) (h : v.wt t = true) :
    t.decode (v.encode ++ rest) = some (v, rest) :=
  aux_dec_enc v t rest h

/-- `bincode::deserialize::<T>(&bincode::serialize(&v)) = Ok(v)` for every value of every
payload type of the descriptor universe. -/
theorem decode_encode (v : Val) (t : Ty) (h : v.wt t = true) : t.deserialize v.encode = some v := by
  have := aux_dec_enc v t [] h
  simp at this
  simp [Ty.deserialize, this]

/-- trailing bytes (allowed by the configuration the closures use) never change the value -/
theorem deserialize_ignores_trailing (v : Val) (t : Ty) (junk : List Nat) (h : v.wt t = true) :
    t.deserialize (v.encode ++ junk) = some v := by
  simp [Ty.deserialize, aux_dec_enc v t junk h]

/-- two values of one type with the same bytes are the same value -/
theorem encode_injective (v₁ v₂ : Val) (t : Ty) (h₁ : v₁.wt t = true) (h₂ : v₂.wt t = true)
    (e : v₁.encode = v₂.encode) : v₁ = v₂ := by
  have a := decode_encode v₁ t h₁
  have b := decode_encode v₂ t h₂
  rw [e, b] at a
  exact (Option.some.inj a).symm

/-- plain send closure followed by plain receive closure reconstructs the value -/
theorem recv_send_plain (v : Val) (t : Ty) (h : v.wt t = true) :
    recvPlain t (sendPlain v) = some v := decode_encode v t h

/-- demux send closure, transport tagging the message with the sender, tagged receive closure:
the receiver sees the sender's id and the exact value; the address travels untouched -/
theorem recv_send_tagged {S D : Type} (sender : MemberId S) (dest : MemberId D) (v : Val) (t : Ty)
    (h : v.wt t = true) :
    (sendDemux (dest, v)).1 = dest.intoTagless ∧
    recvTagged (Tag := S) t (sender.intoTagless, (sendDemux (dest, v)).2) = some (sender, v) := by
  simp [sendDemux, recvTagged, decode_encode v t h, MemberId.fromTagless, MemberId.intoTagless]

/-- member ids round-trip through their untyped form unchanged (both directions) -/
theorem memberId_roundtrip {Tag : Type} (m : MemberId Tag) (u : Tagless) :
    MemberId.fromTagless (Tag := Tag) m.intoTagless = m ∧
    (MemberId.fromTagless (Tag := Tag) u).intoTagless = u := by
  cases m; simp [MemberId.fromTagless, MemberId.intoTagless]

/-- a member id sent *as payload* (u32 variant index 0, then the u32 raw id) decodes back -/
theorem memberId_payload_roundtrip {Tag : Type} (m : MemberId Tag) (rest : List Nat)
    (h : m.inner.raw < 2 ^ 32) :
    memberIdTy.decode (m.toVal.encode ++ rest) = some (m.toVal, rest) ∧
    MemberId.ofVal (Tag := Tag) m.toVal = some m := by
  constructor
  · apply aux_dec_enc
    simp [MemberId.toVal, memberIdTy, Val.wt, Tys.nth, Vals.wtTup]
    omega
  · cases m; simp [MemberId.toVal, MemberId.ofVal, MemberId.fromTagless]

section
variable {κ ι : Type} [DecidableEq κ]

/-- `demux_map`: after any sequence of `start_send`s whose keys all have a sink, the sink of key
`k` holds what it held before followed by exactly the items addressed to `k`, in order — so an
item reaches its addressee and nobody else. -/
theorem route_only_addressee (items : List (κ × ι)) (s : Sinks κ ι)
    (hk : ∀ it ∈ items, it.1 ∈ s.map Prod.fst) (hn : (s.map Prod.fst).Nodup) :
    s.sendAll items =
      some (s.map fun p => (p.1, p.2 ++ (items.filter (fun it => it.1 = p.1)).map Prod.snd)) :=
  aux_sendAll_eq_map items s hk hn

/-- an item whose key has no sink makes `start_send` panic (modelled as `none`) -/
theorem route_missing_key_panics (s : Sinks κ ι) (k : κ) (x : ι) (h : k ∉ s.map Prod.fst) :
    s.startSend k x = none := by
  induction s with
  | nil => rfl
  | cons p rest ih =>
    obtain ⟨k', xs⟩ := p
    simp only [List.map_cons, List.mem_cons, not_or] at h
    have e : ¬ k' = k := fun e => h.1 e.symm
    simp [Sinks.startSend, e, ih h.2]
end

/-- End to end (generated closures + `demux_map` transport): a cluster member `sender` demuxes
any list of addressed, well-typed values to a cluster with distinct `members`; every member
receives exactly the values addressed to it, in order, each carrying `sender`'s id. -/
theorem cluster_delivery {S D : Type} (t : Ty) (members : List Nat) (sender : Nat)
    (items : List (MemberId D × Val))
    (hm : members.Nodup)
    (hd : ∀ it ∈ items, it.1.inner.raw ∈ members)
    (hw : ∀ it ∈ items, it.2.wt t = true) :
    clusterDeliver (S := S) t members sender items =
      some (members.map fun m =>
        (m, (items.filter (fun it => it.1.inner.raw = m)).map fun it =>
              ((⟨⟨sender⟩⟩ : MemberId S), it.2))) := by
  unfold clusterDeliver
  have keys : (members.map fun m => ((⟨m⟩ : Tagless), ([] : List (List Nat)))).map Prod.fst
      = members.map Tagless.mk := by simp [List.map_map, Function.comp_def]
  have hn : ((members.map fun m => ((⟨m⟩ : Tagless), ([] : List (List Nat)))).map Prod.fst).Nodup := by
    rw [keys]
    exact aux_nodup_mk members hm
  have hk : ∀ it ∈ items.map sendDemux,
      it.1 ∈ (members.map fun m => ((⟨m⟩ : Tagless), ([] : List (List Nat)))).map Prod.fst := by
    intro it hit
    rw [keys]
    obtain ⟨a, ha, rfl⟩ := List.mem_map.mp hit
    exact List.mem_map.mpr ⟨a.1.inner.raw, hd a ha, by simp [sendDemux, MemberId.intoTagless]⟩
  simp only [aux_sendAll_eq_map _ _ hk hn, List.map_map]
  rw [aux_mapM'_some _ (fun (p : Tagless × List (List Nat)) =>
        (p.1.raw, (items.filter (fun it => it.1.inner.raw = p.1.raw)).map fun it =>
              ((⟨⟨sender⟩⟩ : MemberId S), it.2)))]
  · simp [List.map_map, Function.comp_def]
  · intro p hp
    obtain ⟨m, _, rfl⟩ := List.mem_map.mp hp
    simp only [Function.comp_def, List.nil_append, List.filter_map, List.map_map]
    rw [aux_mapM'_map_some _ _ (fun (it : MemberId D × Val) => ((⟨⟨sender⟩⟩ : MemberId S), it.2))]
    · simp only [Option.some.injEq, Prod.mk.injEq, true_and]
      congr 1
      apply List.filter_congr
      intro it _
      obtain ⟨⟨⟨r⟩⟩, v⟩ := it
      simp [sendDemux, MemberId.intoTagless]
    · intro it hit
      have := hw it (List.mem_filter.mp hit).1
      simp [recvTagged, sendDemux, decode_encode _ _ this, MemberId.fromTagless]

/-! ## Non-vacuity: concrete instances of the hypotheses -/

/-- `Some(vec![(7u32, "é")])` of type `Option<Vec<(u32, String)>>` -/
example : (Val.some (.vec (.cons (.tup (.cons (.u 4 7) (.cons (.str [0xC3, 0xA9]) .nil))) .nil))).wt
    (.opt (.vec (.tup (.cons (.u 4) (.cons .str .nil))))) = true := by decide
/-- `Err::<i16, char>('€')`-like enum value, negative ints, bool -/
example : (Val.variant 1 (.tup (.cons (.i 2 (-300)) (.cons (.char 0x20AC) (.cons (.bool true) .nil))))).wt
    (.enm (.cons (.tup .nil) (.cons (.tup (.cons (.i 2) (.cons .char (.cons .bool .nil)))) .nil))) = true := by
  decide
example : (Val.i 2 (-300)).encode = [0xD4, 0xFE] := by decide
example : (Val.char 0x20AC).encode = [0xE2, 0x82, 0xAC] := by decide
/-- routing: three sinks, items for 2,0,2 -/
example : Sinks.sendAll [(0, ([] : List Nat)), (1, []), (2, [])] [(2, 10), (0, 11), (2, 12)]
    = some [(0, [11]), (1, []), (2, [10, 12])] := by decide
/-- process -> cluster: every member receives exactly the values addressed to it, in order -/
theorem o2m_delivery {D : Type} (t : Ty) (members : List Nat) (items : List (MemberId D × Val))
    (hm : members.Nodup)
    (hd : ∀ it ∈ items, it.1.inner.raw ∈ members)
    (hw : ∀ it ∈ items, it.2.wt t = true) :
    o2mDeliver t members items =
      some (members.map fun m => (m, (items.filter (fun it => it.1.inner.raw = m)).map Prod.snd)) := by
  unfold o2mDeliver
  have keys : (members.map fun m => ((⟨m⟩ : Tagless), ([] : List (List Nat)))).map Prod.fst
      = members.map Tagless.mk := by simp [List.map_map, Function.comp_def]
  have hn : ((members.map fun m => ((⟨m⟩ : Tagless), ([] : List (List Nat)))).map Prod.fst).Nodup := by
    rw [keys]
    exact aux_nodup_mk members hm
  have hk : ∀ it ∈ items.map sendDemux,
      it.1 ∈ (members.map fun m => ((⟨m⟩ : Tagless), ([] : List (List Nat)))).map Prod.fst := by
    intro it hit
    rw [keys]
    obtain ⟨a, ha, rfl⟩ := List.mem_map.mp hit
    exact List.mem_map.mpr ⟨a.1.inner.raw, hd a ha, by simp [sendDemux, MemberId.intoTagless]⟩
  simp only [aux_sendAll_eq_map _ _ hk hn, List.map_map]
  rw [aux_mapM'_some _ (fun (p : Tagless × List (List Nat)) =>
        (p.1.raw, (items.filter (fun it => it.1.inner.raw = p.1.raw)).map Prod.snd))]
  · simp [List.map_map, Function.comp_def]
  · intro p hp
    obtain ⟨m, _, rfl⟩ := List.mem_map.mp hp
    simp only [Function.comp_def, List.nil_append, List.filter_map, List.map_map]
    rw [aux_mapM'_map_some _ _ (fun (it : MemberId D × Val) => it.2)]
    · simp only [Option.some.injEq, Prod.mk.injEq, true_and]
      congr 1
      apply List.filter_congr
      intro it _
      obtain ⟨⟨⟨r⟩⟩, v⟩ := it
      simp [sendDemux, MemberId.intoTagless]
    · intro it hit
      have := hw it (List.mem_filter.mp hit).1
      simp [recvPlain, sendDemux, decode_encode _ _ this]

/-- cluster member -> process: the process receives every value, in order, tagged with the sender -/
theorem m2o_delivery {S : Type} (t : Ty) (sender : Nat) (vals : List Val)
    (hw : ∀ v ∈ vals, v.wt t = true) :
    m2oDeliver (S := S) t sender vals = some (vals.map fun v => ((⟨⟨sender⟩⟩ : MemberId S), v)) := by
  unfold m2oDeliver
  apply aux_mapM'_some
  intro v hv
  simp [recvTagged, sendPlain, decode_encode _ _ (hw v hv), MemberId.fromTagless]
/-! ## The configuration of the generated closures (tie to `networking.rs`) -/

/-- Every `bincode::` call chain that `serialize_bincode_with_type` / `deserialize_bincode_with_type`
put into the generated closures (re-extracted from the source into `Gen/Networking.lean` on every
run) denotes the configuration the codec of `Model/Bincode.lean` implements: fixed-width ints,
little endian, **no size limit**, trailing bytes allowed.  A changed option list (a limit, varint,
rejecting trailing bytes, another terminal method) makes this `decide` fail. -/
theorem generated_closures_use_model_config :
    Gen.serChains ≠ [] ∧ Gen.deChains ≠ [] ∧
    (∀ c ∈ Gen.serChains, Config.ofChain c = some (Dir.ser, Config.model)) ∧
    (∀ c ∈ Gen.deChains, Config.ofChain c = some (Dir.de, Config.model)) := by decide

/-- what the configuration means for the codec: ints have their fixed width whatever the value … -/
example (w n : Nat) : (Val.u w n).encode.length = w := by simp [Val.encode, aux_encLE_length]
/-- … and a limit or another option list is told apart -/
example : Config.ofChain [.options, .withFixint, .withLimit, .deserializeFrom] ≠ some (Dir.de, Config.model) := by decide
example : Config.ofChain [.options, .withFixint, .allowTrailing, .deserialize] = some (Dir.de, Config.model) := by decide

/-! ## Large payloads (compact descriptions) -/

theorem aux_repBytes_one (c : List Nat) : repBytes 1 c = c := by simp [repBytes]

theorem aux_repBytes_length (n : Nat) (c : List Nat) : (repBytes n c).length = n * c.length := by
  induction n with
  | zero => simp [repBytes]
  | succ n ih => simp [repBytes, ih, Nat.succ_mul]; omega

theorem aux_rope_bytes_append (a b : Rope) : Rope.bytes (a ++ b) = Rope.bytes a ++ Rope.bytes b := by
  induction a with
  | nil => rfl
  | cons p a ih => obtain ⟨n, c⟩ := p; simp [Rope.bytes, ih]

theorem aux_encodeAll_append (a b : Vals) : (a.append b).encodeAll = a.encodeAll ++ b.encodeAll := by
  match a with
  | .nil => simp [Vals.append, Vals.encodeAll]
  | .cons v vs => simp [Vals.append, Vals.encodeAll, aux_encodeAll_append vs b]

theorem aux_length_append (a b : Vals) : (a.append b).length = a.length + b.length := by
  match a with
  | .nil => simp [Vals.append, Vals.length]
  | .cons v vs => simp [Vals.append, Vals.length, aux_length_append vs b]; omega

theorem aux_encodeAll_replicate (n : Nat) (v : Val) : (Vals.replicate n v).encodeAll = repBytes n v.encode := by
  induction n with
  | zero => rfl
  | succ n ih => simp [Vals.replicate, Vals.encodeAll, repBytes, ih]

theorem aux_length_replicate (n : Nat) (v : Val) : (Vals.replicate n v).length = n := by
  induction n with
  | zero => rfl
  | succ n ih => simp [Vals.replicate, Vals.length, ih]

/-- the rope of a compact value is the encoding of the value it stands for -/
theorem rope_bytes (c : CVal) : c.rope.bytes = c.expand.encode := by
  induction c with
  | rep n v =>
    simp [CVal.rope, CVal.expand, Rope.bytes, Val.encode, aux_repBytes_one, aux_encodeAll_replicate,
      aux_length_replicate]
  | srep n ch =>
    simp [CVal.rope, CVal.expand, Rope.bytes, Val.encode, aux_repBytes_one, aux_repBytes_length]
  | some c ih => simp [CVal.rope, CVal.expand, Rope.bytes, Val.encode, aux_repBytes_one, ih]
  | variant k c ih => simp [CVal.rope, CVal.expand, Rope.bytes, Val.encode, aux_repBytes_one, ih]
  | tupAt pre c post ih =>
    simp [CVal.rope, CVal.expand, Rope.bytes, Val.encode, aux_repBytes_one, aux_rope_bytes_append, ih,
      aux_encodeAll_append, Vals.encodeAll]
  | vecAt pre c post ih =>
    simp [CVal.rope, CVal.expand, Rope.bytes, Val.encode, aux_repBytes_one, aux_rope_bytes_append, ih,
      aux_encodeAll_append, Vals.encodeAll, aux_length_append, Vals.length]

theorem aux_ck_append (h : Nat) (a b : List Nat) : ck h (a ++ b) = ck (ck h a) b := by
  induction a generalizing h with
  | nil => rfl
  | cons x a ih => simp [ck, ih]

theorem aux_ckRep (h n : Nat) (c : List Nat) : ckRep h n c = ck h (repBytes n c) := by
  induction n generalizing h with
  | zero => rfl
  | succ n ih => simp [ckRep, repBytes, aux_ck_append, ih]

/-- length and checksum computed piece by piece (what the driver prints) are length and checksum
of the byte string -/
theorem rope_len_ck (r : Rope) (h : Nat) : r.len = r.bytes.length ∧ Rope.ck h r = ck h r.bytes := by
  induction r generalizing h with
  | nil => exact ⟨rfl, rfl⟩
  | cons p r ih =>
    obtain ⟨n, c⟩ := p
    refine ⟨?_, ?_⟩
    · simp [Rope.len, Rope.bytes, aux_repBytes_length, (ih h).1]
    · simp [Rope.ck, Rope.bytes, aux_ck_append, aux_ckRep, (ih _).2]

theorem aux_wtAll_replicate (n : Nat) (v : Val) (t : Ty) (h : (n == 0 || v.wt t) = true) :
    (Vals.replicate n v).wtAll t = true := by
  induction n with
  | zero => rfl
  | succ n ih =>
    simp at h
    simp [Vals.replicate, Vals.wtAll, h]
    cases n with
    | zero => rfl
    | succ m => exact ih (by simp [h])

theorem aux_wtAll_append (a b : Vals) (t : Ty) (ha : a.wtAll t = true) (hb : b.wtAll t = true) :
    (a.append b).wtAll t = true := by
  match a with
  | .nil => simpa [Vals.append] using hb
  | .cons v vs =>
    simp [Vals.wtAll] at ha
    simp [Vals.append, Vals.wtAll, ha.1, aux_wtAll_append vs b t ha.2 hb]

theorem aux_wtTup_prefix (pre ws : Vals) (ts rest : Tys) (hp : pre.wtPrefix ts = some rest)
    (hw : ws.wtTup rest = true) : (pre.append ws).wtTup ts = true := by
  match pre, ts with
  | .nil, ts =>
    simp [Vals.wtPrefix] at hp
    subst hp
    simpa [Vals.append] using hw
  | .cons v vs, .cons t ts =>
    simp only [Vals.wtPrefix] at hp
    split at hp
    · rename_i hv
      simp [Vals.append, Vals.wtTup, hv, aux_wtTup_prefix vs ws ts rest hp hw]
    · simp at hp
  | .cons _ _, .nil => simp [Vals.wtPrefix] at hp

theorem aux_encodeChar_cons (c : Nat) : ∃ b bs, encodeChar c = b :: bs := by
  unfold encodeChar
  split
  · exact ⟨_, _, rfl⟩
  · split
    · exact ⟨_, _, rfl⟩
    · split <;> exact ⟨_, _, rfl⟩

theorem aux_allBytes_append (a b : List Nat) : allBytes (a ++ b) = (allBytes a && allBytes b) := by
  induction a with
  | nil => simp [allBytes]
  | cons x a ih => simp [allBytes, ih, Bool.and_assoc]

theorem aux_allBytes_encodeChar (c : Nat) (h : isScalar c = true) : allBytes (encodeChar c) = true := by
  simp [isScalar] at h
  unfold encodeChar
  split
  · simp [allBytes]; omega
  · split
    · simp [allBytes]; omega
    · split
      · simp [allBytes]; omega
      · simp [allBytes]; omega

theorem aux_allBytes_rep (n : Nat) (c : List Nat) (h : allBytes c = true) : allBytes (repBytes n c) = true := by
  induction n with
  | zero => rfl
  | succ n ih => simp [repBytes, aux_allBytes_append, h, ih]

theorem aux_utf8_rep (c : Nat) (hc : isScalar c = true) (n f : Nat) (hf : n ≤ f) :
    utf8ValidFuel f (repBytes n (encodeChar c)) = true := by
  induction n generalizing f with
  | zero => simp [repBytes]; cases f <;> rfl
  | succ n ih =>
    obtain ⟨f', rfl⟩ : ∃ f', f = f' + 1 := ⟨f - 1, by omega⟩
    have hd := aux_decodeChar_encodeChar c (repBytes n (encodeChar c)) hc
    obtain ⟨b, bs, hb⟩ := aux_encodeChar_cons c
    simp only [repBytes]
    generalize repBytes n (encodeChar c) = tail at hd ih
    rw [hb] at hd ⊢
    simp only [List.cons_append] at hd ⊢
    simp only [utf8ValidFuel, hd]
    exact ih f' (by omega)

/-- the typing check on compact values is sound for the values they stand for -/
theorem aux_cwt_expand (c : CVal) (t : Ty) (h : c.wt t = true) : c.expand.wt t = true := by
  induction c generalizing t with
  | rep n v =>
    cases t <;> simp [CVal.wt] at h
    simp [CVal.expand, Val.wt, aux_length_replicate, h.2]
    exact aux_wtAll_replicate n v _ (by simpa using h.1)
  | srep n ch =>
    cases t <;> simp [CVal.wt] at h
    obtain ⟨hs, hl⟩ := h
    obtain ⟨b, bs, hb⟩ := aux_encodeChar_cons ch
    simp only [CVal.expand, Val.wt, Bool.and_eq_true, decide_eq_true_eq, aux_repBytes_length]
    refine ⟨⟨aux_allBytes_rep _ _ (aux_allBytes_encodeChar ch hs), ?_⟩, hl⟩
    unfold utf8Valid
    apply aux_utf8_rep ch hs
    rw [aux_repBytes_length, hb]
    simp only [List.length_cons]
    exact Nat.le_mul_of_pos_right n (by omega)
  | some c ih =>
    cases t <;> simp [CVal.wt] at h
    simp [CVal.expand, Val.wt, ih _ h]
  | variant k c ih =>
    cases t with
    | enm ts =>
      simp [CVal.wt] at h
      obtain ⟨h1, h2⟩ := h
      simp only [CVal.expand, Val.wt, Bool.and_eq_true, decide_eq_true_eq]
      refine ⟨h1, ?_⟩
      cases hn : ts.nth k with
      | none => simp [hn] at h2
      | some t' =>
        simp [hn] at h2
        exact ih _ h2
    | _ => simp [CVal.wt] at h
  | tupAt pre c post ih =>
    cases t with
    | tup ts =>
      simp only [CVal.wt] at h
      split at h
      · rename_i t' rest hp
        simp at h
        simp only [CVal.expand, Val.wt]
        exact aux_wtTup_prefix pre _ ts _ hp (by simp [Vals.wtTup, ih _ h.1, h.2])
      · simp at h
    | _ => simp [CVal.wt] at h
  | vecAt pre c post ih =>
    cases t <;> simp [CVal.wt] at h
    obtain ⟨⟨⟨h1, h2⟩, h3⟩, h4⟩ := h
    simp only [CVal.expand, Val.wt, Bool.and_eq_true, decide_eq_true_eq, aux_length_append, Vals.length]
    exact ⟨aux_wtAll_append _ _ _ h1 (by simp [Vals.wtAll, ih _ h2, h3]), h4⟩

/-- Large payloads: for every compact description that type-checks — whatever the repeat count,
i.e. whatever the size of the encoding — the bytes the driver accounts for (`rope`) are the
encoding of the described value, and the receive closures (plain and member-id tagged) reconstruct
exactly that value from them.  There is no size at which the receiver gives up. -/
theorem big_payload_roundtrip {S : Type} (c : CVal) (t : Ty) (sender : Tagless) (h : c.wt t = true) :
    sendPlain c.expand = c.rope.bytes ∧
    recvPlain t c.rope.bytes = some c.expand ∧
    recvTagged (Tag := S) t (sender, c.rope.bytes) = some (MemberId.fromTagless sender, c.expand) := by
  have hw := aux_cwt_expand c t h
  simp [sendPlain, recvPlain, recvTagged, rope_bytes, decode_encode _ _ hw]

/-- a 200 KiB `Vec<u8>` inside a struct; a 3 MiB string -/
example : (CVal.tupAt (.cons (.u 2 7) .nil) (.rep 204800 (.u 1 255)) .nil).wt
    (.tup (.cons (.u 2) (.cons (.vec (.u 1)) .nil))) = true := by decide
example : (CVal.tupAt (.cons (.u 2 7) .nil) (.rep 204800 (.u 1 255)) .nil).rope.len = 204810 := by decide
example : (CVal.srep 1048576 0x20AC).rope.len = 3145736 := by decide

/-! ## `DemuxMap` polling with stalled members -/

section
variable {κ ι : Type}

theorem aux_foldPoll (f : MSink ι → Bool × MSink ι) (acc : Bool) (d : Demux κ ι) :
    Demux.foldPoll f acc d =
      (acc && d.all (fun p => (f p.2).1), d.map fun p => (p.1, (f p.2).2)) := by
  induction d generalizing acc with
  | nil => simp [Demux.foldPoll]
  | cons p d ih =>
    obtain ⟨k, s⟩ := p
    simp [Demux.foldPoll, ih, Bool.and_assoc]

/-- `poll_ready` / `poll_flush` / `poll_close` poll **every** member sink exactly once, whatever
the other members answer: afterwards each member's sink is its own sink after one poll. -/
theorem demux_poll_polls_every_member (d : Demux κ ι) :
    (d.pollReady).2 = d.map (fun p => (p.1, (p.2.pollReady).2)) ∧
    (d.pollFlush).2 = d.map (fun p => (p.1, (p.2.pollFlush).2)) ∧
    (d.pollClose).2 = d.map (fun p => (p.1, (p.2.pollClose).2)) := by
  simp [Demux.pollReady, Demux.pollFlush, Demux.pollClose, aux_foldPoll]

/-- … and the answer is `Ready` only when all members answered `Ready` (and then it is). -/
theorem demux_poll_ready_iff_all_ready (d : Demux κ ι) :
    ((d.pollReady).1 = true ↔ ∀ p ∈ d, (p.2.pollReady).1 = true) ∧
    ((d.pollFlush).1 = true ↔ ∀ p ∈ d, (p.2.pollFlush).1 = true) ∧
    ((d.pollClose).1 = true ↔ ∀ p ∈ d, (p.2.pollClose).1 = true) := by
  simp [Demux.pollReady, Demux.pollFlush, Demux.pollClose, aux_foldPoll, List.all_eq_true]

/-- One member being `Pending` does not prevent the others from being flushed: a member whose own
sink answers `Ready` to this flush has, after `DemuxMap::poll_flush`, an empty buffer and has
received everything that was buffered for it — whatever the other members answer. -/
theorem demux_flush_healthy_member_delivered (d : Demux κ ι) (k : κ) (s : MSink ι)
    (hm : (k, s) ∈ d) (hr : (s.flush.next).1 = true) :
    ∃ s', (k, s') ∈ (d.pollFlush).2 ∧ s'.buf = [] ∧ s'.delivered = s.delivered ++ s.buf := by
  refine ⟨(s.pollFlush).2, ?_, ?_, ?_⟩
  · rw [(demux_poll_polls_every_member d).2.1]
    exact List.mem_map.mpr ⟨(k, s), hm, rfl⟩
  · simp [MSink.pollFlush, hr]
  · simp [MSink.pollFlush, hr]

theorem demux_close_healthy_member_delivered (d : Demux κ ι) (k : κ) (s : MSink ι)
    (hm : (k, s) ∈ d) (hr : (s.close.next).1 = true) :
    ∃ s', (k, s') ∈ (d.pollClose).2 ∧ s'.buf = [] ∧ s'.delivered = s.delivered ++ s.buf ∧ s'.closed = true := by
  refine ⟨(s.pollClose).2, ?_, ?_, ?_, ?_⟩
  · rw [(demux_poll_polls_every_member d).2.2]
    exact List.mem_map.mpr ⟨(k, s), hm, rfl⟩
  · simp [MSink.pollClose, hr]
  · simp [MSink.pollClose, hr]
  · simp [MSink.pollClose, hr]

/-- The `HashMap` iteration order is not observable: for two orders of the same members the
answers agree and the resulting maps are again reorderings of each other. -/
theorem demux_poll_order_independent (d d' : Demux κ ι) (hp : d.Perm d') :
    (d.pollFlush).1 = (d'.pollFlush).1 ∧ ((d.pollFlush).2).Perm (d'.pollFlush).2 ∧
    (d.pollClose).1 = (d'.pollClose).1 ∧ ((d.pollClose).2).Perm (d'.pollClose).2 ∧
    (d.pollReady).1 = (d'.pollReady).1 ∧ ((d.pollReady).2).Perm (d'.pollReady).2 := by
  have hall : ∀ (g : κ × MSink ι → Bool), d.all g = d'.all g := by
    intro g
    rw [Bool.eq_iff_iff]
    simp only [List.all_eq_true]
    exact ⟨fun h x hx => h x (hp.mem_iff.mpr hx), fun h x hx => h x (hp.mem_iff.mp hx)⟩
  simp only [Demux.pollReady, Demux.pollFlush, Demux.pollClose, aux_foldPoll, Bool.true_and]
  exact ⟨hall _, hp.map _, hall _, hp.map _, hall _, hp.map _⟩

variable [DecidableEq κ]

theorem aux_dstartSend_eq_map (d : Demux κ ι) (k : κ) (x : ι)
    (hk : k ∈ d.map Prod.fst) (hn : (d.map Prod.fst).Nodup) :
    d.startSend k x = some (d.map fun p => (p.1, if p.1 = k then p.2.startSend x else p.2)) := by
  induction d with
  | nil => simp at hk
  | cons p rest ih =>
    obtain ⟨k', s⟩ := p
    simp only [List.map_cons, List.nodup_cons] at hn
    by_cases e : k' = k
    · subst e
      simp only [Demux.startSend, if_true, List.map_cons]
      have : rest.map (fun p => (p.1, if p.1 = k' then p.2.startSend x else p.2)) = rest := by
        conv => rhs; rw [← List.map_id rest]
        apply List.map_congr_left
        intro p hp
        have : p.1 ≠ k' := fun e => hn.1 (by rw [← e]; exact List.mem_map_of_mem hp)
        simp [this]
      rw [this]
    · have hk' : k ∈ rest.map Prod.fst := by
        simp only [List.map_cons, List.mem_cons] at hk
        rcases hk with hk | hk
        · exact absurd hk.symm e
        · exact hk
      simp [Demux.startSend, e, ih hk' hn.2]

/-- pushing a list of items into one member sink -/
def MSink.sendMany (s : MSink ι) (xs : List ι) : MSink ι := { s with buf := s.buf ++ xs }

theorem aux_dsendAll_eq_map (items : List (κ × ι)) (d : Demux κ ι)
    (hk : ∀ it ∈ items, it.1 ∈ d.map Prod.fst) (hn : (d.map Prod.fst).Nodup) :
    d.sendAll items =
      some (d.map fun p => (p.1, p.2.sendMany ((items.filter (fun it => it.1 = p.1)).map Prod.snd))) := by
  induction items generalizing d with
  | nil => simp [Demux.sendAll, MSink.sendMany]
  | cons it items ih =>
    obtain ⟨k, x⟩ := it
    have h1 := aux_dstartSend_eq_map d k x (hk (k, x) (by simp)) hn
    simp only [Demux.sendAll, h1]
    have keys : (d.map fun p => (p.1, if p.1 = k then p.2.startSend x else p.2)).map Prod.fst = d.map Prod.fst := by
      simp [List.map_map, Function.comp_def]
    rw [ih _ (by rw [keys]; exact fun it h => hk it (by simp [h])) (by rw [keys]; exact hn)]
    simp only [List.map_map, Option.some.injEq]
    apply List.map_congr_left
    intro p _
    by_cases e : p.1 = k
    · simp [e, MSink.sendMany, MSink.startSend]
    · have e' : ¬ k = p.1 := fun h => e h.symm
      simp [e, e', MSink.sendMany]

theorem aux_pollFlush_fst (s : MSink ι) : (s.pollFlush).1 = (s.flush.next).1 := by
  unfold MSink.pollFlush
  split <;> simp_all

/-- End to end over the polling interface: any list of addressed items is sent into a `DemuxMap`
with distinct member keys, then `poll_flush` is called once.  Every member whose own sink is
ready to flush has then received everything it had buffered plus exactly the items addressed to
it, in order — regardless of which other members are stalled (`Pending`) and of where they sit in
the iteration order; and the call reports `Ready` only if no member is stalled. -/
theorem demux_deliver_despite_stall (items : List (κ × ι)) (d : Demux κ ι)
    (hk : ∀ it ∈ items, it.1 ∈ d.map Prod.fst) (hn : (d.map Prod.fst).Nodup) :
    ∃ d', d.sendAll items = some d' ∧
      (∀ k s, (k, s) ∈ d → (s.flush.next).1 = true →
        ∃ s', (k, s') ∈ (d'.pollFlush).2 ∧ s'.buf = [] ∧
          s'.delivered = s.delivered ++ s.buf ++ (items.filter (fun it => it.1 = k)).map Prod.snd) ∧
      ((d'.pollFlush).1 = true ↔ ∀ p ∈ d, (p.2.flush.next).1 = true) := by
  refine ⟨_, aux_dsendAll_eq_map items d hk hn, ?_, ?_⟩
  · intro k s hm hr
    have hm' : (k, s.sendMany ((items.filter (fun it => it.1 = k)).map Prod.snd)) ∈
        d.map (fun p => (p.1, p.2.sendMany ((items.filter (fun it => it.1 = p.1)).map Prod.snd))) :=
      List.mem_map.mpr ⟨(k, s), hm, rfl⟩
    obtain ⟨s', h1, h2, h3⟩ := demux_flush_healthy_member_delivered _ k _ hm' (by simpa [MSink.sendMany] using hr)
    exact ⟨s', h1, h2, by simpa [MSink.sendMany, List.append_assoc] using h3⟩
  · rw [(demux_poll_ready_iff_all_ready _).2.1]
    constructor
    · intro h p hp
      have := h _ (List.mem_map.mpr ⟨p, hp, rfl⟩)
      simpa [aux_pollFlush_fst, MSink.sendMany] using this
    · intro h q hq
      obtain ⟨p, hp, rfl⟩ := List.mem_map.mp hq
      simpa [aux_pollFlush_fst, MSink.sendMany] using h p hp
end

/-- member 0 stalled forever, member 1 healthy: the flush is `Pending`, member 1 got its item -/
example :
    let d : Demux Nat Nat := [(0, { ready := ⟨[], true⟩, flush := ⟨[], false⟩, close := ⟨[], true⟩ }),
                              (1, { ready := ⟨[], true⟩, flush := ⟨[], true⟩, close := ⟨[], true⟩ })]
    (match d.sendAll [(1, 7), (0, 8)] with
     | some d' => ((d'.pollFlush).1, (d'.pollFlush).2.map fun p => (p.1, p.2.buf, p.2.delivered))
     | none => (true, [])) = (false, [(0, [8], []), (1, [], [7])]) := by decide

end HvNet
