/-
Model of the addressed-send path of Hydro networking.

* `MemberId<Tag>` / `TaglessMemberId` (`hydro_lang/src/location/member_id.rs`): a typed id is a
  transparent wrapper around the untyped one; `into_tagless` / `from_tagless` move the field.
  With the embedded / deploy runtimes the untyped id is `Legacy { raw_id: u32 }`; as a *payload*
  it serialises as that enum (variant 0 with one u32 field), `MemberId` delegating to it.
* the generated closures of `serialize_bincode_with_type` / `deserialize_bincode_with_type`
  (`hydro_lang/src/live_collections/stream/networking.rs`):
    send, demux:   `|(id, data)| (id.into_tagless(), bincode::serialize(&data).unwrap().into())`
    send, plain:   `|data| bincode::serialize(&data).unwrap().into()`
    recv, tagged:  `|res| { let (id, b) = res.unwrap(); (MemberId::from_tagless(id), bincode::deserialize::<T>(&b).unwrap()) }`
    recv, plain:   `|res| bincode::deserialize::<T>(&res.unwrap()).unwrap()`
* `sinktools::demux_map` (`sinktools/src/demux_map.rs`): a map key → sink; `start_send((k, x))`
  pushes `x` into the sink stored under `k` and panics when `k` is missing.
-/
import HvNet.Model.Bincode
namespace HvNet

/-- `TaglessMemberId::Legacy { raw_id }` -/
structure Tagless where
  raw : Nat
deriving DecidableEq, Repr

/-- `MemberId<Tag>`: `{ inner: TaglessMemberId, _phantom }` -/
structure MemberId (Tag : Type) where
  inner : Tagless
deriving DecidableEq

def MemberId.intoTagless {Tag} (m : MemberId Tag) : Tagless := m.inner
def MemberId.fromTagless {Tag} (t : Tagless) : MemberId Tag := ⟨t⟩

/-- descriptor of `TaglessMemberId` / `MemberId<_>` as a payload -/
def memberIdTy : Ty := .enm (.cons (.tup (.cons (.u 4) .nil)) .nil)
/-- `Serialize for MemberId` = `self.inner.serialize(..)` -/
def MemberId.toVal {Tag} (m : MemberId Tag) : Val := .variant 0 (.tup (.cons (.u 4 m.inner.raw) .nil))
/-- `Deserialize for MemberId` = `from_tagless(TaglessMemberId::deserialize(..)?)` -/
def MemberId.ofVal {Tag} : Val → Option (MemberId Tag)
  | .variant 0 (.tup (.cons (.u 4 r) .nil)) => some (MemberId.fromTagless ⟨r⟩)
  | _ => none

/-! ### `DemuxMap` -/

/-- the `HashMap<Key, Si>`; a sink is represented by the list of items pushed into it -/
abbrev Sinks (κ ι : Type) := List (κ × List ι)

def Sinks.get {κ ι} [DecidableEq κ] : Sinks κ ι → κ → Option (List ι)
  | [], _ => none
  | (k', xs) :: rest, k => if k' = k then some xs else Sinks.get rest k

/-- `start_send((k, x))`; `none` = the `DemuxMap missing key` panic -/
def Sinks.startSend {κ ι} [DecidableEq κ] : Sinks κ ι → κ → ι → Option (Sinks κ ι)
  | [], _, _ => none
  | (k', xs) :: rest, k, x =>
    if k' = k then some ((k', xs ++ [x]) :: rest)
    else match Sinks.startSend rest k x with
      | some r => some ((k', xs) :: r)
      | none => none

def Sinks.sendAll {κ ι} [DecidableEq κ] : Sinks κ ι → List (κ × ι) → Option (Sinks κ ι)
  | s, [] => some s
  | s, (k, x) :: items =>
    match s.startSend k x with
    | some s' => Sinks.sendAll s' items
    | none => none

/-! ### the generated closures -/

/-- sender side, `is_demux = true` -/
def sendDemux {Tag} (item : MemberId Tag × Val) : Tagless × List Nat :=
  (item.1.intoTagless, item.2.encode)
/-- sender side, `is_demux = false` -/
def sendPlain (v : Val) : List Nat := v.encode
/-- receiver side, untagged; `none` = the `unwrap` panic on a decode error -/
def recvPlain (t : Ty) (bytes : List Nat) : Option Val := t.deserialize bytes
/-- receiver side, tagged with the sender's id -/
def recvTagged {Tag} (t : Ty) (m : Tagless × List Nat) : Option (MemberId Tag × Val) :=
  match t.deserialize m.2 with
  | some v => some (MemberId.fromTagless m.1, v)
  | none => none

def mapM' {α β} (f : α → Option β) : List α → Option (List β)
  | [] => some []
  | a :: as =>
    match f a with
    | some b => match mapM' f as with
      | some bs => some (b :: bs)
      | none => none
    | none => none

/-- A cluster member `sender` (tag `S`) demuxes `items` to the members of a cluster (tag `D`)
whose transport keeps one sink per member of `members`; every member then runs the tagged
receive closure over what its sink got.  Result: per member, the `(sender id, value)` list;
`none` if something panicked. -/
def clusterDeliver {S D : Type} (t : Ty) (members : List Nat) (sender : Nat)
    (items : List (MemberId D × Val)) : Option (List (Nat × List (MemberId S × Val))) :=
  let sinks : Sinks Tagless (List Nat) := members.map fun m => (⟨m⟩, [])
  match sinks.sendAll (items.map sendDemux) with
  | none => none
  | some s =>
    mapM' (fun (p : Tagless × List (List Nat)) =>
      match mapM' (fun b => recvTagged (Tag := S) t (⟨sender⟩, b)) p.2 with
      | some l => some (p.1.raw, l)
      | none => none) s

/-- A process demuxes `items` to the members of a cluster (plain receive closure on each member). -/
def o2mDeliver {D : Type} (t : Ty) (members : List Nat)
    (items : List (MemberId D × Val)) : Option (List (Nat × List Val)) :=
  let sinks : Sinks Tagless (List Nat) := members.map fun m => (⟨m⟩, [])
  match sinks.sendAll (items.map sendDemux) with
  | none => none
  | some s =>
    mapM' (fun (p : Tagless × List (List Nat)) =>
      match mapM' (recvPlain t) p.2 with
      | some l => some (p.1.raw, l)
      | none => none) s

/-- A cluster member `sender` sends `vals` to a process; the transport tags every message with
the sender's id and the process runs the tagged receive closure. -/
def m2oDeliver {S : Type} (t : Ty) (sender : Nat) (vals : List Val) : Option (List (MemberId S × Val)) :=
  mapM' (fun v => recvTagged (Tag := S) t (⟨sender⟩, sendPlain v)) vals

/-! ### `DemuxMap::poll_ready` / `poll_flush` / `poll_close` over member sinks that may stall

`sinktools/src/demux_map.rs`: each of the three is
`self.sinks.values_mut().try_fold(Poll::Ready(()), |poll, sink| { ready_both!(poll, Pin::new(sink).poll_x(cx)?); Poll::Ready(Ok(())) })`.
`ready_both!(a, b)` evaluates *both* operands and returns `Pending` from the closure unless both are
`Ready`; `try_fold` on `Poll<Result<_, _>>` continues on `Pending` (only `Ready(Err(_))` breaks), so
every member sink is polled on every call and the result is `Ready` iff every member answered
`Ready`.  Member sinks are modelled as scripted, infallible, buffering sinks (the `?` branch is not
modelled): the answers of each poll method are a script (`true` = `Ready`), `start_send` appends to
the buffer, a `Ready` flush / close moves the buffer to what the member has received. -/

/-- answers to successive calls: `pre`, then `dflt` forever -/
structure Script where
  pre : List Bool
  dflt : Bool
deriving DecidableEq, Repr

def Script.next (s : Script) : Bool × Script :=
  match s.pre with
  | [] => (s.dflt, s)
  | b :: r => (b, { s with pre := r })

structure MSink (ι : Type) where
  ready : Script
  flush : Script
  close : Script
  buf : List ι := []
  delivered : List ι := []
  closed : Bool := false

def MSink.pollReady {ι} (s : MSink ι) : Bool × MSink ι :=
  ((s.ready.next).1, { s with ready := (s.ready.next).2 })

def MSink.startSend {ι} (s : MSink ι) (x : ι) : MSink ι := { s with buf := s.buf ++ [x] }

def MSink.pollFlush {ι} (s : MSink ι) : Bool × MSink ι :=
  if (s.flush.next).1 then
    (true, { s with flush := (s.flush.next).2, delivered := s.delivered ++ s.buf, buf := [] })
  else (false, { s with flush := (s.flush.next).2 })

def MSink.pollClose {ι} (s : MSink ι) : Bool × MSink ι :=
  if (s.close.next).1 then
    (true, { s with close := (s.close.next).2, delivered := s.delivered ++ s.buf, buf := [], closed := true })
  else (false, { s with close := (s.close.next).2 })

/-- the `HashMap<Key, Si>` in its (arbitrary) iteration order -/
abbrev Demux (κ ι : Type) := List (κ × MSink ι)

/-- the `try_fold` with `ready_both!`: `acc` is the `Poll` folded so far (`true` = `Ready`) -/
def Demux.foldPoll {κ ι} (f : MSink ι → Bool × MSink ι) : Bool → Demux κ ι → Bool × Demux κ ι
  | acc, [] => (acc, [])
  | acc, (k, s) :: rest =>
    let r := Demux.foldPoll f (acc && (f s).1) rest
    (r.1, (k, (f s).2) :: r.2)

def Demux.pollReady {κ ι} (d : Demux κ ι) : Bool × Demux κ ι := Demux.foldPoll MSink.pollReady true d
def Demux.pollFlush {κ ι} (d : Demux κ ι) : Bool × Demux κ ι := Demux.foldPoll MSink.pollFlush true d
def Demux.pollClose {κ ι} (d : Demux κ ι) : Bool × Demux κ ι := Demux.foldPoll MSink.pollClose true d

/-- `start_send((k, x))`; `none` = the `DemuxMap missing key` panic -/
def Demux.startSend {κ ι} [DecidableEq κ] : Demux κ ι → κ → ι → Option (Demux κ ι)
  | [], _, _ => none
  | (k', s) :: rest, k, x =>
    if k' = k then some ((k', s.startSend x) :: rest)
    else match Demux.startSend rest k x with
      | some r => some ((k', s) :: r)
      | none => none

def Demux.sendAll {κ ι} [DecidableEq κ] : Demux κ ι → List (κ × ι) → Option (Demux κ ι)
  | d, [] => some d
  | d, (k, x) :: items =>
    match d.startSend k x with
    | some d' => Demux.sendAll d' items
    | none => none

end HvNet
