/-
Model of `hydro_std/src/quorum.rs` (`collect_quorum`, `collect_quorum_with_response`) and
`hydro_std/src/request_response.rs` (`join_responses`) as batch state machines: one step per
tick of the `sliced!` block, the state being the `use::state_null` streams carried over.

A response is `(key, Result<V, E>)`.  Streams inside a tick are lists; `anti_join` /
`filter_not_in` keep the items whose key is not in the right-hand side; the keyed fold
`count_per_key` has one entry per key present in `current_responses`.
No imports: linked into `hvdrv_net`.
-/
namespace HvNet.Quorum

inductive Res (V E : Type) where
  | ok (v : V)
  | err (e : E)
deriving DecidableEq, Repr

def Res.isOk {V E} : Res V E → Bool
  | .ok _ => true
  | .err _ => false

section
variable {κ V E : Type} [DecidableEq κ]

abbrev Resp (κ V E : Type) := κ × Res V E

/-- number of successful responses for `k` -/
def succ (l : List (Resp κ V E)) (k : κ) : Nat := l.countP fun r => r.1 = k && r.2.isOk
/-- number of error responses for `k` -/
def errs (l : List (Resp κ V E)) (k : κ) : Nat := l.countP fun r => r.1 = k && !r.2.isOk
/-- number of responses for `k` -/
def total (l : List (Resp κ V E)) (k : κ) : Nat := l.countP fun r => r.1 = k

/-- the key set of the keyed fold (one entry per key that occurs) -/
def keysOf : List (Resp κ V E) → List κ
  | [] => []
  | r :: rs => if r.1 ∈ keysOf rs then keysOf rs else r.1 :: keysOf rs

/-- the carried state: `not_all` and `min_but_not_max` -/
structure St (κ V E : Type) where
  notAll : List (Resp κ V E) := []
  mbnm : List κ := []

/-- `reached_min_count`: keys of `count_per_key` with `success >= min` -/
def reachedMin (min : Nat) (cur : List (Resp κ V E)) : List κ :=
  (keysOf cur).filter fun k => decide (min ≤ succ cur k)
/-- `not_reached_min_count`: keys with `success < min` -/
def notReachedMin (min : Nat) (cur : List (Resp κ V E)) : List κ :=
  (keysOf cur).filter fun k => decide (succ cur k < min)
/-- `received_from_all`: keys with `success + error >= max` -/
def receivedAll (max : Nat) (cur : List (Resp κ V E)) : List κ :=
  (keysOf cur).filter fun k => decide (max ≤ succ cur k + errs cur k)

/-- one tick of `collect_quorum`: new state and the keys emitted in this tick -/
def stepQ (min max : Nat) (st : St κ V E) (batch : List (Resp κ V E)) : St κ V E × List κ :=
  let cur := st.notAll ++ batch
  let rm := reachedMin min cur
  if max = min then
    ({ notAll := cur.filter (fun r => !(rm.contains r.1)), mbnm := st.mbnm }, rm)
  else
    let all := receivedAll max cur
    ({ notAll := cur.filter (fun r => !(all.contains r.1)),
       mbnm := rm.filter (fun k => !(all.contains k)) },
     rm.filter (fun k => !(st.mbnm.contains k)))

def okVal : Resp κ V E → Option (κ × V)
  | (k, .ok v) => some (k, v)
  | (_, .err _) => none

def errVal : Resp κ V E → Option (κ × E)
  | (_, .ok _) => none
  | (k, .err e) => some (k, e)

/-- one tick of `collect_quorum_with_response`: new state and the `(key, value)`s emitted -/
def stepW (min max : Nat) (st : St κ V E) (batch : List (Resp κ V E)) : St κ V E × List (κ × V) :=
  let cur := st.notAll ++ batch
  let rm := reachedMin min cur
  let nrm := notReachedMin min cur
  if max = min then
    ({ notAll := cur.filter (fun r => !(rm.contains r.1)), mbnm := st.mbnm },
     (cur.filter (fun r => !(nrm.contains r.1))).filterMap okVal)
  else
    let all := receivedAll max cur
    ({ notAll := cur.filter (fun r => !(all.contains r.1)),
       mbnm := rm.filter (fun k => !(all.contains k)) },
     ((cur.filter (fun r => !(nrm.contains r.1))).filter (fun r => !(st.mbnm.contains r.1))).filterMap okVal)

/-- run over a batching: the outputs tick by tick -/
def runQ (min max : Nat) : St κ V E → List (List (Resp κ V E)) → List (List κ)
  | _, [] => []
  | st, b :: bs => let r := stepQ min max st b; r.2 :: runQ min max r.1 bs

def runW (min max : Nat) : St κ V E → List (List (Resp κ V E)) → List (List (κ × V))
  | _, [] => []
  | st, b :: bs => let r := stepW min max st b; r.2 :: runW min max r.1 bs

/-- the error stream: a stateless `filter_map` over the responses, outside the tick -/
def errorsOut (l : List (Resp κ V E)) : List (κ × E) := l.filterMap errVal

end

/-! ### `join_responses` -/
section
variable {κ M V : Type} [DecidableEq κ]

/-- one tick: state `remaining_to_join`, this tick's responses and metadata -/
def stepJ (rem : List (κ × M)) (resp : List (κ × V)) (md : List (κ × M)) :
    List (κ × M) × List (κ × (M × V)) :=
  let ran := rem ++ md
  (ran.filter (fun p => !((resp.map Prod.fst).contains p.1)),
   ran.flatMap fun p => (resp.filter fun r => r.1 = p.1).map fun r => (p.1, (p.2, r.2)))

def runJ : List (κ × M) → List (List (κ × V) × List (κ × M)) → List (List (κ × (M × V)))
  | _, [] => []
  | rem, t :: ts => let r := stepJ rem t.1 t.2; r.2 :: runJ r.1 ts
end

end HvNet.Quorum
