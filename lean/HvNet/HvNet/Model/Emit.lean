/-
Abstract model of the Hydro IR -> DFIR emission (`hydro_lang/src/compile/ir/mod.rs`,
`HydroRoot::emit_core` / `HydroNode::emit_core`) at the granularity the partitioner cares about.

Abstract IR: a list of nodes (node id = index); every node has a kind, a (root) location and its
inputs.  As in the real emission
* every node owns the DFIR operators of its statement (a forward pipeline `op0 -> op1 -> ..`),
  its inputs are wired into that pipeline;
* all `Tee`s of one shared inner node are one `tee()` operator;
* a `CycleSource c` emits nothing: its consumers read the variable defined by `CycleSink c`
  (`cycle_c = input -> identity()`);
* `DeferTick` is `defer_tick_lazy()`: the edge into it is tick-delaying, the only kind of edge the
  partitioner (`dfir_lang` `partition_graph`) does not count as a same-tick dependency;
* a `Network` node becomes a `dest_sink` pipeline in the sender's graph (`netSend`, a root) and a
  `source_stream` pipeline in the receiver's graph (`netRecv`, a source) with no edge between.
No imports: linked into `hvdrv_net`.
-/
namespace HvNet.Emit

inductive Kind where
  | src                    -- Source / SingletonSource / ...
  | op                     -- any operator with inputs
  | tee
  | defer                  -- DeferTick
  | cycSource (c : Nat)
  | netRecv
  | sink                   -- ForEach / EmbeddedOutput / ... (root)
  | cycSink (c : Nat)      -- root
  | netSend                -- root
deriving DecidableEq, Repr

structure Node where
  kind : Kind
  loc : Nat
  inputs : List Nat
deriving Repr

abbrev IR := List Node

def kindOf (ir : IR) (n : Nat) : Option Kind := (ir[n]?).map (·.kind)
def inputsOf (ir : IR) (n : Nat) : List Nat :=
  match ir[n]? with
  | some nd => nd.inputs
  | none => []
def isDefer (ir : IR) (n : Nat) : Bool := kindOf ir n == some Kind.defer

/-- the root completing cycle `c` -/
def sinkOf (ir : IR) (c : Nat) : Option Nat := ir.findIdx? fun nd => nd.kind == Kind.cycSink c

/-- the node whose operators a consumer of `x` is wired to -/
def resolve (ir : IR) (x : Nat) : Option Nat :=
  match kindOf ir x with
  | some (Kind.cycSource c) => sinkOf ir c
  | some _ => some x
  | none => none

/-- the same-tick dependency edges of the IR: input edges except those into a `DeferTick`, and
`CycleSink c -> CycleSource c`.  (The two halves of a network node are not connected.) -/
def cutEdges (ir : IR) : List (Nat × Nat) :=
  (List.range ir.length).flatMap fun v =>
    (if isDefer ir v then [] else (inputsOf ir v).map fun u => (u, v)) ++
    (match kindOf ir v with
     | some (Kind.cycSource c) =>
       match sinkOf ir c with
       | some s => [(s, v)]
       | none => []
     | _ => [])

def depCut (ir : IR) (u v : Nat) : Prop := (u, v) ∈ cutEdges ir

/-- Non-delaying edges of the emitted operator graph; an operator is `(owner node, position in
the owner's pipeline)`.  Over-approximation of the real emission: any position of the producer may
feed any position of the consumer. -/
def emitEdge (ir : IR) (a b : Nat × Nat) : Prop :=
  (a.1 = b.1 ∧ a.2 < b.2) ∨
  (∃ x, x ∈ inputsOf ir b.1 ∧ resolve ir x = some a.1 ∧ isDefer ir b.1 = false)

/-! ### executable acceptance check: a rank certificate -/

def relax (ir : IR) (r : List Nat) : List Nat :=
  (List.range ir.length).map fun v =>
    ((cutEdges ir).filter fun e => e.2 == v).foldl (fun m e => Nat.max m (r.getD e.1 0 + 1)) 0

def iter {α} (f : α → α) : Nat → α → α
  | 0, x => x
  | n + 1, x => iter f n (f x)

def computeRank (ir : IR) : List Nat := iter (relax ir) (ir.length + 1) (List.replicate ir.length 0)

def checkRank (ir : IR) (r : List Nat) : Bool :=
  (cutEdges ir).all fun e => decide (r.getD e.1 0 < r.getD e.2 0)

/-- the model's verdict: the builder accepts (no same-tick cycle) -/
def accepts (ir : IR) : Bool := checkRank ir (computeRank ir)

/-- predicted projection of the emitted graph on the owners of its operators: one edge per input
of every node that owns named operators, `true` = the edge enters a `defer_tick` -/
def predictedEdges (ir : IR) : List (Nat × Nat × Bool) :=
  (List.range ir.length).flatMap fun y =>
    match kindOf ir y with
    | some Kind.sink => []
    | some Kind.netSend => []
    | some (Kind.cycSource _) => []
    | _ =>
      (inputsOf ir y).filterMap fun x =>
        match resolve ir x with
        | some a => if a == y then none else some (a, y, isDefer ir y)
        | none => none

end HvNet.Emit
