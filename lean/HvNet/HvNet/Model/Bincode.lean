/-
Model of the wire format used by the generated Hydro send / receive closures
(`hydro_lang/src/live_collections/stream/networking.rs`, `serialize_bincode_with_type` /
`deserialize_bincode_with_type`): `bincode::serialize(&data)` / `bincode::deserialize::<T>(&bytes)`
of bincode 1.3 with the configuration of those two free functions
(`DefaultOptions::new().with_fixint_encoding().allow_trailing_bytes()`, little endian, no limit):

* integers: fixed width, little endian, two's complement (`usize`/`isize` travel as 8 bytes);
* `bool`: one byte 0/1 (any other byte is a decode error);
* `char`: its UTF-8 encoding (1–4 bytes, strict validation on decode);
* `String`: u64 byte length, then the bytes (must be valid UTF-8);
* `Option`: one tag byte 0/1, then the payload for 1;
* sequences (`Vec`): u64 length, then the elements;
* tuples / structs / newtypes / `Box`: the fields one after the other (no framing);
* enums (`Result` is the enum `Ok`=0 / `Err`=1): u32 variant index, then the variant's fields;
* `()` and unit structs: nothing;
* trailing bytes after a value are ignored by the top-level `deserialize`.

Bytes are `Nat`s (`< 256` on the wire).  No imports: this file is linked into `hvdrv_net`.
-/
namespace HvNet

/-! ### little-endian fixed-width integers -/

/-- `n` bytes of `v`, least significant first -/
def encLE : Nat → Nat → List Nat
  | 0, _ => []
  | n + 1, v => v % 256 :: encLE n (v / 256)

/-- read `n` bytes as a little-endian number; `none` at end of input -/
def decLE : Nat → List Nat → Option (Nat × List Nat)
  | 0, bs => some (0, bs)
  | _ + 1, [] => none
  | n + 1, b :: bs =>
    match decLE n bs with
    | some (v, rest) => some (b + 256 * v, rest)
    | none => none

/-- two's complement of a signed value on `w` bytes -/
def toTwos (w : Nat) (i : Int) : Nat := (i % (256 ^ w : Nat)).toNat
/-- signed reading of a `w`-byte unsigned value -/
def ofTwos (w : Nat) (u : Nat) : Int :=
  if 2 * u < 256 ^ w then (u : Int) else (u : Int) - (256 ^ w : Nat)

/-! ### UTF-8 (Rust `str::from_utf8` / `char::encode_utf8`) -/

/-- a Unicode scalar value -/
def isScalar (c : Nat) : Bool := c < 0xD800 || (0xE000 ≤ c && c < 0x110000)

def isCont (b : Nat) : Bool := 0x80 ≤ b && b ≤ 0xBF

def encodeChar (c : Nat) : List Nat :=
  if c < 0x80 then [c]
  else if c < 0x800 then [0xC0 + c / 64, 0x80 + c % 64]
  else if c < 0x10000 then [0xE0 + c / 4096, 0x80 + c / 64 % 64, 0x80 + c % 64]
  else [0xF0 + c / 262144, 0x80 + c / 4096 % 64, 0x80 + c / 64 % 64, 0x80 + c % 64]

/-- `core::str::utf8_char_width` -/
def utf8Width (b : Nat) : Nat :=
  if b < 0x80 then 1
  else if b < 0xC2 then 0
  else if b < 0xE0 then 2
  else if b < 0xF0 then 3
  else if b < 0xF5 then 4
  else 0

/-- strict decoding of one scalar value from the front of the input (what
`deserialize_char` does: width from the first byte, read the rest, `from_utf8`) -/
def decodeChar : List Nat → Option (Nat × List Nat)
  | [] => none
  | b0 :: rest =>
    if b0 < 0x80 then some (b0, rest)
    else if b0 < 0xC2 then none
    else if b0 < 0xE0 then
      match rest with
      | b1 :: r => if isCont b1 then some ((b0 - 0xC0) * 64 + (b1 - 0x80), r) else none
      | _ => none
    else if b0 < 0xF0 then
      match rest with
      | b1 :: b2 :: r =>
        let lo := if b0 = 0xE0 then 0xA0 else 0x80
        let hi := if b0 = 0xED then 0x9F else 0xBF
        if lo ≤ b1 && b1 ≤ hi && isCont b2 then
          some ((b0 - 0xE0) * 4096 + (b1 - 0x80) * 64 + (b2 - 0x80), r)
        else none
      | _ => none
    else if b0 < 0xF5 then
      match rest with
      | b1 :: b2 :: b3 :: r =>
        let lo := if b0 = 0xF0 then 0x90 else 0x80
        let hi := if b0 = 0xF4 then 0x8F else 0xBF
        if lo ≤ b1 && b1 ≤ hi && isCont b2 && isCont b3 then
          some ((b0 - 0xF0) * 262144 + (b1 - 0x80) * 4096 + (b2 - 0x80) * 64 + (b3 - 0x80), r)
        else none
      | _ => none
    else none

/-- `String::from_utf8` accepts the bytes (`fuel` ≥ number of bytes) -/
def utf8ValidFuel : Nat → List Nat → Bool
  | _, [] => true
  | 0, _ :: _ => false
  | f + 1, b :: bs =>
    match decodeChar (b :: bs) with
    | some (_, rest) => utf8ValidFuel f rest
    | none => false

def utf8Valid (bs : List Nat) : Bool := utf8ValidFuel bs.length bs

/-! ### payload descriptors and values -/

mutual
/-- descriptor of a serde data type as bincode sees it -/
inductive Ty where
  | u (w : Nat)            -- unsigned integer on `w` bytes (u8..u128, usize = 8)
  | i (w : Nat)            -- signed integer on `w` bytes
  | bool
  | char
  | str
  | opt (t : Ty)
  | vec (t : Ty)
  | tup (ts : Tys)         -- tuple, struct, newtype, unit (= `tup nil`), `Box`
  | enm (vs : Tys)         -- enum: one descriptor per variant (its fields as a `tup`); `Result<A,B>` = `enm [A, B]`
inductive Tys where
  | nil
  | cons (t : Ty) (ts : Tys)
end

mutual
inductive Val where
  | u (w : Nat) (n : Nat)
  | i (w : Nat) (z : Int)
  | bool (b : Bool)
  | char (c : Nat)
  | str (bytes : List Nat)     -- the UTF-8 bytes of the `String`
  | none
  | some (v : Val)
  | vec (vs : Vals)
  | tup (vs : Vals)
  | variant (idx : Nat) (v : Val)
inductive Vals where
  | nil
  | cons (v : Val) (vs : Vals)
end

def Vals.length : Vals → Nat
  | .nil => 0
  | .cons _ vs => vs.length + 1

def Tys.nth : Tys → Nat → Option Ty
  | .nil, _ => Option.none
  | .cons t _, 0 => Option.some t
  | .cons _ ts, n + 1 => ts.nth n

def allBytes : List Nat → Bool
  | [] => true
  | b :: bs => decide (b < 256) && allBytes bs

mutual
/-- `v` is a value of the Rust type described by `t` -/
def Val.wt : Val → Ty → Bool
  | .u w n, .u w' => w == w' && decide (n < 256 ^ w)
  | .i w z, .i w' => w == w' && decide (-((256 ^ w : Nat) : Int) ≤ 2 * z) && decide (2 * z < ((256 ^ w : Nat) : Int))
  | .bool _, .bool => true
  | .char c, .char => isScalar c
  | .str bs, .str => allBytes bs && utf8Valid bs && decide (bs.length < 256 ^ 8)
  | .none, .opt _ => true
  | .some v, .opt t => v.wt t
  | .vec vs, .vec t => vs.wtAll t && decide (vs.length < 256 ^ 8)
  | .tup vs, .tup ts => vs.wtTup ts
  | .variant idx v, .enm ts =>
    decide (idx < 256 ^ 4) &&
    (match ts.nth idx with
     | Option.some t => v.wt t
     | Option.none => false)
  | _, _ => false
def Vals.wtAll : Vals → Ty → Bool
  | .nil, _ => true
  | .cons v vs, t => v.wt t && vs.wtAll t
def Vals.wtTup : Vals → Tys → Bool
  | .nil, .nil => true
  | .cons v vs, .cons t ts => v.wt t && vs.wtTup ts
  | _, _ => false
end

mutual
/-- `bincode::serialize(&v)` -/
def Val.encode : Val → List Nat
  | .u w n => encLE w n
  | .i w z => encLE w (toTwos w z)
  | .bool b => [if b then 1 else 0]
  | .char c => encodeChar c
  | .str bs => encLE 8 bs.length ++ bs
  | .none => [0]
  | .some v => 1 :: v.encode
  | .vec vs => encLE 8 vs.length ++ vs.encodeAll
  | .tup vs => vs.encodeAll
  | .variant idx v => encLE 4 idx ++ v.encode
def Vals.encodeAll : Vals → List Nat
  | .nil => []
  | .cons v vs => v.encode ++ vs.encodeAll
end

/-- split off the first `n` bytes; `none` if there are fewer -/
def takeN : Nat → List Nat → Option (List Nat × List Nat)
  | 0, bs => some ([], bs)
  | _ + 1, [] => none
  | n + 1, b :: bs =>
    match takeN n bs with
    | some (xs, rest) => some (b :: xs, rest)
    | none => none

/-- decode `n` elements with the element decoder `d` (serde's `Vec` visitor pulling
`next_element` `len` times) -/
def decodeMany (d : List Nat → Option (Val × List Nat)) : Nat → List Nat → Option (Vals × List Nat)
  | 0, bs => some (.nil, bs)
  | n + 1, bs =>
    match d bs with
    | some (v, rest) =>
      match decodeMany d n rest with
      | some (vs, rest') => some (.cons v vs, rest')
      | none => none
    | none => none

mutual
/-- the bincode deserializer driven by the type: value and unread rest, `none` = `Err` -/
def Ty.decode : Ty → List Nat → Option (Val × List Nat)
  | .u w, bs =>
    match decLE w bs with
    | some (n, rest) => some (.u w n, rest)
    | none => none
  | .i w, bs =>
    match decLE w bs with
    | some (n, rest) => some (.i w (ofTwos w n), rest)
    | none => none
  | .bool, bs =>
    match bs with
    | 0 :: rest => some (.bool false, rest)
    | 1 :: rest => some (.bool true, rest)
    | _ => none
  | .char, bs =>
    match decodeChar bs with
    | some (c, rest) => some (.char c, rest)
    | none => none
  | .str, bs =>
    match decLE 8 bs with
    | some (n, rest) =>
      match takeN n rest with
      | some (s, rest') => if utf8Valid s then some (.str s, rest') else none
      | none => none
    | none => none
  | .opt t, bs =>
    match bs with
    | 0 :: rest => some (.none, rest)
    | 1 :: rest =>
      match t.decode rest with
      | some (v, rest') => some (.some v, rest')
      | none => none
    | _ => none
  | .vec t, bs =>
    match decLE 8 bs with
    | some (n, rest) =>
      match decodeMany t.decode n rest with
      | some (vs, rest') => some (.vec vs, rest')
      | none => none
    | none => none
  | .tup ts, bs =>
    match ts.decodeTup bs with
    | some (vs, rest) => some (.tup vs, rest)
    | none => none
  | .enm vs, bs =>
    match decLE 4 bs with
    | some (idx, rest) =>
      match vs.decodeNth idx rest with
      | some (v, rest') => some (.variant idx v, rest')
      | none => none
    | none => none
def Tys.decodeTup : Tys → List Nat → Option (Vals × List Nat)
  | .nil, bs => some (.nil, bs)
  | .cons t ts, bs =>
    match t.decode bs with
    | some (v, rest) =>
      match ts.decodeTup rest with
      | some (vs, rest') => some (.cons v vs, rest')
      | none => none
    | none => none
/-- decode with the `k`-th descriptor of the list (`none` when `k` is not a variant index) -/
def Tys.decodeNth : Tys → Nat → List Nat → Option (Val × List Nat)
  | .nil, _, _ => none
  | .cons t _, 0, bs => t.decode bs
  | .cons _ ts, k + 1, bs => ts.decodeNth k bs
end

/-- `bincode::deserialize::<T>(&bytes)`: trailing bytes are allowed and dropped -/
def Ty.deserialize (t : Ty) (bs : List Nat) : Option Val :=
  match t.decode bs with
  | some (v, _) => some v
  | none => none

/-! ### large payloads: compact descriptions

A payload of several hundred KiB is described to the model by a *compact value*: a spine through
the payload type ending in `vec![v; n]` or in a `String` of `n` copies of one `char`.  `expand`
is the value it stands for; `rope` is its encoding as a list of `(count, chunk)` pieces, so that
length and checksum of the encoding can be computed without materialising it
(`rope_bytes`, `Rope.len_eq`, `Rope.ck_eq` in `Props/C35.lean`). -/

def Vals.append : Vals → Vals → Vals
  | .nil, ws => ws
  | .cons v vs, ws => .cons v (vs.append ws)

def Vals.replicate : Nat → Val → Vals
  | 0, _ => .nil
  | n + 1, v => .cons v (Vals.replicate n v)

/-- `n` copies of a chunk of bytes -/
def repBytes : Nat → List Nat → List Nat
  | 0, _ => []
  | n + 1, c => c ++ repBytes n c

inductive CVal where
  | rep (n : Nat) (v : Val)                      -- `vec![v; n]`
  | srep (n : Nat) (c : Nat)                     -- the `String` of `n` copies of the char `c`
  | some (c : CVal)
  | variant (k : Nat) (c : CVal)
  | tupAt (pre : Vals) (c : CVal) (post : Vals)  -- tuple / struct with one compact field
  | vecAt (pre : Vals) (c : CVal) (post : Vals)  -- `Vec` with one compact element

def CVal.expand : CVal → Val
  | .rep n v => .vec (Vals.replicate n v)
  | .srep n c => .str (repBytes n (encodeChar c))
  | .some c => .some c.expand
  | .variant k c => .variant k c.expand
  | .tupAt pre c post => .tup (pre.append (.cons c.expand post))
  | .vecAt pre c post => .vec (pre.append (.cons c.expand post))

/-- pieces `(count, chunk)`: the bytes are `count` copies of `chunk`, piece after piece -/
abbrev Rope := List (Nat × List Nat)

def Rope.bytes : Rope → List Nat
  | [] => []
  | (n, c) :: r => repBytes n c ++ Rope.bytes r

def CVal.rope : CVal → Rope
  | .rep n v => [(1, encLE 8 n), (n, v.encode)]
  | .srep n c => [(1, encLE 8 (n * (encodeChar c).length)), (n, encodeChar c)]
  | .some c => (1, [1]) :: c.rope
  | .variant k c => (1, encLE 4 k) :: c.rope
  | .tupAt pre c post => (1, pre.encodeAll) :: (c.rope ++ [(1, post.encodeAll)])
  | .vecAt pre c post =>
    (1, encLE 8 (pre.length + (post.length + 1)) ++ pre.encodeAll) :: (c.rope ++ [(1, post.encodeAll)])

/-- position-sensitive checksum of a byte string (what harness and driver print instead of the bytes) -/
def ckStep (h b : Nat) : Nat := (h * 31 + b + 1) % 4294967291
def ck (h : Nat) : List Nat → Nat
  | [] => h
  | b :: bs => ck (ckStep h b) bs
def ckRep (h : Nat) : Nat → List Nat → Nat
  | 0, _ => h
  | n + 1, c => ckRep (ck h c) n c
def Rope.ck (h : Nat) : Rope → Nat
  | [] => h
  | (n, c) :: r => Rope.ck (ckRep h n c) r
def Rope.len : Rope → Nat
  | [] => 0
  | (n, c) :: r => n * c.length + Rope.len r

/-- the types of the fields after a well-typed prefix of a tuple -/
def Vals.wtPrefix : Vals → Tys → Option Tys
  | .nil, ts => Option.some ts
  | .cons v vs, .cons t ts => if v.wt t then vs.wtPrefix ts else Option.none
  | .cons _ _, .nil => Option.none

/-- typing of a compact value, decided without expanding it (`CVal.wt_expand`) -/
def CVal.wt : CVal → Ty → Bool
  | .rep n v, .vec t => (n == 0 || v.wt t) && decide (n < 256 ^ 8)
  | .srep n c, .str => isScalar c && decide (n * (encodeChar c).length < 256 ^ 8)
  | .some c, .opt t => c.wt t
  | .variant k c, .enm ts =>
    decide (k < 256 ^ 4) &&
    (match ts.nth k with
     | Option.some t => c.wt t
     | Option.none => false)
  | .tupAt pre c post, .tup ts =>
    (match pre.wtPrefix ts with
     | Option.some (.cons t rest) => c.wt t && post.wtTup rest
     | _ => false)
  | .vecAt pre c post, .vec t =>
    pre.wtAll t && c.wt t && post.wtAll t && decide (pre.length + (post.length + 1) < 256 ^ 8)
  | _, _ => false

/-! ### the bincode configuration (`bincode::config::Options`, bincode 1.3)

The codec above is one point of bincode's configuration space.  `Config.ofChain` reads a call
chain as it appears after `bincode::` in the generated closures (the chains are re-extracted from
`networking.rs` into `Gen/Networking.lean` on every run) and returns direction and configuration;
`Props/C35.lean` proves that every extracted chain denotes `Config.model`. -/

structure Config where
  fixint : Bool          -- `FixintEncoding` (true) / `VarintEncoding`
  little : Bool          -- `LittleEndian` (true) / `BigEndian`
  limited : Bool         -- `Bounded(_)` (true) / `Infinite`
  allowTrailing : Bool   -- `AllowTrailing` (true) / `RejectTrailing`
deriving DecidableEq, Repr

/-- `DefaultOptions::new()` (= `bincode::options()`): unlimited, little endian, varint, reject trailing -/
def Config.default : Config := ⟨false, true, false, false⟩
/-- the configuration this file implements: fixed-width ints, little endian, no limit, trailing bytes allowed -/
def Config.model : Config := ⟨true, true, false, true⟩

/-- the functions / methods of the bincode 1.3 API that can appear in a call chain -/
inductive Call where
  | serialize | deserialize | options | defaultOptionsNew
  | withFixint | withVarint | withLittle | withBig | withNative
  | withLimit | withNoLimit | allowTrailing | rejectTrailing
  | serializeInto | deserializeFrom | serializedSize | other
deriving DecidableEq, Repr

inductive Dir where
  | ser | de
deriving DecidableEq, Repr

def Config.set (c : Config) : Call → Option Config
  | .withFixint => some { c with fixint := true }
  | .withVarint => some { c with fixint := false }
  | .withLittle => some { c with little := true }
  | .withBig => some { c with little := false }
  | .withLimit => some { c with limited := true }
  | .withNoLimit => some { c with limited := false }
  | .allowTrailing => some { c with allowTrailing := true }
  | .rejectTrailing => some { c with allowTrailing := false }
  | _ => none    -- `with_native_endian` (target dependent) and everything that is not an option setter

/-- option setters, then the terminal method -/
def Config.run (c : Config) : List Call → Option (Dir × Config)
  | [.serialize] => some (.ser, c)
  | [.deserialize] => some (.de, c)
  | [.deserializeFrom] => some (.de, c)
  | s :: rest =>
    match c.set s with
    | some c' => Config.run c' rest
    | none => none
  | [] => none

/-- a whole chain: the free functions `bincode::serialize` / `bincode::deserialize` are
`DefaultOptions::new().with_fixint_encoding().allow_trailing_bytes().serialize / .deserialize` -/
def Config.ofChain : List Call → Option (Dir × Config)
  | [.serialize] => Config.run Config.default [.withFixint, .allowTrailing, .serialize]
  | [.deserialize] => Config.run Config.default [.withFixint, .allowTrailing, .deserialize]
  | .options :: rest => Config.run Config.default rest
  | .defaultOptionsNew :: rest => Config.run Config.default rest
  | _ => none

end HvNet
