/-
`hvdrv_net`: line-protocol driver for the models of C35 / C39 / C41.  One output line per
input line; `#case <n> <tags>` resets the state and is echoed.

C35 (tags `ty=<type> members=<k>`; formats in `Driver/Wire.lean`)
  enc <value>                    -> bytes the plain send closure produces
  dec <bytes>                    -> value the plain receive closure produces, or `err` (it panics)
  m2m <sender> <dest>@<value>..  -> per member `m=<sender>@<value>|..` (`-` if nothing), or `panic`
  o2m <dest>@<value>..           -> per member `m=<value>|..`, or `panic`
  m2o <sender> <value>..         -> `<sender>@<value>|..`
Anything else -> bad-op.
-/
import HvNet.Driver.Wire
open HvNet HvNet.Wire

structure St where
  ty : Ty := .tup .nil
  members : Nat := 0

def tagVal (ws : List String) (key : String) : Option String :=
  (ws.filterMap fun w => if w.startsWith (key ++ "=") then some ((w.drop (key.length + 1)).toString) else none).head?

def parseItem (ty : Ty) (w : String) : Option (MemberId Unit × Val) :=
  match w.splitOn "@" with
  | [d, v] =>
    match d.toNat?, parseValStr v with
    | some d, some v => if v.wt ty then some (⟨⟨d⟩⟩, v) else none
    | _, _ => none
  | _ => none

def parseTyped (ty : Ty) (w : String) : Option Val :=
  match parseValStr w with
  | some v => if v.wt ty then some v else none
  | none => none

def showList (xs : List String) : String := if xs.isEmpty then "-" else "|".intercalate xs

def showTagged (l : List (MemberId Unit × Val)) : String :=
  showList (l.map fun (m, v) => s!"{m.inner.raw}@{showVal v}")

def c35Op (st : St) (cmd : List String) : Option String :=
  match cmd with
  | ["enc", v] => (parseTyped st.ty v).map fun v => hexOf (sendPlain v)
  | ["dec", h] => (parseHex h).map fun bs =>
      match recvPlain st.ty bs with
      | some v => showVal v
      | none => "err"
  | "m2m" :: s :: items =>
    match s.toNat?, items.mapM (parseItem st.ty) with
    | some s, some items =>
      some (match clusterDeliver (S := Unit) st.ty (List.range st.members) s items with
        | some res => " ".intercalate (res.map fun (m, l) => s!"{m}={showTagged l}")
        | none => "panic")
    | _, _ => none
  | "o2m" :: items =>
    match items.mapM (parseItem st.ty) with
    | some items =>
      some (match o2mDeliver st.ty (List.range st.members) items with
        | some res => " ".intercalate (res.map fun (m, l) => s!"{m}={showList (l.map showVal)}")
        | none => "panic")
    | none => none
  | "m2o" :: s :: vals =>
    match s.toNat?, vals.mapM (parseTyped st.ty) with
    | some s, some vals =>
      some (match m2oDeliver (S := Unit) st.ty s vals with
        | some l => showTagged l
        | none => "panic")
    | _, _ => none
  | _ => none

def step (st : St) (line : String) : St × String :=
  let l := line.trimAscii.toString
  match l.splitOn " " with
  | "#case" :: ws =>
    let ty := ((tagVal ws "ty").bind parseTyStr).getD (.tup .nil)
    let members := ((tagVal ws "members").bind String.toNat?).getD 0
    ({ ty, members }, l)
  | cmd =>
    match c35Op st cmd with
    | some out => (st, out)
    | none => (st, "bad-op")

partial def loop (h : IO.FS.Stream) (out : IO.FS.Stream) (st : St) : IO Unit := do
  let line ← h.getLine
  if line.isEmpty then return ()
  let (st', o) := step st line
  out.putStrLn o
  loop h out st'

def main : IO Unit := do
  let stdin ← IO.getStdin
  let stdout ← IO.getStdout
  loop stdin stdout {}
