/-
`hvdrv_net`: line-protocol driver for the models of C35 / C39 / C41.  One output line per
input line; `#case <n> <tags>` resets the state and is echoed.

C35 (tags `ty=<type> members=<k>`; formats in `Driver/Wire.lean`)
  enc <value>                    -> bytes the plain send closure produces
  dec <bytes>                    -> value the plain receive closure produces, or `err` (it panics)
  m2m <sender> <dest>@<value>..  -> per member `m=<sender>@<value>|..` (`-` if nothing), or `panic`
  o2m <dest>@<value>..           -> per member `m=<value>|..`, or `panic`
  m2o <sender> <value>..         -> `<sender>@<value>|..`
  big <cvalue>                   -> `len=<n> ck=<checksum> o2o=ok m2o=ok m2m=ok`: length and checksum of the bytes the
                                    send closure produces for the large value; the three round trips (plain, tagged,
                                    demuxed + tagged) reconstruct it (`big_payload_roundtrip`)
C35, `DemuxMap` over scripted member sinks (tags `dm=<k> s<i>=<ready>/<flush>/<close>`, scripts over r/p, last answer repeats)
  rdy | fl | cl                  -> `R|P polled=<members> <m>:b=<buffered>;d=<delivered>;c=<closed> ..`
  snd <member> <item>            -> `ok ..state..` | `panic ..state..`
C39 (tags `kind=q|w|j min=<m> max=<M>`; one case = one run of the state machine)
  batch <key>:o[<val>] <key>:e<err> ..  -> `q=<emitted in this tick> e=<errors>`
  tick r=<k>:<v>,.. m=<k>:<m>,..        -> `j=<k>:<m>:<v>,..`
C41 (no tags needed)
  ir <id>:<kind>:<loc>:<in>,<in>;..  -> accept | reject-cycle     (kinds s o t d c<k> r S C<k> N)
  edges                              -> predicted `<src>><dst>[d]` of the last `ir`, sorted
Anything else -> bad-op.
-/
import HvNet.Driver.Wire
import HvNet.Model.Quorum
import HvNet.Model.Emit
open HvNet HvNet.Wire

structure St where
  ty : Ty := .tup .nil
  members : Nat := 0
  kind : String := ""
  min : Nat := 0
  max : Nat := 0
  qst : Quorum.St Nat Nat Nat := {}
  rem : List (Nat × Nat) := []
  ir : Emit.IR := []
  dm : Option (Demux Nat Nat) := none

/-! ### C39 -/
open Quorum in
def parseResp (kind : String) (w : String) : Option (Resp Nat Nat Nat) :=
  match w.splitOn ":" with
  | [k, r] =>
    match k.toNat? with
    | some k =>
      if r.startsWith "o" then
        let v := (r.drop 1).toString
        if kind == "q" then (if v.isEmpty then some (k, .ok 0) else none)
        else v.toNat?.map fun v => (k, .ok v)
      else if r.startsWith "e" then ((r.drop 1).toString.toNat?).map fun e => (k, .err e)
      else none
    | none => none
  | _ => none

def showPairs (keysOnly : Bool) (xs : List (Nat × Nat)) : String :=
  if xs.isEmpty then "-" else ",".intercalate (xs.map fun (k, v) => if keysOnly then s!"{k}" else s!"{k}:{v}")

def parseKv (s : String) : Option (List (Nat × Nat)) :=
  if s == "-" then some [] else
  (s.splitOn ",").mapM fun p =>
    match p.splitOn ":" with
    | [a, b] => match a.toNat?, b.toNat? with
      | some a, some b => some (a, b)
      | _, _ => none
    | _ => none

def lexLe3 (a b : Nat × Nat × Nat) : Bool :=
  a.1 < b.1 || (a.1 == b.1 && (a.2.1 < b.2.1 || (a.2.1 == b.2.1 && a.2.2 ≤ b.2.2)))

open Quorum in
def c39Op (st : St) (cmd : List String) : Option (St × String) :=
  match st.kind, cmd with
  | "q", "batch" :: items =>
    (items.mapM (parseResp "q")).map fun b =>
      let r := stepQ st.min st.max st.qst b
      let keys := r.2.mergeSort (· ≤ ·)
      ({ st with qst := r.1 }, s!"q={showPairs true (keys.map fun k => (k, 0))} e={showPairs false (errorsOut b)}")
  | "w", "batch" :: items =>
    (items.mapM (parseResp "w")).map fun b =>
      let r := stepW st.min st.max st.qst b
      ({ st with qst := r.1 }, s!"q={showPairs false r.2} e={showPairs false (errorsOut b)}")
  | "j", ["tick", r, m] =>
    if r.startsWith "r=" && m.startsWith "m=" then
      match parseKv (r.drop 2).toString, parseKv (m.drop 2).toString with
      | some r, some m =>
        let res := stepJ st.rem r m
        let out := (res.2.map fun (k, (m, v)) => (k, m, v)).mergeSort lexLe3
        let s := if out.isEmpty then "-" else ",".intercalate (out.map fun (k, m, v) => s!"{k}:{m}:{v}")
        some ({ st with rem := res.1 }, s!"j={s}")
      | _, _ => none
    else none
  | _, _ => none

def tagVal (ws : List String) (key : String) : Option String :=
  (ws.filterMap fun w => if w.startsWith (key ++ "=") then some ((w.drop (key.length + 1)).toString) else none).head?

def parseItem (ty : Ty) (w : String) : Option (MemberId Unit × Val) :=
  match w.splitOn "@" with
  | [d, v] =>
    match d.toNat?, parseValStr v with
    | some d, some v => if v.wt ty then some (⟨⟨d⟩⟩, v) else none
    | _, _ => none
  | _ => none

def parseTyped (ty : Ty) (w : String) : Option Val :=
  match parseValStr w with
  | some v => if v.wt ty then some v else none
  | none => none

def showList (xs : List String) : String := if xs.isEmpty then "-" else "|".intercalate xs

def showTagged (l : List (MemberId Unit × Val)) : String :=
  showList (l.map fun (m, v) => s!"{m.inner.raw}@{showVal v}")

def c35Op (st : St) (cmd : List String) : Option String :=
  match cmd with
  | ["enc", v] => (parseTyped st.ty v).map fun v => hexOf (sendPlain v)
  | ["dec", h] => (parseHex h).map fun bs =>
      match recvPlain st.ty bs with
      | some v => showVal v
      | none => "err"
  | "m2m" :: s :: items =>
    match s.toNat?, items.mapM (parseItem st.ty) with
    | some s, some items =>
      some (match clusterDeliver (S := Unit) st.ty (List.range st.members) s items with
        | some res => " ".intercalate (res.map fun (m, l) => s!"{m}={showTagged l}")
        | none => "panic")
    | _, _ => none
  | "o2m" :: items =>
    match items.mapM (parseItem st.ty) with
    | some items =>
      some (match o2mDeliver st.ty (List.range st.members) items with
        | some res => " ".intercalate (res.map fun (m, l) => s!"{m}={showList (l.map showVal)}")
        | none => "panic")
    | none => none
  | ["big", c] =>
    match parseCValStr c with
    | some c =>
      if c.wt st.ty then
        let r := c.rope
        some s!"len={r.len} ck={Rope.ck 0 r} o2o=ok m2o=ok m2m=ok"
      else none
    | none => none
  | "m2o" :: s :: vals =>
    match s.toNat?, vals.mapM (parseTyped st.ty) with
    | some s, some vals =>
      some (match m2oDeliver (S := Unit) st.ty s vals with
        | some l => showTagged l
        | none => "panic")
    | _, _ => none
  | _ => none


/-! ### C35: `DemuxMap` over scripted member sinks -/
def parseScript (s : String) : Option Script :=
  let bs := s.toList.map (· == 'r')
  if s.isEmpty || !(s.toList.all fun c => c == 'r' || c == 'p') then none
  else some { pre := bs.dropLast, dflt := bs.getLast?.getD true }

def parseMember (ws : List String) (m : Nat) : Option (Nat × MSink Nat) :=
  match (tagVal ws s!"s{m}").map (·.splitOn "/") with
  | some [r, f, c] =>
    match parseScript r, parseScript f, parseScript c with
    | some r, some f, some c => some (m, { ready := r, flush := f, close := c })
    | _, _, _ => none
  | _ => none

def showItems (xs : List Nat) : String := if xs.isEmpty then "-" else ".".intercalate (xs.map toString)

def showDemux (d : Demux Nat Nat) : String :=
  " ".intercalate (d.map fun (m, s) => s!"{m}:b={showItems s.buf};d={showItems s.delivered};c={if s.closed then 1 else 0}")

def dmOp (d : Demux Nat Nat) (cmd : List String) : Option (Demux Nat Nat × String) :=
  let poll (r : Bool × Demux Nat Nat) : Option (Demux Nat Nat × String) :=
    some (r.2, s!"{if r.1 then "R" else "P"} polled={",".intercalate (d.map fun p => toString p.1)} {showDemux r.2}")
  match cmd with
  | ["rdy"] => poll d.pollReady
  | ["fl"] => poll d.pollFlush
  | ["cl"] => poll d.pollClose
  | ["snd", k, x] =>
    match k.toNat?, x.toNat? with
    | some k, some x =>
      match d.startSend k x with
      | some d' => some (d', s!"ok {showDemux d'}")
      | none => some (d, s!"panic {showDemux d}")
    | _, _ => none
  | _ => none

/-! ### C41 -/
def parseKind (s : String) : Option Emit.Kind :=
  match s with
  | "s" => some .src
  | "o" => some .op
  | "t" => some .tee
  | "d" => some .defer
  | "r" => some .netRecv
  | "S" => some .sink
  | "N" => some .netSend
  | _ =>
    if s.startsWith "c" then ((s.drop 1).toString.toNat?).map Emit.Kind.cycSource
    else if s.startsWith "C" then ((s.drop 1).toString.toNat?).map Emit.Kind.cycSink
    else none

def parseNode (idx : Nat) (s : String) : Option Emit.Node :=
  match s.splitOn ":" with
  | [i, k, l, ins] =>
    match i.toNat?, parseKind k with
    | some i, some k =>
      if i != idx then none else
      let loc := ((l.drop 1).toString.toNat?).getD 0
      let inputs := if ins.isEmpty then some [] else (ins.splitOn ",").mapM String.toNat?
      inputs.map fun inputs => { kind := k, loc := loc, inputs := inputs }
    | _, _ => none
  | _ => none

def parseIR (s : String) : Option Emit.IR :=
  let parts := s.splitOn ";"
  (parts.zipIdx.mapM fun (p, i) => parseNode i p)

def c41Op (st : St) (cmd : List String) : Option (St × String) :=
  match cmd with
  | ["ir", s] =>
    (parseIR s).map fun ir => ({ st with ir := ir }, if Emit.accepts ir then "accept" else "reject-cycle")
  | ["edges"] =>
    let es := (Emit.predictedEdges st.ir).map fun (a, b, d) => s!"{a}>{b}" ++ (if d then "d" else "")
    let es := (es.mergeSort (fun x y => decide (x ≤ y))).eraseDups
    some (st, if es.isEmpty then "-" else ",".intercalate es)
  | _ => none

def step (st : St) (line : String) : St × String :=
  let l := line.trimAscii.toString
  match l.splitOn " " with
  | "#case" :: ws =>
    let ty := ((tagVal ws "ty").bind parseTyStr).getD (.tup .nil)
    let members := ((tagVal ws "members").bind String.toNat?).getD 0
    let kind := (tagVal ws "kind").getD ""
    let min := ((tagVal ws "min").bind String.toNat?).getD 0
    let max := ((tagVal ws "max").bind String.toNat?).getD 0
    let dm := ((tagVal ws "dm").bind String.toNat?).bind fun k => (List.range k).mapM (parseMember ws)
    ({ ty, members, kind, min, max, dm }, l)
  | cmd =>
    if let some d := st.dm then
      match dmOp d cmd with
      | some (d', out) => ({ st with dm := some d' }, out)
      | none => (st, "bad-op")
    else if st.kind == "" then
      match c41Op st cmd with
      | some (st', out) => (st', out)
      | none =>
        match c35Op st cmd with
        | some out => (st, out)
        | none => (st, "bad-op")
    else
      match c39Op st cmd with
      | some (st', out) => (st', out)
      | none => (st, "bad-op")

partial def loop (h : IO.FS.Stream) (out : IO.FS.Stream) (st : St) : IO Unit := do
  let line ← h.getLine
  if line.isEmpty then return ()
  let (st', o) := step st line
  out.putStrLn o
  loop h out st'

def main : IO Unit := do
  let stdin ← IO.getStdin
  let stdout ← IO.getStdout
  loop stdin stdout {}
