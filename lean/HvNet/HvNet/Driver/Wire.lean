/-
Text formats shared with the Rust harness `hv_net` (no spaces inside a value / a type).

type   ::= u<w> | i<w> | b | c | s | O(<type>) | V(<type>) | T(<type>,..) | E(<type>|..)
value  ::= u<w>:<n> | i<w>:<z> | b:0 | b:1 | c:<codepoint> | s:<hex> | N | S(<value>)
         | [<value>;..] | (<value>,..) | #<k><value>
bytes  ::= lower-case hex, `-` for the empty string
cvalue ::= R<n>*<value> | Z<n>*<codepoint> | S(<cvalue>) | #<k><cvalue>
         | (<value>,..,@<cvalue>,<value>,..) | [<value>;..;@<cvalue>;<value>;..]      (compact large value)
-/
import HvNet.Model.Net
namespace HvNet.Wire
open HvNet

def hexDigit (n : Nat) : Char := if n < 10 then Char.ofNat (48 + n) else Char.ofNat (87 + n)

def hexOf (bs : List Nat) : String :=
  if bs.isEmpty then "-" else String.ofList (bs.flatMap fun b => [hexDigit (b / 16 % 16), hexDigit (b % 16)])

def hexVal (c : Char) : Option Nat :=
  if '0' ≤ c ∧ c ≤ '9' then some (c.toNat - 48)
  else if 'a' ≤ c ∧ c ≤ 'f' then some (c.toNat - 87)
  else none

def hexBytes : List Char → Option (List Nat)
  | [] => some []
  | a :: b :: rest =>
    match hexVal a, hexVal b, hexBytes rest with
    | some x, some y, some r => some ((x * 16 + y) :: r)
    | _, _, _ => none
  | _ => none

def parseHex (s : String) : Option (List Nat) :=
  if s == "-" then some [] else hexBytes s.toList

/-- leading decimal number -/
def takeNat (cs : List Char) : Option (Nat × List Char) :=
  let ds := cs.takeWhile Char.isDigit
  if ds.isEmpty then none else some (ds.foldl (fun a d => a * 10 + (d.toNat - 48)) 0, cs.dropWhile Char.isDigit)

def tysOfList : List Ty → Tys
  | [] => .nil
  | t :: ts => .cons t (tysOfList ts)
def valsOfList : List Val → Vals
  | [] => .nil
  | v :: vs => .cons v (valsOfList vs)
def Vals.toList : Vals → List Val
  | .nil => []
  | .cons v vs => v :: Vals.toList vs

mutual
partial def parseTy (cs : List Char) : Option (Ty × List Char) :=
  match cs with
  | 'u' :: r => (takeNat r).map fun (w, r) => (.u w, r)
  | 'i' :: r => (takeNat r).map fun (w, r) => (.i w, r)
  | 'b' :: r => some (.bool, r)
  | 'c' :: r => some (.char, r)
  | 's' :: r => some (.str, r)
  | 'O' :: '(' :: r =>
    match parseTy r with
    | some (t, ')' :: r) => some (.opt t, r)
    | _ => none
  | 'V' :: '(' :: r =>
    match parseTy r with
    | some (t, ')' :: r) => some (.vec t, r)
    | _ => none
  | 'T' :: '(' :: r => (parseTyList ',' r).map fun (ts, r) => (.tup (tysOfList ts), r)
  | 'E' :: '(' :: r => (parseTyList '|' r).map fun (ts, r) => (.enm (tysOfList ts), r)
  | _ => none
/-- `t sep t sep .. )` or `)` -/
partial def parseTyList (sep : Char) (cs : List Char) : Option (List Ty × List Char) :=
  match cs with
  | ')' :: r => some ([], r)
  | _ =>
    match parseTy cs with
    | some (t, ')' :: r) => some ([t], r)
    | some (t, c :: r) =>
      if c == sep then (parseTyList sep r).bind fun (ts, r) => if ts.isEmpty then none else some (t :: ts, r)
      else none
    | _ => none
end

mutual
partial def parseVal (cs : List Char) : Option (Val × List Char) :=
  match cs with
  | 'u' :: r =>
    match takeNat r with
    | some (w, ':' :: r) => (takeNat r).map fun (n, r) => (.u w n, r)
    | _ => none
  | 'i' :: r =>
    match takeNat r with
    | some (w, ':' :: '-' :: r) => (takeNat r).map fun (n, r) => (.i w (-(n : Int)), r)
    | some (w, ':' :: r) => (takeNat r).map fun (n, r) => (.i w (n : Int), r)
    | _ => none
  | 'b' :: ':' :: '0' :: r => some (.bool false, r)
  | 'b' :: ':' :: '1' :: r => some (.bool true, r)
  | 'c' :: ':' :: r => (takeNat r).map fun (n, r) => (.char n, r)
  | 's' :: ':' :: r =>
    let hs := r.takeWhile fun c => (hexVal c).isSome
    (hexBytes hs).map fun bs => (.str bs, r.dropWhile fun c => (hexVal c).isSome)
  | 'N' :: r => some (.none, r)
  | 'S' :: '(' :: r =>
    match parseVal r with
    | some (v, ')' :: r) => some (.some v, r)
    | _ => none
  | '[' :: r => (parseValList ';' ']' r).map fun (vs, r) => (.vec (valsOfList vs), r)
  | '(' :: r => (parseValList ',' ')' r).map fun (vs, r) => (.tup (valsOfList vs), r)
  | '#' :: r =>
    match takeNat r with
    | some (k, r) => (parseVal r).map fun (v, r) => (.variant k v, r)
    | none => none
  | _ => none
partial def parseValList (sep close : Char) (cs : List Char) : Option (List Val × List Char) :=
  match cs with
  | [] => none
  | c :: r =>
    if c == close then some ([], r) else
    match parseVal cs with
    | some (v, c :: r) =>
      if c == close then some ([v], r)
      else if c == sep then (parseValList sep close r).bind fun (vs, r) => if vs.isEmpty then none else some (v :: vs, r)
      else none
    | _ => none
end


/-- `value sep value sep @cvalue sep value close`, exactly one `@` element -/
partial def parseCVal (cs : List Char) : Option (CVal × List Char) :=
  match cs with
  | 'R' :: r =>
    match takeNat r with
    | some (n, '*' :: r) => (parseVal r).map fun (v, r) => (.rep n v, r)
    | _ => none
  | 'Z' :: r =>
    match takeNat r with
    | some (n, '*' :: r) => (takeNat r).map fun (c, r) => (.srep n c, r)
    | _ => none
  | 'S' :: '(' :: r =>
    match parseCVal r with
    | some (c, ')' :: r) => some (.some c, r)
    | _ => none
  | '#' :: r =>
    match takeNat r with
    | some (k, r) => (parseCVal r).map fun (c, r) => (.variant k c, r)
    | none => none
  | '(' :: r => (elems ',' ')' r [] none []).map fun (pre, c, post, r) => (.tupAt (valsOfList pre) c (valsOfList post), r)
  | '[' :: r => (elems ';' ']' r [] none []).map fun (pre, c, post, r) => (.vecAt (valsOfList pre) c (valsOfList post), r)
  | _ => none
where
  elems (sep close : Char) (cs : List Char) (pre : List Val) (mid : Option CVal) (post : List Val) :
      Option (List Val × CVal × List Val × List Char) :=
    let continue_ (cs : List Char) (pre : List Val) (mid : Option CVal) (post : List Val) :=
      match cs with
      | c :: r =>
        if c == close then (mid.map fun m => (pre.reverse, m, post.reverse, r))
        else if c == sep then elems sep close r pre mid post
        else none
      | [] => none
    match cs with
    | '@' :: r =>
      if mid.isSome then none else
      match parseCVal r with
      | some (c, r) => continue_ r pre (some c) post
      | none => none
    | _ =>
      match parseVal cs with
      | some (v, r) => if mid.isSome then continue_ r pre mid (v :: post) else continue_ r (v :: pre) mid post
      | none => none

def parseCValStr (s : String) : Option CVal :=
  match parseCVal s.toList with
  | some (c, []) => some c
  | _ => none

def parseTyStr (s : String) : Option Ty :=
  match parseTy s.toList with
  | some (t, []) => some t
  | _ => none
def parseValStr (s : String) : Option Val :=
  match parseVal s.toList with
  | some (v, []) => some v
  | _ => none

mutual
partial def showVal : Val → String
  | .u w n => s!"u{w}:{n}"
  | .i w z => s!"i{w}:{z}"
  | .bool b => if b then "b:1" else "b:0"
  | .char c => s!"c:{c}"
  | .str bs => "s:" ++ (if bs.isEmpty then "" else hexOf bs)
  | .none => "N"
  | .some v => "S(" ++ showVal v ++ ")"
  | .vec vs => "[" ++ ";".intercalate ((Vals.toList vs).map showVal) ++ "]"
  | .tup vs => "(" ++ ",".intercalate ((Vals.toList vs).map showVal) ++ ")"
  | .variant k v => s!"#{k}" ++ showVal v
end

end HvNet.Wire
