import HvLat.Model.Lattice
