"""Translation (T) for the lattice family (C01/C02/C03/C06).

Re-extracts, on every run, the small decision tables of the `lattices` crate from the Rust source into
lean/HvLat/HvLat/Gen/Tables.lean:

  * the `match (&self.0, other.0)` arm tables of `WithBot` / `WithTop` `Merge::merge`, `partial_cmp`, `eq`
    and of `Conflict` `partial_cmp` / `eq` (patterns, guards, bodies, in source order: first match wins),
  * the `IsTop` / `IsBot` / `Default` impls of `Max<_>` / `Min<_>` in ord.rs (`()`, `bool`, `char`, the
    `impls_numeric!` macro body) and the list of types the macro is instantiated with.

Each arm is translated into Lean (`none`-returning partial function per arm, chained with `<|>`), so the
generated definitions are *functions*, not strings; `Props/C0x.lean` prove them equal to the hand-written
model (`gen_*` theorems).  A pattern / guard / body the translator does not know is a broken tie
(exception -> obligation fails), and an arm that is changed to something else it can parse makes the
`gen_*` theorem fail.
"""
import os
import re


def _strip_comments(s):
    s = re.sub(r"/\*.*?\*/", "", s, flags=re.S)
    return re.sub(r"//[^\n]*", "", s)


def _balanced(s, i, open_c="{", close_c="}"):
    """s[i] == open_c; returns index just after the matching close"""
    assert s[i] == open_c, (s[i:i + 20], open_c)
    d = 0
    j = i
    while j < len(s):
        if s[j] == open_c:
            d += 1
        elif s[j] == close_c:
            d -= 1
            if d == 0:
                return j + 1
        j += 1
    raise ValueError("unbalanced")


def _impl_body(src, header_re):
    ms = list(re.finditer(header_re, src, flags=re.S))
    if len(ms) != 1:
        raise ValueError(f"expected exactly one impl matching {header_re!r}, found {len(ms)}")
    i = src.index("{", ms[0].end() - 1) if src[ms[0].end() - 1] != "{" else ms[0].end() - 1
    return src[i:_balanced(src, i)]


def _fn_body(impl, name):
    m = re.search(r"\bfn\s+" + name + r"\s*\(", impl)
    if not m:
        raise ValueError(f"fn {name} not found")
    i = impl.index("{", m.end())
    return impl[i + 1:_balanced(impl, i) - 1].strip()


def _ws(s):
    return re.sub(r"\s+", " ", s).strip()


def _split_arms(match_body):
    """arms of a match body (text between the braces) -> [(pattern, guard|None, body)]"""
    arms = []
    i = 0
    n = len(match_body)
    while True:
        while i < n and match_body[i] in " \n\t,":
            i += 1
        if i >= n:
            break
        j = match_body.index("=>", i)
        head = match_body[i:j].strip()
        k = j + 2
        while match_body[k] in " \n\t":
            k += 1
        if match_body[k] == "{":
            e = _balanced(match_body, k)
            body = match_body[k:e]
        else:
            d = 0
            e = k
            while e < n and not (match_body[e] == "," and d == 0):
                if match_body[e] in "([{":
                    d += 1
                elif match_body[e] in ")]}":
                    d -= 1
                e += 1
            body = match_body[k:e]
        if " if " in head:
            pat, guard = head.split(" if ", 1)
        else:
            pat, guard = head, None
        arms.append((_ws(pat), _ws(guard) if guard else None, _ws(body)))
        i = e
    return arms


def _match_arms(fn_body, scrutinee_re):
    m = re.match(r"match\s*" + scrutinee_re + r"\s*\{", fn_body, flags=re.S)
    if not m:
        raise ValueError(f"function body is not `match {scrutinee_re} {{..}}`: {fn_body[:80]!r}")
    i = m.end() - 1
    e = _balanced(fn_body, i)
    if fn_body[e:].strip():
        raise ValueError(f"code after the match: {fn_body[e:]!r}")
    return _split_arms(fn_body[i + 1:e - 1])


_ID = r"[a-z_][a-z_0-9]*"


def _pat1(p, side, binds):
    """one component pattern -> Lean pattern; binds maps rust ident -> lean ident"""
    p = p.strip()
    m = re.fullmatch(r"(?:(" + _ID + r")\s*@\s*)?(.*)", p)
    p = m.group(2).strip()
    if p == "None":
        return "none"
    if p == "Some(_)":
        return "some _"
    m = re.fullmatch(r"Some\((" + _ID + r")\)", p)
    if m:
        binds[m.group(1)] = side + "i"
        return f"some {side}i"
    if re.fullmatch(r"_(" + _ID + r")?", p):
        return "_"
    raise ValueError(f"unknown pattern {p!r}")


def _pattern(pat, binds):
    if pat == "_":
        return ("_", "_")
    m = re.fullmatch(r"\((.*),(.*)\)", pat)
    if not m:
        raise ValueError(f"unknown arm pattern {pat!r}")
    return (_pat1(m.group(1), "s", binds), _pat1(m.group(2), "o", binds))


def _guard(g, binds):
    m = re.fullmatch(r"(!?)\s*(" + _ID + r")\.is_bot\(\)", g)
    if not m or m.group(2) not in binds:
        raise ValueError(f"unknown guard {g!r}")
    return ("!" if m.group(1) else "") + f"L.isBot {binds[m.group(2)]}"


def _body_merge(b, binds):
    if b in ("false", "true"):
        return f"(s, {b})"
    if re.fullmatch(r"\{\s*\*" + _ID + r"\s*=\s*None;\s*true\s*\}", b):
        return "(none, true)"
    m = re.fullmatch(r"\{\s*\*" + _ID + r"\s*=\s*Some\(LatticeFrom::lattice_from\((" + _ID + r")\)\);\s*true\s*\}", b)
    if m and m.group(1) in binds:
        return f"(some (L.lfrom {binds[m.group(1)]}), true)"
    m = re.fullmatch(r"(" + _ID + r")\.merge\((" + _ID + r")\)", b)
    if m and binds.get(m.group(1)) == "si" and binds.get(m.group(2)) == "oi":
        return "(let r := L.merge si oi; (some r.1, r.2))"
    raise ValueError(f"unknown merge arm body {b!r}")


_ORD = {"Equal": ".eq", "Less": ".lt", "Greater": ".gt"}


def _body_cmp(b, binds, scalar):
    m = re.fullmatch(r"Some\((Equal|Less|Greater)\)", b)
    if m:
        return f"some {_ORD[m.group(1)]}"
    m = re.fullmatch(r"(" + _ID + r")\.partial_cmp\((" + _ID + r")\)", b)
    if m and not scalar and binds.get(m.group(1)) == "si" and binds.get(m.group(2)) == "oi":
        return "L.cmp si oi"
    m = re.fullmatch(r"\((" + _ID + r") == (" + _ID + r")\)\.then_some\((Equal|Less|Greater)\)", b)
    if m and scalar and binds.get(m.group(1)) == "si" and binds.get(m.group(2)) == "oi":
        return f"(if si == oi then some {_ORD[m.group(3)]} else none)"
    raise ValueError(f"unknown partial_cmp arm body {b!r}")


def _body_eq(b, binds, scalar):
    if b in ("false", "true"):
        return b
    m = re.fullmatch(r"(" + _ID + r") == (" + _ID + r")", b)
    if m and binds.get(m.group(1)) == "si" and binds.get(m.group(2)) == "oi":
        return "(si == oi)" if scalar else "L.beq si oi"
    raise ValueError(f"unknown eq arm body {b!r}")


def _lean_table(name, sig, arms, body_fn, default):
    """first-match chain of partial arms"""
    alts = []
    for (pat, guard, body) in arms:
        binds = {}
        ps, po = _pattern(pat, binds)
        val = body_fn(body, binds)
        if guard:
            val = f"if {_guard(guard, binds)} then some ({val}) else none"
        else:
            val = f"some ({val})"
        if ps == "_" and po == "_":
            alts.append(f"({val})")
        else:
            alts.append(f"(match s, o with | {ps}, {po} => {val} | _, _ => none)")
    chain = "\n    <|> ".join(alts)
    return (f"/-- {len(arms)} arms, source order -/\n"
            f"def {name} {sig} :=\n  (({chain}) : Option _).getD {default}\n")


_CONST = {"char::MAX": "hi", "'\\x00'": "lo", "<$x>::MAX": "hi", "<$x>::MIN": "lo"}


def _ord_tables(src):
    """IsTop / IsBot / Default impls of Max<_> / Min<_> -> {(W, T): {trait: lean expr}}"""
    out = {}
    for m in re.finditer(r"impl\s+(IsTop|IsBot|Default)\s+for\s+(Max|Min)<([^>]*)>\s*\{", src):
        trait, w, t = m.group(1), m.group(2), m.group(3).strip()
        i = m.end() - 1
        impl = src[i:_balanced(src, i)]
        fn = {"IsTop": "is_top", "IsBot": "is_bot", "Default": "default"}[trait]
        b = _ws(_fn_body(impl, fn))
        if trait == "Default":
            mm = re.fullmatch(r"Self\((.*)\)", b)
            if not mm:
                raise ValueError(f"unknown Default body {b!r}")
            c = mm.group(1).strip()
            e = c if c in ("true", "false") else _CONST.get(c)
        else:
            if b in ("true", "false"):
                e = f"fun _ => {b}"
            elif b == "self.0":
                e = "fun s => s"
            elif b == "!self.0":
                e = "fun s => !s"
            else:
                mm = re.fullmatch(r"(.+?) == self\.0", b)
                e = f"fun s => {_CONST[mm.group(1).strip()]} == s" if mm and mm.group(1).strip() in _CONST else None
        if e is None:
            raise ValueError(f"unknown {trait} body for {w}<{t}>: {b!r}")
        key = (w, t)
        if trait in out.setdefault(key, {}):
            raise ValueError(f"duplicate impl {trait} for {w}<{t}>")
        out[key][trait] = e
    return out


def generate(repo):
    L = os.path.join(repo, "lattices", "src")
    rd = lambda f: _strip_comments(open(os.path.join(L, f)).read())
    wb, wt, cf, od = rd("with_bot.rs"), rd("with_top.rs"), rd("conflict.rs"), rd("ord.rs")
    parts = []
    sigL = "(L : Lat β) (s o : Option β) : "
    for (ty, src) in (("WithBot", wb), ("WithTop", wt)):
        lo = "withBot" if ty == "WithBot" else "withTop"
        impl = _impl_body(src, r"impl<Inner, Other>\s+Merge<%s<Other>>\s+for\s+%s<Inner>[^{]*\{" % (ty, ty))
        arms = _match_arms(_fn_body(impl, "merge"), r"\(&mut self\.0, other\.0\)")
        parts.append(_lean_table(lo + "Merge", sigL + "Option β × Bool", arms, _body_merge, "(s, false)"))
        impl = _impl_body(src, r"impl<Inner, Other>\s+PartialOrd<%s<Other>>\s+for\s+%s<Inner>[^{]*\{" % (ty, ty))
        arms = _match_arms(_fn_body(impl, "partial_cmp"), r"\(&self\.0, &other\.0\)")
        parts.append(_lean_table(lo + "Cmp", sigL + "Option Ordering", arms, lambda b, bd: _body_cmp(b, bd, False), "none"))
        impl = _impl_body(src, r"impl<Inner, Other>\s+PartialEq<%s<Other>>\s+for\s+%s<Inner>[^{]*\{" % (ty, ty))
        arms = _match_arms(_fn_body(impl, "eq"), r"\(&self\.0, &other\.0\)")
        parts.append(_lean_table(lo + "Eq", sigL + "Bool", arms, lambda b, bd: _body_eq(b, bd, False), "false"))
        # LatticeFrom / IsBot / IsTop one-liners
        impl = _impl_body(src, r"impl<Inner, Other>\s+LatticeFrom<%s<Other>>\s+for\s+%s<Inner>[^{]*\{" % (ty, ty))
        b = _ws(_fn_body(impl, "lattice_from"))
        if b != "Self(other.0.map(Inner::lattice_from))":
            raise ValueError(f"unknown {ty}::lattice_from body {b!r}")
        parts.append(f"def {lo}From (L : Lat β) (o : Option β) : Option β := o.map L.lfrom\n")
        for (trait, fn) in (("IsBot", "is_bot"), ("IsTop", "is_top")):
            impl = _impl_body(src, r"impl<Inner>\s+%s\s+for\s+%s<Inner>[^{]*\{" % (trait, ty))
            b = _ws(_fn_body(impl, fn))
            forms = {
                "self.0.as_ref().is_none_or(IsBot::is_bot)": "match s with | none => true | some i => L.isBot i",
                "self.0.as_ref().is_some_and(IsBot::is_bot)": "match s with | none => false | some i => L.isBot i",
                "self.0.as_ref().is_none_or(IsTop::is_top)": "match s with | none => true | some i => L.isTop i",
                "self.0.as_ref().is_some_and(IsTop::is_top)": "match s with | none => false | some i => L.isTop i",
                "self.0.is_none()": "s.isNone",
                "self.0.is_some()": "s.isSome",
            }
            if b not in forms:
                raise ValueError(f"unknown {ty}::{fn} body {b!r}")
            parts.append(f"def {lo}{trait} (L : Lat β) (s : Option β) : Bool := {forms[b]}\n")
    sigC = "(s o : Option Nat) : "
    impl = _impl_body(cf, r"impl<T, O>\s+PartialOrd<Conflict<O>>\s+for\s+Conflict<T>[^{]*\{")
    arms = _match_arms(_fn_body(impl, "partial_cmp"), r"\(&self\.0, &other\.0\)")
    parts.append(_lean_table("conflictCmp", sigC + "Option Ordering", arms, lambda b, bd: _body_cmp(b, bd, True), "none"))
    impl = _impl_body(cf, r"impl<T, O>\s+PartialEq<Conflict<O>>\s+for\s+Conflict<T>[^{]*\{")
    arms = _match_arms(_fn_body(impl, "eq"), r"\(&self\.0, &other\.0\)")
    parts.append(_lean_table("conflictEq", sigC + "Bool", arms, lambda b, bd: _body_eq(b, bd, True), "false"))

    # ord.rs
    tabs = _ord_tables(od)
    names = {"()": "Unit", "bool": "Bool", "char": "Char", "$x": "Num"}
    for (w, t), d in sorted(tabs.items()):
        if t not in names:
            raise ValueError(f"IsTop/IsBot/Default impl for unexpected type {w}<{t}>")
        if "IsTop" not in d or "IsBot" not in d:
            raise ValueError(f"{w}<{t}> lacks IsTop or IsBot")
        nm = w.lower() + names[t]
        dflt = d.get("Default")
        if t in ("()", "bool"):
            ty = "Unit" if t == "()" else "Bool"
            parts.append(f"def {nm} : NumImpl {ty} := ⟨{d['IsTop']}, {d['IsBot']}, {('some ' + dflt) if dflt else 'none'}⟩\n")
        else:
            parts.append(f"/-- `lo` / `hi` = the type's MIN / MAX (`'\\\\x00'` / `char::MAX` for char) -/\n"
                         f"def {nm} [BEq α] (lo hi : α) : NumImpl α := ⟨{d['IsTop']}, {d['IsBot']}, {('some ' + dflt) if dflt else 'none'}⟩\n")
    m = re.search(r"impls_numeric!\s*\{([^}]*)\}", od)
    if not m:
        raise ValueError("impls_numeric! invocation not found")
    tys = [x.strip() for x in m.group(1).split(",") if x.strip()]
    parts.append("/-- the types `impls_numeric!` is instantiated with -/\ndef numericTypes : List String := ["
                 + ", ".join(f'"{x}"' for x in tys) + "]\n")
    # any other `impl Merge/PartialOrd for Max/Min` than the generic ones would be outside the model
    n_merge = len(re.findall(r"impl<T>\s+Merge<(Max|Min)<T>>\s+for\s+(Max|Min)<T>", od))
    if n_merge != 2 or len(re.findall(r"\bimpl\b[^{;]*\bMerge<", od)) != 2:
        raise ValueError("ord.rs: expected exactly the two generic Merge impls")

    head = ("/- GENERATED by lean/HvLat/translate_tables.py from /repo/lattices/src/{with_bot,with_top,conflict,ord}.rs — do not edit.\n"
            "   Regenerated on every run of ./check C01|C02|C03|C06; `Props/C0x.lean` prove these equal to the model. -/\n"
            "import HvLat.Model.Lattice\n\nset_option linter.unusedVariables false\n\nnamespace HvLat.Gen\nopen HvLat\n\n"
            "/-- `IsTop::is_top`, `IsBot::is_bot`, `Default::default()` of a `Max<_>` / `Min<_>` instantiation -/\n"
            "structure NumImpl (α : Type) where\n  isTop : α → Bool\n  isBot : α → Bool\n  dflt : Option α\n\n")
    return head + "\n".join(parts) + "\nend HvLat.Gen\n"


def translate(ctx):
    repo = ctx["repo"]
    out = os.path.join(ctx["verif"], "lean", "HvLat", "HvLat", "Gen", "Tables.lean")
    text = generate(repo)
    os.makedirs(os.path.dirname(out), exist_ok=True)
    old = open(out).read() if os.path.exists(out) else None
    if old != text:
        with open(out, "w") as f:
            f.write(text)
    n = text.count("\ndef ")
    return [("lattices match/IsTop/IsBot/Default tables -> Gen/Tables.lean", True, f"{n} definitions regenerated from source")]


if __name__ == "__main__":
    import sys
    print(generate(sys.argv[1] if len(sys.argv) > 1 else "/repo"))
