/-
C02 — Merge reports change exactly when the value grows.

Same model, universe and conventions as `Props/C01.lean`.  The lattice order is defined from the
merge result, independently of the flag:  `leq b a`  :=  `merge a b ≈ a`  ("`b` is below `a`").
C03 proves it is the order `partial_cmp` computes.
-/
import HvLat.Laws.AllB
import HvLat.Gen.Tables

namespace HvLat

/-- `false` exactly when the merged-in value was already below or equal to the receiver -/
theorem changed_false_iff_le (t : LTy) (h : ok t = true) (a b : Val t)
    (wa : (sem t).wf a) (wb : (sem t).wf b) :
    ((lat t).merge a b).2 = false ↔ leq (lat t) (sem t) b a :=
  (lawfulA_of_ok t h).flag_false_iff_leq wa wb

/-- `false` exactly when the receiver's value did not change -/
theorem changed_false_iff_unchanged (t : LTy) (h : ok t = true) (a b : Val t)
    (wa : (sem t).wf a) (wb : (sem t).wf b) :
    ((lat t).merge a b).2 = false ↔ (sem t).eqv ((lat t).merge a b).1 a :=
  (lawfulA_of_ok t h).flag a b wa wb

/-- `true` exactly when the receiver strictly increased in the lattice order -/
theorem changed_true_iff_strictly_greater (t : LTy) (h : ok t = true) (a b : Val t)
    (wa : (sem t).wf a) (wb : (sem t).wf b) :
    ((lat t).merge a b).2 = true ↔
      leq (lat t) (sem t) a ((lat t).merge a b).1 ∧ ¬ leq (lat t) (sem t) ((lat t).merge a b).1 a :=
  (lawfulA_of_ok t h).flag_true_iff_strict wa wb

/-- the receiver never decreases -/
theorem merge_increasing (t : LTy) (h : ok t = true) (a b : Val t)
    (wa : (sem t).wf a) (wb : (sem t).wf b) : leq (lat t) (sem t) a ((lat t).merge a b).1 :=
  (lawfulA_of_ok t h).leq_merge_left wa wb

/-- the flag is a function of the lattice values, not of their representations -/
theorem changed_congr (t : LTy) (h : ok t = true) (a a' b b' : Val t)
    (wa : (sem t).wf a) (wa' : (sem t).wf a') (wb : (sem t).wf b) (wb' : (sem t).wf b')
    (e1 : (sem t).eqv a a') (e2 : (sem t).eqv b b') :
    ((lat t).merge a b).2 = ((lat t).merge a' b').2 :=
  (lawfulA_of_ok t h).flag_congr wa wa' wb wb' e1 e2

/-- the length-based change detection of `SetUnion::merge` (`self.0.len() > old_len` after
`extend`) is exact: the length is unchanged iff every item of `other` was already present.
Holds for any receiver list, duplicate-free or not. -/
theorem set_len_detection_exact (s o : List Nat) :
    (setMerge s o).2 = false ↔ ∀ x ∈ o, x ∈ s :=
  aux_setMerge_flag s o

/-- the per-key change detection of `MapUnion::merge`: unchanged iff every non-bottom entry of
`other` hits an existing key whose nested merge reports no change -/
theorem map_flag_exact (t : LTy) (h : ok t = true) (a b : List (Nat × Val t))
    (wa : (sem (.map t)).wf a) (wb : (sem (.map t)).wf b) :
    ((lat (.map t)).merge (a : Val (.map t)) b).2 = false ↔
      ∀ e ∈ b, (lat t).isBot e.2 = true ∨ ∃ x, a.lookup e.1 = some x ∧ ((lat t).merge x e.2).2 = false := by
  have c := (aux_mapMerge_char (lawfulA_of_ok t h) a b wa wb).2.2
  show (mapMerge (lat t) a b).2 = false ↔ _
  rw [c]
  constructor
  · intro hall e he
    have := hall e he
    simp only [moFlag] at this
    cases hb : (lat t).isBot e.2
    · right
      cases hl : List.lookup e.1 a with
      | none => simp [hb, hl] at this
      | some x => exact ⟨x, rfl, by simpa [hb, hl] using this⟩
    · left; rfl
  · intro hall e he
    rcases hall e he with hb | ⟨x, hl, hf⟩
    · simp [moFlag, hb]
    · simp [moFlag, hl, hf]

/-- Outside the property's domain, documented: with a `Vec` as the *receiver* backing
(`SetUnionVec` as `Self`) the flag is `true` for an item that is already present (`extend`
appends).  `SetUnion<Vec<_>>` has no `PartialOrd`/`IsBot` route to `Lattice` in the crate, so it is
not a shipped lattice type; recorded here so the exclusion is explicit. -/
theorem vecBackedSet_flag_counterexample :
    setVecMerge [1] [1] = ([1, 1], true) ∧ (setMerge [1] [1]) = ([1], false) := by decide

/-! non-vacuity: a merge that reports `true` because of one nested set item, and the same merge
repeated reports `false` -/
example :
    let t := LTy.map LTy.set
    let a : List (Nat × List Nat) := [(1, [1, 2])]
    let b : List (Nat × List Nat) := [(1, [2, 3]), (5, [])]
    ((lat t).merge a b).2 = true ∧ ((lat t).merge ((lat t).merge a b).1 b).2 = false := by
  exact ⟨rfl, rfl⟩


/-! ### tie to the source: the tables regenerated from lattices/src on every run (`Gen/Tables.lean`,
written by lean/HvLat/translate_tables.py) are the functions of the model -/

/-- the `changed` flags of the regenerated `WithBot` / `WithTop` merge tables are the model's flags -/
theorem gen_with_merge_flag (L : Lat β) (s o : Option β) :
    ((Lat.withBot L).merge s o).2 = (Gen.withBotMerge L s o).2 ∧
    ((Lat.withTop L).merge s o).2 = (Gen.withTopMerge L s o).2 := by
  constructor
  · cases s <;> cases o <;> simp only [Lat.withBot, Gen.withBotMerge] <;> try rfl
    all_goals (split <;> rfl)
  · cases s <;> cases o <;> rfl

end HvLat
