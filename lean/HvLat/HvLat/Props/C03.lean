/-
C03 — comparisons, bottom, top and default agree with merge.

Same model and conventions as `Props/C01.lean`.  Domain: `ok3 t` = every nesting of the shipped
constructors in which `MapUnion` / `WithBot` are not instantiated with a one-point value lattice
(see `degenerate_isTop_refuted` for what the code does there).  `cle a b` is "`a <= b` as computed
by `partial_cmp`"; `leq` is the order defined from the merge result (C02).
The per-constructor proofs (`LawfulB`) are in `HvLat/Laws/*B.lean`.

F1 (fixed in /repo, commit 9c73814c3fc): `WithTop::is_top` answered `true` for `Some(⊤)`.  The
model follows the repaired code (`self.0.is_none()`); `withTop_isTop_only_none` is the regression
statement and `isTop_iff_greatest` now closes for `WithTop`.
-/
import HvLat.Laws.AllB
import HvLat.Gen.Tables

namespace HvLat

/-- `a <= b` according to `partial_cmp` -/
def cle (L : Lat α) (a b : α) : Prop := L.cmp a b = some .lt ∨ L.cmp a b = some .eq

/-- `partial_cmp` is exactly `NaiveLatticeOrd::naive_cmp` (the comparison read off the two
`changed` flags) -/
theorem cmp_is_naive (t : LTy) (h : ok3 t = true) (a b : Val t)
    (wa : (sem t).wf a) (wb : (sem t).wf b) : (lat t).cmp a b = (lat t).naive a b :=
  (lawfulB_of_ok3 t h).cmp_naive a b wa wb

/-- `a <= b` holds exactly when merging `a` into `b` leaves `b` unchanged -/
theorem cmp_le_iff_merge_noop (t : LTy) (h : ok3 t = true) (a b : Val t)
    (wa : (sem t).wf a) (wb : (sem t).wf b) :
    (cle (lat t) a b ↔ ((lat t).merge b a).2 = false) ∧
    (cle (lat t) a b ↔ (sem t).eqv ((lat t).merge b a).1 b) := by
  have h1 := LawfulB.cmp_le_iff (lawfulA_of_ok3 t h) (lawfulB_of_ok3 t h) wa wb
  exact ⟨h1, h1.trans ((lawfulA_of_ok3 t h).flag b a wb wa)⟩

/-- equality is the induced equivalence: `==` ⇔ `partial_cmp == Some(Equal)` ⇔ same lattice value -/
theorem eq_iff_cmp_equal (t : LTy) (h : ok3 t = true) (a b : Val t)
    (wa : (sem t).wf a) (wb : (sem t).wf b) :
    ((lat t).beq a b = true ↔ (lat t).cmp a b = some .eq) ∧
    ((lat t).beq a b = true ↔ (sem t).eqv a b) := by
  have h1 := (lawfulB_of_ok3 t h).beq_iff a b wa wb
  have h2 := LawfulB.cmp_eq_iff (lawfulA_of_ok3 t h) (lawfulB_of_ok3 t h) wa wb
  exact ⟨h1.trans h2.symm, h1⟩

/-- `==` is an equivalence relation -/
theorem eq_equivalence (t : LTy) (h : ok3 t = true) (a b c : Val t)
    (wa : (sem t).wf a) (wb : (sem t).wf b) (wc : (sem t).wf c) :
    (lat t).beq a a = true ∧ ((lat t).beq a b = true → (lat t).beq b a = true) ∧
    ((lat t).beq a b = true → (lat t).beq b c = true → (lat t).beq a c = true) := by
  have A := lawfulA_of_ok3 t h
  have B := lawfulB_of_ok3 t h
  refine ⟨(B.beq_iff a a wa wa).2 (A.refl a wa), ?_, ?_⟩
  · intro e; exact (B.beq_iff b a wb wa).2 (A.symm _ _ wa wb ((B.beq_iff a b wa wb).1 e))
  · intro e1 e2
    exact (B.beq_iff a c wa wc).2
      (A.trans _ _ _ wa wb wc ((B.beq_iff a b wa wb).1 e1) ((B.beq_iff b c wb wc).1 e2))

/-- reflexive -/
theorem cmp_refl (t : LTy) (h : ok3 t = true) (a : Val t) (wa : (sem t).wf a) :
    (lat t).cmp a a = some .eq :=
  (LawfulB.cmp_eq_iff (lawfulA_of_ok3 t h) (lawfulB_of_ok3 t h) wa wa).2 ((lawfulA_of_ok3 t h).refl a wa)

/-- antisymmetric (up to the lattice equality) -/
theorem cmp_antisymm (t : LTy) (h : ok3 t = true) (a b : Val t)
    (wa : (sem t).wf a) (wb : (sem t).wf b) (h1 : cle (lat t) a b) (h2 : cle (lat t) b a) :
    (lat t).cmp a b = some .eq ∧ (lat t).beq a b = true := by
  have A := lawfulA_of_ok3 t h
  have B := lawfulB_of_ok3 t h
  have l1 := (A.flag b a wb wa).1 ((LawfulB.cmp_le_iff A B wa wb).1 h1)
  have l2 := (A.flag a b wa wb).1 ((LawfulB.cmp_le_iff A B wb wa).1 h2)
  have e := A.leq_antisymm wa wb l1 l2
  exact ⟨(LawfulB.cmp_eq_iff A B wa wb).2 e, (B.beq_iff a b wa wb).2 e⟩

/-- transitive -/
theorem cmp_trans (t : LTy) (h : ok3 t = true) (a b c : Val t)
    (wa : (sem t).wf a) (wb : (sem t).wf b) (wc : (sem t).wf c)
    (h1 : cle (lat t) a b) (h2 : cle (lat t) b c) : cle (lat t) a c := by
  have A := lawfulA_of_ok3 t h
  have B := lawfulB_of_ok3 t h
  have l1 := (A.flag b a wb wa).1 ((LawfulB.cmp_le_iff A B wa wb).1 h1)
  have l2 := (A.flag c b wc wb).1 ((LawfulB.cmp_le_iff A B wb wc).1 h2)
  exact (LawfulB.cmp_le_iff A B wa wc).2 ((A.flag c a wc wa).2 (A.leq_trans wa wb wc l1 l2))

/-- strictness is transitive too: `a <= b < c` or `a < b <= c` gives `a < c` -/
theorem cmp_trans_strict (t : LTy) (h : ok3 t = true) (a b c : Val t)
    (wa : (sem t).wf a) (wb : (sem t).wf b) (wc : (sem t).wf c)
    (h1 : cle (lat t) a b) (h2 : cle (lat t) b c)
    (hs : (lat t).cmp a b = some .lt ∨ (lat t).cmp b c = some .lt) : (lat t).cmp a c = some .lt := by
  have hac := cmp_trans t h a b c wa wb wc h1 h2
  rcases hac with hac | hac
  · exact hac
  · exfalso
    have A := lawfulA_of_ok3 t h
    have B := lawfulB_of_ok3 t h
    have eac := (LawfulB.cmp_eq_iff A B wa wc).1 hac
    -- c ≈ a ≤ b ≤ c, so all three are equivalent: no strict step
    have lca : cle (lat t) c a := Or.inr ((LawfulB.cmp_eq_iff A B wc wa).2 (A.symm _ _ wa wc eac))
    have hba := cmp_trans t h b c a wb wc wa h2 lca
    have hcb := cmp_trans t h c a b wc wa wb lca h1
    have e1 := (cmp_antisymm t h a b wa wb h1 hba).1
    have e2 := (cmp_antisymm t h b c wb wc h2 hcb).1
    rcases hs with hs | hs
    · rw [e1] at hs; cases hs
    · rw [e2] at hs; cases hs

/-- duality: `partial_cmp(b, a)` is the reverse of `partial_cmp(a, b)` -/
theorem cmp_dual (t : LTy) (h : ok3 t = true) (a b : Val t)
    (wa : (sem t).wf a) (wb : (sem t).wf b) :
    (lat t).cmp b a = ((lat t).cmp a b).map Ordering.swap :=
  LawfulB.cmp_dual (lawfulA_of_ok3 t h) (lawfulB_of_ok3 t h) wa wb

/-- the comparison does not depend on the representation -/
theorem cmp_congr (t : LTy) (h : ok3 t = true) (a a' b b' : Val t)
    (wa : (sem t).wf a) (wa' : (sem t).wf a') (wb : (sem t).wf b) (wb' : (sem t).wf b')
    (e1 : (sem t).eqv a a') (e2 : (sem t).eqv b b') : (lat t).cmp a b = (lat t).cmp a' b' := by
  have A := lawfulA_of_ok3 t h
  have B := lawfulB_of_ok3 t h
  rw [B.cmp_naive a b wa wb, B.cmp_naive a' b' wa' wb', Lat.naive, Lat.naive,
    A.flag_congr wa wa' wb wb' e1 e2, A.flag_congr wb wb' wa wa' e2 e1]

/-- `is_bot` holds exactly for the least element -/
theorem isBot_iff_least (t : LTy) (h : ok3 t = true) (a : Val t) (wa : (sem t).wf a) :
    (lat t).isBot a = true ↔ ∀ b, (sem t).wf b → cle (lat t) a b := by
  have A := lawfulA_of_ok3 t h
  have B := lawfulB_of_ok3 t h
  rw [A.isBot_iff a wa]
  exact ⟨fun hh b wb => (LawfulB.cmp_le_iff A B wa wb).2 (hh b wb),
         fun hh b wb => (LawfulB.cmp_le_iff A B wa wb).1 (hh b wb)⟩

/-- `is_top` holds exactly for a greatest element -/
theorem isTop_iff_greatest (t : LTy) (h : ok3 t = true) (a : Val t) (wa : (sem t).wf a) :
    (lat t).isTop a = true ↔ ∀ b, (sem t).wf b → cle (lat t) b a := by
  have A := lawfulA_of_ok3 t h
  have B := lawfulB_of_ok3 t h
  rw [B.isTop_iff a wa]
  exact ⟨fun hh b wb => (LawfulB.cmp_le_iff A B wb wa).2 (hh b wb),
         fun hh b wb => (LawfulB.cmp_le_iff A B wb wa).1 (hh b wb)⟩

/-- bottoms (tops) are unique up to the lattice equality, and `is_bot` respects equality -/
theorem isBot_respects_eq (t : LTy) (h : ok3 t = true) (a b : Val t)
    (wa : (sem t).wf a) (wb : (sem t).wf b) :
    ((lat t).beq a b = true → (lat t).isBot a = (lat t).isBot b) ∧
    ((lat t).isBot a = true → (lat t).isBot b = true → (lat t).beq a b = true) := by
  have A := lawfulA_of_ok3 t h
  have B := lawfulB_of_ok3 t h
  exact ⟨fun e => A.isBot_congr wa wb ((B.beq_iff a b wa wb).1 e),
         fun h1 h2 => (B.beq_iff a b wa wb).2 (A.bots_eqv wa wb h1 h2)⟩

/-- the default value is well-formed and bottom -/
theorem default_isBot (t : LTy) (h : ok3 t = true) (d : Val t) (hd : (lat t).dflt = some d) :
    (sem t).wf d ∧ (lat t).isBot d = true :=
  (lawfulB_of_ok3 t h).dflt_bot d hd

/-- F1 regression on the model of the repaired code: in `WithTop<Inner>` only `None` is top -/
theorem withTop_isTop_only_none (t : LTy) (a : Option (Val t)) :
    (lat (.withTop t)).isTop (a : Val (.withTop t)) = true ↔ a = none := by
  cases a with
  | none => exact ⟨fun _ => rfl, fun _ => rfl⟩
  | some x => exact ⟨fun h => by simp [lat, Lat.withTop] at h, fun h => by cases h⟩

/-- What the code does outside `ok3`: for a one-point value lattice (`()`), `WithBot<()>` and
`MapUnion<_, ()>` are one-point lattices too (every value is `==` every other and is greatest),
yet `is_top` answers `false` for `WithBot(None)` / for every map.  Recorded as finding F11. -/
theorem degenerate_isTop_refuted :
    ((lat (.withBot .unit)).isTop none = false ∧
      (∀ b : Val (.withBot .unit), ((lat (.withBot .unit)).merge none b).2 = false) ∧
      (lat (.withBot .unit)).beq none (some ()) = true ∧ (lat (.withBot .unit)).isTop (some ()) = true) ∧
    ((lat (.map .unit)).isTop ([] : List (Nat × Unit)) = false ∧
      (∀ b : List (Nat × Unit), ((lat (.map .unit)).merge ([] : List (Nat × Unit)) b).2 = false)) := by
  refine ⟨⟨rfl, ?_, rfl, rfl⟩, rfl, ?_⟩
  · intro b; cases b <;> rfl
  · intro b
    show (mapMerge Lat.unit [] b).2 = false
    unfold mapMerge
    have : ∀ (l : List (Nat × Unit)) st, (l.foldl (mapMergeStep Lat.unit) st) = st := by
      intro l; induction l with
      | nil => intro st; rfl
      | cons e l ih => intro st; simp only [List.foldl_cons]; rw [show mapMergeStep Lat.unit st e = st from by simp [mapMergeStep, Lat.unit]]; exact ih st
    rw [this]

/-- every nesting depth is covered by `ok3` as well -/
theorem ok3_tower (n : Nat) :
    ok3 (Nat.rec LTy.set (fun _ t => LTy.map (LTy.withBot (LTy.withTop (LTy.vec t)))) n) = true := by
  induction n with
  | zero => rfl
  | succ n ih => simp only [ok3, okB, nondeg, Bool.true_and] at ih ⊢; simpa using ih

/-! non-vacuity: a cross-shaped comparison (incomparable maps), a strict one, and a bottom entry
that is ignored by `==` -/
example :
    let t := LTy.map (LTy.withTop LTy.set)
    let a : List (Nat × Option (List Nat)) := [(1, some [1]), (2, some [])]
    let b : List (Nat × Option (List Nat)) := [(1, some [1, 2])]
    let c : List (Nat × Option (List Nat)) := [(1, none), (3, some [5])]
    let a' : List (Nat × Option (List Nat)) := [(1, some [1])]
    ok3 t = true ∧ (lat t).cmp a b = some .lt ∧ (lat t).cmp b c = some .lt ∧
      (lat t).cmp a [(3, some [5])] = none ∧ (lat t).beq a a' = true := by
  exact ⟨rfl, rfl, rfl, rfl, rfl⟩

/-! `DomPair` over a totally ordered key is inside the domain: lexicographic comparison -/
example :
    let t := LTy.domPair (LTy.withBot (LTy.maxN 255)) (LTy.map LTy.set)
    let a : Option Nat × List (Nat × List Nat) := (some 3, [(1, [1])])
    let b : Option Nat × List (Nat × List Nat) := (some 3, [(1, [1, 2])])
    let c : Option Nat × List (Nat × List Nat) := (none, [(9, [9])])
    ok3 t = true ∧ (lat t).cmp a b = some .lt ∧ (lat t).cmp c a = some .lt ∧ (lat t).cmp b a = some .gt := by
  exact ⟨rfl, rfl, rfl, rfl⟩


/-! ### tie to the source: the tables regenerated from lattices/src on every run (`Gen/Tables.lean`,
written by lean/HvLat/translate_tables.py) are the functions of the model -/

open Gen in
theorem gen_withBot_cmp_eq (L : Lat β) (s o : Option β) :
    (Lat.withBot L).cmp s o = withBotCmp L s o ∧ (Lat.withBot L).beq s o = withBotEq L s o := by
  cases s <;> cases o <;> simp only [Lat.withBot, withBotCmp, withBotEq] <;> (try exact ⟨rfl, rfl⟩)
  all_goals (constructor <;> split <;> first | rfl | simp_all)

open Gen in
theorem gen_withTop_cmp_eq (L : Lat β) (s o : Option β) :
    (Lat.withTop L).cmp s o = withTopCmp L s o ∧ (Lat.withTop L).beq s o = withTopEq L s o := by
  cases s <;> cases o <;> exact ⟨rfl, rfl⟩

open Gen in
theorem gen_with_isBot_isTop (L : Lat β) (s : Option β) :
    (Lat.withBot L).isBot s = withBotIsBot L s ∧ (Lat.withBot L).isTop s = withBotIsTop L s ∧
    (Lat.withTop L).isBot s = withTopIsBot L s ∧ (Lat.withTop L).isTop s = withTopIsTop L s :=
  ⟨rfl, rfl, rfl, rfl⟩

open Gen in
theorem gen_conflict_cmp_eq (s o : Option Nat) :
    Lat.conflict.cmp s o = conflictCmp s o ∧ Lat.conflict.beq s o = conflictEq s o := by
  cases s <;> cases o <;> exact ⟨rfl, rfl⟩

open Gen in
/-- the `IsTop` / `IsBot` / `Default` table of ord.rs -/
theorem gen_ord_table :
    (∀ b s, (Lat.maxN b).isTop s = (maxNum 0 b).isTop s ∧ (Lat.maxN b).isBot s = (maxNum 0 b).isBot s) ∧
    (∀ b, (Lat.maxN b).dflt = (maxNum 0 b).dflt) ∧
    (∀ b s, (Lat.minN b).isTop s = (minNum 0 b).isTop s ∧ (Lat.minN b).isBot s = (minNum 0 b).isBot s) ∧
    (∀ b, (Lat.minN b).dflt = (minNum 0 b).dflt) ∧
    (∀ h s, (Lat.maxI h).isTop s = (maxNum (-((h : Int) + 1)) (h : Int)).isTop s ∧
            (Lat.maxI h).isBot s = (maxNum (-((h : Int) + 1)) (h : Int)).isBot s) ∧
    (∀ h, (Lat.maxI h).dflt = (maxNum (-((h : Int) + 1)) (h : Int)).dflt) ∧
    (∀ h s, (Lat.minI h).isTop s = (minNum (-((h : Int) + 1)) (h : Int)).isTop s ∧
            (Lat.minI h).isBot s = (minNum (-((h : Int) + 1)) (h : Int)).isBot s) ∧
    (∀ h, (Lat.minI h).dflt = (minNum (-((h : Int) + 1)) (h : Int)).dflt) ∧
    (∀ s, Lat.maxB.isTop s = maxBool.isTop s ∧ Lat.maxB.isBot s = maxBool.isBot s) ∧ Lat.maxB.dflt = maxBool.dflt ∧
    (∀ s, Lat.minB.isTop s = minBool.isTop s ∧ Lat.minB.isBot s = minBool.isBot s) ∧ Lat.minB.dflt = minBool.dflt ∧
    -- `char`: the same bodies as the numeric macro with `'\x00'` / `char::MAX`
    (@maxChar = @maxNum ∧ @minChar = @minNum) ∧
    -- `Max<()>` / `Min<()>`: top and bottom at once, no `Default`
    (maxUnit.isTop () = true ∧ maxUnit.isBot () = true ∧ maxUnit.dflt = none ∧
     minUnit.isTop () = true ∧ minUnit.isBot () = true ∧ minUnit.dflt = none) ∧
    numericTypes = ["isize", "i8", "i16", "i32", "i64", "i128", "usize", "u8", "u16", "u32", "u64", "u128"] := by
  refine ⟨fun b s => ⟨?_, ?_⟩, fun _ => rfl, fun b s => ⟨?_, ?_⟩, fun _ => rfl, fun h s => ⟨?_, ?_⟩, fun _ => rfl,
    fun h s => ⟨?_, ?_⟩, fun _ => rfl, fun s => ⟨rfl, rfl⟩, rfl, fun s => ⟨rfl, rfl⟩, rfl, ⟨rfl, rfl⟩,
    ⟨rfl, rfl, rfl, rfl, rfl, rfl⟩, rfl⟩
  all_goals (simp only [Lat.maxN, Lat.minN, Lat.maxI, Lat.minI, maxNum, minNum]; exact BEq.comm)

end HvLat
