/-
C01 — Lattice merge is associative, commutative and idempotent.

Property theorems only.  Everything is about the executable model `lat t` of
`HvLat/Model/Lattice.lean` (one `Lat` per shipped type constructor, transcribed from the `impl
Merge` blocks), for EVERY type `t : LTy` of the universe (arbitrary nesting depth; `ok t` is the
syntactic side condition of the induction) and ALL well-formed values (`(sem t).wf`: duplicate-free
backings, numeric range).  Equality of lattice values is the semantic equivalence `(sem t).eqv`
("same set", "same key→value function with bottoms erased", …); C03 proves it coincides with the
crate's own `==`.  The heavy lifting (one lawfulness lemma per constructor, `LawfulA`) is in
`HvLat/Laws/*.lean`; the theorems below are its instances by induction on `t`.
-/
import HvLat.Laws.AllB
import HvLat.Gen.Tables

namespace HvLat

/-- `merge` stays inside the well-formed values (duplicate-free backings are preserved). -/
theorem merge_closed (t : LTy) (h : ok t = true) (a b : Val t)
    (wa : (sem t).wf a) (wb : (sem t).wf b) : (sem t).wf ((lat t).merge a b).1 :=
  (lawfulA_of_ok t h).merge_wf a b wa wb

/-- the semantic equality is an equivalence relation on well-formed values -/
theorem eqv_equivalence (t : LTy) (h : ok t = true) :
    (∀ a, (sem t).wf a → (sem t).eqv a a) ∧
    (∀ a b, (sem t).wf a → (sem t).wf b → (sem t).eqv a b → (sem t).eqv b a) ∧
    (∀ a b c, (sem t).wf a → (sem t).wf b → (sem t).wf c →
      (sem t).eqv a b → (sem t).eqv b c → (sem t).eqv a c) :=
  ⟨(lawfulA_of_ok t h).refl, (lawfulA_of_ok t h).symm, (lawfulA_of_ok t h).trans⟩

/-- merge respects the semantic equality (so the laws below are laws of lattice *values*, not of
representations) -/
theorem merge_congr (t : LTy) (h : ok t = true) (a a' b b' : Val t)
    (wa : (sem t).wf a) (wa' : (sem t).wf a') (wb : (sem t).wf b) (wb' : (sem t).wf b')
    (e1 : (sem t).eqv a a') (e2 : (sem t).eqv b b') :
    (sem t).eqv ((lat t).merge a b).1 ((lat t).merge a' b').1 :=
  (lawfulA_of_ok t h).merge_congr a a' b b' wa wa' wb wb' e1 e2

/-- C01, argument order -/
theorem merge_comm (t : LTy) (h : ok t = true) (a b : Val t)
    (wa : (sem t).wf a) (wb : (sem t).wf b) :
    (sem t).eqv ((lat t).merge a b).1 ((lat t).merge b a).1 :=
  (lawfulA_of_ok t h).comm a b wa wb

/-- C01, grouping -/
theorem merge_assoc (t : LTy) (h : ok t = true) (a b c : Val t)
    (wa : (sem t).wf a) (wb : (sem t).wf b) (wc : (sem t).wf c) :
    (sem t).eqv ((lat t).merge ((lat t).merge a b).1 c).1 ((lat t).merge a ((lat t).merge b c).1).1 :=
  (lawfulA_of_ok t h).assoc a b c wa wb wc

/-- C01, repetition -/
theorem merge_idem (t : LTy) (h : ok t = true) (a : Val t) (wa : (sem t).wf a) :
    (sem t).eqv ((lat t).merge a a).1 a :=
  (lawfulA_of_ok t h).idem a wa

/-- the merge is an upper bound of both arguments (merging either argument again changes nothing) -/
theorem merge_upper_bound (t : LTy) (h : ok t = true) (a b : Val t)
    (wa : (sem t).wf a) (wb : (sem t).wf b) :
    ((lat t).merge ((lat t).merge a b).1 a).2 = false ∧ ((lat t).merge ((lat t).merge a b).1 b).2 = false :=
  ⟨(lawfulA_of_ok t h).ub_left wa wb, (lawfulA_of_ok t h).ub_right wa wb⟩

/-- conversion between representations (`LatticeFrom`) is the identity on well-formed values, so a
cross-representation `Merge<Other>` is the same function as the self merge -/
theorem latticeFrom_id (t : LTy) (h : ok t = true) (a : Val t) (wa : (sem t).wf a) :
    (lat t).lfrom a = a :=
  (lawfulA_of_ok t h).lfrom_id a wa

/-- point lattices only ever merge equal values (anything else panics), and never change -/
theorem point_merge_eq_only (s o : Nat) (r : Nat × Bool) :
    pointMerge s o = some r ↔ s = o ∧ r = (s, false) := by
  unfold pointMerge
  by_cases h : s = o
  · subst h; simp; exact eq_comm
  · simp [h]

/-- Dominating-pair is a lattice whenever its key lattice is totally ordered: for a key type `k`
with `total k` (Max/Min over integers and bool, `()`, and `WithBot`/`WithTop`/`DomPair` of such)
`DomPair<k, v>` is in the domain of all the theorems above (and of C02/C03), for any value lattice
`v` of the universe — in particular merge is ACI. -/
theorem domPair_lattice_of_total_key (k v : LTy) (hk : total k = true) (hk' : okB k = true)
    (hv : ok v = true) :
    ok (.domPair k v) = true ∧ LawfulA (lat (.domPair k v)) (sem (.domPair k v)) := by
  have h : ok (.domPair k v) = true := by simp [ok, okA, hk, hk']; exact hv
  exact ⟨h, lawfulA_of_ok _ h⟩

/-- …and it is not one for a partially ordered key (the case the doc comment of dom_pair.rs warns
about): with `SetUnion` keys `{1}`, `{2}`, `{1,2}` merge is not associative. -/
theorem domPair_not_assoc_witness :
    let L := lat (.domPair .set (.maxN 255))
    let a : List Nat × Nat := ([1], 5)
    let b : List Nat × Nat := ([2], 0)
    let c : List Nat × Nat := ([1, 2], 0)
    (L.merge (L.merge a b).1 c).1 = (([1, 2], 5) : List Nat × Nat) ∧
      (L.merge a (L.merge b c).1).1 = (([1, 2], 0) : List Nat × Nat) := by
  exact ⟨rfl, rfl⟩

/-- `#[derive(Lattice)]` on a struct: the code the macro emits for three fields computes exactly
the functions of `Pair<A, Pair<B, C>>` (merge, partial_cmp with its early exits, ==, is_bot,
is_top, default, lattice_from), so derived structs are in the domain of every theorem. -/
theorem derived_struct_is_nested_pair (a b c : LTy) :
    lat (.tri a b c) = Lat.pair (lat a) (Lat.pair (lat b) (lat c)) ∧
    (ok a = true → ok b = true → ok c = true → ok (.tri a b c) = true) := by
  refine ⟨tri_eq_pair _ _ _, fun ha hb hc => ?_⟩
  simp only [ok, okA, Bool.and_eq_true]; exact ⟨⟨ha, hb⟩, hc⟩

/-- every nesting depth is covered: the side condition holds for arbitrarily deep towers -/
theorem ok_tower (n : Nat) : ok (Nat.rec LTy.set (fun _ t => LTy.map (LTy.withBot (LTy.vec t))) n) = true := by
  induction n with
  | zero => rfl
  | succ n ih => simpa [ok, okA] using ih

/-! non-vacuity: concrete well-formed values of a depth-3 type with a bottom-valued entry and
a key collision; the merge really changes the receiver -/
def exT : LTy := LTy.map (LTy.withBot (LTy.pair .set (.maxN 255)))
def exA : List (Nat × Option (List Nat × Nat)) := [(1, some ([1, 2], 3)), (2, none)]
def exB : List (Nat × Option (List Nat × Nat)) :=
  [(2, some ([], 0)), (1, some ([2, 3], 1)), (4, some ([7], 0))]

theorem aux_exA_wf : (sem exT).wf exA := by
  refine ⟨by decide, ?_⟩
  show ∀ e ∈ exA, optWf (Sem.prod Sem.set (Sem.bounded 255)) e.2
  intro e he
  simp only [exA, List.mem_cons, List.mem_nil_iff, or_false] at he
  rcases he with rfl | rfl
  · exact ⟨by simp [Sem.set], by simp [Sem.bounded]⟩
  · trivial
theorem aux_exB_wf : (sem exT).wf exB := by
  refine ⟨by decide, ?_⟩
  show ∀ e ∈ exB, optWf (Sem.prod Sem.set (Sem.bounded 255)) e.2
  intro e he
  simp only [exB, List.mem_cons, List.mem_nil_iff, or_false] at he
  rcases he with rfl | rfl | rfl <;> exact ⟨by simp [Sem.set], by simp [Sem.bounded]⟩

example : ok exT = true ∧ (sem exT).wf exA ∧ (sem exT).wf exB ∧
      (lat exT).merge exA exB =
        (([(1, some ([1, 2, 3], 3)), (2, none), (4, some ([7], 0))] : List (Nat × Option (List Nat × Nat))), true) :=
  ⟨rfl, aux_exA_wf, aux_exB_wf, rfl⟩


/-! ### tie to the source: the tables regenerated from lattices/src on every run (`Gen/Tables.lean`,
written by lean/HvLat/translate_tables.py) are the functions of the model -/

open Gen in
theorem gen_withBot_merge (L : Lat β) (s o : Option β) :
    (Lat.withBot L).merge s o = withBotMerge L s o := by
  cases s <;> cases o <;> simp only [Lat.withBot, withBotMerge] <;> try rfl
  all_goals (split <;> rfl)

open Gen in
theorem gen_withTop_merge (L : Lat β) (s o : Option β) :
    (Lat.withTop L).merge s o = withTopMerge L s o := by
  cases s <;> cases o <;> rfl

open Gen in
theorem gen_with_from (L : Lat β) (o : Option β) :
    (Lat.withBot L).lfrom o = withBotFrom L o ∧ (Lat.withTop L).lfrom o = withTopFrom L o := ⟨rfl, rfl⟩

end HvLat
