/-
C06 — Atomization splits a lattice value into mergeable atoms.

Same model and conventions as `Props/C01.lean`.  `atomizable t` are the types with an `Atomize`
impl in the crate that this model covers: `()`, `SetUnion`, `MapUnion<_, V>` (V atomizable),
`WithBot<T>`, `WithTop<T>` (T atomizable), at every nesting depth.  An atom of a set is a
singleton set, of a map a singleton map holding an atom of the value, of `WithBot/WithTop` the
wrapped atom (`WithTop(None)` is its own single atom); in the list model atoms live in the same
carrier as the value.  `mfold L d xs` merges the atoms `xs` into `d` one after the other — what
`check_atomize_each` and the dataflow operators do.
-/
import HvLat.Laws.AtomMap

namespace HvLat

/-- all atoms are well-formed and none of them is bottom -/
theorem atoms_nonbot (t : LTy) (h : atomizable t = true) (a : Val t) (wa : (sem t).wf a) :
    ∀ x ∈ (lat t).atoms a, (sem t).wf x ∧ (lat t).isBot x = false :=
  fun x hx => ⟨(lawfulAt_all t h).1.atoms_wf a wa x hx, (lawfulAt_all t h).1.atoms_nonbot a wa x hx⟩

/-- atomizing yields nothing exactly when the value is bottom -/
theorem atoms_empty_iff_bot (t : LTy) (h : atomizable t = true) (a : Val t) (wa : (sem t).wf a) :
    (lat t).atoms a = [] ↔ (lat t).isBot a = true :=
  (lawfulAt_all t h).1.atoms_empty_iff a wa

/-- merging the atoms back into bottom (any bottom value `d`, in particular `Default::default()`)
reproduces the original value -/
theorem merge_atoms_eq_self (t : LTy) (h : atomizable t = true) (a d : Val t)
    (wa : (sem t).wf a) (wd : (sem t).wf d) (hd : (lat t).isBot d = true) :
    (sem t).eqv (mfold (lat t) d ((lat t).atoms a)) a :=
  (lawfulAt_all t h).1.reform (lawfulAt_all t h).2 a d wa wd hd

/-- more generally, merging the atoms of `a` into any value is merging `a` into it (this is what
makes shipping atoms instead of the value sound) -/
theorem merge_atoms_eq_merge (t : LTy) (h : atomizable t = true) (a acc : Val t)
    (wa : (sem t).wf a) (wacc : (sem t).wf acc) :
    (sem t).eqv (mfold (lat t) acc ((lat t).atoms a)) ((lat t).merge acc a).1 :=
  (lawfulAt_all t h).1.atoms_fold a acc wa wacc

/-- every atom is below the value it came from -/
theorem atoms_below (t : LTy) (h : atomizable t = true) (a : Val t) (wa : (sem t).wf a) :
    ∀ x ∈ (lat t).atoms a, leq (lat t) (sem t) x a :=
  (lawfulAt_all t h).1.atoms_le a wa

/-- the default value of an atomizable type exists, is well-formed and is bottom (so
`merge_atoms_eq_self` applies to `Default::default()`) -/
theorem atomizable_default (t : LTy) (h : atomizable t = true) :
    ∃ d, (lat t).dflt = some d ∧ (sem t).wf d ∧ (lat t).isBot d = true := by
  induction t with
  | unit => exact ⟨(), rfl, trivial, rfl⟩
  | set => exact ⟨([] : List Nat), rfl, List.nodup_nil, rfl⟩
  | map v _ => exact ⟨([] : List (Nat × Val v)), rfl, ⟨by simp, fun e he => nomatch he⟩, rfl⟩
  | withBot v _ => exact ⟨(none : Option (Val v)), rfl, trivial, rfl⟩
  | withTop v ih =>
    obtain ⟨d, hd, wd, bd⟩ := ih (by simpa [atomizable] using h)
    exact ⟨(some d : Option (Val v)), by show ((lat v).dflt.map some) = _; rw [hd]; rfl, wd, bd⟩
  | maxN _ | minN _ | maxI _ | minI _ | maxB | minB | conflict => simp [atomizable] at h
  | vec _ _ => simp [atomizable] at h
  | pair _ _ _ _ => simp [atomizable] at h
  | domPair _ _ _ _ => simp [atomizable] at h
  | tri _ _ _ _ _ _ => simp [atomizable] at h

/-- every nesting depth is covered -/
theorem atomizable_tower (n : Nat) :
    atomizable (Nat.rec LTy.set (fun _ t => LTy.withTop (LTy.map (LTy.withBot t))) n) = true := by
  induction n with
  | zero => rfl
  | succ n ih => simpa [atomizable] using ih

/-! non-vacuity: a nested value with a bottom entry (which yields no atom) and a top entry -/
example :
    let t := LTy.map (LTy.withTop LTy.set)
    let a : List (Nat × Option (List Nat)) := [(1, some [1, 2]), (2, some []), (3, none)]
    atomizable t = true ∧
      (lat t).atoms a = [[(1, some [1])], [(1, some [2])], [(3, none)]] ∧
      mfold (lat t) [] ((lat t).atoms a) = [(1, some [1, 2]), (3, none)] := by
  exact ⟨rfl, rfl, rfl⟩

end HvLat
