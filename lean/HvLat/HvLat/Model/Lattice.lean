/-
Executable model of the `lattices` crate's value-level operations
(`Merge::merge`, `PartialOrd::partial_cmp`, `PartialEq::eq`, `IsBot`, `IsTop`, `Default`,
`LatticeFrom`, `Atomize`) transcribed impl by impl from /repo/lattices/src.

Conventions
* `&mut self` + returned `bool`  ==>  function returning `(new value, changed)`.
* every collection backing (HashSet/BTreeSet/VecSet/ArraySet/OptionSet/SingletonSet and the
  map analogues) is a `List`; a receiver of `extend` (HashSet/BTreeSet/HashMap/BTreeMap) inserts
  only absent keys / overwrites present keys; `get`/`contains` find the first match (what
  `VecSet`, `ArraySet`, `VecMap`, `ArrayMap` do; hash/btree containers have at most one match).
* a lattice *type constructor* is a function `Lat β → Lat (F β)`, so every nesting is covered.
No imports: this file is linked into the native driver.
-/
namespace HvLat

/-- The operations a lattice type of the crate exposes, as data. -/
structure Lat (α : Type) where
  /-- `Merge::merge(&mut self, other) -> bool` -/
  merge : α → α → α × Bool
  /-- `PartialOrd::partial_cmp` -/
  cmp : α → α → Option Ordering
  /-- `PartialEq::eq` -/
  beq : α → α → Bool
  /-- `IsBot::is_bot` -/
  isBot : α → Bool
  /-- `IsTop::is_top` -/
  isTop : α → Bool
  /-- `Default::default()` (`none` when the type has no `Default` impl) -/
  dflt : Option α
  /-- `LatticeFrom::lattice_from` (conversion between representations of the same lattice) -/
  lfrom : α → α
  /-- `Atomize::atomize` (`[]`-valued and unused when the type is not `Atomize`) -/
  atoms : α → List α

/-- `NaiveLatticeOrd::naive_cmp` (lib.rs): comparison derived from the two `changed` flags. -/
def Lat.naive (L : Lat α) (a b : α) : Option Ordering :=
  match (L.merge a b).2, (L.merge b a).2 with
  | true, true => none
  | true, false => some .lt
  | false, true => some .gt
  | false, false => some .eq

/-! ### ord.rs — `Max<uN>`, `Min<uN>`, `Max<bool>`, `Min<bool>` -/

/-- `Max<T>` for an unsigned integer type with `T::MAX = bound`. -/
def Lat.maxN (bound : Nat) : Lat Nat where
  merge s o := if s < o then (o, true) else (s, false)
  cmp s o := some (compare s o)
  beq s o := s == o
  isBot s := s == 0
  isTop s := s == bound
  dflt := some 0
  lfrom o := o
  atoms _ := []

/-- `Min<T>` for an unsigned integer type with `T::MAX = bound`. -/
def Lat.minN (bound : Nat) : Lat Nat where
  merge s o := if o < s then (o, true) else (s, false)
  cmp s o := some (compare s o).swap
  beq s o := s == o
  isBot s := s == bound
  isTop s := s == 0
  dflt := some bound
  lfrom o := o
  atoms _ := []

def intCompare (a b : Int) : Ordering := if a < b then .lt else if a = b then .eq else .gt

/-- `Max<T>` for a signed integer type with `T::MIN = -(h+1)`, `T::MAX = h` -/
def Lat.maxI (h : Nat) : Lat Int where
  merge s o := if s < o then (o, true) else (s, false)
  cmp s o := some (intCompare s o)
  beq s o := s == o
  isBot s := s == -((h : Int) + 1)
  isTop s := s == (h : Int)
  dflt := some (-((h : Int) + 1))
  lfrom o := o
  atoms _ := []

/-- `Min<T>` for a signed integer type with `T::MIN = -(h+1)`, `T::MAX = h` -/
def Lat.minI (h : Nat) : Lat Int where
  merge s o := if o < s then (o, true) else (s, false)
  cmp s o := some (intCompare s o).swap
  beq s o := s == o
  isBot s := s == (h : Int)
  isTop s := s == -((h : Int) + 1)
  dflt := some (h : Int)
  lfrom o := o
  atoms _ := []

def boolLt (a b : Bool) : Bool := !a && b

def boolCompare (a b : Bool) : Ordering :=
  if boolLt a b then .lt else if boolLt b a then .gt else .eq

def Lat.maxB : Lat Bool where
  merge s o := if boolLt s o then (o, true) else (s, false)
  cmp s o := some (boolCompare s o)
  beq s o := s == o
  isBot s := !s
  isTop s := s
  dflt := some false
  lfrom o := o
  atoms _ := []

def Lat.minB : Lat Bool where
  merge s o := if boolLt o s then (o, true) else (s, false)
  cmp s o := some (boolCompare s o).swap
  beq s o := s == o
  isBot s := s
  isTop s := !s
  dflt := some true
  lfrom o := o
  atoms _ := []

/-! ### unit.rs -/

def Lat.unit : Lat Unit where
  merge _ _ := ((), false)
  cmp _ _ := some .eq
  beq _ _ := true
  isBot _ := true
  isTop _ := true
  dflt := some ()
  lfrom o := o
  atoms _ := []

/-! ### conflict.rs — `Conflict<T>` over a scalar `T` (here `Nat`) -/

def Lat.conflict : Lat (Option Nat) where
  merge s o :=
    match s with
    | some vs =>
      -- `other.0.is_none_or(|val_other| val_self != &val_other)`
      if (match o with | none => true | some vo => vs != vo) then (none, true) else (s, false)
    | none => (s, false)
  cmp s o :=
    match s, o with
    | none, none => some .eq
    | none, some _ => some .gt
    | some _, none => some .lt
    | some vs, some vo => if vs == vo then some .eq else none
  beq s o :=
    match s, o with
    | none, none => true
    | some vs, some vo => vs == vo
    | _, _ => false
  isBot _ := false
  isTop s := s.isNone
  dflt := none
  lfrom o := o
  atoms _ := []

/-! ### point.rs — `Point<T, _>`: merge / partial_cmp panic on unequal values (`none` = panic) -/

def pointMerge (s o : Nat) : Option (Nat × Bool) := if s != o then none else some (s, false)
def pointCmp (s o : Nat) : Option (Option Ordering) := if s != o then none else some (some .eq)
def pointEq (s o : Nat) : Bool := s == o

/-! ### set_union.rs — `SetUnion<Set>` -/

/-- `HashSet::insert` / `BTreeSet::insert` as used by `Extend`: absent items are added. -/
def setInsert (s : List Nat) (x : Nat) : List Nat := if s.contains x then s else s ++ [x]

/-- `self.0.extend(other.0)` -/
def setExtend (s o : List Nat) : List Nat := o.foldl setInsert s

def setMerge (s o : List Nat) : List Nat × Bool :=
  let old_len := s.length
  let s' := setExtend s o
  (s', decide (s'.length > old_len))

/-- `SetUnion<Vec<T>>` as the *receiver*: `Vec::extend` appends, so the length always grows when
`other` is non-empty.  (It has no `PartialOrd`, hence is not a `Lattice` in the crate.) -/
def setVecMerge (s o : List Nat) : List Nat × Bool :=
  let s' := s ++ o
  (s', decide (s'.length > s.length))

def setCmp (s o : List Nat) : Option Ordering :=
  match compare s.length o.length with
  | .gt => if o.all (fun k => s.contains k) then some .gt else none
  | .eq => if s.all (fun k => o.contains k) then some .eq else none
  | .lt => if s.all (fun k => o.contains k) then some .lt else none

def setEq (s o : List Nat) : Bool :=
  if s.length != o.length then false else s.all (fun k => o.contains k)

def Lat.set : Lat (List Nat) where
  merge := setMerge
  cmp := setCmp
  beq := setEq
  isBot s := s.isEmpty
  isTop _ := false
  dflt := some []
  lfrom o := setExtend [] o          -- `other.0.into_iter().collect()`
  atoms s := s.map (fun x => [x])    -- `SetUnionSingletonSet::new_from`

/-! ### map_union.rs — `MapUnion<Map>` -/

/-- assignment through `get_mut(&k)` -/
def mapSet (m : List (Nat × β)) (k : Nat) (v : β) : List (Nat × β) :=
  m.map (fun e => if e.1 == k then (e.1, v) else e)

/-- `HashMap::insert` / `BTreeMap::insert` as used by `Extend` / `FromIterator` -/
def mapInsert (m : List (Nat × β)) (k : Nat) (v : β) : List (Nat × β) :=
  if (m.lookup k).isSome then mapSet m k v else m ++ [(k, v)]

def mapExtend (m p : List (Nat × β)) : List (Nat × β) := p.foldl (fun m e => mapInsert m e.1 e.2) m

/-- one step of the `filter(..).filter_map(..)` pipeline of `MapUnion::merge`:
state = (self map, collected new entries, changed) -/
def mapMergeStep (L : Lat β) (st : List (Nat × β) × List (Nat × β) × Bool) (e : Nat × β) :
    List (Nat × β) × List (Nat × β) × Bool :=
  if L.isBot e.2 then st
  else
    match st.1.lookup e.1 with
    | some vs => let r := L.merge vs e.2; (mapSet st.1 e.1 r.1, st.2.1, st.2.2 || r.2)
    | none => (st.1, st.2.1 ++ [(e.1, L.lfrom e.2)], true)

def mapMerge (L : Lat β) (s o : List (Nat × β)) : List (Nat × β) × Bool :=
  let st := o.foldl (mapMergeStep L) (s, [], false)
  (mapExtend st.1 st.2.1, st.2.2)

def finalCmp (selfGreater otherGreater : Bool) : Option Ordering :=
  match selfGreater, otherGreater with
  | true, false => some .gt
  | false, true => some .lt
  | false, false => some .eq
  | true, true => none

/-- non-bottom keys of a map, in iteration order -/
def mapKeysNB (L : Lat β) (m : List (Nat × β)) : List Nat :=
  (m.filter (fun e => !L.isBot e.2)).map (·.1)

def mapCmpLoop (L : Lat β) (s o : List (Nat × β)) : List Nat → Bool → Bool → Option Ordering
  | [], sg, og => finalCmp sg og
  | k :: ks, sg, og =>
    match s.lookup k, o.lookup k with
    | some vs, some vo =>
      match L.cmp vs vo with
      | none => none
      | some .lt => if sg then none else mapCmpLoop L s o ks sg true
      | some .gt => if og then none else mapCmpLoop L s o ks true og
      | some .eq => if sg && og then none else mapCmpLoop L s o ks sg og
    | some _, none => if og then none else mapCmpLoop L s o ks true og
    | none, some _ => if sg then none else mapCmpLoop L s o ks sg true
    | none, none => if sg && og then none else mapCmpLoop L s o ks sg og   -- `unreachable!()` in the code

def mapCmp (L : Lat β) (s o : List (Nat × β)) : Option Ordering :=
  mapCmpLoop L s o (mapKeysNB L s ++ mapKeysNB L o) false false

def mapEqLoop (L : Lat β) (s o : List (Nat × β)) : List Nat → Bool
  | [] => true
  | k :: ks =>
    match s.lookup k, o.lookup k with
    | some vs, some vo => if L.beq vs vo then mapEqLoop L s o ks else false
    | none, none => mapEqLoop L s o ks   -- `unreachable!()` in the code
    | _, _ => false

def mapEq (L : Lat β) (s o : List (Nat × β)) : Bool :=
  mapEqLoop L s o (mapKeysNB L s ++ mapKeysNB L o)

def Lat.map (L : Lat β) : Lat (List (Nat × β)) where
  merge := mapMerge L
  cmp := mapCmp L
  beq := mapEq L
  isBot m := m.all (fun e => L.isBot e.2)
  isTop _ := false
  dflt := some []
  lfrom o := mapExtend [] (o.map (fun e => (e.1, L.lfrom e.2)))
  atoms m := m.flatMap (fun e => (L.atoms e.2).map (fun a => [(e.1, a)]))

/-! ### with_bot.rs — `WithBot<Inner>` -/

def Lat.withBot (L : Lat β) : Lat (Option β) where
  merge s o :=
    match s, o with
    | none, some oi => if !L.isBot oi then (some (L.lfrom oi), true) else (none, false)
    | some si, some oi => let r := L.merge si oi; (some r.1, r.2)
    | s, _ => (s, false)
  cmp s o :=
    match s, o with
    | none, none => some .eq
    | none, some b => if L.isBot b then some .eq else some .lt
    | some b, none => if L.isBot b then some .eq else some .gt
    | some si, some oi => L.cmp si oi
  beq s o :=
    match s, o with
    | none, none => true
    | none, some b => L.isBot b
    | some b, none => L.isBot b
    | some si, some oi => L.beq si oi
  isBot s := match s with | none => true | some i => L.isBot i
  isTop s := match s with | none => false | some i => L.isTop i
  dflt := some none
  lfrom o := o.map L.lfrom
  atoms s := match s with | none => [] | some i => (L.atoms i).map some

/-! ### with_top.rs — `WithTop<Inner>` -/

def Lat.withTop (L : Lat β) : Lat (Option β) where
  merge s o :=
    match s, o with
    | none, none => (none, false)
    | some _, none => (none, true)
    | none, some _ => (none, false)
    | some si, some oi => let r := L.merge si oi; (some r.1, r.2)
  cmp s o :=
    match s, o with
    | none, none => some .eq
    | none, some _ => some .gt
    | some _, none => some .lt
    | some si, some oi => L.cmp si oi
  beq s o :=
    match s, o with
    | none, none => true
    | none, some _ => false
    | some _, none => false
    | some si, some oi => L.beq si oi
  isBot s := match s with | none => false | some i => L.isBot i
  -- `self.0.is_none()`  (after the F1 fix; before it: `is_none_or(IsTop::is_top)`)
  isTop s := s.isNone
  dflt := L.dflt.map some
  lfrom o := o.map L.lfrom
  atoms s := match s with | none => [none] | some i => (L.atoms i).map some

/-! ### pair.rs + lattices_macro (`#[derive(Lattice)]` on a two-field struct) -/

/-- one field of the derived `partial_cmp`: `?` on `None`, flag update, early `return None` -/
def cmpField (c : Option Ordering) (sg og : Bool) (k : Bool → Bool → Option Ordering) : Option Ordering :=
  match c with
  | none => none
  | some o =>
    let sg := sg || o == .gt
    let og := og || o == .lt
    if sg && og then none else k sg og

def Lat.pair (A : Lat α) (B : Lat β) : Lat (α × β) where
  merge s o :=
    let ra := A.merge s.1 o.1
    let rb := B.merge s.2 o.2
    ((ra.1, rb.1), ra.2 || rb.2)
  cmp s o :=
    cmpField (A.cmp s.1 o.1) false false fun sg og =>
    cmpField (B.cmp s.2 o.2) sg og fun sg og => finalCmp sg og
  beq s o := if !A.beq s.1 o.1 then false else if !B.beq s.2 o.2 then false else true
  isBot s := if !A.isBot s.1 then false else if !B.isBot s.2 then false else true
  isTop s := if !A.isTop s.1 then false else if !B.isTop s.2 then false else true
  dflt := match A.dflt, B.dflt with | some a, some b => some (a, b) | _, _ => none
  lfrom o := (A.lfrom o.1, B.lfrom o.2)
  atoms _ := []

/-- `#[derive(Lattice)]` on a struct with three fields (the macro emits the same per-field code
for any number of fields) -/
def Lat.tri (A : Lat α) (B : Lat β) (C : Lat γ) : Lat (α × β × γ) where
  merge s o :=
    let ra := A.merge s.1 o.1
    let rb := B.merge s.2.1 o.2.1
    let rc := C.merge s.2.2 o.2.2
    ((ra.1, rb.1, rc.1), (ra.2 || rb.2) || rc.2)
  cmp s o :=
    cmpField (A.cmp s.1 o.1) false false fun sg og =>
    cmpField (B.cmp s.2.1 o.2.1) sg og fun sg og =>
    cmpField (C.cmp s.2.2 o.2.2) sg og fun sg og => finalCmp sg og
  beq s o :=
    if !A.beq s.1 o.1 then false else if !B.beq s.2.1 o.2.1 then false
    else if !C.beq s.2.2 o.2.2 then false else true
  isBot s :=
    if !A.isBot s.1 then false else if !B.isBot s.2.1 then false
    else if !C.isBot s.2.2 then false else true
  isTop s :=
    if !A.isTop s.1 then false else if !B.isTop s.2.1 then false
    else if !C.isTop s.2.2 then false else true
  dflt := match A.dflt, B.dflt, C.dflt with | some a, some b, some c => some (a, b, c) | _, _, _ => none
  lfrom o := (A.lfrom o.1, B.lfrom o.2.1, C.lfrom o.2.2)
  atoms _ := []

/-! ### dom_pair.rs — `DomPair<Key, Val>` -/

def Lat.domPair (K : Lat α) (V : Lat β) : Lat (α × β) where
  merge s o :=
    match K.cmp s.1 o.1 with
    | none =>
      -- `assert!(self.key.merge(other.key)); self.val.merge(other.val); true`
      ((( K.merge s.1 o.1).1, (V.merge s.2 o.2).1), true)
    | some .eq => let r := V.merge s.2 o.2; ((s.1, r.1), r.2)
    | some .lt => ((K.lfrom o.1, V.lfrom o.2), true)
    | some .gt => (s, false)
  cmp s o :=
    match K.cmp s.1 o.1 with
    | some .eq => V.cmp s.2 o.2
    | otherwise => otherwise
  beq s o := if !K.beq s.1 o.1 then false else if !V.beq s.2 o.2 then false else true
  isBot s := K.isBot s.1 && V.isBot s.2
  isTop s := K.isTop s.1 && V.isTop s.2
  dflt := match K.dflt, V.dflt with | some a, some b => some (a, b) | _, _ => none
  lfrom o := (K.lfrom o.1, V.lfrom o.2)
  atoms _ := []

/-! ### vec_union.rs — `VecUnion<Lat>` -/

/-- `for (self_val, other_val) in self.vec.iter_mut().zip(other.vec) { changed |= .. }` -/
def vecZipMerge (L : Lat β) : List β → List β → List β × Bool
  | s :: ss, o :: os =>
    let r := L.merge s o
    let rest := vecZipMerge L ss os
    (r.1 :: rest.1, r.2 || rest.2)
  | ss, [] => (ss, false)
  | [], _ :: _ => ([], false)

def vecMerge (L : Lat β) (s o : List β) : List β × Bool :=
  if s.length < o.length then
    -- `other.vec.drain(self.vec.len()..)` appended (converted); `other` keeps the prefix
    let s' := s ++ (o.drop s.length).map L.lfrom
    let r := vecZipMerge L s' (o.take s.length)
    (r.1, true || r.2)
  else
    let r := vecZipMerge L s o
    (r.1, false || r.2)

def vecCmpLoop (L : Lat β) : List β → List β → Bool → Bool → Option Ordering
  | s :: ss, o :: os, sg, og =>
    match L.cmp s o with
    | none => none
    | some .lt => if sg then none else vecCmpLoop L ss os sg true
    | some .gt => if og then none else vecCmpLoop L ss os true og
    | some .eq => if sg && og then none else vecCmpLoop L ss os sg og
  | _, _, sg, og => finalCmp sg og

def vecCmp (L : Lat β) (s o : List β) : Option Ordering :=
  vecCmpLoop L s o (decide (o.length < s.length)) (decide (s.length < o.length))

def vecEqLoop (L : Lat β) : List β → List β → Bool
  | s :: ss, o :: os => L.beq s o && vecEqLoop L ss os
  | _, _ => true

def vecEq (L : Lat β) (s o : List β) : Bool :=
  if s.length != o.length then false else vecEqLoop L s o

def Lat.vec (L : Lat β) : Lat (List β) where
  merge := vecMerge L
  cmp := vecCmp L
  beq := vecEq L
  isBot s := s.isEmpty
  isTop _ := false
  dflt := some []
  lfrom o := o.map L.lfrom
  atoms _ := []

/-! ### the universe of shipped lattice types and their nestings -/

inductive LTy where
  | maxN (bound : Nat) | minN (bound : Nat) | maxI (h : Nat) | minI (h : Nat) | maxB | minB | unit | conflict
  | set | map (v : LTy) | withBot (t : LTy) | withTop (t : LTy)
  | pair (a b : LTy) | domPair (k v : LTy) | vec (t : LTy) | tri (a b c : LTy)
  deriving DecidableEq, Repr

def Val : LTy → Type
  | .maxN _ => Nat
  | .minN _ => Nat
  | .maxI _ => Int
  | .minI _ => Int
  | .maxB => Bool
  | .minB => Bool
  | .unit => Unit
  | .conflict => Option Nat
  | .set => List Nat
  | .map v => List (Nat × Val v)
  | .withBot t => Option (Val t)
  | .withTop t => Option (Val t)
  | .pair a b => Val a × Val b
  | .domPair a b => Val a × Val b
  | .vec t => List (Val t)
  | .tri a b c => Val a × Val b × Val c

def lat : (t : LTy) → Lat (Val t)
  | .maxN b => Lat.maxN b
  | .minN b => Lat.minN b
  | .maxI h => Lat.maxI h
  | .minI h => Lat.minI h
  | .maxB => Lat.maxB
  | .minB => Lat.minB
  | .unit => Lat.unit
  | .conflict => Lat.conflict
  | .set => Lat.set
  | .map v => Lat.map (lat v)
  | .withBot t => Lat.withBot (lat t)
  | .withTop t => Lat.withTop (lat t)
  | .pair a b => Lat.pair (lat a) (lat b)
  | .domPair a b => Lat.domPair (lat a) (lat b)
  | .vec t => Lat.vec (lat t)
  | .tri a b c => Lat.tri (lat a) (lat b) (lat c)

/-- which types implement `Atomize` (set, map of atomizable, with-bot/with-top of atomizable, unit) -/
def atomizable : LTy → Bool
  | .set => true
  | .unit => true
  | .map v => atomizable v
  | .withBot t => atomizable t
  | .withTop t => atomizable t
  | _ => false

/-! ### well-formedness and semantic equivalence -/

/-- `wf`: the documented preconditions of the backings (duplicate-free sets / key lists, numeric
range of the element type); `eqv`: "same lattice value". -/
structure Sem (α : Type) where
  wf : α → Prop
  eqv : α → α → Prop

def Sem.leaf (α : Type) : Sem α := ⟨fun _ => True, fun a b => a = b⟩
def Sem.bounded (bound : Nat) : Sem Nat := ⟨fun a => a ≤ bound, fun a b => a = b⟩
def Sem.boundedI (h : Nat) : Sem Int := ⟨fun a => -((h : Int) + 1) ≤ a ∧ a ≤ (h : Int), fun a b => a = b⟩

def Sem.set : Sem (List Nat) := ⟨fun s => s.Nodup, fun a b => ∀ x, x ∈ a ↔ x ∈ b⟩

/-- equivalence of optional values where "absent" and "bottom" coincide (map entries, `WithBot`) -/
def optEqv (L : Lat β) (S : Sem β) : Option β → Option β → Prop
  | none, none => True
  | none, some y => L.isBot y = true
  | some x, none => L.isBot x = true
  | some x, some y => S.eqv x y

def optWf (S : Sem β) : Option β → Prop
  | none => True
  | some x => S.wf x

def Sem.map (L : Lat β) (S : Sem β) : Sem (List (Nat × β)) :=
  ⟨fun m => (m.map (·.1)).Nodup ∧ ∀ e ∈ m, S.wf e.2,
   fun a b => ∀ k, optEqv L S (a.lookup k) (b.lookup k)⟩

def Sem.withBot (L : Lat β) (S : Sem β) : Sem (Option β) := ⟨optWf S, optEqv L S⟩

def Sem.withTop (S : Sem β) : Sem (Option β) :=
  ⟨optWf S, fun a b => match a, b with
    | none, none => True
    | some x, some y => S.eqv x y
    | _, _ => False⟩

def Sem.prod (A : Sem α) (B : Sem β) : Sem (α × β) :=
  ⟨fun p => A.wf p.1 ∧ B.wf p.2, fun p q => A.eqv p.1 q.1 ∧ B.eqv p.2 q.2⟩

def listEqv (S : Sem β) : List β → List β → Prop
  | [], [] => True
  | x :: xs, y :: ys => S.eqv x y ∧ listEqv S xs ys
  | _, _ => False

def Sem.vec (S : Sem β) : Sem (List β) := ⟨fun l => ∀ x ∈ l, S.wf x, listEqv S⟩

def sem : (t : LTy) → Sem (Val t)
  | .maxN b => Sem.bounded b
  | .minN b => Sem.bounded b
  | .maxI h => Sem.boundedI h
  | .minI h => Sem.boundedI h
  | .maxB => Sem.leaf Bool
  | .minB => Sem.leaf Bool
  | .unit => Sem.leaf Unit
  | .conflict => Sem.leaf (Option Nat)
  | .set => Sem.set
  | .map v => Sem.map (lat v) (sem v)
  | .withBot t => Sem.withBot (lat t) (sem t)
  | .withTop t => Sem.withTop (sem t)
  | .pair a b => Sem.prod (sem a) (sem b)
  | .domPair a b => Sem.prod (sem a) (sem b)
  | .vec t => Sem.vec (sem t)
  | .tri a b c => Sem.prod (sem a) (Sem.prod (sem b) (sem c))

end HvLat
