import HvLat.Laws.BasicB

namespace HvLat

theorem lawfulA_maxI (h : Nat) : LawfulA (Lat.maxI h) (Sem.boundedI h) where
  inh := ⟨0, by simp [Sem.boundedI]; omega⟩
  refl := by intros; rfl
  symm := by intro a b _ _ e; exact e.symm
  trans := by intro a b c _ _ _ e1 e2; exact e1.trans e2
  merge_wf := by intro a b wa wb; simp only [Lat.maxI, Sem.boundedI] at *; split <;> assumption
  merge_congr := by intro a a' b b' _ _ _ _ e1 e2; simp only [Sem.boundedI] at e1 e2; subst e1 e2; rfl
  comm := by intro a b _ _; simp only [Lat.maxI, Sem.boundedI]; split <;> split <;> simp <;> omega
  assoc := by
    intro a b c _ _ _; simp only [Lat.maxI, Sem.boundedI]
    by_cases h1 : a < b <;> by_cases h2 : b < c <;> by_cases h3 : a < c <;> simp [h1, h2, h3] <;> omega
  idem := by intro a _; simp [Lat.maxI, Sem.boundedI]
  flag := by intro a b _ _; simp only [Lat.maxI, Sem.boundedI]; split <;> simp <;> omega
  isBot_iff := by
    intro a wa; simp only [Lat.maxI, Sem.boundedI] at *
    constructor
    · intro hh b wb; have : a = -((h : Int) + 1) := by simpa using hh
      have : ¬ b < a := by omega
      simp [this]
    · intro hh; have := hh (-((h : Int) + 1)) (by omega)
      by_cases h0 : -((h : Int) + 1) < a <;> simp [h0] at this ⊢; omega
  lfrom_id := by intros; rfl

theorem lawfulA_minI (h : Nat) : LawfulA (Lat.minI h) (Sem.boundedI h) where
  inh := ⟨0, by simp [Sem.boundedI]; omega⟩
  refl := by intros; rfl
  symm := by intro a b _ _ e; exact e.symm
  trans := by intro a b c _ _ _ e1 e2; exact e1.trans e2
  merge_wf := by intro a b wa wb; simp only [Lat.minI, Sem.boundedI] at *; split <;> assumption
  merge_congr := by intro a a' b b' _ _ _ _ e1 e2; simp only [Sem.boundedI] at e1 e2; subst e1 e2; rfl
  comm := by intro a b _ _; simp only [Lat.minI, Sem.boundedI]; split <;> split <;> simp <;> omega
  assoc := by
    intro a b c _ _ _; simp only [Lat.minI, Sem.boundedI]
    by_cases h1 : b < a <;> by_cases h2 : c < b <;> by_cases h3 : c < a <;> simp [h1, h2, h3] <;> omega
  idem := by intro a _; simp [Lat.minI, Sem.boundedI]
  flag := by intro a b _ _; simp only [Lat.minI, Sem.boundedI]; split <;> simp <;> omega
  isBot_iff := by
    intro a wa; simp only [Lat.minI, Sem.boundedI] at *
    constructor
    · intro hh b wb; have : a = (h : Int) := by simpa using hh
      have : ¬ a < b := by omega
      simp [this]
    · intro hh; have := hh (h : Int) (by omega)
      by_cases h0 : a < (h : Int) <;> simp [h0] at this ⊢; omega
  lfrom_id := by intros; rfl

theorem lawfulB_maxI (h : Nat) : LawfulB (Lat.maxI h) (Sem.boundedI h) where
  cmp_naive := by
    intro a b _ _
    simp only [Lat.maxI, Lat.naive, intCompare]
    by_cases h1 : a < b <;> by_cases h2 : b < a <;> by_cases h3 : a = b <;> simp [h1, h2, h3] <;> omega
  beq_iff := by intro a b _ _; simp [Lat.maxI, Sem.boundedI]
  isTop_iff := by
    intro a wa; simp only [Lat.maxI, Sem.boundedI] at *
    constructor
    · intro hh b wb; have : a = (h : Int) := by simpa using hh
      have : ¬ a < b := by omega
      simp [this]
    · intro hh; have := hh (h : Int) (by omega)
      by_cases h0 : a < (h : Int) <;> simp [h0] at this ⊢; omega
  dflt_bot := by intro d hd; simp [Lat.maxI] at hd; subst hd; simp [Lat.maxI, Sem.boundedI]; omega

theorem lawfulB_minI (h : Nat) : LawfulB (Lat.minI h) (Sem.boundedI h) where
  cmp_naive := by
    intro a b _ _
    simp only [Lat.minI, Lat.naive, intCompare]
    by_cases h1 : a < b <;> by_cases h2 : b < a <;> by_cases h3 : a = b <;>
      simp [h1, h2, h3, Ordering.swap] <;> omega
  beq_iff := by intro a b _ _; simp [Lat.minI, Sem.boundedI]
  isTop_iff := by
    intro a wa; simp only [Lat.minI, Sem.boundedI] at *
    constructor
    · intro hh b wb; have : a = -((h : Int) + 1) := by simpa using hh
      have : ¬ b < a := by omega
      simp [this]
    · intro hh; have := hh (-((h : Int) + 1)) (by omega)
      by_cases h0 : -((h : Int) + 1) < a <;> simp [h0] at this ⊢; omega
  dflt_bot := by intro d hd; simp [Lat.minI] at hd; subst hd; simp [Lat.minI, Sem.boundedI]; omega

end HvLat
