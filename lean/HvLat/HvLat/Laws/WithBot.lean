import HvLat.Laws.Basic

namespace HvLat
variable {L : Lat β} {S : Sem β}

theorem aux_optEqv_refl (h : LawfulA L S) (a : Option β) (wa : optWf S a) : optEqv L S a a := by
  cases a with
  | none => trivial
  | some x => exact h.refl x wa

theorem aux_optEqv_symm (h : LawfulA L S) (a b : Option β) (wa : optWf S a) (wb : optWf S b)
    (e : optEqv L S a b) : optEqv L S b a := by
  cases a <;> cases b <;> simp only [optEqv] at e ⊢
  · exact e
  · exact e
  · exact h.symm _ _ wa wb e

theorem aux_optEqv_trans (h : LawfulA L S) (a b c : Option β) (wa : optWf S a) (wb : optWf S b)
    (wc : optWf S c) (e1 : optEqv L S a b) (e2 : optEqv L S b c) : optEqv L S a c := by
  cases a <;> cases b <;> cases c <;> simp only [optEqv, optWf] at *
  · exact e2
  · rw [← h.isBot_congr wb wc e2]; exact e1
  · exact e1
  · exact h.bots_eqv wa wc e1 e2
  · rw [h.isBot_congr wa wb e1]; exact e2
  · exact h.trans _ _ _ wa wb wc e1 e2

theorem aux_wb_isBot_congr (h : LawfulA L S) (a b : Option β) (wa : optWf S a) (wb : optWf S b)
    (e : optEqv L S a b) : (Lat.withBot L).isBot a = (Lat.withBot L).isBot b := by
  cases a <;> cases b <;> simp only [optEqv, optWf, Lat.withBot] at *
  · exact e.symm
  · exact e
  · exact h.isBot_congr wa wb e

theorem aux_wb_merge_wf (h : LawfulA L S) (s o : Option β) (ws : optWf S s) (wo : optWf S o) :
    optWf S ((Lat.withBot L).merge s o).1 := by
  cases s <;> cases o <;> simp only [optWf, Lat.withBot] at *
  · rename_i y
    cases hb : L.isBot y <;> simp [optWf]
    rw [h.lfrom_id _ wo]; exact wo
  · exact ws
  · exact h.merge_wf _ _ ws wo

/-- merging a bottom in: no change -/
theorem aux_wb_bot_right (h : LawfulA L S) (s o : Option β) (ws : optWf S s) (wo : optWf S o)
    (ho : (Lat.withBot L).isBot o = true) :
    ((Lat.withBot L).merge s o).2 = false ∧ optEqv L S ((Lat.withBot L).merge s o).1 s := by
  cases s <;> cases o <;> simp only [optWf, optEqv, Lat.withBot] at *
  · simp
  · simp [ho, optEqv]
  · exact ⟨trivial, h.refl _ ws⟩
  · exact h.bot_right ws wo ho

/-- merging into a bottom: the result is the argument -/
theorem aux_wb_bot_left (h : LawfulA L S) (s o : Option β) (ws : optWf S s) (wo : optWf S o)
    (hs : (Lat.withBot L).isBot s = true) :
    optEqv L S ((Lat.withBot L).merge s o).1 o := by
  cases s <;> cases o <;> simp only [optWf, optEqv, Lat.withBot] at *
  · cases hb : L.isBot ‹β›
    · simp only [Bool.not_false, if_true, optEqv]; rw [h.lfrom_id _ wo]; exact h.refl _ wo
    · simp [optEqv, hb]
  · exact hs
  · exact h.bot_left ws wo hs

theorem aux_wb_nonbot (s : Option β) (hs : (Lat.withBot L).isBot s = false) :
    ∃ x, s = some x ∧ L.isBot x = false := by
  cases s with
  | none => simp [Lat.withBot] at hs
  | some x => exact ⟨x, rfl, by simpa [Lat.withBot] using hs⟩

theorem aux_wb_congr (h : LawfulA L S) (s s' o o' : Option β)
    (ws : optWf S s) (ws' : optWf S s') (wo : optWf S o) (wo' : optWf S o')
    (e1 : optEqv L S s s') (e2 : optEqv L S o o') :
    optEqv L S ((Lat.withBot L).merge s o).1 ((Lat.withBot L).merge s' o').1 := by
  have wm := aux_wb_merge_wf h s o ws wo
  have wm' := aux_wb_merge_wf h s' o' ws' wo'
  have bo := aux_wb_isBot_congr h o o' wo wo' e2
  have bs := aux_wb_isBot_congr h s s' ws ws' e1
  cases ho : (Lat.withBot L).isBot o
  · cases hs : (Lat.withBot L).isBot s
    · obtain ⟨x, rfl, _⟩ := aux_wb_nonbot s hs
      obtain ⟨y, rfl, _⟩ := aux_wb_nonbot o ho
      obtain ⟨x', rfl, _⟩ := aux_wb_nonbot s' (bs ▸ hs)
      obtain ⟨y', rfl, _⟩ := aux_wb_nonbot o' (bo ▸ ho)
      exact h.merge_congr _ _ _ _ ws ws' wo wo' e1 e2
    · have a1 := aux_wb_bot_left h s o ws wo hs
      have a2 := aux_wb_bot_left h s' o' ws' wo' (bs ▸ hs)
      exact aux_optEqv_trans h _ _ _ wm wo wm' a1
        (aux_optEqv_trans h _ _ _ wo wo' wm' e2 (aux_optEqv_symm h _ _ wm' wo' a2))
  · have a1 := (aux_wb_bot_right h s o ws wo ho).2
    have a2 := (aux_wb_bot_right h s' o' ws' wo' (bo ▸ ho)).2
    exact aux_optEqv_trans h _ _ _ wm ws wm' a1
      (aux_optEqv_trans h _ _ _ ws ws' wm' e1 (aux_optEqv_symm h _ _ wm' ws' a2))

theorem lawfulA_withBot (h : LawfulA L S) : LawfulA (Lat.withBot L) (Sem.withBot L S) where
  inh := ⟨none, trivial⟩
  refl := aux_optEqv_refl h
  symm := aux_optEqv_symm h
  trans := aux_optEqv_trans h
  merge_wf := aux_wb_merge_wf h
  merge_congr := aux_wb_congr h
  comm := by
    intro s o ws wo
    have wm := aux_wb_merge_wf h s o ws wo
    have wm' := aux_wb_merge_wf h o s wo ws
    cases ho : (Lat.withBot L).isBot o
    · cases hs : (Lat.withBot L).isBot s
      · obtain ⟨x, rfl, _⟩ := aux_wb_nonbot s hs
        obtain ⟨y, rfl, _⟩ := aux_wb_nonbot o ho
        exact h.comm _ _ ws wo
      · exact aux_optEqv_trans h _ _ _ wm wo wm' (aux_wb_bot_left h s o ws wo hs)
          (aux_optEqv_symm h _ _ wm' wo (aux_wb_bot_right h o s wo ws hs).2)
    · exact aux_optEqv_trans h _ _ _ wm ws wm' (aux_wb_bot_right h s o ws wo ho).2
        (aux_optEqv_symm h _ _ wm' ws (aux_wb_bot_left h o s wo ws ho))
  assoc := by
    intro s o t ws wo wt
    have wso := aux_wb_merge_wf h s o ws wo
    have wot := aux_wb_merge_wf h o t wo wt
    have wl := aux_wb_merge_wf h _ t wso wt
    have wr := aux_wb_merge_wf h s _ ws wot
    have rs := aux_optEqv_refl h s ws
    have rt := aux_optEqv_refl h t wt
    cases ht : (Lat.withBot L).isBot t
    · cases ho : (Lat.withBot L).isBot o
      · cases hs : (Lat.withBot L).isBot s
        · obtain ⟨x, rfl, _⟩ := aux_wb_nonbot s hs
          obtain ⟨y, rfl, _⟩ := aux_wb_nonbot o ho
          obtain ⟨z, rfl, _⟩ := aux_wb_nonbot t ht
          exact h.assoc _ _ _ ws wo wt
        · -- s bottom: both sides ≈ o ⊔ t
          have e1 := aux_wb_congr h _ o t t wso wo wt wt (aux_wb_bot_left h s o ws wo hs) rt
          have e2 := aux_wb_bot_left h s _ ws wot hs
          exact aux_optEqv_trans h _ _ _ wl wot wr e1 (aux_optEqv_symm h _ _ wr wot e2)
      · -- o bottom: both sides ≈ s ⊔ t
        have wst := aux_wb_merge_wf h s t ws wt
        have e1 := aux_wb_congr h _ s t t wso ws wt wt (aux_wb_bot_right h s o ws wo ho).2 rt
        have e2 := aux_wb_congr h s s _ t ws ws wot wt rs (aux_wb_bot_left h o t wo wt ho)
        exact aux_optEqv_trans h _ _ _ wl wst wr e1 (aux_optEqv_symm h _ _ wr wst e2)
    · -- t bottom: both sides ≈ s ⊔ o
      have e1 := (aux_wb_bot_right h _ t wso wt ht).2
      have e2 := aux_wb_congr h s s _ o ws ws wot wo rs (aux_wb_bot_right h o t wo wt ht).2
      exact aux_optEqv_trans h _ _ _ wl wso wr e1 (aux_optEqv_symm h _ _ wr wso e2)
  idem := by
    intro s ws
    cases s with
    | none => trivial
    | some x => exact h.idem x ws
  flag := by
    intro s o ws wo
    cases ho : (Lat.withBot L).isBot o
    · obtain ⟨y, rfl, hy⟩ := aux_wb_nonbot o ho
      cases s with
      | none => simp [Lat.withBot, Sem.withBot, hy, optEqv]; rw [h.lfrom_id _ wo]; simp [hy]
      | some x => exact h.flag x y ws wo
    · have := aux_wb_bot_right h s o ws wo ho
      exact ⟨fun _ => this.2, fun _ => this.1⟩
  isBot_iff := by
    intro a wa
    constructor
    · intro ha b wb; exact (aux_wb_bot_right h b a wb wa ha).1
    · intro hall
      cases a with
      | none => rfl
      | some y =>
        have := hall none trivial
        simp only [Lat.withBot] at this ⊢
        cases hy : L.isBot y
        · simp [hy] at this
        · rfl
  lfrom_id := by
    intro a wa
    cases a with
    | none => rfl
    | some x => simp only [Lat.withBot, Option.map]; rw [h.lfrom_id x wa]

end HvLat
