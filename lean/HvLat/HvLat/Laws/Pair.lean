import HvLat.Laws.Basic

namespace HvLat
variable {A : Lat α} {B : Lat β} {SA : Sem α} {SB : Sem β}

theorem aux_pair_isBot (a : α × β) : (Lat.pair A B).isBot a = (A.isBot a.1 && B.isBot a.2) := by
  simp only [Lat.pair]; cases A.isBot a.1 <;> cases B.isBot a.2 <;> rfl

theorem lawfulA_pair (ha : LawfulA A SA) (hb : LawfulA B SB) :
    LawfulA (Lat.pair A B) (Sem.prod SA SB) where
  inh := by
    obtain ⟨a, wa⟩ := ha.inh; obtain ⟨b, wb⟩ := hb.inh; exact ⟨(a, b), wa, wb⟩
  refl := by intro a wa; exact ⟨ha.refl _ wa.1, hb.refl _ wa.2⟩
  symm := by intro a b wa wb e; exact ⟨ha.symm _ _ wa.1 wb.1 e.1, hb.symm _ _ wa.2 wb.2 e.2⟩
  trans := by
    intro a b c wa wb wc e1 e2
    exact ⟨ha.trans _ _ _ wa.1 wb.1 wc.1 e1.1 e2.1, hb.trans _ _ _ wa.2 wb.2 wc.2 e1.2 e2.2⟩
  merge_wf := by intro a b wa wb; exact ⟨ha.merge_wf _ _ wa.1 wb.1, hb.merge_wf _ _ wa.2 wb.2⟩
  merge_congr := by
    intro a a' b b' wa wa' wb wb' e1 e2
    exact ⟨ha.merge_congr _ _ _ _ wa.1 wa'.1 wb.1 wb'.1 e1.1 e2.1,
           hb.merge_congr _ _ _ _ wa.2 wa'.2 wb.2 wb'.2 e1.2 e2.2⟩
  comm := by intro a b wa wb; exact ⟨ha.comm _ _ wa.1 wb.1, hb.comm _ _ wa.2 wb.2⟩
  assoc := by
    intro a b c wa wb wc
    exact ⟨ha.assoc _ _ _ wa.1 wb.1 wc.1, hb.assoc _ _ _ wa.2 wb.2 wc.2⟩
  idem := by intro a wa; exact ⟨ha.idem _ wa.1, hb.idem _ wa.2⟩
  flag := by
    intro a b wa wb
    show ((A.merge a.1 b.1).2 || (B.merge a.2 b.2).2) = false ↔
      SA.eqv (A.merge a.1 b.1).1 a.1 ∧ SB.eqv (B.merge a.2 b.2).1 a.2
    rw [← ha.flag _ _ wa.1 wb.1, ← hb.flag _ _ wa.2 wb.2]
    cases (A.merge a.1 b.1).2 <;> cases (B.merge a.2 b.2).2 <;> simp
  isBot_iff := by
    intro a wa
    rw [aux_pair_isBot]
    show (A.isBot a.1 && B.isBot a.2) = true ↔
      ∀ c : α × β, (SA.wf c.1 ∧ SB.wf c.2) → ((A.merge c.1 a.1).2 || (B.merge c.2 a.2).2) = false
    constructor
    · intro hh c wc
      simp only [Bool.and_eq_true] at hh
      rw [(ha.isBot_iff _ wa.1).1 hh.1 c.1 wc.1, (hb.isBot_iff _ wa.2).1 hh.2 c.2 wc.2]; rfl
    · intro hall
      obtain ⟨a0, wa0⟩ := ha.inh; obtain ⟨b0, wb0⟩ := hb.inh
      have h1 : A.isBot a.1 = true := by
        rw [ha.isBot_iff _ wa.1]; intro c wc
        have := hall (c, b0) ⟨wc, wb0⟩
        simp only [Bool.or_eq_false_iff] at this; exact this.1
      have h2 : B.isBot a.2 = true := by
        rw [hb.isBot_iff _ wa.2]; intro c wc
        have := hall (a0, c) ⟨wa0, wc⟩
        simp only [Bool.or_eq_false_iff] at this; exact this.2
      simp [h1, h2]
  lfrom_id := by
    intro a wa
    show (A.lfrom a.1, B.lfrom a.2) = a
    rw [ha.lfrom_id _ wa.1, hb.lfrom_id _ wa.2]

end HvLat
