import HvLat.Laws.Basic
import Mathlib.Tactic.Tauto

namespace HvLat

theorem aux_setInsert_mem (s : List Nat) (x y : Nat) : y ∈ setInsert s x ↔ y ∈ s ∨ y = x := by
  unfold setInsert; split
  · rename_i h; simp at h; constructor
    · intro h'; exact Or.inl h'
    · rintro (h' | h') <;> simp_all
  · simp

theorem aux_setInsert_nodup (s : List Nat) (x : Nat) (h : s.Nodup) : (setInsert s x).Nodup := by
  unfold setInsert; split
  · exact h
  · rename_i hx; simp at hx
    rw [List.nodup_append]; refine ⟨h, by simp, ?_⟩
    intro a ha b hb; simp at hb; subst hb; intro e; subst e; exact hx ha

theorem aux_setInsert_len (s : List Nat) (x : Nat) :
    (setInsert s x).length = if x ∈ s then s.length else s.length + 1 := by
  unfold setInsert; split <;> rename_i h <;> simp at h <;> simp [h]

theorem aux_setExtend_mem (o s : List Nat) (y : Nat) : y ∈ setExtend s o ↔ y ∈ s ∨ y ∈ o := by
  induction o generalizing s with
  | nil => simp [setExtend]
  | cons x o ih =>
    have := ih (setInsert s x)
    simp only [setExtend, List.foldl_cons] at this ⊢
    rw [this, aux_setInsert_mem]; simp; tauto

theorem aux_setExtend_nodup (o s : List Nat) (h : s.Nodup) : (setExtend s o).Nodup := by
  induction o generalizing s with
  | nil => simpa [setExtend]
  | cons x o ih =>
    simp only [setExtend, List.foldl_cons]
    exact ih _ (aux_setInsert_nodup s x h)

theorem aux_setExtend_len_ge (o s : List Nat) : s.length ≤ (setExtend s o).length := by
  induction o generalizing s with
  | nil => simp [setExtend]
  | cons x o ih =>
    have := ih (setInsert s x)
    simp only [setExtend, List.foldl_cons] at this ⊢
    have h2 := aux_setInsert_len s x
    split at h2 <;> omega

/-- the length-based change detection of `SetUnion::merge` is exact -/
theorem aux_setExtend_len_eq_iff (o s : List Nat) :
    (setExtend s o).length = s.length ↔ ∀ x ∈ o, x ∈ s := by
  induction o generalizing s with
  | nil => simp [setExtend]
  | cons x o ih =>
    have h1 := ih (setInsert s x)
    have hge := aux_setExtend_len_ge o (setInsert s x)
    have h2 := aux_setInsert_len s x
    simp only [setExtend, List.foldl_cons] at h1 hge ⊢
    by_cases hx : x ∈ s
    · have e : setInsert s x = s := by simp [setInsert, hx]
      rw [e] at h1; rw [e, h1]; simp [hx]
    · simp only [hx, if_false] at h2
      constructor
      · intro h; omega
      · intro h; exact absurd (h x (by simp)) hx

theorem aux_setExtend_append (o s : List Nat) (h : (s ++ o).Nodup) : setExtend s o = s ++ o := by
  induction o generalizing s with
  | nil => simp [setExtend]
  | cons x o ih =>
    have hx : x ∉ s := by
      intro hx; rw [List.nodup_append] at h
      exact h.2.2 x hx x (by simp) rfl
    have e : setInsert s x = s ++ [x] := by simp [setInsert, hx]
    simp only [setExtend, List.foldl_cons, e]
    have := ih (s ++ [x]) (by simpa using h)
    simpa [setExtend] using this

theorem aux_setMerge_flag (s o : List Nat) : (setMerge s o).2 = false ↔ ∀ x ∈ o, x ∈ s := by
  have hge := aux_setExtend_len_ge o s
  have := aux_setExtend_len_eq_iff o s
  simp only [setMerge, decide_eq_false_iff_not]
  rw [← this]; omega

theorem lawfulA_set : LawfulA Lat.set Sem.set where
  inh := ⟨[], List.nodup_nil⟩
  refl := by intro a _ x; rfl
  symm := by intro a b _ _ e x; exact (e x).symm
  trans := by intro a b c _ _ _ e1 e2 x; exact (e1 x).trans (e2 x)
  merge_wf := by intro a b wa _; exact aux_setExtend_nodup b a wa
  merge_congr := by
    intro a a' b b' _ _ _ _ e1 e2 x
    simp only [Lat.set, setMerge, aux_setExtend_mem, e1 x, e2 x]
  comm := by
    intro a b _ _ x
    simp only [Lat.set, setMerge, aux_setExtend_mem]; tauto
  assoc := by
    intro a b c _ _ _ x
    simp only [Lat.set, setMerge, aux_setExtend_mem]; tauto
  idem := by
    intro a _ x
    simp only [Lat.set, setMerge, aux_setExtend_mem]; tauto
  flag := by
    intro a b _ _
    show (setMerge a b).2 = false ↔ ∀ x, x ∈ (setMerge a b).1 ↔ x ∈ a
    rw [aux_setMerge_flag]
    simp only [setMerge, aux_setExtend_mem]
    constructor
    · intro h x; constructor
      · rintro (h' | h'); exact h'; exact h x h'
      · intro h'; exact Or.inl h'
    · intro h x hx; exact (h x).1 (Or.inr hx)
  isBot_iff := by
    intro a _
    show a.isEmpty = true ↔ ∀ b, b.Nodup → (setMerge b a).2 = false
    simp only [aux_setMerge_flag]
    constructor
    · intro h b _ x hx; simp at h; subst h; cases hx
    · intro h
      have := h [] List.nodup_nil
      cases a with
      | nil => rfl
      | cons x a => exact absurd (this x (by simp)) (by simp)
  lfrom_id := by
    intro a wa
    show setExtend [] a = a
    simpa using aux_setExtend_append a [] (by simpa using (show a.Nodup from wa))

end HvLat
