import HvLat.Laws.Atom
import HvLat.Laws.Map

namespace HvLat
variable {L : Lat β} {S : Sem β}

theorem aux_wb_mfold_nones (s : Option β) (xs : List (Option β)) (hx : ∀ x ∈ xs, x = none) :
    mfold (Lat.withBot L) s xs = s := by
  induction xs with
  | nil => rfl
  | cons x xs ih =>
    have : x = none := hx x (by simp)
    subst this
    simp only [mfold, List.foldl_cons] at ih ⊢
    have : ((Lat.withBot L).merge s none).1 = s := by cases s <;> rfl
    rw [this]; exact ih (fun y hy => hx y (by simp [hy]))

theorem aux_mfold_append (L : Lat α) (acc : α) (xs ys : List α) :
    mfold L acc (xs ++ ys) = mfold L (mfold L acc xs) ys := by
  simp [mfold, List.foldl_append]

/-- lookups commute with folding maps together -/
theorem aux_map_mfold_lookup (h : LawfulA L S) (ms : List (List (Nat × β))) (acc : List (Nat × β))
    (wacc : (Sem.map L S).wf acc) (wms : ∀ m ∈ ms, (Sem.map L S).wf m) (k : Nat) :
    optEqv L S ((mfold (Lat.map L) acc ms).lookup k)
      (mfold (Lat.withBot L) (acc.lookup k) (ms.map (fun m => m.lookup k))) := by
  have W := lawfulA_withBot h
  induction ms generalizing acc with
  | nil => exact W.refl _ (aux_lookup_wf acc wacc k)
  | cons m ms ih =>
    have wm := wms m (by simp)
    have wmm := (aux_mapMerge_char h acc m wacc wm).1
    have wrest : ∀ x ∈ ms.map (fun m => m.lookup k), optWf S x := by
      intro x hx; simp only [List.mem_map] at hx
      obtain ⟨m', hm', rfl⟩ := hx; exact aux_lookup_wf m' (wms m' (by simp [hm'])) k
    have i := ih (mapMerge L acc m).1 wmm (fun m' hm' => wms m' (by simp [hm']))
    have c := aux_mfold_congr W (ms.map (fun m => m.lookup k)) _ _
      (aux_lookup_wf _ wmm k) (W.merge_wf _ _ (aux_lookup_wf acc wacc k) (aux_lookup_wf m wm k)) wrest
      (aux_mapMerge_lookup h acc m wacc wm k)
    have wf1 := aux_lookup_wf _ (aux_mfold_wf (lawfulA_map h) ms _ wmm (fun m' hm' => wms m' (by simp [hm']))) k
    have wf2 := aux_mfold_wf W _ _ (aux_lookup_wf _ wmm k) wrest
    have wf3 := aux_mfold_wf W _ _ (W.merge_wf _ _ (aux_lookup_wf acc wacc k) (aux_lookup_wf m wm k)) wrest
    exact W.trans _ _ _ wf1 wf2 wf3 i c

theorem aux_map_atoms_lookup (m : List (Nat × β)) (hn : (keysOf m).Nodup) (k : Nat) (s : Option β) :
    mfold (Lat.withBot L) s (((Lat.map L).atoms m).map (fun x => x.lookup k)) =
      mfold (Lat.withBot L) s ((Lat.withBot L).atoms (m.lookup k)) := by
  induction m generalizing s with
  | nil => rfl
  | cons e m ih =>
    simp only [keysOf, List.map_cons, List.nodup_cons] at hn
    have hat : (Lat.map L).atoms (e :: m) =
        (L.atoms e.2).map (fun a => [(e.1, a)]) ++ (Lat.map L).atoms m := by
      simp [Lat.map, List.flatMap_cons]
    rw [hat, List.map_append, aux_mfold_append, aux_lookup_cons']
    by_cases hk : k = e.1
    · subst hk
      simp only [if_true]
      have h1 : ((L.atoms e.2).map (fun a => [(e.1, a)])).map (fun x => x.lookup e.1) = (L.atoms e.2).map some := by
        simp [List.map_map, Function.comp_def, aux_lookup_cons']
      have h2 : ∀ x ∈ ((Lat.map L).atoms m).map (fun x => x.lookup e.1), x = none := by
        intro x hx
        simp only [Lat.map, List.mem_map, List.mem_flatMap] at hx
        obtain ⟨at', ⟨e', he', a, _, rfl⟩, rfl⟩ := hx
        have : e.1 ≠ e'.1 := by
          intro heq; apply hn.1; rw [heq]; exact List.mem_map_of_mem he'
        rw [aux_lookup_cons']; simp [this]
      rw [h1, aux_wb_mfold_nones _ _ h2]; rfl
    · simp only [hk, if_false]
      have h1 : ∀ x ∈ ((L.atoms e.2).map (fun a => [(e.1, a)])).map (fun x => x.lookup k), x = none := by
        intro x hx
        simp only [List.mem_map] at hx
        obtain ⟨at', ⟨a, _, rfl⟩, rfl⟩ := hx
        rw [aux_lookup_cons']; simp [hk]
      rw [aux_wb_mfold_nones _ _ h1]
      exact ih hn.2 s

theorem lawfulAt_map (h : LawfulA L S) (hC : LawfulAt L S) :
    LawfulAt (Lat.map L) (Sem.map L S) where
  atoms_wf := by
    intro m wm x hx
    simp only [Lat.map, List.mem_flatMap, List.mem_map] at hx
    obtain ⟨e, he, a, ha, rfl⟩ := hx
    exact ⟨by simp, by intro e' he'; simp at he'; subst he'; exact hC.atoms_wf e.2 (wm.2 e he) a ha⟩
  atoms_nonbot := by
    intro m wm x hx
    simp only [Lat.map, List.mem_flatMap, List.mem_map] at hx
    obtain ⟨e, he, a, ha, rfl⟩ := hx
    have := hC.atoms_nonbot e.2 (wm.2 e he) a ha
    show ([(e.1, a)] : List (Nat × β)).all (fun e => L.isBot e.2) = false
    simp [this]
  atoms_empty_iff := by
    intro m wm
    simp only [Lat.map, List.flatMap_eq_nil_iff, List.map_eq_nil_iff, List.all_eq_true]
    constructor
    · intro hh e he; exact (hC.atoms_empty_iff e.2 (wm.2 e he)).1 (hh e he)
    · intro hh e he; exact (hC.atoms_empty_iff e.2 (wm.2 e he)).2 (hh e he)
  atoms_le := by
    intro m wm x hx
    simp only [Lat.map, List.mem_flatMap, List.mem_map] at hx
    obtain ⟨e, he, a, ha, rfl⟩ := hx
    have W := lawfulA_withBot h
    have wv := wm.2 e he
    have wat : (Sem.map L S).wf [(e.1, a)] :=
      ⟨by simp, by intro e' he'; simp at he'; subst he'; exact hC.atoms_wf e.2 wv a ha⟩
    intro k
    have l1 := aux_mapMerge_lookup h m [(e.1, a)] wm wat k
    have wl := aux_lookup_wf m wm k
    refine W.trans _ _ _ (aux_lookup_wf _ (aux_mapMerge_char h m _ wm wat).1 k)
      (W.merge_wf _ _ wl (aux_lookup_wf _ wat k)) wl l1 ?_
    rw [aux_lookup_cons']
    by_cases hk : k = e.1
    · subst hk
      rw [aux_lookup_of_mem m wm.1 e he]
      simp only [if_true]
      exact hC.atoms_le e.2 wv a ha
    · simp only [hk, if_false, List.lookup_nil]
      cases hl : List.lookup k m with
      | none => trivial
      | some v => exact h.refl v (by rw [hl] at wl; exact wl)
  atoms_fold := by
    intro m acc wm wacc k
    have W := lawfulA_withBot h
    have WC := lawfulAt_withBot h hC
    have MA := lawfulA_map h
    have watoms : ∀ x ∈ (Lat.map L).atoms m, (Sem.map L S).wf x := by
      intro x hx
      simp only [Lat.map, List.mem_flatMap, List.mem_map] at hx
      obtain ⟨e, he, a, ha, rfl⟩ := hx
      exact ⟨by simp, by intro e' he'; simp at he'; subst he'; exact hC.atoms_wf e.2 (wm.2 e he) a ha⟩
    have p1 := aux_map_mfold_lookup h ((Lat.map L).atoms m) acc wacc watoms k
    rw [aux_map_atoms_lookup m wm.1 k] at p1
    have wa := aux_lookup_wf acc wacc k
    have wl := aux_lookup_wf m wm k
    have p2 := WC.atoms_fold (m.lookup k) (acc.lookup k) wl wa
    have p3 := aux_mapMerge_lookup h acc m wacc wm k
    have w1 := aux_lookup_wf _ (aux_mfold_wf MA _ acc wacc watoms) k
    have w2 := aux_mfold_wf W _ _ wa (WC.atoms_wf _ wl)
    have w3 := W.merge_wf _ _ wa wl
    have w4 := aux_lookup_wf _ (aux_mapMerge_char h acc m wacc wm).1 k
    exact W.trans _ _ _ w1 w2 w4 p1 (W.trans _ _ _ w2 w3 w4 p2 (W.symm _ _ w4 w3 p3))

/-- atomizable types and their lawfulness, by induction on the type -/
theorem lawfulAt_all : ∀ t : LTy, atomizable t = true → LawfulAt (lat t) (sem t) ∧ LawfulA (lat t) (sem t)
  | .unit, _ => ⟨lawfulAt_unit, lawfulA_unit⟩
  | .set, _ => ⟨lawfulAt_set, lawfulA_set⟩
  | .map v, h => by
    have := lawfulAt_all v (by simpa [atomizable] using h)
    exact ⟨lawfulAt_map this.2 this.1, lawfulA_map this.2⟩
  | .withBot v, h => by
    have := lawfulAt_all v (by simpa [atomizable] using h)
    exact ⟨lawfulAt_withBot this.2 this.1, lawfulA_withBot this.2⟩
  | .withTop v, h => by
    have := lawfulAt_all v (by simpa [atomizable] using h)
    exact ⟨lawfulAt_withTop this.2 this.1, lawfulA_withTop this.2⟩
  | .maxN _, h | .minN _, h | .maxI _, h | .minI _, h | .maxB, h | .minB, h | .conflict, h | .vec _, h
  | .pair _ _, h | .domPair _ _, h | .tri _ _ _, h => by simp [atomizable] at h

end HvLat
