import HvLat.Laws.BasicB
import HvLat.Laws.WithBot
import HvLat.Laws.WithTop
import HvLat.Laws.Pair

namespace HvLat
variable {L : Lat β} {S : Sem β}

theorem lawfulB_withBot (h : LawfulA L S) (hB : LawfulB L S) (nd : Nondeg L S) :
    LawfulB (Lat.withBot L) (Sem.withBot L S) where
  cmp_naive := by
    intro a b wa wb
    cases a with
    | none =>
      cases b with
      | none => rfl
      | some y => simp only [Lat.withBot, Lat.naive]; cases hb : L.isBot y <;> simp
    | some x =>
      cases b with
      | none => simp only [Lat.withBot, Lat.naive]; cases hb : L.isBot x <;> simp
      | some y => exact hB.cmp_naive x y wa wb
  beq_iff := by
    intro a b wa wb
    cases a <;> cases b <;> simp only [Lat.withBot, Sem.withBot, optEqv] <;> try simp
    exact hB.beq_iff _ _ wa wb
  isTop_iff := by
    intro a wa
    cases a with
    | none =>
      simp only [Lat.withBot]
      constructor
      · intro hh; cases hh
      · intro hall
        obtain ⟨x, wx, hx⟩ := nd
        have := hall (some x) wx
        simp [hx] at this
    | some x =>
      simp only [Lat.withBot]
      rw [hB.isTop_iff x wa]
      constructor
      · intro hall b wb
        cases b with
        | none => rfl
        | some y => exact hall y wb
      · intro hall y wy; exact hall (some y) wy
  dflt_bot := by
    intro d hd; simp [Lat.withBot] at hd; subst hd; exact ⟨trivial, rfl⟩

theorem lawfulB_withTop (h : LawfulA L S) (hB : LawfulB L S) :
    LawfulB (Lat.withTop L) (Sem.withTop S) where
  cmp_naive := by
    intro a b wa wb
    cases a <;> cases b <;> simp only [Lat.withTop, Lat.naive] <;> try rfl
    exact hB.cmp_naive _ _ wa wb
  beq_iff := by
    intro a b wa wb
    cases a <;> cases b <;> simp only [Lat.withTop, Sem.withTop] <;> try simp
    exact hB.beq_iff _ _ wa wb
  isTop_iff := by
    intro a wa
    cases a with
    | none =>
      simp only [Lat.withTop, Option.isNone_none, true_iff]
      intro b _; cases b <;> rfl
    | some x =>
      simp only [Lat.withTop, Option.isNone_some, Bool.false_eq_true, false_iff]
      intro hall
      have := hall none trivial
      simp at this
  dflt_bot := by
    intro d hd
    simp only [Lat.withTop] at hd
    cases hd0 : L.dflt with
    | none => simp [hd0] at hd
    | some d0 =>
      simp [hd0] at hd; subst hd
      exact hB.dflt_bot d0 hd0

variable {A : Lat α} {B : Lat β} {SA : Sem α} {SB : Sem β}

theorem aux_pair_isTop (a : α × β) : (Lat.pair A B).isTop a = (A.isTop a.1 && B.isTop a.2) := by
  simp only [Lat.pair]; cases A.isTop a.1 <;> cases B.isTop a.2 <;> rfl

theorem lawfulB_pair (ha : LawfulA A SA) (hb : LawfulA B SB) (hBa : LawfulB A SA) (hBb : LawfulB B SB) :
    LawfulB (Lat.pair A B) (Sem.prod SA SB) where
  cmp_naive := by
    intro a b wa wb
    simp only [Lat.pair, Lat.naive, hBa.cmp_naive _ _ wa.1 wb.1, hBb.cmp_naive _ _ wa.2 wb.2, cmpField]
    cases (A.merge a.1 b.1).2 <;> cases (A.merge b.1 a.1).2 <;>
      cases (B.merge a.2 b.2).2 <;> cases (B.merge b.2 a.2).2 <;> rfl
  beq_iff := by
    intro a b wa wb
    show (if !A.beq a.1 b.1 then false else if !B.beq a.2 b.2 then false else true) = true ↔
      SA.eqv a.1 b.1 ∧ SB.eqv a.2 b.2
    rw [← hBa.beq_iff _ _ wa.1 wb.1, ← hBb.beq_iff _ _ wa.2 wb.2]
    cases A.beq a.1 b.1 <;> cases B.beq a.2 b.2 <;> simp
  isTop_iff := by
    intro a wa
    rw [aux_pair_isTop]
    show (A.isTop a.1 && B.isTop a.2) = true ↔
      ∀ c : α × β, (SA.wf c.1 ∧ SB.wf c.2) → ((A.merge a.1 c.1).2 || (B.merge a.2 c.2).2) = false
    constructor
    · intro hh c wc
      simp only [Bool.and_eq_true] at hh
      rw [(hBa.isTop_iff _ wa.1).1 hh.1 c.1 wc.1, (hBb.isTop_iff _ wa.2).1 hh.2 c.2 wc.2]; rfl
    · intro hall
      obtain ⟨a0, wa0⟩ := ha.inh; obtain ⟨b0, wb0⟩ := hb.inh
      have h1 : A.isTop a.1 = true := by
        rw [hBa.isTop_iff _ wa.1]; intro c wc
        have := hall (c, b0) ⟨wc, wb0⟩
        simp only [Bool.or_eq_false_iff] at this; exact this.1
      have h2 : B.isTop a.2 = true := by
        rw [hBb.isTop_iff _ wa.2]; intro c wc
        have := hall (a0, c) ⟨wa0, wc⟩
        simp only [Bool.or_eq_false_iff] at this; exact this.2
      simp [h1, h2]
  dflt_bot := by
    intro d hd
    simp only [Lat.pair] at hd
    cases h1 : A.dflt with
    | none => simp [h1] at hd
    | some d1 =>
      cases h2 : B.dflt with
      | none => simp [h1, h2] at hd
      | some d2 =>
        simp [h1, h2] at hd; subst hd
        have r1 := hBa.dflt_bot d1 h1; have r2 := hBb.dflt_bot d2 h2
        refine ⟨⟨r1.1, r2.1⟩, ?_⟩
        rw [aux_pair_isBot]; simp [r1.2, r2.2]

end HvLat
