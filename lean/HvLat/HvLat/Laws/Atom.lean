/-
Layer C of lawfulness (C06): `Atomize`.
-/
import HvLat.Laws.Basic
import HvLat.Laws.Leaf
import HvLat.Laws.Set
import HvLat.Laws.WithBot
import HvLat.Laws.WithTop

namespace HvLat

/-- merge a list of values (atoms) into an accumulator, one after the other -/
def mfold (L : Lat α) (acc : α) (xs : List α) : α := xs.foldl (fun c x => (L.merge c x).1) acc

structure LawfulAt (L : Lat α) (S : Sem α) : Prop where
  atoms_wf : ∀ a, S.wf a → ∀ x ∈ L.atoms a, S.wf x
  /-- no atom is bottom -/
  atoms_nonbot : ∀ a, S.wf a → ∀ x ∈ L.atoms a, L.isBot x = false
  /-- nothing is yielded exactly for bottom -/
  atoms_empty_iff : ∀ a, S.wf a → (L.atoms a = [] ↔ L.isBot a = true)
  /-- every atom is below the value -/
  atoms_le : ∀ a, S.wf a → ∀ x ∈ L.atoms a, leq L S x a
  /-- merging the atoms into any accumulator is merging the value into it -/
  atoms_fold : ∀ a acc, S.wf a → S.wf acc → S.eqv (mfold L acc (L.atoms a)) (L.merge acc a).1

theorem aux_mfold_wf {L : Lat α} {S : Sem α} (h : LawfulA L S) (xs : List α) (acc : α)
    (wacc : S.wf acc) (wx : ∀ x ∈ xs, S.wf x) : S.wf (mfold L acc xs) := by
  induction xs generalizing acc with
  | nil => exact wacc
  | cons x xs ih =>
    exact ih _ (h.merge_wf _ _ wacc (wx x (by simp))) (fun y hy => wx y (by simp [hy]))

theorem aux_mfold_congr {L : Lat α} {S : Sem α} (h : LawfulA L S) (xs : List α) (acc acc' : α)
    (w1 : S.wf acc) (w2 : S.wf acc') (wx : ∀ x ∈ xs, S.wf x) (e : S.eqv acc acc') :
    S.eqv (mfold L acc xs) (mfold L acc' xs) := by
  induction xs generalizing acc acc' with
  | nil => exact e
  | cons x xs ih =>
    have wxx := wx x (by simp)
    exact ih _ _ (h.merge_wf _ _ w1 wxx) (h.merge_wf _ _ w2 wxx) (fun y hy => wx y (by simp [hy]))
      (h.merge_congr _ _ _ _ w1 w2 wxx wxx e (h.refl x wxx))

/-- C06: merging the atoms back into bottom reproduces the value -/
theorem LawfulAt.reform {L : Lat α} {S : Sem α} (h : LawfulA L S) (hC : LawfulAt L S)
    (a d : α) (wa : S.wf a) (wd : S.wf d) (hd : L.isBot d = true) :
    S.eqv (mfold L d (L.atoms a)) a :=
  h.trans _ _ _ (aux_mfold_wf h _ d wd (hC.atoms_wf a wa)) (h.merge_wf d a wd wa) wa
    (hC.atoms_fold a d wa wd) (h.bot_left wd wa hd)

theorem lawfulAt_unit : LawfulAt Lat.unit (Sem.leaf Unit) where
  atoms_wf := by intro a _ x hx; cases hx
  atoms_nonbot := by intro a _ x hx; cases hx
  atoms_empty_iff := by intro a _; simp [Lat.unit]
  atoms_le := by intro a _ x hx; cases hx
  atoms_fold := by intro a acc _ _; rfl

theorem aux_set_mfold_mem (xs : List Nat) (acc : List Nat) (y : Nat) :
    y ∈ mfold Lat.set acc (xs.map fun x => [x]) ↔ y ∈ acc ∨ y ∈ xs := by
  induction xs generalizing acc with
  | nil => simp [mfold]
  | cons x xs ih =>
    have := ih (setExtend acc [x])
    simp only [mfold, List.map_cons, List.foldl_cons] at this ⊢
    show y ∈ List.foldl _ (setMerge acc [x]).1 _ ↔ _
    simp only [setMerge]
    rw [this, aux_setExtend_mem]; simp; tauto

theorem lawfulAt_set : LawfulAt Lat.set Sem.set where
  atoms_wf := by
    intro a _ x hx
    simp only [Lat.set, List.mem_map] at hx
    obtain ⟨y, _, rfl⟩ := hx
    show [y].Nodup; simp
  atoms_nonbot := by
    intro a _ x hx
    simp only [Lat.set, List.mem_map] at hx
    obtain ⟨y, _, rfl⟩ := hx; rfl
  atoms_empty_iff := by intro a _; cases a <;> simp [Lat.set]
  atoms_le := by
    intro a _ x hx
    simp only [Lat.set, List.mem_map] at hx
    obtain ⟨y, hy, rfl⟩ := hx
    show ∀ z, z ∈ (setMerge a [y]).1 ↔ z ∈ a
    intro z; simp only [setMerge, aux_setExtend_mem]
    constructor
    · rintro (h | h); exact h; simp at h; subst h; exact hy
    · intro h; exact Or.inl h
  atoms_fold := by
    intro a acc _ _ y
    show y ∈ mfold Lat.set acc (a.map fun x => [x]) ↔ y ∈ (setMerge acc a).1
    rw [aux_set_mfold_mem]; simp only [setMerge, aux_setExtend_mem]

variable {L : Lat β} {S : Sem β}

theorem aux_wb_mfold_some (xs : List β) (c : β) :
    mfold (Lat.withBot L) (some c) (xs.map some) = some (mfold L c xs) := by
  induction xs generalizing c with
  | nil => rfl
  | cons x xs ih =>
    simp only [mfold, List.map_cons, List.foldl_cons] at ih ⊢
    exact ih _

theorem lawfulAt_withBot (h : LawfulA L S) (hC : LawfulAt L S) :
    LawfulAt (Lat.withBot L) (Sem.withBot L S) where
  atoms_wf := by
    intro a wa x hx
    cases a with
    | none => cases hx
    | some i =>
      simp only [Lat.withBot, List.mem_map] at hx
      obtain ⟨y, hy, rfl⟩ := hx; exact hC.atoms_wf i wa y hy
  atoms_nonbot := by
    intro a wa x hx
    cases a with
    | none => cases hx
    | some i =>
      simp only [Lat.withBot, List.mem_map] at hx
      obtain ⟨y, hy, rfl⟩ := hx; exact hC.atoms_nonbot i wa y hy
  atoms_empty_iff := by
    intro a wa
    cases a with
    | none => simp [Lat.withBot]
    | some i => simp only [Lat.withBot, List.map_eq_nil_iff]; exact hC.atoms_empty_iff i wa
  atoms_le := by
    intro a wa x hx
    cases a with
    | none => cases hx
    | some i =>
      simp only [Lat.withBot, List.mem_map] at hx
      obtain ⟨y, hy, rfl⟩ := hx; exact hC.atoms_le i wa y hy
  atoms_fold := by
    intro a acc wa wacc
    have W := lawfulA_withBot h
    cases a with
    | none => cases acc <;> exact W.refl _ wacc
    | some i =>
      cases acc with
      | some c =>
        show optEqv L S (mfold (Lat.withBot L) (some c) ((L.atoms i).map some)) (some (L.merge c i).1)
        rw [aux_wb_mfold_some]; exact hC.atoms_fold i c wa wacc
      | none =>
        show optEqv L S (mfold (Lat.withBot L) none ((L.atoms i).map some)) ((Lat.withBot L).merge none (some i)).1
        cases hat : L.atoms i with
        | nil =>
          have hb := (hC.atoms_empty_iff i wa).1 hat
          simp [mfold, Lat.withBot, hb, optEqv]
        | cons x rest =>
          have hxm : x ∈ L.atoms i := by rw [hat]; simp
          have wx := hC.atoms_wf i wa x hxm
          have nbx := hC.atoms_nonbot i wa x hxm
          have nbi : L.isBot i = false := by
            cases hb : L.isBot i
            · rfl
            · have := (hC.atoms_empty_iff i wa).2 hb; rw [hat] at this; cases this
          have wrest : ∀ y ∈ rest, S.wf y := fun y hy => hC.atoms_wf i wa y (by rw [hat]; simp [hy])
          have step : mfold (Lat.withBot L) none ((x :: rest).map some) = some (mfold L x rest) := by
            simp only [mfold, List.map_cons, List.foldl_cons]
            have : ((Lat.withBot L).merge none (some x)).1 = some x := by
              simp [Lat.withBot, nbx, h.lfrom_id x wx]
            rw [this]; exact aux_wb_mfold_some rest x
          rw [step]
          simp only [Lat.withBot, nbi, Bool.not_false, if_true, optEqv, h.lfrom_id i wa]
          -- mfold x rest ≈ mfold (x⊔x) rest = mfold x (x::rest) ≈ x ⊔ i ≈ i ⊔ x ≈ i
          have wxx := h.merge_wf x x wx wx
          have e1 := aux_mfold_congr h rest x (L.merge x x).1 wx wxx wrest (h.symm _ _ wxx wx (h.idem x wx))
          have e2 : S.eqv (mfold L (L.merge x x).1 rest) (L.merge x i).1 := by
            have := hC.atoms_fold i x wa wx; rw [hat] at this; exact this
          have e3 := h.comm x i wx wa
          have e4 := hC.atoms_le i wa x hxm
          have w0 := aux_mfold_wf h rest x wx wrest
          have w1 := aux_mfold_wf h rest _ wxx wrest
          have w2 := h.merge_wf x i wx wa
          have w3 := h.merge_wf i x wa wx
          exact h.trans _ _ _ w0 w1 wa e1 (h.trans _ _ _ w1 w2 wa e2 (h.trans _ _ _ w2 w3 wa e3 e4))

theorem aux_wt_mfold_some (xs : List β) (c : β) :
    mfold (Lat.withTop L) (some c) (xs.map some) = some (mfold L c xs) := by
  induction xs generalizing c with
  | nil => rfl
  | cons x xs ih =>
    simp only [mfold, List.map_cons, List.foldl_cons] at ih ⊢
    exact ih _

theorem aux_wt_mfold_none (xs : List (Option β)) : mfold (Lat.withTop L) none xs = none := by
  induction xs with
  | nil => rfl
  | cons x xs ih =>
    simp only [mfold, List.foldl_cons] at ih ⊢
    cases x <;> exact ih

theorem lawfulAt_withTop (h : LawfulA L S) (hC : LawfulAt L S) :
    LawfulAt (Lat.withTop L) (Sem.withTop S) where
  atoms_wf := by
    intro a wa x hx
    cases a with
    | none => simp [Lat.withTop] at hx; subst hx; trivial
    | some i =>
      simp only [Lat.withTop, List.mem_map] at hx
      obtain ⟨y, hy, rfl⟩ := hx; exact hC.atoms_wf i wa y hy
  atoms_nonbot := by
    intro a wa x hx
    cases a with
    | none => simp [Lat.withTop] at hx; subst hx; rfl
    | some i =>
      simp only [Lat.withTop, List.mem_map] at hx
      obtain ⟨y, hy, rfl⟩ := hx; exact hC.atoms_nonbot i wa y hy
  atoms_empty_iff := by
    intro a wa
    cases a with
    | none => simp [Lat.withTop]
    | some i => simp only [Lat.withTop, List.map_eq_nil_iff]; exact hC.atoms_empty_iff i wa
  atoms_le := by
    intro a wa x hx
    cases a with
    | none => simp [Lat.withTop] at hx; subst hx; trivial
    | some i =>
      simp only [Lat.withTop, List.mem_map] at hx
      obtain ⟨y, hy, rfl⟩ := hx; exact hC.atoms_le i wa y hy
  atoms_fold := by
    intro a acc wa wacc
    have W := lawfulA_withTop h
    cases a with
    | none => exact W.refl _ (W.merge_wf acc none wacc trivial)
    | some i =>
      cases acc with
      | some c =>
        show (Sem.withTop S).eqv (mfold (Lat.withTop L) (some c) ((L.atoms i).map some)) (some (L.merge c i).1)
        rw [aux_wt_mfold_some]; exact hC.atoms_fold i c wa wacc
      | none =>
        show (Sem.withTop S).eqv (mfold (Lat.withTop L) none ((L.atoms i).map some)) none
        rw [aux_wt_mfold_none]; trivial

end HvLat
