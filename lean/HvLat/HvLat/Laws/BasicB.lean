/-
Layer B of lawfulness (C03): comparison, equality, top and default agree with merge.
-/
import HvLat.Laws.Basic

namespace HvLat

structure LawfulB (L : Lat α) (S : Sem α) : Prop where
  /-- `partial_cmp` is exactly the comparison derived from the two merge flags (`naive_cmp`) -/
  cmp_naive : ∀ a b, S.wf a → S.wf b → L.cmp a b = L.naive a b
  /-- `==` is the semantic equality -/
  beq_iff : ∀ a b, S.wf a → S.wf b → (L.beq a b = true ↔ S.eqv a b)
  /-- `is_top` holds exactly for a greatest element -/
  isTop_iff : ∀ a, S.wf a → (L.isTop a = true ↔ ∀ b, S.wf b → (L.merge a b).2 = false)
  /-- `Default::default()` is well-formed and bottom -/
  dflt_bot : ∀ d, L.dflt = some d → S.wf d ∧ L.isBot d = true

/-- the value lattice has an element that is not bottom -/
def Nondeg (L : Lat α) (S : Sem α) : Prop := ∃ x, S.wf x ∧ L.isBot x = false

/-- the order is total on well-formed values -/
def Total (L : Lat α) (S : Sem α) : Prop := ∀ a b, S.wf a → S.wf b → L.cmp a b ≠ none

theorem naive_eq (L : Lat α) (a b : α) :
    L.naive a b = finalCmp (L.merge b a).2 (L.merge a b).2 := by
  unfold Lat.naive finalCmp
  cases (L.merge a b).2 <;> cases (L.merge b a).2 <;> rfl

namespace LawfulB
variable {L : Lat α} {S : Sem α} (hA : LawfulA L S) (hB : LawfulB L S)
include hA hB

theorem cmp_eq_iff {a b} (wa : S.wf a) (wb : S.wf b) : L.cmp a b = some .eq ↔ S.eqv a b := by
  rw [hB.cmp_naive a b wa wb, Lat.naive]
  constructor
  · intro h
    have f1 : (L.merge a b).2 = false := by
      cases h1 : (L.merge a b).2 <;> cases h2 : (L.merge b a).2 <;> simp_all
    have f2 : (L.merge b a).2 = false := by
      cases h1 : (L.merge a b).2 <;> cases h2 : (L.merge b a).2 <;> simp_all
    exact hA.leq_antisymm wa wb ((hA.flag b a wb wa).1 f2) ((hA.flag a b wa wb).1 f1)
  · intro e
    have f1 := (hA.flag a b wa wb).2 (hA.leq_of_eqv wb wa (hA.symm _ _ wa wb e))
    have f2 := (hA.flag b a wb wa).2 (hA.leq_of_eqv wa wb e)
    simp [f1, f2]

/-- `a <= b` (`partial_cmp` is `Less` or `Equal`) iff merging `a` into `b` leaves `b` unchanged -/
theorem cmp_le_iff {a b} (wa : S.wf a) (wb : S.wf b) :
    (L.cmp a b = some .lt ∨ L.cmp a b = some .eq) ↔ (L.merge b a).2 = false := by
  rw [hB.cmp_naive a b wa wb, Lat.naive]
  cases h1 : (L.merge a b).2 <;> cases h2 : (L.merge b a).2 <;> simp

theorem cmp_dual {a b} (wa : S.wf a) (wb : S.wf b) :
    L.cmp b a = (L.cmp a b).map Ordering.swap := by
  rw [hB.cmp_naive a b wa wb, hB.cmp_naive b a wb wa, Lat.naive, Lat.naive]
  cases h1 : (L.merge a b).2 <;> cases h2 : (L.merge b a).2 <;> rfl

theorem cmp_congr {a a' b b'} (wa : S.wf a) (wa' : S.wf a') (wb : S.wf b) (wb' : S.wf b')
    (e1 : S.eqv a a') (e2 : S.eqv b b') : L.cmp a b = L.cmp a' b' := by
  rw [hB.cmp_naive a b wa wb, hB.cmp_naive a' b' wa' wb', Lat.naive, Lat.naive,
    hA.flag_congr wa wa' wb wb' e1 e2, hA.flag_congr wb wb' wa wa' e2 e1]

theorem cmp_lt_iff {a b} (wa : S.wf a) (wb : S.wf b) :
    L.cmp a b = some .lt ↔ (L.merge b a).2 = false ∧ (L.merge a b).2 = true := by
  rw [hB.cmp_naive a b wa wb, Lat.naive]
  cases (L.merge a b).2 <;> cases (L.merge b a).2 <;> simp

theorem cmp_gt_iff {a b} (wa : S.wf a) (wb : S.wf b) :
    L.cmp a b = some .gt ↔ (L.merge a b).2 = false ∧ (L.merge b a).2 = true := by
  rw [hB.cmp_naive a b wa wb, Lat.naive]
  cases (L.merge a b).2 <;> cases (L.merge b a).2 <;> simp

theorem cmp_lt_trans {a b c} (wa : S.wf a) (wb : S.wf b) (wc : S.wf c)
    (h1 : L.cmp a b = some .lt) (h2 : L.cmp b c = some .lt) : L.cmp a c = some .lt := by
  rw [cmp_lt_iff hA hB wa wb] at h1
  rw [cmp_lt_iff hA hB wb wc] at h2
  rw [cmp_lt_iff hA hB wa wc]
  have lab := (hA.flag b a wb wa).1 h1.1
  have lbc := (hA.flag c b wc wb).1 h2.1
  refine ⟨(hA.flag c a wc wa).2 (hA.leq_trans wa wb wc lab lbc), ?_⟩
  cases hf : (L.merge a c).2
  · -- c ≤ a ≤ b would give c ≤ b
    have lca := (hA.flag a c wa wc).1 hf
    have := (hA.flag b c wb wc).2 (hA.leq_trans wc wa wb lca lab)
    rw [this] at h2; cases h2.2
  · rfl

theorem cmp_gt_trans {a b c} (wa : S.wf a) (wb : S.wf b) (wc : S.wf c)
    (h1 : L.cmp a b = some .gt) (h2 : L.cmp b c = some .gt) : L.cmp a c = some .gt := by
  have d1 := cmp_dual hA hB wa wb; rw [h1] at d1
  have d2 := cmp_dual hA hB wb wc; rw [h2] at d2
  have := cmp_lt_trans hA hB wc wb wa d2 d1
  have d3 := cmp_dual hA hB wc wa; rw [this] at d3; exact d3

end LawfulB
end HvLat
