import HvLat.Laws.WithBot

namespace HvLat
variable {L : Lat β} {S : Sem β}

abbrev keysOf (m : List (Nat × β)) : List Nat := m.map (·.1)

theorem aux_lookup_cons' (k : Nat) (e : Nat × β) (m : List (Nat × β)) :
    (e :: m).lookup k = if k = e.1 then some e.2 else m.lookup k := by
  obtain ⟨k', v⟩ := e
  rw [List.lookup_cons]
  by_cases hk : k = k'
  · subst hk; simp
  · have : (k == k') = false := by simp [hk]
    simp [this, hk]

theorem aux_lookup_none_iff (m : List (Nat × β)) (k : Nat) : m.lookup k = none ↔ k ∉ keysOf m := by
  induction m with
  | nil => simp
  | cons e m ih =>
    rw [aux_lookup_cons']
    by_cases hk : k = e.1 <;> simp [hk, ih, keysOf]

theorem aux_lookup_mem (m : List (Nat × β)) (k : Nat) (v : β) (hl : m.lookup k = some v) : (k, v) ∈ m := by
  induction m with
  | nil => simp at hl
  | cons e m ih =>
    rw [aux_lookup_cons'] at hl
    by_cases hk : k = e.1
    · simp [hk] at hl; subst hl; subst hk; simp
    · simp [hk] at hl; exact List.mem_cons_of_mem _ (ih hl)

theorem aux_lookup_of_mem (m : List (Nat × β)) (hn : (keysOf m).Nodup) (e : Nat × β) (he : e ∈ m) :
    m.lookup e.1 = some e.2 := by
  induction m with
  | nil => cases he
  | cons e' m ih =>
    rw [aux_lookup_cons']
    simp only [keysOf, List.map_cons, List.nodup_cons] at hn
    rcases List.mem_cons.1 he with rfl | he
    · simp
    · have : e.1 ≠ e'.1 := by
        intro heq; apply hn.1; rw [← heq]; exact List.mem_map_of_mem he
      simp [this, ih hn.2 he]

theorem aux_mapSet_keys (m : List (Nat × β)) (k : Nat) (v : β) : keysOf (mapSet m k v) = keysOf m := by
  induction m with
  | nil => rfl
  | cons e m ih =>
    simp only [keysOf, mapSet, List.map_cons] at ih ⊢
    rw [ih]; by_cases hk : e.1 = k <;> simp [hk]

theorem aux_mapSet_lookup (m : List (Nat × β)) (k k' : Nat) (v : β) :
    (mapSet m k v).lookup k' = if k' = k then (m.lookup k).map (fun _ => v) else m.lookup k' := by
  induction m with
  | nil => simp [mapSet]
  | cons e m ih =>
    have hm : mapSet (e :: m) k v = (if e.1 == k then (e.1, v) else e) :: mapSet m k v := rfl
    simp only [hm, aux_lookup_cons', ih]
    by_cases he : e.1 = k <;> by_cases hk : k' = k <;> by_cases hk' : k' = e.1 <;> grind

theorem aux_mapSet_mem (m : List (Nat × β)) (k : Nat) (v : β) (e : Nat × β) (he : e ∈ mapSet m k v) :
    e ∈ m ∨ e.2 = v := by
  simp only [mapSet, List.mem_map] at he
  obtain ⟨e0, h0, rfl⟩ := he
  by_cases hk : e0.1 = k <;> simp [hk, h0]

theorem aux_mapExtend_append (p m : List (Nat × β))
    (hd : ∀ k ∈ keysOf p, k ∉ keysOf m) (hn : (keysOf p).Nodup) : mapExtend m p = m ++ p := by
  induction p generalizing m with
  | nil => simp [mapExtend]
  | cons e p ih =>
    have h1 : m.lookup e.1 = none := (aux_lookup_none_iff m e.1).2 (hd e.1 (by simp [keysOf]))
    have e1 : mapInsert m e.1 e.2 = m ++ [e] := by simp [mapInsert, h1]
    simp only [keysOf, List.map_cons, List.nodup_cons] at hn
    have := ih (m ++ [e]) (by
      intro k hk; simp only [keysOf, List.map_append, List.mem_append, not_or]
      refine ⟨hd k (by simp [keysOf] at hk ⊢; exact Or.inr hk), ?_⟩
      simp; intro heq; subst heq; exact hn.1 hk) hn.2
    simp only [mapExtend, List.foldl_cons, e1] at this ⊢
    rw [this]; simp

/-- per-key effect of `MapUnion::merge` -/
def mo (L : Lat β) : Option β → Option β → Option β
  | sx, none => sx
  | sx, some y =>
    if L.isBot y then sx else
    match sx with
    | some x => some (L.merge x y).1
    | none => some (L.lfrom y)

/-- does the entry `y` at a key change the receiver's entry `sx` -/
def moFlag (L : Lat β) (sx : Option β) (y : β) : Bool :=
  !L.isBot y && (match sx with | some x => (L.merge x y).2 | none => true)

def foldSt (L : Lat β) (l : List (Nat × β)) (st : List (Nat × β) × List (Nat × β) × Bool) :=
  l.foldl (mapMergeStep L) st

structure StInv (S : Sem β) (s p l : List (Nat × β)) : Prop where
  ns : (keysOf s).Nodup
  np : (keysOf p).Nodup
  nl : (keysOf l).Nodup
  dps : ∀ k ∈ keysOf p, k ∉ keysOf s
  dlp : ∀ k ∈ keysOf l, k ∉ keysOf p
  ws : ∀ e ∈ s, S.wf e.2
  wp : ∀ e ∈ p, S.wf e.2
  wl : ∀ e ∈ l, S.wf e.2

theorem aux_fold_inv (h : LawfulA L S) (l s p : List (Nat × β)) (c : Bool) (inv : StInv S s p l) :
    let r := foldSt L l (s, p, c)
    StInv S r.1 r.2.1 [] ∧
    (∀ k, (r.1 ++ r.2.1).lookup k = mo L ((s ++ p).lookup k) (l.lookup k)) ∧
    (r.2.2 = false ↔ c = false ∧ ∀ e ∈ l, moFlag L ((s ++ p).lookup e.1) e.2 = false) := by
  induction l generalizing s p c with
  | nil =>
    simp only [foldSt, List.foldl_nil]
    exact ⟨inv, fun k => by simp [mo], by simp⟩
  | cons e l ih =>
    have nl' : (keysOf l).Nodup := by have := inv.nl; simp [keysOf] at this ⊢; exact this.2
    have hel : e.1 ∉ keysOf l := by have := inv.nl; simp [keysOf] at this ⊢; exact this.1
    have hep : e.1 ∉ keysOf p := inv.dlp e.1 (by simp [keysOf])
    have lkl : l.lookup e.1 = none := (aux_lookup_none_iff l e.1).2 hel
    have lkp : p.lookup e.1 = none := (aux_lookup_none_iff p e.1).2 hep
    have lksp : (s ++ p).lookup e.1 = s.lookup e.1 := by rw [List.lookup_append, lkp]; simp
    have we : S.wf e.2 := inv.wl e (by simp)
    simp only [foldSt, List.foldl_cons]
    simp only [foldSt] at ih
    by_cases hb : L.isBot e.2 = true
    · -- bottom entry: filtered out
      have st1 : mapMergeStep L (s, p, c) e = (s, p, c) := by simp [mapMergeStep, hb]
      rw [st1]
      have inv' : StInv S s p l :=
        { inv with nl := nl', dlp := fun k hk => inv.dlp k (by simp [keysOf] at hk ⊢; exact Or.inr hk),
                   wl := fun e' he' => inv.wl e' (by simp [he']) }
      obtain ⟨i1, i2, i3⟩ := ih s p c inv'
      refine ⟨i1, ?_, ?_⟩
      · intro k; rw [i2 k, aux_lookup_cons']
        by_cases hk : k = e.1
        · subst hk; simp [lkl, mo, hb]
        · simp [hk]
      · rw [i3]; simp [moFlag, hb]
    · have hb' : L.isBot e.2 = false := by simpa using hb
      cases hs : s.lookup e.1 with
      | some x =>
        -- key collision: merge into `self`
        have wx : S.wf x := inv.ws _ (aux_lookup_mem s e.1 x hs)
        have st1 : mapMergeStep L (s, p, c) e =
            (mapSet s e.1 (L.merge x e.2).1, p, c || (L.merge x e.2).2) := by
          simp [mapMergeStep, hb', hs]
        rw [st1]
        have inv' : StInv S (mapSet s e.1 (L.merge x e.2).1) p l :=
          { ns := by rw [aux_mapSet_keys]; exact inv.ns
            np := inv.np
            nl := nl'
            dps := by rw [aux_mapSet_keys]; exact inv.dps
            dlp := fun k hk => inv.dlp k (by simp [keysOf] at hk ⊢; exact Or.inr hk)
            ws := by
              intro e' he'
              rcases aux_mapSet_mem _ _ _ _ he' with h1 | h1
              · exact inv.ws e' h1
              · rw [h1]; exact h.merge_wf _ _ wx we
            wp := inv.wp
            wl := fun e' he' => inv.wl e' (by simp [he']) }
        obtain ⟨i1, i2, i3⟩ := ih _ p (c || (L.merge x e.2).2) inv'
        refine ⟨i1, ?_, ?_⟩
        · intro k; rw [i2 k, aux_lookup_cons', List.lookup_append, aux_mapSet_lookup, List.lookup_append]
          by_cases hk : k = e.1
          · subst hk; simp [lkl, mo, hb', hs, lkp]
          · simp [hk]
        · rw [i3]
          have key : ∀ e' ∈ l, (mapSet s e.1 (L.merge x e.2).1 ++ p).lookup e'.1 = (s ++ p).lookup e'.1 := by
            intro e' he'
            have : e'.1 ≠ e.1 := by
              intro heq; apply hel; rw [← heq]; exact List.mem_map_of_mem he'
            rw [List.lookup_append, aux_mapSet_lookup, List.lookup_append]; simp [this]
          constructor
          · rintro ⟨hc, hall⟩
            simp only [Bool.or_eq_false_iff] at hc
            refine ⟨hc.1, ?_⟩
            intro e' he'
            rcases List.mem_cons.1 he' with rfl | he'
            · rw [lksp, hs]; simp [moFlag, hb', hc.2]
            · rw [← key e' he']; exact hall e' he'
          · rintro ⟨hc, hall⟩
            have h0 := hall e (by simp)
            rw [lksp, hs] at h0
            simp only [moFlag, hb', Bool.not_false, Bool.true_and] at h0
            refine ⟨by simp [hc, h0], ?_⟩
            intro e' he'; rw [key e' he']; exact hall e' (by simp [he'])
      | none =>
        -- new key: converted and collected for `extend`
        have hes : e.1 ∉ keysOf s := (aux_lookup_none_iff s e.1).1 hs
        have st1 : mapMergeStep L (s, p, c) e = (s, p ++ [(e.1, L.lfrom e.2)], true) := by
          simp [mapMergeStep, hb', hs]
        rw [st1]
        have inv' : StInv S s (p ++ [(e.1, L.lfrom e.2)]) l :=
          { ns := inv.ns
            np := by
              simp only [keysOf, List.map_append, List.map_cons, List.map_nil]
              rw [List.nodup_append]; refine ⟨inv.np, by simp, ?_⟩
              intro a ha b hb2; simp at hb2; subst hb2; intro heq; subst heq; exact hep ha
            nl := nl'
            dps := by
              intro k hk; simp only [keysOf, List.map_append, List.mem_append] at hk
              rcases hk with hk | hk
              · exact inv.dps k hk
              · simp at hk; subst hk; exact hes
            dlp := by
              intro k hk; simp only [keysOf, List.map_append, List.mem_append, not_or]
              refine ⟨inv.dlp k (by simp [keysOf] at hk ⊢; exact Or.inr hk), ?_⟩
              simp; intro heq; subst heq; exact hel hk
            ws := inv.ws
            wp := by
              intro e' he'; simp only [List.mem_append] at he'
              rcases he' with h1 | h1
              · exact inv.wp e' h1
              · simp at h1; subst h1; simp only; rw [h.lfrom_id _ we]; exact we
            wl := fun e' he' => inv.wl e' (by simp [he']) }
        obtain ⟨i1, i2, i3⟩ := ih s _ true inv'
        refine ⟨i1, ?_, ?_⟩
        · intro k; rw [i2 k, aux_lookup_cons']
          by_cases hk : k = e.1
          · subst hk
            simp [lkl, mo, hb', List.lookup_append, hs, lkp]
          · have : (s ++ (p ++ [(e.1, L.lfrom e.2)])).lookup k = (s ++ p).lookup k := by
              simp only [List.lookup_append]
              have : List.lookup k [(e.1, L.lfrom e.2)] = none := by rw [aux_lookup_cons']; simp [hk]
              rw [this]; simp
            rw [this]; simp [hk]
        · rw [i3]
          constructor
          · rintro ⟨hc, _⟩; cases hc
          · rintro ⟨_, hall⟩
            have h0 := hall e (by simp)
            rw [lksp, hs] at h0
            simp [moFlag, hb'] at h0

theorem aux_lookup_wf (m : List (Nat × β)) (wm : (Sem.map L S).wf m) (k : Nat) : optWf S (m.lookup k) := by
  cases hl : m.lookup k with
  | none => trivial
  | some v => exact wm.2 _ (aux_lookup_mem m k v hl)

theorem aux_mapMerge_char (h : LawfulA L S) (a b : List (Nat × β))
    (wa : (Sem.map L S).wf a) (wb : (Sem.map L S).wf b) :
    (Sem.map L S).wf (mapMerge L a b).1 ∧
    (∀ k, (mapMerge L a b).1.lookup k = mo L (a.lookup k) (b.lookup k)) ∧
    ((mapMerge L a b).2 = false ↔ ∀ e ∈ b, moFlag L (a.lookup e.1) e.2 = false) := by
  have inv0 : StInv S a [] b :=
    { ns := wa.1, np := by simp [keysOf], nl := wb.1, dps := by simp [keysOf], dlp := by simp [keysOf],
      ws := wa.2, wp := by simp, wl := wb.2 }
  obtain ⟨i1, i2, i3⟩ := aux_fold_inv h b a [] false inv0
  simp only [foldSt, List.append_nil] at i1 i2 i3
  have hext := aux_mapExtend_append _ _ i1.dps i1.np
  refine ⟨?_, ?_, ?_⟩
  · show (keysOf (mapMerge L a b).1).Nodup ∧ ∀ e ∈ (mapMerge L a b).1, S.wf e.2
    simp only [mapMerge, hext]
    constructor
    · simp only [keysOf, List.map_append]
      rw [List.nodup_append]
      refine ⟨i1.ns, i1.np, ?_⟩
      intro x hx y hy heq; subst heq; exact i1.dps _ hy hx
    · intro e he; rcases List.mem_append.1 he with h1 | h1
      · exact i1.ws e h1
      · exact i1.wp e h1
  · intro k; simp only [mapMerge, hext]; exact i2 k
  · simp only [mapMerge]; rw [i3]; simp

theorem aux_mo_eqv (h : LawfulA L S) (sx so : Option β) (wx : optWf S sx) (wo : optWf S so) :
    optEqv L S (mo L sx so) ((Lat.withBot L).merge sx so).1 := by
  cases so with
  | none => cases sx <;> simp only [mo, Lat.withBot] <;> exact aux_optEqv_refl h _ wx
  | some y =>
    cases sx with
    | none =>
      simp only [mo, Lat.withBot]
      cases hb : L.isBot y <;> simp [optEqv]
      rw [h.lfrom_id y wo]; exact h.refl y wo
    | some x =>
      simp only [mo, Lat.withBot]
      cases hb : L.isBot y <;> simp only [optEqv, Bool.false_eq_true, if_false, if_true]
      · exact h.refl _ (h.merge_wf x y wx wo)
      · exact h.symm _ _ (h.merge_wf x y wx wo) wx (h.bot_right wx wo hb).2

theorem aux_moFlag_wb (h : LawfulA L S) (sx : Option β) (y : β) (wx : optWf S sx) (wy : S.wf y) :
    moFlag L sx y = ((Lat.withBot L).merge sx (some y)).2 := by
  cases sx with
  | none => simp only [moFlag, Lat.withBot]; cases hb : L.isBot y <;> simp
  | some x =>
    simp only [moFlag, Lat.withBot]
    cases hb : L.isBot y <;> simp
    exact (h.bot_right wx wy hb).1

theorem aux_mapMerge_flag (h : LawfulA L S) (a b : List (Nat × β))
    (wa : (Sem.map L S).wf a) (wb : (Sem.map L S).wf b) :
    (mapMerge L a b).2 = false ↔ ∀ k, ((Lat.withBot L).merge (a.lookup k) (b.lookup k)).2 = false := by
  rw [(aux_mapMerge_char h a b wa wb).2.2]
  constructor
  · intro hall k
    cases hl : b.lookup k with
    | none => cases a.lookup k <;> rfl
    | some y =>
      have hm := aux_lookup_mem b k y hl
      rw [← aux_moFlag_wb h _ y (aux_lookup_wf a wa k) (wb.2 _ hm)]
      exact hall (k, y) hm
  · intro hall e he
    have := hall e.1
    rw [aux_lookup_of_mem b wb.1 e he] at this
    rw [aux_moFlag_wb h _ e.2 (aux_lookup_wf a wa e.1) (wb.2 e he)]; exact this

theorem aux_mapMerge_lookup (h : LawfulA L S) (a b : List (Nat × β))
    (wa : (Sem.map L S).wf a) (wb : (Sem.map L S).wf b) (k : Nat) :
    optEqv L S ((mapMerge L a b).1.lookup k) ((Lat.withBot L).merge (a.lookup k) (b.lookup k)).1 := by
  rw [(aux_mapMerge_char h a b wa wb).2.1 k]
  exact aux_mo_eqv h _ _ (aux_lookup_wf a wa k) (aux_lookup_wf b wb k)

theorem lawfulA_map (h : LawfulA L S) : LawfulA (Lat.map L) (Sem.map L S) := by
  have W := lawfulA_withBot h
  have lw := fun (m : List (Nat × β)) (wm : (Sem.map L S).wf m) (k : Nat) => aux_lookup_wf m wm k
  have mw := fun (a b : List (Nat × β)) (wa : (Sem.map L S).wf a) (wb : (Sem.map L S).wf b) =>
    (aux_mapMerge_char h a b wa wb).1
  have ml := aux_mapMerge_lookup h
  exact
  { inh := ⟨[], by simp [Sem.map]⟩
    refl := fun a wa k => W.refl _ (lw a wa k)
    symm := fun a b wa wb e k => W.symm _ _ (lw a wa k) (lw b wb k) (e k)
    trans := fun a b c wa wb wc e1 e2 k => W.trans _ _ _ (lw a wa k) (lw b wb k) (lw c wc k) (e1 k) (e2 k)
    merge_wf := mw
    merge_congr := by
      intro a a' b b' wa wa' wb wb' e1 e2 k
      have w1 := lw _ (mw a b wa wb) k
      have w2 := lw _ (mw a' b' wa' wb') k
      have c1 := W.merge_wf _ _ (lw a wa k) (lw b wb k)
      have c2 := W.merge_wf _ _ (lw a' wa' k) (lw b' wb' k)
      exact W.trans _ _ _ w1 c1 w2 (ml a b wa wb k)
        (W.trans _ _ _ c1 c2 w2
          (W.merge_congr _ _ _ _ (lw a wa k) (lw a' wa' k) (lw b wb k) (lw b' wb' k) (e1 k) (e2 k))
          (W.symm _ _ w2 c2 (ml a' b' wa' wb' k)))
    comm := by
      intro a b wa wb k
      have w1 := lw _ (mw a b wa wb) k
      have w2 := lw _ (mw b a wb wa) k
      have c1 := W.merge_wf _ _ (lw a wa k) (lw b wb k)
      have c2 := W.merge_wf _ _ (lw b wb k) (lw a wa k)
      exact W.trans _ _ _ w1 c1 w2 (ml a b wa wb k)
        (W.trans _ _ _ c1 c2 w2 (W.comm _ _ (lw a wa k) (lw b wb k)) (W.symm _ _ w2 c2 (ml b a wb wa k)))
    assoc := by
      intro a b c wa wb wc k
      have wab := mw a b wa wb
      have wbc := mw b c wb wc
      have la := lw a wa k; have lb := lw b wb k; have lc := lw c wc k
      have lab := lw _ wab k; have lbc := lw _ wbc k
      have w1 := lw _ (mw _ c wab wc) k
      have w2 := lw _ (mw a _ wa wbc) k
      have cab := W.merge_wf _ _ la lb
      have cbc := W.merge_wf _ _ lb lc
      have s1 := ml _ c wab wc k        -- ((a⊔b)⊔c)[k] ≈ (a⊔b)[k] ⊔ c[k]
      have s2 := W.merge_congr _ _ _ _ lab cab lc lc (ml a b wa wb k) (W.refl _ lc)
      have s3 := W.assoc _ _ _ la lb lc
      have s4 := W.merge_congr _ _ _ _ la la lbc cbc (W.refl _ la) (ml b c wb wc k)
      have s5 := ml a _ wa wbc k
      have d1 := W.merge_wf _ _ lab lc
      have d2 := W.merge_wf _ _ cab lc
      have d3 := W.merge_wf _ _ la cbc
      have d4 := W.merge_wf _ _ la lbc
      exact W.trans _ _ _ w1 d1 w2 s1 (W.trans _ _ _ d1 d2 w2 s2 (W.trans _ _ _ d2 d3 w2 s3
        (W.trans _ _ _ d3 d4 w2 (W.symm _ _ d4 d3 s4) (W.symm _ _ w2 d4 s5))))
    idem := by
      intro a wa k
      have la := lw a wa k
      exact W.trans _ _ _ (lw _ (mw a a wa wa) k) (W.merge_wf _ _ la la) la (ml a a wa wa k) (W.idem _ la)
    flag := by
      intro a b wa wb
      show (mapMerge L a b).2 = false ↔ ∀ k, optEqv L S ((mapMerge L a b).1.lookup k) (a.lookup k)
      rw [aux_mapMerge_flag h a b wa wb]
      constructor
      · intro hall k
        have la := lw a wa k; have lb := lw b wb k
        exact W.trans _ _ _ (lw _ (mw a b wa wb) k) (W.merge_wf _ _ la lb) la (ml a b wa wb k)
          ((W.flag _ _ la lb).1 (hall k))
      · intro hall k
        have la := lw a wa k; have lb := lw b wb k
        rw [W.flag _ _ la lb]
        exact W.trans _ _ _ (W.merge_wf _ _ la lb) (lw _ (mw a b wa wb) k) la
          (W.symm _ _ (lw _ (mw a b wa wb) k) (W.merge_wf _ _ la lb) (ml a b wa wb k)) (hall k)
    isBot_iff := by
      intro a wa
      show (a.all fun e => L.isBot e.2) = true ↔ ∀ b, (Sem.map L S).wf b → (mapMerge L b a).2 = false
      constructor
      · intro hall b wb
        rw [aux_mapMerge_flag h b a wb wa]
        intro k
        have hb : (Lat.withBot L).isBot (a.lookup k) = true := by
          cases hl : a.lookup k with
          | none => rfl
          | some v =>
            have := aux_lookup_mem a k v hl
            simp only [List.all_eq_true] at hall
            exact hall _ this
        exact (W.bot_right (lw b wb k) (lw a wa k) hb).1
      · intro hall
        have h0 := hall [] (by simp [Sem.map])
        rw [(aux_mapMerge_char h [] a (by simp [Sem.map]) wa).2.2] at h0
        simp only [List.all_eq_true]
        intro e he
        have := h0 e he
        simp only [List.lookup_nil, moFlag, Bool.and_true] at this
        simpa using this
    lfrom_id := by
      intro a wa
      show mapExtend [] (a.map fun e => (e.1, L.lfrom e.2)) = a
      have e1 : (a.map fun e => (e.1, L.lfrom e.2)) = a := by
        have : ∀ e ∈ a, (fun e : Nat × β => (e.1, L.lfrom e.2)) e = e := by
          intro e he; simp only; rw [h.lfrom_id _ (wa.2 e he)]
        rw [List.map_congr_left this]; simp
      rw [e1, aux_mapExtend_append a [] (by simp [keysOf]) wa.1]; simp }

end HvLat
