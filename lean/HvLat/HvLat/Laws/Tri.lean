/-
`#[derive(Lattice)]` on three fields computes the same functions as `Pair<A, Pair<B, C>>`, so its
lawfulness is the lawfulness of nested pairs.
-/
import HvLat.Laws.WrapB

namespace HvLat

theorem aux_cmpField3 (ca cb cc : Option Ordering) :
    (cmpField ca false false fun sg og => cmpField cb sg og fun sg og => cmpField cc sg og fun sg og => finalCmp sg og) =
    cmpField ca false false fun sg og =>
      cmpField (cmpField cb false false fun sg og => cmpField cc sg og fun sg og => finalCmp sg og) sg og
        fun sg og => finalCmp sg og := by
  cases ca with
  | none => rfl
  | some a =>
    cases cb with
    | none => cases a <;> rfl
    | some b =>
      cases cc with
      | none => cases a <;> cases b <;> rfl
      | some c => cases a <;> cases b <;> cases c <;> rfl

theorem tri_eq_pair (A : Lat α) (B : Lat β) (C : Lat γ) :
    Lat.tri A B C = Lat.pair A (Lat.pair B C) := by
  unfold Lat.tri Lat.pair
  congr 1
  · funext s o; simp [Bool.or_assoc]
  · funext s o; exact aux_cmpField3 _ _ _
  · funext s o
    cases h1 : A.beq s.1 o.1 <;> cases h2 : B.beq s.2.1 o.2.1 <;> cases h3 : C.beq s.2.2 o.2.2 <;> simp [h1, h2, h3]
  · funext s
    cases h1 : A.isBot s.1 <;> cases h2 : B.isBot s.2.1 <;> cases h3 : C.isBot s.2.2 <;> simp [h1, h2, h3]
  · funext s
    cases h1 : A.isTop s.1 <;> cases h2 : B.isTop s.2.1 <;> cases h3 : C.isTop s.2.2 <;> simp [h1, h2, h3]
  · cases h1 : A.dflt <;> cases h2 : B.dflt <;> cases h3 : C.dflt <;> simp [h1, h2, h3]

variable {A : Lat α} {B : Lat β} {C : Lat γ} {SA : Sem α} {SB : Sem β} {SC : Sem γ}

theorem lawfulA_tri (ha : LawfulA A SA) (hb : LawfulA B SB) (hc : LawfulA C SC) :
    LawfulA (Lat.tri A B C) (Sem.prod SA (Sem.prod SB SC)) := by
  rw [tri_eq_pair]; exact lawfulA_pair ha (lawfulA_pair hb hc)

theorem lawfulB_tri (ha : LawfulA A SA) (hb : LawfulA B SB) (hc : LawfulA C SC)
    (hBa : LawfulB A SA) (hBb : LawfulB B SB) (hBc : LawfulB C SC) :
    LawfulB (Lat.tri A B C) (Sem.prod SA (Sem.prod SB SC)) := by
  rw [tri_eq_pair]; exact lawfulB_pair ha (lawfulA_pair hb hc) hBa (lawfulB_pair hb hc hBb hBc)

end HvLat
