import HvLat.Laws.Basic

namespace HvLat
variable {L : Lat β} {S : Sem β}

theorem lawfulA_withTop (h : LawfulA L S) : LawfulA (Lat.withTop L) (Sem.withTop S) where
  inh := ⟨none, trivial⟩
  refl := by
    intro a wa; cases a with
    | none => trivial
    | some x => exact h.refl x wa
  symm := by
    intro a b wa wb e
    cases a <;> cases b <;> simp only [Sem.withTop] at e ⊢
    exact h.symm _ _ wa wb e
  trans := by
    intro a b c wa wb wc e1 e2
    cases a <;> cases b <;> cases c <;> simp only [Sem.withTop] at e1 e2 ⊢
    exact h.trans _ _ _ wa wb wc e1 e2
  merge_wf := by
    intro a b wa wb
    cases a <;> cases b <;> simp only [Sem.withTop, Lat.withTop, optWf] at *
    exact h.merge_wf _ _ wa wb
  merge_congr := by
    intro a a' b b' wa wa' wb wb' e1 e2
    cases a <;> cases a' <;> cases b <;> cases b' <;>
      simp only [Sem.withTop, Lat.withTop, optWf] at * <;> try trivial
    exact h.merge_congr _ _ _ _ wa wa' wb wb' e1 e2
  comm := by
    intro a b wa wb
    cases a <;> cases b <;> simp only [Sem.withTop, Lat.withTop, optWf] at * <;> try trivial
    exact h.comm _ _ wa wb
  assoc := by
    intro a b c wa wb wc
    cases a <;> cases b <;> cases c <;> simp only [Sem.withTop, Lat.withTop, optWf] at * <;> try trivial
    exact h.assoc _ _ _ wa wb wc
  idem := by
    intro a wa
    cases a <;> simp only [Sem.withTop, Lat.withTop, optWf] at * <;> try trivial
    exact h.idem _ wa
  flag := by
    intro a b wa wb
    cases a <;> cases b <;> simp only [Sem.withTop, Lat.withTop, optWf] at * <;> try simp
    exact h.flag _ _ wa wb
  isBot_iff := by
    intro a wa
    cases a with
    | none =>
      simp only [Lat.withTop]
      constructor
      · intro hh; cases hh
      · intro hall
        obtain ⟨x, wx⟩ := h.inh
        have := hall (some x) wx
        simp at this
    | some x =>
      simp only [Lat.withTop]
      rw [h.isBot_iff x wa]
      constructor
      · intro hall b wb
        cases b with
        | none => rfl
        | some s => exact hall s wb
      · intro hall s ws; exact hall (some s) ws
  lfrom_id := by
    intro a wa
    cases a with
    | none => rfl
    | some x => simp only [Lat.withTop, Option.map]; rw [h.lfrom_id x wa]

end HvLat
