import HvLat.Laws.BasicB
import HvLat.Laws.WrapB
import HvLat.Laws.Map

namespace HvLat
variable {L : Lat β} {S : Sem β}

/-- the receiver entry `s` changes when `o` is merged in (per-key flag) -/
abbrev kflag (L : Lat β) (a b : List (Nat × β)) (k : Nat) : Bool :=
  ((Lat.withBot L).merge (a.lookup k) (b.lookup k)).2

theorem aux_wbflag_nonbot (h : LawfulA L S) (s o : Option β) (ws : optWf S s) (wo : optWf S o)
    (hf : ((Lat.withBot L).merge s o).2 = true) : ∃ y, o = some y ∧ L.isBot y = false := by
  cases o with
  | none => cases s <;> simp [Lat.withBot] at hf
  | some y =>
    refine ⟨y, rfl, ?_⟩
    cases hb : L.isBot y
    · rfl
    · have := (aux_wb_bot_right h s (some y) ws wo (by simpa [Lat.withBot] using hb)).1
      rw [this] at hf; cases hf

theorem aux_mem_keysNB (m : List (Nat × β)) (k : Nat) :
    k ∈ mapKeysNB L m ↔ ∃ e ∈ m, L.isBot e.2 = false ∧ e.1 = k := by
  simp [mapKeysNB]
  constructor
  · rintro ⟨x, hm, hb⟩; exact ⟨k, x, hm, hb, rfl⟩
  · rintro ⟨a, b, hm, hb, rfl⟩; exact ⟨b, hm, hb⟩

/-- at a key of the comparison loop, a one-sided entry is non-bottom -/
def Good (L : Lat β) (a b : List (Nat × β)) (k : Nat) : Prop :=
  (∀ x, a.lookup k = some x → b.lookup k = none → L.isBot x = false) ∧
  (∀ y, a.lookup k = none → b.lookup k = some y → L.isBot y = false)

theorem aux_good_of_mem (a b : List (Nat × β)) (wa : (Sem.map L S).wf a) (wb : (Sem.map L S).wf b)
    (k : Nat) (hk : k ∈ mapKeysNB L a ++ mapKeysNB L b) : Good L a b k := by
  have key : ∀ (m : List (Nat × β)), (Sem.map L S).wf m → k ∈ mapKeysNB L m →
      ∃ v, m.lookup k = some v ∧ L.isBot v = false := by
    intro m wm hm
    obtain ⟨e, he, hb, rfl⟩ := (aux_mem_keysNB m k).1 hm
    exact ⟨e.2, aux_lookup_of_mem m wm.1 e he, hb⟩
  constructor
  · intro x hx hn
    rcases List.mem_append.1 hk with h1 | h1
    · obtain ⟨v, hv, hb⟩ := key a wa h1; rw [hx] at hv; cases hv; exact hb
    · obtain ⟨v, hv, _⟩ := key b wb h1; rw [hn] at hv; cases hv
  · intro y hn hy
    rcases List.mem_append.1 hk with h1 | h1
    · obtain ⟨v, hv, _⟩ := key a wa h1; rw [hn] at hv; cases hv
    · obtain ⟨v, hv, hb⟩ := key b wb h1; rw [hy] at hv; cases hv; exact hb

theorem aux_mapCmpLoop (hB : LawfulB L S) (a b : List (Nat × β))
    (wa : (Sem.map L S).wf a) (wb : (Sem.map L S).wf b) (ks : List Nat)
    (hg : ∀ k ∈ ks, Good L a b k) (sg og : Bool) :
    mapCmpLoop L a b ks sg og =
      finalCmp (sg || ks.any (kflag L b a)) (og || ks.any (kflag L a b)) := by
  induction ks generalizing sg og with
  | nil => simp [mapCmpLoop]
  | cons k ks ih =>
    have i := fun sg og => ih (fun k' hk' => hg k' (by simp [hk'])) sg og
    have g := hg k (by simp)
    simp only [mapCmpLoop, List.any_cons, kflag]
    cases ha : a.lookup k with
    | none =>
      cases hb : b.lookup k with
      | none =>
        simp only [i, Lat.withBot, kflag]
        cases sg <;> cases og <;> simp [finalCmp]
      | some y =>
        have nb := g.2 y ha hb
        simp only [i, Lat.withBot, kflag, nb]
        cases sg <;> cases og <;> simp [finalCmp]
    | some x =>
      cases hb : b.lookup k with
      | none =>
        have nb := g.1 x ha hb
        simp only [i, Lat.withBot, kflag, nb]
        cases sg <;> cases og <;> simp [finalCmp]
      | some y =>
        have wx := wa.2 _ (aux_lookup_mem a k x ha)
        have wy := wb.2 _ (aux_lookup_mem b k y hb)
        simp only [hB.cmp_naive x y wx wy, Lat.naive, i, Lat.withBot, kflag]
        cases (L.merge x y).2 <;> cases (L.merge y x).2 <;> cases sg <;> cases og <;> simp [finalCmp]

theorem aux_any_kflag (h : LawfulA L S) (a b : List (Nat × β))
    (wa : (Sem.map L S).wf a) (wb : (Sem.map L S).wf b) (ks : List Nat)
    (hks : ∀ k, k ∈ mapKeysNB L b → k ∈ ks) :
    ks.any (kflag L a b) = (mapMerge L a b).2 := by
  have e := aux_mapMerge_flag h a b wa wb
  cases hf : (mapMerge L a b).2
  · have := e.1 hf
    simp only [List.any_eq_false, kflag]
    intro k _; simp [this k]
  · have : ¬ ∀ k, kflag L a b k = false := fun hall => by
      have := e.2 hall; rw [this] at hf; cases hf
    simp only [List.any_eq_true]
    have ⟨k, hk⟩ : ∃ k, kflag L a b k = true :=
      Classical.byContradiction fun hne => this (fun k => by
        cases hk : kflag L a b k
        · rfl
        · exact absurd ⟨k, hk⟩ hne)
    refine ⟨k, hks k ?_, hk⟩
    obtain ⟨y, hy, hb⟩ := aux_wbflag_nonbot h _ _ (aux_lookup_wf a wa k) (aux_lookup_wf b wb k) hk
    exact (aux_mem_keysNB b k).2 ⟨(k, y), aux_lookup_mem b k y hy, hb, rfl⟩

/-- one key of the `==` loop -/
def eqStep (L : Lat β) (a b : List (Nat × β)) (k : Nat) : Prop :=
  match a.lookup k, b.lookup k with
  | some x, some y => L.beq x y = true
  | none, none => True
  | _, _ => False

theorem aux_mapEqLoop (a b : List (Nat × β)) (ks : List Nat) :
    mapEqLoop L a b ks = true ↔ ∀ k ∈ ks, eqStep L a b k := by
  induction ks with
  | nil => simp [mapEqLoop]
  | cons k ks ih =>
    simp only [mapEqLoop, List.mem_cons, forall_eq_or_imp, eqStep]
    cases a.lookup k <;> cases b.lookup k <;> simp [ih, eqStep]

theorem aux_not_mem_keysNB (m : List (Nat × β)) (k : Nat)
    (hk : k ∉ mapKeysNB L m) : (Lat.withBot L).isBot (m.lookup k) = true := by
  cases hl : m.lookup k with
  | none => rfl
  | some v =>
    simp only [Lat.withBot]
    cases hb : L.isBot v
    · exact absurd ((aux_mem_keysNB m k).2 ⟨(k, v), aux_lookup_mem m k v hl, hb, rfl⟩) hk
    · rfl

theorem lawfulB_map (h : LawfulA L S) (hB : LawfulB L S) (nd : Nondeg L S) :
    LawfulB (Lat.map L) (Sem.map L S) where
  cmp_naive := by
    intro a b wa wb
    show mapCmp L a b = _
    rw [naive_eq]
    show mapCmp L a b = finalCmp (mapMerge L b a).2 (mapMerge L a b).2
    unfold mapCmp
    rw [aux_mapCmpLoop hB a b wa wb _ (fun k hk => aux_good_of_mem a b wa wb k hk)]
    rw [aux_any_kflag h a b wa wb _ (fun k hk => List.mem_append.2 (Or.inr hk)),
        aux_any_kflag h b a wb wa _ (fun k hk => List.mem_append.2 (Or.inl hk))]
    simp
  beq_iff := by
    intro a b wa wb
    show mapEq L a b = true ↔ ∀ k, optEqv L S (a.lookup k) (b.lookup k)
    unfold mapEq
    rw [aux_mapEqLoop]
    have W := lawfulA_withBot h
    have stepiff : ∀ k, Good L a b k → (eqStep L a b k ↔ optEqv L S (a.lookup k) (b.lookup k)) := by
      intro k g
      unfold eqStep
      cases ha : a.lookup k with
      | none =>
        cases hb : b.lookup k with
        | none => simp [optEqv]
        | some y => simp [optEqv, g.2 y ha hb]
      | some x =>
        cases hb : b.lookup k with
        | none => simp [optEqv, g.1 x ha hb]
        | some y =>
          simp only [optEqv]
          exact hB.beq_iff x y (wa.2 _ (aux_lookup_mem a k x ha)) (wb.2 _ (aux_lookup_mem b k y hb))
    constructor
    · intro hall k
      by_cases hk : k ∈ mapKeysNB L a ++ mapKeysNB L b
      · exact (stepiff k (aux_good_of_mem a b wa wb k hk)).1 (hall k hk)
      · simp only [List.mem_append, not_or] at hk
        exact W.bots_eqv (aux_lookup_wf a wa k) (aux_lookup_wf b wb k)
          (aux_not_mem_keysNB a k hk.1) (aux_not_mem_keysNB b k hk.2)
    · intro hall k hk
      exact (stepiff k (aux_good_of_mem a b wa wb k hk)).2 (hall k)
  isTop_iff := by
    intro a wa
    show false = true ↔ ∀ b, (Sem.map L S).wf b → (mapMerge L a b).2 = false
    constructor
    · intro hh; cases hh
    · intro hall
      obtain ⟨x, wx, hx⟩ := nd
      -- a fresh key carrying a non-bottom value always grows the map
      let k := (keysOf a).foldl max 0 + 1
      have hfresh : a.lookup k = none := by
        rw [aux_lookup_none_iff]
        intro hm
        have : ∀ (l : List Nat) (i : Nat) x, x ∈ l → x ≤ l.foldl max i := by
          intro l; induction l with
          | nil => intro i x hx; cases hx
          | cons y l ih =>
            intro i x hx; simp only [List.foldl_cons]
            rcases List.mem_cons.1 hx with rfl | hx
            · have : ∀ (l : List Nat) (i : Nat), i ≤ l.foldl max i := by
                intro l; induction l with
                | nil => intro i; simp
                | cons z l ih2 =>
                  intro i; simp only [List.foldl_cons]
                  exact Nat.le_trans (Nat.le_max_left _ _) (ih2 _)
              exact Nat.le_trans (Nat.le_max_right _ _) (this l _)
            · exact ih _ x hx
        have := this (keysOf a) 0 k hm
        simp only [k] at this; omega
      have wb : (Sem.map L S).wf [(k, x)] := ⟨by simp, by intro e he; simp at he; subst he; exact wx⟩
      have := hall [(k, x)] wb
      rw [(aux_mapMerge_char h a [(k, x)] wa wb).2.2] at this
      have := this (k, x) (by simp)
      simp [moFlag, hfresh, hx] at this
  dflt_bot := by
    intro d hd; simp [Lat.map] at hd; subst hd
    exact ⟨⟨by simp, (fun e he => nomatch he)⟩, rfl⟩

end HvLat
