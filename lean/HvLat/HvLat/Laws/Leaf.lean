import HvLat.Laws.Basic

namespace HvLat

theorem lawfulA_maxN (bound : Nat) : LawfulA (Lat.maxN bound) (Sem.bounded bound) where
  inh := ⟨0, Nat.zero_le _⟩
  refl := by intros; rfl
  symm := by intro a b _ _ e; exact e.symm
  trans := by intro a b c _ _ _ e1 e2; exact e1.trans e2
  merge_wf := by intro a b wa wb; simp only [Lat.maxN, Sem.bounded] at *; split <;> assumption
  merge_congr := by intro a a' b b' _ _ _ _ e1 e2; simp only [Sem.bounded] at e1 e2; subst e1 e2; rfl
  comm := by intro a b _ _; simp only [Lat.maxN, Sem.bounded]; split <;> split <;> simp <;> omega
  assoc := by
    intro a b c _ _ _; simp only [Lat.maxN, Sem.bounded]
    by_cases h1 : a < b <;> by_cases h2 : b < c <;> by_cases h3 : a < c <;> simp [h1, h2, h3] <;> omega
  idem := by intro a _; simp [Lat.maxN, Sem.bounded]
  flag := by intro a b _ _; simp only [Lat.maxN, Sem.bounded]; split <;> simp <;> omega
  isBot_iff := by
    intro a _; simp only [Lat.maxN, Sem.bounded]
    constructor
    · intro h b _; have : a = 0 := by simpa using h
      subst this; simp
    · intro h; have := h 0 (Nat.zero_le _); by_cases h0 : 0 < a <;> simp [h0] at this ⊢; omega
  lfrom_id := by intros; rfl

theorem lawfulA_minN (bound : Nat) : LawfulA (Lat.minN bound) (Sem.bounded bound) where
  inh := ⟨0, Nat.zero_le _⟩
  refl := by intros; rfl
  symm := by intro a b _ _ e; exact e.symm
  trans := by intro a b c _ _ _ e1 e2; exact e1.trans e2
  merge_wf := by intro a b wa wb; simp only [Lat.minN, Sem.bounded] at *; split <;> assumption
  merge_congr := by intro a a' b b' _ _ _ _ e1 e2; simp only [Sem.bounded] at e1 e2; subst e1 e2; rfl
  comm := by intro a b _ _; simp only [Lat.minN, Sem.bounded]; split <;> split <;> simp <;> omega
  assoc := by
    intro a b c _ _ _; simp only [Lat.minN, Sem.bounded]
    by_cases h1 : b < a <;> by_cases h2 : c < b <;> by_cases h3 : c < a <;> simp [h1, h2, h3] <;> omega
  idem := by intro a _; simp [Lat.minN, Sem.bounded]
  flag := by intro a b _ _; simp only [Lat.minN, Sem.bounded]; split <;> simp <;> omega
  isBot_iff := by
    intro a wa; simp only [Lat.minN, Sem.bounded] at *
    constructor
    · intro h b wb; have : a = bound := by simpa using h
      subst this; have : ¬ (a < b) := by omega
      simp [this]
    · intro h; have := h bound (Nat.le_refl _)
      by_cases h0 : a < bound <;> simp [h0] at this ⊢; omega
  lfrom_id := by intros; rfl

theorem lawfulA_maxB : LawfulA Lat.maxB (Sem.leaf Bool) where
  inh := ⟨false, trivial⟩
  refl := by intros; rfl
  symm := by intro a b _ _ e; exact e.symm
  trans := by intro a b c _ _ _ e1 e2; exact e1.trans e2
  merge_wf := by intros; trivial
  merge_congr := by intro a a' b b' _ _ _ _ e1 e2; simp only [Sem.leaf] at e1 e2; subst e1 e2; rfl
  comm := by intro a b _ _; simp only [Sem.leaf]; cases a <;> cases b <;> decide
  assoc := by intro a b c _ _ _; simp only [Sem.leaf]; cases a <;> cases b <;> cases c <;> decide
  idem := by intro a _; simp only [Sem.leaf]; cases a <;> decide
  flag := by intro a b _ _; simp only [Sem.leaf]; cases a <;> cases b <;> decide
  isBot_iff := by
    intro a _; constructor
    · intro h b _; revert h; cases a <;> cases b <;> decide
    · intro h; have h1 := h true trivial; have h2 := h false trivial
      revert h1 h2; cases a <;> decide
  lfrom_id := by intros; rfl

theorem lawfulA_minB : LawfulA Lat.minB (Sem.leaf Bool) where
  inh := ⟨false, trivial⟩
  refl := by intros; rfl
  symm := by intro a b _ _ e; exact e.symm
  trans := by intro a b c _ _ _ e1 e2; exact e1.trans e2
  merge_wf := by intros; trivial
  merge_congr := by intro a a' b b' _ _ _ _ e1 e2; simp only [Sem.leaf] at e1 e2; subst e1 e2; rfl
  comm := by intro a b _ _; simp only [Sem.leaf]; cases a <;> cases b <;> decide
  assoc := by intro a b c _ _ _; simp only [Sem.leaf]; cases a <;> cases b <;> cases c <;> decide
  idem := by intro a _; simp only [Sem.leaf]; cases a <;> decide
  flag := by intro a b _ _; simp only [Sem.leaf]; cases a <;> cases b <;> decide
  isBot_iff := by
    intro a _; constructor
    · intro h b _; revert h; cases a <;> cases b <;> decide
    · intro h; have h1 := h true trivial; have h2 := h false trivial
      revert h1 h2; cases a <;> decide
  lfrom_id := by intros; rfl

theorem lawfulA_unit : LawfulA Lat.unit (Sem.leaf Unit) where
  inh := ⟨(), trivial⟩
  refl := by intros; rfl
  symm := by intro a b _ _ e; exact e.symm
  trans := by intro a b c _ _ _ e1 e2; exact e1.trans e2
  merge_wf := by intros; trivial
  merge_congr := by intros; rfl
  comm := by intros; rfl
  assoc := by intros; rfl
  idem := by intros; rfl
  flag := by intros; simp [Lat.unit, Sem.leaf]
  isBot_iff := by intros; simp [Lat.unit]
  lfrom_id := by intros; rfl

theorem aux_conflict_merge (a b : Option Nat) :
    Lat.conflict.merge a b =
      match a, b with
      | some x, some y => if x = y then (some x, false) else (none, true)
      | some _, none => (none, true)
      | none, _ => (none, false) := by
  cases a <;> cases b <;> simp [Lat.conflict]

theorem lawfulA_conflict : LawfulA Lat.conflict (Sem.leaf (Option Nat)) where
  inh := ⟨none, trivial⟩
  refl := by intros; rfl
  symm := by intro a b _ _ e; exact e.symm
  trans := by intro a b c _ _ _ e1 e2; exact e1.trans e2
  merge_wf := by intros; trivial
  merge_congr := by intro a a' b b' _ _ _ _ e1 e2; simp only [Sem.leaf] at e1 e2; subst e1 e2; rfl
  comm := by
    intro a b _ _; simp only [Sem.leaf, aux_conflict_merge]
    cases a <;> cases b <;> grind
  assoc := by
    intro a b c _ _ _; simp only [Sem.leaf, aux_conflict_merge]
    cases a <;> cases b <;> cases c <;> grind
  idem := by intro a _; simp only [Sem.leaf, aux_conflict_merge]; cases a <;> simp
  flag := by
    intro a b _ _; simp only [Sem.leaf, aux_conflict_merge]
    cases a <;> cases b <;> grind
  isBot_iff := by
    intro a _; simp only [Lat.conflict]
    constructor
    · intro h; cases h
    · intro h
      cases a with
      | none => have := h (some 0) trivial; simp at this
      | some x => have := h (some (x + 1)) trivial; simp at this
  lfrom_id := by intros; rfl

end HvLat
