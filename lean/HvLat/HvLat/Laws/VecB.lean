import HvLat.Laws.BasicB
import HvLat.Laws.Vec

namespace HvLat
variable {L : Lat β} {S : Sem β}

/-- some zipped position changes when merging `b` into `a` -/
def zf (L : Lat β) : List β → List β → Bool
  | x :: a, y :: b => (L.merge x y).2 || zf L a b
  | _, _ => false

theorem aux_vm_flag_eq (a b : List β) :
    (vmSpec L a b).2 = (decide (a.length < b.length) || zf L a b) := by
  induction a generalizing b with
  | nil => cases b <;> simp [vmSpec, zf]
  | cons x a ih =>
    cases b with
    | nil => simp [vmSpec, zf]
    | cons y b =>
      simp only [vmSpec, zf, ih b, List.length_cons, Nat.add_lt_add_iff_right]
      cases (L.merge x y).2 <;> cases decide (a.length < b.length) <;> simp

theorem aux_vecCmpLoop (hB : LawfulB L S) (a b : List β)
    (wa : ∀ x ∈ a, S.wf x) (wb : ∀ x ∈ b, S.wf x) (sg og : Bool) :
    vecCmpLoop L a b sg og = finalCmp (sg || zf L b a) (og || zf L a b) := by
  induction a generalizing b sg og with
  | nil => cases b <;> simp [vecCmpLoop, zf]
  | cons x a ih =>
    cases b with
    | nil => simp [vecCmpLoop, zf]
    | cons y b =>
      have i := fun sg og => ih b (fun z hz => wa z (by simp [hz])) (fun z hz => wb z (by simp [hz])) sg og
      simp only [vecCmpLoop, zf, hB.cmp_naive x y (wa x (by simp)) (wb y (by simp)), Lat.naive, i]
      cases (L.merge x y).2 <;> cases (L.merge y x).2 <;> cases sg <;> cases og <;>
        cases zf L a b <;> cases zf L b a <;> rfl

theorem aux_vecEqLoop (h : LawfulA L S) (hB : LawfulB L S) (a b : List β)
    (wa : ∀ x ∈ a, S.wf x) (wb : ∀ x ∈ b, S.wf x) (hl : a.length = b.length) :
    vecEqLoop L a b = true ↔ listEqv S a b := by
  induction a generalizing b with
  | nil => cases b <;> simp_all [vecEqLoop, listEqv]
  | cons x a ih =>
    cases b with
    | nil => simp at hl
    | cons y b =>
      simp only [List.length_cons, Nat.add_right_cancel_iff] at hl
      simp only [vecEqLoop, listEqv, Bool.and_eq_true,
        hB.beq_iff x y (wa x (by simp)) (wb y (by simp)),
        ih b (fun z hz => wa z (by simp [hz])) (fun z hz => wb z (by simp [hz])) hl]

theorem aux_listEqv_len (a b : List β) (e : listEqv S a b) : a.length = b.length := by
  induction a generalizing b with
  | nil => cases b <;> simp_all [listEqv]
  | cons x a ih =>
    cases b with
    | nil => simp [listEqv] at e
    | cons y b => simp [ih b e.2]

theorem lawfulB_vec (h : LawfulA L S) (hB : LawfulB L S) : LawfulB (Lat.vec L) (Sem.vec S) where
  cmp_naive := by
    intro a b wa wb
    show vecCmp L a b = _
    rw [naive_eq]
    show vecCmp L a b = finalCmp (vecMerge L b a).2 (vecMerge L a b).2
    rw [aux_vecMerge_spec, aux_vecMerge_spec, aux_vm_flag_eq, aux_vm_flag_eq]
    unfold vecCmp
    rw [aux_vecCmpLoop hB a b wa wb]
  beq_iff := by
    intro a b wa wb
    show vecEq L a b = true ↔ listEqv S a b
    unfold vecEq
    by_cases hl : a.length = b.length
    · simp only [hl, bne_self_eq_false, Bool.false_eq_true, if_false]
      exact aux_vecEqLoop h hB a b wa wb hl
    · constructor
      · intro hh; simp [hl] at hh
      · intro e; exact absurd (aux_listEqv_len a b e) hl
  isTop_iff := by
    intro a wa
    show false = true ↔ ∀ b : List β, (∀ x ∈ b, S.wf x) → (vecMerge L a b).2 = false
    constructor
    · intro hh; cases hh
    · intro hall
      obtain ⟨x, wx⟩ := h.inh
      have := hall (a ++ [x]) (by
        intro y hy; rcases List.mem_append.1 hy with h1 | h1
        · exact wa y h1
        · simp at h1; subst h1; exact wx)
      rw [aux_vecMerge_spec, aux_vm_flag_eq] at this
      simp at this
  dflt_bot := by
    intro d hd; simp [Lat.vec] at hd; subst hd
    exact ⟨(fun x hx => nomatch hx), rfl⟩

end HvLat
