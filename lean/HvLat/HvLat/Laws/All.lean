import HvLat.Laws.Leaf
import HvLat.Laws.Set
import HvLat.Laws.WithBot
import HvLat.Laws.WithTop
import HvLat.Laws.Pair
import HvLat.Laws.Vec
import HvLat.Laws.Map

namespace HvLat

/-- the nestings covered by the layer-A induction (everything except `DomPair`, which needs the
comparison laws of its key and is handled in `Laws/DomPair.lean`) -/
def okA : LTy → Bool
  | .domPair _ _ => false
  | .map v => okA v
  | .withBot t => okA t
  | .withTop t => okA t
  | .vec t => okA t
  | .pair a b => okA a && okA b
  | _ => true

theorem lawfulA_all : ∀ t : LTy, okA t = true → LawfulA (lat t) (sem t)
  | .maxN b, _ => lawfulA_maxN b
  | .minN b, _ => lawfulA_minN b
  | .maxB, _ => lawfulA_maxB
  | .minB, _ => lawfulA_minB
  | .unit, _ => lawfulA_unit
  | .conflict, _ => lawfulA_conflict
  | .set, _ => lawfulA_set
  | .map v, h => lawfulA_map (lawfulA_all v (by simpa [okA] using h))
  | .withBot t, h => lawfulA_withBot (lawfulA_all t (by simpa [okA] using h))
  | .withTop t, h => lawfulA_withTop (lawfulA_all t (by simpa [okA] using h))
  | .vec t, h => lawfulA_vec (lawfulA_all t (by simpa [okA] using h))
  | .pair a b, h => by
    simp only [okA, Bool.and_eq_true] at h
    exact lawfulA_pair (lawfulA_all a h.1) (lawfulA_all b h.2)
  | .domPair _ _, h => by simp [okA] at h

end HvLat

namespace HvLat

/-- the domain of the property theorems: nestings of the shipped constructors -/
def ok (t : LTy) : Bool := okA t

theorem lawfulA_of_ok (t : LTy) (h : ok t = true) : LawfulA (lat t) (sem t) := lawfulA_all t h

end HvLat
