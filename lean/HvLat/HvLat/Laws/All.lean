import HvLat.Laws.Leaf
import HvLat.Laws.Set
import HvLat.Laws.WithBot
import HvLat.Laws.WithTop
import HvLat.Laws.Pair
import HvLat.Laws.Vec
import HvLat.Laws.Map

namespace HvLat

/-- syntactic check: the order of the type is total (what `DomPair` needs of its key) -/
def total : LTy → Bool
  | .maxN _ | .minN _ | .maxI _ | .minI _ | .maxB | .minB | .unit => true
  | .withBot t => total t
  | .withTop t => total t
  | .domPair k v => total k && total v
  | _ => false

/-- syntactic check: the type has a value that is not bottom (fails only for towers over `()`) -/
def nondeg : LTy → Bool
  | .maxN b => decide (0 < b)
  | .minN b => decide (0 < b)
  | .maxI _ => true
  | .minI _ => true
  | .maxB => true
  | .minB => true
  | .unit => false
  | .conflict => true
  | .set => true
  | .map v => nondeg v
  | .withBot t => nondeg t
  | .withTop _ => true
  | .pair a b => nondeg a || nondeg b
  | .domPair a b => nondeg a || nondeg b
  | .tri a b c => nondeg a || nondeg b || nondeg c
  | .vec _ => true

/-- domain of the C03 theorems: every nesting in which `DomPair` keys are totally ordered and
`MapUnion` / `WithBot` are not instantiated with a one-point value lattice (for those, `is_top` is
`false` although every value is greatest — see `degenerate_isTop_refuted` in Props/C03.lean) -/
def okB : LTy → Bool
  | .domPair k v => total k && okB k && okB v
  | .map v => nondeg v && okB v
  | .withBot t => nondeg t && okB t
  | .withTop t => okB t
  | .vec t => okB t
  | .pair a b => okB a && okB b
  | .tri a b c => okB a && okB b && okB c
  | _ => true

/-- domain of the C01/C02 theorems: every nesting of the shipped constructors; a `DomPair` key must
be totally ordered (the documented condition for `DomPair` to be a lattice) and itself in `okB`
(its comparison laws are used by `DomPair::merge`) -/
def okA : LTy → Bool
  | .domPair k v => total k && okB k && okA v
  | .map v => okA v
  | .withBot t => okA t
  | .withTop t => okA t
  | .vec t => okA t
  | .pair a b => okA a && okA b
  | .tri a b c => okA a && okA b && okA c
  | _ => true

end HvLat
