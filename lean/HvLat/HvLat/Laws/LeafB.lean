import HvLat.Laws.BasicB
import HvLat.Laws.Leaf
import HvLat.Laws.Set

namespace HvLat

theorem lawfulB_maxN (bound : Nat) : LawfulB (Lat.maxN bound) (Sem.bounded bound) where
  cmp_naive := by
    intro a b _ _
    simp only [Lat.maxN, Lat.naive, compare, compareOfLessAndEq]
    by_cases h1 : a < b <;> by_cases h2 : b < a <;> by_cases h3 : a = b <;> simp [h1, h2, h3] <;> omega
  beq_iff := by intro a b _ _; simp [Lat.maxN, Sem.bounded]
  isTop_iff := by
    intro a wa; simp only [Lat.maxN, Sem.bounded] at *
    constructor
    · intro h b wb; have : a = bound := by simpa using h
      have : ¬ a < b := by omega
      simp [this]
    · intro h; have := h bound (Nat.le_refl _)
      by_cases h0 : a < bound <;> simp [h0] at this ⊢; omega
  dflt_bot := by intro d hd; simp [Lat.maxN] at hd; subst hd; simp [Lat.maxN, Sem.bounded]

theorem lawfulB_minN (bound : Nat) : LawfulB (Lat.minN bound) (Sem.bounded bound) where
  cmp_naive := by
    intro a b _ _
    simp only [Lat.minN, Lat.naive, compare, compareOfLessAndEq]
    by_cases h1 : a < b <;> by_cases h2 : b < a <;> by_cases h3 : a = b <;>
      simp [h1, h2, h3, Ordering.swap] <;> omega
  beq_iff := by intro a b _ _; simp [Lat.minN, Sem.bounded]
  isTop_iff := by
    intro a _; simp only [Lat.minN, Sem.bounded]
    constructor
    · intro h b _; have : a = 0 := by simpa using h
      subst this; simp
    · intro h; have := h 0 (Nat.zero_le _); by_cases h0 : 0 < a <;> simp [h0] at this ⊢; omega
  dflt_bot := by intro d hd; simp [Lat.minN] at hd; subst hd; simp [Lat.minN, Sem.bounded]

theorem lawfulB_maxB : LawfulB Lat.maxB (Sem.leaf Bool) where
  cmp_naive := by intro a b _ _; cases a <;> cases b <;> decide
  beq_iff := by intro a b _ _; simp only [Sem.leaf]; cases a <;> cases b <;> decide
  isTop_iff := by
    intro a _; constructor
    · intro h b _; revert h; cases a <;> cases b <;> decide
    · intro h; have h1 := h true trivial; have h2 := h false trivial
      revert h1 h2; cases a <;> decide
  dflt_bot := by intro d hd; simp [Lat.maxB] at hd; subst hd; exact ⟨trivial, rfl⟩

theorem lawfulB_minB : LawfulB Lat.minB (Sem.leaf Bool) where
  cmp_naive := by intro a b _ _; cases a <;> cases b <;> decide
  beq_iff := by intro a b _ _; simp only [Sem.leaf]; cases a <;> cases b <;> decide
  isTop_iff := by
    intro a _; constructor
    · intro h b _; revert h; cases a <;> cases b <;> decide
    · intro h; have h1 := h true trivial; have h2 := h false trivial
      revert h1 h2; cases a <;> decide
  dflt_bot := by intro d hd; simp [Lat.minB] at hd; subst hd; exact ⟨trivial, rfl⟩

theorem lawfulB_unit : LawfulB Lat.unit (Sem.leaf Unit) where
  cmp_naive := by intros; rfl
  beq_iff := by intros; simp [Lat.unit, Sem.leaf]
  isTop_iff := by intros; simp [Lat.unit]
  dflt_bot := by intro d _; exact ⟨trivial, rfl⟩

theorem lawfulB_conflict : LawfulB Lat.conflict (Sem.leaf (Option Nat)) where
  cmp_naive := by
    intro a b _ _
    simp only [Lat.naive, aux_conflict_merge]
    cases a with
    | none => cases b <;> simp [Lat.conflict]
    | some x =>
      cases b with
      | none => simp [Lat.conflict]
      | some y =>
        by_cases h : x = y
        · subst h; simp [Lat.conflict]
        · have : ¬ y = x := fun e => h e.symm
          simp [Lat.conflict, h, this]
  beq_iff := by
    intro a b _ _; simp only [Sem.leaf, Lat.conflict]
    cases a <;> cases b <;> simp
  isTop_iff := by
    intro a _
    constructor
    · intro h b _; cases a with
      | none => simp [aux_conflict_merge]
      | some x => simp [Lat.conflict] at h
    · intro h
      cases a with
      | none => rfl
      | some x => have := h none trivial; simp [aux_conflict_merge] at this
  dflt_bot := by intro d hd; simp [Lat.conflict] at hd

theorem aux_all_contains (a b : List Nat) : (a.all fun k => b.contains k) = true ↔ ∀ x ∈ a, x ∈ b := by
  simp [List.all_eq_true]

/-- two duplicate-free lists, one contained in the other, have ordered lengths -/
theorem aux_nodup_subset_len (a b : List Nat) (ha : a.Nodup) (h : ∀ x ∈ a, x ∈ b) : a.length ≤ b.length := by
  induction a generalizing b with
  | nil => simp
  | cons x a ih =>
    have hx : x ∈ b := h x (by simp)
    rw [List.nodup_cons] at ha
    have := ih (b.erase x) ha.2 (by
      intro y hy
      have hyb := h y (by simp [hy])
      have : y ≠ x := by intro e; subst e; exact ha.1 hy
      exact (List.mem_erase_of_ne this).2 hyb)
    rw [List.length_erase_of_mem hx] at this
    have : 0 < b.length := List.length_pos_of_mem hx
    simp; omega

theorem aux_nodup_subset_eq_len (a b : List Nat) (ha : a.Nodup) (hb : b.Nodup)
    (h : ∀ x ∈ a, x ∈ b) (hl : b.length ≤ a.length) : ∀ x ∈ b, x ∈ a := by
  induction a generalizing b with
  | nil => intro x hx; have : b = [] := by cases b <;> simp_all
           subst this; cases hx
  | cons y a ih =>
    have hy : y ∈ b := h y (by simp)
    rw [List.nodup_cons] at ha
    have hbe : (b.erase y).Nodup := hb.erase y
    have := ih (b.erase y) ha.2 hbe (by
      intro z hz
      have hzb := h z (by simp [hz])
      have : z ≠ y := by intro e; subst e; exact ha.1 hz
      exact (List.mem_erase_of_ne this).2 hzb) (by
      rw [List.length_erase_of_mem hy]; simp at hl; omega)
    intro x hx
    by_cases e : x = y
    · subst e; simp
    · exact List.mem_cons_of_mem _ (this x ((List.mem_erase_of_ne e).2 hx))

theorem aux_setCmp (a b : List Nat) :
    setCmp a b =
      if a.length < b.length then (if ∀ x ∈ a, x ∈ b then some .lt else none)
      else if a.length = b.length then (if ∀ x ∈ a, x ∈ b then some .eq else none)
      else (if ∀ x ∈ b, x ∈ a then some .gt else none) := by
  unfold setCmp; simp only [compare, compareOfLessAndEq]
  by_cases h1 : a.length < b.length
  · simp [h1]
  · by_cases h2 : a.length = b.length
    · simp [h2]
    · simp [h1, h2]

theorem lawfulB_set : LawfulB Lat.set Sem.set where
  cmp_naive := by
    intro a b wa wb
    show setCmp a b = _
    rw [naive_eq]
    show setCmp a b = finalCmp (setMerge b a).2 (setMerge a b).2
    have fab := aux_setMerge_flag a b
    have fba := aux_setMerge_flag b a
    have hab := aux_nodup_subset_len a b wa
    have hba := aux_nodup_subset_len b a wb
    have eab := aux_nodup_subset_eq_len a b wa wb
    have eba := aux_nodup_subset_eq_len b a wb wa
    rw [aux_setCmp]
    by_cases c1 : ∀ x ∈ a, x ∈ b <;> by_cases c2 : ∀ x ∈ b, x ∈ a
    · have l1 := hab c1; have l2 := hba c2
      have f1 := fab.2 c2; have f2 := fba.2 c1
      have : a.length = b.length := by omega
      simp [this, f1, f2, finalCmp]; exact c1
    · have f2 := fba.2 c1
      have f1 : (setMerge a b).2 = true := by
        cases h : (setMerge a b).2
        · exact absurd (fab.1 h) c2
        · rfl
      have l1 := hab c1
      have : a.length < b.length := by
        rcases Nat.lt_or_ge a.length b.length with h | h
        · exact h
        · exact absurd (eab c1 h) c2
      simp [this, f1, f2, finalCmp]; exact c1
    · have f1 := fab.2 c2
      have f2 : (setMerge b a).2 = true := by
        cases h : (setMerge b a).2
        · exact absurd (fba.1 h) c1
        · rfl
      have : b.length < a.length := by
        rcases Nat.lt_or_ge b.length a.length with h | h
        · exact h
        · exact absurd (eba c2 h) c1
      have n1 : ¬ a.length < b.length := by omega
      have n2 : ¬ a.length = b.length := by omega
      simp [n1, n2, f1, f2, finalCmp]; exact c2
    · have f1 : (setMerge a b).2 = true := by
        cases h : (setMerge a b).2
        · exact absurd (fab.1 h) c2
        · rfl
      have f2 : (setMerge b a).2 = true := by
        cases h : (setMerge b a).2
        · exact absurd (fba.1 h) c1
        · rfl
      simp only [f1, f2, finalCmp, c1, c2, if_false]
      split <;> (try split) <;> rfl
  beq_iff := by
    intro a b wa wb
    show setEq a b = true ↔ ∀ x, x ∈ a ↔ x ∈ b
    unfold setEq
    constructor
    · intro h
      by_cases hl : a.length = b.length
      · simp only [hl, bne_self_eq_false, Bool.false_eq_true, if_false] at h
        have c1 := (aux_all_contains a b).1 h
        have c2 := aux_nodup_subset_eq_len a b wa wb c1 (by omega)
        exact fun x => ⟨c1 x, c2 x⟩
      · simp [hl] at h
    · intro h
      have c1 : ∀ x ∈ a, x ∈ b := fun x hx => (h x).1 hx
      have c2 : ∀ x ∈ b, x ∈ a := fun x hx => (h x).2 hx
      have := aux_nodup_subset_len a b wa c1
      have := aux_nodup_subset_len b a wb c2
      have hl : a.length = b.length := by omega
      simp [hl]; exact c1
  isTop_iff := by
    intro a _
    show false = true ↔ ∀ b : List Nat, b.Nodup → (setMerge a b).2 = false
    constructor
    · intro h; cases h
    · intro h
      -- a strictly larger set always exists: add an element above every member
      have hb := h [a.foldl max 0 + 1] (by simp)
      rw [aux_setMerge_flag] at hb
      have hm := hb (a.foldl max 0 + 1) (by simp)
      have : ∀ (l : List Nat) (i : Nat) x, x ∈ l → x ≤ l.foldl max i := by
        intro l; induction l with
        | nil => intro i x hx; cases hx
        | cons y l ih =>
          intro i x hx; simp only [List.foldl_cons]
          rcases List.mem_cons.1 hx with rfl | hx
          · have : ∀ (l : List Nat) (i : Nat), i ≤ l.foldl max i := by
              intro l; induction l with
              | nil => intro i; simp
              | cons z l ih2 => intro i; simp only [List.foldl_cons]; exact Nat.le_trans (Nat.le_max_left _ _) (ih2 _)
            exact Nat.le_trans (Nat.le_max_right _ _) (this l _)
          · exact ih _ x hx
      have := this a 0 _ hm
      omega
  dflt_bot := by intro d hd; simp [Lat.set] at hd; subst hd; exact ⟨List.nodup_nil, rfl⟩

end HvLat
