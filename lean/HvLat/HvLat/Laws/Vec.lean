import HvLat.Laws.Basic

namespace HvLat
variable {L : Lat β} {S : Sem β}

/-- pointwise reading of `VecUnion::merge` -/
def vmSpec (L : Lat β) : List β → List β → List β × Bool
  | x :: s, y :: o =>
    let r := L.merge x y
    let rest := vmSpec L s o
    (r.1 :: rest.1, r.2 || rest.2)
  | s, [] => (s, false)
  | [], y :: o => ((y :: o).map L.lfrom, true)

theorem aux_zip_append (s t o : List β) (hl : o.length = s.length) :
    vecZipMerge L (s ++ t) o = ((vecZipMerge L s o).1 ++ t, (vecZipMerge L s o).2) := by
  induction s generalizing o with
  | nil =>
    cases o with
    | nil => cases t <;> simp [vecZipMerge]
    | cons y o => simp at hl
  | cons x s ih =>
    cases o with
    | nil => simp at hl
    | cons y o =>
      simp only [List.length_cons, Nat.add_right_cancel_iff] at hl
      simp only [List.cons_append, vecZipMerge, ih o hl]

theorem aux_zip_spec (s o : List β) (hl : o.length ≤ s.length) :
    vecZipMerge L s o = vmSpec L s o := by
  induction s generalizing o with
  | nil =>
    cases o with
    | nil => simp [vecZipMerge, vmSpec]
    | cons y o => simp at hl
  | cons x s ih =>
    cases o with
    | nil => simp [vecZipMerge, vmSpec]
    | cons y o =>
      simp only [List.length_cons, Nat.add_le_add_iff_right] at hl
      simp only [vecZipMerge, vmSpec, ih o hl]

theorem aux_vmSpec_short (s o : List β) (hl : s.length < o.length) :
    vmSpec L s o =
      ((vecZipMerge L s (o.take s.length)).1 ++ (o.drop s.length).map L.lfrom, true) := by
  induction s generalizing o with
  | nil =>
    cases o with
    | nil => simp at hl
    | cons y o => simp [vmSpec, vecZipMerge]
  | cons x s ih =>
    cases o with
    | nil => simp at hl
    | cons y o =>
      simp only [List.length_cons, Nat.add_lt_add_iff_right] at hl
      simp only [vmSpec, ih o hl, List.length_cons, List.take_succ_cons, List.drop_succ_cons,
        vecZipMerge, List.cons_append, Bool.or_true]

theorem aux_vecMerge_spec (s o : List β) : vecMerge L s o = vmSpec L s o := by
  unfold vecMerge
  split
  · rename_i hl
    rw [aux_vmSpec_short s o hl]
    simp only []
    rw [aux_zip_append]
    · simp
    · simp; omega
  · rename_i hl
    rw [aux_zip_spec s o (by omega)]; simp

theorem aux_listEqv_refl (h : LawfulA L S) (a : List β) (wa : ∀ x ∈ a, S.wf x) : listEqv S a a := by
  induction a with
  | nil => trivial
  | cons x a ih => exact ⟨h.refl x (wa x (by simp)), ih (fun y hy => wa y (by simp [hy]))⟩

theorem aux_listEqv_symm (h : LawfulA L S) (a b : List β) (wa : ∀ x ∈ a, S.wf x)
    (wb : ∀ x ∈ b, S.wf x) (e : listEqv S a b) : listEqv S b a := by
  induction a generalizing b with
  | nil => cases b <;> simp_all [listEqv]
  | cons x a ih =>
    cases b with
    | nil => simp [listEqv] at e
    | cons y b =>
      exact ⟨h.symm _ _ (wa x (by simp)) (wb y (by simp)) e.1,
        ih b (fun z hz => wa z (by simp [hz])) (fun z hz => wb z (by simp [hz])) e.2⟩

theorem aux_listEqv_trans (h : LawfulA L S) (a b c : List β) (wa : ∀ x ∈ a, S.wf x)
    (wb : ∀ x ∈ b, S.wf x) (wc : ∀ x ∈ c, S.wf x) (e1 : listEqv S a b) (e2 : listEqv S b c) :
    listEqv S a c := by
  induction a generalizing b c with
  | nil => cases b <;> cases c <;> simp_all [listEqv]
  | cons x a ih =>
    cases b with
    | nil => simp [listEqv] at e1
    | cons y b =>
      cases c with
      | nil => simp [listEqv] at e2
      | cons z c =>
        exact ⟨h.trans _ _ _ (wa x (by simp)) (wb y (by simp)) (wc z (by simp)) e1.1 e2.1,
          ih b c (fun z hz => wa z (by simp [hz])) (fun z hz => wb z (by simp [hz]))
            (fun z hz => wc z (by simp [hz])) e1.2 e2.2⟩

theorem aux_map_lfrom (h : LawfulA L S) (a : List β) (wa : ∀ x ∈ a, S.wf x) : a.map L.lfrom = a := by
  induction a with
  | nil => rfl
  | cons x a ih =>
    simp only [List.map_cons, h.lfrom_id x (wa x (by simp)), ih (fun y hy => wa y (by simp [hy]))]

theorem aux_vm_nil_left (h : LawfulA L S) (o : List β) (wo : ∀ x ∈ o, S.wf x) :
    (vmSpec L [] o).1 = o := by
  cases o with
  | nil => rfl
  | cons y o => simp only [vmSpec]; exact aux_map_lfrom h _ wo

theorem aux_vm_wf (h : LawfulA L S) (a b : List β) (wa : ∀ x ∈ a, S.wf x) (wb : ∀ x ∈ b, S.wf x) :
    ∀ x ∈ (vmSpec L a b).1, S.wf x := by
  induction a generalizing b with
  | nil => rw [aux_vm_nil_left h b wb]; exact wb
  | cons x a ih =>
    cases b with
    | nil => exact wa
    | cons y b =>
      intro z hz
      simp only [vmSpec, List.mem_cons] at hz
      rcases hz with rfl | hz
      · exact h.merge_wf _ _ (wa x (by simp)) (wb y (by simp))
      · exact ih b (fun z hz => wa z (by simp [hz])) (fun z hz => wb z (by simp [hz])) z hz

theorem aux_vm_congr (h : LawfulA L S) (a a' b b' : List β)
    (wa : ∀ x ∈ a, S.wf x) (wa' : ∀ x ∈ a', S.wf x) (wb : ∀ x ∈ b, S.wf x) (wb' : ∀ x ∈ b', S.wf x)
    (e1 : listEqv S a a') (e2 : listEqv S b b') :
    listEqv S (vmSpec L a b).1 (vmSpec L a' b').1 := by
  induction a generalizing a' b b' with
  | nil =>
    cases a' with
    | cons _ _ => simp [listEqv] at e1
    | nil => rw [aux_vm_nil_left h b wb, aux_vm_nil_left h b' wb']; exact e2
  | cons x a ih =>
    cases a' with
    | nil => simp [listEqv] at e1
    | cons x' a' =>
      cases b with
      | nil =>
        cases b' with
        | cons _ _ => simp [listEqv] at e2
        | nil => exact e1
      | cons y b =>
        cases b' with
        | nil => simp [listEqv] at e2
        | cons y' b' =>
          exact ⟨h.merge_congr _ _ _ _ (wa x (by simp)) (wa' x' (by simp)) (wb y (by simp))
              (wb' y' (by simp)) e1.1 e2.1,
            ih a' b b' (fun z hz => wa z (by simp [hz])) (fun z hz => wa' z (by simp [hz]))
              (fun z hz => wb z (by simp [hz])) (fun z hz => wb' z (by simp [hz])) e1.2 e2.2⟩

theorem aux_vm_comm (h : LawfulA L S) (a b : List β)
    (wa : ∀ x ∈ a, S.wf x) (wb : ∀ x ∈ b, S.wf x) :
    listEqv S (vmSpec L a b).1 (vmSpec L b a).1 := by
  induction a generalizing b with
  | nil =>
    rw [aux_vm_nil_left h b wb]
    cases b with
    | nil => trivial
    | cons y b => exact aux_listEqv_refl h _ wb
  | cons x a ih =>
    cases b with
    | nil => rw [aux_vm_nil_left h _ wa]; exact aux_listEqv_refl h _ wa
    | cons y b =>
      exact ⟨h.comm _ _ (wa x (by simp)) (wb y (by simp)),
        ih b (fun z hz => wa z (by simp [hz])) (fun z hz => wb z (by simp [hz]))⟩

theorem aux_vm_assoc (h : LawfulA L S) (a b c : List β)
    (wa : ∀ x ∈ a, S.wf x) (wb : ∀ x ∈ b, S.wf x) (wc : ∀ x ∈ c, S.wf x) :
    listEqv S (vmSpec L (vmSpec L a b).1 c).1 (vmSpec L a (vmSpec L b c).1).1 := by
  induction a generalizing b c with
  | nil =>
    have wbc := aux_vm_wf h b c wb wc
    rw [aux_vm_nil_left h b wb, aux_vm_nil_left h _ wbc]
    exact aux_listEqv_refl h _ wbc
  | cons x a ih =>
    cases b with
    | nil =>
      rw [aux_vm_nil_left h c wc]
      exact aux_listEqv_refl h _ (aux_vm_wf h _ c wa wc)
    | cons y b =>
      cases c with
      | nil =>
        have w1 := aux_vm_wf h _ _ wa wb
        simp only [vmSpec] at w1 ⊢
        exact aux_listEqv_refl h _ w1
      | cons z c =>
        exact ⟨h.assoc _ _ _ (wa x (by simp)) (wb y (by simp)) (wc z (by simp)),
          ih b c (fun z hz => wa z (by simp [hz])) (fun z hz => wb z (by simp [hz]))
            (fun z hz => wc z (by simp [hz]))⟩

theorem aux_vm_idem (h : LawfulA L S) (a : List β) (wa : ∀ x ∈ a, S.wf x) :
    listEqv S (vmSpec L a a).1 a := by
  induction a with
  | nil => trivial
  | cons x a ih => exact ⟨h.idem x (wa x (by simp)), ih (fun z hz => wa z (by simp [hz]))⟩

theorem aux_vm_flag (h : LawfulA L S) (a b : List β)
    (wa : ∀ x ∈ a, S.wf x) (wb : ∀ x ∈ b, S.wf x) :
    (vmSpec L a b).2 = false ↔ listEqv S (vmSpec L a b).1 a := by
  induction a generalizing b with
  | nil =>
    cases b with
    | nil => simp [vmSpec, listEqv]
    | cons y b => simp [vmSpec, listEqv]
  | cons x a ih =>
    cases b with
    | nil => simp only [vmSpec, true_iff]; exact aux_listEqv_refl h _ wa
    | cons y b =>
      have i := ih b (fun z hz => wa z (by simp [hz])) (fun z hz => wb z (by simp [hz]))
      have f := h.flag x y (wa x (by simp)) (wb y (by simp))
      simp only [vmSpec, listEqv, Bool.or_eq_false_iff, f, i]

theorem lawfulA_vec (h : LawfulA L S) : LawfulA (Lat.vec L) (Sem.vec S) where
  inh := ⟨[], by intro x hx; cases hx⟩
  refl := aux_listEqv_refl h
  symm := aux_listEqv_symm h
  trans := aux_listEqv_trans h
  merge_wf := by
    intro a b wa wb; show ∀ x ∈ (vecMerge L a b).1, S.wf x
    rw [aux_vecMerge_spec]; exact aux_vm_wf h a b wa wb
  merge_congr := by
    intro a a' b b' wa wa' wb wb' e1 e2
    show listEqv S (vecMerge L a b).1 (vecMerge L a' b').1
    rw [aux_vecMerge_spec, aux_vecMerge_spec]; exact aux_vm_congr h a a' b b' wa wa' wb wb' e1 e2
  comm := by
    intro a b wa wb
    show listEqv S (vecMerge L a b).1 (vecMerge L b a).1
    rw [aux_vecMerge_spec, aux_vecMerge_spec]; exact aux_vm_comm h a b wa wb
  assoc := by
    intro a b c wa wb wc
    show listEqv S (vecMerge L (vecMerge L a b).1 c).1 (vecMerge L a (vecMerge L b c).1).1
    simp only [aux_vecMerge_spec]; exact aux_vm_assoc h a b c wa wb wc
  idem := by
    intro a wa
    show listEqv S (vecMerge L a a).1 a
    rw [aux_vecMerge_spec]; exact aux_vm_idem h a wa
  flag := by
    intro a b wa wb
    show (vecMerge L a b).2 = false ↔ listEqv S (vecMerge L a b).1 a
    rw [aux_vecMerge_spec]; exact aux_vm_flag h a b wa wb
  isBot_iff := by
    intro a wa
    show a.isEmpty = true ↔ ∀ b, (∀ x ∈ b, S.wf x) → (vecMerge L b a).2 = false
    simp only [aux_vecMerge_spec]
    constructor
    · intro ha b _
      cases a with
      | nil => cases b <;> rfl
      | cons _ _ => simp at ha
    · intro hall
      cases a with
      | nil => rfl
      | cons y a => have := hall [] (by intro x hx; cases hx); simp [vmSpec] at this
  lfrom_id := by intro a wa; exact aux_map_lfrom h a wa

end HvLat
