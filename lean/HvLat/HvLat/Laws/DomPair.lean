/-
`DomPair<Key, Val>` is a lattice whenever its key lattice is totally ordered (dom_pair.rs doc).
-/
import HvLat.Laws.BasicB
import HvLat.Laws.Pair

namespace HvLat
variable {K : Lat α} {V : Lat β} {SK : Sem α} {SV : Sem β}

section
variable (hK : LawfulA K SK) (hKB : LawfulB K SK) (tot : Total K SK) (hV : LawfulA V SV)
include hK hKB tot hV

theorem aux_dp_merge_eq {s o : α × β} (c : K.cmp s.1 o.1 = some .eq) :
    (Lat.domPair K V).merge s o = ((s.1, (V.merge s.2 o.2).1), (V.merge s.2 o.2).2) := by
  simp [Lat.domPair, c]

theorem aux_dp_merge_lt {s o : α × β} (wo : SK.wf o.1 ∧ SV.wf o.2) (c : K.cmp s.1 o.1 = some .lt) :
    (Lat.domPair K V).merge s o = (o, true) := by
  simp [Lat.domPair, c, hK.lfrom_id _ wo.1, hV.lfrom_id _ wo.2]

theorem aux_dp_merge_gt {s o : α × β} (c : K.cmp s.1 o.1 = some .gt) :
    (Lat.domPair K V).merge s o = (s, false) := by
  simp [Lat.domPair, c]

theorem aux_tri (a b : α) (wa : SK.wf a) (wb : SK.wf b) :
    K.cmp a b = some .lt ∨ K.cmp a b = some .eq ∨ K.cmp a b = some .gt := by
  have := tot a b wa wb
  cases h : K.cmp a b with
  | none => exact absurd h this
  | some o => cases o <;> simp

theorem lawfulA_domPair : LawfulA (Lat.domPair K V) (Sem.prod SK SV) := by
  have P := lawfulA_pair hK hV
  have tri := aux_tri hK hKB tot hV
  have ceq := fun {a b : α} (wa : SK.wf a) (wb : SK.wf b) => LawfulB.cmp_eq_iff hK hKB wa wb
  have cdual := fun {a b : α} (wa : SK.wf a) (wb : SK.wf b) => LawfulB.cmp_dual hK hKB wa wb
  have ccongr := fun {a a' b b' : α} (wa : SK.wf a) (wa' : SK.wf a') (wb : SK.wf b) (wb' : SK.wf b') =>
    LawfulB.cmp_congr hK hKB wa wa' wb wb'
  have mwf : ∀ a b : α × β, (Sem.prod SK SV).wf a → (Sem.prod SK SV).wf b →
      (Sem.prod SK SV).wf ((Lat.domPair K V).merge a b).1 := by
    intro a b wa wb
    rcases tri a.1 b.1 wa.1 wb.1 with c | c | c
    · rw [aux_dp_merge_lt hK hKB tot hV wb c]; exact wb
    · rw [aux_dp_merge_eq hK hKB tot hV c]; exact ⟨wa.1, hV.merge_wf _ _ wa.2 wb.2⟩
    · rw [aux_dp_merge_gt hK hKB tot hV c]; exact wa
  exact
  { inh := P.inh
    refl := P.refl
    symm := P.symm
    trans := P.trans
    merge_wf := mwf
    merge_congr := by
      intro a a' b b' wa wa' wb wb' e1 e2
      have cc := ccongr wa.1 wa'.1 wb.1 wb'.1 e1.1 e2.1
      rcases tri a.1 b.1 wa.1 wb.1 with c | c | c
      · rw [aux_dp_merge_lt hK hKB tot hV wb c, aux_dp_merge_lt hK hKB tot hV wb' (cc ▸ c)]; exact e2
      · rw [aux_dp_merge_eq hK hKB tot hV c, aux_dp_merge_eq hK hKB tot hV (cc ▸ c)]
        exact ⟨e1.1, hV.merge_congr _ _ _ _ wa.2 wa'.2 wb.2 wb'.2 e1.2 e2.2⟩
      · rw [aux_dp_merge_gt hK hKB tot hV c, aux_dp_merge_gt hK hKB tot hV (cc ▸ c)]; exact e1
    comm := by
      intro a b wa wb
      have d := cdual wa.1 wb.1
      rcases tri a.1 b.1 wa.1 wb.1 with c | c | c
      · rw [c] at d
        rw [aux_dp_merge_lt hK hKB tot hV wb c, aux_dp_merge_gt hK hKB tot hV d]; exact P.refl b wb
      · rw [c] at d
        rw [aux_dp_merge_eq hK hKB tot hV c, aux_dp_merge_eq hK hKB tot hV d]
        exact ⟨(ceq wa.1 wb.1).1 c, hV.comm _ _ wa.2 wb.2⟩
      · rw [c] at d
        rw [aux_dp_merge_gt hK hKB tot hV c, aux_dp_merge_lt hK hKB tot hV wa d]; exact P.refl a wa
    assoc := by
      intro a b c wa wb wc
      have wbc2 := hV.merge_wf _ _ wb.2 wc.2
      have wab2 := hV.merge_wf _ _ wa.2 wb.2
      rcases tri a.1 b.1 wa.1 wb.1 with c12 | c12 | c12
      · rw [aux_dp_merge_lt hK hKB tot hV wb c12]
        rcases tri b.1 c.1 wb.1 wc.1 with c23 | c23 | c23
        · have c13 := LawfulB.cmp_lt_trans hK hKB wa.1 wb.1 wc.1 c12 c23
          rw [aux_dp_merge_lt hK hKB tot hV wc c23, aux_dp_merge_lt hK hKB tot hV wc c13]
          exact P.refl c wc
        · rw [aux_dp_merge_eq hK hKB tot hV c23]
          have : K.cmp a.1 (b.1, (V.merge b.2 c.2).1).1 = some .lt := c12
          rw [aux_dp_merge_lt hK hKB tot hV (o := (b.1, (V.merge b.2 c.2).1)) ⟨wb.1, wbc2⟩ this]
          exact ⟨hK.refl _ wb.1, hV.refl _ wbc2⟩
        · rw [aux_dp_merge_gt hK hKB tot hV c23, aux_dp_merge_lt hK hKB tot hV wb c12]
          exact P.refl b wb
      · rw [aux_dp_merge_eq hK hKB tot hV c12]
        have e12 := (ceq wa.1 wb.1).1 c12
        rcases tri b.1 c.1 wb.1 wc.1 with c23 | c23 | c23
        · have c13 : K.cmp a.1 c.1 = some .lt := by
            rw [ccongr wa.1 wb.1 wc.1 wc.1 e12 (hK.refl _ wc.1)]; exact c23
          have : K.cmp (a.1, (V.merge a.2 b.2).1).1 c.1 = some .lt := c13
          rw [aux_dp_merge_lt hK hKB tot hV (s := (a.1, (V.merge a.2 b.2).1)) wc this, aux_dp_merge_lt hK hKB tot hV wc c23,
            aux_dp_merge_lt hK hKB tot hV wc c13]
          exact P.refl c wc
        · have c13 : K.cmp a.1 c.1 = some .eq := by
            rw [ccongr wa.1 wb.1 wc.1 wc.1 e12 (hK.refl _ wc.1)]; exact c23
          have : K.cmp (a.1, (V.merge a.2 b.2).1).1 c.1 = some .eq := c13
          rw [aux_dp_merge_eq hK hKB tot hV (s := (a.1, (V.merge a.2 b.2).1)) this, aux_dp_merge_eq hK hKB tot hV c23]
          have : K.cmp a.1 (b.1, (V.merge b.2 c.2).1).1 = some .eq := c12
          rw [aux_dp_merge_eq hK hKB tot hV (o := (b.1, (V.merge b.2 c.2).1)) this]
          exact ⟨hK.refl _ wa.1, hV.assoc _ _ _ wa.2 wb.2 wc.2⟩
        · have c13 : K.cmp a.1 c.1 = some .gt := by
            rw [ccongr wa.1 wb.1 wc.1 wc.1 e12 (hK.refl _ wc.1)]; exact c23
          have : K.cmp (a.1, (V.merge a.2 b.2).1).1 c.1 = some .gt := c13
          rw [aux_dp_merge_gt hK hKB tot hV (s := (a.1, (V.merge a.2 b.2).1)) this, aux_dp_merge_gt hK hKB tot hV c23,
            aux_dp_merge_eq hK hKB tot hV c12]
          exact ⟨hK.refl _ wa.1, hV.refl _ wab2⟩
      · rw [aux_dp_merge_gt hK hKB tot hV c12]
        rcases tri b.1 c.1 wb.1 wc.1 with c23 | c23 | c23
        · rw [aux_dp_merge_lt hK hKB tot hV wc c23]
          exact P.refl _ (mwf a c wa wc)
        · rw [aux_dp_merge_eq hK hKB tot hV c23]
          have e23 := (ceq wb.1 wc.1).1 c23
          have c13 : K.cmp a.1 c.1 = some .gt := by
            rw [← ccongr wa.1 wa.1 wb.1 wc.1 (hK.refl _ wa.1) e23]; exact c12
          have : K.cmp a.1 (b.1, (V.merge b.2 c.2).1).1 = some .gt := c12
          rw [aux_dp_merge_gt hK hKB tot hV c13, aux_dp_merge_gt hK hKB tot hV (o := (b.1, (V.merge b.2 c.2).1)) this]
          exact P.refl a wa
        · have c13 := LawfulB.cmp_gt_trans hK hKB wa.1 wb.1 wc.1 c12 c23
          rw [aux_dp_merge_gt hK hKB tot hV c23, aux_dp_merge_gt hK hKB tot hV c13,
            aux_dp_merge_gt hK hKB tot hV c12]
          exact P.refl a wa
    idem := by
      intro a wa
      have c := (ceq wa.1 wa.1).2 (hK.refl _ wa.1)
      rw [aux_dp_merge_eq hK hKB tot hV c]
      exact ⟨hK.refl _ wa.1, hV.idem _ wa.2⟩
    flag := by
      intro a b wa wb
      rcases tri a.1 b.1 wa.1 wb.1 with c | c | c
      · rw [aux_dp_merge_lt hK hKB tot hV wb c]
        constructor
        · intro hh; cases hh
        · intro e
          have := (ceq wb.1 wa.1).2 e.1
          have d := cdual wa.1 wb.1
          rw [c, this] at d; cases d
      · rw [aux_dp_merge_eq hK hKB tot hV c]
        show (V.merge a.2 b.2).2 = false ↔ SK.eqv a.1 a.1 ∧ SV.eqv (V.merge a.2 b.2).1 a.2
        rw [hV.flag _ _ wa.2 wb.2]
        exact ⟨fun e => ⟨hK.refl _ wa.1, e⟩, fun e => e.2⟩
      · rw [aux_dp_merge_gt hK hKB tot hV c]
        exact ⟨fun _ => P.refl a wa, fun _ => rfl⟩
    isBot_iff := by
      intro a wa
      show (K.isBot a.1 && V.isBot a.2) = true ↔
        ∀ b : α × β, (SK.wf b.1 ∧ SV.wf b.2) → ((Lat.domPair K V).merge b a).2 = false
      constructor
      · intro hh b wb
        simp only [Bool.and_eq_true] at hh
        have fk := (hK.isBot_iff _ wa.1).1 hh.1 b.1 wb.1
        rcases tri b.1 a.1 wb.1 wa.1 with c | c | c
        · rw [(LawfulB.cmp_lt_iff hK hKB wb.1 wa.1)] at c; rw [fk] at c; cases c.2
        · rw [aux_dp_merge_eq hK hKB tot hV c]; exact (hV.isBot_iff _ wa.2).1 hh.2 b.2 wb.2
        · rw [aux_dp_merge_gt hK hKB tot hV c]
      · intro hall
        obtain ⟨w0, ww0⟩ := hV.inh
        have h2 : V.isBot a.2 = true := by
          rw [hV.isBot_iff _ wa.2]; intro w ww
          have := hall (a.1, w) ⟨wa.1, ww⟩
          have c := (ceq wa.1 wa.1).2 (hK.refl _ wa.1)
          rw [aux_dp_merge_eq hK hKB tot hV (s := (a.1, w)) c] at this; exact this
        have h1 : K.isBot a.1 = true := by
          rw [hK.isBot_iff _ wa.1]; intro c wc
          have := hall (c, w0) ⟨wc, ww0⟩
          rcases tri c a.1 wc wa.1 with cc | cc | cc
          · rw [aux_dp_merge_lt hK hKB tot hV (s := (c, w0)) wa cc] at this; cases this
          · exact (hK.flag c a.1 wc wa.1).2
              (hK.leq_of_eqv wa.1 wc (hK.symm _ _ wc wa.1 ((ceq wc wa.1).1 cc)))
          · exact ((LawfulB.cmp_gt_iff hK hKB wc wa.1).1 cc).1
        simp [h1, h2]
    lfrom_id := by
      intro a wa
      show (K.lfrom a.1, V.lfrom a.2) = a
      rw [hK.lfrom_id _ wa.1, hV.lfrom_id _ wa.2] }

theorem lawfulB_domPair (hVB : LawfulB V SV) : LawfulB (Lat.domPair K V) (Sem.prod SK SV) := by
  have tri := aux_tri hK hKB tot hV
  have ceq := fun {a b : α} (wa : SK.wf a) (wb : SK.wf b) => LawfulB.cmp_eq_iff hK hKB wa wb
  have cdual := fun {a b : α} (wa : SK.wf a) (wb : SK.wf b) => LawfulB.cmp_dual hK hKB wa wb
  exact
  { cmp_naive := by
      intro a b wa wb
      have d := cdual wa.1 wb.1
      rw [Lat.naive]
      rcases tri a.1 b.1 wa.1 wb.1 with c | c | c
      · rw [c] at d
        rw [aux_dp_merge_lt hK hKB tot hV wb c, aux_dp_merge_gt hK hKB tot hV d]
        simp [Lat.domPair, c]
      · rw [c] at d
        rw [aux_dp_merge_eq hK hKB tot hV c, aux_dp_merge_eq hK hKB tot hV d]
        simp only [Lat.domPair, c]
        exact hVB.cmp_naive _ _ wa.2 wb.2
      · rw [c] at d
        rw [aux_dp_merge_gt hK hKB tot hV c, aux_dp_merge_lt hK hKB tot hV wa d]
        simp [Lat.domPair, c]
    beq_iff := by
      intro a b wa wb
      show (if !K.beq a.1 b.1 then false else if !V.beq a.2 b.2 then false else true) = true ↔
        SK.eqv a.1 b.1 ∧ SV.eqv a.2 b.2
      rw [← hKB.beq_iff _ _ wa.1 wb.1, ← hVB.beq_iff _ _ wa.2 wb.2]
      cases K.beq a.1 b.1 <;> cases V.beq a.2 b.2 <;> simp
    isTop_iff := by
      intro a wa
      show (K.isTop a.1 && V.isTop a.2) = true ↔
        ∀ b : α × β, (SK.wf b.1 ∧ SV.wf b.2) → ((Lat.domPair K V).merge a b).2 = false
      constructor
      · intro hh b wb
        simp only [Bool.and_eq_true] at hh
        have fk := (hKB.isTop_iff _ wa.1).1 hh.1 b.1 wb.1
        rcases tri a.1 b.1 wa.1 wb.1 with c | c | c
        · rw [(LawfulB.cmp_lt_iff hK hKB wa.1 wb.1)] at c; rw [fk] at c; cases c.2
        · rw [aux_dp_merge_eq hK hKB tot hV c]; exact (hVB.isTop_iff _ wa.2).1 hh.2 b.2 wb.2
        · rw [aux_dp_merge_gt hK hKB tot hV c]
      · intro hall
        obtain ⟨w0, ww0⟩ := hV.inh
        have h2 : V.isTop a.2 = true := by
          rw [hVB.isTop_iff _ wa.2]; intro w ww
          have := hall (a.1, w) ⟨wa.1, ww⟩
          have c := (ceq wa.1 wa.1).2 (hK.refl _ wa.1)
          rw [aux_dp_merge_eq hK hKB tot hV (o := (a.1, w)) c] at this; exact this
        have h1 : K.isTop a.1 = true := by
          rw [hKB.isTop_iff _ wa.1]; intro c wc
          have := hall (c, w0) ⟨wc, ww0⟩
          rcases tri a.1 c wa.1 wc with cc | cc | cc
          · rw [aux_dp_merge_lt hK hKB tot hV (o := (c, w0)) ⟨wc, ww0⟩ cc] at this; cases this
          · exact (hK.flag a.1 c wa.1 wc).2 (hK.leq_of_eqv wc wa.1 (hK.symm _ _ wa.1 wc ((ceq wa.1 wc).1 cc)))
          · exact ((LawfulB.cmp_gt_iff hK hKB wa.1 wc).1 cc).1
        simp [h1, h2]
    dflt_bot := by
      intro d hd
      simp only [Lat.domPair] at hd
      cases h1 : K.dflt with
      | none => simp [h1] at hd
      | some d1 =>
        cases h2 : V.dflt with
        | none => simp [h1, h2] at hd
        | some d2 =>
          simp [h1, h2] at hd; subst hd
          have r1 := hKB.dflt_bot d1 h1; have r2 := hVB.dflt_bot d2 h2
          exact ⟨⟨r1.1, r2.1⟩, by show (K.isBot d1 && V.isBot d2) = true; simp [r1.2, r2.2]⟩ }

/-- a dominating pair over totally ordered key and value is totally ordered -/
theorem total_domPair (tv : Total V SV) : Total (Lat.domPair K V) (Sem.prod SK SV) := by
  intro a b wa wb
  simp only [Lat.domPair]
  rcases aux_tri hK hKB tot hV a.1 b.1 wa.1 wb.1 with c | c | c
  · simp [c]
  · simp only [c]; exact tv _ _ wa.2 wb.2
  · simp [c]

end
end HvLat
