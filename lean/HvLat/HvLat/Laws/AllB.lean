import HvLat.Laws.All
import HvLat.Laws.LeafB
import HvLat.Laws.WrapB
import HvLat.Laws.VecB
import HvLat.Laws.MapB

namespace HvLat

/-- syntactic check: the type has a value that is not bottom (fails only for towers over `()`) -/
def nondeg : LTy → Bool
  | .maxN b => decide (0 < b)
  | .minN b => decide (0 < b)
  | .maxB => true
  | .minB => true
  | .unit => false
  | .conflict => true
  | .set => true
  | .map v => nondeg v
  | .withBot t => nondeg t
  | .withTop _ => true
  | .pair a b => nondeg a || nondeg b
  | .domPair _ _ => false
  | .vec _ => true

/-- domain of the C03 theorems: as `okA`, and `MapUnion` / `WithBot` are not instantiated with a
one-point value lattice (for those, `is_top` is `false` although every value is greatest — see
`degenerate_isTop_refuted` in Props/C03.lean) -/
def okB : LTy → Bool
  | .domPair _ _ => false
  | .map v => nondeg v && okB v
  | .withBot t => nondeg t && okB t
  | .withTop t => okB t
  | .vec t => okB t
  | .pair a b => okB a && okB b
  | _ => true

theorem okA_of_okB : ∀ t, okB t = true → okA t = true
  | .maxN _, _ | .minN _, _ | .maxB, _ | .minB, _ | .unit, _ | .conflict, _ | .set, _ => rfl
  | .map v, h => by simp only [okB, Bool.and_eq_true] at h; simpa [okA] using okA_of_okB v h.2
  | .withBot v, h => by simp only [okB, Bool.and_eq_true] at h; simpa [okA] using okA_of_okB v h.2
  | .withTop v, h => by simp only [okB] at h; simpa [okA] using okA_of_okB v h
  | .vec v, h => by simp only [okB] at h; simpa [okA] using okA_of_okB v h
  | .pair a b, h => by
    simp only [okB, Bool.and_eq_true] at h
    simp [okA, okA_of_okB a h.1, okA_of_okB b h.2]
  | .domPair _ _, h => by simp [okB] at h

theorem nondeg_sound : ∀ t, okA t = true → nondeg t = true → Nondeg (lat t) (sem t)
  | .maxN b, _, h => ⟨(1 : Nat), by simp [nondeg] at h; exact h, rfl⟩
  | .minN b, _, h => ⟨(0 : Nat), Nat.zero_le _, by
      simp [nondeg] at h; show ((0 : Nat) == b) = false; simp; omega⟩
  | .maxB, _, _ => ⟨true, trivial, rfl⟩
  | .minB, _, _ => ⟨false, trivial, rfl⟩
  | .unit, _, h => by simp [nondeg] at h
  | .conflict, _, _ => ⟨(none : Option Nat), trivial, rfl⟩
  | .set, _, _ => ⟨([0] : List Nat), by show [0].Nodup; simp, rfl⟩
  | .map v, ho, h => by
    obtain ⟨x, wx, hx⟩ := nondeg_sound v (by simpa [okA] using ho) (by simpa [nondeg] using h)
    refine ⟨([(0, x)] : List (Nat × Val v)), ⟨by simp, ?_⟩, ?_⟩
    · intro e he; simp at he; subst he; exact wx
    · show ([(0, x)] : List (Nat × Val v)).all (fun e => (lat v).isBot e.2) = false
      simp [hx]
  | .withBot v, ho, h => by
    obtain ⟨x, wx, hx⟩ := nondeg_sound v (by simpa [okA] using ho) (by simpa [nondeg] using h)
    exact ⟨(some x : Option (Val v)), wx, hx⟩
  | .withTop v, _, _ => ⟨(none : Option (Val v)), trivial, rfl⟩
  | .vec v, ho, _ => by
    obtain ⟨x, wx⟩ := (lawfulA_all v (by simpa [okA] using ho)).inh
    exact ⟨([x] : List (Val v)), by intro y hy; simp at hy; subst hy; exact wx, rfl⟩
  | .pair a b, ho, h => by
    simp only [okA, Bool.and_eq_true] at ho
    simp only [nondeg, Bool.or_eq_true] at h
    obtain ⟨a0, wa0⟩ := (lawfulA_all a ho.1).inh
    obtain ⟨b0, wb0⟩ := (lawfulA_all b ho.2).inh
    rcases h with h | h
    · obtain ⟨x, wx, hx⟩ := nondeg_sound a ho.1 h
      exact ⟨((x, b0) : Val a × Val b), ⟨wx, wb0⟩, by
        show (Lat.pair (lat a) (lat b)).isBot (x, b0) = false
        rw [aux_pair_isBot]; simp [hx]⟩
    · obtain ⟨y, wy, hy⟩ := nondeg_sound b ho.2 h
      exact ⟨((a0, y) : Val a × Val b), ⟨wa0, wy⟩, by
        show (Lat.pair (lat a) (lat b)).isBot (a0, y) = false
        rw [aux_pair_isBot]; simp [hy]⟩
  | .domPair _ _, ho, _ => by simp [okA] at ho

theorem lawfulB_all : ∀ t : LTy, okB t = true → LawfulB (lat t) (sem t)
  | .maxN b, _ => lawfulB_maxN b
  | .minN b, _ => lawfulB_minN b
  | .maxB, _ => lawfulB_maxB
  | .minB, _ => lawfulB_minB
  | .unit, _ => lawfulB_unit
  | .conflict, _ => lawfulB_conflict
  | .set, _ => lawfulB_set
  | .map v, h => by
    simp only [okB, Bool.and_eq_true] at h
    have oa := okA_of_okB v h.2
    exact lawfulB_map (lawfulA_all v oa) (lawfulB_all v h.2) (nondeg_sound v oa h.1)
  | .withBot v, h => by
    simp only [okB, Bool.and_eq_true] at h
    have oa := okA_of_okB v h.2
    exact lawfulB_withBot (lawfulA_all v oa) (lawfulB_all v h.2) (nondeg_sound v oa h.1)
  | .withTop v, h => by
    simp only [okB] at h
    exact lawfulB_withTop (lawfulA_all v (okA_of_okB v h)) (lawfulB_all v h)
  | .vec v, h => by
    simp only [okB] at h
    exact lawfulB_vec (lawfulA_all v (okA_of_okB v h)) (lawfulB_all v h)
  | .pair a b, h => by
    simp only [okB, Bool.and_eq_true] at h
    exact lawfulB_pair (lawfulA_all a (okA_of_okB a h.1)) (lawfulA_all b (okA_of_okB b h.2))
      (lawfulB_all a h.1) (lawfulB_all b h.2)
  | .domPair _ _, h => by simp [okB] at h

/-- domain of the C03 theorems -/
def ok3 (t : LTy) : Bool := okB t

theorem lawfulA_of_ok3 (t : LTy) (h : ok3 t = true) : LawfulA (lat t) (sem t) :=
  lawfulA_all t (okA_of_okB t h)
theorem lawfulB_of_ok3 (t : LTy) (h : ok3 t = true) : LawfulB (lat t) (sem t) := lawfulB_all t h

end HvLat
