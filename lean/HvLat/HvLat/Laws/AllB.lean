import HvLat.Laws.All
import HvLat.Laws.LeafB
import HvLat.Laws.WrapB
import HvLat.Laws.VecB
import HvLat.Laws.MapB
import HvLat.Laws.DomPair
import HvLat.Laws.Tri
import HvLat.Laws.LeafI

namespace HvLat

theorem okA_of_okB : ∀ t, okB t = true → okA t = true
  | .maxN _, _ | .minN _, _ | .maxI _, _ | .minI _, _ | .maxB, _ | .minB, _ | .unit, _ | .conflict, _ | .set, _ => rfl
  | .map v, h => by simp only [okB, Bool.and_eq_true] at h; simpa [okA] using okA_of_okB v h.2
  | .withBot v, h => by simp only [okB, Bool.and_eq_true] at h; simpa [okA] using okA_of_okB v h.2
  | .withTop v, h => by simp only [okB] at h; simpa [okA] using okA_of_okB v h
  | .vec v, h => by simp only [okB] at h; simpa [okA] using okA_of_okB v h
  | .pair a b, h => by
    simp only [okB, Bool.and_eq_true] at h
    simp [okA, okA_of_okB a h.1, okA_of_okB b h.2]
  | .domPair k v, h => by
    simp only [okB, Bool.and_eq_true] at h
    simp [okA, h.1.1, h.1.2, okA_of_okB v h.2]
  | .tri a b c, h => by
    simp only [okB, Bool.and_eq_true] at h
    simp [okA, okA_of_okB a h.1.1, okA_of_okB b h.1.2, okA_of_okB c h.2]

theorem wf_inh : ∀ t : LTy, ∃ a, (sem t).wf a
  | .maxN b => ⟨(0 : Nat), Nat.zero_le _⟩
  | .minN b => ⟨(0 : Nat), Nat.zero_le _⟩
  | .maxI h => ⟨(0 : Int), by simp [sem, Sem.boundedI]; omega⟩
  | .minI h => ⟨(0 : Int), by simp [sem, Sem.boundedI]; omega⟩
  | .maxB => ⟨true, trivial⟩
  | .minB => ⟨true, trivial⟩
  | .unit => ⟨(), trivial⟩
  | .conflict => ⟨(none : Option Nat), trivial⟩
  | .set => ⟨([] : List Nat), List.nodup_nil⟩
  | .map v => ⟨([] : List (Nat × Val v)), by simp [sem, Sem.map]⟩
  | .withBot v => ⟨(none : Option (Val v)), trivial⟩
  | .withTop v => ⟨(none : Option (Val v)), trivial⟩
  | .vec v => ⟨([] : List (Val v)), fun x hx => nomatch hx⟩
  | .pair a b => by
    obtain ⟨x, wx⟩ := wf_inh a; obtain ⟨y, wy⟩ := wf_inh b
    exact ⟨((x, y) : Val a × Val b), wx, wy⟩
  | .domPair a b => by
    obtain ⟨x, wx⟩ := wf_inh a; obtain ⟨y, wy⟩ := wf_inh b
    exact ⟨((x, y) : Val a × Val b), wx, wy⟩
  | .tri a b c => by
    obtain ⟨x, wx⟩ := wf_inh a; obtain ⟨y, wy⟩ := wf_inh b; obtain ⟨z, wz⟩ := wf_inh c
    exact ⟨((x, y, z) : Val a × Val b × Val c), wx, wy, wz⟩

theorem nondeg_sound_tri (a b c : LTy) (h : nondeg (.tri a b c) = true)
    (na : nondeg a = true → Nondeg (lat a) (sem a)) (nb : nondeg b = true → Nondeg (lat b) (sem b))
    (nc : nondeg c = true → Nondeg (lat c) (sem c)) : Nondeg (lat (.tri a b c)) (sem (.tri a b c)) := by
  simp only [nondeg, Bool.or_eq_true] at h
  obtain ⟨a0, wa0⟩ := wf_inh a
  obtain ⟨b0, wb0⟩ := wf_inh b
  obtain ⟨c0, wc0⟩ := wf_inh c
  rcases h with (h | h) | h
  · obtain ⟨x, wx, hx⟩ := na h
    exact ⟨((x, b0, c0) : Val a × Val b × Val c), ⟨wx, wb0, wc0⟩, by
      show (Lat.tri (lat a) (lat b) (lat c)).isBot (x, b0, c0) = false
      simp [Lat.tri, hx]⟩
  · obtain ⟨y, wy, hy⟩ := nb h
    exact ⟨((a0, y, c0) : Val a × Val b × Val c), ⟨wa0, wy, wc0⟩, by
      show (Lat.tri (lat a) (lat b) (lat c)).isBot (a0, y, c0) = false
      simp [Lat.tri, hy]⟩
  · obtain ⟨z, wz, hz⟩ := nc h
    exact ⟨((a0, b0, z) : Val a × Val b × Val c), ⟨wa0, wb0, wz⟩, by
      show (Lat.tri (lat a) (lat b) (lat c)).isBot (a0, b0, z) = false
      simp [Lat.tri, hz]⟩

theorem nondeg_sound : ∀ t, nondeg t = true → Nondeg (lat t) (sem t)
  | .maxN b, h => ⟨(1 : Nat), by simp [nondeg] at h; exact h, rfl⟩
  | .minN b, h => ⟨(0 : Nat), Nat.zero_le _, by
      simp [nondeg] at h; show ((0 : Nat) == b) = false; simp; omega⟩
  | .maxI h, _ => ⟨(0 : Int), by simp [sem, Sem.boundedI]; omega, by
      show ((0 : Int) == -((h : Int) + 1)) = false; simp <;> omega⟩
  | .minI h, _ => ⟨(-1 : Int), by simp [sem, Sem.boundedI]; omega, by
      show ((-1 : Int) == (h : Int)) = false; simp <;> omega⟩
  | .maxB, _ => ⟨true, trivial, rfl⟩
  | .minB, _ => ⟨false, trivial, rfl⟩
  | .unit, h => by simp [nondeg] at h
  | .conflict, _ => ⟨(none : Option Nat), trivial, rfl⟩
  | .set, _ => ⟨([0] : List Nat), by show [0].Nodup; simp, rfl⟩
  | .map v, h => by
    obtain ⟨x, wx, hx⟩ := nondeg_sound v (by simpa [nondeg] using h)
    refine ⟨([(0, x)] : List (Nat × Val v)), ⟨by simp, ?_⟩, ?_⟩
    · intro e he; simp at he; subst he; exact wx
    · show ([(0, x)] : List (Nat × Val v)).all (fun e => (lat v).isBot e.2) = false
      simp [hx]
  | .withBot v, h => by
    obtain ⟨x, wx, hx⟩ := nondeg_sound v (by simpa [nondeg] using h)
    exact ⟨(some x : Option (Val v)), wx, hx⟩
  | .withTop v, _ => ⟨(none : Option (Val v)), trivial, rfl⟩
  | .vec v, _ => by
    obtain ⟨x, wx⟩ := wf_inh v
    exact ⟨([x] : List (Val v)), by intro y hy; simp at hy; subst hy; exact wx, rfl⟩
  | .pair a b, h => by
    simp only [nondeg, Bool.or_eq_true] at h
    obtain ⟨a0, wa0⟩ := wf_inh a
    obtain ⟨b0, wb0⟩ := wf_inh b
    rcases h with h | h
    · obtain ⟨x, wx, hx⟩ := nondeg_sound a h
      exact ⟨((x, b0) : Val a × Val b), ⟨wx, wb0⟩, by
        show (Lat.pair (lat a) (lat b)).isBot (x, b0) = false
        rw [aux_pair_isBot]; simp [hx]⟩
    · obtain ⟨y, wy, hy⟩ := nondeg_sound b h
      exact ⟨((a0, y) : Val a × Val b), ⟨wa0, wy⟩, by
        show (Lat.pair (lat a) (lat b)).isBot (a0, y) = false
        rw [aux_pair_isBot]; simp [hy]⟩
  | .domPair a b, h => by
    simp only [nondeg, Bool.or_eq_true] at h
    obtain ⟨a0, wa0⟩ := wf_inh a
    obtain ⟨b0, wb0⟩ := wf_inh b
    rcases h with h | h
    · obtain ⟨x, wx, hx⟩ := nondeg_sound a h
      exact ⟨((x, b0) : Val a × Val b), ⟨wx, wb0⟩, by
        show ((lat a).isBot x && (lat b).isBot b0) = false
        simp [hx]⟩
    · obtain ⟨y, wy, hy⟩ := nondeg_sound b h
      exact ⟨((a0, y) : Val a × Val b), ⟨wa0, wy⟩, by
        show ((lat a).isBot a0 && (lat b).isBot y) = false
        simp [hy]⟩
  | .tri a b c, h => nondeg_sound_tri a b c h (nondeg_sound a) (nondeg_sound b) (nondeg_sound c)

theorem aux_total_opt {L : Lat β} {S : Sem β} (tt : Total L S) :
    Total (Lat.withBot L) (Sem.withBot L S) ∧ Total (Lat.withTop L) (Sem.withTop S) := by
  constructor
  · intro a b wa wb
    cases a <;> cases b <;> simp only [Lat.withBot] <;> try (split <;> simp)
    · simp
    · exact tt _ _ wa wb
  · intro a b wa wb
    cases a <;> cases b <;> simp only [Lat.withTop] <;> try simp
    exact tt _ _ wa wb

/-- the three layers together, by induction on the type -/
theorem lawful_all : ∀ t : LTy,
    (okA t = true → LawfulA (lat t) (sem t)) ∧
    (okB t = true → LawfulB (lat t) (sem t)) ∧
    (okB t = true → total t = true → Total (lat t) (sem t))
  | .maxN b => ⟨fun _ => lawfulA_maxN b, fun _ => lawfulB_maxN b, fun _ _ a c _ _ => by simp [lat, Lat.maxN]⟩
  | .minN b => ⟨fun _ => lawfulA_minN b, fun _ => lawfulB_minN b, fun _ _ a c _ _ => by simp [lat, Lat.minN]⟩
  | .maxI h => ⟨fun _ => lawfulA_maxI h, fun _ => lawfulB_maxI h, fun _ _ a c _ _ => by simp [lat, Lat.maxI]⟩
  | .minI h => ⟨fun _ => lawfulA_minI h, fun _ => lawfulB_minI h, fun _ _ a c _ _ => by simp [lat, Lat.minI]⟩
  | .maxB => ⟨fun _ => lawfulA_maxB, fun _ => lawfulB_maxB, fun _ _ a c _ _ => by simp [lat, Lat.maxB]⟩
  | .minB => ⟨fun _ => lawfulA_minB, fun _ => lawfulB_minB, fun _ _ a c _ _ => by simp [lat, Lat.minB]⟩
  | .unit => ⟨fun _ => lawfulA_unit, fun _ => lawfulB_unit, fun _ _ a c _ _ => by simp [lat, Lat.unit]⟩
  | .conflict => ⟨fun _ => lawfulA_conflict, fun _ => lawfulB_conflict, fun _ h => by simp [total] at h⟩
  | .set => ⟨fun _ => lawfulA_set, fun _ => lawfulB_set, fun _ h => by simp [total] at h⟩
  | .map v => by
    have ih := lawful_all v
    refine ⟨fun h => lawfulA_map (ih.1 (by simpa [okA] using h)), fun h => ?_, fun _ h => by simp [total] at h⟩
    simp only [okB, Bool.and_eq_true] at h
    exact lawfulB_map (ih.1 (okA_of_okB v h.2)) (ih.2.1 h.2) (nondeg_sound v h.1)
  | .withBot v => by
    have ih := lawful_all v
    refine ⟨fun h => lawfulA_withBot (ih.1 (by simpa [okA] using h)), fun h => ?_, fun h ht => ?_⟩
    · simp only [okB, Bool.and_eq_true] at h
      exact lawfulB_withBot (ih.1 (okA_of_okB v h.2)) (ih.2.1 h.2) (nondeg_sound v h.1)
    · simp only [okB, Bool.and_eq_true] at h
      exact (aux_total_opt (ih.2.2 h.2 (by simpa [total] using ht))).1
  | .withTop v => by
    have ih := lawful_all v
    refine ⟨fun h => lawfulA_withTop (ih.1 (by simpa [okA] using h)), fun h => ?_, fun h ht => ?_⟩
    · simp only [okB] at h
      exact lawfulB_withTop (ih.1 (okA_of_okB v h)) (ih.2.1 h)
    · simp only [okB] at h
      exact (aux_total_opt (ih.2.2 h (by simpa [total] using ht))).2
  | .vec v => by
    have ih := lawful_all v
    refine ⟨fun h => lawfulA_vec (ih.1 (by simpa [okA] using h)), fun h => ?_, fun _ h => by simp [total] at h⟩
    simp only [okB] at h
    exact lawfulB_vec (ih.1 (okA_of_okB v h)) (ih.2.1 h)
  | .pair a b => by
    have iha := lawful_all a
    have ihb := lawful_all b
    refine ⟨fun h => ?_, fun h => ?_, fun _ h => by simp [total] at h⟩
    · simp only [okA, Bool.and_eq_true] at h
      exact lawfulA_pair (iha.1 h.1) (ihb.1 h.2)
    · simp only [okB, Bool.and_eq_true] at h
      exact lawfulB_pair (iha.1 (okA_of_okB a h.1)) (ihb.1 (okA_of_okB b h.2)) (iha.2.1 h.1) (ihb.2.1 h.2)
  | .domPair k v => by
    have ihk := lawful_all k
    have ihv := lawful_all v
    refine ⟨fun h => ?_, fun h => ?_, fun h ht => ?_⟩
    · simp only [okA, Bool.and_eq_true] at h
      exact lawfulA_domPair (ihk.1 (okA_of_okB k h.1.2)) (ihk.2.1 h.1.2) (ihk.2.2 h.1.2 h.1.1) (ihv.1 h.2)
    · simp only [okB, Bool.and_eq_true] at h
      exact lawfulB_domPair (ihk.1 (okA_of_okB k h.1.2)) (ihk.2.1 h.1.2) (ihk.2.2 h.1.2 h.1.1)
        (ihv.1 (okA_of_okB v h.2)) (ihv.2.1 h.2)
    · simp only [okB, Bool.and_eq_true] at h
      simp only [total, Bool.and_eq_true] at ht
      exact total_domPair (ihk.1 (okA_of_okB k h.1.2)) (ihk.2.1 h.1.2) (ihk.2.2 h.1.2 h.1.1)
        (ihv.1 (okA_of_okB v h.2)) (ihv.2.2 h.2 ht.2)

  | .tri a b c => by
    have iha := lawful_all a
    have ihb := lawful_all b
    have ihc := lawful_all c
    refine ⟨fun h => ?_, fun h => ?_, fun _ h => by simp [total] at h⟩
    · simp only [okA, Bool.and_eq_true] at h
      exact lawfulA_tri (iha.1 h.1.1) (ihb.1 h.1.2) (ihc.1 h.2)
    · simp only [okB, Bool.and_eq_true] at h
      exact lawfulB_tri (iha.1 (okA_of_okB a h.1.1)) (ihb.1 (okA_of_okB b h.1.2)) (ihc.1 (okA_of_okB c h.2))
        (iha.2.1 h.1.1) (ihb.2.1 h.1.2) (ihc.2.1 h.2)

theorem lawfulA_all (t : LTy) (h : okA t = true) : LawfulA (lat t) (sem t) := (lawful_all t).1 h
theorem lawfulB_all (t : LTy) (h : okB t = true) : LawfulB (lat t) (sem t) := (lawful_all t).2.1 h

/-- the domain of the C01/C02 theorems: nestings of the shipped constructors -/
def ok (t : LTy) : Bool := okA t
theorem lawfulA_of_ok (t : LTy) (h : ok t = true) : LawfulA (lat t) (sem t) := lawfulA_all t h

/-- domain of the C03 theorems -/
def ok3 (t : LTy) : Bool := okB t

theorem lawfulA_of_ok3 (t : LTy) (h : ok3 t = true) : LawfulA (lat t) (sem t) :=
  lawfulA_all t (okA_of_okB t h)
theorem lawfulB_of_ok3 (t : LTy) (h : ok3 t = true) : LawfulB (lat t) (sem t) := lawfulB_all t h

end HvLat
