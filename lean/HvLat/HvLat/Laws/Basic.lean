/-
Lawfulness of a lattice model (`Lat`) with respect to its semantics (`Sem`): the clauses of
C01 (ACI up to `eqv`), C02 (exact `changed` flag) and the part of C03 that the nested `Merge`
impls themselves rely on (`is_bot`), as one bundle that every type constructor preserves.
-/
import HvLat.Model.Lattice

namespace HvLat

structure LawfulA (L : Lat α) (S : Sem α) : Prop where
  inh : ∃ a, S.wf a
  refl : ∀ a, S.wf a → S.eqv a a
  symm : ∀ a b, S.wf a → S.wf b → S.eqv a b → S.eqv b a
  trans : ∀ a b c, S.wf a → S.wf b → S.wf c → S.eqv a b → S.eqv b c → S.eqv a c
  merge_wf : ∀ a b, S.wf a → S.wf b → S.wf (L.merge a b).1
  merge_congr : ∀ a a' b b', S.wf a → S.wf a' → S.wf b → S.wf b' →
    S.eqv a a' → S.eqv b b' → S.eqv (L.merge a b).1 (L.merge a' b').1
  comm : ∀ a b, S.wf a → S.wf b → S.eqv (L.merge a b).1 (L.merge b a).1
  assoc : ∀ a b c, S.wf a → S.wf b → S.wf c →
    S.eqv (L.merge (L.merge a b).1 c).1 (L.merge a (L.merge b c).1).1
  idem : ∀ a, S.wf a → S.eqv (L.merge a a).1 a
  /-- C02: the flag is `false` exactly when the receiver did not change (up to `eqv`) -/
  flag : ∀ a b, S.wf a → S.wf b → ((L.merge a b).2 = false ↔ S.eqv (L.merge a b).1 a)
  /-- `is_bot` holds exactly for the least element -/
  isBot_iff : ∀ a, S.wf a → (L.isBot a = true ↔ ∀ b, S.wf b → (L.merge b a).2 = false)
  lfrom_id : ∀ a, S.wf a → L.lfrom a = a

namespace LawfulA
variable {L : Lat α} {S : Sem α} (h : LawfulA L S)
include h

theorem flag_congr {a a' b b'} (wa : S.wf a) (wa' : S.wf a') (wb : S.wf b) (wb' : S.wf b')
    (ea : S.eqv a a') (eb : S.eqv b b') : (L.merge a b).2 = (L.merge a' b').2 := by
  have hc := h.merge_congr a a' b b' wa wa' wb wb' ea eb
  have wm := h.merge_wf a b wa wb
  have wm' := h.merge_wf a' b' wa' wb'
  have key : (L.merge a b).2 = false ↔ (L.merge a' b').2 = false := by
    rw [h.flag a b wa wb, h.flag a' b' wa' wb']
    constructor
    · intro e
      exact h.trans _ _ _ wm' wm wa' (h.symm _ _ wm wm' hc) (h.trans _ _ _ wm wa wa' e ea)
    · intro e
      exact h.trans _ _ _ wm wm' wa hc (h.trans _ _ _ wm' wa' wa e (h.symm _ _ wa wa' ea))
  cases h1 : (L.merge a b).2 <;> cases h2 : (L.merge a' b').2 <;> simp_all

/-- merging a bottom element in changes nothing -/
theorem bot_right {a b} (wa : S.wf a) (wb : S.wf b) (hb : L.isBot b = true) :
    (L.merge a b).2 = false ∧ S.eqv (L.merge a b).1 a := by
  have f := (h.isBot_iff b wb).1 hb a wa
  exact ⟨f, (h.flag a b wa wb).1 f⟩

theorem bot_left {a b} (wa : S.wf a) (wb : S.wf b) (ha : L.isBot a = true) :
    S.eqv (L.merge a b).1 b :=
  h.trans _ _ _ (h.merge_wf a b wa wb) (h.merge_wf b a wb wa) wb (h.comm a b wa wb)
    (h.bot_right wb wa ha).2

theorem isBot_congr {a b} (wa : S.wf a) (wb : S.wf b) (e : S.eqv a b) : L.isBot a = L.isBot b := by
  have key : ∀ {a b}, S.wf a → S.wf b → S.eqv a b → L.isBot a = true → L.isBot b = true := by
    intro a b wa wb e ha
    rw [h.isBot_iff b wb]
    intro c wc
    rw [← h.flag_congr wc wc wa wb (h.refl c wc) e]
    exact (h.isBot_iff a wa).1 ha c wc
  cases h1 : L.isBot a <;> cases h2 : L.isBot b <;> simp_all
  · have := key wb wa (h.symm _ _ wa wb e) h2; simp_all
  · have := key wa wb e h1; simp_all

theorem bots_eqv {a b} (wa : S.wf a) (wb : S.wf b) (ha : L.isBot a = true) (hb : L.isBot b = true) :
    S.eqv a b :=
  h.trans _ _ _ wa (h.merge_wf a b wa wb) wb
    (h.symm _ _ (h.merge_wf a b wa wb) wa (h.bot_right wa wb hb).2) (h.bot_left wa wb ha)

/-- `a ≤ a ⊔ b` and `b ≤ a ⊔ b`, phrased with the flag -/
theorem ub_left {a b} (wa : S.wf a) (wb : S.wf b) : (L.merge (L.merge a b).1 a).2 = false := by
  have wm := h.merge_wf a b wa wb
  rw [h.flag _ _ wm wa]
  -- (a⊔b)⊔a ≈ a⊔(b⊔a) ≈ a⊔(a⊔b) ≈ (a⊔a)⊔b ≈ a⊔b
  have w1 := h.merge_wf b a wb wa
  have e1 := h.assoc a b a wa wb wa
  have e2 := h.merge_congr a a (L.merge b a).1 (L.merge a b).1 wa wa w1 wm (h.refl a wa) (h.comm b a wb wa)
  have e3 := h.symm _ _ (h.merge_wf _ _ (h.merge_wf a a wa wa) wb) (h.merge_wf _ _ wa wm) (h.assoc a a b wa wa wb)
  have e4 := h.merge_congr (L.merge a a).1 a b b (h.merge_wf a a wa wa) wa wb wb (h.idem a wa) (h.refl b wb)
  have wA := h.merge_wf _ _ wm wa
  have wB := h.merge_wf _ _ wa w1
  have wC := h.merge_wf _ _ wa wm
  have wD := h.merge_wf _ _ (h.merge_wf a a wa wa) wb
  exact h.trans _ _ _ wA wB wm e1 (h.trans _ _ _ wB wC wm e2 (h.trans _ _ _ wC wD wm e3 e4))

theorem ub_right {a b} (wa : S.wf a) (wb : S.wf b) : (L.merge (L.merge a b).1 b).2 = false := by
  have wm := h.merge_wf a b wa wb
  have wm' := h.merge_wf b a wb wa
  rw [h.flag_congr wm wm' wb wb (h.comm a b wa wb) (h.refl b wb)]
  exact h.ub_left wb wa

/-- a bottom join has bottom arguments -/
theorem isBot_merge {a b} (wa : S.wf a) (wb : S.wf b) :
    L.isBot (L.merge a b).1 = (L.isBot a && L.isBot b) := by
  have wm := h.merge_wf a b wa wb
  cases hm : L.isBot (L.merge a b).1
  · -- not bottom: then not both bottom
    cases ha : L.isBot a <;> cases hb : L.isBot b <;> simp
    have e := (h.bot_right wa wb hb).2
    rw [h.isBot_congr wm wa e] at hm; simp_all
  · have least := (h.isBot_iff _ wm).1 hm
    -- a ≈ a ⊔ (a⊔b) … use: (a ⊔ (a⊔b)) ≈ a  (flag false)  and  ((a⊔b) ⊔ a) ≈ a⊔b
    have fa := least a wa
    have ea := (h.flag a _ wa wm).1 fa
    have ea' := (h.flag _ a wm wa).1 (h.ub_left wa wb)
    have e1 : S.eqv a (L.merge a b).1 :=
      h.trans _ _ _ wa (h.merge_wf _ _ wa wm) wm (h.symm _ _ (h.merge_wf _ _ wa wm) wa ea)
        (h.trans _ _ _ (h.merge_wf _ _ wa wm) (h.merge_wf _ _ wm wa) wm (h.comm _ _ wa wm) ea')
    have fb := least b wb
    have eb := (h.flag b _ wb wm).1 fb
    have eb' := (h.flag _ b wm wb).1 (h.ub_right wa wb)
    have e2 : S.eqv b (L.merge a b).1 :=
      h.trans _ _ _ wb (h.merge_wf _ _ wb wm) wm (h.symm _ _ (h.merge_wf _ _ wb wm) wb eb)
        (h.trans _ _ _ (h.merge_wf _ _ wb wm) (h.merge_wf _ _ wm wb) wm (h.comm _ _ wb wm) eb')
    rw [h.isBot_congr wa wm e1, h.isBot_congr wb wm e2, hm]; rfl

/-! ### the lattice order induced by merge: `b ≤ a` iff joining `b` into `a` yields `a` -/

end LawfulA

/-- `leq L S b a`: merging `b` into `a` gives (a value equivalent to) `a` -/
def leq (L : Lat α) (S : Sem α) (b a : α) : Prop := S.eqv (L.merge a b).1 a

namespace LawfulA
variable {L : Lat α} {S : Sem α} (h : LawfulA L S)
include h

theorem flag_false_iff_leq {a b} (wa : S.wf a) (wb : S.wf b) :
    (L.merge a b).2 = false ↔ leq L S b a := h.flag a b wa wb

theorem leq_refl {a} (wa : S.wf a) : leq L S a a := h.idem a wa

theorem leq_of_eqv {a b} (wa : S.wf a) (wb : S.wf b) (e : S.eqv a b) : leq L S a b := by
  -- b ⊔ a ≈ b ⊔ b ≈ b
  have w1 := h.merge_wf b a wb wa
  have w2 := h.merge_wf b b wb wb
  exact h.trans _ _ _ w1 w2 wb (h.merge_congr b b a b wb wb wa wb (h.refl b wb) e) (h.idem b wb)

theorem leq_antisymm {a b} (wa : S.wf a) (wb : S.wf b) (h1 : leq L S a b) (h2 : leq L S b a) :
    S.eqv a b := by
  -- a ≈ a⊔b ≈ b⊔a ≈ b
  have w1 := h.merge_wf a b wa wb
  have w2 := h.merge_wf b a wb wa
  exact h.trans _ _ _ wa w1 wb (h.symm _ _ w1 wa h2) (h.trans _ _ _ w1 w2 wb (h.comm a b wa wb) h1)

theorem leq_trans {a b c} (wa : S.wf a) (wb : S.wf b) (wc : S.wf c)
    (h1 : leq L S a b) (h2 : leq L S b c) : leq L S a c := by
  -- c⊔a ≈ (c⊔b)⊔a ≈ c⊔(b⊔a) ≈ c⊔b ≈ c
  have wcb := h.merge_wf c b wc wb
  have wba := h.merge_wf b a wb wa
  have wca := h.merge_wf c a wc wa
  have e1 := h.merge_congr c (L.merge c b).1 a a wc wcb wa wa (h.symm _ _ wcb wc h2) (h.refl a wa)
  have e2 := h.assoc c b a wc wb wa
  have e3 := h.merge_congr c c (L.merge b a).1 b wc wc wba wb (h.refl c wc) h1
  have w1 := h.merge_wf _ _ wcb wa
  have w2 := h.merge_wf _ _ wc wba
  exact h.trans _ _ _ wca w1 wc e1 (h.trans _ _ _ w1 w2 wc e2 (h.trans _ _ _ w2 wcb wc e3 h2))

theorem leq_merge_left {a b} (wa : S.wf a) (wb : S.wf b) : leq L S a (L.merge a b).1 :=
  (h.flag _ _ (h.merge_wf a b wa wb) wa).1 (h.ub_left wa wb)

theorem leq_merge_right {a b} (wa : S.wf a) (wb : S.wf b) : leq L S b (L.merge a b).1 :=
  (h.flag _ _ (h.merge_wf a b wa wb) wb).1 (h.ub_right wa wb)

/-- the merge is the LEAST upper bound -/
theorem merge_least {a b c} (wa : S.wf a) (wb : S.wf b) (wc : S.wf c)
    (h1 : leq L S a c) (h2 : leq L S b c) : leq L S (L.merge a b).1 c := by
  -- c ⊔ (a⊔b) ≈ (c⊔a)⊔b ≈ c⊔b ≈ c
  have wab := h.merge_wf a b wa wb
  have wca := h.merge_wf c a wc wa
  have wcb := h.merge_wf c b wc wb
  have e1 := h.symm _ _ (h.merge_wf _ _ wca wb) (h.merge_wf _ _ wc wab) (h.assoc c a b wc wa wb)
  have e2 := h.merge_congr (L.merge c a).1 c b b wca wc wb wb h1 (h.refl b wb)
  exact h.trans _ _ _ (h.merge_wf _ _ wc wab) (h.merge_wf _ _ wca wb) wc e1
    (h.trans _ _ _ (h.merge_wf _ _ wca wb) wcb wc e2 h2)

/-- C02: `true` exactly when the receiver strictly increased -/
theorem flag_true_iff_strict {a b} (wa : S.wf a) (wb : S.wf b) :
    (L.merge a b).2 = true ↔ leq L S a (L.merge a b).1 ∧ ¬ leq L S (L.merge a b).1 a := by
  have wm := h.merge_wf a b wa wb
  have hl := h.leq_merge_left wa wb
  constructor
  · intro ht
    refine ⟨hl, fun hr => ?_⟩
    have e := h.leq_antisymm wm wa hr hl
    have := (h.flag a b wa wb).2 e
    rw [this] at ht; cases ht
  · rintro ⟨_, hn⟩
    cases hf : (L.merge a b).2
    · exact absurd (h.leq_of_eqv wm wa ((h.flag a b wa wb).1 hf)) hn
    · rfl

end LawfulA
end HvLat
