/-
`hvdrv_lat`: line-protocol driver for the lattice model.  Stateless: one output line per input line.

Type descriptors (no spaces).  `R` is the backing representation, used only when *parsing* a
value (h/b = HashSet/BTreeSet/HashMap/BTreeMap: `collect()` semantics; anything else keeps the
listed entries as they are):
  mx<bits> mn<bits>   Max<u{bits}> / Min<u{bits}>        value: 17       (bits <= 128; `mxz`/`mnz` = usize = 64 bits)
  mxi<bits> mni<bits> Max<i{bits}> / Min<i{bits}>        value: -17      (bits <= 128; `mxiz`/`mniz` = isize)
  mxc mnc             Max<char> / Min<char>               value: code point (a Unicode scalar value: <= 0x10FFFF, no surrogate)
  mxb mnb             Max<bool> / Min<bool>               value: t | f
  un                  ()                                  value: u
  cf                  Conflict<u32>                       value: N | S17
  pt                  Point<u32, ()>                      value: 17   (top level only)
  set.R               SetUnion<..u32..>                   value: {1,2,3}
  map.R(T)            MapUnion<..u32 -> T..>              value: [1:v,2:v]
  wb(T) wt(T)         WithBot<T> / WithTop<T>             value: N | S<v>
  pr(A,B) dp(K,V)     Pair<A,B> / DomPair<K,V>            value: (a,b)
  tr(A,B,C)           #[derive(Lattice)] struct with three fields   value: (a,b,c)
  vu(T)               VecUnion<T>                         value: <a,b,c>
Ops:
  #case ...                     echoed
  merge <A> <B> <a> <b>         -> <a merged with b, printed canonically> <changed>     (| panic for pt)
  cmp <A> <B> <a> <b>           -> lt | eq | gt | none                                  (| panic for pt)
  eq <A> <B> <a> <b>            -> true | false
  isbot <A> <a> / istop <A> <a> -> true | false
  default <A>                   -> value | bad-op (no Default impl)
  from <A> <B> <b>              -> LatticeFrom: b converted to A
  assoc <A> <a> <b> <c>         -> <(a+b)+c> <a+(b+c)>   (both printed canonically)
  trans <A> <a> <b> <c>         -> <cmp a b> <cmp b c> <cmp a c>
  ufatomize <h|b> <a-b,c-d|->   -> number of atoms of the UnionFind value built by these `union` calls
  atomize <A> <a>               -> atoms (each printed canonically, the list sorted) joined by `|`, `-` if none
Canonical printing: sets sorted, maps stably sorted by key.  Anything unparsable -> bad-op.
-/
import HvLat.Model.Lattice
open HvLat

inductive Desc where
  | maxN (bits : Nat) | minN (bits : Nat) | maxI (bits : Nat) | minI (bits : Nat) | maxB | minB | unit | conflict
  | maxC | minC
  | set (r : Char) | map (r : Char) (v : Desc) | withBot (t : Desc) | withTop (t : Desc)
  | pair (a b : Desc) | domPair (k v : Desc) | vec (t : Desc) | tri (a b c : Desc)

/-- `char::MAX as u32` -/
def charMax : Nat := 0x10FFFF

/-- `char` = Unicode scalar values: code points up to `char::MAX` without the surrogate range.  `char`'s
derived `Ord` is the order of the code points, so `Max<char>` is `Max` over this subset of `0..=charMax`. -/
def isScalar (n : Nat) : Bool := n ≤ charMax && !(0xD800 ≤ n && n ≤ 0xDFFF)

def Desc.ty : Desc → LTy
  | .maxN b => .maxN (2 ^ b - 1)
  | .minN b => .minN (2 ^ b - 1)
  | .maxI b => .maxI (2 ^ (b - 1) - 1)
  | .minI b => .minI (2 ^ (b - 1) - 1)
  | .maxB => .maxB
  | .minB => .minB
  | .unit => .unit
  | .conflict => .conflict
  | .maxC => .maxN charMax
  | .minC => .minN charMax
  | .set _ => .set
  | .map _ v => .map v.ty
  | .withBot t => .withBot t.ty
  | .withTop t => .withTop t.ty
  | .pair a b => .pair a.ty b.ty
  | .domPair a b => .domPair a.ty b.ty
  | .vec t => .vec t.ty
  | .tri a b c => .tri a.ty b.ty c.ty

abbrev P (α : Type) := List Char → Option (α × List Char)

def pNat : P Nat := fun cs =>
  let ds := cs.takeWhile Char.isDigit
  if ds.isEmpty || ds.length > 40 then none else
  some (ds.foldl (fun n c => 10 * n + (c.toNat - '0'.toNat)) 0, cs.drop ds.length)

def pInt : P Int := fun cs =>
  match cs with
  | '-' :: r => (pNat r).map fun (n, r) => (-(n : Int), r)
  | _ => (pNat cs).map fun (n, r) => ((n : Int), r)

def pChar (c : Char) : P Unit := fun cs =>
  match cs with
  | d :: rest => if d == c then some ((), rest) else none
  | [] => none

def pStr (s : String) : P Unit := fun cs =>
  let l := s.toList
  if cs.take l.length == l then some ((), cs.drop l.length) else none

partial def pDesc : P Desc := fun cs =>
  let un (k : String) (f : Desc → Desc) : Option (Desc × List Char) := do
    let (_, r) ← pStr k cs
    let (t, r) ← pDesc r
    let (_, r) ← pChar ')' r
    pure (f t, r)
  let bin (k : String) (f : Desc → Desc → Desc) : Option (Desc × List Char) := do
    let (_, r) ← pStr k cs
    let (a, r) ← pDesc r
    let (_, r) ← pChar ',' r
    let (b, r) ← pDesc r
    let (_, r) ← pChar ')' r
    pure (f a b, r)
  match cs with
  | 'm' :: 'x' :: 'b' :: r => some (.maxB, r)
  | 'm' :: 'n' :: 'b' :: r => some (.minB, r)
  | 'm' :: 'x' :: 'c' :: r => some (.maxC, r)
  | 'm' :: 'n' :: 'c' :: r => some (.minC, r)
  | 'm' :: 'x' :: 'i' :: 'z' :: r => some (.maxI 64, r)
  | 'm' :: 'n' :: 'i' :: 'z' :: r => some (.minI 64, r)
  | 'm' :: 'x' :: 'z' :: r => some (.maxN 64, r)
  | 'm' :: 'n' :: 'z' :: r => some (.minN 64, r)
  | 'm' :: 'x' :: 'i' :: r => do let (b, r) ← pNat r; if b == 0 || b > 128 then none else pure (.maxI b, r)
  | 'm' :: 'n' :: 'i' :: r => do let (b, r) ← pNat r; if b == 0 || b > 128 then none else pure (.minI b, r)
  | 'm' :: 'x' :: r => do let (b, r) ← pNat r; if b == 0 || b > 128 then none else pure (.maxN b, r)
  | 'm' :: 'n' :: r => do let (b, r) ← pNat r; if b == 0 || b > 128 then none else pure (.minN b, r)
  | 'u' :: 'n' :: r => some (.unit, r)
  | 'c' :: 'f' :: r => some (.conflict, r)
  | 's' :: 'e' :: 't' :: '.' :: c :: r => if "hbvaos".toList.contains c then some (.set c, r) else none
  | 'm' :: 'a' :: 'p' :: '.' :: c :: '(' :: r =>
    if "hbvaos".toList.contains c then do
      let (t, r) ← pDesc r
      let (_, r) ← pChar ')' r
      pure (.map c t, r)
    else none
  | 'w' :: 'b' :: '(' :: _ => un "wb(" .withBot
  | 'w' :: 't' :: '(' :: _ => un "wt(" .withTop
  | 'v' :: 'u' :: '(' :: _ => un "vu(" .vec
  | 'p' :: 'r' :: '(' :: _ => bin "pr(" .pair
  | 'd' :: 'p' :: '(' :: _ => bin "dp(" .domPair
  | 't' :: 'r' :: '(' :: r => do
    let (a, r) ← pDesc r
    let (_, r) ← pChar ',' r
    let (b, r) ← pDesc r
    let (_, r) ← pChar ',' r
    let (c, r) ← pDesc r
    let (_, r) ← pChar ')' r
    pure (.tri a b c, r)
  | _ => none

/-- items separated by `,` up to the closing character (which is consumed) -/
partial def pSep (p : P α) (close : Char) : P (List α) := fun cs =>
  match cs with
  | c :: r =>
    if c == close then some ([], r) else
    let rec go (acc : List α) (cs : List Char) : Option (List α × List Char) := do
      let (x, r) ← p cs
      match r with
      | d :: r' =>
        if d == close then pure ((x :: acc).reverse, r')
        else if d == ',' then go (x :: acc) r'
        else none
      | [] => none
    go [] cs
  | [] => none

def pOpt (p : P α) : P (Option α) := fun cs =>
  match cs with
  | 'N' :: r => some (none, r)
  | 'S' :: r => (p r).map fun (x, r) => (some x, r)
  | _ => none

def isColl (c : Char) : Bool := c == 'h' || c == 'b'

/-- element-count constraint of the backing: array = exactly 2, option = at most 1, singleton = exactly 1 -/
def arityOk (c : Char) (n : Nat) : Bool :=
  if c == 'a' then n == 2 else if c == 'o' then n ≤ 1 else if c == 's' then n == 1 else true

partial def pVal : (d : Desc) → P (Val d.ty)
  | .maxN b => fun cs => do let (n, r) ← pNat cs; if n ≤ 2 ^ b - 1 then pure (n, r) else none
  | .minN b => fun cs => do let (n, r) ← pNat cs; if n ≤ 2 ^ b - 1 then pure (n, r) else none
  | .maxI b => fun cs => do
    let (n, r) ← pInt cs
    if -((2 ^ (b - 1) - 1 : Nat) : Int) - 1 ≤ n ∧ n ≤ ((2 ^ (b - 1) - 1 : Nat) : Int) then pure (n, r) else none
  | .minI b => fun cs => do
    let (n, r) ← pInt cs
    if -((2 ^ (b - 1) - 1 : Nat) : Int) - 1 ≤ n ∧ n ≤ ((2 ^ (b - 1) - 1 : Nat) : Int) then pure (n, r) else none
  | .maxC => fun cs => do let (n, r) ← pNat cs; if isScalar n then pure (n, r) else none
  | .minC => fun cs => do let (n, r) ← pNat cs; if isScalar n then pure (n, r) else none
  | .maxB => fun cs => match cs with | 't' :: r => some (true, r) | 'f' :: r => some (false, r) | _ => none
  | .minB => fun cs => match cs with | 't' :: r => some (true, r) | 'f' :: r => some (false, r) | _ => none
  | .unit => fun cs => match cs with | 'u' :: r => some ((), r) | _ => none
  | .conflict => fun cs => pOpt pNat cs
  | .set c => fun cs => do
    let (_, r) ← pChar '{' cs
    let (xs, r) ← pSep pNat '}' r
    if !arityOk c xs.length then none else
    pure (if isColl c then setExtend [] xs else xs, r)
  | .map c v => fun cs => do
    let (_, r) ← pChar '[' cs
    let entry : P (Nat × Val v.ty) := fun cs => do
      let (k, r) ← pNat cs
      let (_, r) ← pChar ':' r
      let (x, r) ← pVal v r
      pure ((k, x), r)
    let (es, r) ← pSep entry ']' r
    if !arityOk c es.length then none else
    pure (if isColl c then mapExtend [] es else es, r)
  | .withBot t => fun cs => pOpt (pVal t) cs
  | .withTop t => fun cs => pOpt (pVal t) cs
  | .pair a b => fun cs => do
    let (_, r) ← pChar '(' cs
    let (x, r) ← pVal a r
    let (_, r) ← pChar ',' r
    let (y, r) ← pVal b r
    let (_, r) ← pChar ')' r
    pure ((x, y), r)
  | .domPair a b => fun cs => do
    let (_, r) ← pChar '(' cs
    let (x, r) ← pVal a r
    let (_, r) ← pChar ',' r
    let (y, r) ← pVal b r
    let (_, r) ← pChar ')' r
    pure ((x, y), r)
  | .vec t => fun cs => do
    let (_, r) ← pChar '<' cs
    pSep (pVal t) '>' r
  | .tri a b c => fun cs => do
    let (_, r) ← pChar '(' cs
    let (x, r) ← pVal a r
    let (_, r) ← pChar ',' r
    let (y, r) ← pVal b r
    let (_, r) ← pChar ',' r
    let (z, r) ← pVal c r
    let (_, r) ← pChar ')' r
    pure ((x, y, z), r)

def full (p : P α) (s : String) : Option α :=
  match p s.toList with
  | some (x, []) => some x
  | _ => none

def showOpt (f : α → String) : Option α → String
  | none => "N"
  | some x => "S" ++ f x

def showVal : (t : LTy) → Val t → String
  | .maxN _, (n : Nat) => toString n
  | .minN _, (n : Nat) => toString n
  | .maxI _, (n : Int) => toString n
  | .minI _, (n : Int) => toString n
  | .maxB, (b : Bool) => if b then "t" else "f"
  | .minB, (b : Bool) => if b then "t" else "f"
  | .unit, _ => "u"
  | .conflict, (o : Option Nat) => showOpt toString o
  | .set, (s : List Nat) => "{" ++ ",".intercalate ((s.mergeSort (· ≤ ·)).map toString) ++ "}"
  | .map v, (m : List (Nat × Val v)) =>
    "[" ++ ",".intercalate ((m.mergeSort (fun a b => a.1 ≤ b.1)).map fun e => toString e.1 ++ ":" ++ showVal v e.2) ++ "]"
  | .withBot t, (o : Option (Val t)) => showOpt (showVal t) o
  | .withTop t, (o : Option (Val t)) => showOpt (showVal t) o
  | .pair a b, (p : Val a × Val b) => "(" ++ showVal a p.1 ++ "," ++ showVal b p.2 ++ ")"
  | .domPair a b, (p : Val a × Val b) => "(" ++ showVal a p.1 ++ "," ++ showVal b p.2 ++ ")"
  | .vec t, (l : List (Val t)) => "<" ++ ",".intercalate (l.map (showVal t)) ++ ">"
  | .tri a b c, (p : Val a × Val b × Val c) =>
    "(" ++ showVal a p.1 ++ "," ++ showVal b p.2.1 ++ "," ++ showVal c p.2.2 ++ ")"

def showBool (b : Bool) : String := if b then "true" else "false"

def showCmp : Option Ordering → String
  | none => "none"
  | some .lt => "lt"
  | some .eq => "eq"
  | some .gt => "gt"

/-- two operands of (representations of) the same lattice type -/
def twoVals (sa sb a b : String) : Option ((t : LTy) × Val t × Val t) := do
  let da ← full pDesc sa
  let db ← full pDesc sb
  let va ← full (pVal da) a
  let vb ← full (pVal db) b
  if h : db.ty = da.ty then pure ⟨da.ty, va, h ▸ vb⟩ else none

def oneVal (sa a : String) : Option ((t : LTy) × Val t) := do
  let da ← full pDesc sa
  let va ← full (pVal da) a
  pure ⟨da.ty, va⟩

def orBad (o : Option String) : String := o.getD "bad-op"

def pointOp (op : String) (args : List String) : Option String :=
  match op, args with
  | "merge", ["pt", "pt", a, b] => do
    let x ← full pNat a
    let y ← full pNat b
    pure (match pointMerge x y with | none => "panic" | some r => s!"{r.1} {showBool r.2}")
  | "cmp", ["pt", "pt", a, b] => do
    let x ← full pNat a
    let y ← full pNat b
    pure (match pointCmp x y with | none => "panic" | some r => showCmp r)
  | "eq", ["pt", "pt", a, b] => do
    let x ← full pNat a
    let y ← full pNat b
    pure (showBool (pointEq x y))
  | "isbot", ["pt", a] => (full pNat a).map fun _ => "true"
  | "istop", ["pt", a] => (full pNat a).map fun _ => "true"
  | "default", ["pt"] => some "0"
  | "from", ["pt", "pt", a] => (full pNat a).map toString
  | _, _ => none

/-! union-find `Atomize` (union_find.rs): the number of atoms of a value built by `union` calls is the
number of unions that joined two classes (every such union makes exactly one root a non-root, and the
atoms are the non-root entries).  Naive partition, driver only (no theorem). -/
def ufClass (cls : List (Nat × Nat)) (x : Nat) : Nat := (cls.lookup x).getD x

def ufUnion (st : List (Nat × Nat) × Nat) (p : Nat × Nat) : List (Nat × Nat) × Nat :=
  let ca := ufClass st.1 p.1
  let cb := ufClass st.1 p.2
  if ca == cb then st else
    let cls := if (st.1.lookup p.1).isSome then st.1 else (p.1, ca) :: st.1
    let cls := if (cls.lookup p.2).isSome then cls else (p.2, cb) :: cls
    (cls.map (fun e => if e.2 == cb then (e.1, ca) else e), st.2 + 1)

def pPairs (s : String) : Option (List (Nat × Nat)) :=
  if s == "-" then some [] else
  (s.splitOn ",").mapM fun p =>
    match p.splitOn "-" with
    | [a, b] => do
      let x ← full pNat a
      let y ← full pNat b
      if a.length > 6 || b.length > 6 then none else pure (x, y)
    | _ => none

def step (line : String) : String :=
  let l := line.trimAscii.toString
  match l.splitOn " " with
  | "#case" :: _ => l
  | op :: args =>
    if args.contains "pt" then orBad (pointOp op args) else
    match op, args with
    | "merge", [sa, sb, a, b] => orBad do
      let ⟨t, x, y⟩ ← twoVals sa sb a b
      let r := (lat t).merge x y
      pure s!"{showVal t r.1} {showBool r.2}"
    | "assoc", [sa, a, b, c] => orBad do
      let da ← full pDesc sa
      let x ← full (pVal da) a
      let y ← full (pVal da) b
      let z ← full (pVal da) c
      let L := lat da.ty
      let l := (L.merge (L.merge x y).1 z).1
      let r := (L.merge x (L.merge y z).1).1
      pure s!"{showVal da.ty l} {showVal da.ty r}"
    | "trans", [sa, a, b, c] => orBad do
      let da ← full pDesc sa
      let x ← full (pVal da) a
      let y ← full (pVal da) b
      let z ← full (pVal da) c
      let L := lat da.ty
      pure s!"{showCmp (L.cmp x y)} {showCmp (L.cmp y z)} {showCmp (L.cmp x z)}"
    | "cmp", [sa, sb, a, b] => orBad do
      let ⟨t, x, y⟩ ← twoVals sa sb a b
      pure (showCmp ((lat t).cmp x y))
    | "eq", [sa, sb, a, b] => orBad do
      let ⟨t, x, y⟩ ← twoVals sa sb a b
      pure (showBool ((lat t).beq x y))
    | "isbot", [sa, a] => orBad do
      let ⟨t, x⟩ ← oneVal sa a
      pure (showBool ((lat t).isBot x))
    | "istop", [sa, a] => orBad do
      let ⟨t, x⟩ ← oneVal sa a
      pure (showBool ((lat t).isTop x))
    | "default", [sa] => orBad do
      let da ← full pDesc sa
      let d ← (lat da.ty).dflt
      pure (showVal da.ty d)
    | "from", [sa, sb, b] => orBad do
      let da ← full pDesc sa
      let db ← full pDesc sb
      let vb ← full (pVal db) b
      if h : db.ty = da.ty then
        let x : Val da.ty := h ▸ vb
        pure (showVal da.ty ((lat da.ty).lfrom x))
      else none
    | "ufatomize", [r, ps] => orBad do
      if r != "h" && r != "b" then none else
      let pairs ← pPairs ps
      pure (toString (pairs.foldl ufUnion ([], 0)).2)
    | "atomize", [sa, a] => orBad do
      let ⟨t, x⟩ ← oneVal sa a
      if atomizable t then
        let as := ((lat t).atoms x).map (showVal t)
        let as := as.mergeSort (fun a b => !(b < a))
        pure (if as.isEmpty then "-" else "|".intercalate as)
      else none
    | _, _ => "bad-op"
  | [] => "bad-op"

partial def loop (h : IO.FS.Stream) (out : IO.FS.Stream) : IO Unit := do
  let line ← h.getLine
  if line.isEmpty then return ()
  out.putStrLn (step line)
  loop h out

def main : IO Unit := do
  let stdin ← IO.getStdin
  let stdout ← IO.getStdout
  loop stdin stdout
