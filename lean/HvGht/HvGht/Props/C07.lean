/-
C07 — Shipped lattice morphisms distribute over merge.

The bimorphisms of the `lattices` crate, modelled in `HvGht/Model/Morph.lean` (sets, maps,
pairs) and `HvGht/Model/Ght.lean` (tries), satisfy
    f(a ⊔ a', b) = f(a, b) ⊔ f(a', b)      and      f(a, b ⊔ b') = f(a, b) ⊔ f(a, b')
where `⊔` is the model of `Merge::merge` and `=` is the model of the crate's own `PartialEq`
(`SetUnion::eq`, `MapUnion::eq` — which ignores bottom values —, the derived `Pair` eq), for
*all* valid values (duplicate-free sets, maps with distinct keys).  `Bimorphism` bundles both
laws with validity of the output and bottom-strictness; `LatLaws` are the facts about a lattice
the keyed construction needs.  Helper lemmas: `HvGht/Lemmas/{MapLemmas,Bim,Laws}.lean`.

* `CartesianProductBimorphism` is a (strict) bimorphism.
* `KeyedBimorphism f` is a (strict) bimorphism whenever `f` is — parametric in `f` and in the
  value lattices, so it covers every nesting (`keyed (keyed f)` …).
* `PairBimorphism` satisfies both laws (given idempotence of merge) but is **not** bottom
  strict, and `KeyedBimorphism(PairBimorphism)` violates the law on maps holding a bottom
  value (finding F23, `keyed_pair_refuted`).
* GHT: deep join (all heights) and cartesian product satisfy both laws up to the set of rows,
  and under the crate's `==` on tries.
-/
import HvGht.Lemmas.Laws
import HvGht.Lemmas.Compare
import HvGht.Lemmas.GhtLaws

set_option linter.unusedSimpArgs false
set_option linter.unusedVariables false

namespace HvGht
open List

/-! ## sets -/

/-- `CartesianProductBimorphism`: both laws, valid output, bottom-strict. -/
theorem cartesian_product_bimorphism {α β : Type} [DecidableEq α] [DecidableEq β] :
    Bimorphism (setOps : LatOps (List α)) (setOps : LatOps (List β)) (setOps : LatOps (List (α × β)))
      List.Nodup List.Nodup List.Nodup cartesianProduct :=
  aux_bimorphism_cp

/-- the left law spelled out: `cp(a ⊔ a', b) == cp(a, b) ⊔ cp(a', b)` -/
theorem cartesian_product_left {α β : Type} [DecidableEq α] [DecidableEq β] (a a' : List α) (b : List β)
    (ha : a.Nodup) (ha' : a'.Nodup) (hb : b.Nodup) :
    setEq (cartesianProduct (setMerge a a') b) (setMerge (cartesianProduct a b) (cartesianProduct a' b)) = true :=
  aux_bimorphism_cp.left a a' b ha ha' hb

theorem cartesian_product_right {α β : Type} [DecidableEq α] [DecidableEq β] (a : List α) (b b' : List β)
    (ha : a.Nodup) (hb : b.Nodup) (hb' : b'.Nodup) :
    setEq (cartesianProduct a (setMerge b b')) (setMerge (cartesianProduct a b) (cartesianProduct a b')) = true :=
  aux_bimorphism_cp.right a b b' ha hb hb'

/-! ## the lattice facts (so that the keyed construction nests) -/

theorem set_lattice_laws {α : Type} [DecidableEq α] : LatLaws (setOps : LatOps (List α)) List.Nodup :=
  aux_latLaws_set

theorem map_lattice_laws {β : Type} {L : LatOps β} {V : β → Prop} (l : LatLaws L V) :
    LatLaws (mapOps L) (MapValid V) := aux_latLaws_map l

theorem pair_lattice_laws {α β : Type} {A : LatOps α} {B : LatOps β} {VA : α → Prop} {VB : β → Prop}
    (la : LatLaws A VA) (lb : LatLaws B VB) : LatLaws (pairOps A B) (fun p => VA p.1 ∧ VB p.2) :=
  aux_latLaws_pair la lb

/-! ## `KeyedBimorphism` -/

/-- If `f` is a bottom-strict bimorphism then so is `KeyedBimorphism f`, for maps with distinct
keys that may hold bottom values. -/
theorem keyed_bimorphism {α β γ : Type} {A : LatOps α} {B : LatOps β} {C : LatOps γ}
    {VA : α → Prop} {VB : β → Prop} {VC : γ → Prop} {f : α → β → γ}
    (la : LatLaws A VA) (lb : LatLaws B VB) (lc : LatLaws C VC) (bim : Bimorphism A B C VA VB VC f) :
    Bimorphism (mapOps A) (mapOps B) (mapOps C) (MapValid VA) (MapValid VB) (MapValid VC) (keyed f) :=
  aux_bimorphism_keyed la lb lc bim

/-- the shipped join: `KeyedBimorphism(CartesianProductBimorphism)` -/
theorem keyed_cartesian_product_bimorphism :
    Bimorphism (mapOps (setOps : LatOps (List Nat))) (mapOps (setOps : LatOps (List Nat)))
      (mapOps (setOps : LatOps (List (Nat × Nat))))
      (MapValid List.Nodup) (MapValid List.Nodup) (MapValid List.Nodup) (keyed cartesianProduct) :=
  keyed_bimorphism aux_latLaws_set aux_latLaws_set aux_latLaws_set aux_bimorphism_cp

/-- nesting: `KeyedBimorphism(KeyedBimorphism(CartesianProductBimorphism))` -/
theorem keyed_keyed_cartesian_product_bimorphism :
    Bimorphism (mapOps (mapOps (setOps : LatOps (List Nat)))) (mapOps (mapOps (setOps : LatOps (List Nat))))
      (mapOps (mapOps (setOps : LatOps (List (Nat × Nat)))))
      (MapValid (MapValid List.Nodup)) (MapValid (MapValid List.Nodup)) (MapValid (MapValid List.Nodup))
      (keyed (keyed cartesianProduct)) :=
  keyed_bimorphism (aux_latLaws_map aux_latLaws_set) (aux_latLaws_map aux_latLaws_set)
    (aux_latLaws_map aux_latLaws_set) keyed_cartesian_product_bimorphism

/-! ## `PairBimorphism` -/

/-- `Pair(a ⊔ a', b) == Pair(a, b) ⊔ Pair(a', b)` — needs only reflexivity and idempotence -/
theorem pair_bimorphism_left {α β : Type} (A : LatOps α) (B : LatOps β)
    (reflA : ∀ a, A.eq a a = true) (idemB : ∀ b, B.eq b (B.merge b b) = true) (a a' : α) (b : β) :
    (pairOps A B).eq (pairBim (A.merge a a') b) ((pairOps A B).merge (pairBim a b) (pairBim a' b)) = true := by
  simp [pairOps, pairBim, reflA, idemB]

theorem pair_bimorphism_right {α β : Type} (A : LatOps α) (B : LatOps β)
    (idemA : ∀ a, A.eq a (A.merge a a) = true) (reflB : ∀ b, B.eq b b = true) (a : α) (b b' : β) :
    (pairOps A B).eq (pairBim a (B.merge b b')) ((pairOps A B).merge (pairBim a b) (pairBim a b')) = true := by
  simp [pairOps, pairBim, idemA, reflB]

theorem aux_setMerge_subset {α : Type} [DecidableEq α] (o s : List α) (h : ∀ x ∈ o, x ∈ s) :
    setMerge s o = s := by
  induction o generalizing s with
  | nil => rfl
  | cons x o ih =>
    simp only [setMerge, List.foldl_cons]
    have : setInsert s x = s := by simp [setInsert, h x (by simp)]
    rw [this]; exact ih s (fun y hy => h y (by simp [hy]))

/-- on sets (the instantiation the harness runs), for all sets -/
theorem pair_bimorphism_sets (a a' b b' : List Nat) :
    (pairOps setOps setOps).eq (pairBim (setMerge a a') b)
        ((pairOps setOps setOps).merge (pairBim a b) (pairBim a' b)) = true ∧
    (pairOps setOps setOps).eq (pairBim a (setMerge b b'))
        ((pairOps setOps setOps).merge (pairBim a b) (pairBim a b')) = true := by
  constructor
  · exact pair_bimorphism_left setOps setOps aux_setEq_refl (fun b => by
      simp only [setOps]; rw [aux_setMerge_subset b b (fun _ h => h)]; exact aux_setEq_refl b) a a' b
  · exact pair_bimorphism_right setOps setOps (fun a => by
      simp only [setOps]; rw [aux_setMerge_subset a a (fun _ h => h)]; exact aux_setEq_refl a) aux_setEq_refl a b b'

/-- `PairBimorphism` is not bottom-strict: `Pair(⊥, b)` is not bottom. -/
theorem pair_not_strict_refuted :
    ¬ ∀ (a b : List Nat), setOps.isBot a = true → (pairOps setOps setOps).isBot (pairBim a b) = true := by
  intro h
  have := h [] [7] rfl
  exact absurd this (by decide)

/-- F23: `KeyedBimorphism(PairBimorphism)` violates the left law on a map holding a bottom
value — `a = {}`, `a' = {1 ↦ ∅}`, `b = {1 ↦ {7}}` — under `MapUnion`'s own `==`; and it tells
apart two maps that `MapUnion::eq` identifies. -/
theorem keyed_pair_refuted :
    let P := pairOps (setOps : LatOps (List Nat)) (setOps : LatOps (List Nat))
    let a : List (Key × List Nat) := []
    let a' : List (Key × List Nat) := [(1, [])]
    let b : List (Key × List Nat) := [(1, [7])]
    mapEq setOps a a' = true ∧
    mapEq P (keyed pairBim (mapMerge setOps a a') b) (mapMerge P (keyed pairBim a b) (keyed pairBim a' b)) = false ∧
    mapEq P (keyed pairBim a b) (keyed pairBim a' b) = false := by
  decide

/-! ## GHT bimorphisms -/

/-- deep join, left law, as sets of rows (all heights, all well-formed tries) -/
theorem deep_join_left_rows (sk : Kind) (k n d : Nat) (a a' b : Ght n)
    (ha : Wf .set n d a) (ha' : Wf .set n d a') (hb : Wf .set n d b) (x : Row) :
    x ∈ grows n (deepJoin sk k n (gmerge .set n a a').1 b) ↔
      x ∈ grows n (gmerge .set n (deepJoin sk k n a b) (deepJoin sk k n a' b)).1 :=
  aux_deepJoin_rows_left sk k n d a a' b ha ha' hb x

theorem deep_join_right_rows (sk : Kind) (k n d : Nat) (a b b' : Ght n)
    (ha : Wf .set n d a) (hb : Wf .set n d b) (hb' : Wf .set n d b') (x : Row) :
    x ∈ grows n (deepJoin sk k n a (gmerge .set n b b').1) ↔
      x ∈ grows n (gmerge .set n (deepJoin sk k n a b) (deepJoin sk k n a b')).1 :=
  aux_deepJoin_rows_right sk k n d a b b' ha hb hb' x

/-- deep join, both laws under the crate's own `==` on tries (which since the F7 fix compares the rows
of well-formed tries: the outputs are well formed, `deep_join_wf`).  `la`: the rows of the left
operand have the columns the trie is keyed on (in Rust: the schema's arity). -/
theorem deep_join_left_eq (k n d : Nat) (a a' b : Ght n)
    (ha : Wf .set n d a) (ha' : Wf .set n d a') (hb : Wf .set n d b)
    (la : ∀ r ∈ grows n a, d + n ≤ r.length) (la' : ∀ r ∈ grows n a', d + n ≤ r.length) :
    (ghtOps n).eq (deepJoin .set k n ((ghtOps n).merge a a') b)
      ((ghtOps n).merge (deepJoin .set k n a b) (deepJoin .set k n a' b)) = true :=
  aux_deepJoin_struct_left k n d a a' b ha ha' hb la la'

theorem deep_join_right_eq (k n d : Nat) (a b b' : Ght n)
    (ha : Wf .set n d a) (hb : Wf .set n d b) (hb' : Wf .set n d b')
    (la : ∀ r ∈ grows n a, d + n ≤ r.length) :
    (ghtOps n).eq (deepJoin .set k n a ((ghtOps n).merge b b'))
      ((ghtOps n).merge (deepJoin .set k n a b) (deepJoin .set k n a b')) = true :=
  aux_deepJoin_struct_right k n d a b b' ha hb hb' la

/-- `GhtCartesianProductBimorphism`, both laws as sets of rows (any input/output heights) -/
theorem ght_cartesian_product_left_rows (sk : Kind) (no na nb da db : Nat) (a a' : Ght na) (b : Ght nb) (x : Row) :
    x ∈ grows no (gcart sk no da db (gmerge .set na a a').1 b) ↔
      x ∈ grows no (gmerge .set no (gcart sk no da db a b) (gcart sk no da db a' b)).1 :=
  aux_cart_rows_left sk no na nb da db a a' b x

theorem ght_cartesian_product_right_rows (sk : Kind) (no na nb da db : Nat) (a : Ght na) (b b' : Ght nb) (x : Row) :
    x ∈ grows no (gcart sk no da db a (gmerge .set nb b b').1) ↔
      x ∈ grows no (gmerge .set no (gcart sk no da db a b) (gcart sk no da db a b')).1 :=
  aux_cart_rows_right sk no na nb da db a b b' x

/-- the `==` form of the cartesian-product law, for an inner-node output type: both sides are
well-formed tries, for which `==` is equality of the sets of rows (C08). -/
theorem ght_cartesian_product_left_eq (no na nb da db : Nat) (a a' : Ght na) (b : Ght nb) (hno : 0 < no) :
    geq no (gcart .set no da db (gmerge .set na a a').1 b)
      (gmerge .set no (gcart .set no da db a b) (gcart .set no da db a' b)).1 = true := by
  obtain ⟨m, rfl⟩ : ∃ m, no = m + 1 := ⟨no - 1, by omega⟩
  have g1 : Good (m + 1) 0 (gcart .set (m + 1) da db (gmerge .set na a a').1 b) := aux_good_newFrom _ _ _
  have g2 : Good (m + 1) 0 (gcart .set (m + 1) da db a b) := aux_good_newFrom _ _ _
  have g3 : Good (m + 1) 0 (gcart .set (m + 1) da db a' b) := aux_good_newFrom _ _ _
  rw [aux_geq_iff (m + 1) 0 _ _ g1.1 (aux_good_merge _ _ _ _ g2 g3).1]
  exact fun x => aux_cart_rows_left .set (m + 1) na nb da db a a' b x

theorem ght_cartesian_product_right_eq (no na nb da db : Nat) (a : Ght na) (b b' : Ght nb) (hno : 0 < no) :
    geq no (gcart .set no da db a (gmerge .set nb b b').1)
      (gmerge .set no (gcart .set no da db a b) (gcart .set no da db a b')).1 = true := by
  obtain ⟨m, rfl⟩ : ∃ m, no = m + 1 := ⟨no - 1, by omega⟩
  have g1 : Good (m + 1) 0 (gcart .set (m + 1) da db a (gmerge .set nb b b').1) := aux_good_newFrom _ _ _
  have g2 : Good (m + 1) 0 (gcart .set (m + 1) da db a b) := aux_good_newFrom _ _ _
  have g3 : Good (m + 1) 0 (gcart .set (m + 1) da db a b') := aux_good_newFrom _ _ _
  rw [aux_geq_iff (m + 1) 0 _ _ g1.1 (aux_good_merge _ _ _ _ g2 g3).1]
  exact fun x => aux_cart_rows_right .set (m + 1) na nb da db a b b' x

/-! ## non-vacuity -/

example : setEq (cartesianProduct (setMerge [1, 2] [2, 3]) [5, 6])
    (setMerge (cartesianProduct [1, 2] [5, 6]) (cartesianProduct [2, 3] [5, 6])) = true := by decide
example : MapValid List.Nodup [(1, [1, 2]), (2, ([] : List Nat))] := by
  simp [MapValid, keysOf]
example : mapEq setOps (keyed cartesianProduct (mapMerge setOps [(1, [1])] [(1, [2]), (2, ([] : List Nat))]) [(1, [7]), (2, [8])])
    (mapMerge setOps (keyed cartesianProduct [(1, [1])] [(1, [7]), (2, [8])])
      (keyed cartesianProduct [(1, [2]), (2, ([] : List Nat))] [(1, [7]), (2, [8])])) = true := by decide
example : grows 1 (deepJoin .set 1 1 (gmerge .set 1 (gnewFrom .set 1 0 [[1, 1]]) (gnewFrom .set 1 0 [[1, 2], [2, 2]])).1
    (gnewFrom .set 1 0 [[1, 5], [2, 6]])) = [[1, 1, 5], [1, 2, 5], [2, 2, 6]] := by decide

end HvGht
