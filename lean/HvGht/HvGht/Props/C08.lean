/-
C08 — Generalized hash tries behave as sets of tuples.

Property theorems about the executable model `HvGht/Model/Ght.lean` (a transcription of
`lattices/src/ght/{mod,lattice,colt}.rs`), for *every* height `n`, every trie, every row /
history / prefix.  `grows n t` is `recursive_iter()`.  Helper lemmas live in
`HvGht/Lemmas/*.lean` (named `aux_*`).

Invariants used (all proved to be kept by `insert`, `merge`, `new_from` from `default()`):
* `Wf sk n d t`   — keys of a node are distinct, rows under the child for key `k` of a node
                    at depth `d'` carry `k` in column `d'`, hash-set leaves are duplicate-free;
* `Good n d t`    — `Wf` for hash-set storage + no present-but-empty child + no `forced` leaf
                    (only the exactness of merge's `changed` flag needs it).
Comparison (`==`, `partial_cmp`) agrees with the set of rows for every well-formed hash-set trie.
That is a statement about the code after /repo `fix: GHT ==/partial_cmp …`: as shipped, `==` and
`partial_cmp` counted present-but-empty children, which the join bimorphisms and the COLT cursor
create (finding F7), and the derived `PartialEq` of a leaf compared the COLT flag `forced` (F22) —
see the `_refuted_before_fix` theorems at the end, stated on the `*BeforeFix` definitions.
-/
import HvGht.Lemmas.Compare
import HvGht.Lemmas.Cmp
import HvGht.Lemmas.Colt
import HvGht.Lemmas.ColtCursor
import HvGht.Lemmas.More

set_option linter.unusedSimpArgs false
set_option linter.unusedVariables false

namespace HvGht
open List

/-! ## insertion, membership, iteration -/

/-- `insert` always answers `true` (also for a tuple that is already there). -/
theorem insert_returns_true (sk : Kind) (n d : Nat) (t : Ght n) (row : Row) :
    (ginsert sk n d t row).2 = true := by
  induction n generalizing d with
  | zero => rfl
  | succ n ih => simp only [ginsert, aux_upsert_snd]; exact ih _ _

/-- rows after `insert` = rows before ∪ {row} (every storage kind, every trie). -/
theorem rows_insert (sk : Kind) (n d : Nat) (t : Ght n) (row x : Row) :
    x ∈ grows n (ginsert sk n d t row).1 ↔ x ∈ grows n t ∨ x = row :=
  aux_mem_rows_insert sk n d t row x

theorem insert_preserves_wf (sk : Kind) (n d : Nat) (t : Ght n) (row : Row) (h : Wf sk n d t) :
    Wf sk n d (ginsert sk n d t row).1 :=
  aux_wf_insert sk n d t row h

/-- a well-formed hash-set trie iterates every tuple once: it is a *set* of tuples -/
theorem rows_nodup_of_wf (n d : Nat) (t : Ght n) (h : Wf .set n d t) : (grows n t).Nodup := by
  induction n generalizing d with
  | zero => exact h rfl
  | succ n ih =>
    rw [aux_grows_succ, lrows, List.nodup_flatMap]
    refine ⟨fun kc hkc => ih _ _ (h.2 kc hkc).1, ?_⟩
    have hp : t.kids.Pairwise (fun a b => a.1 ≠ b.1) := by
      have := h.1; unfold keysOf at this
      exact (List.pairwise_map.mp this)
    refine hp.imp_of_mem ?_
    intro a b ha hb hne
    simp only [Function.onFun]
    intro r hra hrb
    exact hne (((h.2 a ha).2 r hra).symm.trans ((h.2 b hb).2 r hrb))

/-- `contains(row)` ⇔ `row` is one of the rows `recursive_iter` yields. -/
theorem contains_iff_mem_rows (sk : Kind) (n d : Nat) (t : Ght n) (row : Row) (h : Wf sk n d t) :
    gcontains n d t row = true ↔ row ∈ grows n t :=
  aux_contains_iff sk n d t row h

/-- `new_from(xs)` is well formed and holds exactly the tuples of `xs`. -/
theorem rows_new_from (sk : Kind) (n d : Nat) (xs : List Row) :
    Wf sk n d (gnewFrom sk n d xs) ∧ ∀ x, x ∈ grows n (gnewFrom sk n d xs) ↔ x ∈ xs := by
  have := aux_newFrom_spec sk n d xs (gempty n) (aux_wf_empty sk n d)
  simp only [aux_grows_empty, List.not_mem_nil, false_or] at this
  exact this

/-- every history of inserts: the trie holds exactly the tuples inserted (set semantics for
hash-set storage is `rows_nodup_of_wf`). -/
theorem rows_after_history (sk : Kind) (n d : Nat) (t0 : Ght n) (h0 : Wf sk n d t0) (hist : List Row) :
    let t := hist.foldl (fun t r => (ginsert sk n d t r).1) t0
    Wf sk n d t ∧ ∀ x, x ∈ grows n t ↔ x ∈ grows n t0 ∨ x ∈ hist :=
  aux_newFrom_spec sk n d hist t0 h0

/-- `is_bot` ⇔ no rows (for every trie, empty children included). -/
theorem isBot_iff_no_rows (n : Nat) (t : Ght n) : gisBot n t = true ↔ grows n t = [] :=
  aux_isBot_iff n t

/-! ## merge -/

/-- rows(a ⊔ b) = rows(a) ∪ rows(b) -/
theorem rows_merge (sk : Kind) (n : Nat) (a b : Ght n) (x : Row) :
    x ∈ grows n (gmerge sk n a b).1 ↔ x ∈ grows n a ∨ x ∈ grows n b :=
  aux_mem_rows_merge sk n a b x

theorem merge_preserves_wf (sk : Kind) (n d : Nat) (a b : Ght n) (ha : Wf sk n d a) (hb : Wf sk n d b) :
    Wf sk n d (gmerge sk n a b).1 :=
  aux_wf_merge sk n d a b ha hb

/-- the `changed` flag of `merge` is exact under the invariant: `true` iff `b` brings a new row -/
theorem merge_changed_iff (n d : Nat) (a b : Ght n) (ga : Good n d a) (gb : Good n d b) :
    (gmerge .set n a b).2 = true ↔ ∃ x ∈ grows n b, x ∉ grows n a :=
  aux_merge_changed_iff n d a b ga gb

/-! ## comparison -/

/-- the invariant needed for the `changed` flag is established by `default()`/`new_from` and kept by
`insert` and `merge` -/
theorem good_default (n d : Nat) : Good n d (gempty n) := aux_good_empty n d
theorem good_new_from (n d : Nat) (xs : List Row) : Good n d (gnewFrom .set n d xs) := aux_good_newFrom n d xs
theorem good_insert (n d : Nat) (t : Ght n) (row : Row) (h : Good n d t) :
    Good n d (ginsert .set n d t row).1 := aux_good_insert n d t row h
theorem good_merge (n d : Nat) (a b : Ght n) (ha : Good n d a) (hb : Good n d b) :
    Good n d (gmerge .set n a b).1 := aux_good_merge n d a b ha hb

/-- `==` ⇔ same set of rows, for all well-formed hash-set tries — including join outputs with
empty children, COLT tries with `or_default` children and `forced` leaves -/
theorem eq_iff_same_rows (n d : Nat) (a b : Ght n) (wa : Wf .set n d a) (wb : Wf .set n d b) :
    geq n a b = true ↔ ∀ x, x ∈ grows n a ↔ x ∈ grows n b :=
  aux_geq_iff n d a b wa wb

/-- `partial_cmp` is the inclusion order of the sets of rows, for all well-formed hash-set tries:
`Some(Equal)` ⇔ same rows, `Some(Less)` ⇔ strict subset, `Some(Greater)` ⇔ strict superset,
`None` ⇔ incomparable (`cmpSpec`). -/
theorem cmp_iff_subset (n d : Nat) (a b : Ght n) (wa : Wf .set n d a) (wb : Wf .set n d b) :
    gcmp n a b = cmpSpec (grows n a) (grows n b) :=
  aux_gcmp_spec n d a b wa wb

/-- `==` and `partial_cmp` agree with each other and with `is_bot` (the Rust `PartialOrd` contract):
`a == b ⇔ partial_cmp(a, b) == Some(Equal)`, and a trie without rows equals `default()` -/
theorem eq_iff_cmp_equal (n d : Nat) (a b : Ght n) (wa : Wf .set n d a) (wb : Wf .set n d b) :
    (geq n a b = true ↔ gcmp n a b = some .eq) ∧
    (gisBot n a = true ↔ geq n a (gempty n) = true) := by
  constructor
  · rw [eq_iff_same_rows n d a b wa wb, cmp_iff_subset n d a b wa wb]
    unfold cmpSpec
    constructor
    · intro h
      rw [if_pos (fun x hx => (h x).mp hx), if_pos (fun x hx => (h x).mpr hx)]
    · intro h
      by_cases h1 : ∀ x ∈ grows n a, x ∈ grows n b
      · by_cases h2 : ∀ x ∈ grows n b, x ∈ grows n a
        · exact fun x => ⟨h1 x, h2 x⟩
        · rw [if_pos h1, if_neg h2] at h; cases h
      · rw [if_neg h1] at h; split at h <;> cases h
  · rw [eq_iff_same_rows n d a (gempty n) wa (aux_wf_empty _ _ _), aux_isBot_iff, aux_grows_empty]
    constructor
    · intro h x; rw [h]
    · intro h
      cases hg : grows n a with
      | nil => rfl
      | cons r rs => exact absurd ((h r).mp (by rw [hg]; simp)) (by simp)

/-! ## prefix lookups -/

/-- `prefix_iter(p)` at the root = the rows that start with `p` (in iteration order). -/
theorem prefix_iter_eq_filter (sk : Kind) (n : Nat) (t : Ght n) (p : List Key) (h : Wf sk n 0 t)
    (hlen : ∀ r ∈ grows n t, n ≤ r.length) :
    gprefixIter n 0 t p = (grows n t).filter (fun r => decide (r.take p.length = p)) := by
  have := aux_prefix_eq_filter sk n 0 t p h (by simpa using hlen)
  simpa using this

/-- `get(head)` = the sub-trie holding exactly the rows whose key column is `head`. -/
theorem get_rows (sk : Kind) (n d : Nat) (t : Ght (n + 1)) (hd : Key) (h : Wf sk (n + 1) d t) :
    (match gget t hd with | some c => grows n c | none => []) =
      (grows (n + 1) t).filter (fun r => decide (headAt d r = hd)) :=
  aux_get_rows sk n d t hd h

/-! ## joins -/

/-- The deep join of two tries keyed on the same `n` columns is the relational equi-join on
those columns: `{ ra ++ valcols(rb) | ra ∈ a, rb ∈ b, ra[..n] = rb[..n] }`. -/
theorem deep_join_is_relational_join (sk ska skb : Kind) (n : Nat) (a b : Ght n)
    (ha : Wf ska n 0 a) (hb : Wf skb n 0 b)
    (la : ∀ r ∈ grows n a, n ≤ r.length) (lb : ∀ r ∈ grows n b, n ≤ r.length) (x : Row) :
    x ∈ grows n (deepJoin sk n n a b) ↔
      ∃ ra ∈ grows n a, ∃ rb ∈ grows n b, ra.take n = rb.take n ∧ x = ra ++ rb.drop n := by
  rw [aux_mem_deepJoin sk ska skb n n 0 a b ha hb x]
  constructor
  · rintro ⟨ra, hra, rb, hrb, hc, e⟩
    exact ⟨ra, hra, rb, hrb, (aux_take_eq_iff n ra rb (la ra hra) (lb rb hrb)).mpr
      (fun i hi => hc i (Nat.zero_le _) (by omega)), e⟩
  · rintro ⟨ra, hra, rb, hrb, hc, e⟩
    exact ⟨ra, hra, rb, hrb, fun i _ hi =>
      (aux_take_eq_iff n ra rb (la ra hra) (lb rb hrb)).mp hc i (by omega), e⟩

/-- the output of the deep join is a well-formed trie (so `contains`, `prefix_iter`, `get` … of
this file — comparison included — apply to it), although it may carry empty children. -/
theorem deep_join_wf (k n d : Nat) (a b : Ght n) (ha : Wf .set n d a) (hb : Wf .set n d b)
    (la : ∀ r ∈ grows n a, d + n ≤ r.length) :
    Wf .set n d (deepJoin .set k n a b) :=
  aux_wf_deepJoin k n d a b ha hb la

/-- `GhtCartesianProductBimorphism` at the roots: all concatenations, collected into a
well-formed trie of the requested height. -/
theorem cartesian_product_rows (sk : Kind) (no na nb : Nat) (a : Ght na) (b : Ght nb) (x : Row) :
    Wf sk no 0 (gcart sk no 0 0 a b) ∧
    (x ∈ grows no (gcart sk no 0 0 a b) ↔ ∃ ra ∈ grows na a, ∃ rb ∈ grows nb b, x = ra ++ rb) := by
  refine ⟨aux_wf_gfromIter _ _ _ _, ?_⟩
  unfold gcart
  rw [aux_mem_gfromIter, aux_mem_cartRows]; simp

/-! ## COLT `force` -/

/-- `force` re-keys a leaf one level up without changing its rows; `force_drain` also leaves
the leaf empty (and marked `forced`). -/
theorem force_preserves_rows (sk : Kind) (d : Nat) (l : Leaf) :
    Wf sk 1 d (forceLeaf sk d l) ∧ (∀ x, x ∈ grows 1 (forceLeaf sk d l) ↔ x ∈ l.rows) ∧
    (forceDrain sk d l).2 = forceLeaf sk d l ∧ (forceDrain sk d l).1.rows = [] := by
  have := rows_new_from sk 1 d l.rows
  exact ⟨this.1, this.2, rfl, rfl⟩

/-! ## multiset storages (counted hash set, column multiset) -/

/-- with a multiset storage `insert` adds one occurrence of the row -/
theorem rows_insert_bag_perm (n d : Nat) (t : Ght n) (row : Row) :
    (grows n (ginsert .bag n d t row).1).Perm (row :: grows n t) :=
  aux_insert_bag_perm n d t row

/-- with a multiset storage `merge_node` is multiset union -/
theorem rows_merge_node_bag_perm (n : Nat) (a b : Ght n) :
    (grows n (gmerge .bag n a b).1).Perm (grows n a ++ grows n b) :=
  aux_merge_bag_perm n a b

/-! ## COLT forest: `ColtGet::get` -/

/-- One `ColtGet::get(cursor, head)` with the cursor at `path`: the rows of the forest are
preserved as a multiset (they move from the leaf at `path` of trie `|path|` into trie
`|path|+1`), and the nodes of the next cursor exist. -/
theorem colt_get_preserves_rows (F : Forest) (path : List Key) (h : Key) (hr : Reach F path)
    (hlen : path.length < F.m) :
    (coltGet F path h).rows.Perm F.rows ∧ Reach (coltGet F path h) (path ++ [h]) :=
  aux_coltGet_step F path h hr hlen

/-- Any chain of gets from the root cursor, on any forest: no row is lost or duplicated. -/
theorem colt_gets_preserve_rows (F : Forest) (path : List Key) (hlen : path.length ≤ F.m) :
    (coltGets F path).rows.Perm F.rows := by
  unfold coltGets
  exact aux_coltGets_fold path F [] (aux_reach_root F) (by simpa using hlen)

/-- The cursor: after any chain of gets along `path` on a well-formed forest (e.g. built by
inserts and earlier gets), the nodes the cursor points to hold exactly the rows of the
*original* forest that carry `path` in their first columns (as a multiset), and the forest stays
well formed. -/
theorem colt_cursor_rows (F : Forest) (path : List Key) (hw : ForestWf F) (hlen : path.length ≤ F.m) :
    ForestWf (coltGets F path) ∧
    (cursorRows (coltGets F path) path).Perm (F.rows.filter (pref 0 path)) := by
  have inv := aux_coltGets_inv path F [] hw (fun i hi => by simp at hi)
  simp only [List.nil_append] at inv
  refine ⟨inv.1, ?_⟩
  unfold coltGets
  rw [aux_cursorRows_eq _ path inv.1 inv.2]
  exact (colt_gets_preserve_rows F path hlen).filter _

/-- forests built by inserts are well formed -/
theorem colt_forest_wf_insert (F : Forest) (row : Row) (h : ForestWf F) : ForestWf (F.insert row) :=
  aux_forestWf_insert F row h

theorem colt_forest_wf_empty (m : Nat) : ForestWf (Forest.empty m) := aux_forestWf_empty m

/-- `find_containing_leaf(row)` finds a leaf iff the row is stored, and that leaf holds the row -/
theorem find_containing_leaf_spec (sk : Kind) (n d : Nat) (t : Ght n) (row : Row) (h : Wf sk n d t) :
    ((gfindLeaf n d t row).isSome = true ↔ row ∈ grows n t) ∧
    ∀ l, gfindLeaf n d t row = some l → row ∈ l.rows ∧ ∀ r ∈ l.rows, r ∈ grows n t :=
  aux_findLeaf sk n d t row h

/-- the cursor elements as printed by the driver (`nodeAt`) are the nodes whose rows
`cursorRows` collects -/
theorem cursor_node_rows (n : Nat) (p : List Key) (t : Ght n) :
    (match nodeAt n p t with | some ⟨j, c⟩ => grows j c | none => []) = subRows n p t :=
  aux_nodeAt_subRows n p t

/-! ## what the code did *not* satisfy before the fix (witnesses replayed on the real code by the check) -/

/-- F7 (fixed): as shipped, `==`/`partial_cmp` counted present-but-empty children: the deep join of
`{(1,1,7)}` and `{(1,2,8)}` holds no rows and is `is_bot`, yet it was `!=` the empty trie and
compared `Greater`.  The repaired code answers `==` and `Equal`. -/
theorem eq_cmp_empty_child_refuted_before_fix :
    let a := gnewFrom .set 2 0 [[1, 1, 7]]
    let b := gnewFrom .set 2 0 [[1, 2, 8]]
    let j := deepJoin .set 2 2 a b
    grows 2 j = [] ∧ grows 2 (gempty 2) = [] ∧ gisBot 2 j = true ∧
      geqBeforeFix 2 j (gempty 2) = false ∧ gcmpBeforeFix 2 j (gempty 2) = some .gt ∧
      j = (Ght.ofKids [(1, Ght.ofKids [])] : Ght 2) ∧
      geq 2 j (gempty 2) = true ∧ gcmp 2 j (gempty 2) = some .eq := by
  refine ⟨by decide, by decide, by decide, by decide, by decide, rfl, by decide, by decide⟩

/-- F7, as the negation of the clause for the code as shipped -/
theorem eq_iff_same_rows_refuted_before_fix :
    ¬ ∀ (a b : Ght 2), Wf .set 2 0 a → Wf .set 2 0 b →
        (geqBeforeFix 2 a b = true ↔ ∀ x, x ∈ grows 2 a ↔ x ∈ grows 2 b) := by
  intro h
  have hw : Wf .set 2 0 (Ght.ofKids [(1, Ght.ofKids [])] : Ght 2) := by
    simp [Wf, keysOf, grows, lrows]
  have := h (Ght.ofKids [(1, Ght.ofKids [])] : Ght 2) (gempty 2) hw (aux_wf_empty _ _ _)
  have e : geqBeforeFix 2 (Ght.ofKids [(1, Ght.ofKids [])] : Ght 2) (gempty 2) = false := by decide
  have r1 : grows 2 (Ght.ofKids [(1, Ght.ofKids [])] : Ght 2) = [] := by decide
  have r2 : grows 2 (gempty 2) = [] := by decide
  rw [e, r1, r2] at this
  exact absurd (this.mpr (fun x => Iff.rfl)) (by simp)

/-- F22 (fixed): the derived `PartialEq` of a leaf looked at the `forced` flag: after `force_drain` an
empty leaf was `!=` the default leaf although both hold no rows and `partial_cmp` says `Equal`. -/
theorem eq_forced_leaf_refuted_before_fix :
    let l : Leaf := ⟨[[1, 2]], false⟩
    let l' := (forceDrain .set 0 l).1
    l'.rows = Leaf.empty.rows ∧ Leaf.eqBeforeFix l' Leaf.empty = false ∧ Leaf.cmp l' Leaf.empty = some .eq ∧
      Leaf.eq l' Leaf.empty = true := by
  decide

/-! ## non-vacuity -/

example : Good 2 0 (gnewFrom .set 2 0 [[1, 1, 7], [1, 2, 8], [2, 1, 7]]) := good_new_from _ _ _
/-- a well-formed trie with an empty child that is not `Good`: comparison still sees the rows only -/
example : Wf .set 2 0 (Ght.ofKids [(1, Ght.ofKids []), (2, Ght.ofKids [(1, Ght.ofLeaf ⟨[[2, 1, 7]], true⟩)])] : Ght 2) ∧
    geq 2 (Ght.ofKids [(1, Ght.ofKids []), (2, Ght.ofKids [(1, Ght.ofLeaf ⟨[[2, 1, 7]], true⟩)])] : Ght 2)
      (gnewFrom .set 2 0 [[2, 1, 7]]) = true := by
  constructor
  · simp [Wf, keysOf, grows, lrows, headAt]
  · decide
example : grows 2 (gnewFrom .set 2 0 [[1, 1, 7], [1, 2, 8], [1, 1, 7]]) = [[1, 1, 7], [1, 2, 8]] := by decide
example : gcmp 2 (gnewFrom .set 2 0 [[1, 1, 7]]) (gnewFrom .set 2 0 [[2, 1, 7]]) = none := by decide
example : gcmp 2 (gnewFrom .set 2 0 [[1, 1, 7]]) (gnewFrom .set 2 0 [[1, 1, 7], [2, 1, 7]]) = some .lt := by decide
example : grows 2 (deepJoin .set 2 2 (gnewFrom .set 2 0 [[1, 1, 7], [2, 2, 9]]) (gnewFrom .set 2 0 [[1, 1, 8], [3, 3, 3]]))
    = [[1, 1, 7, 8]] := by decide
example : (coltGets ((((Forest.empty 3).insert [1, 1, 1]).insert [2, 2, 2]).insert [1, 1, 5]) [1, 1]).rows
    = [[2, 2, 2], [1, 1, 1], [1, 1, 5]] := by decide
example : cursorRows (coltGets ((((Forest.empty 3).insert [1, 1, 1]).insert [2, 2, 2]).insert [1, 1, 5]) [1, 1]) [1, 1]
    = [[1, 1, 1], [1, 1, 5]] := by decide
example : gprefixIter 2 0 (gnewFrom .set 2 0 [[1, 1, 7], [1, 2, 8], [2, 1, 7]]) [1] = [[1, 1, 7], [1, 2, 8]] := by decide

end HvGht
