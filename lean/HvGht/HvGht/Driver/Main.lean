/-
`hvdrv_ght`: line-protocol driver for the GHT model (C08) and the morphism model (C07).
One output line per input line.

C08 protocol  (`#case <n> k=<K> v=<V> st=hs|cs|col` resets A, B to `default()`, J to none)
  X ∈ {A,B}, Y ∈ {A,B};   a row is `n,n,n` with exactly K+V fields
  X insert <row>           -> true
  X new <row>;<row>;…      -> ok            (`-` = no rows)   X := new_from(rows)
  X contains <row>         -> bool
  X rows                   -> sorted rows (`-` if none)
  X dump                   -> structure: leaf `{row;row}`, inner `[k:<child>,k:<child>]` (keys sorted)
  X mergenode Y            -> changed      X := X.merge_node(Y.clone())
  X merge Y                -> changed      (st=hs only) X := X.merge(Y.clone())
  X eq Y | X cmp Y         -> bool | lt|eq|gt|none      (st=hs only)
  X isbot                  -> bool         (st=hs only)
  X prefix <p>             -> sorted rows  (p = `-` or `n,n`, at most K+V fields)
  X get <h>                -> dump of the child | none   (K ≥ 1)
  X keys | X tuples        -> sorted heads | sorted tuples
  X fcl <row>              -> sorted rows of the containing leaf | none
  X height                 -> K
  X forcedrain             -> (K = 0, V ≥ 1) X := drained leaf, J := forced; dump of J
  J deepjoin               -> (st=hs, K ≥ 1) J := DeepJoin(A,B); dump of J
  J cart                   -> (st=hs, K+V ≤ 3) J := CartesianProduct(A,B) into a height-1 trie; dump of J
  J eqnew                  -> J ==/cmp the trie rebuilt by insert from J's rows, and without the least row
  J rows | J dump | J contains <row>      (row arity: deepjoin K+2V, cart 2(K+V), forcedrain V)
  J isbot | J eq0 | J cmp0                 (st=hs only)  eq0/cmp0 compare J with `default()`
Anything else -> bad-op.

C07 protocol: see `HvGht.Driver.Morph`.
-/
import HvGht.Model.Ght
import HvGht.Model.Morph
import HvGht.Driver.Util
import HvGht.Driver.Morph
open HvGht

structure St where
  k : Nat
  v : Nat
  st : String
  a : Ght k
  b : Ght k
  /-- output slot: row arity and the trie -/
  j : Option (Nat × ((n : Nat) × Ght n))

def St.sk (s : St) : Kind := if s.st == "hs" then .set else .bag
def St.ar (s : St) : Nat := s.k + s.v

def tagVal (ws : List String) (key : String) : Option String :=
  (ws.filterMap fun w => if w.startsWith (key ++ "=") then some ((w.drop (key.length + 1)).toString) else none).head?

def freshSt (ws : List String) : St :=
  let k := ((tagVal ws "k").bind (·.toNat?)).getD 1
  let v := ((tagVal ws "v").bind (·.toNat?)).getD 1
  let st := (tagVal ws "st").getD "hs"
  ⟨k, v, st, gempty k, gempty k, none⟩

def showOrd : Option Ordering → String
  | some .lt => "lt"
  | some .eq => "eq"
  | some .gt => "gt"
  | none => "none"

/-- read-only / in-place ops on one trie of height `n` at the root -/
def slotOp (sk : Kind) (ar : Nat) (hs : Bool) (n : Nat) (t : Ght n) (cmd : List String) : Option (Ght n × String) :=
  match cmd with
  | ["insert", r] => (parseRow ar r).map fun r => let x := ginsert sk n 0 t r; (x.1, showBool x.2)
  | ["new", rs] => (parseRows ar rs).map fun rs => (gnewFrom sk n 0 rs, "ok")
  | ["contains", r] => (parseRow ar r).map fun r => (t, showBool (gcontains n 0 t r))
  | ["rows"] => some (t, showSorted (grows n t))
  | ["dump"] => some (t, dump n t)
  | ["isbot"] => if hs then some (t, showBool (gisBot n t)) else none
  | ["prefix", p] => (parsePrefix ar p).map fun p => (t, showSorted (gprefixIter n 0 t p))
  | ["get", h] => match n, t with
    | 0, _ => none
    | m + 1, t => h.toNat?.map fun h => (t, match gget t h with | some c => dump m c | none => "none")
  | ["keys"] => some (t, showNats (sortNats (gkeys n t)))
  | ["tuples"] => some (t, showSorted (gtuples n t))
  | ["fcl", r] => (parseRow ar r).map fun r => (t, match gfindLeaf n 0 t r with
      | some l => showSorted l.rows
      | none => "none")
  | ["height"] => some (t, toString n)
  | _ => none

def binOp (sk : Kind) (hs : Bool) (n : Nat) (x y : Ght n) (op : String) : Option (Ght n × String) :=
  match op with
  | "mergenode" => let r := gmerge sk n x y; some (r.1, showBool r.2)
  | "merge" => if hs then let r := gmerge sk n x y; some (r.1, showBool r.2) else none
  | "eq" => if hs then some (x, showBool (geq n x y)) else none
  | "cmp" => if hs then some (x, showOrd (gcmp n x y)) else none
  | _ => none

def getSlot (s : St) (nm : String) : Option (Ght s.k) :=
  if nm == "A" then some s.a else if nm == "B" then some s.b else none

def setSlot (s : St) (nm : String) (t : Ght s.k) : St :=
  if nm == "A" then { s with a := t } else { s with b := t }

/-- the shapes and storages the harness instantiates -/
def St.valid (s : St) : Bool :=
  [(0, 2), (1, 1), (2, 1), (1, 2), (2, 0), (3, 1)].contains (s.k, s.v) && ["hs", "cs", "col"].contains s.st

def stepGht (s : St) (ws : List String) : St × String :=
  let hs := s.st == "hs"
  if !s.valid then (s, "bad-op") else
  match ws with
  | ["J", "deepjoin"] =>
    if hs && s.k ≥ 1 then
      let j := deepJoin .set s.k s.k s.a s.b
      ({ s with j := some (s.k + 2 * s.v, ⟨s.k, j⟩) }, dump s.k j)
    else (s, "bad-op")
  | ["J", "cart"] =>
    if hs && s.k + s.v ≤ 3 then
      let j : Ght 1 := gcart .set 1 0 0 s.a s.b
      ({ s with j := some (2 * (s.k + s.v), ⟨1, j⟩) }, dump 1 j)
    else (s, "bad-op")
  | "J" :: cmd => match s.j with
    | some (jar, ⟨n, j⟩) =>
      match cmd with
      | ["eq0"] => if hs then (s, showBool (geq n j (gempty n))) else (s, "bad-op")
      | ["cmp0"] => if hs then (s, showOrd (gcmp n j (gempty n))) else (s, "bad-op")
      | ["eqnew"] =>
        if hs then
          let rs := sortRows (stCollect .set (grows n j))
          let full := gnewFrom .set n 0 rs
          let first := s!"{showBool (geq n j full)}/{showBool (geq n full j)} {showOrd (gcmp n j full)}/{showOrd (gcmp n full j)}"
          match rs with
          | [] => (s, first ++ " -")
          | _ :: tl =>
            let less := gnewFrom .set n 0 tl
            (s, first ++ s!" {showBool (geq n j less)}/{showBool (geq n less j)} {showOrd (gcmp n j less)} {showOrd (gcmp n less j)}")
        else (s, "bad-op")
      | ["rows"] | ["dump"] | ["isbot"] | ["contains", _] =>
        (match slotOp s.sk jar hs n j cmd with
        | some (_, out) => (s, out)
        | none => (s, "bad-op"))
      | _ => (s, "bad-op")
    | none => (s, "bad-op")
  | [x, "forcedrain"] =>
    if s.k == 0 && s.v ≥ 1 then
      match hx : s.k, getSlot s x with
      | 0, some t =>
        let t0 : Ght 0 := hx ▸ t
        let r := forceDrain s.sk 0 t0.toLeaf
        let t' : Ght s.k := hx ▸ (Ght.ofLeaf r.1)
        ({ setSlot s x t' with j := some (s.v, ⟨1, r.2⟩) }, dump 1 r.2)
      | _, _ => (s, "bad-op")
    else (s, "bad-op")
  | [x, op, y] =>
    match getSlot s x with
    | none => (s, "bad-op")
    | some tx =>
      match (if op == "mergenode" || op == "merge" || op == "eq" || op == "cmp" then getSlot s y else none) with
      | some ty => match binOp s.sk hs s.k tx ty op with
        | some (t', out) => (setSlot s x t', out)
        | none => (s, "bad-op")
      | none => match slotOp s.sk s.ar hs s.k tx [op, y] with
        | some (t', out) => (setSlot s x t', out)
        | none => (s, "bad-op")
  | x :: cmd =>
    match getSlot s x with
    | none => (s, "bad-op")
    | some tx => match slotOp s.sk s.ar hs s.k tx cmd with
      | some (t', out) => (setSlot s x t', out)
      | none => (s, "bad-op")
  | [] => (s, "bad-op")

/-! COLT forest sub-driver: `#case <n> colt=3` (only arity 3 is instantiated by the harness)
  F insert <row>     -> true                 (row of exactly m fields, goes to the leaf trie)
  F get <h1[,h2..]>  -> chained `ColtGet::get` from the root along the path (1..m heads); prints the
                        cursor: the dumps of the nodes at that path in the tries of height |path|..m, `|`-joined
  F dump             -> dumps of all m+1 tries, `|`-joined
  F rows             -> all rows of the forest, sorted -/
def stepColt (F : Forest) (ws : List String) : Forest × String :=
  if F.m != 3 then (F, "bad-op") else
  match ws with
  | ["F", "insert", r] => match parseRow F.m r with
    | some r => (F.insert r, "true")
    | none => (F, "bad-op")
  | ["F", "get", p] => match parseRowAny p with
    | some p =>
      if p.length ≥ 1 && p.length ≤ F.m then
        let F' := coltGets F p
        let idx := (List.range (F.m + 1)).filter (fun i => p.length ≤ i)
        (F', "|".intercalate (idx.map fun i => match nodeAt i p (F'.tries i) with
          | some ⟨j, c⟩ => dump j c
          | none => "?"))
      else (F, "bad-op")
    | none => (F, "bad-op")
  | ["F", "dump"] => (F, "|".intercalate ((List.range (F.m + 1)).map fun i => dump i (F.tries i)))
  | ["F", "rows"] => (F, showSorted F.rows)
  | _ => (F, "bad-op")

inductive Mode
  | ght (s : St)
  | morph (m : MorphSt)
  | colt (F : Forest)

def step (md : Mode) (line : String) : Mode × String :=
  let l := line.trimAscii.toString
  match l.splitOn " " with
  | "#case" :: ws =>
    if (tagVal ws "bim").isSome then (.morph (freshMorph ws), l)
    else match tagVal ws "colt" with
      | some m => (.colt (Forest.empty ((m.toNat?).getD 0)), l)
      | none => (.ght (freshSt ws), l)
  | ws => match md with
    | .ght s => let r := stepGht s ws; (.ght r.1, r.2)
    | .morph m => let r := stepMorph m ws; (.morph r.1, r.2)
    | .colt F => let r := stepColt F ws; (.colt r.1, r.2)

partial def loop (h : IO.FS.Stream) (out : IO.FS.Stream) (md : Mode) : IO Unit := do
  let line ← h.getLine
  if line.isEmpty then return ()
  let (md', o) := step md line
  out.putStrLn o
  loop h out md'

def main : IO Unit := do
  let stdin ← IO.getStdin
  let stdout ← IO.getStdout
  loop stdin stdout (.ght (freshSt []))
