/- parsing / printing helpers shared by the two sub-drivers (import-free) -/
import HvGht.Model.Ght
open HvGht

def parseRowAny (s : String) : Option Row :=
  (s.splitOn ",").mapM (fun p => p.toNat?)

/-- a row of exactly `ar` fields -/
def parseRow (ar : Nat) (s : String) : Option Row :=
  match parseRowAny s with
  | some t => if t.length == ar then some t else none
  | none => none

def parseRows (ar : Nat) (s : String) : Option (List Row) :=
  if s == "-" then some [] else (s.splitOn ";").mapM (parseRow ar)

def parseRowsAny (s : String) : Option (List Row) :=
  if s == "-" then some [] else (s.splitOn ";").mapM parseRowAny

/-- a key prefix of at most `ar` fields (`-` = empty) -/
def parsePrefix (ar : Nat) (s : String) : Option (List Nat) :=
  if s == "-" then some [] else
  match parseRowAny s with
  | some t => if t.length ≤ ar then some t else none
  | none => none

def parseNats (s : String) : Option (List Nat) :=
  if s == "-" then some [] else parseRowAny s

def showRow (t : Row) : String := ",".intercalate (t.map toString)

def lexLe : Row → Row → Bool
  | [], _ => true
  | _ :: _, [] => false
  | x :: xs, y :: ys => if x < y then true else if y < x then false else lexLe xs ys

def sortRows (ts : List Row) : List Row := ts.mergeSort lexLe
def sortNats (ts : List Nat) : List Nat := ts.mergeSort (fun a b => a ≤ b)

def showList (ts : List Row) : String :=
  if ts.isEmpty then "-" else ";".intercalate (ts.map showRow)
def showSorted (ts : List Row) : String := showList (sortRows ts)
def showNats (ts : List Nat) : String :=
  if ts.isEmpty then "-" else ",".intercalate (ts.map toString)
def showBool (b : Bool) : String := if b then "true" else "false"

/-- structural dump -/
def dump : (n : Nat) → Ght n → String
  | 0, t => "{" ++ (if t.toLeaf.rows.isEmpty then "" else ";".intercalate ((sortRows t.toLeaf.rows).map showRow)) ++ "}"
  | n + 1, t =>
    let ks := sortNats (t.kids.map (·.1))
    "[" ++ ",".intercalate (ks.map fun k => match t.kids.lookup k with
      | some c => s!"{k}:{dump n c}"
      | none => s!"{k}:?") ++ "]"

