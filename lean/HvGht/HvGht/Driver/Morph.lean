/-
C07 sub-driver.  `#case <n> bim=<name>` then lines
  L <a> <da> <b>   ->  <f(a ⊔ da, b)> <f(a,b) ⊔ f(da,b)> <lhs == rhs>
  R <a> <b> <db>   ->  <f(a, b ⊔ db)> <f(a,b) ⊔ f(a,db)> <lhs == rhs>
Values (no spaces inside):  set `1,2` | map `k=set;k=set` | map of maps `k>map/k>map` |
rows `1,2;1,3`; `-` is the empty container at every level.  Outputs are printed in canonical
(sorted) form: pair sets `1.2,1.3`, `Pair` as `set&set`, tries as structural dumps.
bim ∈ cp | kcp | kkcp | pair | kpair | dj11 | dj21 | dj12 | cart11
-/
import HvGht.Model.Ght
import HvGht.Model.Morph
import HvGht.Driver.Util
open HvGht

structure Codec (α : Type) where
  parse : String → Option α
  shw : α → String

def sortKeyed {β : Type} (m : List (Key × β)) : List (Key × β) :=
  m.mergeSort (fun a b => a.1 ≤ b.1)

def setCodec : Codec (List Nat) := ⟨parseNats, fun s => showNats (sortNats s)⟩

def pairLe (a b : Nat × Nat) : Bool := a.1 < b.1 || (a.1 == b.1 && a.2 ≤ b.2)
def pairsCodec : Codec (List (Nat × Nat)) :=
  ⟨fun _ => none, fun s => if s.isEmpty then "-" else ",".intercalate ((s.mergeSort pairLe).map fun p => s!"{p.1}.{p.2}")⟩

/-- maps: entries separated by `sep`, key and value by `kv` -/
def mapCodec {β : Type} (sep kv : String) (c : Codec β) : Codec (List (Key × β)) :=
  ⟨fun s => if s == "-" then some [] else
      (s.splitOn sep).mapM fun e => match e.splitOn kv with
        | k :: rest => match k.toNat?, c.parse (kv.intercalate rest) with
          | some k, some v => some (k, v)
          | _, _ => none
        | [] => none,
   fun m => if m.isEmpty then "-" else sep.intercalate ((sortKeyed m).map fun e => s!"{e.1}{kv}{c.shw e.2}")⟩

def pairCodec {α β : Type} (a : Codec α) (b : Codec β) : Codec (α × β) :=
  ⟨fun _ => none, fun p => s!"{a.shw p.1}&{b.shw p.2}"⟩

/-- a key may occur once in a map literal -/
def distinctKeys {β : Type} (m : List (Key × β)) : Bool :=
  let ks := m.map (·.1)
  ks.eraseDups.length == ks.length

structure MorphSt where
  bim : String

def freshMorph (ws : List String) : MorphSt :=
  ⟨((ws.filterMap fun w => if w.startsWith "bim=" then some ((w.drop 4).toString) else none).head?).getD "cp"⟩

/-- run one law line for a bimorphism `f : α → β → γ` -/
def lawLine {α β γ : Type} (A : LatOps α) (B : LatOps β) (C : LatOps γ)
    (ca : Codec α) (cb : Codec β) (cc : Codec γ) (okA : α → Bool) (okB : β → Bool)
    (f : α → β → γ) (side x y z : String) : String :=
  if side == "L" then
    match ca.parse x, ca.parse y, cb.parse z with
    | some a, some da, some b =>
      if okA a && okA da && okB b then
        let l := f (A.merge a da) b
        let r := C.merge (f a b) (f da b)
        s!"{cc.shw l} {cc.shw r} {showBool (C.eq l r)}"
      else "bad-op"
    | _, _, _ => "bad-op"
  else if side == "R" then
    match ca.parse x, cb.parse y, cb.parse z with
    | some a, some b, some db =>
      if okA a && okB b && okB db then
        let l := f a (B.merge b db)
        let r := C.merge (f a b) (f a db)
        s!"{cc.shw l} {cc.shw r} {showBool (C.eq l r)}"
      else "bad-op"
    | _, _, _ => "bad-op"
  else "bad-op"

def natSet : LatOps (List Nat) := setOps
def pairSet : LatOps (List (Nat × Nat)) := setOps

def setOk (s : List Nat) : Bool := s.eraseDups.length == s.length
def mapSetOk (m : List (Key × List Nat)) : Bool := distinctKeys m && m.all fun e => setOk e.2
def mapMapSetOk (m : List (Key × List (Key × List Nat))) : Bool := distinctKeys m && m.all fun e => mapSetOk e.2

def trieCodec (n ar : Nat) : Codec (Ght n) :=
  ⟨fun s => (parseRows ar s).map (gnewFrom .set n 0), dump n⟩

def stepMorph (m : MorphSt) (ws : List String) : MorphSt × String :=
  match ws with
  | [side, x, y, z] =>
    let mapSet := mapCodec ";" "=" setCodec
    let mapMapSet := mapCodec "/" ">" mapSet
    let out :=
      if m.bim == "cp" then
        lawLine natSet natSet pairSet setCodec setCodec pairsCodec setOk setOk cartesianProduct side x y z
      else if m.bim == "kcp" then
        lawLine (mapOps natSet) (mapOps natSet) (mapOps pairSet) mapSet mapSet (mapCodec ";" "=" pairsCodec)
          mapSetOk mapSetOk (keyed cartesianProduct) side x y z
      else if m.bim == "kkcp" then
        lawLine (mapOps (mapOps natSet)) (mapOps (mapOps natSet)) (mapOps (mapOps pairSet)) mapMapSet mapMapSet
          (mapCodec "/" ">" (mapCodec ";" "=" pairsCodec)) mapMapSetOk mapMapSetOk (keyed (keyed cartesianProduct)) side x y z
      else if m.bim == "pair" then
        lawLine natSet natSet (pairOps natSet natSet) setCodec setCodec (pairCodec setCodec setCodec) setOk setOk pairBim side x y z
      else if m.bim == "kpair" then
        lawLine (mapOps natSet) (mapOps natSet) (mapOps (pairOps natSet natSet)) mapSet mapSet
          (mapCodec ";" "=" (pairCodec setCodec setCodec)) mapSetOk mapSetOk (keyed pairBim) side x y z
      else if m.bim == "dj11" then
        lawLine (ghtOps 1) (ghtOps 1) (ghtOps 1) (trieCodec 1 2) (trieCodec 1 2) (trieCodec 1 3) (fun _ => true) (fun _ => true)
          (deepJoin .set 1 1) side x y z
      else if m.bim == "dj21" then
        lawLine (ghtOps 2) (ghtOps 2) (ghtOps 2) (trieCodec 2 3) (trieCodec 2 3) (trieCodec 2 4) (fun _ => true) (fun _ => true)
          (deepJoin .set 2 2) side x y z
      else if m.bim == "dj12" then
        lawLine (ghtOps 1) (ghtOps 1) (ghtOps 1) (trieCodec 1 3) (trieCodec 1 3) (trieCodec 1 5) (fun _ => true) (fun _ => true)
          (deepJoin .set 1 1) side x y z
      else if m.bim == "cart11" then
        lawLine (ghtOps 1) (ghtOps 1) (ghtOps 1) (trieCodec 1 2) (trieCodec 1 2) (trieCodec 1 4) (fun _ => true) (fun _ => true)
          (fun a b => gcart .set 1 0 0 a b) side x y z
      else "bad-op"
    (m, out)
  | _ => (m, "bad-op")
