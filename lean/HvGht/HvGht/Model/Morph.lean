/-
Model of the shipped lattice bimorphisms (property C07):
`CartesianProductBimorphism` (set_union.rs), `KeyedBimorphism` (map_union.rs),
`PairBimorphism` (pair.rs) together with the `Merge` / `PartialEq` / `IsBot` of the
lattices they act on (`SetUnion<HashSet>`, `MapUnion<HashMap>`, `Pair`).
The GHT bimorphisms live in `Model/Ght.lean`.

Hash containers are association / element lists in insertion order; every observation is
sorted by driver and harness.  Import-free (linked into `hvdrv_ght`).
-/
import HvGht.Model.Ght
namespace HvGht

/-! ## a lattice as the three operations the crate's checks use -/

/-- `Merge::merge` (value-returning), the crate's own `PartialEq`, and `IsBot`. -/
structure LatOps (α : Type) where
  merge : α → α → α
  eq : α → α → Bool
  isBot : α → Bool

/-! ## `SetUnion<HashSet<T>>` -/
section Set
variable {α : Type} [DecidableEq α]

/-- `HashSet::insert` -/
def setInsert (s : List α) (x : α) : List α := if x ∈ s then s else s ++ [x]
/-- `SetUnion::merge`: `self.0.extend(other.0)` -/
def setMerge (s o : List α) : List α := o.foldl setInsert s
/-- `collect::<HashSet<_>>()` -/
def setCollect (xs : List α) : List α := setMerge [] xs
/-- `SetUnion::eq`: same `len`, every key of `self` in `other` -/
def setEq (a b : List α) : Bool := a.length == b.length && a.all (fun x => decide (x ∈ b))
/-- `SetUnion::is_bot` -/
def setIsBot (a : List α) : Bool := a.isEmpty

def setOps : LatOps (List α) := ⟨setMerge, setEq, setIsBot⟩

/-- `CartesianProductBimorphism::call` with `SetOut = HashSet<(A, B)>` -/
def cartesianProduct {β : Type} [DecidableEq β] (a : List α) (b : List β) : List (α × β) :=
  setCollect (a.flatMap fun x => b.map fun y => (x, y))

end Set

/-! ## `MapUnion<HashMap<K, V>>` -/
section Map
variable {β : Type}

/-- `get_mut(k)` then `f` on the value -/
def modifyKey (k : Key) (f : β → β) : List (Key × β) → List (Key × β)
  | [] => []
  | (k', v) :: rest => if k' = k then (k', f v) :: rest else (k', v) :: modifyKey k f rest

/-- `MapUnion::merge`: bottom values of `other` are filtered out; colliding keys are merged in
place (`get_mut`), the others are collected and `extend`ed at the end. -/
def mapMerge (L : LatOps β) (self other : List (Key × β)) : List (Key × β) :=
  let other' := other.filter fun kv => !L.isBot kv.2
  let merged := other'.foldl
    (fun acc kv => if (acc.lookup kv.1).isSome then modifyKey kv.1 (fun v => L.merge v kv.2) acc else acc) self
  merged ++ other'.filter fun kv => (self.lookup kv.1).isNone

/-- `MapUnion::eq`: over the keys with non-bottom values on either side -/
def mapEq (L : LatOps β) (a b : List (Key × β)) : Bool :=
  let ks := (a.filter fun kv => !L.isBot kv.2).map (·.1) ++ (b.filter fun kv => !L.isBot kv.2).map (·.1)
  ks.all fun k =>
    match a.lookup k, b.lookup k with
    | some x, some y => L.eq x y
    | none, none => true
    | _, _ => false

/-- `MapUnion::is_bot` -/
def mapIsBot (L : LatOps β) (a : List (Key × β)) : Bool := a.all fun kv => L.isBot kv.2

def mapOps (L : LatOps β) : LatOps (List (Key × β)) := ⟨mapMerge L, mapEq L, mapIsBot L⟩

/-- `HashMap::insert` (overwrites) -/
def mapInsert (k : Key) (v : β) : List (Key × β) → List (Key × β)
  | [] => [(k, v)]
  | (k', v') :: rest => if k' = k then (k', v) :: rest else (k', v') :: mapInsert k v rest

/-- `KeyedBimorphism::call`: for every key of `a` that `b` also has, insert `f(a[k], b[k])`. -/
def keyed {α γ : Type} (f : α → β → γ) (a : List (Key × α)) (b : List (Key × β)) : List (Key × γ) :=
  a.foldl (fun out ka =>
    match b.lookup ka.1 with
    | some vb => mapInsert ka.1 (f ka.2 vb) out
    | none => out) []

end Map

/-! ## `Pair` -/
section Pair
variable {α β : Type}

def pairOps (A : LatOps α) (B : LatOps β) : LatOps (α × β) :=
  ⟨fun x y => (A.merge x.1 y.1, B.merge x.2 y.2),
   fun x y => A.eq x.1 y.1 && B.eq x.2 y.2,
   fun x => A.isBot x.1 && B.isBot x.2⟩

/-- `PairBimorphism::call` -/
def pairBim (a : α) (b : β) : α × β := (a, b)

end Pair

/-! ## GHT as a lattice (hash-set storage) -/

def ghtOps (n : Nat) : LatOps (Ght n) := ⟨fun a b => (gmerge .set n a b).1, geq n, gisBot n⟩

end HvGht
