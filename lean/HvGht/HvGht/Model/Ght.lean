/-
Model of `lattices/src/ght/{mod,lattice,colt}.rs` (properties C08, C07).

A Rust GHT type is `GhtInner<Head, GhtInner<… GhtLeaf<Schema, ValType, Storage>>>`: its
height is a property of the *type*.  The model mirrors that: `Ght n` is a type defined by
recursion on the height `n` (`Ght 0 = Leaf`, `Ght (n+1) = List (Key × Ght n)`), and every
operation is defined by recursion on `n` from a *per-level* combinator that takes the
child operation as a parameter — exactly the shape of the generic `impl … for
GhtInner<Head, Node>` blocks, which call `Node`'s methods.

* A `HashMap<Head, Node>` is modelled as an association list in insertion order with
  distinct keys (`Wf`); hash iteration order is never observed (the harness and the driver
  sort everything that comes out of a hash container).
* Columns are `Nat`, a row is a `List Nat`; the node at depth `d` is keyed on column `d`
  (`split_by_suffix_ref(row)` then `var_args!(head, ..._rest)`).
* Leaf storage: `Kind.set` is `VariadicHashSet` (insert is a no-op on a present tuple),
  `Kind.bag` stands for the two multisets (`VariadicCountedHashSet`,
  `VariadicColumnMultiset`), whose iteration is observed up to order only.
* `forced` is the leaf's COLT flag.  Since /repo `fix: GHT ==/partial_cmp …` (findings F7, F22) the
  `PartialEq` of `GhtLeaf` compares the rows only, and `PartialEq`/`PartialOrd` of `GhtInner`
  skip children that hold no rows; the definitions `*BeforeFix` keep the old behaviour for the
  refutation theorems only.

Import-free on purpose: this file is linked into the native driver `hvdrv_ght`.
-/
namespace HvGht

abbrev Key := Nat
abbrev Row := List Nat

/-- leaf storage kind -/
inductive Kind
  | set
  | bag
deriving DecidableEq, Repr

/-! ## leaf storage (`VariadicCollection`) -/

/-- `Storage::insert` -/
def stInsert (sk : Kind) (rows : List Row) (x : Row) : List Row :=
  match sk with
  | .set => if x ∈ rows then rows else rows ++ [x]
  | .bag => rows ++ [x]

/-- `Extend::extend` (insert one by one) -/
def stExtend (sk : Kind) (rows : List Row) (xs : List Row) : List Row :=
  xs.foldl (stInsert sk) rows

/-- `FromIterator` for the storage -/
def stCollect (sk : Kind) (xs : List Row) : List Row := stExtend sk [] xs

/-- `VariadicHashSet::eq`: same `len` and every tuple of `self` is in `other`. -/
def hsEq (a b : List Row) : Bool :=
  a.length == b.length && a.all (fun x => decide (x ∈ b))

/-! ## leaves -/

structure Leaf where
  rows : List Row
  forced : Bool
deriving Repr

/-- `GhtLeaf::default()` -/
def Leaf.empty : Leaf := ⟨[], false⟩

/-- `GhtLeaf::insert`: `self.elements.insert(row); true` -/
def Leaf.insert (sk : Kind) (l : Leaf) (row : Row) : Leaf × Bool :=
  (⟨stInsert sk l.rows row, l.forced⟩, true)

/-- `GhtLeaf::merge_node` / `Merge::merge`: extend, report whether `len` grew. -/
def Leaf.mergeNode (sk : Kind) (l o : Leaf) : Leaf × Bool :=
  let r := stExtend sk l.rows o.rows
  (⟨r, l.forced⟩, decide (l.rows.length < r.length))

/-- `PartialEq for GhtLeaf`: `self.elements == other.elements` (`forced` is COLT bookkeeping) -/
def Leaf.eq (a b : Leaf) : Bool := hsEq a.rows b.rows

/-- BEFORE the fix (F22): the derived `PartialEq`, `elements == elements && forced == forced` -/
def Leaf.eqBeforeFix (a b : Leaf) : Bool := hsEq a.rows b.rows && (a.forced == b.forced)

/-- `PartialOrd for GhtLeaf` -/
def Leaf.cmp (a b : Leaf) : Option Ordering :=
  match compare a.rows.length b.rows.length with
  | .gt => if b.rows.all (fun t => decide (t ∈ a.rows)) then some .gt else none
  | .eq => if a.rows.all (fun t => decide (t ∈ b.rows)) then some .eq else none
  | .lt => if a.rows.all (fun t => decide (t ∈ b.rows)) then some .lt else none

/-- `GhtLeaf::from_iter`: `elements = iter.collect()`, `forced = false` -/
def Leaf.fromIter (sk : Kind) (xs : List Row) : Leaf := ⟨stCollect sk xs, false⟩

/-! ## one inner level, generic in the child type (the `impl … for GhtInner<Head, Node>` blocks) -/

section Level
variable {α : Type}

/-- `children.entry(k).or_default()` followed by `f` on the entry -/
def upsert {β : Type} (k : Key) (dflt : α) (f : α → α × β) : List (Key × α) → List (Key × α) × β
  | [] => let r := f dflt; ([(k, r.1)], r.2)
  | (k', c) :: rest =>
    if k' = k then let r := f c; ((k', r.1) :: rest, r.2)
    else let r := upsert k dflt f rest; ((k', c) :: r.1, r.2)

/-- one iteration of the `merge_node` loop: `match self.children.entry(k)` -/
def mergeChild (mn : α → α → α × Bool) (k : Key) (v : α) : List (Key × α) → List (Key × α) × Bool
  | [] => ([(k, v)], true)
  | (k', c) :: rest =>
    if k' = k then let r := mn c v; ((k', r.1) :: rest, r.2)
    else let r := mergeChild mn k v rest; ((k', c) :: r.1, r.2)

/-- `GhtInner::merge_node` = `Merge::merge` for `GhtInner` (both loop over `other.children`
and call `merge_node` on an occupied entry). -/
def innerMerge (mn : α → α → α × Bool) (self other : List (Key × α)) : List (Key × α) × Bool :=
  other.foldl (fun acc kv => let r := mergeChild mn kv.1 kv.2 acc.1; (r.1, acc.2 || r.2)) (self, false)

/-- the children that hold rows: `children.iter().filter(|(_, node)| has_rows(node))`.  A lookup
`children.get(k).filter(has_rows)` is a lookup in this list (keys are distinct). -/
def liveKids (ne : α → Bool) (cs : List (Key × α)) : List (Key × α) := cs.filter fun kc => ne kc.2

/-- the body of `PartialEq for GhtInner` over the children that hold rows: same count, and every
`(head, this_node)` has an `other_node` with `this_node == other_node` -/
def innerEqCore (ceq : α → α → Bool) (a b : List (Key × α)) : Bool :=
  if a.length != b.length then false
  else a.all fun kc =>
    match b.lookup kc.1 with
    | none => false
    | some o => ceq kc.2 o

/-- `PartialEq for GhtInner`; `ne` is `has_rows` of the child type -/
def innerEq (ne : α → Bool) (ceq : α → α → Bool) (a b : List (Key × α)) : Bool :=
  innerEqCore ceq (liveKids ne a) (liveKids ne b)

/-- BEFORE the fix (F7): `PartialEq for GhtInner` counted and compared every child -/
def innerEqBeforeFix (ceq : α → α → Bool) (a b : List (Key × α)) : Bool :=
  if a.length != b.length then false
  else (a.map (·.1)).all fun head =>
    match b.lookup head with
    | none => false
    | some o => match a.lookup head with
      | none => false
      | some t => ceq t o

/-- the loop of `PartialOrd for GhtInner`; `none` = the `?` returned early -/
def cmpLoop (ccmp : α → α → Option Ordering) (a b : List (Key × α)) :
    List Key → Bool × Bool → Option (Bool × Bool)
  | [], fl => some fl
  | k :: ks, (sg, og) =>
    match a.lookup k, b.lookup k with
    | some x, some y =>
      match ccmp x y with
      | none => none
      | some .gt => cmpLoop ccmp a b ks (true, og)
      | some .lt => cmpLoop ccmp a b ks (sg, true)
      | some .eq => cmpLoop ccmp a b ks (sg, og)
    | some _, none => cmpLoop ccmp a b ks (true, og)
    | none, some _ => cmpLoop ccmp a b ks (sg, true)
    | none, none => cmpLoop ccmp a b ks (sg, og)

/-- the body of `PartialOrd for GhtInner` (after fix 2ae3875: `(true, true) => None`) over the children
that hold rows (BEFORE the F7 fix: over all children) -/
def innerCmpCore (ccmp : α → α → Option Ordering) (a b : List (Key × α)) : Option Ordering :=
  if a.isEmpty && b.isEmpty then some .eq
  else
    match cmpLoop ccmp a b (a.map (·.1) ++ b.map (·.1)) (false, false) with
    | none => none
    | some (true, false) => some .gt
    | some (false, true) => some .lt
    | some (false, false) => some .eq
    | some (true, true) => none

/-- `PartialOrd for GhtInner`; `ne` is `has_rows` of the child type -/
def innerCmp (ne : α → Bool) (ccmp : α → α → Option Ordering) (a b : List (Key × α)) : Option Ordering :=
  innerCmpCore ccmp (liveKids ne a) (liveKids ne b)

/-- `GhtNodeKeyedBimorphism::call`: for every head of `b` that `a` also has, the child is
`f(a[head], b[head])` (also when that result is empty). -/
def keyedJoin {β γ : Type} (f : α → β → γ) (a : List (Key × α)) (b : List (Key × β)) : List (Key × γ) :=
  b.filterMap fun kb =>
    match a.lookup kb.1 with
    | some va => some (kb.1, f va kb.2)
    | none => none

end Level

/-! ## tries -/

/-- A trie of height `n`. -/
def Ght : Nat → Type
  | 0 => Leaf
  | n + 1 => List (Key × Ght n)

/-- view a height-0 trie as its leaf -/
abbrev Ght.toLeaf (t : Ght 0) : Leaf := t
/-- view a leaf as a height-0 trie -/
abbrev Ght.ofLeaf (l : Leaf) : Ght 0 := l
/-- the children of an inner node -/
abbrev Ght.kids {n : Nat} (t : Ght (n + 1)) : List (Key × Ght n) := t
/-- an inner node from its children -/
abbrev Ght.ofKids {n : Nat} (cs : List (Key × Ght n)) : Ght (n + 1) := cs

/-- `Default::default()` -/
def gempty : (n : Nat) → Ght n
  | 0 => Ght.ofLeaf Leaf.empty
  | _ + 1 => Ght.ofKids []

/-- the column a node at depth `d` is keyed on -/
def headAt (d : Nat) (row : Row) : Key := row.getD d 0

/-- `insert` of a node of height `n` at depth `d` -/
def ginsert (sk : Kind) : (n : Nat) → (d : Nat) → Ght n → Row → Ght n × Bool
  | 0, _, t, row => Leaf.insert sk t.toLeaf row
  | n + 1, d, t, row =>
    upsert (headAt d row) (gempty n) (fun c => ginsert sk n (d + 1) c row) t.kids

/-- `new_from` / `FromIterator for GhtInner`: insert row by row into `default()` -/
def gnewFrom (sk : Kind) (n d : Nat) (xs : List Row) : Ght n :=
  xs.foldl (fun t r => (ginsert sk n d t r).1) (gempty n)

/-- `FromIterator`: leaves collect straight into the storage, inner nodes insert. -/
def gfromIter (sk : Kind) : (n : Nat) → (d : Nat) → List Row → Ght n
  | 0, _, xs => Ght.ofLeaf (Leaf.fromIter sk xs)
  | n + 1, d, xs => gnewFrom sk (n + 1) d xs

/-- `recursive_iter` -/
def grows : (n : Nat) → Ght n → List Row
  | 0, t => t.toLeaf.rows
  | n + 1, t => t.kids.flatMap fun kc => grows n kc.2

/-- `contains` -/
def gcontains : (n : Nat) → (d : Nat) → Ght n → Row → Bool
  | 0, _, t, row => t.toLeaf.rows.any (fun r => decide (r = row))
  | n + 1, d, t, row =>
    match t.kids.lookup (headAt d row) with
    | some c => gcontains n (d + 1) c row
    | none => false

/-- `find_containing_leaf` -/
def gfindLeaf : (n : Nat) → (d : Nat) → Ght n → Row → Option Leaf
  | 0, _, t, row => if t.toLeaf.rows.any (fun r => decide (row = r)) then some t.toLeaf else none
  | n + 1, d, t, row =>
    match t.kids.lookup (headAt d row) with
    | some c => gfindLeaf n (d + 1) c row
    | none => none

/-- `merge_node` (for hash-set storage this is also `Merge::merge`) -/
def gmerge (sk : Kind) : (n : Nat) → Ght n → Ght n → Ght n × Bool
  | 0, a, b => Leaf.mergeNode sk a.toLeaf b.toLeaf
  | n + 1, a, b => innerMerge (gmerge sk n) a.kids b.kids

/-- `has_rows`: `node.recursive_iter().next().is_some()` -/
def hasRows (n : Nat) (t : Ght n) : Bool := !(grows n t).isEmpty

/-- `PartialEq` -/
def geq : (n : Nat) → Ght n → Ght n → Bool
  | 0, a, b => Leaf.eq a.toLeaf b.toLeaf
  | n + 1, a, b => innerEq (hasRows n) (geq n) a.kids b.kids

/-- `PartialOrd::partial_cmp` -/
def gcmp : (n : Nat) → Ght n → Ght n → Option Ordering
  | 0, a, b => Leaf.cmp a.toLeaf b.toLeaf
  | n + 1, a, b => innerCmp (hasRows n) (gcmp n) a.kids b.kids

/-- BEFORE the fix (F7, F22): `PartialEq` -/
def geqBeforeFix : (n : Nat) → Ght n → Ght n → Bool
  | 0, a, b => Leaf.eqBeforeFix a.toLeaf b.toLeaf
  | n + 1, a, b => innerEqBeforeFix (geqBeforeFix n) a.kids b.kids

/-- BEFORE the fix (F7): `PartialOrd::partial_cmp` -/
def gcmpBeforeFix : (n : Nat) → Ght n → Ght n → Option Ordering
  | 0, a, b => Leaf.cmp a.toLeaf b.toLeaf
  | n + 1, a, b => innerCmpCore (gcmpBeforeFix n) a.kids b.kids

/-- `IsBot::is_bot` -/
def gisBot : (n : Nat) → Ght n → Bool
  | 0, t => t.toLeaf.rows.isEmpty
  | n + 1, t => t.kids.all fun kc => gisBot n kc.2

/-- `GhtGet::get` on an inner node -/
def gget {n : Nat} (t : Ght (n + 1)) (head : Key) : Option (Ght n) := t.kids.lookup head

/-- `GhtGet::iter` : the head keys of an inner node, nothing for a leaf -/
def gkeys : (n : Nat) → Ght n → List Key
  | 0, _ => []
  | _ + 1, t => t.kids.map (·.1)

/-- `GhtGet::iter_tuples` : the tuples of a leaf, nothing for an inner node -/
def gtuples : (n : Nat) → Ght n → List Row
  | 0, t => t.toLeaf.rows
  | _ + 1, _ => []

/-- `GhtPrefixIter::prefix_iter` of a node of height `n` at depth `d` -/
def gprefixIter : (n : Nat) → (d : Nat) → Ght n → List Key → List Row
  | 0, d, t, p => t.toLeaf.rows.filter fun r => decide ((r.drop d).take p.length = p)
  | n + 1, _, t, [] => grows (n + 1) t
  | n + 1, d, t, h :: p =>
    match t.kids.lookup h with
    | some c => gprefixIter n (d + 1) c p
    | none => []

/-! ## COLT: `force` -/

/-- `ColtForestNode::force` on a leaf at depth `d`: a height-1 node holding the same rows. -/
def forceLeaf (sk : Kind) (d : Nat) (l : Leaf) : Ght 1 := gnewFrom sk 1 d l.rows

/-- `ColtForestNode::force_drain`: the leaf is left empty and marked `forced`. -/
def forceDrain (sk : Kind) (d : Nat) (l : Leaf) : Leaf × Ght 1 := (⟨[], true⟩, gnewFrom sk 1 d l.rows)

/-! ## join bimorphisms -/

/-- the tuples `GhtCartesianProductBimorphism` feeds to `collect()`:
`a_suffix ++ b_suffix`, the suffixes being the columns from each node's depth on. -/
def cartRows (da db : Nat) (ra rb : List Row) : List Row :=
  ra.flatMap fun a => rb.map fun b => a.drop da ++ b.drop db

/-- `GhtCartesianProductBimorphism<GhtOut>::call` with `GhtOut` of height `no` (root) -/
def gcart (sk : Kind) (no : Nat) {na nb : Nat} (da db : Nat) (a : Ght na) (b : Ght nb) : Ght no :=
  gfromIter sk no 0 (cartRows da db (grows na a) (grows nb b))

/-- the tuples `GhtValTypeProductBimorphism` feeds to `collect()`: `a ++ valtype(b)`;
`kb` is the length of `b`'s key prefix. -/
def valRows (kb : Nat) (ra rb : List Row) : List Row :=
  ra.flatMap fun a => rb.map fun b => a ++ b.drop kb

/-- `GhtValTypeProductBimorphism<GhtLeaf<…>>::call` -/
def valProduct (sk : Kind) (kb : Nat) {na nb : Nat} (a : Ght na) (b : Ght nb) : Ght 0 :=
  Ght.ofLeaf (Leaf.fromIter sk (valRows kb (grows na a) (grows nb b)))

/-- `DeepJoinLatticeBimorphism` for two tries of the same height `n` whose key has `k`
columns in total: `n` nested `GhtNodeKeyedBimorphism`s around `GhtValTypeProductBimorphism`. -/
def deepJoin (sk : Kind) (k : Nat) : (n : Nat) → Ght n → Ght n → Ght n
  | 0, a, b => valProduct sk k a b
  | n + 1, a, b => Ght.ofKids (keyedJoin (deepJoin sk k n) a.kids b.kids)

/-! ## COLT: a forest of tries of increasing height, `ColtGet::get` -/

/-- `get_mut(k)` + `f` on the child -/
def modChild {α : Type} (k : Key) (f : α → α) : List (Key × α) → List (Key × α)
  | [] => []
  | (k', c) :: rest => if k' = k then (k', f c) :: rest else (k', c) :: modChild k f rest

/-- apply a (height-polymorphic) update to the node reached by `path` -/
def modAt (f : (j : Nat) → Ght j → Ght j) : (n : Nat) → List Key → Ght n → Ght n
  | n, [], t => f n t
  | 0, _ :: _, t => t
  | n + 1, k :: p, t => Ght.ofKids (modChild k (modAt f n p) t.kids)

/-- the node reached by `path`, if any -/
def nodeAt : (n : Nat) → List Key → Ght n → Option ((j : Nat) × Ght j)
  | n, [], t => some ⟨n, t⟩
  | 0, _ :: _, _ => none
  | n + 1, k :: p, t => (t.kids.lookup k).bind (nodeAt n p)

/-- the tuples of the *leaf* reached by `path` (nothing if the path does not end in a leaf) -/
def leafRowsAt : (n : Nat) → List Key → Ght n → List Row
  | 0, [], t => t.toLeaf.rows
  | 0, _ :: _, _ => []
  | _ + 1, [], _ => []
  | n + 1, k :: p, t =>
    match t.kids.lookup k with
    | some c => leafRowsAt n p c
    | none => []

/-- `force_drain` on the leaf the cursor points to -/
def drainF : (j : Nat) → Ght j → Ght j
  | 0, _ => Ght.ofLeaf ⟨[], true⟩
  | _ + 1, t => t

/-- `ColtGetTail::merge`: `head.merge_node(forced)` on the `GhtInner<Head, GhtLeaf>` node -/
def mergeF (sk : Kind) (forced : Ght 1) : (j : Nat) → Ght j → Ght j
  | 0, t => t
  | 1, t => (gmerge sk 1 t forced).1
  | _ + 2, t => t

/-- `first.children.entry(head.clone()).or_default()` -/
def ensureF (h : Key) : (j : Nat) → Ght j → Ght j
  | 0, t => t
  | j + 1, t => Ght.ofKids (upsert h (gempty j) (fun c => (c, ())) t.kids).1

/-- `ColtType!(c1, …, cm)`: tries of height `0 … m` (key = first `i` columns), all over the
column-multiset storage.  Only indices `≤ m` are meaningful. -/
structure Forest where
  m : Nat
  tries : (i : Nat) → Ght i

def Forest.empty (m : Nat) : Forest := ⟨m, gempty⟩

/-- rows are inserted into the first (leaf) trie: `forest.0.insert(row)` -/
def Forest.insert (F : Forest) (row : Row) : Forest :=
  ⟨F.m, fun i => match i with
    | 0 => (ginsert .bag 0 0 (F.tries 0) row).1
    | j + 1 => F.tries (j + 1)⟩

/-- One `ColtGet::get(cursor, head)` where the cursor sits at `path` (`path.length < m`):
the leaf at `path` in the trie of height `|path|` is force-drained into a height-1 node, which
is `merge_node`d into the node at `path` of the next trie; then every taller trie gets a
(possibly empty) child for `head` at `path`. -/
def coltGet (F : Forest) (path : List Key) (h : Key) : Forest :=
  let d := path.length
  let forced : Ght 1 := gnewFrom .bag 1 d (leafRowsAt d path (F.tries d))
  ⟨F.m, fun i =>
    if i = d then modAt drainF i path (F.tries i)
    else if i = d + 1 then modAt (ensureF h) i path (modAt (mergeF .bag forced) i path (F.tries i))
    else if d + 1 < i then modAt (ensureF h) i path (F.tries i)
    else F.tries i⟩

/-- chained gets from the root cursor along `path` (each step at the prefix walked so far) -/
def coltGets (F : Forest) (path : List Key) : Forest :=
  (path.foldl (fun (acc : Forest × List Key) h => (coltGet acc.1 acc.2 h, acc.2 ++ [h])) (F, [])).1

/-- all rows of the forest -/
def Forest.rows (F : Forest) : List Row :=
  (List.range (F.m + 1)).flatMap fun i => grows i (F.tries i)

end HvGht
