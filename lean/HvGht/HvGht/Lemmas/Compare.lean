/-
Helper lemmas (C08): `PartialEq` / `PartialOrd` of tries against the rows they hold, under
the invariant "no present-but-empty child, no forced leaf" (needed for the `changed` flag of merge; since the
F7/F22 fix comparison only needs well-formedness).
-/
import HvGht.Lemmas.Query

set_option linter.unusedSimpArgs false
set_option linter.unusedVariables false
set_option linter.unnecessarySeqFocus false

namespace HvGht
open List

/-- no inner node has a child without rows -/
def NoEmptyChild : (n : Nat) → Ght n → Prop
  | 0, _ => True
  | n + 1, t => ∀ kc ∈ t.kids, NoEmptyChild n kc.2 ∧ grows n kc.2 ≠ []

/-- no leaf carries the COLT `forced` flag -/
def NoForced : (n : Nat) → Ght n → Prop
  | 0, t => t.toLeaf.forced = false
  | n + 1, t => ∀ kc ∈ t.kids, NoForced n kc.2

/-- the invariant under which comparison agrees with the set of rows -/
def Good (n d : Nat) (t : Ght n) : Prop := Wf .set n d t ∧ NoEmptyChild n t ∧ NoForced n t

theorem aux_good_child {n d : Nat} {t : Ght (n + 1)} (h : Good (n + 1) d t) {k : Key} {c : Ght n}
    (hl : t.kids.lookup k = some c) :
    Good n (d + 1) c ∧ (∀ r ∈ grows n c, headAt d r = k) ∧ grows n c ≠ [] := by
  have hm := aux_lookup_mem hl
  have hw := aux_wf_child h.1 hl
  exact ⟨⟨hw.1, (h.2.1 _ hm).1, h.2.2 _ hm⟩, hw.2, (h.2.1 _ hm).2⟩

/-! ### leaves -/

theorem aux_hsEq_iff (a b : List Row) (ha : a.Nodup) (hb : b.Nodup) :
    hsEq a b = true ↔ ∀ x, x ∈ a ↔ x ∈ b := by
  unfold hsEq
  simp only [Bool.and_eq_true, beq_iff_eq, List.all_eq_true, decide_eq_true_eq]
  constructor
  · rintro ⟨hl, hs⟩
    have sp : a.Subperm b := List.subperm_of_subset ha hs
    have pm : a.Perm b := sp.perm_of_length_le (by omega)
    exact fun x => pm.mem_iff
  · intro h
    have pm : a.Perm b := (List.perm_ext_iff_of_nodup ha hb).mpr h
    exact ⟨pm.length_eq, fun x hx => (h x).mp hx⟩

theorem aux_nodup_subset_length {a b : List Row} (ha : a.Nodup) (hs : ∀ x ∈ a, x ∈ b) :
    a.length ≤ b.length := (List.subperm_of_subset ha hs).length_le

/-- the lattice order on sets of rows, as the three-way answer `partial_cmp` should give -/
def cmpSpec (A B : List Row) : Option Ordering :=
  if (∀ x ∈ A, x ∈ B) then (if (∀ x ∈ B, x ∈ A) then some .eq else some .lt)
  else if (∀ x ∈ B, x ∈ A) then some .gt else none

theorem aux_leaf_cmp (a b : Leaf) (ha : a.rows.Nodup) (hb : b.rows.Nodup) :
    Leaf.cmp a b = cmpSpec a.rows b.rows := by
  unfold Leaf.cmp cmpSpec
  simp only [List.all_eq_true, decide_eq_true_eq]
  rcases Nat.lt_trichotomy a.rows.length b.rows.length with hlt | heq | hgt
  · rw [Nat.compare_eq_lt.mpr hlt]
    have nb : ¬ ∀ x ∈ b.rows, x ∈ a.rows := fun h => by
      have := aux_nodup_subset_length hb h; omega
    by_cases hab : ∀ x ∈ a.rows, x ∈ b.rows
    · simp only [if_pos hab, if_neg nb]
    · simp only [if_neg hab, if_neg nb]
  · rw [Nat.compare_eq_eq.mpr heq]
    by_cases hab : ∀ x ∈ a.rows, x ∈ b.rows
    · have pm : a.rows.Perm b.rows := (List.subperm_of_subset ha hab).perm_of_length_le (by omega)
      have hba : ∀ x ∈ b.rows, x ∈ a.rows := fun x hx => pm.mem_iff.mpr hx
      simp only [if_pos hab, if_pos hba]
    · have nb : ¬ ∀ x ∈ b.rows, x ∈ a.rows := fun h => by
        have pm : b.rows.Perm a.rows := (List.subperm_of_subset hb h).perm_of_length_le (by omega)
        exact hab (fun x hx => pm.mem_iff.mpr hx)
      simp only [if_neg hab, if_neg nb]
  · rw [Nat.compare_eq_gt.mpr hgt]
    have na : ¬ ∀ x ∈ a.rows, x ∈ b.rows := fun h => by
      have := aux_nodup_subset_length ha h; omega
    by_cases hba : ∀ x ∈ b.rows, x ∈ a.rows
    · simp only [if_pos hba, if_neg na]
    · simp only [if_neg hba, if_neg na]

/-! ### `PartialEq for GhtInner` -/

theorem aux_innerEq_true {α : Type} (ceq : α → α → Bool) (a b : List (Key × α)) (nda : (keysOf a).Nodup) :
    innerEqCore ceq a b = true ↔
      a.length = b.length ∧
      ∀ k ∈ keysOf a, ∃ o t, b.lookup k = some o ∧ a.lookup k = some t ∧ ceq t o = true := by
  unfold innerEqCore
  by_cases hlen : a.length = b.length
  · simp only [hlen, bne_self_eq_false, Bool.false_eq_true, if_false, List.all_eq_true, true_and]
    constructor
    · intro h k hk
      obtain ⟨t, ht⟩ := Option.isSome_iff_exists.mp (aux_lookup_isSome.mpr hk)
      have := h (k, t) (aux_lookup_mem ht)
      cases hb : b.lookup k with
      | none => simp [hb] at this
      | some o => exact ⟨o, t, rfl, ht, by simpa [hb] using this⟩
    · rintro h ⟨k, c⟩ hkc
      have hk : k ∈ keysOf a := List.mem_map.mpr ⟨(k, c), hkc, rfl⟩
      obtain ⟨o, t, h1, h2, h3⟩ := h k hk
      have : a.lookup k = some c := aux_lookup_of_mem nda hkc
      rw [this] at h2; injection h2 with h2; subst h2
      simp [h1, h3]
  · have : (a.length != b.length) = true := by simpa using hlen
    simp [this, hlen]

/-- one level of `==`, against the rows -/
theorem aux_innerEq_iff {α : Type} (R : α → List Row) (head : Row → Key) (ceq : α → α → Bool)
    (a b : List (Key × α)) (nda : (keysOf a).Nodup) (ndb : (keysOf b).Nodup)
    (ha : ∀ k c, a.lookup k = some c → (∀ r ∈ R c, head r = k) ∧ R c ≠ [])
    (hb : ∀ k c, b.lookup k = some c → (∀ r ∈ R c, head r = k) ∧ R c ≠ [])
    (hceq : ∀ k x y, a.lookup k = some x → b.lookup k = some y →
      (ceq x y = true ↔ ∀ r, r ∈ R x ↔ r ∈ R y)) :
    innerEqCore ceq a b = true ↔ ∀ r, r ∈ lrows R a ↔ r ∈ lrows R b := by
  rw [aux_innerEq_true _ _ _ nda]
  constructor
  · rintro ⟨hlen, hall⟩
    have sub : ∀ k ∈ keysOf a, k ∈ keysOf b := by
      intro k hk
      obtain ⟨o, t, h1, _, _⟩ := hall k hk
      exact aux_lookup_isSome.mp (by simp [h1])
    have pm : (keysOf a).Perm (keysOf b) :=
      (List.subperm_of_subset nda sub).perm_of_length_le (by simp [keysOf, hlen])
    intro r
    rw [aux_mem_lrows_lookup nda, aux_mem_lrows_lookup ndb]
    constructor
    · rintro ⟨k, c, hl, hr⟩
      have hk : k ∈ keysOf a := aux_lookup_isSome.mp (by simp [hl])
      obtain ⟨o, t, h1, h2, h3⟩ := hall k hk
      rw [hl] at h2; injection h2 with h2; subst h2
      exact ⟨k, o, h1, ((hceq k c o hl h1).mp h3 r).mp hr⟩
    · rintro ⟨k, o, hl, hr⟩
      have hk : k ∈ keysOf a := pm.mem_iff.mpr (aux_lookup_isSome.mp (by simp [hl]))
      obtain ⟨o', t, h1, h2, h3⟩ := hall k hk
      rw [hl] at h1; injection h1 with h1; subst h1
      exact ⟨k, t, h2, ((hceq k t o h2 hl).mp h3 r).mpr hr⟩
  · intro hsame
    -- every key of one side is a key of the other: its child has a row
    have subAB : ∀ k c, a.lookup k = some c → ∃ o, b.lookup k = some o := by
      intro k c hl
      obtain ⟨hh, hne⟩ := ha k c hl
      obtain ⟨r, hr⟩ := List.exists_mem_of_ne_nil _ hne
      have : r ∈ lrows R b := (hsame r).mp ((aux_mem_lrows_lookup nda).mpr ⟨k, c, hl, hr⟩)
      obtain ⟨k', o, hl', hr'⟩ := (aux_mem_lrows_lookup ndb).mp this
      have : k' = k := by rw [← (hb k' o hl').1 r hr', hh r hr]
      subst this; exact ⟨o, hl'⟩
    have subBA : ∀ k c, b.lookup k = some c → ∃ o, a.lookup k = some o := by
      intro k c hl
      obtain ⟨hh, hne⟩ := hb k c hl
      obtain ⟨r, hr⟩ := List.exists_mem_of_ne_nil _ hne
      have : r ∈ lrows R a := (hsame r).mpr ((aux_mem_lrows_lookup ndb).mpr ⟨k, c, hl, hr⟩)
      obtain ⟨k', o, hl', hr'⟩ := (aux_mem_lrows_lookup nda).mp this
      have : k' = k := by rw [← (ha k' o hl').1 r hr', hh r hr]
      subst this; exact ⟨o, hl'⟩
    have pm : (keysOf a).Perm (keysOf b) := by
      rw [List.perm_ext_iff_of_nodup nda ndb]
      intro k
      constructor
      · intro hk
        obtain ⟨c, hc⟩ := Option.isSome_iff_exists.mp (aux_lookup_isSome.mpr hk)
        obtain ⟨o, ho⟩ := subAB k c hc
        exact aux_lookup_isSome.mp (by simp [ho])
      · intro hk
        obtain ⟨c, hc⟩ := Option.isSome_iff_exists.mp (aux_lookup_isSome.mpr hk)
        obtain ⟨o, ho⟩ := subBA k c hc
        exact aux_lookup_isSome.mp (by simp [ho])
    refine ⟨by simpa [keysOf] using pm.length_eq, ?_⟩
    intro k hk
    obtain ⟨c, hc⟩ := Option.isSome_iff_exists.mp (aux_lookup_isSome.mpr hk)
    obtain ⟨o, ho⟩ := subAB k c hc
    refine ⟨o, c, ho, hc, (hceq k c o hc ho).mpr ?_⟩
    intro r
    constructor
    · intro hr
      have : r ∈ lrows R b := (hsame r).mp ((aux_mem_lrows_lookup nda).mpr ⟨k, c, hc, hr⟩)
      obtain ⟨k', o', hl', hr'⟩ := (aux_mem_lrows_lookup ndb).mp this
      have : k' = k := by rw [← (hb k' o' hl').1 r hr', (ha k c hc).1 r hr]
      subst this; rw [ho] at hl'; injection hl' with e; subst e; exact hr'
    · intro hr
      have : r ∈ lrows R a := (hsame r).mpr ((aux_mem_lrows_lookup ndb).mpr ⟨k, o, ho, hr⟩)
      obtain ⟨k', c', hl', hr'⟩ := (aux_mem_lrows_lookup nda).mp this
      have : k' = k := by rw [← (ha k' c' hl').1 r hr', (hb k o ho).1 r hr]
      subst this; rw [hc] at hl'; injection hl' with e; subst e; exact hr'

/-! ### children without rows are skipped -/

theorem aux_liveKids_nodup {α : Type} (ne : α → Bool) (cs : List (Key × α)) (nd : (keysOf cs).Nodup) :
    (keysOf (liveKids ne cs)).Nodup := by
  unfold keysOf liveKids at *
  exact (List.filter_sublist.map _).nodup nd

theorem aux_mem_lrows_liveKids {α : Type} (R : α → List Row) (ne : α → Bool)
    (hne : ∀ c, ne c = !(R c).isEmpty) (cs : List (Key × α)) (r : Row) :
    r ∈ lrows R (liveKids ne cs) ↔ r ∈ lrows R cs := by
  simp only [lrows, liveKids, List.mem_flatMap, List.mem_filter]
  constructor
  · rintro ⟨kc, ⟨h1, _⟩, h2⟩; exact ⟨kc, h1, h2⟩
  · rintro ⟨kc, h1, h2⟩
    refine ⟨kc, ⟨h1, ?_⟩, h2⟩
    rw [hne]; cases h : R kc.2 with
    | nil => rw [h] at h2; cases h2
    | cons _ _ => rfl

/-- a child found among the live children is a child, and it holds a row -/
theorem aux_liveKids_lookup {α : Type} (R : α → List Row) (ne : α → Bool)
    (hne : ∀ c, ne c = !(R c).isEmpty) (cs : List (Key × α)) {k : Key} {c : α}
    (hl : (liveKids ne cs).lookup k = some c) : (k, c) ∈ cs ∧ R c ≠ [] := by
  have hm := aux_lookup_mem hl
  simp only [liveKids, List.mem_filter] at hm
  refine ⟨hm.1, ?_⟩
  have := hm.2; rw [hne] at this
  intro h; simp [h] at this

theorem aux_hasRows (n : Nat) (c : Ght n) : hasRows n c = !(grows n c).isEmpty := rfl

/-- `==` ⇔ same set of rows, for all well-formed hash-set tries (empty children and `forced`
leaves included) -/
theorem aux_geq_iff (n d : Nat) (a b : Ght n) (wa : Wf .set n d a) (wb : Wf .set n d b) :
    geq n a b = true ↔ ∀ x, x ∈ grows n a ↔ x ∈ grows n b := by
  induction n generalizing d with
  | zero =>
    simp only [geq, Leaf.eq, grows]
    exact aux_hsEq_iff _ _ (wa rfl) (wb rfl)
  | succ n ih =>
    simp only [geq, aux_grows_succ, innerEq]
    rw [aux_innerEq_iff (grows n) (headAt d) (geq n) _ _
      (aux_liveKids_nodup _ _ wa.1) (aux_liveKids_nodup _ _ wb.1)
      (fun k c hl => by
        obtain ⟨hm, hne⟩ := aux_liveKids_lookup (grows n) _ (aux_hasRows n) _ hl
        exact ⟨(wa.2 _ hm).2, hne⟩)
      (fun k c hl => by
        obtain ⟨hm, hne⟩ := aux_liveKids_lookup (grows n) _ (aux_hasRows n) _ hl
        exact ⟨(wb.2 _ hm).2, hne⟩)
      (fun k x y hx hy => by
        obtain ⟨hmx, _⟩ := aux_liveKids_lookup (grows n) _ (aux_hasRows n) _ hx
        obtain ⟨hmy, _⟩ := aux_liveKids_lookup (grows n) _ (aux_hasRows n) _ hy
        exact ih (d + 1) x y (wa.2 _ hmx).1 (wb.2 _ hmy).1)]
    exact forall_congr' fun r => by
      rw [aux_mem_lrows_liveKids (grows n) _ (aux_hasRows n), aux_mem_lrows_liveKids (grows n) _ (aux_hasRows n)]

/-! ### the invariant is kept by `insert`, `merge`, `new_from` -/

theorem aux_good_empty (n d : Nat) : Good n d (gempty n) := by
  refine ⟨aux_wf_empty _ _ _, ?_⟩
  cases n <;> simp [NoEmptyChild, NoForced, gempty, Leaf.empty]

theorem aux_good_insert (n d : Nat) (t : Ght n) (row : Row) (h : Good n d t) :
    Good n d (ginsert .set n d t row).1 := by
  refine ⟨aux_wf_insert _ _ _ _ _ h.1, ?_⟩
  induction n generalizing d with
  | zero => exact ⟨trivial, by simpa [ginsert, Leaf.insert, NoForced] using h.2.2⟩
  | succ n ih =>
    have nd := aux_upsert_nodup (headAt d row) (gempty n) (fun c => ginsert .set n (d + 1) c row) t.kids h.1.1
    have key : ∀ kc ∈ (upsert (headAt d row) (gempty n) (fun c => ginsert .set n (d + 1) c row) t.kids).1,
        NoEmptyChild n kc.2 ∧ grows n kc.2 ≠ [] ∧ NoForced n kc.2 := by
      rintro ⟨k, c⟩ hmem
      have hl := aux_lookup_of_mem nd hmem
      rw [aux_upsert_lookup] at hl
      by_cases hk : k = headAt d row
      · simp only [hk, if_true, Option.some.injEq] at hl
        subst hl
        have hold : Good n (d + 1) ((t.kids.lookup (headAt d row)).getD (gempty n)) := by
          cases hlo : t.kids.lookup (headAt d row) with
          | none => exact aux_good_empty _ _
          | some c0 => exact (aux_good_child h hlo).1
        have := ih (d + 1) _ hold
        exact ⟨this.1, List.ne_nil_of_mem ((aux_mem_rows_insert _ _ _ _ _ _).mpr (Or.inr rfl)), this.2⟩
      · simp only [hk, if_false] at hl
        have := aux_good_child h hl
        exact ⟨this.1.2.1, this.2.2, this.1.2.2⟩
    simp only [ginsert]
    exact ⟨fun kc hkc => ⟨(key kc hkc).1, (key kc hkc).2.1⟩, fun kc hkc => (key kc hkc).2.2⟩

theorem aux_good_merge (n d : Nat) (a b : Ght n) (ha : Good n d a) (hb : Good n d b) :
    Good n d (gmerge .set n a b).1 := by
  refine ⟨aux_wf_merge _ _ _ _ _ ha.1 hb.1, ?_⟩
  induction n generalizing d with
  | zero => exact ⟨trivial, by simpa [gmerge, Leaf.mergeNode, NoForced] using ha.2.2⟩
  | succ n ih =>
    have nd := aux_mergeLoop_nodup (gmerge .set n) b.kids a.kids false ha.1.1
    have key : ∀ kc ∈ (mergeLoop (gmerge .set n) b.kids (a.kids, false)).1,
        NoEmptyChild n kc.2 ∧ grows n kc.2 ≠ [] ∧ NoForced n kc.2 := by
      rintro ⟨k, c⟩ hmem
      have hl := aux_lookup_of_mem nd hmem
      rw [aux_mergeLoop_lookup _ _ hb.1.1] at hl
      cases hlb : b.kids.lookup k with
      | none =>
        simp only [hlb] at hl
        have := aux_good_child ha hl
        exact ⟨this.1.2.1, this.2.2, this.1.2.2⟩
      | some vb =>
        simp only [hlb, Option.some.injEq] at hl
        have hvb := aux_good_child hb hlb
        cases hla : a.kids.lookup k with
        | none =>
          simp only [hla, mergedVal] at hl; subst hl
          exact ⟨hvb.1.2.1, hvb.2.2, hvb.1.2.2⟩
        | some va =>
          simp only [hla, mergedVal] at hl; subst hl
          have hva := aux_good_child ha hla
          have := ih (d + 1) va vb hva.1 hvb.1
          obtain ⟨r, hr⟩ := List.exists_mem_of_ne_nil _ hva.2.2
          exact ⟨this.1, List.ne_nil_of_mem ((aux_mem_rows_merge _ _ _ _ _).mpr (Or.inl hr)), this.2⟩
    simp only [gmerge, aux_innerMerge_eq]
    exact ⟨fun kc hkc => ⟨(key kc hkc).1, (key kc hkc).2.1⟩, fun kc hkc => (key kc hkc).2.2⟩

theorem aux_good_newFrom (n d : Nat) (xs : List Row) : Good n d (gnewFrom .set n d xs) := by
  unfold gnewFrom
  suffices h : ∀ t0, Good n d t0 → Good n d (xs.foldl (fun t r => (ginsert .set n d t r).1) t0) from
    h _ (aux_good_empty n d)
  induction xs with
  | nil => intro t0 h; simpa
  | cons r xs ih => intro t0 h; simp only [List.foldl_cons]; exact ih _ (aux_good_insert _ _ _ _ h)

end HvGht
