/-
Helper lemmas (C07): the bimorphism laws of the GHT join bimorphisms, up to the set of rows
and structurally (the crate's `==` on tries).
-/
import HvGht.Lemmas.Compare

set_option linter.unusedSimpArgs false
set_option linter.unusedVariables false
set_option linter.unnecessarySeqFocus false

namespace HvGht
open List

/-! ### up to rows -/

theorem aux_deepJoin_rows_left (sk : Kind) (k n d : Nat) (a a' b : Ght n)
    (ha : Wf .set n d a) (ha' : Wf .set n d a') (hb : Wf .set n d b) (x : Row) :
    x ∈ grows n (deepJoin sk k n (gmerge .set n a a').1 b) ↔
      x ∈ grows n (gmerge .set n (deepJoin sk k n a b) (deepJoin sk k n a' b)).1 := by
  rw [aux_mem_rows_merge, aux_mem_deepJoin sk .set .set k n d _ b (aux_wf_merge _ _ _ _ _ ha ha') hb,
    aux_mem_deepJoin sk .set .set k n d a b ha hb, aux_mem_deepJoin sk .set .set k n d a' b ha' hb]
  constructor
  · rintro ⟨ra, hra, rb, hrb, hc, e⟩
    rcases (aux_mem_rows_merge _ _ _ _ _).mp hra with h | h
    · exact Or.inl ⟨ra, h, rb, hrb, hc, e⟩
    · exact Or.inr ⟨ra, h, rb, hrb, hc, e⟩
  · rintro (⟨ra, hra, rb, hrb, hc, e⟩ | ⟨ra, hra, rb, hrb, hc, e⟩)
    · exact ⟨ra, (aux_mem_rows_merge _ _ _ _ _).mpr (Or.inl hra), rb, hrb, hc, e⟩
    · exact ⟨ra, (aux_mem_rows_merge _ _ _ _ _).mpr (Or.inr hra), rb, hrb, hc, e⟩

theorem aux_deepJoin_rows_right (sk : Kind) (k n d : Nat) (a b b' : Ght n)
    (ha : Wf .set n d a) (hb : Wf .set n d b) (hb' : Wf .set n d b') (x : Row) :
    x ∈ grows n (deepJoin sk k n a (gmerge .set n b b').1) ↔
      x ∈ grows n (gmerge .set n (deepJoin sk k n a b) (deepJoin sk k n a b')).1 := by
  rw [aux_mem_rows_merge, aux_mem_deepJoin sk .set .set k n d a _ ha (aux_wf_merge _ _ _ _ _ hb hb'),
    aux_mem_deepJoin sk .set .set k n d a b ha hb, aux_mem_deepJoin sk .set .set k n d a b' ha hb']
  constructor
  · rintro ⟨ra, hra, rb, hrb, hc, e⟩
    rcases (aux_mem_rows_merge _ _ _ _ _).mp hrb with h | h
    · exact Or.inl ⟨ra, hra, rb, h, hc, e⟩
    · exact Or.inr ⟨ra, hra, rb, h, hc, e⟩
  · rintro (⟨ra, hra, rb, hrb, hc, e⟩ | ⟨ra, hra, rb, hrb, hc, e⟩)
    · exact ⟨ra, hra, rb, (aux_mem_rows_merge _ _ _ _ _).mpr (Or.inl hrb), hc, e⟩
    · exact ⟨ra, hra, rb, (aux_mem_rows_merge _ _ _ _ _).mpr (Or.inr hrb), hc, e⟩

theorem aux_cart_rows_left (sk : Kind) (no na nb da db : Nat) (a a' : Ght na) (b : Ght nb) (x : Row) :
    x ∈ grows no (gcart sk no da db (gmerge .set na a a').1 b) ↔
      x ∈ grows no (gmerge .set no (gcart sk no da db a b) (gcart sk no da db a' b)).1 := by
  unfold gcart
  rw [aux_mem_rows_merge, aux_mem_gfromIter, aux_mem_gfromIter, aux_mem_gfromIter,
    aux_mem_cartRows, aux_mem_cartRows, aux_mem_cartRows]
  constructor
  · rintro ⟨ra, hra, rb, hrb, e⟩
    rcases (aux_mem_rows_merge _ _ _ _ _).mp hra with h | h
    · exact Or.inl ⟨ra, h, rb, hrb, e⟩
    · exact Or.inr ⟨ra, h, rb, hrb, e⟩
  · rintro (⟨ra, hra, rb, hrb, e⟩ | ⟨ra, hra, rb, hrb, e⟩)
    · exact ⟨ra, (aux_mem_rows_merge _ _ _ _ _).mpr (Or.inl hra), rb, hrb, e⟩
    · exact ⟨ra, (aux_mem_rows_merge _ _ _ _ _).mpr (Or.inr hra), rb, hrb, e⟩

theorem aux_cart_rows_right (sk : Kind) (no na nb da db : Nat) (a : Ght na) (b b' : Ght nb) (x : Row) :
    x ∈ grows no (gcart sk no da db a (gmerge .set nb b b').1) ↔
      x ∈ grows no (gmerge .set no (gcart sk no da db a b) (gcart sk no da db a b')).1 := by
  unfold gcart
  rw [aux_mem_rows_merge, aux_mem_gfromIter, aux_mem_gfromIter, aux_mem_gfromIter,
    aux_mem_cartRows, aux_mem_cartRows, aux_mem_cartRows]
  constructor
  · rintro ⟨ra, hra, rb, hrb, e⟩
    rcases (aux_mem_rows_merge _ _ _ _ _).mp hrb with h | h
    · exact Or.inl ⟨ra, hra, rb, h, e⟩
    · exact Or.inr ⟨ra, hra, rb, h, e⟩
  · rintro (⟨ra, hra, rb, hrb, e⟩ | ⟨ra, hra, rb, hrb, e⟩)
    · exact ⟨ra, hra, rb, (aux_mem_rows_merge _ _ _ _ _).mpr (Or.inl hrb), e⟩
    · exact ⟨ra, hra, rb, (aux_mem_rows_merge _ _ _ _ _).mpr (Or.inr hrb), e⟩

/-! ### structurally -/

theorem aux_stCollect_nodup (xs : List Row) : (stCollect .set xs).Nodup :=
  aux_stExtend_nodup _ _ List.nodup_nil

theorem aux_geq_refl (n : Nat) (t : Ght n) : geq n t t = true := by
  induction n with
  | zero => simp [geq, Leaf.eq, hsEq]
  | succ n ih =>
    simp only [geq]
    rw [aux_innerEq_true]
    refine ⟨rfl, ?_⟩
    intro k hk
    obtain ⟨c, hc⟩ := Option.isSome_iff_exists.mp (aux_lookup_isSome.mpr hk)
    exact ⟨c, c, hc, hc, ih c⟩

/-- `==` of two inner nodes with distinct keys, key by key -/
theorem aux_innerEq_of_lookup {α : Type} (ceq : α → α → Bool) (a b : List (Key × α))
    (nda : (keysOf a).Nodup) (ndb : (keysOf b).Nodup)
    (h : ∀ k, match a.lookup k, b.lookup k with
      | some x, some y => ceq x y = true
      | none, none => True
      | _, _ => False) :
    innerEq ceq a b = true := by
  rw [aux_innerEq_true]
  have keys : ∀ k, k ∈ keysOf a ↔ k ∈ keysOf b := by
    intro k
    rw [← aux_lookup_isSome, ← aux_lookup_isSome]
    have := h k
    cases ha : a.lookup k <;> cases hb : b.lookup k <;> simp [ha, hb] at this ⊢
  have pm : (keysOf a).Perm (keysOf b) := (List.perm_ext_iff_of_nodup nda ndb).mpr keys
  refine ⟨by simpa [keysOf] using pm.length_eq, ?_⟩
  intro k hk
  have := h k
  obtain ⟨x, hx⟩ := Option.isSome_iff_exists.mp (aux_lookup_isSome.mpr hk)
  cases hb : b.lookup k with
  | none => simp [hx, hb] at this
  | some y => exact ⟨y, x, rfl, hx, by simpa [hx, hb] using this⟩

theorem aux_wf_deepJoin_keys (sk : Kind) (k n : Nat) (a b : Ght (n + 1)) :
    deepJoin sk k (n + 1) a b = Ght.ofKids (keyedJoin (deepJoin sk k n) a.kids b.kids) := rfl

/-- structural left law of the deep join: the crate's `==` holds between the two sides -/
theorem aux_deepJoin_struct_left (k n d : Nat) (a a' b : Ght n)
    (ha : Wf .set n d a) (ha' : Wf .set n d a') (hb : Wf .set n d b) :
    geq n (deepJoin .set k n (gmerge .set n a a').1 b)
      (gmerge .set n (deepJoin .set k n a b) (deepJoin .set k n a' b)).1 = true := by
  induction n generalizing d with
  | zero =>
    simp only [geq, deepJoin, valProduct, gmerge, Leaf.mergeNode, Leaf.eq, Leaf.fromIter, beq_self_eq_true,
      Bool.and_true]
    rw [aux_hsEq_iff _ _ (aux_stCollect_nodup _)
      (aux_stExtend_nodup _ _ (aux_stCollect_nodup _))]
    intro x
    simp only [aux_mem_stCollect, aux_stExtend_mem, aux_mem_valRows, grows, Ght.toLeaf]
    constructor
    · rintro ⟨ra, hra, rb, hrb, e⟩
      rcases hra with h | h
      · exact Or.inl ⟨ra, h, rb, hrb, e⟩
      · exact Or.inr ⟨ra, h, rb, hrb, e⟩
    · rintro (⟨ra, hra, rb, hrb, e⟩ | ⟨ra, hra, rb, hrb, e⟩)
      · exact ⟨ra, Or.inl hra, rb, hrb, e⟩
      · exact ⟨ra, Or.inr hra, rb, hrb, e⟩
  | succ n ih =>
    simp only [geq, deepJoin, gmerge, aux_innerMerge_eq]
    have ndm := aux_mergeLoop_nodup (gmerge .set n) a'.kids a.kids false ha.1
    apply aux_innerEq_of_lookup _ _ _ (aux_keyedJoin_nodup _ _ _ hb.1)
      (aux_mergeLoop_nodup _ _ _ false (aux_keyedJoin_nodup _ _ _ hb.1))
    intro key
    rw [aux_keyedJoin_lookup _ _ _ hb.1, aux_mergeLoop_lookup _ _ ha'.1,
      aux_mergeLoop_lookup _ _ (aux_keyedJoin_nodup _ _ _ hb.1),
      aux_keyedJoin_lookup _ _ _ hb.1, aux_keyedJoin_lookup _ _ _ hb.1]
    cases hy : b.kids.lookup key with
    | none => cases a.kids.lookup key <;> cases a'.kids.lookup key <;> simp [mergedVal]
    | some y =>
      cases hx : a.kids.lookup key with
      | none =>
        cases hx' : a'.kids.lookup key with
        | none => simp
        | some x' => simp [mergedVal, aux_geq_refl]
      | some x =>
        cases hx' : a'.kids.lookup key with
        | none => simp [mergedVal, aux_geq_refl]
        | some x' =>
          simp only [mergedVal]
          exact ih (d + 1) x x' y (aux_wf_child ha hx).1 (aux_wf_child ha' hx').1 (aux_wf_child hb hy).1

theorem aux_deepJoin_struct_right (k n d : Nat) (a b b' : Ght n)
    (ha : Wf .set n d a) (hb : Wf .set n d b) (hb' : Wf .set n d b') :
    geq n (deepJoin .set k n a (gmerge .set n b b').1)
      (gmerge .set n (deepJoin .set k n a b) (deepJoin .set k n a b')).1 = true := by
  induction n generalizing d with
  | zero =>
    simp only [geq, deepJoin, valProduct, gmerge, Leaf.mergeNode, Leaf.eq, Leaf.fromIter, beq_self_eq_true,
      Bool.and_true]
    rw [aux_hsEq_iff _ _ (aux_stCollect_nodup _)
      (aux_stExtend_nodup _ _ (aux_stCollect_nodup _))]
    intro x
    simp only [aux_mem_stCollect, aux_stExtend_mem, aux_mem_valRows, grows, Ght.toLeaf]
    constructor
    · rintro ⟨ra, hra, rb, hrb, e⟩
      rcases hrb with h | h
      · exact Or.inl ⟨ra, hra, rb, h, e⟩
      · exact Or.inr ⟨ra, hra, rb, h, e⟩
    · rintro (⟨ra, hra, rb, hrb, e⟩ | ⟨ra, hra, rb, hrb, e⟩)
      · exact ⟨ra, hra, rb, Or.inl hrb, e⟩
      · exact ⟨ra, hra, rb, Or.inr hrb, e⟩
  | succ n ih =>
    simp only [geq, deepJoin, gmerge, aux_innerMerge_eq]
    have ndm := aux_mergeLoop_nodup (gmerge .set n) b'.kids b.kids false hb.1
    apply aux_innerEq_of_lookup _ _ _ (aux_keyedJoin_nodup _ _ _ ndm)
      (aux_mergeLoop_nodup _ _ _ false (aux_keyedJoin_nodup _ _ _ hb.1))
    intro key
    rw [aux_keyedJoin_lookup _ _ _ ndm, aux_mergeLoop_lookup _ _ hb'.1,
      aux_mergeLoop_lookup _ _ (aux_keyedJoin_nodup _ _ _ hb'.1),
      aux_keyedJoin_lookup _ _ _ hb.1, aux_keyedJoin_lookup _ _ _ hb'.1]
    cases hx : a.kids.lookup key with
    | none => cases b.kids.lookup key <;> cases b'.kids.lookup key <;> simp [mergedVal]
    | some x =>
      cases hy : b.kids.lookup key with
      | none =>
        cases hy' : b'.kids.lookup key with
        | none => simp
        | some y' => simp [mergedVal, aux_geq_refl]
      | some y =>
        cases hy' : b'.kids.lookup key with
        | none => simp [mergedVal, aux_geq_refl]
        | some y' =>
          simp only [mergedVal]
          exact ih (d + 1) x y y' (aux_wf_child ha hx).1 (aux_wf_child hb hy).1 (aux_wf_child hb' hy').1

end HvGht
