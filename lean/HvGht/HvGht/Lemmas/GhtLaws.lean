/-
Helper lemmas (C07): the bimorphism laws of the GHT join bimorphisms, up to the set of rows
and structurally (the crate's `==` on tries).
-/
import HvGht.Lemmas.Compare
import HvGht.Lemmas.More

set_option linter.unusedSimpArgs false
set_option linter.unusedVariables false
set_option linter.unnecessarySeqFocus false

namespace HvGht
open List

/-! ### up to rows -/

theorem aux_deepJoin_rows_left (sk : Kind) (k n d : Nat) (a a' b : Ght n)
    (ha : Wf .set n d a) (ha' : Wf .set n d a') (hb : Wf .set n d b) (x : Row) :
    x ∈ grows n (deepJoin sk k n (gmerge .set n a a').1 b) ↔
      x ∈ grows n (gmerge .set n (deepJoin sk k n a b) (deepJoin sk k n a' b)).1 := by
  rw [aux_mem_rows_merge, aux_mem_deepJoin sk .set .set k n d _ b (aux_wf_merge _ _ _ _ _ ha ha') hb,
    aux_mem_deepJoin sk .set .set k n d a b ha hb, aux_mem_deepJoin sk .set .set k n d a' b ha' hb]
  constructor
  · rintro ⟨ra, hra, rb, hrb, hc, e⟩
    rcases (aux_mem_rows_merge _ _ _ _ _).mp hra with h | h
    · exact Or.inl ⟨ra, h, rb, hrb, hc, e⟩
    · exact Or.inr ⟨ra, h, rb, hrb, hc, e⟩
  · rintro (⟨ra, hra, rb, hrb, hc, e⟩ | ⟨ra, hra, rb, hrb, hc, e⟩)
    · exact ⟨ra, (aux_mem_rows_merge _ _ _ _ _).mpr (Or.inl hra), rb, hrb, hc, e⟩
    · exact ⟨ra, (aux_mem_rows_merge _ _ _ _ _).mpr (Or.inr hra), rb, hrb, hc, e⟩

theorem aux_deepJoin_rows_right (sk : Kind) (k n d : Nat) (a b b' : Ght n)
    (ha : Wf .set n d a) (hb : Wf .set n d b) (hb' : Wf .set n d b') (x : Row) :
    x ∈ grows n (deepJoin sk k n a (gmerge .set n b b').1) ↔
      x ∈ grows n (gmerge .set n (deepJoin sk k n a b) (deepJoin sk k n a b')).1 := by
  rw [aux_mem_rows_merge, aux_mem_deepJoin sk .set .set k n d a _ ha (aux_wf_merge _ _ _ _ _ hb hb'),
    aux_mem_deepJoin sk .set .set k n d a b ha hb, aux_mem_deepJoin sk .set .set k n d a b' ha hb']
  constructor
  · rintro ⟨ra, hra, rb, hrb, hc, e⟩
    rcases (aux_mem_rows_merge _ _ _ _ _).mp hrb with h | h
    · exact Or.inl ⟨ra, hra, rb, h, hc, e⟩
    · exact Or.inr ⟨ra, hra, rb, h, hc, e⟩
  · rintro (⟨ra, hra, rb, hrb, hc, e⟩ | ⟨ra, hra, rb, hrb, hc, e⟩)
    · exact ⟨ra, hra, rb, (aux_mem_rows_merge _ _ _ _ _).mpr (Or.inl hrb), hc, e⟩
    · exact ⟨ra, hra, rb, (aux_mem_rows_merge _ _ _ _ _).mpr (Or.inr hrb), hc, e⟩

theorem aux_cart_rows_left (sk : Kind) (no na nb da db : Nat) (a a' : Ght na) (b : Ght nb) (x : Row) :
    x ∈ grows no (gcart sk no da db (gmerge .set na a a').1 b) ↔
      x ∈ grows no (gmerge .set no (gcart sk no da db a b) (gcart sk no da db a' b)).1 := by
  unfold gcart
  rw [aux_mem_rows_merge, aux_mem_gfromIter, aux_mem_gfromIter, aux_mem_gfromIter,
    aux_mem_cartRows, aux_mem_cartRows, aux_mem_cartRows]
  constructor
  · rintro ⟨ra, hra, rb, hrb, e⟩
    rcases (aux_mem_rows_merge _ _ _ _ _).mp hra with h | h
    · exact Or.inl ⟨ra, h, rb, hrb, e⟩
    · exact Or.inr ⟨ra, h, rb, hrb, e⟩
  · rintro (⟨ra, hra, rb, hrb, e⟩ | ⟨ra, hra, rb, hrb, e⟩)
    · exact ⟨ra, (aux_mem_rows_merge _ _ _ _ _).mpr (Or.inl hra), rb, hrb, e⟩
    · exact ⟨ra, (aux_mem_rows_merge _ _ _ _ _).mpr (Or.inr hra), rb, hrb, e⟩

theorem aux_cart_rows_right (sk : Kind) (no na nb da db : Nat) (a : Ght na) (b b' : Ght nb) (x : Row) :
    x ∈ grows no (gcart sk no da db a (gmerge .set nb b b').1) ↔
      x ∈ grows no (gmerge .set no (gcart sk no da db a b) (gcart sk no da db a b')).1 := by
  unfold gcart
  rw [aux_mem_rows_merge, aux_mem_gfromIter, aux_mem_gfromIter, aux_mem_gfromIter,
    aux_mem_cartRows, aux_mem_cartRows, aux_mem_cartRows]
  constructor
  · rintro ⟨ra, hra, rb, hrb, e⟩
    rcases (aux_mem_rows_merge _ _ _ _ _).mp hrb with h | h
    · exact Or.inl ⟨ra, hra, rb, h, e⟩
    · exact Or.inr ⟨ra, hra, rb, h, e⟩
  · rintro (⟨ra, hra, rb, hrb, e⟩ | ⟨ra, hra, rb, hrb, e⟩)
    · exact ⟨ra, hra, rb, (aux_mem_rows_merge _ _ _ _ _).mpr (Or.inl hrb), e⟩
    · exact ⟨ra, hra, rb, (aux_mem_rows_merge _ _ _ _ _).mpr (Or.inr hrb), e⟩

/-! ### structurally: since the F7 fix `==` on well-formed tries is equality of the sets of rows -/

theorem aux_stCollect_nodup (xs : List Row) : (stCollect .set xs).Nodup :=
  aux_stExtend_nodup _ _ List.nodup_nil

theorem aux_grows_merge_len (n d : Nat) (a a' : Ght n)
    (la : ∀ r ∈ grows n a, d + n ≤ r.length) (la' : ∀ r ∈ grows n a', d + n ≤ r.length) :
    ∀ r ∈ grows n (gmerge .set n a a').1, d + n ≤ r.length := by
  intro r hr
  rcases (aux_mem_rows_merge _ _ _ _ _).mp hr with h | h
  · exact la r h
  · exact la' r h

/-- structural left law of the deep join: the crate's `==` holds between the two sides -/
theorem aux_deepJoin_struct_left (k n d : Nat) (a a' b : Ght n)
    (ha : Wf .set n d a) (ha' : Wf .set n d a') (hb : Wf .set n d b)
    (la : ∀ r ∈ grows n a, d + n ≤ r.length) (la' : ∀ r ∈ grows n a', d + n ≤ r.length) :
    geq n (deepJoin .set k n (gmerge .set n a a').1 b)
      (gmerge .set n (deepJoin .set k n a b) (deepJoin .set k n a' b)).1 = true := by
  have hm := aux_wf_merge .set n d a a' ha ha'
  rw [aux_geq_iff n d _ _
    (aux_wf_deepJoin k n d _ b hm hb (aux_grows_merge_len n d a a' la la'))
    (aux_wf_merge .set n d _ _ (aux_wf_deepJoin k n d a b ha hb la) (aux_wf_deepJoin k n d a' b ha' hb la'))]
  exact fun x => aux_deepJoin_rows_left .set k n d a a' b ha ha' hb x

theorem aux_deepJoin_struct_right (k n d : Nat) (a b b' : Ght n)
    (ha : Wf .set n d a) (hb : Wf .set n d b) (hb' : Wf .set n d b')
    (la : ∀ r ∈ grows n a, d + n ≤ r.length) :
    geq n (deepJoin .set k n a (gmerge .set n b b').1)
      (gmerge .set n (deepJoin .set k n a b) (deepJoin .set k n a b')).1 = true := by
  have hm := aux_wf_merge .set n d b b' hb hb'
  rw [aux_geq_iff n d _ _
    (aux_wf_deepJoin k n d a _ ha hm la)
    (aux_wf_merge .set n d _ _ (aux_wf_deepJoin k n d a b ha hb la) (aux_wf_deepJoin k n d a b' ha hb' la))]
  exact fun x => aux_deepJoin_rows_right .set k n d a b b' ha hb hb' x

end HvGht
