/-
Helper lemmas (C07): sets as duplicate-free lists, `MapUnion` operations through `lookup`.
-/
import HvGht.Model.Morph
import HvGht.Lemmas.Assoc

set_option linter.unusedSimpArgs false
set_option linter.unusedVariables false
set_option linter.unnecessarySeqFocus false

namespace HvGht
open List

/-! ### sets -/
section Set
variable {α : Type} [DecidableEq α]

theorem aux_setInsert_mem (s : List α) (x y : α) : y ∈ setInsert s x ↔ y ∈ s ∨ y = x := by
  unfold setInsert; split
  · constructor
    · exact Or.inl
    · rintro (h | h); exact h; subst h; assumption
  · simp

theorem aux_setInsert_nodup (s : List α) (x : α) (h : s.Nodup) : (setInsert s x).Nodup := by
  unfold setInsert; split
  · exact h
  · rename_i hx; rw [List.nodup_append]; simp_all
    intro a ha e; subst e; exact hx ha

theorem aux_setMerge_mem (o s : List α) (y : α) : y ∈ setMerge s o ↔ y ∈ s ∨ y ∈ o := by
  induction o generalizing s with
  | nil => simp [setMerge]
  | cons x o ih =>
    have := ih (setInsert s x)
    simp only [setMerge, List.foldl_cons] at this ⊢
    rw [this, aux_setInsert_mem]; simp; tauto

theorem aux_setMerge_nodup (o s : List α) (h : s.Nodup) : (setMerge s o).Nodup := by
  induction o generalizing s with
  | nil => simpa [setMerge]
  | cons x o ih =>
    simp only [setMerge, List.foldl_cons]
    exact ih _ (aux_setInsert_nodup s x h)

theorem aux_setCollect_mem (xs : List α) (y : α) : y ∈ setCollect xs ↔ y ∈ xs := by
  simp [setCollect, aux_setMerge_mem]

theorem aux_setCollect_nodup (xs : List α) : (setCollect xs).Nodup :=
  aux_setMerge_nodup xs [] List.nodup_nil

theorem aux_setEq_iff (a b : List α) (ha : a.Nodup) (hb : b.Nodup) :
    setEq a b = true ↔ ∀ x, x ∈ a ↔ x ∈ b := by
  unfold setEq
  simp only [Bool.and_eq_true, beq_iff_eq, List.all_eq_true, decide_eq_true_eq]
  constructor
  · rintro ⟨hl, hs⟩
    have sp : a.Subperm b := List.subperm_of_subset ha hs
    have pm : a.Perm b := sp.perm_of_length_le (by omega)
    exact fun x => pm.mem_iff
  · intro h
    have pm : a.Perm b := (List.perm_ext_iff_of_nodup ha hb).mpr h
    exact ⟨pm.length_eq, fun x hx => (h x).mp hx⟩

theorem aux_setEq_refl (a : List α) : setEq a a = true := by
  simp [setEq]

theorem aux_mem_cartesianProduct {β : Type} [DecidableEq β] (a : List α) (b : List β) (p : α × β) :
    p ∈ cartesianProduct a b ↔ p.1 ∈ a ∧ p.2 ∈ b := by
  unfold cartesianProduct
  rw [aux_setCollect_mem]
  simp only [List.mem_flatMap, List.mem_map]
  constructor
  · rintro ⟨x, hx, y, hy, e⟩; subst e; exact ⟨hx, hy⟩
  · rintro ⟨h1, h2⟩; exact ⟨p.1, h1, p.2, h2, rfl⟩

end Set

/-! ### maps -/
section Map
variable {β : Type}

theorem aux_modifyKey_lookup (k : Key) (f : β → β) (cs : List (Key × β)) (k' : Key) :
    (modifyKey k f cs).lookup k' = if k' = k then (cs.lookup k).map f else cs.lookup k' := by
  induction cs with
  | nil => simp [modifyKey]
  | cons kc cs ih =>
    obtain ⟨k0, c0⟩ := kc
    unfold modifyKey
    by_cases h0 : k0 = k
    · subst h0; simp only [if_true, aux_lookup_cons]
      by_cases hk : k' = k0 <;> simp [hk]
    · simp only [h0, if_false, aux_lookup_cons, ih]
      have h0' : k ≠ k0 := fun e => h0 e.symm
      by_cases hk : k' = k
      · subst hk; simp [h0']
      · simp [hk]

theorem aux_modifyKey_keys (k : Key) (f : β → β) (cs : List (Key × β)) :
    keysOf (modifyKey k f cs) = keysOf cs := by
  induction cs with
  | nil => simp [modifyKey]
  | cons kc cs ih =>
    obtain ⟨k0, c0⟩ := kc
    unfold modifyKey
    by_cases h0 : k0 = k
    · simp [h0, keysOf]
    · simp only [h0, if_false, keysOf, List.map_cons] at ih ⊢; rw [ih]

theorem aux_mapInsert_lookup (k : Key) (v : β) (cs : List (Key × β)) (k' : Key) :
    (mapInsert k v cs).lookup k' = if k' = k then some v else cs.lookup k' := by
  induction cs with
  | nil => simp [mapInsert, aux_lookup_cons]
  | cons kc cs ih =>
    obtain ⟨k0, c0⟩ := kc
    unfold mapInsert
    by_cases h0 : k0 = k
    · subst h0; simp only [if_true, aux_lookup_cons]
      by_cases hk : k' = k0 <;> simp [hk]
    · simp only [h0, if_false, aux_lookup_cons, ih]
      have h0' : k ≠ k0 := fun e => h0 e.symm
      by_cases hk : k' = k
      · subst hk; simp [h0']
      · simp [hk]

theorem aux_mapInsert_keys (k : Key) (v : β) (cs : List (Key × β)) :
    keysOf (mapInsert k v cs) = if k ∈ keysOf cs then keysOf cs else keysOf cs ++ [k] := by
  induction cs with
  | nil => simp [mapInsert, keysOf]
  | cons kc cs ih =>
    obtain ⟨k0, c0⟩ := kc
    unfold mapInsert
    by_cases h0 : k0 = k
    · subst h0; simp [keysOf]
    · have h0' : k ≠ k0 := fun e => h0 e.symm
      simp only [h0, if_false, keysOf, List.map_cons, List.mem_cons, h0', false_or] at ih ⊢
      rw [ih]; by_cases hk : k ∈ map (fun x => x.fst) cs <;> simp [hk]

theorem aux_mapInsert_nodup (k : Key) (v : β) (cs : List (Key × β)) (nd : (keysOf cs).Nodup) :
    (keysOf (mapInsert k v cs)).Nodup := by
  rw [aux_mapInsert_keys]; split
  · exact nd
  · rename_i h; rw [List.nodup_append]; simp_all
    intro a ha e; subst e; exact h ha

/-- filtering an association list with distinct keys -/
theorem aux_filter_lookup (p : Key × β → Bool) (cs : List (Key × β)) (nd : (keysOf cs).Nodup) (k : Key) :
    (cs.filter p).lookup k = (cs.lookup k).bind (fun v => if p (k, v) then some v else none) := by
  induction cs with
  | nil => simp
  | cons kc cs ih =>
    obtain ⟨k0, c0⟩ := kc
    simp only [keysOf, List.map_cons, List.nodup_cons] at nd
    rw [List.filter_cons, aux_lookup_cons]
    by_cases hk : k = k0
    · subst hk
      have hn : cs.lookup k = none := aux_lookup_none.mpr nd.1
      by_cases hp : p (k, c0) = true
      · simp [hp, aux_lookup_cons]
      · simp only [hp, Bool.false_eq_true, if_false, if_true, Option.bind_some]
        rw [ih nd.2, hn]; simp
    · by_cases hp : p (k0, c0) = true
      · simp [hp, aux_lookup_cons, hk, ih nd.2]
      · simp [hp, hk, ih nd.2]

theorem aux_filter_keys_sublist (p : Key × β → Bool) (cs : List (Key × β)) :
    (keysOf (cs.filter p)).Sublist (keysOf cs) := by
  unfold keysOf
  exact List.Sublist.map _ List.filter_sublist

/-- the in-place part of `MapUnion::merge` -/
def mergeInPlace (L : LatOps β) (other' self : List (Key × β)) : List (Key × β) :=
  other'.foldl
    (fun acc kv => if (acc.lookup kv.1).isSome then modifyKey kv.1 (fun v => L.merge v kv.2) acc else acc) self

theorem aux_mergeInPlace_keys (L : LatOps β) (other' self : List (Key × β)) :
    keysOf (mergeInPlace L other' self) = keysOf self := by
  induction other' generalizing self with
  | nil => rfl
  | cons kv o ih =>
    simp only [mergeInPlace, List.foldl_cons] at ih ⊢
    split
    · rw [ih, aux_modifyKey_keys]
    · rw [ih]

theorem aux_mergeInPlace_lookup (L : LatOps β) (other' : List (Key × β)) (nd : (keysOf other').Nodup)
    (self : List (Key × β)) (k : Key) :
    (mergeInPlace L other' self).lookup k =
      match self.lookup k with
      | none => none
      | some s => (match other'.lookup k with | some o => some (L.merge s o) | none => some s) := by
  induction other' generalizing self with
  | nil => simp [mergeInPlace]; cases self.lookup k <;> rfl
  | cons kv o ih =>
    obtain ⟨k0, v0⟩ := kv
    simp only [keysOf, List.map_cons, List.nodup_cons] at nd
    have hn : o.lookup k0 = none := aux_lookup_none.mpr nd.1
    simp only [mergeInPlace, List.foldl_cons] at ih ⊢
    by_cases hs : (self.lookup k0).isSome = true
    · simp only [hs, if_true]
      rw [ih nd.2, aux_modifyKey_lookup, aux_lookup_cons]
      by_cases hk : k = k0
      · subst hk
        obtain ⟨s, hs'⟩ := Option.isSome_iff_exists.mp hs
        simp [hs', hn]
      · simp [hk]
    · simp only [hs, if_false]
      rw [ih nd.2, aux_lookup_cons]
      by_cases hk : k = k0
      · subst hk
        have : self.lookup k = none := by
          cases h : self.lookup k with
          | none => rfl
          | some s => simp [h] at hs
        simp [this]
      · simp [hk]

theorem aux_mapMerge_eq (L : LatOps β) (self other : List (Key × β)) :
    mapMerge L self other =
      mergeInPlace L (other.filter fun kv => !L.isBot kv.2) self ++
        (other.filter fun kv => !L.isBot kv.2).filter fun kv => (self.lookup kv.1).isNone := rfl

/-- `MapUnion::merge`, key by key -/
theorem aux_mapMerge_lookup (L : LatOps β) (self other : List (Key × β)) (ndo : (keysOf other).Nodup) (k : Key) :
    (mapMerge L self other).lookup k =
      match self.lookup k, other.lookup k with
      | some s, some o => if L.isBot o then some s else some (L.merge s o)
      | some s, none => some s
      | none, some o => if L.isBot o then none else some o
      | none, none => none := by
  have ndo' : (keysOf (other.filter fun kv => !L.isBot kv.2)).Nodup :=
    ndo.sublist (aux_filter_keys_sublist _ _)
  rw [aux_mapMerge_eq, List.lookup_append, aux_mergeInPlace_lookup L _ ndo', aux_filter_lookup _ _ ndo',
    aux_filter_lookup _ _ ndo]
  cases hs : self.lookup k with
  | some s =>
    cases ho : other.lookup k with
    | none => simp
    | some o => by_cases hb : L.isBot o = true <;> simp [hb]
  | none =>
    cases ho : other.lookup k with
    | none => simp
    | some o => by_cases hb : L.isBot o = true <;> simp [hb, hs]

theorem aux_mapMerge_nodup (L : LatOps β) (self other : List (Key × β))
    (nds : (keysOf self).Nodup) (ndo : (keysOf other).Nodup) : (keysOf (mapMerge L self other)).Nodup := by
  rw [aux_mapMerge_eq]
  unfold keysOf
  rw [List.map_append]
  have h1 : (keysOf (mergeInPlace L (other.filter fun kv => !L.isBot kv.2) self)).Nodup := by
    rw [aux_mergeInPlace_keys]; exact nds
  have h2 : (keysOf ((other.filter fun kv => !L.isBot kv.2).filter fun kv => (self.lookup kv.1).isNone)).Nodup :=
    ndo.sublist ((aux_filter_keys_sublist _ _).trans (aux_filter_keys_sublist _ _))
  refine List.Nodup.append h1 h2 ?_
  intro k hk1 hk2
  have hk1' : k ∈ keysOf self := by
    have := aux_mergeInPlace_keys L (other.filter fun kv => !L.isBot kv.2) self
    unfold keysOf at this; rw [this] at hk1; exact hk1
  obtain ⟨kv, hkv, e⟩ := List.mem_map.mp hk2
  have := (List.mem_filter.mp hkv).2
  subst e
  have hs : (self.lookup kv.1).isSome = true := aux_lookup_isSome.mpr hk1'
  cases h : self.lookup kv.1 <;> simp [h] at this hs

/-- the value stored by `MapUnion::merge` under an entry of the result is an entry-wise merge -/
theorem aux_mapMerge_mem (L : LatOps β) (self other : List (Key × β))
    (nds : (keysOf self).Nodup) (ndo : (keysOf other).Nodup) (kv : Key × β)
    (h : kv ∈ mapMerge L self other) :
    kv ∈ self ∨ kv ∈ other ∨ ∃ s o, (kv.1, s) ∈ self ∧ (kv.1, o) ∈ other ∧ kv.2 = L.merge s o := by
  have hl := aux_lookup_of_mem (aux_mapMerge_nodup L self other nds ndo) (show (kv.1, kv.2) ∈ _ from h)
  rw [aux_mapMerge_lookup L self other ndo] at hl
  cases hs : self.lookup kv.1 with
  | some s =>
    cases ho : other.lookup kv.1 with
    | none => simp [hs, ho] at hl; subst hl; exact Or.inl (aux_lookup_mem hs)
    | some o =>
      by_cases hb : L.isBot o = true
      · simp [hs, ho, hb] at hl; subst hl; exact Or.inl (aux_lookup_mem hs)
      · simp [hs, ho, hb] at hl
        exact Or.inr (Or.inr ⟨s, o, aux_lookup_mem hs, aux_lookup_mem ho, hl.symm⟩)
  | none =>
    cases ho : other.lookup kv.1 with
    | none => simp [hs, ho] at hl
    | some o =>
      by_cases hb : L.isBot o = true
      · simp [hs, ho, hb] at hl
      · simp [hs, ho, hb] at hl; subst hl; exact Or.inr (Or.inl (aux_lookup_mem ho))

/-! ### `KeyedBimorphism::call` -/

/-- the loop of `keyed`, from an arbitrary accumulator -/
def keyedLoop {α γ : Type} (f : α → β → γ) (b : List (Key × β)) (a : List (Key × α)) (acc : List (Key × γ)) :
    List (Key × γ) :=
  a.foldl (fun out ka =>
    match b.lookup ka.1 with
    | some vb => mapInsert ka.1 (f ka.2 vb) out
    | none => out) acc

theorem aux_keyed_eq {α γ : Type} (f : α → β → γ) (a : List (Key × α)) (b : List (Key × β)) :
    keyed f a b = keyedLoop f b a [] := rfl

theorem aux_keyedLoop_lookup {α γ : Type} (f : α → β → γ) (b : List (Key × β)) (a : List (Key × α))
    (nda : (keysOf a).Nodup) (acc : List (Key × γ)) (k : Key) :
    (keyedLoop f b a acc).lookup k =
      match a.lookup k, b.lookup k with
      | some x, some y => some (f x y)
      | _, _ => acc.lookup k := by
  induction a generalizing acc with
  | nil => simp [keyedLoop]
  | cons ka a ih =>
    obtain ⟨k0, x0⟩ := ka
    simp only [keysOf, List.map_cons, List.nodup_cons] at nda
    have hn : a.lookup k0 = none := aux_lookup_none.mpr nda.1
    simp only [keyedLoop, List.foldl_cons] at ih ⊢
    rw [ih nda.2, aux_lookup_cons]
    by_cases hk : k = k0
    · subst hk
      cases hb : b.lookup k with
      | none => simp [hn, hb]
      | some y => simp [hn, hb, aux_mapInsert_lookup]
    · cases hb0 : b.lookup k0 with
      | none => simp [hk]
      | some y0 =>
        simp only [hk, if_false, aux_mapInsert_lookup]

theorem aux_keyedLoop_nodup {α γ : Type} (f : α → β → γ) (b : List (Key × β)) (a : List (Key × α))
    (acc : List (Key × γ)) (nd : (keysOf acc).Nodup) : (keysOf (keyedLoop f b a acc)).Nodup := by
  induction a generalizing acc with
  | nil => simpa [keyedLoop]
  | cons ka a ih =>
    simp only [keyedLoop, List.foldl_cons] at ih ⊢
    apply ih
    split
    · exact aux_mapInsert_nodup _ _ _ nd
    · exact nd

theorem aux_keyed_lookup {α γ : Type} (f : α → β → γ) (a : List (Key × α)) (b : List (Key × β))
    (nda : (keysOf a).Nodup) (k : Key) :
    (keyed f a b).lookup k =
      match a.lookup k, b.lookup k with
      | some x, some y => some (f x y)
      | _, _ => none := by
  rw [aux_keyed_eq, aux_keyedLoop_lookup f b a nda]
  cases a.lookup k <;> cases b.lookup k <;> simp

theorem aux_keyed_nodup {α γ : Type} (f : α → β → γ) (a : List (Key × α)) (b : List (Key × β)) :
    (keysOf (keyed f a b)).Nodup :=
  aux_keyedLoop_nodup f b a [] (by simp [keysOf])

/-! ### `MapUnion::eq`, sufficient condition key by key -/

/-- two optional values that `MapUnion::eq` cannot tell apart -/
def agree (L : LatOps β) (o1 o2 : Option β) : Prop :=
  match o1, o2 with
  | some x, some y => L.eq x y = true ∨ (L.isBot x = true ∧ L.isBot y = true)
  | some x, none => L.isBot x = true
  | none, some y => L.isBot y = true
  | none, none => True

theorem aux_mapEq_of_agree (L : LatOps β) (a b : List (Key × β))
    (nda : (keysOf a).Nodup) (ndb : (keysOf b).Nodup)
    (h : ∀ k, agree L (a.lookup k) (b.lookup k)) : mapEq L a b = true := by
  unfold mapEq
  simp only [List.all_eq_true, List.mem_append, List.mem_map, List.mem_filter]
  rintro k (⟨kv, ⟨hm, hnb⟩, e⟩ | ⟨kv, ⟨hm, hnb⟩, e⟩)
  · subst e
    have ha := aux_lookup_of_mem nda (show (kv.1, kv.2) ∈ a from hm)
    have hk := h kv.1
    rw [ha] at hk ⊢
    have hnb' : L.isBot kv.2 = false := by simpa using hnb
    cases hb : b.lookup kv.1 with
    | none => simp [agree, hb, hnb'] at hk
    | some y =>
      simp only [agree, hb, hnb'] at hk
      rcases hk with hk | hk
      · simpa using hk
      · simp at hk
  · subst e
    have hb := aux_lookup_of_mem ndb (show (kv.1, kv.2) ∈ b from hm)
    have hk := h kv.1
    rw [hb] at hk ⊢
    have hnb' : L.isBot kv.2 = false := by simpa using hnb
    cases ha : a.lookup kv.1 with
    | none => simp [agree, ha, hnb'] at hk
    | some x =>
      simp only [agree, ha, hnb'] at hk
      rcases hk with hk | hk
      · simpa using hk
      · simp at hk

end Map
end HvGht
