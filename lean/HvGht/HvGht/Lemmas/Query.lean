/-
Helper lemmas (C08/C07): `contains`, `is_bot`, `prefix_iter`, `get`, the join bimorphisms
and `force` in terms of the rows of a trie.
-/
import HvGht.Lemmas.Trie

set_option linter.unusedSimpArgs false
set_option linter.unusedVariables false
set_option linter.unnecessarySeqFocus false

namespace HvGht
open List

theorem aux_contains_iff (sk : Kind) (n d : Nat) (t : Ght n) (row : Row) (h : Wf sk n d t) :
    gcontains n d t row = true ↔ row ∈ grows n t := by
  induction n generalizing d with
  | zero => simp [gcontains, grows]
  | succ n ih =>
    simp only [gcontains]
    rw [aux_mem_grows_succ h]
    cases hl : t.kids.lookup (headAt d row) with
    | none => simp
    | some c => simpa using ih _ c (aux_wf_child h hl).1

theorem aux_isBot_iff (n : Nat) (t : Ght n) : gisBot n t = true ↔ grows n t = [] := by
  induction n with
  | zero => simp [gisBot, grows]
  | succ n ih =>
    simp only [gisBot, aux_grows_succ, lrows, List.all_eq_true, List.flatMap_eq_nil_iff]
    constructor
    · intro h kc hkc; exact (ih kc.2).mp (h kc hkc)
    · intro h kc hkc; exact (ih kc.2).mpr (h kc hkc)

/-- filtering one level when only the child under `h` can pass the filter -/
theorem aux_filter_lrows_lookup {α : Type} (R : α → List Row) (P : Row → Bool) (h : Key)
    (cs : List (Key × α)) (nd : (keysOf cs).Nodup)
    (hne : ∀ kc ∈ cs, kc.1 ≠ h → ∀ r ∈ R kc.2, P r = false) :
    (lrows R cs).filter P = (match cs.lookup h with | some c => (R c).filter P | none => []) := by
  induction cs with
  | nil => simp [lrows]
  | cons kc cs ih =>
    obtain ⟨k0, c0⟩ := kc
    simp only [keysOf, List.map_cons, List.nodup_cons] at nd
    rw [aux_lrows_cons, List.filter_append, aux_lookup_cons]
    have ih' := ih nd.2 (fun kc hkc => hne kc (List.mem_cons_of_mem _ hkc))
    by_cases hk : h = k0
    · subst hk
      have : cs.lookup h = none := aux_lookup_none.mpr nd.1
      rw [this] at ih'
      simp [ih']
    · have h0 : (R c0).filter P = [] := by
        rw [List.filter_eq_nil_iff]
        intro r hr; simpa using hne (k0, c0) List.mem_cons_self (fun e => hk e.symm) r hr
      simp [hk, h0, ih']

theorem aux_headAt_drop (d : Nat) (r : Row) (h : d < r.length) :
    r.drop d = headAt d r :: r.drop (d + 1) := by
  rw [List.drop_eq_getElem_cons h]
  simp [headAt, List.getD_eq_getElem?_getD, h]

theorem aux_prefix_eq_filter (sk : Kind) (n d : Nat) (t : Ght n) (p : List Key) (h : Wf sk n d t)
    (hlen : ∀ r ∈ grows n t, d + n ≤ r.length) :
    gprefixIter n d t p = (grows n t).filter (fun r => decide ((r.drop d).take p.length = p)) := by
  induction n generalizing d p with
  | zero => simp [gprefixIter, grows]
  | succ n ih =>
    cases p with
    | nil => simp [gprefixIter]
    | cons hd p =>
      simp only [gprefixIter]
      rw [aux_grows_succ]
      have key : ∀ kc ∈ t.kids, ∀ r ∈ grows n kc.2,
          decide ((r.drop d).take (p.length + 1) = hd :: p) =
            (decide (kc.1 = hd) && decide ((r.drop (d + 1)).take p.length = p)) := by
        intro kc hkc r hr
        have hr' : r ∈ grows (n + 1) t := aux_mem_lrows.mpr ⟨kc, hkc, hr⟩
        have hl := hlen r hr'
        have hh := (h.2 kc hkc).2 r hr
        rw [aux_headAt_drop d r (by omega), List.take_succ_cons, hh]
        simp [List.cons.injEq]
      rw [aux_filter_lrows_lookup (grows n) _ hd t.kids h.1]
      · cases hl : t.kids.lookup hd with
        | none => simp
        | some c =>
          have hc := aux_wf_child h hl
          have hmem := aux_lookup_mem hl
          simp only
          rw [ih (d + 1) c p hc.1 (fun r hr => by
            have := hlen r (aux_mem_lrows.mpr ⟨(hd, c), hmem, hr⟩); omega)]
          apply List.filter_congr
          intro r hr
          have := key (hd, c) hmem r hr
          simp only [List.length_cons] at this ⊢
          rw [this]; simp
      · intro kc hkc hne r hr
        have := key kc hkc r hr
        simp only [List.length_cons]
        rw [this]; simp [hne]

/-- `GhtGet::get` returns exactly the rows whose column `d` is the head -/
theorem aux_get_rows (sk : Kind) (n d : Nat) (t : Ght (n + 1)) (hd : Key) (h : Wf sk (n + 1) d t) :
    (match gget t hd with | some c => grows n c | none => []) =
      (grows (n + 1) t).filter (fun r => decide (headAt d r = hd)) := by
  rw [aux_grows_succ, aux_filter_lrows_lookup (grows n) _ hd t.kids h.1]
  · unfold gget
    cases hl : t.kids.lookup hd with
    | none => rfl
    | some c =>
      simp only
      symm; rw [List.filter_eq_self]
      intro r hr; simpa using (aux_wf_child h hl).2 r hr
  · intro kc hkc hne r hr
    have := (h.2 kc hkc).2 r hr
    simp [this, hne]

/-! ### joins -/

theorem aux_mem_stCollect (sk : Kind) (xs : List Row) (x : Row) : x ∈ stCollect sk xs ↔ x ∈ xs := by
  simp [stCollect, aux_stExtend_mem]

theorem aux_mem_valRows (k : Nat) (ra rb : List Row) (x : Row) :
    x ∈ valRows k ra rb ↔ ∃ a ∈ ra, ∃ b ∈ rb, x = a ++ b.drop k := by
  simp only [valRows, List.mem_flatMap, List.mem_map]
  constructor
  · rintro ⟨a, ha, b, hb, e⟩; exact ⟨a, ha, b, hb, e.symm⟩
  · rintro ⟨a, ha, b, hb, e⟩; exact ⟨a, ha, b, hb, e.symm⟩

theorem aux_mem_deepJoin (sk ska skb : Kind) (k n d : Nat) (a b : Ght n)
    (ha : Wf ska n d a) (hb : Wf skb n d b) (x : Row) :
    x ∈ grows n (deepJoin sk k n a b) ↔
      ∃ ra ∈ grows n a, ∃ rb ∈ grows n b,
        (∀ i, d ≤ i → i < d + n → headAt i ra = headAt i rb) ∧ x = ra ++ rb.drop k := by
  induction n generalizing d x with
  | zero =>
    simp only [deepJoin, valProduct, grows, Leaf.fromIter, aux_mem_stCollect, aux_mem_valRows]
    constructor
    · rintro ⟨ra, hra, rb, hrb, e⟩; exact ⟨ra, hra, rb, hrb, by intro i h1 h2; omega, e⟩
    · rintro ⟨ra, hra, rb, hrb, _, e⟩; exact ⟨ra, hra, rb, hrb, e⟩
  | succ n ih =>
    simp only [deepJoin]
    have nd := aux_keyedJoin_nodup (deepJoin sk k n) a.kids b.kids hb.1
    rw [aux_grows_succ, aux_mem_lrows_lookup nd]
    constructor
    · rintro ⟨key, c, hl, hx⟩
      rw [aux_keyedJoin_lookup _ _ _ hb.1] at hl
      cases hla : a.kids.lookup key with
      | none => simp [hla] at hl
      | some va =>
        cases hlb : b.kids.lookup key with
        | none => simp [hla, hlb] at hl
        | some vb =>
          simp only [hla, hlb, Option.some.injEq] at hl
          subst hl
          have hva := aux_wf_child ha hla
          have hvb := aux_wf_child hb hlb
          obtain ⟨ra, hra, rb, hrb, hcond, e⟩ := (ih (d + 1) va vb hva.1 hvb.1 x).mp hx
          refine ⟨ra, aux_mem_lrows.mpr ⟨(key, va), aux_lookup_mem hla, hra⟩,
                  rb, aux_mem_lrows.mpr ⟨(key, vb), aux_lookup_mem hlb, hrb⟩, ?_, e⟩
          intro i h1 h2
          by_cases hi : i = d
          · subst hi; rw [hva.2 ra hra, hvb.2 rb hrb]
          · exact hcond i (by omega) (by omega)
    · rintro ⟨ra, hra, rb, hrb, hcond, e⟩
      obtain ⟨va, hla, hra'⟩ := (aux_mem_grows_succ ha).mp hra
      obtain ⟨vb, hlb, hrb'⟩ := (aux_mem_grows_succ hb).mp hrb
      have hd : headAt d ra = headAt d rb := hcond d (Nat.le_refl _) (by omega)
      rw [← hd] at hlb
      refine ⟨headAt d ra, deepJoin sk k n va vb, ?_, ?_⟩
      · rw [aux_keyedJoin_lookup _ _ _ hb.1]; simp [hla, hlb]
      · have hva := aux_wf_child ha hla
        have hvb := aux_wf_child hb hlb
        exact (ih (d + 1) va vb hva.1 hvb.1 x).mpr
          ⟨ra, hra', rb, hrb', fun i h1 h2 => hcond i (by omega) (by omega), e⟩

/-- agreeing on the first `n` columns, in terms of `take` -/
theorem aux_take_eq_iff (n : Nat) (ra rb : Row) (ha : n ≤ ra.length) (hb : n ≤ rb.length) :
    ra.take n = rb.take n ↔ ∀ i, i < n → headAt i ra = headAt i rb := by
  constructor
  · intro h i hi
    have h1 : (ra.take n)[i]? = (rb.take n)[i]? := by rw [h]
    simp only [List.getElem?_take, hi, if_true] at h1
    simp [headAt, List.getD_eq_getElem?_getD, h1]
  · intro h
    apply List.ext_getElem?
    intro i
    simp only [List.getElem?_take]
    by_cases hi : i < n
    · have := h i hi
      simp only [headAt, List.getD_eq_getElem?_getD] at this
      have h1 : i < ra.length := by omega
      have h2 : i < rb.length := by omega
      simp only [hi, if_true, List.getElem?_eq_getElem h1, List.getElem?_eq_getElem h2,
        Option.getD_some] at this ⊢
      rw [this]
    · simp [hi]

theorem aux_mem_cartRows (da db : Nat) (ra rb : List Row) (x : Row) :
    x ∈ cartRows da db ra rb ↔ ∃ a ∈ ra, ∃ b ∈ rb, x = a.drop da ++ b.drop db := by
  simp only [cartRows, List.mem_flatMap, List.mem_map]
  constructor
  · rintro ⟨a, ha, b, hb, e⟩; exact ⟨a, ha, b, hb, e.symm⟩
  · rintro ⟨a, ha, b, hb, e⟩; exact ⟨a, ha, b, hb, e.symm⟩

theorem aux_mem_gfromIter (sk : Kind) (n d : Nat) (xs : List Row) (x : Row) :
    x ∈ grows n (gfromIter sk n d xs) ↔ x ∈ xs := by
  cases n with
  | zero => simp [gfromIter, grows, Leaf.fromIter, aux_mem_stCollect]
  | succ n =>
    simp only [gfromIter, gnewFrom]
    have := (aux_newFrom_spec sk (n + 1) d xs (gempty (n + 1)) (aux_wf_empty sk (n + 1) d)).2 x
    simpa [aux_grows_empty] using this

theorem aux_wf_gfromIter (sk : Kind) (n d : Nat) (xs : List Row) : Wf sk n d (gfromIter sk n d xs) := by
  cases n with
  | zero =>
    intro e; subst e
    simp only [gfromIter, Leaf.fromIter, stCollect]
    exact aux_stExtend_nodup _ _ List.nodup_nil
  | succ n =>
    simp only [gfromIter, gnewFrom]
    exact (aux_newFrom_spec sk (n + 1) d xs (gempty (n + 1)) (aux_wf_empty sk (n + 1) d)).1

end HvGht
