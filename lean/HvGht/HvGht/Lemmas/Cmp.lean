/-
Helper lemmas (C08): `PartialOrd for GhtInner` against the inclusion order of the rows.
-/
import HvGht.Lemmas.Compare

set_option linter.unusedSimpArgs false
set_option linter.unusedVariables false
set_option linter.unnecessarySeqFocus false

namespace HvGht
open List

/-! ### `cmpSpec` -/

theorem aux_cmpSpec_le (X Y : List Row) :
    (cmpSpec X Y = some .lt ∨ cmpSpec X Y = some .eq) ↔ ∀ x ∈ X, x ∈ Y := by
  unfold cmpSpec
  by_cases h1 : ∀ x ∈ X, x ∈ Y
  · by_cases h2 : ∀ x ∈ Y, x ∈ X
    · rw [if_pos h1, if_pos h2]; exact ⟨fun _ => h1, fun _ => Or.inr rfl⟩
    · rw [if_pos h1, if_neg h2]; exact ⟨fun _ => h1, fun _ => Or.inl rfl⟩
  · by_cases h2 : ∀ x ∈ Y, x ∈ X
    · rw [if_neg h1, if_pos h2]
      exact ⟨fun h => (by rcases h with h | h <;> cases h), fun h => absurd h h1⟩
    · rw [if_neg h1, if_neg h2]
      exact ⟨fun h => (by rcases h with h | h <;> cases h), fun h => absurd h h1⟩

theorem aux_cmpSpec_ge (X Y : List Row) :
    (cmpSpec X Y = some .gt ∨ cmpSpec X Y = some .eq) ↔ ∀ x ∈ Y, x ∈ X := by
  unfold cmpSpec
  by_cases h1 : ∀ x ∈ X, x ∈ Y
  · by_cases h2 : ∀ x ∈ Y, x ∈ X
    · rw [if_pos h1, if_pos h2]; exact ⟨fun _ => h2, fun _ => Or.inr rfl⟩
    · rw [if_pos h1, if_neg h2]
      exact ⟨fun h => (by rcases h with h | h <;> cases h), fun h => absurd h h2⟩
  · by_cases h2 : ∀ x ∈ Y, x ∈ X
    · rw [if_neg h1, if_pos h2]; exact ⟨fun _ => h2, fun _ => Or.inl rfl⟩
    · rw [if_neg h1, if_neg h2]
      exact ⟨fun h => (by rcases h with h | h <;> cases h), fun h => absurd h h2⟩

/-! ### the loop -/

section Level
variable {α : Type}

/-- what the loop body sees for one key -/
def keyCmp (ccmp : α → α → Option Ordering) (a b : List (Key × α)) (k : Key) : Option Ordering :=
  match a.lookup k, b.lookup k with
  | some x, some y => ccmp x y
  | some _, none => some .gt
  | none, some _ => some .lt
  | none, none => some .eq

theorem aux_cmpLoop (ccmp : α → α → Option Ordering) (a b : List (Key × α)) (ks : List Key) (sg og : Bool) :
    cmpLoop ccmp a b ks (sg, og) =
      if ks.any (fun k => decide (keyCmp ccmp a b k = none)) then none
      else some (sg || ks.any (fun k => decide (keyCmp ccmp a b k = some .gt)),
                 og || ks.any (fun k => decide (keyCmp ccmp a b k = some .lt))) := by
  induction ks generalizing sg og with
  | nil => simp [cmpLoop]
  | cons k ks ih =>
    unfold cmpLoop
    cases hla : a.lookup k with
    | none =>
      cases hlb : b.lookup k with
      | none =>
        have hk : keyCmp ccmp a b k = some .eq := by simp [keyCmp, hla, hlb]
        simp only [ih, List.any_cons, hk]; simp
      | some y =>
        have hk : keyCmp ccmp a b k = some .lt := by simp [keyCmp, hla, hlb]
        simp only [ih, List.any_cons, hk]; simp
    | some x =>
      cases hlb : b.lookup k with
      | none =>
        have hk : keyCmp ccmp a b k = some .gt := by simp [keyCmp, hla, hlb]
        simp only [ih, List.any_cons, hk]; simp
      | some y =>
        have hk : keyCmp ccmp a b k = ccmp x y := by simp [keyCmp, hla, hlb]
        cases hc : ccmp x y with
        | none => simp only [List.any_cons, hk, hc]; simp
        | some o =>
          cases o <;> simp only [ih, List.any_cons, hk, hc] <;> simp

/-- one level of `partial_cmp`, against the rows -/
theorem aux_innerCmp_spec (R : α → List Row) (head : Row → Key) (ccmp : α → α → Option Ordering)
    (a b : List (Key × α)) (nda : (keysOf a).Nodup) (ndb : (keysOf b).Nodup)
    (ha : ∀ k c, a.lookup k = some c → (∀ r ∈ R c, head r = k) ∧ R c ≠ [])
    (hb : ∀ k c, b.lookup k = some c → (∀ r ∈ R c, head r = k) ∧ R c ≠ [])
    (hc : ∀ k x y, a.lookup k = some x → b.lookup k = some y → ccmp x y = cmpSpec (R x) (R y)) :
    innerCmpCore ccmp a b = cmpSpec (lrows R a) (lrows R b) := by
  -- rows of a level, by key
  have memA : ∀ r, r ∈ lrows R a ↔ ∃ k c, a.lookup k = some c ∧ r ∈ R c := fun r => aux_mem_lrows_lookup nda
  have memB : ∀ r, r ∈ lrows R b ↔ ∃ k c, b.lookup k = some c ∧ r ∈ R c := fun r => aux_mem_lrows_lookup ndb
  -- a row of `a` under key `k` can only be found in `b` under key `k`
  have findB : ∀ k x r, a.lookup k = some x → r ∈ R x → r ∈ lrows R b → ∃ y, b.lookup k = some y ∧ r ∈ R y := by
    intro k x r hl hr hrb
    obtain ⟨k', y, hl', hr'⟩ := (memB r).mp hrb
    have : k' = k := by rw [← (hb k' y hl').1 r hr', (ha k x hl).1 r hr]
    subst this; exact ⟨y, hl', hr'⟩
  have findA : ∀ k y r, b.lookup k = some y → r ∈ R y → r ∈ lrows R a → ∃ x, a.lookup k = some x ∧ r ∈ R x := by
    intro k y r hl hr hra
    obtain ⟨k', x, hl', hr'⟩ := (memA r).mp hra
    have : k' = k := by rw [← (ha k' x hl').1 r hr', (hb k y hl).1 r hr]
    subst this; exact ⟨x, hl', hr'⟩
  let ks := a.map (·.1) ++ b.map (·.1)
  have inA : ∀ k x, a.lookup k = some x → k ∈ ks := by
    intro k x hl
    exact List.mem_append_left _ (aux_lookup_isSome.mp (by simp [hl]))
  have inB : ∀ k y, b.lookup k = some y → k ∈ ks := by
    intro k y hl
    exact List.mem_append_right _ (aux_lookup_isSome.mp (by simp [hl]))
  -- inclusion of the row sets, key by key
  have L1 : (∀ r ∈ lrows R a, r ∈ lrows R b) ↔
      ∀ k ∈ ks, keyCmp ccmp a b k = some .lt ∨ keyCmp ccmp a b k = some .eq := by
    constructor
    · intro hsub k _
      cases hla : a.lookup k with
      | none => cases hlb : b.lookup k <;> simp [keyCmp, hla, hlb]
      | some x =>
        cases hlb : b.lookup k with
        | none =>
          obtain ⟨r, hr⟩ := List.exists_mem_of_ne_nil _ (ha k x hla).2
          obtain ⟨y, hy, _⟩ := findB k x r hla hr (hsub r ((memA r).mpr ⟨k, x, hla, hr⟩))
          rw [hlb] at hy; cases hy
        | some y =>
          have : keyCmp ccmp a b k = cmpSpec (R x) (R y) := by simp [keyCmp, hla, hlb, hc k x y hla hlb]
          rw [this, aux_cmpSpec_le]
          intro r hr
          obtain ⟨y', hy', hr'⟩ := findB k x r hla hr (hsub r ((memA r).mpr ⟨k, x, hla, hr⟩))
          rw [hlb] at hy'; cases hy'; exact hr'
    · intro hall r hr
      obtain ⟨k, x, hla, hrx⟩ := (memA r).mp hr
      have hk := hall k (inA k x hla)
      cases hlb : b.lookup k with
      | none => simp [keyCmp, hla, hlb] at hk
      | some y =>
        have : keyCmp ccmp a b k = cmpSpec (R x) (R y) := by simp [keyCmp, hla, hlb, hc k x y hla hlb]
        rw [this, aux_cmpSpec_le] at hk
        exact (memB r).mpr ⟨k, y, hlb, hk r hrx⟩
  have L2 : (∀ r ∈ lrows R b, r ∈ lrows R a) ↔
      ∀ k ∈ ks, keyCmp ccmp a b k = some .gt ∨ keyCmp ccmp a b k = some .eq := by
    constructor
    · intro hsub k _
      cases hlb : b.lookup k with
      | none => cases hla : a.lookup k <;> simp [keyCmp, hla, hlb]
      | some y =>
        cases hla : a.lookup k with
        | none =>
          obtain ⟨r, hr⟩ := List.exists_mem_of_ne_nil _ (hb k y hlb).2
          obtain ⟨x, hx, _⟩ := findA k y r hlb hr (hsub r ((memB r).mpr ⟨k, y, hlb, hr⟩))
          rw [hla] at hx; cases hx
        | some x =>
          have : keyCmp ccmp a b k = cmpSpec (R x) (R y) := by simp [keyCmp, hla, hlb, hc k x y hla hlb]
          rw [this, aux_cmpSpec_ge]
          intro r hr
          obtain ⟨x', hx', hr'⟩ := findA k y r hlb hr (hsub r ((memB r).mpr ⟨k, y, hlb, hr⟩))
          rw [hla] at hx'; cases hx'; exact hr'
    · intro hall r hr
      obtain ⟨k, y, hlb, hry⟩ := (memB r).mp hr
      have hk := hall k (inB k y hlb)
      cases hla : a.lookup k with
      | none => simp [keyCmp, hla, hlb] at hk
      | some x =>
        have : keyCmp ccmp a b k = cmpSpec (R x) (R y) := by simp [keyCmp, hla, hlb, hc k x y hla hlb]
        rw [this, aux_cmpSpec_ge] at hk
        exact (memA r).mpr ⟨k, x, hla, hk r hry⟩
  -- the flags of the loop, as statements about every key
  have flagsLE : (∀ k ∈ ks, keyCmp ccmp a b k = some .lt ∨ keyCmp ccmp a b k = some .eq) ↔
      ks.any (fun k => decide (keyCmp ccmp a b k = none)) = false ∧
      ks.any (fun k => decide (keyCmp ccmp a b k = some .gt)) = false := by
    simp only [List.any_eq_false, decide_eq_true_eq]
    constructor
    · intro h; exact ⟨fun k hk e => by rcases h k hk with h | h <;> simp [e] at h,
                       fun k hk e => by rcases h k hk with h | h <;> simp [e] at h⟩
    · rintro ⟨h1, h2⟩ k hk
      have n1 := h1 k hk; have n2 := h2 k hk
      cases hv : keyCmp ccmp a b k with
      | none => exact absurd hv n1
      | some o => cases o <;> simp_all
  have flagsGE : (∀ k ∈ ks, keyCmp ccmp a b k = some .gt ∨ keyCmp ccmp a b k = some .eq) ↔
      ks.any (fun k => decide (keyCmp ccmp a b k = none)) = false ∧
      ks.any (fun k => decide (keyCmp ccmp a b k = some .lt)) = false := by
    simp only [List.any_eq_false, decide_eq_true_eq]
    constructor
    · intro h; exact ⟨fun k hk e => by rcases h k hk with h | h <;> simp [e] at h,
                       fun k hk e => by rcases h k hk with h | h <;> simp [e] at h⟩
    · rintro ⟨h1, h2⟩ k hk
      have n1 := h1 k hk; have n2 := h2 k hk
      cases hv : keyCmp ccmp a b k with
      | none => exact absurd hv n1
      | some o => cases o <;> simp_all
  rw [← L1] at flagsLE
  rw [← L2] at flagsGE
  unfold innerCmpCore
  by_cases hemp : (a.isEmpty && b.isEmpty) = true
  · have ea : a = [] := by simpa using (Bool.and_eq_true_iff.mp hemp).1
    have eb : b = [] := by simpa using (Bool.and_eq_true_iff.mp hemp).2
    subst ea; subst eb
    simp [cmpSpec, lrows]
  · rw [if_neg hemp, aux_cmpLoop]
    show (match (if ks.any (fun k => decide (keyCmp ccmp a b k = none)) = true then none
        else some (false || ks.any (fun k => decide (keyCmp ccmp a b k = some .gt)),
                   false || ks.any (fun k => decide (keyCmp ccmp a b k = some .lt)))) with
      | none => none
      | some (true, false) => some Ordering.gt
      | some (false, true) => some Ordering.lt
      | some (false, false) => some Ordering.eq
      | some (true, true) => none) = cmpSpec (lrows R a) (lrows R b)
    cases hN : ks.any (fun k => decide (keyCmp ccmp a b k = none)) with
    | true =>
      have nAB : ¬ ∀ r ∈ lrows R a, r ∈ lrows R b := fun h => by
        have := (flagsLE.mp h).1; rw [hN] at this; cases this
      have nBA : ¬ ∀ r ∈ lrows R b, r ∈ lrows R a := fun h => by
        have := (flagsGE.mp h).1; rw [hN] at this; cases this
      simp only [if_true, cmpSpec, if_neg nAB, if_neg nBA]
    | false =>
      rw [hN] at flagsLE flagsGE
      cases hG : ks.any (fun k => decide (keyCmp ccmp a b k = some .gt)) <;>
      cases hL : ks.any (fun k => decide (keyCmp ccmp a b k = some .lt)) <;>
      rw [hG] at flagsLE <;> rw [hL] at flagsGE <;>
      simp only [Bool.false_eq_true, if_false, Bool.false_or, cmpSpec]
      · rw [if_pos (flagsLE.mpr ⟨rfl, rfl⟩), if_pos (flagsGE.mpr ⟨rfl, rfl⟩)]
      · rw [if_pos (flagsLE.mpr ⟨rfl, rfl⟩), if_neg (fun h => by have := (flagsGE.mp h).2; cases this)]
      · rw [if_neg (fun h => by have := (flagsLE.mp h).2; cases this), if_pos (flagsGE.mpr ⟨rfl, rfl⟩)]
      · rw [if_neg (fun h => by have := (flagsLE.mp h).2; cases this),
            if_neg (fun h => by have := (flagsGE.mp h).2; cases this)]

end Level

theorem aux_gcmp_spec (n d : Nat) (a b : Ght n) (wa : Wf .set n d a) (wb : Wf .set n d b) :
    gcmp n a b = cmpSpec (grows n a) (grows n b) := by
  induction n generalizing d with
  | zero =>
    simp only [gcmp, grows]
    exact aux_leaf_cmp _ _ (wa rfl) (wb rfl)
  | succ n ih =>
    simp only [gcmp, aux_grows_succ, innerCmp]
    rw [aux_innerCmp_spec (grows n) (headAt d) (gcmp n) _ _
      (aux_liveKids_nodup _ _ wa.1) (aux_liveKids_nodup _ _ wb.1)
      (fun k c hl => by
        obtain ⟨hm, hne⟩ := aux_liveKids_lookup (grows n) _ (aux_hasRows n) _ hl
        exact ⟨(wa.2 _ hm).2, hne⟩)
      (fun k c hl => by
        obtain ⟨hm, hne⟩ := aux_liveKids_lookup (grows n) _ (aux_hasRows n) _ hl
        exact ⟨(wb.2 _ hm).2, hne⟩)
      (fun k x y hx hy => by
        obtain ⟨hmx, _⟩ := aux_liveKids_lookup (grows n) _ (aux_hasRows n) _ hx
        obtain ⟨hmy, _⟩ := aux_liveKids_lookup (grows n) _ (aux_hasRows n) _ hy
        exact ih (d + 1) x y (wa.2 _ hmx).1 (wb.2 _ hmy).1)]
    unfold cmpSpec
    simp only [aux_mem_lrows_liveKids (grows n) _ (aux_hasRows n)]

end HvGht
