/-
Helper lemmas (C08): the COLT forest — `ColtGet::get` moves rows between the tries of the
forest but never loses or duplicates one (column-multiset storage: statements are `Perm`).
-/
import HvGht.Lemmas.Trie

set_option linter.unusedSimpArgs false
set_option linter.unusedVariables false
set_option linter.unnecessarySeqFocus false

namespace HvGht
open List

/-! ### multiset versions of insert / merge for the multiset storages -/

theorem aux_stExtend_bag (xs rows : List Row) : stExtend .bag rows xs = rows ++ xs := by
  induction xs generalizing rows with
  | nil => simp [stExtend]
  | cons x xs ih =>
    simp only [stExtend, List.foldl_cons, stInsert] at ih ⊢
    rw [ih]; simp

theorem aux_upsert_perm_rows {α β : Type} (R : α → List Row) (k : Key) (d : α) (f : α → α × β)
    (row : Row) (hd : R d = []) (hf : ∀ c, (R (f c).1).Perm (row :: R c))
    (cs : List (Key × α)) :
    (lrows R (upsert k d f cs).1).Perm (row :: lrows R cs) := by
  induction cs with
  | nil =>
    simp only [upsert, lrows, List.flatMap_cons, List.flatMap_nil, List.append_nil]
    have := hf d; rw [hd] at this; exact this
  | cons kc cs ih =>
    obtain ⟨k0, c0⟩ := kc
    unfold upsert
    by_cases h0 : k0 = k
    · simp only [h0, if_true, aux_lrows_cons]
      exact (List.Perm.append_right _ (hf c0)).trans (by simp)
    · simp only [h0, if_false, aux_lrows_cons]
      exact (List.Perm.append_left _ ih).trans List.perm_middle

theorem aux_insert_bag_perm (n d : Nat) (t : Ght n) (row : Row) :
    (grows n (ginsert .bag n d t row).1).Perm (row :: grows n t) := by
  induction n generalizing d with
  | zero =>
    simp only [ginsert, grows, Leaf.insert, stInsert]
    exact List.perm_append_singleton _ _
  | succ n ih =>
    simp only [ginsert, aux_grows_succ]
    exact aux_upsert_perm_rows (grows n) _ _ _ row (aux_grows_empty n) (fun c => ih (d + 1) c) _

theorem aux_newFrom_bag_perm (n d : Nat) (xs : List Row) (t0 : Ght n) :
    (grows n (xs.foldl (fun t r => (ginsert .bag n d t r).1) t0)).Perm (grows n t0 ++ xs) := by
  induction xs generalizing t0 with
  | nil => simp
  | cons r xs ih =>
    simp only [List.foldl_cons]
    refine (ih _).trans ?_
    refine (List.Perm.append_right _ (aux_insert_bag_perm n d t0 r)).trans ?_
    simp only [List.cons_append]
    exact List.perm_middle.symm

theorem aux_mergeChild_perm_rows {α : Type} (R : α → List Row) (mn : α → α → α × Bool)
    (hm : ∀ a b, (R (mn a b).1).Perm (R a ++ R b)) (k : Key) (v : α) (cs : List (Key × α)) :
    (lrows R (mergeChild mn k v cs).1).Perm (lrows R cs ++ R v) := by
  induction cs with
  | nil => simp [mergeChild, lrows]
  | cons kc cs ih =>
    obtain ⟨k0, c0⟩ := kc
    unfold mergeChild
    by_cases h0 : k0 = k
    · simp only [h0, if_true, aux_lrows_cons]
      refine (List.Perm.append_right _ (hm c0 v)).trans ?_
      simp only [List.append_assoc]
      exact List.Perm.append_left _ List.perm_append_comm
    · simp only [h0, if_false, aux_lrows_cons, List.append_assoc]
      exact List.Perm.append_left _ ih

theorem aux_mergeLoop_perm_rows {α : Type} (R : α → List Row) (mn : α → α → α × Bool)
    (hm : ∀ a b, (R (mn a b).1).Perm (R a ++ R b)) (other self : List (Key × α)) (fl : Bool) :
    (lrows R (mergeLoop mn other (self, fl)).1).Perm (lrows R self ++ lrows R other) := by
  induction other generalizing self fl with
  | nil => simp [mergeLoop, lrows]
  | cons kv other ih =>
    rw [aux_mergeLoop_cons, aux_lrows_cons]
    refine (ih _ _).trans ?_
    refine (List.Perm.append_right _ (aux_mergeChild_perm_rows R mn hm _ _ _)).trans ?_
    simp [List.append_assoc]

theorem aux_merge_bag_perm (n : Nat) (a b : Ght n) :
    (grows n (gmerge .bag n a b).1).Perm (grows n a ++ grows n b) := by
  induction n with
  | zero => simp [gmerge, grows, Leaf.mergeNode, aux_stExtend_bag]
  | succ n ih =>
    simp only [gmerge, aux_grows_succ, aux_innerMerge_eq]
    exact aux_mergeLoop_perm_rows (grows n) (gmerge .bag n) ih _ _ _

/-! ### updates along a path -/

theorem aux_modChild_lookup_none {α : Type} (k : Key) (f : α → α) (cs : List (Key × α))
    (h : cs.lookup k = none) : modChild k f cs = cs := by
  induction cs with
  | nil => rfl
  | cons kc cs ih =>
    obtain ⟨k0, c0⟩ := kc
    rw [aux_lookup_cons] at h
    unfold modChild
    by_cases h0 : k = k0
    · simp [h0] at h
    · have h0' : ¬ k0 = k := fun e => h0 e.symm
      simp only [h0, if_false] at h
      simp [h0', ih h]

/-- rows after modifying the child under `k`, when that changes the child's rows from
`R c ++ X` to `R (f c) ++ Y` (as multisets) -/
theorem aux_modChild_perm {α : Type} (R : α → List Row) (k : Key) (f : α → α) (X Y : List Row)
    (cs : List (Key × α)) (c : α) (hl : cs.lookup k = some c)
    (hf : (R (f c) ++ X).Perm (R c ++ Y)) :
    (lrows R (modChild k f cs) ++ X).Perm (lrows R cs ++ Y) := by
  induction cs with
  | nil => simp at hl
  | cons kc cs ih =>
    obtain ⟨k0, c0⟩ := kc
    rw [aux_lookup_cons] at hl
    unfold modChild
    by_cases h0 : k = k0
    · subst h0
      simp only [if_true, Option.some.injEq] at hl; subst hl
      simp only [if_true, aux_lrows_cons, List.append_assoc]
      -- R (f c) ++ (rest ++ X)  ~  R c ++ (rest ++ Y)
      refine (List.Perm.append_left _ List.perm_append_comm).trans ?_
      rw [← List.append_assoc]
      refine (List.Perm.append_right _ hf).trans ?_
      rw [List.append_assoc]
      exact List.Perm.append_left _ List.perm_append_comm
    · have h0' : ¬ k0 = k := fun e => h0 e.symm
      simp only [h0, if_false] at hl
      simp only [h0', if_false, aux_lrows_cons, List.append_assoc]
      exact List.Perm.append_left _ (ih hl)

/-- an update that does not touch the rows of any node does not touch the rows of the trie -/
theorem aux_modAt_rows_eq (f : (j : Nat) → Ght j → Ght j) (hf : ∀ j t, grows j (f j t) = grows j t)
    (n : Nat) (p : List Key) (t : Ght n) : (grows n (modAt f n p t)).Perm (grows n t) := by
  induction n generalizing p with
  | zero => cases p <;> simp [modAt, hf]
  | succ n ih =>
    cases p with
    | nil => simp [modAt, hf]
    | cons k p =>
      simp only [modAt, aux_grows_succ]
      cases hl : t.kids.lookup k with
      | none => rw [aux_modChild_lookup_none k _ _ hl]
      | some c =>
        have := aux_modChild_perm (grows n) k (modAt f n p) [] [] t.kids c hl (by simpa using ih p c)
        simpa using this

theorem aux_ensureF_rows (h : Key) (j : Nat) (t : Ght j) : grows j (ensureF h j t) = grows j t := by
  cases j with
  | zero => rfl
  | succ j =>
    simp only [ensureF, aux_grows_succ]
    generalize t.kids = cs
    induction cs with
    | nil => simp [upsert, lrows, aux_grows_empty]
    | cons kc cs ih =>
      obtain ⟨k0, c0⟩ := kc
      unfold upsert
      by_cases h0 : k0 = h
      · simp [h0, aux_lrows_cons]
      · simp only [h0, if_false, aux_lrows_cons, ih]

/-- draining the leaf at `p` removes exactly its tuples -/
theorem aux_modAt_drain (n : Nat) (p : List Key) (t : Ght n) :
    (grows n (modAt drainF n p t) ++ leafRowsAt n p t).Perm (grows n t) := by
  induction n generalizing p with
  | zero => cases p <;> simp [modAt, drainF, leafRowsAt, grows]
  | succ n ih =>
    cases p with
    | nil => simp [modAt, drainF, leafRowsAt]
    | cons k p =>
      simp only [modAt, leafRowsAt, aux_grows_succ]
      cases hl : t.kids.lookup k with
      | none => rw [aux_modChild_lookup_none k _ _ hl]; simp
      | some c =>
        have := aux_modChild_perm (grows n) k (modAt drainF n p) (leafRowsAt n p c) [] t.kids c hl
          (by simpa using ih p c)
        simpa using this

/-- merging `forced` into the height-1 node at `p` adds exactly its rows -/
theorem aux_modAt_merge (forced : Ght 1) (n : Nat) (p : List Key) (t : Ght n)
    (hn : n = p.length + 1) (hex : (nodeAt n p t).isSome = true) :
    (grows n (modAt (mergeF .bag forced) n p t)).Perm (grows n t ++ grows 1 forced) := by
  induction n generalizing p with
  | zero => omega
  | succ n ih =>
    cases p with
    | nil =>
      simp only [List.length_nil] at hn
      have : n = 0 := by omega
      subst this
      simp only [modAt, mergeF]
      exact aux_merge_bag_perm 1 t forced
    | cons k p =>
      simp only [modAt, aux_grows_succ]
      simp only [nodeAt] at hex
      cases hl : t.kids.lookup k with
      | none => simp [hl] at hex
      | some c =>
        simp only [hl, Option.bind_some] at hex
        have hc := ih p c (by simpa using hn) hex
        have := aux_modChild_perm (grows n) k (modAt (mergeF .bag forced) n p) [] (grows 1 forced) t.kids c hl
          (by simpa using hc)
        simp only [List.append_nil] at this
        exact this

/-! ### existence of the cursor's nodes -/

theorem aux_modChild_lookup {α : Type} (k : Key) (f : α → α) (cs : List (Key × α)) (k' : Key) :
    (modChild k f cs).lookup k' = if k' = k then (cs.lookup k).map f else cs.lookup k' := by
  induction cs with
  | nil => simp [modChild]
  | cons kc cs ih =>
    obtain ⟨k0, c0⟩ := kc
    unfold modChild
    by_cases h0 : k0 = k
    · subst h0; simp only [if_true, aux_lookup_cons]
      by_cases hk : k' = k0 <;> simp [hk]
    · simp only [h0, if_false, aux_lookup_cons, ih]
      have h0' : k ≠ k0 := fun e => h0 e.symm
      by_cases hk : k' = k
      · subst hk; simp [h0']
      · simp [hk]

/-- a height-polymorphic update keeps the node at `p` in place -/
theorem aux_nodeAt_modAt (f : (j : Nat) → Ght j → Ght j) (n : Nat) (p : List Key) (t : Ght n)
    (h : (nodeAt n p t).isSome = true) : (nodeAt n p (modAt f n p t)).isSome = true := by
  induction n generalizing p with
  | zero => cases p <;> simp_all [nodeAt, modAt]
  | succ n ih =>
    cases p with
    | nil => simp [nodeAt, modAt]
    | cons k p =>
      simp only [nodeAt, modAt] at h ⊢
      rw [aux_modChild_lookup]
      cases hl : t.kids.lookup k with
      | none => simp [hl] at h
      | some c => simp only [hl, Option.bind_some, if_true, Option.map_some] at h ⊢; exact ih p c h

/-- after `entry(h).or_default()` at `p`, the node at `p ++ [h]` exists (in a trie tall enough) -/
theorem aux_nodeAt_ensure (h : Key) (n : Nat) (p : List Key) (t : Ght n) (hlen : p.length < n)
    (hex : (nodeAt n p t).isSome = true) :
    (nodeAt n (p ++ [h]) (modAt (ensureF h) n p t)).isSome = true := by
  induction n generalizing p with
  | zero => omega
  | succ n ih =>
    cases p with
    | nil =>
      simp only [List.nil_append, modAt, ensureF, nodeAt]
      rw [aux_upsert_lookup]
      simp [nodeAt]
    | cons k p =>
      simp only [List.cons_append, nodeAt, modAt] at hex ⊢
      rw [aux_modChild_lookup]
      cases hl : t.kids.lookup k with
      | none => simp [hl] at hex
      | some c =>
        simp only [hl, Option.bind_some, if_true, Option.map_some] at hex ⊢
        exact ih p c (by simpa using hlen) hex

/-! ### the forest -/

/-- rows of the tries of height `0 … k` -/
def rowsUpTo (F : Forest) : Nat → List Row
  | 0 => grows 0 (F.tries 0)
  | k + 1 => rowsUpTo F k ++ grows (k + 1) (F.tries (k + 1))

theorem aux_forest_rows (F : Forest) : F.rows = rowsUpTo F F.m := by
  unfold Forest.rows
  generalize F.m = m
  induction m with
  | zero => simp [rowsUpTo]
  | succ m ih => rw [List.range_succ, List.flatMap_append, ih]; simp [rowsUpTo]

/-- every trie taller than the cursor's depth has a node at the cursor's path -/
def Reach (F : Forest) (p : List Key) : Prop :=
  ∀ i, p.length < i → (nodeAt i p (F.tries i)).isSome = true

theorem aux_reach_root (F : Forest) : Reach F [] := by
  intro i _; cases i <;> simp [nodeAt]

section Step
variable (F : Forest) (p : List Key) (h : Key)

theorem aux_coltGet_lt (i : Nat) (hi : i < p.length) : (coltGet F p h).tries i = F.tries i := by
  unfold coltGet
  simp only
  rw [if_neg (by omega), if_neg (by omega), if_neg (by omega)]

theorem aux_coltGet_gt (i : Nat) (hi : p.length + 1 < i) :
    (coltGet F p h).tries i = modAt (ensureF h) i p (F.tries i) := by
  unfold coltGet
  simp only
  rw [if_neg (by omega), if_neg (by omega), if_pos hi]

theorem aux_coltGet_rows_lt (k : Nat) (hk : k < p.length) :
    rowsUpTo (coltGet F p h) k = rowsUpTo F k := by
  induction k with
  | zero => simp only [rowsUpTo]; rw [aux_coltGet_lt F p h 0 hk]
  | succ k ih =>
    simp only [rowsUpTo]
    rw [ih (by omega), aux_coltGet_lt F p h (k + 1) hk]

theorem aux_coltGet_rows_d :
    (rowsUpTo (coltGet F p h) p.length ++ leafRowsAt p.length p (F.tries p.length)).Perm
      (rowsUpTo F p.length) := by
  have hd : (coltGet F p h).tries p.length = modAt drainF p.length p (F.tries p.length) := by
    unfold coltGet; simp
  cases hlen : p.length with
  | zero =>
    rw [hlen] at hd
    simp only [rowsUpTo, hd]
    exact aux_modAt_drain 0 p (F.tries 0)
  | succ d =>
    rw [hlen] at hd
    simp only [rowsUpTo, hd]
    rw [aux_coltGet_rows_lt F p h d (by omega), List.append_assoc]
    exact List.Perm.append_left _ (aux_modAt_drain (d + 1) p (F.tries (d + 1)))

theorem aux_coltGet_rows_d1 (hr : Reach F p) :
    (rowsUpTo (coltGet F p h) (p.length + 1)).Perm (rowsUpTo F (p.length + 1)) := by
  have hd : (coltGet F p h).tries (p.length + 1) =
      modAt (ensureF h) (p.length + 1) p
        (modAt (mergeF .bag (gnewFrom .bag 1 p.length (leafRowsAt p.length p (F.tries p.length))))
          (p.length + 1) p (F.tries (p.length + 1))) := by
    unfold coltGet; simp
  simp only [rowsUpTo, hd]
  have h1 := aux_modAt_rows_eq (ensureF h) (aux_ensureF_rows h) (p.length + 1) p
    (modAt (mergeF .bag (gnewFrom .bag 1 p.length (leafRowsAt p.length p (F.tries p.length))))
          (p.length + 1) p (F.tries (p.length + 1)))
  have h2 := aux_modAt_merge (gnewFrom .bag 1 p.length (leafRowsAt p.length p (F.tries p.length)))
    (p.length + 1) p (F.tries (p.length + 1)) rfl (hr _ (by omega))
  have h3 : (grows 1 (gnewFrom .bag 1 p.length (leafRowsAt p.length p (F.tries p.length)))).Perm
      (leafRowsAt p.length p (F.tries p.length)) := by
    have := aux_newFrom_bag_perm 1 p.length (leafRowsAt p.length p (F.tries p.length)) (gempty 1)
    simpa [gnewFrom, aux_grows_empty] using this
  -- (rows' d) ++ rows'(d+1)  ~  (rows' d) ++ (rows (d+1) ++ R)  ~  (rows' d ++ R) ++ rows (d+1)
  refine (List.Perm.append_left _ (h1.trans (h2.trans (List.Perm.append_left _ h3)))).trans ?_
  refine (List.Perm.append_left _ List.perm_append_comm).trans ?_
  rw [← List.append_assoc]
  exact List.Perm.append_right _ (aux_coltGet_rows_d F p h)

theorem aux_coltGet_rows_ge (hr : Reach F p) (j : Nat) :
    (rowsUpTo (coltGet F p h) (p.length + 1 + j)).Perm (rowsUpTo F (p.length + 1 + j)) := by
  induction j with
  | zero => exact aux_coltGet_rows_d1 F p h hr
  | succ j ih =>
    have e : p.length + 1 + (j + 1) = (p.length + 1 + j) + 1 := by omega
    rw [e]
    simp only [rowsUpTo]
    rw [aux_coltGet_gt F p h (p.length + 1 + j + 1) (by omega)]
    exact List.Perm.append ih (aux_modAt_rows_eq (ensureF h) (aux_ensureF_rows h) _ p _)

/-- one `ColtGet::get`: no row is lost or duplicated, and the new cursor's nodes exist -/
theorem aux_coltGet_step (hr : Reach F p) (hlen : p.length < F.m) :
    (coltGet F p h).rows.Perm F.rows ∧ Reach (coltGet F p h) (p ++ [h]) := by
  constructor
  · rw [aux_forest_rows, aux_forest_rows]
    have hm : (coltGet F p h).m = F.m := rfl
    rw [hm]
    obtain ⟨j, hj⟩ : ∃ j, F.m = p.length + 1 + j := ⟨F.m - (p.length + 1), by omega⟩
    rw [hj]; exact aux_coltGet_rows_ge F p h hr j
  · intro i hi
    simp only [List.length_append, List.length_cons, List.length_nil] at hi
    rw [aux_coltGet_gt F p h i (by omega)]
    exact aux_nodeAt_ensure h i p (F.tries i) (by omega) (hr i (by omega))

end Step

theorem aux_coltGets_fold (rest : List Key) (F0 : Forest) (pre : List Key) (hr : Reach F0 pre)
    (hlen : pre.length + rest.length ≤ F0.m) :
    ((rest.foldl (fun (acc : Forest × List Key) h => (coltGet acc.1 acc.2 h, acc.2 ++ [h])) (F0, pre)).1.rows).Perm
      F0.rows := by
  induction rest generalizing F0 pre with
  | nil => exact List.Perm.refl _
  | cons h rest ih =>
    simp only [List.foldl_cons, List.length_cons] at hlen ⊢
    have st := aux_coltGet_step F0 pre h hr (by omega)
    have := ih (coltGet F0 pre h) (pre ++ [h]) st.2 (by
      have hm : (coltGet F0 pre h).m = F0.m := rfl
      simp only [hm, List.length_append, List.length_cons, List.length_nil]; omega)
    exact this.trans st.1

end HvGht
