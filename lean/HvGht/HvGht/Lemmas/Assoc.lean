/-
Helper lemmas (C08/C07): association lists with distinct keys (the model of `HashMap`),
`upsert`, `mergeChild`, `innerMerge`, `keyedJoin` characterised through `lookup`.
-/
import HvGht.Model.Ght
import Mathlib.Data.List.Perm.Subperm
import Mathlib.Data.List.Nodup

set_option linter.unusedSimpArgs false

namespace HvGht
open List

/-! ### association lists with distinct keys -/

section Assoc
variable {α : Type}

/-- the keys of an association list -/
def keysOf (cs : List (Key × α)) : List Key := cs.map (·.1)

/-- rows of one level, given the rows of a child -/
def lrows (R : α → List Row) (cs : List (Key × α)) : List Row := cs.flatMap fun kc => R kc.2

theorem aux_lookup_cons (k k' : Key) (c : α) (cs : List (Key × α)) :
    ((k', c) :: cs).lookup k = if k = k' then some c else cs.lookup k := by
  rw [List.lookup_cons]
  by_cases h : k = k'
  · subst h; simp
  · have hb : (k == k') = false := by simpa using h
    simp [hb, h]

theorem aux_lookup_mem {k : Key} {c : α} {cs : List (Key × α)} (h : cs.lookup k = some c) :
    (k, c) ∈ cs := by
  induction cs with
  | nil => simp at h
  | cons kc cs ih =>
    obtain ⟨k', c'⟩ := kc
    rw [aux_lookup_cons] at h
    by_cases hk : k = k'
    · simp [hk] at h; subst hk; subst h; simp
    · simp [hk] at h; exact List.mem_cons_of_mem _ (ih h)

theorem aux_lookup_none {k : Key} {cs : List (Key × α)} :
    cs.lookup k = none ↔ k ∉ keysOf cs := by
  induction cs with
  | nil => simp [keysOf]
  | cons kc cs ih =>
    obtain ⟨k', c'⟩ := kc
    rw [aux_lookup_cons]
    by_cases hk : k = k'
    · simp [hk, keysOf]
    · simp only [hk, if_false, ih, keysOf, List.map_cons, List.mem_cons, not_or, true_and, not_false_eq_true]

theorem aux_lookup_of_mem {k : Key} {c : α} {cs : List (Key × α)} (nd : (keysOf cs).Nodup)
    (h : (k, c) ∈ cs) : cs.lookup k = some c := by
  induction cs with
  | nil => simp at h
  | cons kc cs ih =>
    obtain ⟨k', c'⟩ := kc
    simp only [keysOf, List.map_cons, List.nodup_cons] at nd
    rw [aux_lookup_cons]
    rcases List.mem_cons.mp h with h1 | h1
    · injection h1 with h2 h3; simp [h2, h3]
    · have : k ≠ k' := by
        intro e
        exact nd.1 (List.mem_map.mpr ⟨(k, c), h1, e⟩)
      simp [this]; exact ih nd.2 h1

theorem aux_lookup_isSome {k : Key} {cs : List (Key × α)} :
    (cs.lookup k).isSome ↔ k ∈ keysOf cs := by
  rw [← not_iff_not, Bool.not_eq_true, Option.isSome_eq_false_iff, Option.isNone_iff_eq_none]
  exact aux_lookup_none

theorem aux_mem_lrows {R : α → List Row} {cs : List (Key × α)} {x : Row} :
    x ∈ lrows R cs ↔ ∃ kc ∈ cs, x ∈ R kc.2 := by
  simp [lrows, List.mem_flatMap]

theorem aux_mem_lrows_lookup {R : α → List Row} {cs : List (Key × α)} (nd : (keysOf cs).Nodup) {x : Row} :
    x ∈ lrows R cs ↔ ∃ k c, cs.lookup k = some c ∧ x ∈ R c := by
  rw [aux_mem_lrows]
  constructor
  · rintro ⟨⟨k, c⟩, hm, hx⟩; exact ⟨k, c, aux_lookup_of_mem nd hm, hx⟩
  · rintro ⟨k, c, hl, hx⟩; exact ⟨(k, c), aux_lookup_mem hl, hx⟩

/-! ### `upsert` (`children.entry(k).or_default()` + child op) -/

theorem aux_upsert_lookup {β : Type} (k : Key) (d : α) (f : α → α × β) (cs : List (Key × α)) (k' : Key) :
    (upsert k d f cs).1.lookup k' =
      if k' = k then some (f ((cs.lookup k).getD d)).1 else cs.lookup k' := by
  induction cs with
  | nil => simp [upsert, aux_lookup_cons]
  | cons kc cs ih =>
    obtain ⟨k0, c0⟩ := kc
    unfold upsert
    by_cases h0 : k0 = k
    · subst h0; simp only [if_true, aux_lookup_cons]
      by_cases hk : k' = k0 <;> simp [hk]
    · simp only [h0, if_false, aux_lookup_cons, ih]
      have h0' : k ≠ k0 := fun e => h0 e.symm
      by_cases hk : k' = k
      · subst hk; simp [h0']
      · simp [hk]

theorem aux_upsert_snd {β : Type} (k : Key) (d : α) (f : α → α × β) (cs : List (Key × α)) :
    (upsert k d f cs).2 = (f ((cs.lookup k).getD d)).2 := by
  induction cs with
  | nil => simp [upsert]
  | cons kc cs ih =>
    obtain ⟨k0, c0⟩ := kc
    unfold upsert
    by_cases h0 : k0 = k
    · subst h0; simp [aux_lookup_cons]
    · have h0' : k ≠ k0 := fun e => h0 e.symm
      simp [h0, h0', aux_lookup_cons, ih]

theorem aux_upsert_keys {β : Type} (k : Key) (d : α) (f : α → α × β) (cs : List (Key × α)) :
    keysOf (upsert k d f cs).1 = if k ∈ keysOf cs then keysOf cs else keysOf cs ++ [k] := by
  induction cs with
  | nil => simp [upsert, keysOf]
  | cons kc cs ih =>
    obtain ⟨k0, c0⟩ := kc
    unfold upsert
    by_cases h0 : k0 = k
    · subst h0; simp [keysOf]
    · have h0' : k ≠ k0 := fun e => h0 e.symm
      simp only [h0, if_false, keysOf, List.map_cons, List.mem_cons, h0', false_or] at ih ⊢
      rw [ih]; by_cases hk : k ∈ map (fun x => x.fst) cs <;> simp [hk]

theorem aux_upsert_nodup {β : Type} (k : Key) (d : α) (f : α → α × β) (cs : List (Key × α))
    (nd : (keysOf cs).Nodup) : (keysOf (upsert k d f cs).1).Nodup := by
  rw [aux_upsert_keys]; split
  · exact nd
  · rename_i h; rw [List.nodup_append]; simp_all
    intro a ha e; subst e; exact h ha


/-! ### `mergeChild` / `innerMerge` (`merge_node` of an inner node) -/

/-- the value `merge_node` leaves under a key -/
def mergedVal (mn : α → α → α × Bool) (o : Option α) (v : α) : α :=
  match o with
  | some c => (mn c v).1
  | none => v

theorem aux_mergeChild_lookup (mn : α → α → α × Bool) (k : Key) (v : α) (cs : List (Key × α)) (k' : Key) :
    (mergeChild mn k v cs).1.lookup k' =
      if k' = k then some (mergedVal mn (cs.lookup k) v) else cs.lookup k' := by
  induction cs with
  | nil => simp [mergeChild, aux_lookup_cons, mergedVal]
  | cons kc cs ih =>
    obtain ⟨k0, c0⟩ := kc
    unfold mergeChild
    by_cases h0 : k0 = k
    · subst h0; simp only [if_true, aux_lookup_cons, mergedVal]
      by_cases hk : k' = k0 <;> simp [hk]
    · simp only [h0, if_false, aux_lookup_cons, ih]
      have h0' : k ≠ k0 := fun e => h0 e.symm
      by_cases hk : k' = k
      · subst hk; simp [h0']
      · simp [hk]

theorem aux_mergeChild_snd (mn : α → α → α × Bool) (k : Key) (v : α) (cs : List (Key × α)) :
    (mergeChild mn k v cs).2 = (match cs.lookup k with | some c => (mn c v).2 | none => true) := by
  induction cs with
  | nil => simp [mergeChild]
  | cons kc cs ih =>
    obtain ⟨k0, c0⟩ := kc
    unfold mergeChild
    by_cases h0 : k0 = k
    · subst h0; simp [aux_lookup_cons]
    · have h0' : k ≠ k0 := fun e => h0 e.symm
      simp [h0, h0', aux_lookup_cons, ih]

theorem aux_mergeChild_keys (mn : α → α → α × Bool) (k : Key) (v : α) (cs : List (Key × α)) :
    keysOf (mergeChild mn k v cs).1 = if k ∈ keysOf cs then keysOf cs else keysOf cs ++ [k] := by
  induction cs with
  | nil => simp [mergeChild, keysOf]
  | cons kc cs ih =>
    obtain ⟨k0, c0⟩ := kc
    unfold mergeChild
    by_cases h0 : k0 = k
    · subst h0; simp [keysOf]
    · have h0' : k ≠ k0 := fun e => h0 e.symm
      simp only [h0, if_false, keysOf, List.map_cons, List.mem_cons, h0', false_or] at ih ⊢
      rw [ih]; by_cases hk : k ∈ map (fun x => x.fst) cs <;> simp [hk]

theorem aux_mergeChild_nodup (mn : α → α → α × Bool) (k : Key) (v : α) (cs : List (Key × α))
    (nd : (keysOf cs).Nodup) : (keysOf (mergeChild mn k v cs).1).Nodup := by
  rw [aux_mergeChild_keys]; split
  · exact nd
  · rename_i h; rw [List.nodup_append]; simp_all
    intro a ha e; subst e; exact h ha

/-- the `merge_node` loop with an arbitrary starting flag -/
def mergeLoop (mn : α → α → α × Bool) (other : List (Key × α)) (acc : List (Key × α) × Bool) :
    List (Key × α) × Bool :=
  other.foldl (fun acc kv => let r := mergeChild mn kv.1 kv.2 acc.1; (r.1, acc.2 || r.2)) acc

theorem aux_innerMerge_eq (mn : α → α → α × Bool) (self other : List (Key × α)) :
    innerMerge mn self other = mergeLoop mn other (self, false) := rfl

theorem aux_mergeLoop_cons (mn : α → α → α × Bool) (kv : Key × α) (other : List (Key × α))
    (acc : List (Key × α) × Bool) :
    mergeLoop mn (kv :: other) acc =
      mergeLoop mn other ((mergeChild mn kv.1 kv.2 acc.1).1, acc.2 || (mergeChild mn kv.1 kv.2 acc.1).2) := by
  simp [mergeLoop]

theorem aux_mergeLoop_lookup (mn : α → α → α × Bool) (other : List (Key × α)) (nd : (keysOf other).Nodup)
    (self : List (Key × α)) (fl : Bool) (k : Key) :
    (mergeLoop mn other (self, fl)).1.lookup k =
      match other.lookup k with
      | some b => some (mergedVal mn (self.lookup k) b)
      | none => self.lookup k := by
  induction other generalizing self fl with
  | nil => simp [mergeLoop]
  | cons kv other ih =>
    obtain ⟨k0, v0⟩ := kv
    simp only [keysOf, List.map_cons, List.nodup_cons] at nd
    rw [aux_mergeLoop_cons, ih nd.2, aux_lookup_cons, aux_mergeChild_lookup]
    by_cases hk : k = k0
    · subst hk
      have : other.lookup k = none := aux_lookup_none.mpr nd.1
      simp [this]
    · simp [hk]

theorem aux_mergeLoop_nodup (mn : α → α → α × Bool) (other : List (Key × α))
    (self : List (Key × α)) (fl : Bool) (nd : (keysOf self).Nodup) :
    (keysOf (mergeLoop mn other (self, fl)).1).Nodup := by
  induction other generalizing self fl with
  | nil => simpa [mergeLoop]
  | cons kv other ih =>
    rw [aux_mergeLoop_cons]; exact ih _ _ (aux_mergeChild_nodup mn _ _ _ nd)

/-- the `changed` flag of the loop -/
theorem aux_mergeLoop_snd (mn : α → α → α × Bool) (other : List (Key × α)) (nd : (keysOf other).Nodup)
    (self : List (Key × α)) (fl : Bool) :
    (mergeLoop mn other (self, fl)).2 = true ↔
      fl = true ∨ ∃ k b, other.lookup k = some b ∧
        (match self.lookup k with | some c => (mn c b).2 | none => true) = true := by
  induction other generalizing self fl with
  | nil => simp [mergeLoop]
  | cons kv other ih =>
    obtain ⟨k0, v0⟩ := kv
    simp only [keysOf, List.map_cons, List.nodup_cons] at nd
    rw [aux_mergeLoop_cons, ih nd.2, aux_mergeChild_snd]
    have hnone : other.lookup k0 = none := aux_lookup_none.mpr nd.1
    constructor
    · rintro (h | ⟨k, b, hl, hb⟩)
      · rcases Bool.or_eq_true_iff.mp h with h | h
        · exact Or.inl h
        · exact Or.inr ⟨k0, v0, by simp [aux_lookup_cons], h⟩
      · have hk : k ≠ k0 := by intro e; subst e; simp [hnone] at hl
        refine Or.inr ⟨k, b, by simp [aux_lookup_cons, hk, hl], ?_⟩
        simpa [aux_mergeChild_lookup, hk] using hb
    · rintro (h | ⟨k, b, hl, hb⟩)
      · exact Or.inl (by simp [h])
      · by_cases hk : k = k0
        · subst hk
          simp [aux_lookup_cons] at hl; subst hl
          exact Or.inl (by simp [hb])
        · refine Or.inr ⟨k, b, by simpa [aux_lookup_cons, hk] using hl, ?_⟩
          simpa [aux_mergeChild_lookup, hk] using hb

/-! ### `keyedJoin` (`GhtNodeKeyedBimorphism::call`) -/

theorem aux_keyedJoin_lookup {β γ : Type} (f : α → β → γ) (a : List (Key × α)) (b : List (Key × β))
    (nd : (keysOf b).Nodup) (k : Key) :
    (keyedJoin f a b).lookup k =
      match a.lookup k, b.lookup k with
      | some x, some y => some (f x y)
      | _, _ => none := by
  induction b with
  | nil => simp [keyedJoin]
  | cons kb b ih =>
    obtain ⟨k0, y0⟩ := kb
    simp only [keysOf, List.map_cons, List.nodup_cons] at nd
    have hnone : b.lookup k0 = none := aux_lookup_none.mpr nd.1
    unfold keyedJoin at ih ⊢
    rw [List.filterMap_cons]
    by_cases hk : k = k0
    · subst hk
      cases ha : a.lookup k with
      | none => simp [ih nd.2, ha]
      | some x => simp [aux_lookup_cons, ha]
    · cases ha0 : a.lookup k0 with
      | none => simp [ih nd.2, aux_lookup_cons, hk]
      | some x0 => simp [aux_lookup_cons, hk, ih nd.2]

theorem aux_keyedJoin_keys {β γ : Type} (f : α → β → γ) (a : List (Key × α)) (b : List (Key × β)) :
    keysOf (keyedJoin f a b) = (keysOf b).filter (fun k => (a.lookup k).isSome) := by
  induction b with
  | nil => simp [keyedJoin, keysOf]
  | cons kb b ih =>
    obtain ⟨k0, y0⟩ := kb
    unfold keyedJoin keysOf at ih ⊢
    rw [List.filterMap_cons]
    cases ha0 : a.lookup k0 with
    | none => simp [ha0, ih]
    | some x0 => simp [ha0, ih]

theorem aux_keyedJoin_nodup {β γ : Type} (f : α → β → γ) (a : List (Key × α)) (b : List (Key × β))
    (nd : (keysOf b).Nodup) : (keysOf (keyedJoin f a b)).Nodup := by
  rw [aux_keyedJoin_keys]; exact nd.filter _

end Assoc
end HvGht
