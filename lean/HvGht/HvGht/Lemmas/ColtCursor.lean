/-
Helper lemmas (C08): the cursor returned by a chain of `ColtGet::get` holds exactly the rows of
the forest that start with the path.
-/
import HvGht.Lemmas.Colt
import HvGht.Lemmas.Query

set_option linter.unusedSimpArgs false
set_option linter.unusedVariables false
set_option linter.unnecessarySeqFocus false

namespace HvGht
open List

/-- `r` carries `p` in the columns `d, d+1, …` -/
def pref : Nat → List Key → Row → Bool
  | _, [], _ => true
  | d, k :: p, r => decide (headAt d r = k) && pref (d + 1) p r

/-- the rows below the node reached by `p` (nothing if there is no such node) -/
def subRows : (n : Nat) → List Key → Ght n → List Row
  | n, [], t => grows n t
  | 0, _ :: _, _ => []
  | n + 1, k :: p, t =>
    match t.kids.lookup k with
    | some c => subRows n p c
    | none => []

theorem aux_pref_append (d : Nat) (p : List Key) (h : Key) (r : Row) :
    pref d (p ++ [h]) r = (pref d p r && decide (headAt (d + p.length) r = h)) := by
  induction p generalizing d with
  | nil => simp [pref]
  | cons k p ih =>
    simp only [List.cons_append, pref, ih, List.length_cons]
    rw [show d + 1 + p.length = d + (p.length + 1) by omega, Bool.and_assoc]

/-- the rows below the node at `p` are the rows of the trie that carry `p` -/
theorem aux_subRows_filter (sk : Kind) (n d : Nat) (p : List Key) (t : Ght n) (h : Wf sk n d t)
    (hp : p.length ≤ n) :
    subRows n p t = (grows n t).filter (pref d p) := by
  induction n generalizing d p with
  | zero =>
    cases p with
    | nil => simp [subRows, pref]
    | cons k p => simp at hp
  | succ n ih =>
    cases p with
    | nil => simp [subRows, pref]
    | cons k p =>
      simp only [subRows]
      rw [aux_grows_succ, aux_filter_lrows_lookup (grows n) _ k t.kids h.1]
      · cases hl : t.kids.lookup k with
        | none => rfl
        | some c =>
          have hc := aux_wf_child h hl
          simp only
          rw [ih (d + 1) p c hc.1 (by simpa using hp)]
          apply List.filter_congr
          intro r hr
          simp [pref, hc.2 r hr]
      · intro kc hkc hne r hr
        simp [pref, (h.2 kc hkc).2 r hr, hne]

theorem aux_leafRowsAt_eq_subRows (n : Nat) (p : List Key) (t : Ght n) (hp : p.length = n) :
    leafRowsAt n p t = subRows n p t := by
  induction n generalizing p with
  | zero => cases p <;> simp_all [leafRowsAt, subRows, grows]
  | succ n ih =>
    cases p with
    | nil => simp at hp
    | cons k p =>
      simp only [leafRowsAt, subRows]
      cases t.kids.lookup k with
      | none => rfl
      | some c => exact ih p c (by simpa using hp)

/-! ### well-formedness along a path update -/

theorem aux_modChild_keys {α : Type} (k : Key) (f : α → α) (cs : List (Key × α)) :
    keysOf (modChild k f cs) = keysOf cs := by
  induction cs with
  | nil => simp [modChild]
  | cons kc cs ih =>
    obtain ⟨k0, c0⟩ := kc
    unfold modChild
    by_cases h0 : k0 = k
    · simp [h0, keysOf]
    · simp only [h0, if_false, keysOf, List.map_cons] at ih ⊢; rw [ih]

/-- an entry of `modChild k f cs` is an old entry under another key, or `f` of the old child -/
theorem aux_modChild_mem {α : Type} (k : Key) (f : α → α) (cs : List (Key × α)) (nd : (keysOf cs).Nodup)
    (kc : Key × α) (h : kc ∈ modChild k f cs) :
    (kc ∈ cs ∧ kc.1 ≠ k) ∨ (kc.1 = k ∧ ∃ c, cs.lookup k = some c ∧ kc.2 = f c) := by
  have nd' : (keysOf (modChild k f cs)).Nodup := by rw [aux_modChild_keys]; exact nd
  have hl := aux_lookup_of_mem nd' (show (kc.1, kc.2) ∈ _ from h)
  rw [aux_modChild_lookup] at hl
  by_cases hk : kc.1 = k
  · right
    simp only [hk, if_true] at hl
    cases hc : cs.lookup k with
    | none => simp [hc] at hl
    | some c => exact ⟨hk, c, rfl, by simpa [hc] using hl.symm⟩
  · left
    simp only [hk, if_false] at hl
    exact ⟨aux_lookup_mem hl, hk⟩

/-- an update that keeps `Wf` and adds no rows keeps `Wf` of the whole trie, and adds no rows -/
theorem aux_modAt_wf_shrink (sk : Kind) (f : (j : Nat) → Ght j → Ght j)
    (hf : ∀ j d t, Wf sk j d t → Wf sk j d (f j t) ∧ ∀ r ∈ grows j (f j t), r ∈ grows j t)
    (n d : Nat) (p : List Key) (t : Ght n) (h : Wf sk n d t) :
    Wf sk n d (modAt f n p t) ∧ ∀ r ∈ grows n (modAt f n p t), r ∈ grows n t := by
  induction n generalizing d p with
  | zero =>
    cases p with
    | nil => simp only [modAt]; exact hf 0 d t h
    | cons k p => simp only [modAt]; exact ⟨h, fun r hr => hr⟩
  | succ n ih =>
    cases p with
    | nil => simpa [modAt] using hf (n + 1) d t h
    | cons k p =>
      simp only [modAt]
      have key : ∀ kc ∈ modChild k (modAt f n p) t.kids,
          Wf sk n (d + 1) kc.2 ∧ (∀ r ∈ grows n kc.2, headAt d r = kc.1) ∧
            ∀ r ∈ grows n kc.2, r ∈ grows (n + 1) t := by
        intro kc hkc
        rcases aux_modChild_mem k _ t.kids h.1 kc hkc with ⟨hm, _⟩ | ⟨hk, c, hl, e⟩
        · exact ⟨(h.2 kc hm).1, (h.2 kc hm).2, fun r hr => aux_mem_lrows.mpr ⟨kc, hm, hr⟩⟩
        · have hc := aux_wf_child h hl
          have := ih (d + 1) p c hc.1
          rw [e]
          refine ⟨this.1, fun r hr => by rw [hk]; exact hc.2 r (this.2 r hr), fun r hr => ?_⟩
          exact aux_mem_lrows.mpr ⟨(k, c), aux_lookup_mem hl, this.2 r hr⟩
      refine ⟨⟨by rw [show (Ght.ofKids (modChild k (modAt f n p) t.kids)).kids = modChild k (modAt f n p) t.kids from rfl,
                     aux_modChild_keys]; exact h.1,
               fun kc hkc => ⟨(key kc hkc).1, (key kc hkc).2.1⟩⟩, ?_⟩
      intro r hr
      obtain ⟨kc, hkc, hr'⟩ := aux_mem_lrows.mp hr
      exact (key kc hkc).2.2 r hr'

theorem aux_drainF_wf (sk : Kind) (j d : Nat) (t : Ght j) (h : Wf sk j d t) :
    Wf sk j d (drainF j t) ∧ ∀ r ∈ grows j (drainF j t), r ∈ grows j t := by
  cases j with
  | zero => simp [drainF, Wf, grows]
  | succ j => exact ⟨h, fun r hr => hr⟩

theorem aux_ensureF_wf (sk : Kind) (hd : Key) (j d : Nat) (t : Ght j) (h : Wf sk j d t) :
    Wf sk j d (ensureF hd j t) ∧ ∀ r ∈ grows j (ensureF hd j t), r ∈ grows j t := by
  refine ⟨?_, fun r hr => by rw [aux_ensureF_rows] at hr; exact hr⟩
  cases j with
  | zero => exact h
  | succ j =>
    simp only [ensureF]
    have nd := aux_upsert_nodup hd (gempty j) (fun c => (c, ())) t.kids h.1
    refine ⟨nd, ?_⟩
    rintro ⟨k, c⟩ hmem
    have hl := aux_lookup_of_mem nd hmem
    rw [aux_upsert_lookup] at hl
    by_cases hk : k = hd
    · simp only [hk, if_true, Option.some.injEq] at hl
      cases hlo : t.kids.lookup hd with
      | none => simp [hlo] at hl; subst hl; simp [aux_wf_empty, aux_grows_empty]
      | some c0 => simp [hlo] at hl; subst hl; rw [hk]; exact aux_wf_child h hlo
    · simp only [hk, if_false] at hl
      exact aux_wf_child h hl

/-- merging a well-formed `forced` whose rows carry `p` into the node at `p` keeps `Wf` -/
theorem aux_modAt_merge_wf (sk : Kind) (forced : Ght 1) (n d : Nat) (p : List Key) (t : Ght n)
    (h : Wf sk n d t) (hfw : Wf sk 1 (d + p.length) forced) (hfp : ∀ r ∈ grows 1 forced, pref d p r = true) :
    Wf sk n d (modAt (mergeF sk forced) n p t) ∧
      ∀ r ∈ grows n (modAt (mergeF sk forced) n p t), r ∈ grows n t ∨ r ∈ grows 1 forced := by
  induction n generalizing d p with
  | zero =>
    cases p with
    | nil => simp only [modAt, mergeF]; exact ⟨h, fun r hr => Or.inl hr⟩
    | cons k p => simp only [modAt]; exact ⟨h, fun r hr => Or.inl hr⟩
  | succ n ih =>
    cases p with
    | nil =>
      simp only [modAt]
      cases n with
      | zero =>
        simp only [mergeF]
        refine ⟨aux_wf_merge sk 1 d t forced h (by simpa using hfw), fun r hr => ?_⟩
        exact (aux_mem_rows_merge sk 1 t forced r).mp hr
      | succ n => simp only [mergeF]; exact ⟨h, fun r hr => Or.inl hr⟩
    | cons k p =>
      simp only [modAt]
      have key : ∀ kc ∈ modChild k (modAt (mergeF sk forced) n p) t.kids,
          Wf sk n (d + 1) kc.2 ∧ (∀ r ∈ grows n kc.2, headAt d r = kc.1) ∧
            ∀ r ∈ grows n kc.2, r ∈ grows (n + 1) t ∨ r ∈ grows 1 forced := by
        intro kc hkc
        rcases aux_modChild_mem k _ t.kids h.1 kc hkc with ⟨hm, _⟩ | ⟨hk, c, hl, e⟩
        · exact ⟨(h.2 kc hm).1, (h.2 kc hm).2, fun r hr => Or.inl (aux_mem_lrows.mpr ⟨kc, hm, hr⟩)⟩
        · have hc := aux_wf_child h hl
          have := ih (d + 1) p c hc.1
            (by rw [show d + 1 + p.length = d + (k :: p).length by simp; omega]; exact hfw)
            (fun r hr => by have := hfp r hr; simp only [pref, Bool.and_eq_true] at this; exact this.2)
          rw [e]
          refine ⟨this.1, fun r hr => ?_, fun r hr => ?_⟩
          · rw [hk]
            rcases this.2 r hr with h1 | h1
            · exact hc.2 r h1
            · have := hfp r h1; simp only [pref, Bool.and_eq_true, decide_eq_true_eq] at this; exact this.1
          · rcases this.2 r hr with h1 | h1
            · exact Or.inl (aux_mem_lrows.mpr ⟨(k, c), aux_lookup_mem hl, h1⟩)
            · exact Or.inr h1
      refine ⟨⟨by rw [show (Ght.ofKids (modChild k (modAt (mergeF sk forced) n p) t.kids)).kids
                          = modChild k (modAt (mergeF sk forced) n p) t.kids from rfl,
                     aux_modChild_keys]; exact h.1,
               fun kc hkc => ⟨(key kc hkc).1, (key kc hkc).2.1⟩⟩, ?_⟩
      intro r hr
      obtain ⟨kc, hkc, hr'⟩ := aux_mem_lrows.mp hr
      exact (key kc hkc).2.2 r hr'

/-! ### the forest invariants along a chain of gets -/

/-- every trie of the forest is well formed (multiset storage) -/
def ForestWf (F : Forest) : Prop := ∀ i, Wf .bag i 0 (F.tries i)

/-- the leaves the chain along `q` has force-drained are (still) empty -/
def Drained (F : Forest) (q : List Key) : Prop :=
  ∀ i, i < q.length → leafRowsAt i (q.take i) (F.tries i) = []

theorem aux_forestWf_empty (m : Nat) : ForestWf (Forest.empty m) := fun i => aux_wf_empty _ _ _

theorem aux_forestWf_insert (F : Forest) (row : Row) (h : ForestWf F) : ForestWf (F.insert row) := by
  intro i
  cases i with
  | zero => exact aux_wf_insert .bag 0 0 (F.tries 0) row (h 0)
  | succ j => exact h (j + 1)

theorem aux_leafRowsAt_pref (n d : Nat) (p : List Key) (t : Ght n) (h : Wf .bag n d t) (hp : p.length = n) :
    ∀ r ∈ leafRowsAt n p t, pref d p r = true := by
  intro r hr
  rw [aux_leafRowsAt_eq_subRows n p t hp, aux_subRows_filter .bag n d p t h (by omega)] at hr
  exact (List.mem_filter.mp hr).2

theorem aux_leafRowsAt_drained (n : Nat) (p : List Key) (t : Ght n) (hp : p.length = n) :
    leafRowsAt n p (modAt drainF n p t) = [] := by
  induction n generalizing p with
  | zero => cases p <;> simp_all [leafRowsAt, modAt, drainF]
  | succ n ih =>
    cases p with
    | nil => simp at hp
    | cons k p =>
      simp only [leafRowsAt, modAt]
      rw [show (Ght.ofKids (modChild k (modAt drainF n p) t.kids)).kids = modChild k (modAt drainF n p) t.kids from rfl,
        aux_modChild_lookup]
      cases hl : t.kids.lookup k with
      | none => simp
      | some c => simp only [if_true, Option.map_some]; exact ih p c (by simpa using hp)

theorem aux_coltGet_eq_d (F : Forest) (p : List Key) (h : Key) :
    (coltGet F p h).tries p.length = modAt drainF p.length p (F.tries p.length) := by
  unfold coltGet; simp

theorem aux_coltGet_eq_d1 (F : Forest) (p : List Key) (h : Key) :
    (coltGet F p h).tries (p.length + 1) =
      modAt (ensureF h) (p.length + 1) p
        (modAt (mergeF .bag (gnewFrom .bag 1 p.length (leafRowsAt p.length p (F.tries p.length))))
          (p.length + 1) p (F.tries (p.length + 1))) := by
  unfold coltGet; simp

theorem aux_coltGet_forestWf (F : Forest) (p : List Key) (h : Key) (hw : ForestWf F) :
    ForestWf (coltGet F p h) := by
  intro i
  rcases Nat.lt_trichotomy i p.length with hi | hi | hi
  · rw [aux_coltGet_lt F p h i hi]; exact hw i
  · subst hi
    rw [aux_coltGet_eq_d]
    exact (aux_modAt_wf_shrink .bag drainF (aux_drainF_wf .bag) _ 0 p _ (hw _)).1
  · by_cases h1 : i = p.length + 1
    · subst h1
      rw [aux_coltGet_eq_d1]
      have spec := aux_newFrom_spec .bag 1 p.length (leafRowsAt p.length p (F.tries p.length)) (gempty 1)
        (aux_wf_empty _ _ _)
      have hfw : Wf .bag 1 (0 + p.length) (gnewFrom .bag 1 p.length (leafRowsAt p.length p (F.tries p.length))) := by
        simpa [gnewFrom] using spec.1
      have hfp : ∀ r ∈ grows 1 (gnewFrom .bag 1 p.length (leafRowsAt p.length p (F.tries p.length))),
          pref 0 p r = true := by
        intro r hr
        have := (spec.2 r).mp (by simpa [gnewFrom] using hr)
        simp only [aux_grows_empty, List.not_mem_nil, false_or] at this
        exact aux_leafRowsAt_pref p.length 0 p (F.tries p.length) (hw _) rfl r this
      have m1 := aux_modAt_merge_wf .bag _ (p.length + 1) 0 p (F.tries (p.length + 1)) (hw _) hfw hfp
      exact (aux_modAt_wf_shrink .bag (ensureF h) (aux_ensureF_wf .bag h) _ 0 p _ m1.1).1
    · rw [aux_coltGet_gt F p h i (by omega)]
      exact (aux_modAt_wf_shrink .bag (ensureF h) (aux_ensureF_wf .bag h) _ 0 p _ (hw _)).1

theorem aux_coltGet_drained (F : Forest) (p : List Key) (h : Key) (hd : Drained F p) :
    Drained (coltGet F p h) (p ++ [h]) := by
  intro i hi
  simp only [List.length_append, List.length_cons, List.length_nil] at hi
  by_cases h1 : i < p.length
  · rw [aux_coltGet_lt F p h i h1, List.take_append_of_le_length (by omega)]
    exact hd i h1
  · have : i = p.length := by omega
    subst this
    rw [aux_coltGet_eq_d, List.take_left']
    · exact aux_leafRowsAt_drained _ p _ rfl
    · rfl

/-- the rows the cursor at `p` can reach: below the node at `p` in every trie tall enough -/
def cursorRows (F : Forest) (p : List Key) : List Row :=
  (List.range (F.m + 1)).flatMap fun i => if p.length ≤ i then subRows i p (F.tries i) else []

theorem aux_pref_take (d : Nat) (p : List Key) (i : Nat) (r : Row) (h : pref d p r = true) :
    pref d (p.take i) r = true := by
  induction p generalizing d i with
  | nil => simp [pref]
  | cons k p ih =>
    cases i with
    | zero => simp [pref]
    | succ i =>
      simp only [pref, Bool.and_eq_true, List.take_succ_cons] at h ⊢
      exact ⟨h.1, ih (d + 1) i h.2⟩

/-- with the invariants, the cursor holds exactly the rows of the forest that carry the path -/
theorem aux_cursorRows_eq (F : Forest) (p : List Key) (hw : ForestWf F) (hd : Drained F p) :
    cursorRows F p = F.rows.filter (pref 0 p) := by
  unfold cursorRows Forest.rows
  rw [List.filter_flatMap]
  apply List.flatMap_congr
  intro i _
  by_cases hi : p.length ≤ i
  · rw [if_pos hi, aux_subRows_filter .bag i 0 p (F.tries i) (hw i) hi]
  · rw [if_neg hi]
    symm
    rw [List.filter_eq_nil_iff]
    intro r hr hp
    have h1 := aux_pref_take 0 p i r hp
    have hlen : (p.take i).length = i := by simp; omega
    have : r ∈ subRows i (p.take i) (F.tries i) := by
      rw [aux_subRows_filter .bag i 0 (p.take i) (F.tries i) (hw i) (by omega)]
      exact List.mem_filter.mpr ⟨hr, h1⟩
    rw [← aux_leafRowsAt_eq_subRows i (p.take i) (F.tries i) hlen, hd i (by omega)] at this
    cases this

theorem aux_coltGets_inv (rest : List Key) (F0 : Forest) (pre : List Key)
    (hw : ForestWf F0) (hd : Drained F0 pre) :
    let r := rest.foldl (fun (acc : Forest × List Key) h => (coltGet acc.1 acc.2 h, acc.2 ++ [h])) (F0, pre)
    ForestWf r.1 ∧ Drained r.1 (pre ++ rest) := by
  induction rest generalizing F0 pre with
  | nil => simpa using ⟨hw, hd⟩
  | cons h rest ih =>
    simp only [List.foldl_cons]
    have := ih (coltGet F0 pre h) (pre ++ [h]) (aux_coltGet_forestWf F0 pre h hw) (aux_coltGet_drained F0 pre h hd)
    simpa [List.append_assoc] using this

end HvGht
