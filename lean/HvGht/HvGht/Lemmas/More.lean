/-
Helper lemmas (C08): exactness of the `changed` flag of `merge`, well-formedness of the deep
join's output.
-/
import HvGht.Lemmas.Compare
import HvGht.Lemmas.ColtCursor

set_option linter.unusedSimpArgs false
set_option linter.unusedVariables false
set_option linter.unnecessarySeqFocus false

namespace HvGht
open List

theorem aux_merge_changed_iff (n d : Nat) (a b : Ght n) (ga : Good n d a) (gb : Good n d b) :
    (gmerge .set n a b).2 = true ↔ ∃ x ∈ grows n b, x ∉ grows n a := by
  induction n generalizing d with
  | zero =>
    simp only [gmerge, Leaf.mergeNode, decide_eq_true_eq, grows]
    exact aux_stExtend_set_grows _ _ (ga.1 rfl)
  | succ n ih =>
    simp only [gmerge, aux_innerMerge_eq]
    rw [aux_mergeLoop_snd _ _ gb.1.1]
    simp only [Bool.false_eq_true, false_or]
    constructor
    · rintro ⟨k, bv, hlb, hfl⟩
      have hb := aux_good_child gb hlb
      cases hla : a.kids.lookup k with
      | none =>
        obtain ⟨x, hx⟩ := List.exists_mem_of_ne_nil _ hb.2.2
        refine ⟨x, aux_mem_lrows.mpr ⟨(k, bv), aux_lookup_mem hlb, hx⟩, ?_⟩
        intro hxa
        obtain ⟨c, hc, _⟩ := (aux_mem_grows_succ ga.1).mp hxa
        rw [hb.2.1 x hx, hla] at hc; cases hc
      | some c =>
        simp only [hla] at hfl
        have ha := aux_good_child ga hla
        obtain ⟨x, hx, hxc⟩ := (ih (d + 1) c bv ha.1 hb.1).mp hfl
        refine ⟨x, aux_mem_lrows.mpr ⟨(k, bv), aux_lookup_mem hlb, hx⟩, ?_⟩
        intro hxa
        obtain ⟨c', hc', hxc'⟩ := (aux_mem_grows_succ ga.1).mp hxa
        rw [hb.2.1 x hx, hla] at hc'; cases hc'; exact hxc hxc'
    · rintro ⟨x, hxb, hxa⟩
      obtain ⟨bv, hlb, hx⟩ := (aux_mem_grows_succ gb.1).mp hxb
      refine ⟨headAt d x, bv, hlb, ?_⟩
      cases hla : a.kids.lookup (headAt d x) with
      | none => rfl
      | some c =>
        simp only
        have ha := aux_good_child ga hla
        have hb := aux_good_child gb hlb
        refine (ih (d + 1) c bv ha.1 hb.1).mpr ⟨x, hx, ?_⟩
        intro hxc
        exact hxa ((aux_mem_grows_succ ga.1).mpr ⟨c, hla, hxc⟩)

theorem aux_headAt_append (i : Nat) (ra rb : Row) (h : i < ra.length) :
    headAt i (ra ++ rb) = headAt i ra := by
  simp [headAt, List.getD_eq_getElem?_getD, List.getElem?_append_left h]

theorem aux_wf_deepJoin (k n d : Nat) (a b : Ght n) (ha : Wf .set n d a) (hb : Wf .set n d b)
    (la : ∀ r ∈ grows n a, d + n ≤ r.length) :
    Wf .set n d (deepJoin .set k n a b) := by
  induction n generalizing d with
  | zero =>
    intro _
    simp only [deepJoin, valProduct, Leaf.fromIter, stCollect]
    exact aux_stExtend_nodup _ _ List.nodup_nil
  | succ n ih =>
    simp only [deepJoin]
    have nd := aux_keyedJoin_nodup (deepJoin .set k n) a.kids b.kids hb.1
    refine ⟨nd, ?_⟩
    rintro ⟨key, c⟩ hmem
    have hl := aux_lookup_of_mem nd hmem
    rw [aux_keyedJoin_lookup _ _ _ hb.1] at hl
    cases hla : a.kids.lookup key with
    | none => simp [hla] at hl
    | some va =>
      cases hlb : b.kids.lookup key with
      | none => simp [hla, hlb] at hl
      | some vb =>
        simp only [hla, hlb, Option.some.injEq] at hl
        subst hl
        have hva := aux_wf_child ha hla
        have hvb := aux_wf_child hb hlb
        have lva : ∀ r ∈ grows n va, d + 1 + n ≤ r.length := fun r hr => by
          have := la r (aux_mem_lrows.mpr ⟨(key, va), aux_lookup_mem hla, hr⟩); omega
        refine ⟨ih (d + 1) va vb hva.1 hvb.1 lva, ?_⟩
        intro x hx
        obtain ⟨ra, hra, rb, hrb, _, e⟩ := (aux_mem_deepJoin .set .set .set k n (d + 1) va vb hva.1 hvb.1 x).mp hx
        subst e
        rw [aux_headAt_append d ra _ (by have := lva ra hra; omega)]
        exact hva.2 ra hra

/-- the node the driver prints for a cursor element is the node whose rows `subRows` collects -/
theorem aux_nodeAt_subRows (n : Nat) (p : List Key) (t : Ght n) :
    (match nodeAt n p t with | some ⟨j, c⟩ => grows j c | none => []) = subRows n p t := by
  induction n generalizing p with
  | zero => cases p <;> simp [nodeAt, subRows]
  | succ n ih =>
    cases p with
    | nil => simp [nodeAt, subRows]
    | cons k p =>
      simp only [nodeAt, subRows]
      cases hl : t.kids.lookup k with
      | none => simp
      | some c => simpa using ih p c

/-- `find_containing_leaf` -/
theorem aux_findLeaf (sk : Kind) (n d : Nat) (t : Ght n) (row : Row) (h : Wf sk n d t) :
    ((gfindLeaf n d t row).isSome = true ↔ row ∈ grows n t) ∧
    ∀ l, gfindLeaf n d t row = some l → row ∈ l.rows ∧ ∀ r ∈ l.rows, r ∈ grows n t := by
  induction n generalizing d with
  | zero =>
    simp only [gfindLeaf, grows]
    by_cases hm : row ∈ t.toLeaf.rows
    · have : (t.toLeaf.rows.any fun r => decide (row = r)) = true := by
        rw [List.any_eq_true]; exact ⟨row, hm, by simp⟩
      simp only [this, if_true, Option.isSome_some, true_iff, Option.some.injEq]
      exact ⟨hm, fun l e => by subst e; exact ⟨hm, fun r hr => hr⟩⟩
    · have : (t.toLeaf.rows.any fun r => decide (row = r)) = false := by
        rw [List.any_eq_false]; intro r hr e; simp at e; subst e; exact hm hr
      simp [this, hm]
  | succ n ih =>
    simp only [gfindLeaf]
    rw [aux_mem_grows_succ h]
    cases hl : t.kids.lookup (headAt d row) with
    | none => simp
    | some c =>
      have hc := aux_wf_child h hl
      have := ih (d + 1) c hc.1
      refine ⟨by simpa using this.1, fun l e => ?_⟩
      obtain ⟨h1, h2⟩ := this.2 l e
      exact ⟨h1, fun r hr => aux_mem_lrows.mpr ⟨(_, c), aux_lookup_mem hl, h2 r hr⟩⟩

end HvGht
