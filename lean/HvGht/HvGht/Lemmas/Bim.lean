/-
Helper definitions and lemmas (C07): what "bimorphism" means for the crate's `Merge` /
`PartialEq` / `IsBot`, and the parametric theorem for `KeyedBimorphism`.
-/
import HvGht.Lemmas.MapLemmas

set_option linter.unusedSimpArgs false
set_option linter.unusedVariables false
set_option linter.unnecessarySeqFocus false

namespace HvGht
open List

/-- The facts about a lattice (`merge`, the crate's `==`, `is_bot`) on its valid values `V`
that the keyed construction relies on. -/
structure LatLaws {α : Type} (L : LatOps α) (V : α → Prop) : Prop where
  eq_refl : ∀ a, L.eq a a = true
  eq_trans : ∀ a b c, V a → V b → V c → L.eq a b = true → L.eq b c = true → L.eq a c = true
  isBot_congr : ∀ a b, V a → V b → L.eq a b = true → L.isBot a = L.isBot b
  merge_bot_right : ∀ a b, V a → V b → L.isBot b = true → L.eq (L.merge a b) a = true
  merge_valid : ∀ a b, V a → V b → V (L.merge a b)

/-- `f` is a lattice bimorphism w.r.t. the crate's own `==`: merge distributes over it in each
argument separately; `strict_*`: a bottom argument gives a bottom result. -/
structure Bimorphism {α β γ : Type} (A : LatOps α) (B : LatOps β) (C : LatOps γ)
    (VA : α → Prop) (VB : β → Prop) (VC : γ → Prop) (f : α → β → γ) : Prop where
  valid : ∀ a b, VA a → VB b → VC (f a b)
  left : ∀ a a' b, VA a → VA a' → VB b → C.eq (f (A.merge a a') b) (C.merge (f a b) (f a' b)) = true
  right : ∀ a b b', VA a → VB b → VB b' → C.eq (f a (B.merge b b')) (C.merge (f a b) (f a b')) = true
  strict_left : ∀ a b, VA a → VB b → A.isBot a = true → C.isBot (f a b) = true
  strict_right : ∀ a b, VA a → VB b → B.isBot b = true → C.isBot (f a b) = true

/-- valid `MapUnion<HashMap>` values: distinct keys, valid values (bottom values allowed) -/
def MapValid {β : Type} (V : β → Prop) (m : List (Key × β)) : Prop :=
  (keysOf m).Nodup ∧ ∀ kv ∈ m, V kv.2

theorem aux_mapValid_lookup {β : Type} {V : β → Prop} {m : List (Key × β)} (h : MapValid V m)
    {k : Key} {v : β} (hl : m.lookup k = some v) : V v :=
  h.2 (k, v) (aux_lookup_mem hl)

theorem aux_mapValid_merge {β : Type} (L : LatOps β) (V : β → Prop)
    (hm : ∀ a b, V a → V b → V (L.merge a b)) (a b : List (Key × β))
    (ha : MapValid V a) (hb : MapValid V b) : MapValid V (mapMerge L a b) := by
  refine ⟨aux_mapMerge_nodup L a b ha.1 hb.1, ?_⟩
  intro kv hkv
  rcases aux_mapMerge_mem L a b ha.1 hb.1 kv hkv with h | h | ⟨s, o, hs, ho, e⟩
  · exact ha.2 kv h
  · exact hb.2 kv h
  · rw [e]; exact hm s o (ha.2 _ hs) (hb.2 _ ho)

section Keyed
variable {α β γ : Type} {A : LatOps α} {B : LatOps β} {C : LatOps γ}
  {VA : α → Prop} {VB : β → Prop} {VC : γ → Prop} {f : α → β → γ}

theorem aux_keyed_valid (bim : Bimorphism A B C VA VB VC f) (a : List (Key × α)) (b : List (Key × β))
    (ha : MapValid VA a) (hb : MapValid VB b) : MapValid VC (keyed f a b) := by
  refine ⟨aux_keyed_nodup f a b, ?_⟩
  intro kv hkv
  have hl := aux_lookup_of_mem (aux_keyed_nodup f a b) (show (kv.1, kv.2) ∈ _ from hkv)
  rw [aux_keyed_lookup f a b ha.1] at hl
  cases hx : a.lookup kv.1 with
  | none => simp [hx] at hl
  | some x =>
    cases hy : b.lookup kv.1 with
    | none => simp [hx, hy] at hl
    | some y =>
      simp only [hx, hy, Option.some.injEq] at hl
      rw [← hl]; exact bim.valid x y (aux_mapValid_lookup ha hx) (aux_mapValid_lookup hb hy)

/-- left law of `KeyedBimorphism` -/
theorem aux_keyed_left (lc : LatLaws C VC) (mva : ∀ a b, VA a → VA b → VA (A.merge a b))
    (bim : Bimorphism A B C VA VB VC f) (a a' : List (Key × α)) (b : List (Key × β))
    (ha : MapValid VA a) (ha' : MapValid VA a') (hb : MapValid VB b) :
    mapEq C (keyed f (mapMerge A a a') b) (mapMerge C (keyed f a b) (keyed f a' b)) = true := by
  have ndm := aux_mapMerge_nodup A a a' ha.1 ha'.1
  apply aux_mapEq_of_agree C _ _ (aux_keyed_nodup _ _ _)
    (aux_mapMerge_nodup C _ _ (aux_keyed_nodup _ _ _) (aux_keyed_nodup _ _ _))
  intro k
  rw [aux_keyed_lookup f _ b ndm, aux_mapMerge_lookup A a a' ha'.1,
    aux_mapMerge_lookup C _ _ (aux_keyed_nodup _ _ _), aux_keyed_lookup f a b ha.1,
    aux_keyed_lookup f a' b ha'.1]
  cases hy : b.lookup k with
  | none => cases a.lookup k <;> cases a'.lookup k <;> simp [agree]
  | some y =>
    have vy := aux_mapValid_lookup hb hy
    cases hx : a.lookup k with
    | none =>
      cases hx' : a'.lookup k with
      | none => simp [agree]
      | some x' =>
        have vx' := aux_mapValid_lookup ha' hx'
        by_cases hbx : A.isBot x' = true
        · have := bim.strict_left x' y vx' vy hbx
          simp [agree, hbx, this]
        · by_cases hbc : C.isBot (f x' y) = true
          · simp [agree, hbx, hbc]
          · simp [agree, hbx, hbc, lc.eq_refl]
    | some x =>
      have vx := aux_mapValid_lookup ha hx
      cases hx' : a'.lookup k with
      | none => simp [agree, lc.eq_refl]
      | some x' =>
        have vx' := aux_mapValid_lookup ha' hx'
        by_cases hbx : A.isBot x' = true
        · have := bim.strict_left x' y vx' vy hbx
          simp [agree, hbx, this, lc.eq_refl]
        · have law := bim.left x x' y vx vx' vy
          by_cases hbc : C.isBot (f x' y) = true
          · have h2 := lc.merge_bot_right (f x y) (f x' y) (bim.valid _ _ vx vy) (bim.valid _ _ vx' vy) hbc
            have h3 := lc.eq_trans _ _ _ (bim.valid _ _ (mva _ _ vx vx') vy)
              (lc.merge_valid _ _ (bim.valid _ _ vx vy) (bim.valid _ _ vx' vy)) (bim.valid _ _ vx vy) law h2
            simp [agree, hbx, hbc, h3]
          · simp [agree, hbx, hbc, law]

/-- right law of `KeyedBimorphism` -/
theorem aux_keyed_right (lc : LatLaws C VC) (mvb : ∀ a b, VB a → VB b → VB (B.merge a b))
    (bim : Bimorphism A B C VA VB VC f) (a : List (Key × α)) (b b' : List (Key × β))
    (ha : MapValid VA a) (hb : MapValid VB b) (hb' : MapValid VB b') :
    mapEq C (keyed f a (mapMerge B b b')) (mapMerge C (keyed f a b) (keyed f a b')) = true := by
  apply aux_mapEq_of_agree C _ _ (aux_keyed_nodup _ _ _)
    (aux_mapMerge_nodup C _ _ (aux_keyed_nodup _ _ _) (aux_keyed_nodup _ _ _))
  intro k
  rw [aux_keyed_lookup f a _ ha.1, aux_mapMerge_lookup B b b' hb'.1,
    aux_mapMerge_lookup C _ _ (aux_keyed_nodup _ _ _), aux_keyed_lookup f a b ha.1,
    aux_keyed_lookup f a b' ha.1]
  cases hx : a.lookup k with
  | none => cases b.lookup k <;> cases b'.lookup k <;> simp [agree]
  | some x =>
    have vx := aux_mapValid_lookup ha hx
    cases hy : b.lookup k with
    | none =>
      cases hy' : b'.lookup k with
      | none => simp [agree]
      | some y' =>
        have vy' := aux_mapValid_lookup hb' hy'
        by_cases hby : B.isBot y' = true
        · have := bim.strict_right x y' vx vy' hby
          simp [agree, hby, this]
        · by_cases hbc : C.isBot (f x y') = true
          · simp [agree, hby, hbc]
          · simp [agree, hby, hbc, lc.eq_refl]
    | some y =>
      have vy := aux_mapValid_lookup hb hy
      cases hy' : b'.lookup k with
      | none => simp [agree, lc.eq_refl]
      | some y' =>
        have vy' := aux_mapValid_lookup hb' hy'
        by_cases hby : B.isBot y' = true
        · have := bim.strict_right x y' vx vy' hby
          simp [agree, hby, this, lc.eq_refl]
        · have law := bim.right x y y' vx vy vy'
          by_cases hbc : C.isBot (f x y') = true
          · have h2 := lc.merge_bot_right (f x y) (f x y') (bim.valid _ _ vx vy) (bim.valid _ _ vx vy') hbc
            have h3 := lc.eq_trans _ _ _ (bim.valid _ _ vx (mvb _ _ vy vy'))
              (lc.merge_valid _ _ (bim.valid _ _ vx vy) (bim.valid _ _ vx vy')) (bim.valid _ _ vx vy) law h2
            simp [agree, hby, hbc, h3]
          · simp [agree, hby, hbc, law]

theorem aux_keyed_strict_left (bim : Bimorphism A B C VA VB VC f) (a : List (Key × α)) (b : List (Key × β))
    (ha : MapValid VA a) (hb : MapValid VB b) (hbot : mapIsBot A a = true) :
    mapIsBot C (keyed f a b) = true := by
  unfold mapIsBot at hbot ⊢
  rw [List.all_eq_true] at hbot ⊢
  intro kv hkv
  have hl := aux_lookup_of_mem (aux_keyed_nodup f a b) (show (kv.1, kv.2) ∈ _ from hkv)
  rw [aux_keyed_lookup f a b ha.1] at hl
  cases hx : a.lookup kv.1 with
  | none => simp [hx] at hl
  | some x =>
    cases hy : b.lookup kv.1 with
    | none => simp [hx, hy] at hl
    | some y =>
      simp only [hx, hy, Option.some.injEq] at hl
      rw [← hl]
      exact bim.strict_left x y (aux_mapValid_lookup ha hx) (aux_mapValid_lookup hb hy)
        (hbot _ (aux_lookup_mem hx))

theorem aux_keyed_strict_right (bim : Bimorphism A B C VA VB VC f) (a : List (Key × α)) (b : List (Key × β))
    (ha : MapValid VA a) (hb : MapValid VB b) (hbot : mapIsBot B b = true) :
    mapIsBot C (keyed f a b) = true := by
  unfold mapIsBot at hbot ⊢
  rw [List.all_eq_true] at hbot ⊢
  intro kv hkv
  have hl := aux_lookup_of_mem (aux_keyed_nodup f a b) (show (kv.1, kv.2) ∈ _ from hkv)
  rw [aux_keyed_lookup f a b ha.1] at hl
  cases hx : a.lookup kv.1 with
  | none => simp [hx] at hl
  | some x =>
    cases hy : b.lookup kv.1 with
    | none => simp [hx, hy] at hl
    | some y =>
      simp only [hx, hy, Option.some.injEq] at hl
      rw [← hl]
      exact bim.strict_right x y (aux_mapValid_lookup ha hx) (aux_mapValid_lookup hb hy)
        (hbot _ (aux_lookup_mem hy))

end Keyed

end HvGht
