/-
Helper lemmas (C08/C07): leaf storage, the well-formedness invariant `Wf` of tries and its
preservation; rows of `insert`, `merge_node`, `new_from`.
-/
import HvGht.Lemmas.Assoc

set_option linter.unusedSimpArgs false
set_option linter.unusedVariables false
set_option linter.unnecessarySeqFocus false

namespace HvGht
open List

/-! ### leaf storage -/

theorem aux_stInsert_mem (sk : Kind) (rows : List Row) (x y : Row) :
    y ∈ stInsert sk rows x ↔ y ∈ rows ∨ y = x := by
  unfold stInsert; cases sk
  · simp only; split
    · constructor
      · exact Or.inl
      · rintro (h | h); exact h; subst h; assumption
    · simp
  · simp

theorem aux_stInsert_nodup (rows : List Row) (x : Row) (h : rows.Nodup) :
    (stInsert .set rows x).Nodup := by
  unfold stInsert; simp only; split
  · exact h
  · rename_i hx; rw [List.nodup_append]; simp_all
    intro a ha e; subst e; exact hx ha

theorem aux_stInsert_set_of_mem (rows : List Row) (x : Row) (h : x ∈ rows) :
    stInsert .set rows x = rows := by
  simp [stInsert, h]

theorem aux_stExtend_mem (sk : Kind) (xs rows : List Row) (y : Row) :
    y ∈ stExtend sk rows xs ↔ y ∈ rows ∨ y ∈ xs := by
  induction xs generalizing rows with
  | nil => simp [stExtend]
  | cons x xs ih =>
    have := ih (stInsert sk rows x)
    simp only [stExtend, List.foldl_cons] at this ⊢
    rw [this, aux_stInsert_mem]; simp; tauto

theorem aux_stExtend_nodup (xs rows : List Row) (h : rows.Nodup) :
    (stExtend .set rows xs).Nodup := by
  induction xs generalizing rows with
  | nil => simpa [stExtend]
  | cons x xs ih =>
    simp only [stExtend, List.foldl_cons]
    exact ih _ (aux_stInsert_nodup rows x h)

theorem aux_stExtend_length (sk : Kind) (xs rows : List Row) :
    rows.length ≤ (stExtend sk rows xs).length := by
  induction xs generalizing rows with
  | nil => simp [stExtend]
  | cons x xs ih =>
    simp only [stExtend, List.foldl_cons]
    refine Nat.le_trans ?_ (ih _)
    unfold stInsert; cases sk <;> simp <;> split <;> simp

/-- extending a duplicate-free set: the length grows iff something new arrives -/
theorem aux_stExtend_set_grows (xs rows : List Row) (h : rows.Nodup) :
    rows.length < (stExtend .set rows xs).length ↔ ∃ x ∈ xs, x ∉ rows := by
  induction xs generalizing rows with
  | nil => simp [stExtend]
  | cons x xs ih =>
    simp only [stExtend, List.foldl_cons]
    by_cases hx : x ∈ rows
    · rw [aux_stInsert_set_of_mem rows x hx]
      have := ih rows h
      simp only [stExtend] at this
      rw [this]; constructor
      · rintro ⟨y, hy, hn⟩; exact ⟨y, List.mem_cons_of_mem _ hy, hn⟩
      · rintro ⟨y, hy, hn⟩
        rcases List.mem_cons.mp hy with e | hy
        · subst e; exact absurd hx hn
        · exact ⟨y, hy, hn⟩
    · constructor
      · intro _; exact ⟨x, List.mem_cons_self, hx⟩
      · intro _
        have h1 : (stInsert .set rows x).length = rows.length + 1 := by simp [stInsert, hx]
        have h2 := aux_stExtend_length .set xs (stInsert .set rows x)
        simp only [stExtend] at h2
        omega

/-! ### rows of a trie -/

theorem aux_grows_succ (n : Nat) (t : Ght (n + 1)) : grows (n + 1) t = lrows (grows n) t.kids := rfl

theorem aux_grows_empty (n : Nat) : grows n (gempty n) = [] := by
  cases n <;> simp [grows, gempty, Leaf.empty]

theorem aux_lrows_cons {α : Type} (R : α → List Row) (kc : Key × α) (cs : List (Key × α)) :
    lrows R (kc :: cs) = R kc.2 ++ lrows R cs := by simp [lrows]

theorem aux_upsert_mem_rows {α β : Type} (R : α → List Row) (k : Key) (d : α) (f : α → α × β)
    (row : Row) (hd : R d = []) (hf : ∀ c x, x ∈ R (f c).1 ↔ x ∈ R c ∨ x = row)
    (cs : List (Key × α)) (x : Row) :
    x ∈ lrows R (upsert k d f cs).1 ↔ x ∈ lrows R cs ∨ x = row := by
  induction cs with
  | nil => simp [upsert, lrows, hf, hd]
  | cons kc cs ih =>
    obtain ⟨k0, c0⟩ := kc
    unfold upsert
    by_cases h0 : k0 = k
    · simp only [h0, if_true, aux_lrows_cons, List.mem_append, hf]; tauto
    · simp only [h0, if_false, aux_lrows_cons, List.mem_append, ih]; tauto

theorem aux_mergeChild_mem_rows {α : Type} (R : α → List Row) (mn : α → α → α × Bool)
    (hm : ∀ a b x, x ∈ R (mn a b).1 ↔ x ∈ R a ∨ x ∈ R b) (k : Key) (v : α)
    (cs : List (Key × α)) (x : Row) :
    x ∈ lrows R (mergeChild mn k v cs).1 ↔ x ∈ lrows R cs ∨ x ∈ R v := by
  induction cs with
  | nil => simp [mergeChild, lrows]
  | cons kc cs ih =>
    obtain ⟨k0, c0⟩ := kc
    unfold mergeChild
    by_cases h0 : k0 = k
    · simp only [h0, if_true, aux_lrows_cons, List.mem_append, hm]; tauto
    · simp only [h0, if_false, aux_lrows_cons, List.mem_append, ih]; tauto

theorem aux_mergeLoop_mem_rows {α : Type} (R : α → List Row) (mn : α → α → α × Bool)
    (hm : ∀ a b x, x ∈ R (mn a b).1 ↔ x ∈ R a ∨ x ∈ R b)
    (other self : List (Key × α)) (fl : Bool) (x : Row) :
    x ∈ lrows R (mergeLoop mn other (self, fl)).1 ↔ x ∈ lrows R self ∨ x ∈ lrows R other := by
  induction other generalizing self fl with
  | nil => simp [mergeLoop, lrows]
  | cons kv other ih =>
    rw [aux_mergeLoop_cons, ih, aux_mergeChild_mem_rows R mn hm, aux_lrows_cons, List.mem_append]; tauto

/-! ### the invariant -/

/-- Well-formed trie of height `n` whose root sits at depth `d`: keys of every node are
distinct (it is a `HashMap`), every row stored below the child for key `k` of a node at
depth `d'` has `k` in column `d'`, and hash-set leaves hold no duplicates. -/
def Wf (sk : Kind) : (n : Nat) → (d : Nat) → Ght n → Prop
  | 0, _, t => sk = .set → t.toLeaf.rows.Nodup
  | n + 1, d, t => (keysOf t.kids).Nodup ∧
      ∀ kc ∈ t.kids, Wf sk n (d + 1) kc.2 ∧ ∀ r ∈ grows n kc.2, headAt d r = kc.1

theorem aux_wf_empty (sk : Kind) (n d : Nat) : Wf sk n d (gempty n) := by
  cases n <;> simp [Wf, gempty, Leaf.empty, keysOf]

theorem aux_wf_child {sk : Kind} {n d : Nat} {t : Ght (n + 1)} (h : Wf sk (n + 1) d t)
    {k : Key} {c : Ght n} (hl : t.kids.lookup k = some c) :
    Wf sk n (d + 1) c ∧ ∀ r ∈ grows n c, headAt d r = k :=
  h.2 (k, c) (aux_lookup_mem hl)

/-- rows of an inner node through `lookup` -/
theorem aux_mem_grows_succ {sk : Kind} {n d : Nat} {t : Ght (n + 1)} (h : Wf sk (n + 1) d t) {x : Row} :
    x ∈ grows (n + 1) t ↔ ∃ c, t.kids.lookup (headAt d x) = some c ∧ x ∈ grows n c := by
  rw [aux_grows_succ, aux_mem_lrows_lookup h.1]
  constructor
  · rintro ⟨k, c, hl, hx⟩
    have := (aux_wf_child h hl).2 x hx
    exact ⟨c, this ▸ hl, hx⟩
  · rintro ⟨c, hl, hx⟩; exact ⟨_, c, hl, hx⟩

/-! ### insert -/

theorem aux_mem_rows_insert (sk : Kind) (n d : Nat) (t : Ght n) (row x : Row) :
    x ∈ grows n (ginsert sk n d t row).1 ↔ x ∈ grows n t ∨ x = row := by
  induction n generalizing d x with
  | zero => simp [ginsert, grows, Leaf.insert, aux_stInsert_mem]
  | succ n ih =>
    simp only [ginsert, aux_grows_succ]
    exact aux_upsert_mem_rows (grows n) _ _ _ row (aux_grows_empty n) (fun c x => ih (d + 1) c x) _ x

theorem aux_wf_insert (sk : Kind) (n d : Nat) (t : Ght n) (row : Row) (h : Wf sk n d t) :
    Wf sk n d (ginsert sk n d t row).1 := by
  induction n generalizing d with
  | zero =>
    intro e; subst e
    simp only [ginsert, Leaf.insert]
    exact aux_stInsert_nodup _ _ (h rfl)
  | succ n ih =>
    simp only [ginsert]
    have nd := aux_upsert_nodup (headAt d row) (gempty n) (fun c => ginsert sk n (d + 1) c row) t.kids h.1
    refine ⟨nd, ?_⟩
    rintro ⟨k, c⟩ hmem
    have hl := aux_lookup_of_mem nd hmem
    rw [aux_upsert_lookup] at hl
    by_cases hk : k = headAt d row
    · simp only [hk, if_true, Option.some.injEq] at hl
      subst hl
      -- the old child (or a fresh default)
      have hold : Wf sk n (d + 1) ((t.kids.lookup (headAt d row)).getD (gempty n)) ∧
          ∀ r ∈ grows n ((t.kids.lookup (headAt d row)).getD (gempty n)), headAt d r = headAt d row := by
        cases hlo : t.kids.lookup (headAt d row) with
        | none => simp [aux_wf_empty, aux_grows_empty]
        | some c0 => simpa using aux_wf_child h hlo
      refine ⟨ih _ _ hold.1, ?_⟩
      intro r hr
      rw [aux_mem_rows_insert] at hr
      rcases hr with hr | hr
      · rw [hk]; exact hold.2 r hr
      · subst hr; exact hk.symm
    · simp only [hk, if_false] at hl
      exact aux_wf_child h hl

/-- `new_from`: fold of inserts -/
theorem aux_newFrom_spec (sk : Kind) (n d : Nat) (xs : List Row) (t0 : Ght n) (h0 : Wf sk n d t0) :
    let t := xs.foldl (fun t r => (ginsert sk n d t r).1) t0
    Wf sk n d t ∧ ∀ x, x ∈ grows n t ↔ x ∈ grows n t0 ∨ x ∈ xs := by
  induction xs generalizing t0 with
  | nil => simp [h0]
  | cons r xs ih =>
    have := ih (ginsert sk n d t0 r).1 (aux_wf_insert sk n d t0 r h0)
    simp only [List.foldl_cons] at this ⊢
    refine ⟨this.1, fun x => ?_⟩
    rw [this.2, aux_mem_rows_insert]; simp; tauto

/-! ### merge -/

theorem aux_mem_rows_merge (sk : Kind) (n : Nat) (a b : Ght n) (x : Row) :
    x ∈ grows n (gmerge sk n a b).1 ↔ x ∈ grows n a ∨ x ∈ grows n b := by
  induction n generalizing x with
  | zero => simp [gmerge, grows, Leaf.mergeNode, aux_stExtend_mem]
  | succ n ih =>
    simp only [gmerge, aux_grows_succ, aux_innerMerge_eq]
    exact aux_mergeLoop_mem_rows (grows n) (gmerge sk n) (fun a b x => ih a b x) _ _ _ x

theorem aux_wf_merge (sk : Kind) (n d : Nat) (a b : Ght n) (ha : Wf sk n d a) (hb : Wf sk n d b) :
    Wf sk n d (gmerge sk n a b).1 := by
  induction n generalizing d with
  | zero =>
    intro e; subst e
    simp only [gmerge, Leaf.mergeNode]
    exact aux_stExtend_nodup _ _ (ha rfl)
  | succ n ih =>
    simp only [gmerge, aux_innerMerge_eq]
    have nd := aux_mergeLoop_nodup (gmerge sk n) b.kids a.kids false ha.1
    refine ⟨nd, ?_⟩
    rintro ⟨k, c⟩ hmem
    have hl := aux_lookup_of_mem nd hmem
    rw [aux_mergeLoop_lookup _ _ hb.1] at hl
    cases hlb : b.kids.lookup k with
    | none =>
      simp only [hlb] at hl
      exact aux_wf_child ha hl
    | some vb =>
      simp only [hlb, Option.some.injEq] at hl
      have hvb := aux_wf_child hb hlb
      cases hla : a.kids.lookup k with
      | none =>
        simp only [hla, mergedVal] at hl; subst hl; exact hvb
      | some va =>
        simp only [hla, mergedVal] at hl; subst hl
        have hva := aux_wf_child ha hla
        refine ⟨ih _ _ _ hva.1 hvb.1, ?_⟩
        intro r hr
        rw [aux_mem_rows_merge] at hr
        rcases hr with hr | hr
        · exact hva.2 r hr
        · exact hvb.2 r hr

end HvGht
