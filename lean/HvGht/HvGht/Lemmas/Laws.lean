/-
Helper lemmas (C07): the lattice laws for sets, pairs and maps (so that the keyed construction
nests), and the bimorphism facts for the cartesian product.
-/
import HvGht.Lemmas.Bim

set_option linter.unusedSimpArgs false
set_option linter.unusedVariables false
set_option linter.unnecessarySeqFocus false

namespace HvGht
open List

/-! ### sets -/
section Set
variable {α : Type} [DecidableEq α]

theorem aux_latLaws_set : LatLaws (setOps : LatOps (List α)) List.Nodup where
  eq_refl := aux_setEq_refl
  eq_trans := by
    intro a b c ha hb hc h1 h2
    simp only [setOps] at *
    rw [aux_setEq_iff _ _ ha hb] at h1
    rw [aux_setEq_iff _ _ hb hc] at h2
    rw [aux_setEq_iff _ _ ha hc]
    intro x; rw [h1 x, h2 x]
  isBot_congr := by
    intro a b _ _ h
    simp only [setOps, setEq, setIsBot, Bool.and_eq_true, beq_iff_eq] at *
    cases a <;> cases b <;> simp_all
  merge_bot_right := by
    intro a b _ _ h
    simp only [setOps, setIsBot, List.isEmpty_iff] at *
    subst h; simp [setMerge, aux_setEq_refl]
  merge_valid := fun a b ha _ => aux_setMerge_nodup b a ha

theorem aux_set_idem (b : List α) (hb : b.Nodup) : setEq b (setMerge b b) = true := by
  rw [aux_setEq_iff _ _ hb (aux_setMerge_nodup b b hb)]
  intro x; rw [aux_setMerge_mem]; tauto

theorem aux_cartesianProduct_nodup {β : Type} [DecidableEq β] (a : List α) (b : List β) :
    (cartesianProduct a b).Nodup := aux_setCollect_nodup _

theorem aux_bimorphism_cp {β : Type} [DecidableEq β] :
    Bimorphism (setOps : LatOps (List α)) (setOps : LatOps (List β)) (setOps : LatOps (List (α × β)))
      List.Nodup List.Nodup List.Nodup cartesianProduct where
  valid := fun a b _ _ => aux_setCollect_nodup _
  left := by
    intro a a' b ha ha' hb
    simp only [setOps]
    rw [aux_setEq_iff _ _ (aux_cartesianProduct_nodup _ _) (aux_setMerge_nodup _ _ (aux_cartesianProduct_nodup _ _))]
    intro p
    rw [aux_setMerge_mem, aux_mem_cartesianProduct, aux_mem_cartesianProduct, aux_mem_cartesianProduct,
      aux_setMerge_mem]
    tauto
  right := by
    intro a b b' ha hb hb'
    simp only [setOps]
    rw [aux_setEq_iff _ _ (aux_cartesianProduct_nodup _ _) (aux_setMerge_nodup _ _ (aux_cartesianProduct_nodup _ _))]
    intro p
    rw [aux_setMerge_mem, aux_mem_cartesianProduct, aux_mem_cartesianProduct, aux_mem_cartesianProduct,
      aux_setMerge_mem]
    tauto
  strict_left := by
    intro a b _ _ h
    simp only [setOps, setIsBot, List.isEmpty_iff] at *
    subst h; simp [cartesianProduct, setCollect, setMerge]
  strict_right := by
    intro a b _ _ h
    simp only [setOps, setIsBot, List.isEmpty_iff] at *
    subst h
    have : (a.flatMap fun _ => ([] : List (α × β))) = [] :=
      List.flatMap_eq_nil_iff.mpr (fun _ _ => rfl)
    simp [cartesianProduct, setCollect, setMerge, this]

end Set

/-! ### pairs -/
section Pair
variable {α β : Type} {A : LatOps α} {B : LatOps β} {VA : α → Prop} {VB : β → Prop}

theorem aux_latLaws_pair (la : LatLaws A VA) (lb : LatLaws B VB) :
    LatLaws (pairOps A B) (fun p => VA p.1 ∧ VB p.2) where
  eq_refl := by intro a; simp [pairOps, la.eq_refl, lb.eq_refl]
  eq_trans := by
    intro a b c ha hb hc h1 h2
    simp only [pairOps, Bool.and_eq_true] at *
    exact ⟨la.eq_trans _ _ _ ha.1 hb.1 hc.1 h1.1 h2.1, lb.eq_trans _ _ _ ha.2 hb.2 hc.2 h1.2 h2.2⟩
  isBot_congr := by
    intro a b ha hb h
    simp only [pairOps, Bool.and_eq_true] at *
    rw [la.isBot_congr _ _ ha.1 hb.1 h.1, lb.isBot_congr _ _ ha.2 hb.2 h.2]
  merge_bot_right := by
    intro a b ha hb h
    simp only [pairOps, Bool.and_eq_true] at *
    exact ⟨la.merge_bot_right _ _ ha.1 hb.1 h.1, lb.merge_bot_right _ _ ha.2 hb.2 h.2⟩
  merge_valid := fun a b ha hb => ⟨la.merge_valid _ _ ha.1 hb.1, lb.merge_valid _ _ ha.2 hb.2⟩

end Pair

/-! ### maps -/
section Map
variable {β : Type} {L : LatOps β} {V : β → Prop}

theorem aux_mapEq_refl (l : LatLaws L V) (a : List (Key × β)) : mapEq L a a = true := by
  unfold mapEq
  rw [List.all_eq_true]
  intro k _
  cases a.lookup k <;> simp [l.eq_refl]

theorem aux_mapEq_left (a b : List (Key × β)) (nda : (keysOf a).Nodup) (h : mapEq L a b = true)
    {k : Key} {x : β} (ha : a.lookup k = some x) (hx : L.isBot x = false) :
    ∃ y, b.lookup k = some y ∧ L.eq x y = true := by
  unfold mapEq at h
  rw [List.all_eq_true] at h
  have hk : k ∈ (a.filter fun kv => !L.isBot kv.2).map (·.1) ++ (b.filter fun kv => !L.isBot kv.2).map (·.1) := by
    apply List.mem_append_left
    exact List.mem_map.mpr ⟨(k, x), List.mem_filter.mpr ⟨aux_lookup_mem ha, by simp [hx]⟩, rfl⟩
  have := h k hk
  rw [ha] at this
  cases hb : b.lookup k with
  | none => simp [hb] at this
  | some y => exact ⟨y, rfl, by simpa [hb] using this⟩

theorem aux_mapEq_right (a b : List (Key × β)) (ndb : (keysOf b).Nodup) (h : mapEq L a b = true)
    {k : Key} {y : β} (hb : b.lookup k = some y) (hy : L.isBot y = false) :
    ∃ x, a.lookup k = some x ∧ L.eq x y = true := by
  unfold mapEq at h
  rw [List.all_eq_true] at h
  have hk : k ∈ (a.filter fun kv => !L.isBot kv.2).map (·.1) ++ (b.filter fun kv => !L.isBot kv.2).map (·.1) := by
    apply List.mem_append_right
    exact List.mem_map.mpr ⟨(k, y), List.mem_filter.mpr ⟨aux_lookup_mem hb, by simp [hy]⟩, rfl⟩
  have := h k hk
  rw [hb] at this
  cases ha : a.lookup k with
  | none => simp [ha] at this
  | some x => exact ⟨x, rfl, by simpa [ha] using this⟩

theorem aux_not_bot {b : Bool} (h : ¬ b = true) : b = false := by cases b <;> simp_all

theorem aux_latLaws_map (l : LatLaws L V) : LatLaws (mapOps L) (MapValid V) where
  eq_refl := aux_mapEq_refl l
  eq_trans := by
    intro a b c ha hb hc h1 h2
    simp only [mapOps] at *
    apply aux_mapEq_of_agree L a c ha.1 hc.1
    intro k
    -- a non-bottom value on one side travels to the other side
    have fwd : ∀ x, a.lookup k = some x → L.isBot x = false →
        ∃ z, c.lookup k = some z ∧ L.eq x z = true ∧ L.isBot z = false := by
      intro x hx hbx
      obtain ⟨y, hy, exy⟩ := aux_mapEq_left a b ha.1 h1 hx hbx
      have vx := aux_mapValid_lookup ha hx
      have vy := aux_mapValid_lookup hb hy
      have hby : L.isBot y = false := by rw [← l.isBot_congr x y vx vy exy]; exact hbx
      obtain ⟨z, hz, eyz⟩ := aux_mapEq_left b c hb.1 h2 hy hby
      have vz := aux_mapValid_lookup hc hz
      exact ⟨z, hz, l.eq_trans x y z vx vy vz exy eyz, by rw [← l.isBot_congr y z vy vz eyz]; exact hby⟩
    have bwd : ∀ z, c.lookup k = some z → L.isBot z = false →
        ∃ x, a.lookup k = some x ∧ L.eq x z = true ∧ L.isBot x = false := by
      intro z hz hbz
      obtain ⟨y, hy, eyz⟩ := aux_mapEq_right b c hc.1 h2 hz hbz
      have vz := aux_mapValid_lookup hc hz
      have vy := aux_mapValid_lookup hb hy
      have hby : L.isBot y = false := by rw [l.isBot_congr y z vy vz eyz]; exact hbz
      obtain ⟨x, hx, exy⟩ := aux_mapEq_right a b hb.1 h1 hy hby
      have vx := aux_mapValid_lookup ha hx
      exact ⟨x, hx, l.eq_trans x y z vx vy vz exy eyz, by rw [l.isBot_congr x y vx vy exy]; exact hby⟩
    cases hx : a.lookup k with
    | none =>
      cases hz : c.lookup k with
      | none => simp [agree]
      | some z =>
        simp only [agree]
        by_cases hbz : L.isBot z = true
        · exact hbz
        · obtain ⟨x, hx', _⟩ := bwd z hz (aux_not_bot hbz)
          rw [hx] at hx'; cases hx'
    | some x =>
      by_cases hbx : L.isBot x = true
      · cases hz : c.lookup k with
        | none => simpa [agree] using hbx
        | some z =>
          simp only [agree]
          by_cases hbz : L.isBot z = true
          · exact Or.inr ⟨hbx, hbz⟩
          · obtain ⟨x', hx', _, hnb⟩ := bwd z hz (aux_not_bot hbz)
            rw [hx] at hx'; cases hx'
            rw [hbx] at hnb; cases hnb
      · obtain ⟨z, hz, exz, _⟩ := fwd x hx (aux_not_bot hbx)
        simp only [hz, agree]
        exact Or.inl exz
  isBot_congr := by
    intro a b ha hb h
    simp only [mapOps] at *
    unfold mapIsBot
    cases hA : a.all (fun kv => L.isBot kv.2) with
    | true =>
      symm; rw [List.all_eq_true] at hA ⊢
      intro kv hkv
      by_cases hbv : L.isBot kv.2 = true
      · exact hbv
      · have hl := aux_lookup_of_mem hb.1 (show (kv.1, kv.2) ∈ b from hkv)
        obtain ⟨x, hx, exy⟩ := aux_mapEq_right a b hb.1 h hl (aux_not_bot hbv)
        have := hA _ (aux_lookup_mem hx)
        rw [l.isBot_congr x kv.2 (aux_mapValid_lookup ha hx) (hb.2 _ hkv) exy] at this
        exact this
    | false =>
      symm
      have : ¬ (a.all (fun kv => L.isBot kv.2) = true) := by simp [hA]
      rw [List.all_eq_true] at this
      obtain ⟨kv, hkv, hnb⟩ : ∃ kv, kv ∈ a ∧ ¬ L.isBot kv.2 = true := by
        by_contra hc
        exact this (fun kv hkv => by by_contra hn; exact hc ⟨kv, hkv, hn⟩)
      have hl := aux_lookup_of_mem ha.1 (show (kv.1, kv.2) ∈ a from hkv)
      obtain ⟨y, hy, exy⟩ := aux_mapEq_left a b ha.1 h hl (aux_not_bot hnb)
      have hby : L.isBot y = false := by
        rw [← l.isBot_congr kv.2 y (ha.2 _ hkv) (aux_mapValid_lookup hb hy) exy]; exact aux_not_bot hnb
      cases hB : b.all (fun kv => L.isBot kv.2) with
      | false => rfl
      | true =>
        rw [List.all_eq_true] at hB
        have := hB _ (aux_lookup_mem hy)
        simp [hby] at this
  merge_bot_right := by
    intro a b ha hb h
    simp only [mapOps] at *
    apply aux_mapEq_of_agree L _ a (aux_mapMerge_nodup L a b ha.1 hb.1) ha.1
    intro k
    rw [aux_mapMerge_lookup L a b hb.1]
    unfold mapIsBot at h
    rw [List.all_eq_true] at h
    cases hx : a.lookup k with
    | none =>
      cases hy : b.lookup k with
      | none => simp [agree]
      | some y => have := h _ (aux_lookup_mem hy); simp [agree, this]
    | some x =>
      cases hy : b.lookup k with
      | none => simp [agree, l.eq_refl]
      | some y => have := h _ (aux_lookup_mem hy); simp [agree, this, l.eq_refl]
  merge_valid := fun a b ha hb => aux_mapValid_merge L V l.merge_valid a b ha hb

/-- the keyed construction yields a bimorphism again (so it nests) -/
theorem aux_bimorphism_keyed {α γ : Type} {A : LatOps α} {C : LatOps γ} {VA : α → Prop} {VC : γ → Prop}
    {f : α → β → γ} (la : LatLaws A VA) (lb : LatLaws L V) (lc : LatLaws C VC)
    (bim : Bimorphism A L C VA V VC f) :
    Bimorphism (mapOps A) (mapOps L) (mapOps C) (MapValid VA) (MapValid V) (MapValid VC) (keyed f) where
  valid := fun a b ha hb => aux_keyed_valid bim a b ha hb
  left := fun a a' b ha ha' hb => aux_keyed_left lc la.merge_valid bim a a' b ha ha' hb
  right := fun a b b' ha hb hb' => aux_keyed_right lc lb.merge_valid bim a b b' ha hb hb'
  strict_left := fun a b ha hb h => aux_keyed_strict_left bim a b ha hb h
  strict_right := fun a b ha hb h => aux_keyed_strict_right bim a b ha hb h

end Map

end HvGht
