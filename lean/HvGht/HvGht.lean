import HvGht.Model.Ght
import HvGht.Model.Morph
