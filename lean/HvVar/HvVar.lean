import HvVar.Model.Collections
import HvVar.Model.Columns
