import HvVar.Model.Collections
