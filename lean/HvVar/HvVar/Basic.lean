def hello := "world"
