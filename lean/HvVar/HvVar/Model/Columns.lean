/-
Faithful model of the *columnar* storage of `VariadicColumnMultiset`
(`variadics/src/variadic_collections.rs`) on top of `VecVariadic`
(`variadics/src/lib.rs`: `zip_vecs`, `push`, `drain`, `into_singleton_vec`).

A schema of arity `k ≥ 1` is a row `List α` of length `k`; `columns` is the variadic of
`Vec`s, i.e. a list of `k` columns.  (For arity 0 the Rust base case `zip_vecs = repeat(())`
is an infinite iterator; arity 0 is outside the model and excluded by the `k ≥ 1` guard.)
Import-free: linked into the driver.
-/
namespace HvVar

/-- `VecVariadic::zip_vecs` / `into_zip`: `zip(this.iter(), rest.zip_vecs())`, with the unit
base case (`repeat(())`) folded into the last real column. -/
def zipRows {α : Type} : List (List α) → List (List α)
  | [] => []
  | [c] => c.map (fun x => [x])
  | c :: cs => List.zipWith (fun x r => x :: r) c (zipRows cs)

/-- `VecVariadic::push`: push the i-th field onto the i-th column. -/
def pushRow {α : Type} (cols : List (List α)) (row : List α) : List (List α) :=
  List.zipWith (fun col x => col ++ [x]) cols row

/-- `VariadicExt::into_singleton_vec`: one-element columns. -/
def singletonCols {α : Type} (row : List α) : List (List α) := row.map (fun x => [x])

structure ColStore (α : Type) where
  /-- `columns: Schema::IntoVec` -/
  columns : List (List α)
  /-- `last_offset: usize` -/
  lastOffset : Nat
deriving Repr

namespace ColStore
variable {α : Type} [DecidableEq α]

/-- `new()`: `columns = Default::default()` (k empty vecs), `last_offset = 0`. -/
def empty (k : Nat) : ColStore α := ⟨List.replicate k [], 0⟩

/-- `insert`: `if last_offset == 0 { columns = element.into_singleton_vec() } else { columns.push(element) }`. -/
def insert (s : ColStore α) (row : List α) : ColStore α × Bool :=
  if s.lastOffset = 0 then (⟨singletonCols row, s.lastOffset + 1⟩, true)
  else (⟨pushRow s.columns row, s.lastOffset + 1⟩, true)

def extend (s : ColStore α) (rows : List (List α)) : ColStore α :=
  rows.foldl (fun s r => (s.insert r).1) s

def len (s : ColStore α) : Nat := s.lastOffset
def isEmpty (s : ColStore α) : Bool := s.lastOffset == 0
/-- `iter`: `self.columns.zip_vecs()` -/
def iter (s : ColStore α) : List (List α) := zipRows s.columns
def contains (s : ColStore α) (row : List α) : Bool := s.iter.any (fun t => decide (t = row))
/-- `drain`: `last_offset = 0; columns.drain(0..)` — every column is emptied (also when the
returned iterator is dropped early: `Vec::Drain::drop` removes the range). -/
def drain (s : ColStore α) : ColStore α × List (List α) :=
  (⟨s.columns.map (fun _ => []), 0⟩, zipRows s.columns)

end ColStore
end HvVar
